(* Proofs/HtmlLexRt.v — the strict lexer of Spec/HtmlSpec.v (Part B) inverts the serialiser of
   Model/Html.v: for every lexable event list, html_lex (ser evs) = Some (toks_of evs), where
   toks_of is the event list as the lexer sees it (one token per tag / placeholder, maximal runs of
   text merged).  Then the token predicates follow from the event predicates.
   Part 1: pieces, merge, toks_of, printing.
   Part 2: canonical token lists and the lexer theorem  html_lex (print ts) = Some ts.
   Part 3: lexable events give canonical tokens; safe events are lexable.
   Part 4: tok_nest / tok_safe / drop_sp_attr over toks_of.
   Part 5: a lexability theorem for the renderer's events beyond the safe case.
   Part 6: the byte-level statements about `html` (C02, C10, C18).
   Part 7: strictness of the lexer: whatever it accepts prints back to the input. *)
From Coq Require Import List NArith Bool Lia Strings.String.
From V Require Import Base.Bytes Base.Res Gen.Scanners Model.Escape Model.Ast Model.Html
  Spec.EscapeSpec Spec.HtmlSpec Spec.Shape Proofs.EscapeProofs Proofs.HtmlSafe Proofs.HtmlNest Proofs.HtmlSp.
Import ListNotations.
Local Open Scope string_scope.
Local Open Scope list_scope.

(* ------------------------------------------------------------------ Part 1 *)
(* an event list, chunk by chunk, as tokens and text pieces; mirrors ser_chunks *)
Inductive piece := PTok (k : tok) | PTxt (b : bytes).

Definition tok_attr (a : attr) : bytes * option bytes :=
  match a with
  | Attr n v => (n, Some (flat_map ser_part v))
  | BAttr n => (n, None)
  | SpAttr sp => (sp_name, Some (ser_sp sp))
  end.

Definition piece_of (e : ev) : piece :=
  match e with
  | Open t a => PTok (TOpen t (map tok_attr a))
  | Void t a => PTok (TVoid t (map tok_attr a))
  | Close t => PTok (TClose t)
  | Cmt => PTok TCmt
  | Txt b => PTxt (escape_spec b)
  | Lit b => PTxt b
  | RawHtml b => PTxt b
  | Cr => PTxt []
  end.

Fixpoint pieces (last_lf : bool) (evs : list ev) : list piece :=
  match evs with
  | [] => []
  | Cr :: r => if last_lf then pieces last_lf r else PTxt [x0a] :: pieces true r
  | e :: r => piece_of e :: pieces (ends_lf last_lf (ser_ev e)) r
  end.

Definition flush (pend : bytes) : list tok :=
  match pend with [] => [] | _ => [TText pend] end.

(* maximal runs of text pieces become one TText; empty text gives no token *)
Fixpoint merge (pend : bytes) (ps : list piece) : list tok :=
  match ps with
  | [] => flush pend
  | PTxt b :: r => merge (pend ++ b) r
  | PTok k :: r => flush pend ++ k :: merge [] r
  end.

Definition toks_of (evs : list ev) : list tok := merge [] (pieces true evs).

Definition piece_bytes (p : piece) : bytes :=
  match p with PTok k => tok_bytes k | PTxt b => b end.

Lemma tok_attr_bytes_ser a : tok_attr_bytes (tok_attr a) = ser_attr a.
Proof. destruct a; reflexivity. Qed.

Lemma flat_map_map {A B C} (f : A -> B) (g : B -> list C) l :
  flat_map g (map f l) = flat_map (fun x => g (f x)) l.
Proof. induction l as [|x l IH]; [reflexivity|]. cbn [map flat_map]. rewrite IH. reflexivity. Qed.

Lemma tok_attrs_bytes_ser a : flat_map tok_attr_bytes (map tok_attr a) = flat_map ser_attr a.
Proof.
  rewrite flat_map_map. apply flat_map_ext. intro x. apply tok_attr_bytes_ser.
Qed.

Lemma piece_of_bytes e : piece_bytes (piece_of e) = ser_ev e.
Proof.
  destruct e; cbn [piece_of piece_bytes tok_bytes ser_ev]; rewrite ?tok_attrs_bytes_ser; reflexivity.
Qed.

Lemma pieces_bytes : forall evs l,
  flat_map piece_bytes (pieces l evs) = List.concat (ser_chunks l evs).
Proof.
  induction evs as [|e r IH]; intro l; [reflexivity|].
  destruct e; cbn [pieces ser_chunks];
    try (cbn [flat_map List.concat]; rewrite IH, piece_of_bytes; reflexivity).
  destruct l; [apply IH|]. cbn [flat_map List.concat piece_bytes]. rewrite IH. reflexivity.
Qed.

Lemma flush_bytes pend : flat_map tok_bytes (flush pend) = pend.
Proof. destruct pend; [reflexivity|]. cbn [flush flat_map tok_bytes]. apply app_nil_r. Qed.

Lemma merge_bytes : forall ps pend,
  flat_map tok_bytes (merge pend ps) = pend ++ flat_map piece_bytes ps.
Proof.
  induction ps as [|p r IH]; intro pend; cbn [merge flat_map].
  - rewrite flush_bytes, app_nil_r. reflexivity.
  - destruct p as [k|b]; cbn [piece_bytes].
    + rewrite flat_map_app, flush_bytes. cbn [flat_map]. rewrite IH. reflexivity.
    + rewrite IH, app_assoc. reflexivity.
Qed.

(* printing lemma: the tokens of an event list print back to its serialisation *)
Lemma toks_of_print evs : flat_map tok_bytes (toks_of evs) = ser evs.
Proof. unfold toks_of, ser. rewrite merge_bytes. apply pieces_bytes. Qed.

(* ------------------------------------------------------------------ Part 2 *)
Definition notlt (b : byte) : bool := negb (beqb b x3c).

Definition tagname_ok (t : bytes) : bool :=
  match t with [] => false | _ => forallb tag_byte t end.
Definition attrname_ok (n : bytes) : bool :=
  match n with [] => false | _ => forallb attrname_byte n end.

Definition tattr_lex (a : bytes * option bytes) : bool :=
  attrname_ok (fst a) &&
  match snd a with None => true | Some v => forallb no_active_byte v end.

(* tokens the lexer can produce from a tag or the placeholder *)
Definition tok_lex (k : tok) : bool :=
  match k with
  | TOpen t a => tagname_ok t && forallb tattr_lex a
  | TVoid t a => tagname_ok t && forallb tattr_lex a
  | TClose t => tagname_ok t
  | TText _ => false
  | TCmt => true
  end.

(* canonical token lists: text tokens non-empty, free of LT, never adjacent *)
Fixpoint canon (ts : list tok) : bool :=
  match ts with
  | [] => true
  | TText b :: r =>
    (match b with [] => false | _ => true end) && forallb notlt b &&
    (match r with TText _ :: _ => false | _ => true end) && canon r
  | k :: r => tok_lex k && canon r
  end.

Lemma span_app (p : byte -> bool) : forall a t,
  forallb p a = true -> (match t with [] => true | y :: _ => negb (p y) end) = true ->
  span p (a ++ t) = (a, t).
Proof.
  induction a as [|x a IH]; intros t Ha Ht.
  - destruct t as [|y t]; [reflexivity|]. cbn [app span]. apply negb_true_iff in Ht. rewrite Ht. reflexivity.
  - cbn [forallb] in Ha. apply andb_true_iff in Ha. destruct Ha as [Hx Ha].
    cbn [app span]. rewrite Hx, (IH t Ha Ht). reflexivity.
Qed.

Lemma lex_value_app : forall v t,
  forallb no_active_byte v = true -> lex_value (v ++ x22 :: t) = Some (v, t).
Proof.
  induction v as [|x v IH]; intros t H.
  - reflexivity.
  - cbn [forallb] in H. apply andb_true_iff in H. destruct H as [Hx Hv].
    cbn [app lex_value]. rewrite (IH t Hv).
    unfold no_active_byte in Hx. apply negb_true_iff in Hx.
    apply orb_false_iff in Hx. destruct Hx as [Hx Hq]. rewrite Hq, Hx. reflexivity.
Qed.

(* byte facts used to step through the lexer *)
Lemma attrname_byte_facts : forall b,
  implb (attrname_byte b) (negb (beqb b x2f) && negb (beqb b x3d) && negb (beqb b x20) && negb (beqb b x3e)) = true.
Proof. apply forall_bytes. vm_compute. reflexivity. Qed.

Lemma tag_byte_facts : forall b,
  implb (tag_byte b) (negb (beqb b x2f) && negb (beqb b x21) && negb (beqb b x20) && negb (beqb b x3e)) = true.
Proof. apply forall_bytes. vm_compute. reflexivity. Qed.
Lemma attrname_facts b : attrname_byte b = true ->
  beqb b x2f = false /\ beqb b x3d = false /\ beqb b x20 = false /\ beqb b x3e = false.
Proof.
  intro H. pose proof (attrname_byte_facts b) as F. rewrite H in F. cbn [implb] in F.
  repeat (apply andb_true_iff in F; destruct F as [F ?]).
  repeat split; apply negb_true_iff; assumption.
Qed.

Lemma lta_val f n v more acc :
  attrname_ok n = true -> forallb no_active_byte v = true ->
  lex_tag_attrs (S f) (x20 :: n ++ x3d :: x22 :: v ++ x22 :: more) acc =
  lex_tag_attrs f more ((n, Some v) :: acc).
Proof.
  intros Hn Hv. destruct n as [|n0 n']; [discriminate Hn|]. cbn [attrname_ok] in Hn.
  pose proof Hn as Hn'. cbn [forallb] in Hn'. apply andb_true_iff in Hn'. destruct Hn' as [H0 _].
  destruct (attrname_facts _ H0) as (A & B & C & D).
  cbn [lex_tag_attrs app].
  change (beqb x20 x3e) with false. change (beqb x20 x20) with true. cbv iota. rewrite A.
  change (n0 :: n' ++ ?z) with ((n0 :: n') ++ z).
  rewrite (span_app attrname_byte (n0 :: n') (x3d :: x22 :: v ++ x22 :: more) Hn eq_refl).
  change (beqb x3d x3d) with true. change (beqb x22 x22) with true. cbv iota.
  rewrite (lex_value_app v more Hv). reflexivity.
Qed.

(* valueless attribute: what follows is another attribute, the end of the tag, or SP SLASH GT *)
Lemma lta_bare f n c more acc :
  attrname_ok n = true -> (beqb c x20 || beqb c x3e) = true ->
  lex_tag_attrs (S f) (x20 :: n ++ c :: more) acc =
  lex_tag_attrs f (c :: more) ((n, None) :: acc).
Proof.
  intros Hn Hc. destruct n as [|n0 n']; [discriminate Hn|]. cbn [attrname_ok] in Hn.
  pose proof Hn as Hn'. cbn [forallb] in Hn'. apply andb_true_iff in Hn'. destruct Hn' as [H0 _].
  destruct (attrname_facts _ H0) as (A & B & C & D).
  assert (attrname_byte c = false /\ beqb c x3d = false) as [Hc1 Hc2].
  { apply orb_true_iff in Hc. destruct Hc as [Hc|Hc]; apply beqb_eq in Hc; subst c; split; reflexivity. }
  cbn [lex_tag_attrs app].
  change (beqb x20 x3e) with false. change (beqb x20 x20) with true. cbv iota. rewrite A.
  change (n0 :: n' ++ ?z) with ((n0 :: n') ++ z).
  rewrite (span_app attrname_byte (n0 :: n') (c :: more) Hn).
  2:{ rewrite Hc1. reflexivity. }
  rewrite Hc2. destruct more; reflexivity.
Qed.

Lemma lta_end f more acc : lex_tag_attrs (S f) (x3e :: more) acc = Some (rev acc, false, more).
Proof. reflexivity. Qed.

Lemma lta_void_end f more acc :
  lex_tag_attrs (S f) (x20 :: x2f :: x3e :: more) acc = Some (rev acc, true, more).
Proof. reflexivity. Qed.

(* the two ways a tag ends *)
Definition tag_end (void : bool) : bytes := if void then [x20; x2f; x3e] else [x3e].

Lemma lta_attrs void rest : forall a fuel acc,
  forallb tattr_lex a = true -> List.length a < fuel ->
  lex_tag_attrs fuel (flat_map tok_attr_bytes a ++ tag_end void ++ rest) acc =
  Some (rev acc ++ a, void, rest).
Proof.
  induction a as [|[n v] a IH]; intros fuel acc Ha Hf.
  - destruct fuel as [|f]; [inversion Hf|]. rewrite app_nil_r. destruct void; reflexivity.
  - destruct fuel as [|f]; [inversion Hf|]. cbn [List.length] in Hf.
    cbn [forallb] in Ha. apply andb_true_iff in Ha. destruct Ha as [Hx Ha].
    unfold tattr_lex in Hx. cbn [fst snd] in Hx. apply andb_true_iff in Hx. destruct Hx as [Hn Hv].
    cbn [flat_map]. destruct v as [v|]; cbn [tok_attr_bytes].
    + rewrite <- !app_assoc. cbn [app]. rewrite <- ?app_assoc. cbn [app].
      rewrite (lta_val f n v _ acc Hn Hv).
      rewrite IH by (try assumption; lia). cbn [rev]. rewrite <- app_assoc. reflexivity.
    + rewrite <- !app_assoc. cbn [app].
      assert (exists c more, flat_map tok_attr_bytes a ++ tag_end void ++ rest = c :: more /\
                             (beqb c x20 || beqb c x3e) = true) as (c & more & E & Hc).
      { destruct a as [|[n2 [v2|]] a2]; cbn [flat_map tok_attr_bytes app].
        - destruct void; cbn [tag_end app]; eexists; eexists; split; reflexivity.
        - eexists; eexists; split; reflexivity.
        - eexists; eexists; split; reflexivity. }
      rewrite E, (lta_bare f n c more acc Hn Hc), <- E.
      rewrite IH by (try assumption; lia). cbn [rev]. rewrite <- app_assoc. reflexivity.
Qed.

Lemma tag_facts b : tag_byte b = true ->
  beqb b x2f = false /\ beqb b x21 = false /\ beqb b x20 = false /\ beqb b x3e = false.
Proof.
  intro H. pose proof (tag_byte_facts b) as F. rewrite H in F. cbn [implb] in F.
  repeat (apply andb_true_iff in F; destruct F as [F ?]).
  repeat split; apply negb_true_iff; assumption.
Qed.

Lemma attrs_end_head a void rest :
  exists c more, flat_map tok_attr_bytes a ++ tag_end void ++ rest = c :: more /\
                 (beqb c x20 || beqb c x3e) = true.
Proof.
  destruct a as [|[n2 [v2|]] a2]; cbn [flat_map tok_attr_bytes app].
  - destruct void; cbn [tag_end app]; eexists; eexists; split; reflexivity.
  - eexists; eexists; split; reflexivity.
  - eexists; eexists; split; reflexivity.
Qed.

Lemma attrs_bytes_length a : List.length a <= List.length (flat_map tok_attr_bytes a).
Proof.
  induction a as [|[n [v|]] a IH]; [apply le_n| |]; cbn [flat_map tok_attr_bytes];
    rewrite !app_length; cbn [List.length]; lia.
Qed.

Lemma go_cmt f rest acc : html_lex_go (S f) (omitted ++ rest) acc = html_lex_go f rest (TCmt :: acc).
Proof. reflexivity. Qed.

Lemma go_close f t rest acc : tagname_ok t = true ->
  html_lex_go (S f) (x3c :: x2f :: t ++ x3e :: rest) acc = html_lex_go f rest (TClose t :: acc).
Proof.
  intro Ht. destruct t as [|t0 t']; [discriminate Ht|]. cbn [tagname_ok] in Ht.
  cbn [html_lex_go].
  change (beqb x3c x3c) with true. cbv iota.
  change (starts_with (x3c :: x2f :: ?z) omitted) with false. cbv iota.
  change (beqb x2f x2f) with true. cbv iota.
  rewrite (span_app tag_byte (t0 :: t') (x3e :: rest) Ht eq_refl).
  reflexivity.
Qed.

Lemma go_tag f t a void rest acc :
  tagname_ok t = true -> forallb tattr_lex a = true ->
  html_lex_go (S f) (x3c :: t ++ flat_map tok_attr_bytes a ++ tag_end void ++ rest) acc =
  html_lex_go f rest ((if void then TVoid t a else TOpen t a) :: acc).
Proof.
  intros Ht Ha. destruct t as [|t0 t']; [discriminate Ht|]. cbn [tagname_ok] in Ht.
  pose proof Ht as Ht'. cbn [forallb] in Ht'. apply andb_true_iff in Ht'. destruct Ht' as [H0 _].
  destruct (tag_facts _ H0) as (A & B & C & D).
  destruct (attrs_end_head a void rest) as (c & more & E & Hc).
  assert (tag_byte c = false) as Hc1.
  { apply orb_true_iff in Hc. destruct Hc as [Hc|Hc]; apply beqb_eq in Hc; subst c; reflexivity. }
  cbn [html_lex_go app].
  change (beqb x3c x3c) with true. cbv iota.
  unfold omitted at 1. cbn [starts_with]. rewrite B. cbn [andb]. rewrite A.
  change (t0 :: t' ++ ?z) with ((t0 :: t') ++ z).
  rewrite E, (span_app tag_byte (t0 :: t') (c :: more) Ht) by (rewrite Hc1; reflexivity).
  rewrite <- E.
  rewrite (lta_attrs void rest a _ [] Ha).
  2:{ rewrite app_length. pose proof (attrs_bytes_length a). lia. }
  reflexivity.
Qed.

Lemma go_text f b rest acc :
  (match b with [] => false | _ => true end) = true -> forallb notlt b = true ->
  (match rest with [] => true | y :: _ => beqb y x3c end) = true ->
  html_lex_go (S f) (b ++ rest) acc = html_lex_go f rest (TText b :: acc).
Proof.
  intros Hne Hb Hr. destruct b as [|b0 b']; [discriminate Hne|].
  pose proof Hb as Hb'. cbn [forallb] in Hb'. apply andb_true_iff in Hb'. destruct Hb' as [H0 _].
  unfold notlt in H0. apply negb_true_iff in H0.
  cbn [html_lex_go app]. rewrite H0.
  change (b0 :: b' ++ rest) with ((b0 :: b') ++ rest).
  rewrite (span_app (fun x => negb (beqb x x3c)) (b0 :: b') rest Hb).
  - reflexivity.
  - destruct rest as [|y r]; [reflexivity|]. rewrite Hr. reflexivity.
Qed.

Lemma tok_bytes_lt k : tok_lex k = true -> exists r, tok_bytes k = x3c :: r.
Proof. destruct k; try discriminate; intros _; eexists; reflexivity. Qed.

Lemma canon_tail_head k r : canon (k :: r) = true ->
  (match k with TText _ => match r with TText _ :: _ => false | _ => true end | _ => true end) = true ->
  canon r = true /\
  (match k with
   | TText _ => (match flat_map tok_bytes r with [] => true | y :: _ => beqb y x3c end) = true
   | _ => True end).
Proof.
  intros H _. destruct k; cbn [canon] in H; try (apply andb_true_iff in H; destruct H as [_ H]; split; [exact H|exact I]).
  repeat (apply andb_true_iff in H; destruct H as [H ?]). split; [assumption|].
  destruct r as [|k2 r2]; [reflexivity|].
  destruct k2; try discriminate; cbn [canon] in *;
    match goal with Hc : _ && canon r2 = true |- _ => apply andb_true_iff in Hc; destruct Hc as [Hc _];
      destruct (tok_bytes_lt _ Hc) as [z Ez]; cbn [flat_map]; rewrite Ez; reflexivity end.
Qed.

(* the lexer inverts the printer on canonical token lists *)
Lemma html_lex_go_print : forall ts fuel acc,
  canon ts = true -> List.length (flat_map tok_bytes ts) < fuel ->
  html_lex_go fuel (flat_map tok_bytes ts) acc = Some (rev acc ++ ts).
Proof.
  induction ts as [|k r IH]; intros fuel acc Hc Hf; (destruct fuel as [|f]; [inversion Hf|]).
  - cbn [flat_map html_lex_go]. rewrite app_nil_r. reflexivity.
  - cbn [flat_map] in *. rewrite app_length in Hf.
    destruct (canon_tail_head k r Hc) as [Hr Hh].
    { destruct k; try reflexivity. cbn [canon] in Hc.
      repeat (apply andb_true_iff in Hc; destruct Hc as [Hc ?]). assumption. }
    assert (forall acc', List.length (flat_map tok_bytes r) < f ->
            html_lex_go f (flat_map tok_bytes r) (k :: acc') = Some (rev acc' ++ k :: r)) as Step.
    { intros acc' L. rewrite (IH f (k :: acc') Hr L). cbn [rev]. rewrite <- app_assoc. reflexivity. }
    destruct k as [t a|t a|t|b|]; cbn [canon tok_lex] in Hc.
    + apply andb_true_iff in Hc. destruct Hc as [Hk _]. apply andb_true_iff in Hk. destruct Hk as [Ht Ha].
      cbn [tok_bytes] in *. rewrite <- !app_assoc. cbn [app].
      refine (eq_trans (go_tag f t a false (flat_map tok_bytes r) acc Ht Ha) _). apply Step.
      cbn [List.length app] in Hf. lia.
    + apply andb_true_iff in Hc. destruct Hc as [Hk _]. apply andb_true_iff in Hk. destruct Hk as [Ht Ha].
      cbn [tok_bytes] in *. rewrite <- !app_assoc. cbn [app].
      refine (eq_trans (go_tag f t a true (flat_map tok_bytes r) acc Ht Ha) _). apply Step.
      cbn [List.length app] in Hf. lia.
    + apply andb_true_iff in Hc. destruct Hc as [Ht _].
      cbn [tok_bytes] in *. rewrite <- !app_assoc. cbn [app].
      rewrite (go_close f t _ acc Ht). apply Step.
      cbn [List.length app] in Hf. lia.
    + repeat (apply andb_true_iff in Hc; destruct Hc as [Hc ?]).
      cbn [tok_bytes] in *.
      rewrite (go_text f b _ acc) by assumption. apply Step.
      destruct b; [discriminate|]. cbn [List.length] in Hf. lia.
    + cbn [tok_bytes] in *. rewrite go_cmt. apply Step.
      unfold omitted in Hf. cbn [List.length] in Hf. lia.
Qed.

Theorem html_lex_print ts : canon ts = true -> html_lex (flat_map tok_bytes ts) = Some ts.
Proof. intro H. unfold html_lex. rewrite html_lex_go_print by (try assumption; apply le_n). reflexivity. Qed.

(* ------------------------------------------------------------------ Part 3 *)
(* lexability of events: names are names, values written as is carry no QUOTE LT GT, text written
   as is carries no LT.  (Escaped text and escaped values need no condition.) *)
Definition part_lex (p : part) : bool :=
  match p with
  | PEsc _ => true
  | PHref _ => true
  | PConst b => forallb no_active_byte b
  | PPre b => forallb no_active_byte b
  end.

Definition attr_lex (a : attr) : bool :=
  match a with
  | Attr n v => attrname_ok n && forallb part_lex v
  | BAttr n => attrname_ok n
  | SpAttr _ => true
  end.

Definition lex_ev (e : ev) : bool :=
  match e with
  | Open t a => tagname_ok t && forallb attr_lex a
  | Void t a => tagname_ok t && forallb attr_lex a
  | Close t => tagname_ok t
  | Txt _ => true
  | Lit b => forallb notlt b
  | RawHtml b => forallb notlt b
  | Cmt => true
  | Cr => true
  end.

Definition lexable (evs : list ev) : bool := forallb lex_ev evs.

Definition piece_lex (p : piece) : bool :=
  match p with PTok k => tok_lex k | PTxt b => forallb notlt b end.

Lemma forallb_flat_map {A} (P : byte -> bool) (f : A -> bytes) l :
  (forall x, In x l -> forallb P (f x) = true) -> forallb P (flat_map f l) = true.
Proof.
  induction l as [|x l IH]; intro H; [reflexivity|].
  cbn [flat_map]. rewrite forallb_app, H, IH; [reflexivity| |left; reflexivity].
  intros y Hy. apply H. right. exact Hy.
Qed.

Lemma forallb_impl {A} (P Q : A -> bool) l :
  (forall x, P x = true -> Q x = true) -> forallb P l = true -> forallb Q l = true.
Proof.
  intros I H. rewrite forallb_forall in *. intros x Hx. apply I, H, Hx.
Qed.

Lemma href1_no_active : forall b, forallb no_active_byte (href1_spec b) = true.
Proof. apply forall_bytes. vm_compute. reflexivity. Qed.

Lemma href_no_active s : forallb no_active_byte (escape_href_spec s) = true.
Proof. unfold escape_href_spec. apply forallb_flat_map. intros x _. apply href1_no_active. Qed.

Lemma no_active_notlt : forall b, implb (no_active_byte b) (notlt b) = true.
Proof. apply forall_bytes. vm_compute. reflexivity. Qed.
Lemma inert_no_active : forall b, implb (inert_byte b) (no_active_byte b) = true.
Proof. apply forall_bytes. vm_compute. reflexivity. Qed.
Lemma digit_no_active : forall b, implb (is_digit b) (no_active_byte b) = true.
Proof. apply forall_bytes. vm_compute. reflexivity. Qed.

Lemma implb_use (p q : bool) : implb p q = true -> p = true -> q = true.
Proof. destruct p, q; auto. Qed.

Lemma no_active_notlt_l l : forallb no_active_byte l = true -> forallb notlt l = true.
Proof. apply forallb_impl. intro x. apply implb_use, no_active_notlt. Qed.
Lemma inert_no_active_l l : forallb inert_byte l = true -> forallb no_active_byte l = true.
Proof. apply forallb_impl. intro x. apply implb_use, inert_no_active. Qed.

Lemma dec_no_active n : forallb no_active_byte (dec n) = true.
Proof. apply (forallb_impl is_digit); [intro x; apply implb_use, digit_no_active | apply dec_digits]. Qed.

Lemma ser_sp_no_active sp : forallb no_active_byte (ser_sp sp) = true.
Proof. unfold ser_sp. rewrite !forallb_app, !dec_no_active. reflexivity. Qed.

Lemma ser_part_no_active p : part_lex p = true -> forallb no_active_byte (ser_part p) = true.
Proof.
  destruct p; cbn [part_lex ser_part]; intro H; try exact H.
  - apply escape_no_active.
  - apply href_no_active.
Qed.

Lemma tok_attr_lex a : attr_lex a = true -> tattr_lex (tok_attr a) = true.
Proof.
  destruct a as [n v|n|sp]; cbn [attr_lex tok_attr]; unfold tattr_lex; cbn [fst snd]; intro H.
  - apply andb_true_iff in H. destruct H as [Hn Hv]. rewrite Hn. cbn [andb].
    apply forallb_flat_map. intros p Hp. apply ser_part_no_active.
    rewrite forallb_forall in Hv. apply Hv, Hp.
  - rewrite H. reflexivity.
  - rewrite ser_sp_no_active. reflexivity.
Qed.

Lemma tok_attrs_lex a : forallb attr_lex a = true -> forallb tattr_lex (map tok_attr a) = true.
Proof.
  intro H. rewrite forallb_forall in *. intros x Hx. apply in_map_iff in Hx.
  destruct Hx as (y & <- & Hy). apply tok_attr_lex, H, Hy.
Qed.

Lemma piece_of_lex e : lex_ev e = true -> piece_lex (piece_of e) = true.
Proof.
  destruct e; cbn [lex_ev piece_of piece_lex tok_lex]; intro H; try exact H; try reflexivity.
  - apply andb_true_iff in H. destruct H as [Ht Ha]. rewrite Ht, (tok_attrs_lex _ Ha). reflexivity.
  - apply andb_true_iff in H. destruct H as [Ht Ha]. rewrite Ht, (tok_attrs_lex _ Ha). reflexivity.
  - apply no_active_notlt_l, escape_no_active.
Qed.

Lemma pieces_lex : forall evs l, lexable evs = true -> forallb piece_lex (pieces l evs) = true.
Proof.
  unfold lexable. induction evs as [|e r IH]; intros l H; [reflexivity|].
  cbn [forallb] in H. apply andb_true_iff in H. destruct H as [He Hr].
  destruct e; cbn [pieces]; try (cbn [forallb]; rewrite (piece_of_lex _ He), IH by exact Hr; reflexivity).
  destruct l; [apply IH, Hr|]. cbn [forallb piece_lex]. rewrite IH by exact Hr. reflexivity.
Qed.

Lemma tok_lex_not_text k : tok_lex k = true -> match k with TText _ => False | _ => True end.
Proof. destruct k; try discriminate; intros _; exact I. Qed.

Lemma canon_flush pend : forallb notlt pend = true -> canon (flush pend) = true.
Proof. destruct pend; [reflexivity|]. intro H. cbn [flush canon]. rewrite H. reflexivity. Qed.

Lemma canon_text_cons b k r :
  canon (TText b :: k :: r) =
  (match b with [] => false | _ => true end) && forallb notlt b &&
  (match k with TText _ => false | _ => true end) && canon (k :: r).
Proof. reflexivity. Qed.

Lemma canon_merge : forall ps pend,
  forallb notlt pend = true -> forallb piece_lex ps = true -> canon (merge pend ps) = true.
Proof.
  induction ps as [|p r IH]; intros pend Hp H; cbn [merge].
  - apply canon_flush, Hp.
  - cbn [forallb] in H. apply andb_true_iff in H. destruct H as [Hk Hr].
    destruct p as [k|b]; cbn [piece_lex] in Hk.
    + assert (canon (k :: merge [] r) = true) as Ck.
      { pose proof (IH [] eq_refl Hr) as C. destruct k; try discriminate Hk; cbn [canon]; rewrite Hk, C; reflexivity. }
      destruct pend as [|p0 pend']; [exact Ck|].
      cbn [flush app]. rewrite canon_text_cons, Hp, Ck. destruct k; try discriminate Hk; reflexivity.
    + apply IH; [|exact Hr]. rewrite forallb_app, Hp, Hk. reflexivity.
Qed.

Lemma canon_toks_of evs : lexable evs = true -> canon (toks_of evs) = true.
Proof. intro H. apply canon_merge; [reflexivity | apply pieces_lex, H]. Qed.

(* MAIN: the lexer inverts the serialiser on lexable event lists *)
Theorem html_lex_ser : forall evs, lexable evs = true -> html_lex (ser evs) = Some (toks_of evs).
Proof. intros evs H. rewrite <- toks_of_print. apply html_lex_print, canon_toks_of, H. Qed.

Corollary relex_identity_ser evs : lexable evs = true -> relex_identity (ser evs) = true.
Proof.
  intro H. unfold relex_identity. rewrite (html_lex_ser _ H), toks_of_print. apply bytes_eqb_eq. reflexivity.
Qed.

(* ---- safe events are lexable ---- *)
Lemma starts_with_length : forall p s, starts_with s p = true -> List.length p <= List.length s.
Proof.
  induction p as [|y p IH]; intros s H; [apply le_0_n|].
  destruct s as [|x s]; [discriminate H|]. cbn [starts_with] in H.
  apply andb_true_iff in H. destruct H as [_ H]. apply IH in H. cbn [List.length]. lia.
Qed.

Lemma starts_with_app_l : forall p s t, starts_with s p = true -> starts_with (s ++ t) p = true.
Proof.
  induction p as [|y p IH]; intros s t H; [reflexivity|].
  destruct s as [|x s]; [discriminate H|]. cbn [starts_with app] in *.
  apply andb_true_iff in H. destruct H as [H1 H2]. rewrite H1, (IH _ t H2). reflexivity.
Qed.

(* position-wise form of text_ok: every ampersand begins one of the four entities, no other byte
   is active *)
Fixpoint txt_okp (s : bytes) : bool :=
  match s with
  | [] => true
  | b :: r =>
    (if beqb b x26
     then starts_with s amp_ent || starts_with s lt_ent || starts_with s gt_ent || starts_with s quot_ent
     else no_active_byte b) && txt_okp r
  end.

Lemma option_map_some {A B} (f : A -> B) x : option_map f x <> None <-> x <> None.
Proof. destruct x; cbn [option_map]; split; intro H; congruence. Qed.

Lemma txt_okp_amp r : txt_okp (amp_ent ++ r) = txt_okp r. Proof. reflexivity. Qed.
Lemma txt_okp_lt r : txt_okp (lt_ent ++ r) = txt_okp r. Proof. reflexivity. Qed.
Lemma txt_okp_gt r : txt_okp (gt_ent ++ r) = txt_okp r. Proof. reflexivity. Qed.
Lemma txt_okp_quot r : txt_okp (quot_ent ++ r) = txt_okp r. Proof. reflexivity. Qed.

Lemma unescape_okp : forall s k,
  html_unescape_skip k s <> None -> txt_okp (skipn k s) = true /\ k <= List.length s.
Proof.
  induction s as [|b r IH]; intros k H.
  - destruct k; [split; [reflexivity|lia]|]. exfalso. apply H. reflexivity.
  - destruct k as [|k].
    2:{ cbn [html_unescape_skip] in H. destruct (IH k H) as [A L]. split; [exact A|]. cbn [List.length]. lia. }
    cbn [html_unescape_skip] in H. split; [|apply le_0_n]. cbn [skipn].
    destruct (beqb b x26) eqn:Eb.
    + apply beqb_eq in Eb. subst b.
      destruct (starts_with (x26 :: r) amp_ent) eqn:E1;
      [|destruct (starts_with (x26 :: r) lt_ent) eqn:E2;
        [|destruct (starts_with (x26 :: r) gt_ent) eqn:E3;
          [|destruct (starts_with (x26 :: r) quot_ent) eqn:E4; [|exfalso; apply H; reflexivity]]]];
      apply option_map_some in H; apply IH in H; destruct H as [H _];
      match goal with E : starts_with _ ?ent = true |- _ =>
        apply starts_with_app in E; destruct E as [rest E]; unfold ent in E; cbn [app] in E;
        injection E as ->; cbn [skipn] in H end.
      * exact H. * exact H. * exact H. * exact H.
    + destruct (beqb b x3c || beqb b x3e || beqb b x22) eqn:Ea; [exfalso; apply H; reflexivity|].
      apply option_map_some in H. apply IH in H. destruct H as [H _]. cbn [skipn] in H.
      cbn [txt_okp]. rewrite Eb, H. unfold no_active_byte. rewrite Ea. reflexivity.
Qed.

Lemma okp_unescape : forall s k,
  txt_okp s = true -> k <= List.length s -> html_unescape_skip k s <> None.
Proof.
  induction s as [|b r IH]; intros k H L.
  - cbn [List.length] in L. assert (k = 0) as -> by lia. discriminate.
  - cbn [txt_okp] in H. apply andb_true_iff in H. destruct H as [Hb Hr].
    destruct k as [|k]; cbn [html_unescape_skip].
    2:{ apply IH; [exact Hr|]. cbn [List.length] in L. lia. }
    destruct (beqb b x26) eqn:Eb.
    + destruct (starts_with (b :: r) amp_ent) eqn:E1;
      [|destruct (starts_with (b :: r) lt_ent) eqn:E2;
        [|destruct (starts_with (b :: r) gt_ent) eqn:E3;
          [|destruct (starts_with (b :: r) quot_ent) eqn:E4; [|discriminate Hb]]]];
      apply option_map_some; apply IH; try exact Hr;
      match goal with E : starts_with _ ?ent = true |- _ =>
        apply starts_with_length in E; unfold ent in E; cbn [List.length] in E; lia end.
    + unfold no_active_byte in Hb. apply negb_true_iff in Hb. rewrite Hb.
      apply option_map_some. apply IH; [exact Hr|apply le_0_n].
Qed.

Lemma text_ok_okp s : text_ok s = true <-> txt_okp s = true.
Proof.
  unfold text_ok, html_unescape. split; intro H.
  - destruct (html_unescape_skip 0 s) eqn:E; [|discriminate H].
    assert (html_unescape_skip 0 s <> None) as N by (rewrite E; discriminate).
    exact (proj1 (unescape_okp s 0 N)).
  - pose proof (okp_unescape s 0 H (le_0_n _)) as N.
    destruct (html_unescape_skip 0 s); [reflexivity|contradiction N; reflexivity].
Qed.

Lemma txt_okp_app : forall a b, txt_okp a = true -> txt_okp b = true -> txt_okp (a ++ b) = true.
Proof.
  induction a as [|x a IH]; intros b Ha Hb; [exact Hb|].
  cbn [txt_okp] in Ha. apply andb_true_iff in Ha. destruct Ha as [Hx Ha].
  change ((x :: a) ++ b) with (x :: (a ++ b)). cbn [txt_okp]. rewrite (IH b Ha Hb), andb_true_r.
  destruct (beqb x x26); [|exact Hx].
  change (x :: a ++ b) with ((x :: a) ++ b).
  repeat (apply orb_true_iff in Hx; destruct Hx as [Hx|Hx]);
    rewrite (starts_with_app_l _ _ b Hx); rewrite ?orb_true_r; reflexivity.
Qed.

Lemma txt_okp_no_active : forall s, txt_okp s = true -> forallb no_active_byte s = true.
Proof.
  induction s as [|b r IH]; intro H; [reflexivity|].
  cbn [txt_okp] in H. apply andb_true_iff in H. destruct H as [Hb Hr].
  cbn [forallb]. rewrite (IH Hr), andb_true_r.
  destruct (beqb b x26) eqn:Eb; [|exact Hb]. apply beqb_eq in Eb. subst b. reflexivity.
Qed.

Lemma inert_txt_okp : forall s, forallb inert_byte s = true -> txt_okp s = true.
Proof.
  induction s as [|b r IH]; intro H; [reflexivity|].
  cbn [forallb] in H. apply andb_true_iff in H. destruct H as [Hb Hr].
  cbn [txt_okp]. rewrite (IH Hr), andb_true_r.
  unfold inert_byte in Hb. apply negb_true_iff in Hb. apply orb_false_iff in Hb. destruct Hb as [Hb Ha].
  rewrite Ha. unfold no_active_byte. rewrite Hb. reflexivity.
Qed.

Lemma escape_txt_okp s : txt_okp (escape_spec s) = true.
Proof. apply text_ok_okp. unfold text_ok. rewrite unescape_escape. reflexivity. Qed.

Lemma part_safe_lex p : part_safe p = true -> part_lex p = true.
Proof.
  destruct p; cbn [part_safe part_lex]; intro H; try reflexivity.
  - apply inert_no_active_l, H.
  - apply txt_okp_no_active, text_ok_okp. exact H.
Qed.

(* names: the vocabulary is made of lexable names *)
Definition vocab_lex : bool :=
  forallb (fun p => tagname_ok (B (fst p)) && forallb (fun a => attrname_ok (B a)) (snd p)) vocab &&
  forallb (fun v => tagname_ok (B v)) void_tags && attrname_ok sp_name.
Lemma vocab_lex_ok : vocab_lex = true. Proof. vm_compute. reflexivity. Qed.

Lemma lookup_tag_in t l : lookup_tag t = Some l -> exists p, In p vocab /\ t = B (fst p) /\ l = snd p.
Proof.
  unfold lookup_tag. destruct (find _ vocab) as [p|] eqn:F; [|discriminate].
  intro H. injection H as <-. apply find_some in F. destruct F as [I E].
  apply bytes_eqb_eq in E. exists p. repeat split; [exact I | symmetry; exact E].
Qed.

Lemma lookup_tag_lex t l : lookup_tag t = Some l ->
  tagname_ok t = true /\ forallb (fun a => attrname_ok (B a)) l = true.
Proof.
  intro H. destruct (lookup_tag_in _ _ H) as (p & I & -> & ->).
  pose proof vocab_lex_ok as V. unfold vocab_lex in V.
  apply andb_true_iff in V. destruct V as [V _]. apply andb_true_iff in V. destruct V as [V _].
  rewrite forallb_forall in V. specialize (V p I). apply andb_true_iff in V. exact V.
Qed.

Lemma void_tag_lex t : is_void_tag t = true -> tagname_ok t = true.
Proof.
  unfold is_void_tag. intro H. apply existsb_exists in H. destruct H as (v & I & E).
  apply bytes_eqb_eq in E. subst t.
  pose proof vocab_lex_ok as V. unfold vocab_lex in V.
  apply andb_true_iff in V. destruct V as [V _]. apply andb_true_iff in V. destruct V as [_ V].
  rewrite forallb_forall in V. exact (V v I).
Qed.

Lemma attr_allowed_lex t n : attr_allowed t n = true -> attrname_ok n = true.
Proof.
  unfold attr_allowed. intro H. apply orb_true_iff in H. destruct H as [H|H].
  - apply bytes_eqb_eq in H. subst n. reflexivity.
  - destruct (lookup_tag t) as [l|] eqn:L; [|discriminate H].
    apply existsb_exists in H. destruct H as (a & I & E). apply bytes_eqb_eq in E. subst n.
    destruct (lookup_tag_lex _ _ L) as [_ A]. rewrite forallb_forall in A. exact (A a I).
Qed.

Lemma attr_safe_lex t a : attr_safe t a = true -> attr_lex a = true.
Proof.
  destruct a as [n v|n|sp]; cbn [attr_safe attr_lex]; intro H.
  - apply andb_true_iff in H. destruct H as [H _]. apply andb_true_iff in H. destruct H as [Hn Hv].
    rewrite (attr_allowed_lex _ _ Hn). cbn [andb].
    apply (forallb_impl part_safe); [apply part_safe_lex | exact Hv].
  - exact (attr_allowed_lex _ _ H).
  - reflexivity.
Qed.

Lemma attrs_safe_lex t a : forallb (attr_safe t) a = true -> forallb attr_lex a = true.
Proof. apply forallb_impl. apply attr_safe_lex. Qed.

Lemma inert_notlt_l l : forallb inert_byte l = true -> forallb notlt l = true.
Proof. intro H. apply no_active_notlt_l, inert_no_active_l, H. Qed.

Lemma safe_ev_lex e : safe_ev e = true -> lex_ev e = true.
Proof.
  destruct e as [t a|t|t a|b|b|b| |]; cbn [safe_ev lex_ev]; intro H; try reflexivity.
  - apply andb_true_iff in H. destruct H as [H Ha]. apply andb_true_iff in H. destruct H as [Ht _].
    destruct (lookup_tag t) as [l|] eqn:L; [|discriminate Ht].
    rewrite (proj1 (lookup_tag_lex _ _ L)), (attrs_safe_lex _ _ Ha). reflexivity.
  - apply andb_true_iff in H. destruct H as [Ht _].
    destruct (lookup_tag t) as [l|] eqn:L; [|discriminate Ht]. exact (proj1 (lookup_tag_lex _ _ L)).
  - apply andb_true_iff in H. destruct H as [Ht Ha].
    rewrite (void_tag_lex _ Ht), (attrs_safe_lex _ _ Ha). reflexivity.
  - apply inert_notlt_l, H.
  - apply inert_notlt_l, H.
Qed.

Theorem safe_lexable evs : forallb safe_ev evs = true -> lexable evs = true.
Proof. apply forallb_impl. apply safe_ev_lex. Qed.

(* ------------------------------------------------------------------ Part 4 *)
(* ---- nesting ---- *)
Fixpoint pnest (stack : list bytes) (ps : list piece) : option (list bytes) :=
  match ps with
  | [] => Some stack
  | PTok k :: r =>
    match tok_nest stack [k] with Some s => pnest s r | None => None end
  | PTxt _ :: r => pnest stack r
  end.

Lemma tok_nest_flush pend ts s : tok_nest s (flush pend ++ ts) = tok_nest s ts.
Proof. destruct pend; reflexivity. Qed.

Lemma tok_nest_merge : forall ps pend s, tok_nest s (merge pend ps) = pnest s ps.
Proof.
  induction ps as [|p r IH]; intros pend s; cbn [merge pnest].
  - destruct pend; reflexivity.
  - destruct p as [k|b]; [|apply IH].
    rewrite tok_nest_flush.
    destruct k as [t a|t a|t|b|]; cbn [tok_nest]; try apply IH.
    destruct s as [|t' s']; [reflexivity|]. destruct (bytes_eqb t t'); [apply IH|reflexivity].
Qed.

Lemma pnest_pieces : forall evs l s, pnest s (pieces l evs) = nest s evs.
Proof.
  induction evs as [|e r IH]; intros l s; [reflexivity|].
  destruct e as [t a|t|t a|b|b|b| |]; cbn [pieces piece_of pnest nest tok_nest]; try apply IH.
  - destruct s as [|t' s']; [reflexivity|]. destruct (bytes_eqb t t'); [apply IH|reflexivity].
  - destruct l; cbn [pnest]; apply IH.
Qed.

Theorem tok_nest_toks_of evs s : tok_nest s (toks_of evs) = nest s evs.
Proof. unfold toks_of. rewrite tok_nest_merge. apply pnest_pieces. Qed.

(* ---- safety ---- *)
(* position-wise form of value_ok *)
Fixpoint amp_ok (s : bytes) : bool :=
  match s with
  | [] => true
  | b :: r =>
    (if beqb b x26
     then starts_with s amp_ent || starts_with s lt_ent || starts_with s gt_ent ||
          starts_with s quot_ent || starts_with s apos_ent
     else true) && amp_ok r
  end.

Lemma amp_ok_value : forall s k, amp_ok s = true -> k <= List.length s -> value_ok_skip k s = true.
Proof.
  induction s as [|b r IH]; intros k H L.
  - cbn [List.length] in L. assert (k = 0) as -> by lia. reflexivity.
  - cbn [amp_ok] in H. apply andb_true_iff in H. destruct H as [Hb Hr].
    destruct k as [|k]; cbn [value_ok_skip].
    2:{ apply IH; [exact Hr|]. cbn [List.length] in L. lia. }
    destruct (beqb b x26) eqn:Eb; [|apply IH; [exact Hr|apply le_0_n]].
    destruct (starts_with (b :: r) amp_ent) eqn:E1;
    [|destruct (starts_with (b :: r) lt_ent) eqn:E2;
      [|destruct (starts_with (b :: r) gt_ent) eqn:E3;
        [|destruct (starts_with (b :: r) quot_ent) eqn:E4;
          [|destruct (starts_with (b :: r) apos_ent) eqn:E5; [|discriminate Hb]]]]];
    apply IH; try exact Hr;
    match goal with E : starts_with _ ?ent = true |- _ =>
      apply starts_with_length in E; unfold ent in E; cbn [List.length] in E; lia end.
Qed.

Lemma amp_ok_app : forall a b, amp_ok a = true -> amp_ok b = true -> amp_ok (a ++ b) = true.
Proof.
  induction a as [|x a IH]; intros b Ha Hb; [exact Hb|].
  cbn [amp_ok] in Ha. apply andb_true_iff in Ha. destruct Ha as [Hx Ha].
  change ((x :: a) ++ b) with (x :: (a ++ b)). cbn [amp_ok]. rewrite (IH b Ha Hb), andb_true_r.
  destruct (beqb x x26); [|reflexivity].
  change (x :: a ++ b) with ((x :: a) ++ b).
  repeat (apply orb_true_iff in Hx; destruct Hx as [Hx|Hx]);
    rewrite (starts_with_app_l _ _ b Hx); rewrite ?orb_true_r; reflexivity.
Qed.

Lemma txt_okp_amp_ok : forall s, txt_okp s = true -> amp_ok s = true.
Proof.
  induction s as [|b r IH]; intro H; [reflexivity|].
  cbn [txt_okp] in H. apply andb_true_iff in H. destruct H as [Hb Hr].
  cbn [amp_ok]. rewrite (IH Hr), andb_true_r.
  destruct (beqb b x26); [|reflexivity]. rewrite Hb. reflexivity.
Qed.

Definition noamp (b : byte) : bool := negb (beqb b x26).

Lemma noamp_amp_ok : forall s, forallb noamp s = true -> amp_ok s = true.
Proof.
  induction s as [|b r IH]; intro H; [reflexivity|].
  cbn [forallb] in H. apply andb_true_iff in H. destruct H as [Hb Hr].
  cbn [amp_ok]. rewrite (IH Hr), andb_true_r. unfold noamp in Hb. apply negb_true_iff in Hb.
  rewrite Hb. reflexivity.
Qed.

Lemma href1_amp_ok : forall b, amp_ok (href1_spec b) = true.
Proof. apply forall_bytes. vm_compute. reflexivity. Qed.

Lemma href_amp_ok : forall s, amp_ok (escape_href_spec s) = true.
Proof.
  induction s as [|b r IH]; [reflexivity|].
  change (escape_href_spec (b :: r)) with (href1_spec b ++ escape_href_spec r).
  apply amp_ok_app; [apply href1_amp_ok | exact IH].
Qed.

Lemma inert_noamp : forall b, implb (inert_byte b) (noamp b) = true.
Proof. apply forall_bytes. vm_compute. reflexivity. Qed.
Lemma digit_noamp : forall b, implb (is_digit b) (noamp b) = true.
Proof. apply forall_bytes. vm_compute. reflexivity. Qed.

Lemma ser_part_amp_ok p : part_safe p = true -> amp_ok (ser_part p) = true.
Proof.
  destruct p; cbn [part_safe ser_part]; intro H.
  - apply txt_okp_amp_ok, escape_txt_okp.
  - apply href_amp_ok.
  - apply noamp_amp_ok. revert H. apply forallb_impl. intro x. apply implb_use, inert_noamp.
  - apply txt_okp_amp_ok, text_ok_okp. exact H.
Qed.

Lemma ser_parts_amp_ok v : forallb part_safe v = true -> amp_ok (flat_map ser_part v) = true.
Proof.
  induction v as [|p v IH]; intro H; [reflexivity|].
  cbn [forallb] in H. apply andb_true_iff in H. destruct H as [Hp Hv].
  cbn [flat_map]. apply amp_ok_app; [apply ser_part_amp_ok, Hp | apply IH, Hv].
Qed.

Lemma amp_ok_value_ok s : amp_ok s = true -> value_ok s = true.
Proof. intro H. apply amp_ok_value; [exact H | apply le_0_n]. Qed.

Lemma ser_sp_value_ok sp : value_ok (ser_sp sp) = true.
Proof.
  apply amp_ok_value_ok, noamp_amp_ok. unfold ser_sp. rewrite !forallb_app.
  assert (forall n, forallb noamp (dec n) = true) as D.
  { intro n. apply (forallb_impl is_digit); [intro x; apply implb_use, digit_noamp | apply dec_digits]. }
  rewrite !D. reflexivity.
Qed.

(* the URL scheme test sees the same thing before and after escape_href *)
Definition schemeb (y : byte) : bool := is_lower y || beqb y x3a || beqb y x2f.

Definition href_scheme_byte (b y : byte) : bool :=
  implb (schemeb y)
    (if url_safe_spec b then bytes_eqb (href1_spec b) [b]
     else negb (beqb (to_lower_ascii b) y) &&
          match href1_spec b with [] => false | h :: _ => negb (beqb (to_lower_ascii h) y) end).

Lemma href_scheme_byte_all : forall b y, href_scheme_byte b y = true.
Proof. apply forall_bytes2. vm_compute. reflexivity. Qed.

Lemma ci_starts_href : forall p u, forallb schemeb p = true ->
  ci_starts (escape_href_spec u) p = ci_starts u p.
Proof.
  induction p as [|y p IH]; intros u Hp; [reflexivity|].
  cbn [forallb] in Hp. apply andb_true_iff in Hp. destruct Hp as [Hy Hp].
  destruct u as [|b u]; [reflexivity|].
  change (escape_href_spec (b :: u)) with (href1_spec b ++ escape_href_spec u).
  pose proof (href_scheme_byte_all b y) as F. unfold href_scheme_byte in F. rewrite Hy in F. cbn [implb] in F.
  destruct (url_safe_spec b).
  - apply bytes_eqb_eq in F. rewrite F. cbn [app ci_starts]. rewrite (IH u Hp). reflexivity.
  - apply andb_true_iff in F. destruct F as [F1 F2]. apply negb_true_iff in F1.
    destruct (href1_spec b) as [|h t]; [discriminate F2|]. apply negb_true_iff in F2.
    cbn [app ci_starts]. rewrite F1, F2. reflexivity.
Qed.

Lemma dangerous_href u : dangerous_spec (escape_href_spec u) = dangerous_spec u.
Proof.
  unfold dangerous_spec. rewrite !ci_starts_href by (vm_compute; reflexivity). reflexivity.
Qed.

Lemma dangerous_fragment z : dangerous_spec (x23 :: z) = false.
Proof. reflexivity. Qed.

Lemma url_value_tok v : url_value_safe v = true -> dangerous_spec (flat_map ser_part v) = false.
Proof.
  unfold url_value_safe. destruct v as [|p r]; [reflexivity|].
  destruct p as [b|b|b|b]; intro H.
  - destruct r; discriminate H.
  - destruct r; [|discriminate H]. cbn [flat_map ser_part]. rewrite app_nil_r, dangerous_href.
    apply negb_true_iff, H.
  - apply andb_true_iff in H. destruct H as [H _]. destruct b as [|x c]; [discriminate H|].
    destruct (beqb_spec x x23) as [->|N]; [apply dangerous_fragment|].
    exfalso. revert H N. clear. destruct x; intros H N; try discriminate H. apply N. reflexivity.
  - destruct r; discriminate H.
Qed.

Lemma tok_attr_safe t a : attr_safe t a = true -> tok_attr_ok t (tok_attr a) = true.
Proof.
  destruct a as [n v|n|sp]; cbn [attr_safe tok_attr tok_attr_ok]; intro H.
  - apply andb_true_iff in H. destruct H as [H Hu]. apply andb_true_iff in H. destruct H as [Hn Hv].
    rewrite Hn, (amp_ok_value_ok _ (ser_parts_amp_ok _ Hv)). cbn [andb].
    destruct (is_url_attr n); [|reflexivity]. rewrite (url_value_tok _ Hu). reflexivity.
  - rewrite H. reflexivity.
  - rewrite ser_sp_value_ok. reflexivity.
Qed.

Lemma tok_attrs_safe t a :
  forallb (attr_safe t) a = true -> forallb (tok_attr_ok t) (map tok_attr a) = true.
Proof.
  intro H. rewrite forallb_forall in *. intros x Hx. apply in_map_iff in Hx.
  destruct Hx as (y & <- & Hy). apply tok_attr_safe, H, Hy.
Qed.

Definition piece_safe (p : piece) : bool :=
  match p with PTok k => tok_safe k | PTxt b => txt_okp b end.

Lemma piece_of_safe e : safe_ev e = true -> piece_safe (piece_of e) = true.
Proof.
  destruct e as [t a|t|t a|b|b|b| |]; cbn [safe_ev piece_of piece_safe tok_safe]; intro H;
    try exact H; try reflexivity.
  - apply andb_true_iff in H. destruct H as [H Ha]. rewrite H, (tok_attrs_safe _ _ Ha). reflexivity.
  - apply andb_true_iff in H. destruct H as [H Ha]. rewrite H, (tok_attrs_safe _ _ Ha). reflexivity.
  - apply escape_txt_okp.
  - apply inert_txt_okp, H.
  - apply inert_txt_okp, H.
Qed.

Lemma pieces_safe : forall evs l,
  forallb safe_ev evs = true -> forallb piece_safe (pieces l evs) = true.
Proof.
  induction evs as [|e r IH]; intros l H; [reflexivity|].
  cbn [forallb] in H. apply andb_true_iff in H. destruct H as [He Hr].
  destruct e; cbn [pieces]; try (cbn [forallb]; rewrite (piece_of_safe _ He), IH by exact Hr; reflexivity).
  destruct l; [apply IH, Hr|]. cbn [forallb piece_safe]. rewrite IH by exact Hr. reflexivity.
Qed.

Lemma flush_safe pend : txt_okp pend = true -> forallb tok_safe (flush pend) = true.
Proof.
  destruct pend; [reflexivity|]. intro H. cbn [flush forallb tok_safe].
  rewrite (proj2 (text_ok_okp _) H). reflexivity.
Qed.

Lemma merge_safe : forall ps pend,
  txt_okp pend = true -> forallb piece_safe ps = true -> forallb tok_safe (merge pend ps) = true.
Proof.
  induction ps as [|p r IH]; intros pend Hp H; cbn [merge].
  - apply flush_safe, Hp.
  - cbn [forallb] in H. apply andb_true_iff in H. destruct H as [Hk Hr].
    destruct p as [k|b]; cbn [piece_safe] in Hk.
    + rewrite forallb_app, (flush_safe _ Hp). cbn [forallb]. rewrite Hk, (IH [] eq_refl Hr). reflexivity.
    + apply IH; [|exact Hr]. apply txt_okp_app; assumption.
Qed.

Theorem toks_of_safe evs : forallb safe_ev evs = true -> forallb tok_safe (toks_of evs) = true.
Proof. intro H. apply merge_safe; [reflexivity | apply pieces_safe, H]. Qed.

(* ---- deletion of the position attributes ---- *)
(* an attribute written by name that carries the name data-sourcepos (the renderer writes none; the
   clause is needed because the token-wise deletion goes by name) *)
Definition own_sp_attr (a : attr) : bool :=
  match a with
  | Attr n _ => bytes_eqb n sp_name
  | BAttr n => bytes_eqb n sp_name
  | SpAttr _ => false
  end.

Definition no_own_sp_ev (e : ev) : bool :=
  match e with
  | Open _ a => forallb (fun x => negb (own_sp_attr x)) a
  | Void _ a => forallb (fun x => negb (own_sp_attr x)) a
  | _ => true
  end.

Definition no_own_sp (evs : list ev) : bool := forallb no_own_sp_ev evs.

Definition keep_attr (a : bytes * option bytes) : bool := negb (bytes_eqb (fst a) sp_name).

Lemma drop_sp_attr_open t a : drop_sp_attr (TOpen t a) = TOpen t (filter keep_attr a).
Proof. reflexivity. Qed.
Lemma drop_sp_attr_void t a : drop_sp_attr (TVoid t a) = TVoid t (filter keep_attr a).
Proof. reflexivity. Qed.

Lemma filter_tok_attrs a :
  forallb (fun x => negb (own_sp_attr x)) a = true ->
  filter keep_attr (map tok_attr a) = map tok_attr (filter not_sp a).
Proof.
  induction a as [|x a IH]; intro H; [reflexivity|].
  cbn [forallb] in H. apply andb_true_iff in H. destruct H as [Hx Ha].
  cbn [map filter]. rewrite (IH Ha).
  destruct x as [n v|n|sp]; cbn [own_sp_attr] in Hx; cbn [tok_attr not_sp]; unfold keep_attr; cbn [fst].
  - rewrite Hx. reflexivity.
  - rewrite Hx. reflexivity.
  - reflexivity.
Qed.

Definition piece_erase (p : piece) : piece :=
  match p with PTok k => PTok (drop_sp_attr k) | PTxt b => PTxt b end.

Lemma piece_of_erase e : no_own_sp_ev e = true -> piece_of (erase_sp e) = piece_erase (piece_of e).
Proof.
  destruct e; cbn [no_own_sp_ev erase_sp piece_of piece_erase]; intro H; try reflexivity.
  - rewrite drop_sp_attr_open, (filter_tok_attrs _ H). reflexivity.
  - rewrite drop_sp_attr_void, (filter_tok_attrs _ H). reflexivity.
Qed.

Definition is_cr (e : ev) : bool := match e with Cr => true | _ => false end.

Lemma pieces_cons e r l : is_cr e = false ->
  pieces l (e :: r) = piece_of e :: pieces (ends_lf l (ser_ev e)) r.
Proof. destruct e; try discriminate; reflexivity. Qed.

Lemma is_cr_erase e : is_cr (erase_sp e) = is_cr e.
Proof. destruct e; reflexivity. Qed.

Lemma pieces_erase : forall evs l, no_own_sp evs = true ->
  pieces l (map erase_sp evs) = map piece_erase (pieces l evs).
Proof.
  unfold no_own_sp. induction evs as [|e r IH]; intros l H; [reflexivity|].
  cbn [forallb] in H. apply andb_true_iff in H. destruct H as [He Hr].
  cbn [map]. destruct (is_cr e) eqn:C.
  - destruct e; try discriminate C. cbn [erase_sp pieces]. destruct l; cbn [map]; rewrite (IH _ Hr); reflexivity.
  - rewrite (pieces_cons (erase_sp e)) by (rewrite is_cr_erase; exact C).
    rewrite (pieces_cons e) by exact C. cbn [map].
    rewrite ends_lf_erase, (piece_of_erase _ He), (IH _ Hr). reflexivity.
Qed.

Lemma merge_erase : forall ps pend,
  merge pend (map piece_erase ps) = map drop_sp_attr (merge pend ps).
Proof.
  induction ps as [|p r IH]; intro pend; cbn [map merge].
  - destruct pend; reflexivity.
  - destruct p as [k|b]; cbn [piece_erase merge]; [|apply IH].
    rewrite map_app, IH. cbn [map]. destruct pend; reflexivity.
Qed.

Theorem toks_of_erase evs : no_own_sp evs = true ->
  toks_of (map erase_sp evs) = map drop_sp_attr (toks_of evs).
Proof. intro H. unfold toks_of. rewrite (pieces_erase _ _ H). apply merge_erase. Qed.

Theorem strip_sourcepos_ser evs : lexable evs = true -> no_own_sp evs = true ->
  strip_sourcepos (ser evs) = Some (ser (map erase_sp evs)).
Proof.
  intros L N. unfold strip_sourcepos. rewrite (html_lex_ser _ L), <- (toks_of_erase _ N), toks_of_print.
  reflexivity.
Qed.

(* ---- the byte-level checks on the serialisation of an event list ---- *)
Theorem safe_check_ser evs : forallb safe_ev evs = true -> html_safe_check (ser evs) = 0%N.
Proof.
  intro H. unfold html_safe_check. rewrite (html_lex_ser _ (safe_lexable _ H)), (toks_of_safe _ H). reflexivity.
Qed.

Theorem balanced_check_ser evs : lexable evs = true -> well_nested evs = true ->
  html_balanced_check (ser evs) = 0%N.
Proof.
  intros L W. unfold html_balanced_check. rewrite (html_lex_ser _ L), tok_nest_toks_of.
  unfold well_nested in W. destruct (nest [] evs) as [[|x s]|]; try discriminate W. reflexivity.
Qed.

(* ------------------------------------------------------------------ Part 5 *)
(* Lexability of the renderer's events beyond the safe case: for every option record, as long as
   raw HTML is not passed through (HtmlBlock / HtmlInline nodes are escaped or replaced by the
   placeholder) and the literals written as is (Raw, EscapedTag) carry no LT.  No S4: h<level> is a
   lexable tag name for every level.  Also: the renderer writes no attribute named data-sourcepos
   by name (only through SpAttr). *)
Definition lexs_ev (e : ev) : bool := lex_ev e && no_own_sp_ev e.

Definition v_raw_ok (o : opts) (v : node_value) : bool :=
  match v with
  | Raw l => forallb notlt l
  | EscapedTag l => forallb notlt l
  | HtmlBlock _ _ => o_escape o || negb (o_unsafe o)
  | HtmlInline _ => o_escape o || negb (o_unsafe o)
  | _ => true
  end.

Fixpoint raw_ok (o : opts) (n : node) : bool :=
  match n with Node v _ ch => v_raw_ok o v && forallb (raw_ok o) ch end.

Lemma lexs_split evs : forallb lexs_ev evs = true -> lexable evs = true /\ no_own_sp evs = true.
Proof.
  unfold lexable, no_own_sp. induction evs as [|e r IH]; intro H; [split; reflexivity|].
  cbn [forallb] in *. apply andb_true_iff in H. destruct H as [He Hr].
  unfold lexs_ev in He. apply andb_true_iff in He. destruct He as [A B].
  destruct (IH Hr) as [C D]. rewrite A, B, C, D. split; reflexivity.
Qed.

Lemma digit_tag_byte : forall b, implb (is_digit b) (tag_byte b) = true.
Proof. apply forall_bytes. vm_compute. reflexivity. Qed.

Lemma dec_tag_bytes n : forallb tag_byte (dec n) = true.
Proof. apply (forallb_impl is_digit); [intro x; apply implb_use, digit_tag_byte | apply dec_digits]. Qed.

Lemma dec_notlt n : forallb notlt (dec n) = true.
Proof. apply no_active_notlt_l, dec_no_active. Qed.

Lemma anchorize_no_active slug iss header iss' id :
  (forall h, forallb no_active_byte (slug h) = true) ->
  h_anchorize slug iss header = Ok (iss', id) -> forallb no_active_byte id = true.
Proof.
  intros SL H. unfold h_anchorize in H.
  destruct (h_uniq_loop _ _ _ _) as [a| |] eqn:UL; cbn [bind] in H; try discriminate H.
  injection H as _ <-. pose proof (SL header) as Hid. revert UL Hid.
  generalize (slug header) as s, 0%N as k, (S (List.length iss)) as fuel. clear.
  intros s k fuel; revert k. induction fuel as [|f IH]; intros k H Hid; cbn [h_uniq_loop] in H; [discriminate|].
  destruct (existsb _ iss).
  - eapply IH; eauto.
  - injection H as <-. destruct (k =? 0)%N; [exact Hid|].
    rewrite ?forallb_app, ?forallb_cons, Hid, dec_no_active. reflexivity.
Qed.

Ltac fin5 := vm_compute; lazymatch goal with |- true = true => reflexivity | _ => fail "residue" end.
Ltac expose5 :=
  unfold lexs_ev, heading_tag;
  cbn [forallb lex_ev no_own_sp_ev attr_lex part_lex own_sp_attr tagname_ok app].

Lemma enter_lexs slug o c v sp ch st e st' m :
  (forall h, forallb no_active_byte (slug h) = true) -> v_raw_ok o v = true ->
  enter slug o c (Node v sp ch) st = Ok (e, st', m) -> forallb lexs_ev e = true.
Proof.
  intros SL V H. destruct v;
  unfold enter, sp_attr, align_attr, alert_css, alert_title, url_parts in H; cbv beta iota zeta in H.
  all: lazymatch type of V with
  | v_raw_ok _ (Heading _ _) = true =>
    destruct (o_header_ids o) as [prefix|];
    [ destruct (h_anchorize _ _ _) as [[iss' id]| |] eqn:AN; cbn [bind] in H; try discriminate H;
      apply anchorize_no_active in AN; [|exact SL];
      brk H; okinv3 H; expose5; rewrite AN, ?dec_tag_bytes; fin5
    | brk H; okinv3 H; expose5; rewrite ?dec_tag_bytes; fin5 ]
  | v_raw_ok _ (EscapedTag _) = true => cbn [v_raw_ok] in V; okinv3 H; expose5; rewrite V; reflexivity
  | v_raw_ok _ (Raw _) = true => cbn [v_raw_ok] in V; okinv3 H; expose5; rewrite V; reflexivity
  | v_raw_ok _ (HtmlBlock _ _) = true =>
    cbn [v_raw_ok] in V; destruct (o_escape o), (o_unsafe o); try discriminate V; cbn [negb] in H;
    okinv3 H; fin5
  | v_raw_ok _ (HtmlInline _) = true =>
    cbn [v_raw_ok] in V; destruct (o_escape o), (o_unsafe o); try discriminate V; cbn [negb] in H;
    okinv3 H; fin5
  | v_raw_ok _ (NList _) = true => brk H; okinv3 H; expose5; rewrite ?dec_no_active; fin5
  | v_raw_ok _ (FootnoteReference _ _ _) = true => brk H; okinv3 H; expose5; rewrite ?dec_notlt; fin5
  | _ => brk H; okinv3 H; fin5
  end.
Qed.

Lemma backref_loop_lexs name fnix : forall total k,
  forallb lexs_ev (backref_loop name fnix total k) = true.
Proof.
  induction total as [|t IH]; intro k; [reflexivity|].
  cbn [backref_loop]. rewrite !forallb_app, IH.
  destruct (1 <? N.of_nat k)%N; expose5; rewrite ?forallb_app; cbn [forallb];
    rewrite ?dec_no_active, ?dec_notlt; fin5.
Qed.

Lemma put_backref_lexs name total st :
  forallb lexs_ev (fst (fst (put_footnote_backref name total st))) = true.
Proof.
  unfold put_footnote_backref. destruct (_ <=? _)%N; [reflexivity|].
  cbn [fst]. apply backref_loop_lexs.
Qed.

Ltac use_backref5 :=
  match goal with
  | E : put_footnote_backref ?n ?t ?s = (?l, _, _) |- _ =>
    let PB := fresh "PB" in
    pose proof (put_backref_lexs n t s) as PB; rewrite E in PB; cbn [fst] in PB;
    cbn [forallb]; rewrite ?forallb_app, PB
  end.

Lemma alt_no_active ch : forallb no_active_byte (flat_map plain ch) = true.
Proof. rewrite plain_list_is_escape. apply escape_no_active. Qed.

Lemma exit_lexs o c v sp ch st e st' :
  v_raw_ok o v = true ->
  exit_ o c (Node v sp ch) st = Ok (e, st') -> forallb lexs_ev e = true.
Proof.
  intros V H. destruct v; unfold exit_, sp_attr, url_parts in H; cbv beta iota zeta in H.
  all: lazymatch type of V with
  | v_raw_ok _ (Heading _ _) = true => okinv2 H; expose5; rewrite ?dec_tag_bytes; fin5
  | v_raw_ok _ (EscapedTag _) = true => cbn [v_raw_ok] in V; okinv2 H; expose5; rewrite V; reflexivity
  | v_raw_ok _ (Image _ _) = true =>
    brk H; okinv2 H; rewrite ?forallb_app; expose5; rewrite ?forallb_app; expose5;
    rewrite ?alt_no_active; fin5
  | v_raw_ok _ Paragraph = true => brk H; okinv2 H; try use_backref5; fin5
  | v_raw_ok _ (FootnoteDefinition _ _) = true => brk H; okinv2 H; try use_backref5; fin5
  | _ => brk H; okinv2 H; fin5
  end.
Qed.

Section Traversal5.
  Variable slug : bytes -> bytes.
  Variable o : opts.
  Hypothesis SL : forall h, forallb no_active_byte (slug h) = true.

  Definition render_lexs_at (n : node) : Prop :=
    raw_ok o n = true ->
    forall c st e st', render slug o c n st = Ok (e, st') -> forallb lexs_ev e = true.

  Lemma render_list_lexs v pv : forall l,
    Forall render_lexs_at l -> forallb (raw_ok o) l = true ->
    forall i prev s e s', render_list slug o v pv l i prev s = Ok (e, s') -> forallb lexs_ev e = true.
  Proof.
    induction 1 as [|x r Hx _ IH]; intros HR i prev s e s' H; cbn [render_list] in H.
    - injection H as <- <-. reflexivity.
    - cbn [forallb] in HR. apply andb_true_iff in HR. destruct HR as [XR RR].
      destruct (render slug o _ x s) as [[ex sx]| |] eqn:RX; cbn [bind] in H; try discriminate H.
      destruct (render_list slug o v pv r _ _ sx) as [[er sr]| |] eqn:RL; cbn [bind] in H; try discriminate H.
      injection H as <- <-. rewrite forallb_app.
      rewrite (Hx XR _ _ _ _ RX), (IH RR _ _ _ _ _ RL). reflexivity.
  Qed.

  Lemma render_lexs : forall n, render_lexs_at n.
  Proof.
    induction n as [v sp ch IH] using node_ind2. intros HR c st e st' H.
    cbn [raw_ok] in HR. apply andb_true_iff in HR. destruct HR as [V CR].
    rewrite render_unfold in H.
    destruct (enter slug o c (Node v sp ch) st) as [[[e1 st1] m]| |] eqn:EN; cbn [bind] in H; try discriminate H.
    apply (enter_lexs _ _ _ _ _ _ _ _ _ _ SL V) in EN.
    destruct m.
    - destruct (render_list slug o v _ ch 0 None st1) as [[e2 st2]| |] eqn:RL; cbn [bind] in H; try discriminate H.
      destruct (exit_ o c (Node v sp ch) st2) as [[e3 st3]| |] eqn:EX; cbn [bind] in H; try discriminate H.
      injection H as <- <-. rewrite !forallb_app, EN.
      rewrite (render_list_lexs _ _ _ IH CR _ _ _ _ _ RL), (exit_lexs _ _ _ _ _ _ _ _ V EX). reflexivity.
    - cbn [bind] in H.
      destruct (exit_ o c (Node v sp ch) st1) as [[e3 st3]| |] eqn:EX; cbn [bind] in H; try discriminate H.
      injection H as <- <-. rewrite !forallb_app, EN, (exit_lexs _ _ _ _ _ _ _ _ V EX). reflexivity.
  Qed.

  Lemma finish_lexs st : forallb lexs_ev (finish st) = true.
  Proof. unfold finish. destruct (0 <? fn_ix st)%N; fin5. Qed.

  Lemma events_lexs t evs :
    raw_ok o t = true -> events slug o t = Ok evs -> forallb lexs_ev evs = true.
  Proof.
    intros HR H. unfold events in H.
    destruct (render slug o root_ctx t _) as [[e st]| |] eqn:R; cbn [bind] in H; try discriminate H.
    injection H as <-. rewrite forallb_app, (render_lexs t HR _ _ _ _ R), finish_lexs. reflexivity.
  Qed.
End Traversal5.

Theorem events_lexable slug o t evs :
  (forall h, forallb no_active_byte (slug h) = true) -> raw_ok o t = true ->
  events slug o t = Ok evs -> lexable evs = true /\ no_own_sp evs = true.
Proof. intros SL HR H. apply lexs_split. exact (events_lexs slug o SL t evs HR H). Qed.

(* the three ways raw HTML is not passed through *)
Fixpoint no_html_nodes (n : node) : bool :=
  match n with
  | Node v _ ch =>
    (match v with HtmlBlock _ _ => false | HtmlInline _ => false | _ => true end) && forallb no_html_nodes ch
  end.

(* literals written as is: Raw and EscapedTag *)
Fixpoint lits_notlt (n : node) : bool :=
  match n with
  | Node v _ ch =>
    (match v with Raw l => forallb notlt l | EscapedTag l => forallb notlt l | _ => true end) &&
    forallb lits_notlt ch
  end.

Lemma raw_ok_intro o : forall t,
  lits_notlt t = true ->
  (o_unsafe o = false \/ o_escape o = true \/ no_html_nodes t = true) -> raw_ok o t = true.
Proof.
  induction t as [v sp ch IH] using node_ind2. intros L C.
  cbn [lits_notlt] in L. apply andb_true_iff in L. destruct L as [Lv Lc].
  cbn [raw_ok]. apply andb_true_iff. split.
  - destruct v; try reflexivity; try exact Lv; cbn [v_raw_ok];
      (destruct C as [C|[C|C]]; [rewrite C; apply orb_true_r | rewrite C; reflexivity |
        cbn [no_html_nodes] in C; discriminate C]).
  - rewrite forallb_forall in *. rewrite Forall_forall in IH. intros x Hx. apply (IH x Hx (Lc x Hx)).
    destruct C as [C|[C|C]]; [left; exact C | right; left; exact C | right; right].
    cbn [no_html_nodes] in C. apply andb_true_iff in C. destruct C as [_ C].
    rewrite forallb_forall in C. exact (C x Hx).
Qed.

(* ------------------------------------------------------------------ Part 6 *)
(* the byte-level statements about the renderer model *)
Lemma html_events slug o t b :
  html slug o t = Ok b -> exists evs, events slug o t = Ok evs /\ b = ser evs.
Proof.
  unfold html. destruct (events slug o t) as [evs| |]; cbn [bind]; intro H; try discriminate H.
  injection H as <-. exists evs. split; reflexivity.
Qed.

Lemma c02_bytes slug o t b :
  o_unsafe o = false -> s7 t = true -> s4 t = true ->
  (forall h, forallb inert_byte (slug h) = true) ->
  html slug o t = Ok b -> html_safe_check b = 0%N.
Proof.
  intros U H7 H4 SL H. destruct (html_events _ _ _ _ H) as (evs & E & ->).
  apply safe_check_ser. exact (c02_events slug o t evs U H7 H4 SL E).
Qed.

Lemma c10_bytes_lexable slug o t b :
  s2 t = true -> s3 t = true -> s6w t = true ->
  (forall evs, events slug o t = Ok evs -> lexable evs = true) ->
  html slug o t = Ok b -> html_balanced_check b = 0%N.
Proof.
  intros H2 H3 H6 L H. destruct (html_events _ _ _ _ H) as (evs & E & ->).
  apply balanced_check_ser; [exact (L evs E) | exact (nested_weak slug o t evs H2 H3 H6 E)].
Qed.

Lemma c10_bytes slug o t b :
  s2 t = true -> s3 t = true -> s6w t = true ->
  (forall h, forallb no_active_byte (slug h) = true) -> lits_notlt t = true ->
  (o_unsafe o = false \/ o_escape o = true \/ no_html_nodes t = true) ->
  html slug o t = Ok b -> html_balanced_check b = 0%N.
Proof.
  intros H2 H3 H6 SL LN C H. apply (c10_bytes_lexable slug o t b H2 H3 H6); [|exact H].
  intros evs E. exact (proj1 (events_lexable slug o t evs SL (raw_ok_intro o t LN C) E)).
Qed.

Lemma s7_lits_notlt : forall t, s7 t = true -> lits_notlt t = true.
Proof.
  induction t as [v sp ch IH] using node_ind2. cbn [s7 lits_notlt]. intro H.
  apply andb_true_iff in H. destruct H as [Hv Hc]. apply andb_true_iff. split.
  - destruct v; try reflexivity; try discriminate Hv. apply inert_notlt_l, Hv.
  - rewrite forallb_forall in *. rewrite Forall_forall in IH. intros x Hx. exact (IH x Hx (Hc x Hx)).
Qed.

Lemma inert_slug_no_active (slug : bytes -> bytes) :
  (forall h, forallb inert_byte (slug h) = true) -> forall h, forallb no_active_byte (slug h) = true.
Proof. intros H h. apply inert_no_active_l, H. Qed.

Lemma c18_bytes_events slug o t evs :
  events slug (set_sp true o) t = Ok evs -> lexable evs = true -> no_own_sp evs = true ->
  html slug (set_sp true o) t = Ok (ser evs) /\
  html slug (set_sp false o) t = Ok (ser (map erase_sp evs)) /\
  strip_sourcepos (ser evs) = Some (ser (map erase_sp evs)).
Proof.
  intros E L N. split; [|split].
  - unfold html. rewrite E. reflexivity.
  - rewrite html_sp_bytes, E. reflexivity.
  - exact (strip_sourcepos_ser evs L N).
Qed.

Lemma c18_bytes slug o t on :
  (forall h, forallb no_active_byte (slug h) = true) -> lits_notlt t = true ->
  (o_unsafe o = false \/ o_escape o = true \/ no_html_nodes t = true) ->
  html slug (set_sp true o) t = Ok on ->
  exists off, html slug (set_sp false o) t = Ok off /\ strip_sourcepos on = Some off /\
              relex_identity on = true /\ relex_identity off = true.
Proof.
  intros SL LN C H. destruct (html_events _ _ _ _ H) as (evs & E & ->).
  assert (raw_ok (set_sp true o) t = true) as R by (apply raw_ok_intro; [exact LN | exact C]).
  destruct (events_lexable slug _ t evs SL R E) as [L N].
  destruct (c18_bytes_events slug o t evs E L N) as (_ & B & S).
  exists (ser (map erase_sp evs)). repeat split; try assumption.
  - apply relex_identity_ser, L.
  - apply relex_identity_ser.
    assert (raw_ok (set_sp false o) t = true) as R' by (apply raw_ok_intro; [exact LN | exact C]).
    refine (proj1 (events_lexable slug (set_sp false o) t _ SL R' _)).
    rewrite html_sp_events, E. reflexivity.
Qed.

(* without the clause on raw HTML the byte-level balance statement is false: passed-through bytes
   are lexed as tags *)
Definition o_unsafe_plain : opts :=
  mkOpts false None false false false false false false false 0 true false 45 false false false false false false 0 false false.
Definition raw_div_tree : node :=
  Node Document (mkSp 1 1 1 5) [Node (HtmlBlock 6 (B "<div>")) (mkSp 1 1 1 5) []].

Lemma c10_bytes_without_raw_clause_refuted :
  ~ (forall slug o t b, s2 t = true -> s3 t = true -> s6w t = true ->
       html slug o t = Ok b -> html_balanced_check b = 0%N).
Proof.
  intro H. specialize (H (fun b => b) o_unsafe_plain raw_div_tree _ eq_refl eq_refl eq_refl eq_refl).
  vm_compute in H. discriminate H.
Qed.

(* ------------------------------------------------------------------ Part 7 *)
(* the lexer is strict: whatever it accepts prints back to the input byte for byte (so
   relex_identity holds on every input that lexes), for EVERY byte string *)
Lemma span_sound (p : byte -> bool) : forall s a t, span p s = (a, t) -> s = a ++ t.
Proof.
  induction s as [|b r IH]; intros a t H; cbn [span] in H.
  - injection H as <- <-. reflexivity.
  - destruct (p b).
    + destruct (span p r) as [a' t'] eqn:E. injection H as <- <-. rewrite (IH a' t' eq_refl). reflexivity.
    + injection H as <- <-. reflexivity.
Qed.

Lemma lex_value_sound : forall s v t, lex_value s = Some (v, t) -> s = v ++ x22 :: t.
Proof.
  induction s as [|b r IH]; intros v t H; cbn [lex_value] in H; [discriminate H|].
  destruct (beqb b x22) eqn:Q.
  - apply beqb_eq in Q. subst b. injection H as <- <-. reflexivity.
  - destruct (beqb b x3c || beqb b x3e); [discriminate H|].
    destruct (lex_value r) as [[v' t']|] eqn:E; [|discriminate H].
    injection H as <- <-. rewrite (IH v' t' eq_refl). reflexivity.
Qed.

Lemma lta_sound : forall fuel s acc attrs void rest,
  lex_tag_attrs fuel s acc = Some (attrs, void, rest) ->
  exists a, attrs = rev acc ++ a /\ s = flat_map tok_attr_bytes a ++ tag_end void ++ rest.
Proof.
  induction fuel as [|f IH]; intros s acc attrs void rest H; cbn [lex_tag_attrs] in H; [discriminate H|].
  destruct s as [|c r]; [discriminate H|].
  destruct (beqb c x3e) eqn:C1.
  { apply beqb_eq in C1. subst c. injection H as <- <- <-. exists []. rewrite app_nil_r. split; reflexivity. }
  destruct (beqb c x20) eqn:C2; [|discriminate H]. apply beqb_eq in C2. subst c.
  destruct r as [|d r']; [discriminate H|].
  destruct (beqb d x2f) eqn:D1.
  { apply beqb_eq in D1. subst d. destruct r' as [|e r'']; [discriminate H|].
    destruct (beqb e x3e) eqn:E1; [|discriminate H]. apply beqb_eq in E1. subst e.
    injection H as <- <- <-. exists []. rewrite app_nil_r. split; reflexivity. }
  destruct (span attrname_byte (d :: r')) as [n t] eqn:SP.
  apply span_sound in SP. rewrite SP.
  destruct n as [|n0 n']; [discriminate H|].
  assert (forall at' , lex_tag_attrs f t ((n0 :: n', None) :: acc) = Some (at', void, rest) ->
          exists a, at' = rev acc ++ a /\
                    x20 :: (n0 :: n') ++ t = flat_map tok_attr_bytes a ++ tag_end void ++ rest) as Bare.
  { intros at' H'. destruct (IH _ _ _ _ _ H') as (a & -> & ->).
    exists ((n0 :: n', None) :: a). cbn [rev]. rewrite <- app_assoc. split; [reflexivity|].
    cbn [flat_map tok_attr_bytes]. rewrite <- !app_assoc. reflexivity. }
  destruct t as [|e [|q t']]; try (apply Bare; exact H).
  destruct (beqb e x3d) eqn:E1; [|apply Bare; exact H].
  apply beqb_eq in E1. subst e.
  destruct (beqb q x22) eqn:Q1; [|discriminate H]. apply beqb_eq in Q1. subst q.
  destruct (lex_value t') as [[v t'']|] eqn:LV; [|discriminate H].
  apply lex_value_sound in LV. subst t'.
  destruct (IH _ _ _ _ _ H) as (a & -> & ->).
  exists ((n0 :: n', Some v) :: a). cbn [rev]. rewrite <- app_assoc. split; [reflexivity|].
  cbn [flat_map tok_attr_bytes]. rewrite <- !app_assoc. reflexivity.
Qed.

Lemma skipn_starts_with : forall p s, starts_with s p = true -> s = p ++ skipn (List.length p) s.
Proof.
  induction p as [|y p IH]; intros s H; [reflexivity|].
  destruct s as [|x s]; [discriminate H|]. cbn [starts_with] in H.
  apply andb_true_iff in H. destruct H as [H1 H2]. apply beqb_eq in H1. subst y.
  cbn [List.length skipn app]. rewrite <- (IH s H2). reflexivity.
Qed.

Lemma html_lex_go_sound : forall fuel s acc ts,
  html_lex_go fuel s acc = Some ts -> exists ts', ts = rev acc ++ ts' /\ flat_map tok_bytes ts' = s.
Proof.
  induction fuel as [|f IH]; intros s acc ts H; cbn [html_lex_go] in H; [discriminate H|].
  destruct s as [|c r].
  { injection H as <-. exists []. rewrite app_nil_r. split; reflexivity. }
  assert (forall k rest, html_lex_go f rest (k :: acc) = Some ts -> tok_bytes k ++ rest = c :: r ->
          exists ts', ts = rev acc ++ ts' /\ flat_map tok_bytes ts' = c :: r) as Step.
  { intros k rest H' E. destruct (IH _ _ _ H') as (ts' & -> & <-).
    exists (k :: ts'). cbn [rev]. rewrite <- app_assoc. split; [reflexivity|]. exact E. }
  destruct (beqb c x3c) eqn:C1.
  - apply beqb_eq in C1. subst c.
    destruct (starts_with (x3c :: r) omitted) eqn:OM.
    { apply (Step TCmt _ H). cbn [tok_bytes]. symmetry. apply skipn_starts_with, OM. }
    destruct r as [|d r']; [discriminate H|].
    destruct (beqb d x2f) eqn:D1.
    + apply beqb_eq in D1. subst d.
      destruct (span tag_byte r') as [n t] eqn:SP. apply span_sound in SP. subst r'.
      destruct n as [|n0 n']; [discriminate H|]. destruct t as [|e t']; [discriminate H|].
      destruct (beqb e x3e) eqn:E1; [|discriminate H]. apply beqb_eq in E1. subst e.
      apply (Step (TClose (n0 :: n')) _ H). cbn [tok_bytes]. rewrite <- !app_assoc. reflexivity.
    + destruct (span tag_byte (d :: r')) as [n t] eqn:SP. apply span_sound in SP. rewrite SP in Step |- *.
      destruct n as [|n0 n']; [discriminate H|].
      destruct (lex_tag_attrs (S (List.length t)) t []) as [[[attrs void] t']|] eqn:LT; [|discriminate H].
      destruct (lta_sound _ _ _ _ _ _ LT) as (a & -> & ->). cbn [rev app] in H.
      destruct void.
      * apply (Step (TVoid (n0 :: n') a) _ H). cbn [tok_bytes tag_end]. rewrite <- !app_assoc. reflexivity.
      * apply (Step (TOpen (n0 :: n') a) _ H). cbn [tok_bytes tag_end]. rewrite <- !app_assoc. reflexivity.
  - destruct (span (fun b => negb (beqb b x3c)) (c :: r)) as [txt t] eqn:SP.
    apply span_sound in SP. apply (Step (TText txt) _ H). cbn [tok_bytes]. symmetry. exact SP.
Qed.

Theorem html_lex_sound s ts : html_lex s = Some ts -> flat_map tok_bytes ts = s.
Proof.
  unfold html_lex. intro H. destruct (html_lex_go_sound _ _ _ _ H) as (ts' & -> & E). exact E.
Qed.

Corollary relex_identity_of_lex s : relex_identity s = match html_lex s with Some _ => true | None => false end.
Proof.
  unfold relex_identity. destruct (html_lex s) as [ts|] eqn:E; [|reflexivity].
  apply bytes_eqb_eq, html_lex_sound, E.
Qed.
