(* Proofs/InlinesTotal2Inv.v — the invariant of the parser state that bounds the work of process_emphasis, carried
   through every arm of parse_inline, and the theorem: the inline phase of a block never answers OutOfFuel
   (inlines_fuel_full_statement of Props/Inlines.v), for every option set and every input.

   FInv s:
     * every stacked delimiter d: its byte is an emphasis byte under the options or a quote (dchar_ok), d_pos d <= |input|,
       and unless it is a quote the Text items that carry d_id d hold at most d_len d bytes;
     * the stack is a chain: the delimiter runs are disjoint stretches of the input, in order
       (previous d_pos + length of this run <= this d_pos), so their lengths add up to at most |input|;
     * ids: equal ids on the stack belong to equal bytes, every stacked id and every sibling id is below the counter;
     * d_pos d <= pos.
   No axioms. *)
From Coq Require Import List NArith ZArith Arith Bool Strings.String Lia.
From V Require Import Base.Bytes Base.Res Gen.StrLeafGen Gen.Consts Gen.Special Model.Special
     Model.Scan Model.Strings Model.Entity Model.LinkUrl Model.AutolinkLeaf Model.Spx Model.Ast Model.Inlines
     Proofs.InlinesProofs Proofs.InlinesMemo Proofs.InlinesTotalAutolink Proofs.InlinesTotalFuel Proofs.InlinesTotal
     Proofs.InertInlines Proofs.InlinesTotal2Pe Proofs.InlinesTotal2Fuel.
Import ListNotations.
Local Open Scope list_scope.

(* ------------------------------------------------------------------ chains *)
Definition cw (d : delim) : nat := if quote (d_char d) then 0 else d_len d.

Fixpoint chain (lo : nat) (ds : list delim) : Prop :=
  match ds with
  | [] => True
  | d :: r => lo + cw d <= d_pos d /\ chain (d_pos d) r
  end.

Fixpoint sumcw (ds : list delim) : nat := match ds with [] => 0 | d :: r => cw d + sumcw r end.

Lemma chain_weaken lo lo' ds : chain lo ds -> lo' <= lo -> chain lo' ds.
Proof. destruct ds; cbn [chain]; [auto|]. intros [A B] L. split; [lia|exact B]. Qed.

Lemma chain_filter f : forall ds lo, chain lo ds -> chain lo (filter f ds).
Proof.
  induction ds as [|d r IH]; intros lo H; cbn [filter]; [exact I|]. destruct H as [A B].
  destruct (f d); cbn [chain].
  - split; [exact A|apply IH, B].
  - eapply chain_weaken; [apply IH, B|lia].
Qed.

Lemma chain_snoc d' : forall ds lo q,
  chain lo ds -> (forall x, In x ds -> d_pos x <= q) -> lo <= q -> q + cw d' <= d_pos d' -> chain lo (ds ++ [d']).
Proof.
  induction ds as [|d r IH]; intros lo q H Hq Hlo Hd; cbn [app chain].
  - split; [lia|exact I].
  - destruct H as [A B]. split; [exact A|]. apply (IH (d_pos d) q).
    + exact B.
    + intros x Hx. apply Hq. right. exact Hx.
    + apply Hq. left. reflexivity.
    + exact Hd.
Qed.

Lemma chain_sum : forall ds lo L,
  chain lo ds -> (forall x, In x ds -> d_pos x <= L) -> lo <= L -> lo + sumcw ds <= L.
Proof.
  induction ds as [|d r IH]; intros lo L H HL Hlo; cbn [sumcw]; [lia|]. destruct H as [A B].
  assert (d_pos d + sumcw r <= L).
  { apply IH; [exact B| |apply HL; left; reflexivity]. intros x Hx. apply HL. right. exact Hx. }
  lia.
Qed.

Lemma sumcw_filter f ds : sumcw (filter f ds) <= sumcw ds.
Proof. induction ds as [|d r IH]; cbn [filter sumcw]; [lia|]. destruct (f d); cbn [sumcw]; lia. Qed.

Lemma sumf_sumcw items ds :
  (forall d, In d ds -> quote (d_char d) = false -> tlsum items (d_id d) <= d_len d) -> sumf items ds <= sumcw ds.
Proof.
  induction ds as [|d r IH]; intro H; cbn [sumf sumcw]; [lia|].
  assert (sumf items r <= sumcw r) by (apply IH; intros; apply H; [right|]; assumption).
  unfold dw, cw. destruct (quote (d_char d)) eqn:E; [lia|]. specialize (H d (or_introl eq_refl) E). lia.
Qed.

Lemma filter_true {A} (l : list A) : filter (fun _ => true) l = l.
Proof. induction l as [|x l IH]; cbn [filter]; [reflexivity|]. rewrite IH. reflexivity. Qed.

Lemma tlsum_fresh l k : (forall it, In it l -> fst it < k) -> tlsum l k = 0.
Proof.
  induction l as [|x l IH]; intro H; cbn [tlsum]; [reflexivity|].
  rewrite IH by (intros; apply H; right; assumption).
  assert (Nat.eqb (fst x) k = false) as -> by (apply Nat.eqb_neq; specialize (H x (or_introl eq_refl)); lia).
  reflexivity.
Qed.

Section FI.
Variable o : iopts.
Variable inp : bytes.

Definition dgood0 (s : st) (d : delim) : Prop :=
  dchar_ok o (d_char d) = true /\ d_pos d <= List.length inp
  /\ (quote (d_char d) = false -> tlsum (sibs s) (d_id d) <= d_len d).

(* the part the fuel bound reads *)
Definition FI0 (s : st) : Prop :=
  (forall d, In d (delims s) -> dgood0 s d) /\ chain 0 (delims s) /\ idinj (delims s).

(* with the ids: everything that does not mention pos *)
Definition FIN (s : st) : Prop :=
  FI0 s /\ (forall d, In d (delims s) -> d_id d < nid s) /\ (forall it, In it (sibs s) -> fst it < nid s).

Definition PC (s : st) : Prop := forall d, In d (delims s) -> d_pos d <= pos s.

Definition FInv (s : st) : Prop := FIN s /\ PC s.

Lemma FIN_weaken s s' f :
  FIN s -> delims s' = filter f (delims s) -> nid s <= nid s' ->
  (forall j, j < nid s -> tlsum (sibs s') j <= tlsum (sibs s) j) ->
  (forall it, In it (sibs s') -> fst it < nid s') -> FIN s'.
Proof.
  intros [[G [C J]] [B I3]] Hd Hn Ht Hi. split; [split; [|split]|split].
  - intros d Hdin. rewrite Hd in Hdin. apply filter_In in Hdin. destruct Hdin as [Hin _].
    destruct (G d Hin) as (a & b & c). split; [exact a|]. split; [exact b|].
    intro q. specialize (c q). specialize (Ht (d_id d) (B d Hin)). lia.
  - rewrite Hd. apply chain_filter, C.
  - rewrite Hd. eapply idinj_incl; [|exact J]. intros d Hx. apply filter_In in Hx. apply Hx.
  - intros d Hdin. rewrite Hd in Hdin. apply filter_In in Hdin. destruct Hdin as [Hin _]. specialize (B d Hin). lia.
  - exact Hi.
Qed.

Definition fr3 (s s' : st) : Prop := delims s' = delims s /\ sibs s' = sibs s /\ nid s' = nid s.

Lemma frame_fr3 s s' : frame s s' -> fr3 s s'.
Proof. intros [A [_ [B C]]]. split; [|split]; assumption. Qed.

Lemma fr3_trans a b c : fr3 a b -> fr3 b c -> fr3 a c.
Proof. intros [A1 [A2 A3]] [B1 [B2 B3]]. split; [|split]; congruence. Qed.

Lemma FIN_fr3 s s' : fr3 s s' -> FIN s -> FIN s'.
Proof.
  intros [A [B C]] H. apply (FIN_weaken s s' (fun _ => true) H).
  - rewrite filter_true. exact A.
  - lia.
  - intros j _. rewrite B. lia.
  - rewrite B, C. apply H.
Qed.

Lemma FI0_fr3 s s' : fr3 s s' -> FI0 s -> FI0 s'.
Proof.
  intros [A [B C]] [G [Ch J]]. unfold FI0, dgood0. rewrite A, B. split; [exact G|]. split; assumption.
Qed.

Lemma PC_mono s s' : PC s -> incl (delims s') (delims s) -> pos s <= pos s' -> PC s'.
Proof. intros H Hi Hp d Hd. specialize (H d (Hi d Hd)). lia. Qed.

Lemma FIN_push s n : FIN s -> FIN (fst (push_item s n)).
Proof.
  intro H. apply (FIN_weaken s _ (fun _ => true) H); cbn [push_item fst delims sibs nid set_sibs].
  - rewrite filter_true. reflexivity.
  - lia.
  - intros j Hj. cbn [tlsum fst]. assert (Nat.eqb (nid s) j = false) as -> by (apply Nat.eqb_neq; lia). lia.
  - destruct H as [_ [_ I3]]. intros it [<-|Hi]; [cbn [fst]; lia|]. specialize (I3 it Hi). lia.
Qed.

Lemma FInv_step_frame s s1 n :
  FInv s -> fr3 s s1 -> pos s <= pos s1 -> FInv (fst (push_item s1 n)).
Proof.
  intros [H P] F Hp. split.
  - apply FIN_push. eapply FIN_fr3; eassumption.
  - apply (PC_mono s); [exact P| |cbn [push_item fst pos set_sibs]; exact Hp].
    cbn [push_item fst delims set_sibs]. destruct F as [-> _]. apply incl_refl.
Qed.

(* ------------------------------------------------------------------ a delimiter run is pushed *)
Lemma FInv_push_delim s s2 n d' t :
  FInv s -> fr3 s s2 -> pos s < pos s2 -> pos s2 <= List.length inp ->
  dchar_ok o (d_char d') = true -> d_id d' = nid s2 -> d_pos d' = pos s2 ->
  (quote (d_char d') = false -> d_len d' <= pos s2 - pos s) ->
  text_of n = Some t -> List.length t = d_len d' ->
  FInv (set_delims (fst (push_item s2 n)) (delims (fst (push_item s2 n)) ++ [d'])).
Proof.
  intros [[[G [C J]] [B I3]] P] [F1 [F2 F3]] Hp Hl Hok Hid Hpos Hlen Ht Htl.
  cbn [push_item fst delims set_sibs]. rewrite F1.
  assert (forall d, In d (delims s) -> Nat.eqb (nid s2) (d_id d) = false) as Hne.
  { intros d Hd. apply Nat.eqb_neq. specialize (B d Hd). lia. }
  split; [split; [split; [|split]|split]|].
  - intros d Hd. cbn [delims set_delims] in Hd. apply in_app_or in Hd. unfold dgood0. cbn [sibs set_delims set_sibs tlsum fst].
    destruct Hd as [Hd|[<-|[]]].
    + destruct (G d Hd) as (a & b & c). split; [exact a|]. split; [exact b|].
      rewrite (Hne d Hd), F2. exact c.
    + split; [exact Hok|]. split; [lia|]. intros _. rewrite Hid, Nat.eqb_refl.
      rewrite tlsum_fresh by (rewrite F2, F3; exact I3). unfold tlen. cbn [snd]. rewrite Ht. lia.
  - cbn [delims set_delims]. apply (chain_snoc d' (delims s) 0 (pos s)); [exact C|exact P|lia|].
    unfold cw. destruct (quote (d_char d')) eqn:Eq; [lia|]. specialize (Hlen eq_refl). lia.
  - cbn [delims set_delims]. intros d1 d2 H1 H2 E. apply in_app_or in H1. apply in_app_or in H2.
    destruct H1 as [H1|[<-|[]]]; destruct H2 as [H2|[<-|[]]].
    + apply J; assumption.
    + specialize (B d1 H1). lia.
    + specialize (B d2 H2). lia.
    + reflexivity.
  - cbn [delims set_delims nid set_sibs]. intros d Hd. apply in_app_or in Hd.
    destruct Hd as [Hd|[<-|[]]]; [specialize (B d Hd); lia|lia].
  - cbn [sibs set_delims set_sibs nid]. intros it [<-|Hi]; [cbn [fst]; lia|]. rewrite F2 in Hi. specialize (I3 it Hi). lia.
  - intros d Hd. cbn [delims set_delims pos set_sibs] in *. apply in_app_or in Hd.
    destruct Hd as [Hd|[<-|[]]]; [specialize (P d Hd); lia|lia].
Qed.

(* ------------------------------------------------------------------ process_emphasis under the invariant *)
Lemma pe_nofuel_FI0 s s1 n0 items f bottom :
  FI0 s -> (forall j, tlsum items j <= tlsum (sibs s) j) ->
  process_emphasis o inp s1 n0 items (filter f (delims s)) bottom <> OutOfFuel.
Proof.
  intros [G [C J]] Ht. apply process_emphasis_fuel.
  - eapply idinj_incl; [|exact J]. intros d Hd. apply filter_In in Hd. apply Hd.
  - apply Forall_forall. intros d Hd. apply filter_In in Hd. apply (G d), Hd.
  - assert (sumf items (filter f (delims s)) <= sumcw (filter f (delims s))) as A.
    { apply sumf_sumcw. intros d Hd Hq. apply filter_In in Hd. destruct (G d (proj1 Hd)) as (_ & _ & c).
      specialize (c Hq). specialize (Ht (d_id d)). lia. }
    pose proof (sumcw_filter f (delims s)) as B.
    assert (0 + sumcw (delims s) <= List.length inp) as D.
    { apply chain_sum; [exact C| |lia]. intros x Hx. apply (G x Hx). }
    lia.
Qed.

Lemma cbm_nofuel s img url title : FI0 s -> close_bracket_match o inp s img url title <> OutOfFuel.
Proof.
  intro H. apply close_bracket_match_nofuel. intros b _ after_rev bi before_rev Es.
  apply split_at_id_eq in Es. destruct Es as [Es _].
  apply (pe_nofuel_FI0 s); [exact H|]. intro j. rewrite tlsum_rev, Es, tlsum_app. lia.
Qed.

(* ------------------------------------------------------------------ close_bracket_match keeps FIN *)
Lemma cbm_FIN s img url title s' :
  FIN s -> close_bracket_match o inp s img url title = Ok s' ->
  FIN s' /\ incl (delims s') (delims s) /\ pos s' = pos s.
Proof.
  intros I H. unfold close_bracket_match in H.
  destruct (top_bracket s) as [b|?|] eqn:Eb; cbn [bind] in H; try discriminate.
  destruct (mk s _ _ _) as [tmp|?|] eqn:Emk; cbn [bind] in H; try discriminate.
  destruct (split_at_id (b_id b) (sibs s)) as [[[after_rev bi] before_rev]|] eqn:Es; [|discriminate].
  destruct (end_col s) as [ecol|?|]; cbn [bind] in H; try discriminate.
  cbn [fresh_id] in H.
  destruct (process_emphasis o inp _ _ _ _ _) as [[kids n1]|?|] eqn:Ep; cbn [bind] in H; try discriminate.
  apply (process_emphasis_mono (fun _ => false)) in Ep.
  cbn [delims brackets sibs nid pos set_sibs set_delims fst snd] in *.
  apply split_at_id_eq in Es. destruct Es as [Es _].
  apply mk_nval in Emk.
  set (link := Node (nval tmp) (mkSp (sl (nsp (snd bi))) (sc (nsp (snd bi))) (el (nsp tmp)) ecol) (map snd kids)) in *.
  set (s3 := pop_bracket (set_delims (set_sibs (set_sibs s (S (nid s)) (sibs s)) n1 ((nid s, link) :: before_rev))
                (delims_below (delims (set_sibs (set_sibs s (S (nid s)) (sibs s)) n1 ((nid s, link) :: before_rev))) (b_pos b)))) in *.
  assert (FIN s3) as I'.
  { apply (FIN_weaken s s3 (fun d => Nat.ltb (d_pos d) (b_pos b)) I); unfold s3, pop_bracket;
      cbn [delims brackets sibs nid pos set_sibs set_delims set_brackets].
    - reflexivity.
    - lia.
    - intros j _. cbn [tlsum fst]. rewrite Es, tlsum_app. cbn [tlsum].
      assert (tlen (nid s, link) = 0) as ->.
      { unfold tlen, link. cbn [snd]. unfold text_of. cbn [nval]. rewrite Emk. destruct img; reflexivity. }
      destruct (Nat.eqb (nid s) j); lia.
    - destruct I as [_ [_ I3]]. intros it [<-|Hi]; [cbn [fst]; lia|].
      assert (fst it < nid s) by (apply I3; rewrite Es; apply in_or_app; right; right; exact Hi). lia. }
  assert (incl (delims s3) (delims s) /\ pos s3 = pos s) as [A B].
  { unfold s3, pop_bracket. cbn [delims pos set_sibs set_delims set_brackets]. split; [|reflexivity].
    intros d Hd. unfold delims_below in Hd. apply filter_In in Hd. apply Hd. }
  destruct img; inversion H; subst s'; [auto|].
  split; [|split; [exact A|exact B]].
  eapply FIN_fr3; [|exact I']. unfold fr3. cbn [delims sibs nid set_nlo]. auto.
Qed.

(* ------------------------------------------------------------------ handle_close_bracket *)
Lemma lk_fr3 refmap maxref (c : bool) s1 lab s2 r :
  (if c then ref_lookup refmap maxref s1 lab else Ok (s1, None)) = Ok (s2, r) -> fr3 s1 s2.
Proof. intro H. apply frame_fr3. eapply lk_frame. exact H. Qed.

Lemma fr3_set_pos s p : fr3 s (set_pos s p).
Proof. unfold fr3. cbn [delims sibs nid set_pos]. auto. Qed.

Lemma fr3_pop s : fr3 s (pop_bracket s).
Proof. unfold fr3, pop_bracket. cbn [delims sibs nid set_brackets]. auto. Qed.

Lemma fr3_refl s : fr3 s s.
Proof. unfold fr3. auto. Qed.

Lemma hcb_FIN u refmap maxref s0 s' n :
  FIN s0 -> handle_close_bracket o u inp refmap maxref s0 = Ok (s', n) ->
  FIN s' /\ incl (delims s') (delims s0).
Proof.
  intros I0 H. unfold handle_close_bracket in H.
  set (s := set_pos s0 (S (pos s0))) in *.
  assert (FIN s) as I by (apply (FIN_fr3 s0); [apply fr3_set_pos | exact I0]).
  assert (delims s = delims s0) as Ed by reflexivity. rewrite <- Ed. clear Ed.
  clearbody s. clear I0.
  destruct (brackets s) as [|b br] eqn:Eb; [inv; split; [exact I|apply incl_refl]|].
  cbv zeta in H.
  destruct (negb (b_image b) && nlo s); [inv; split; [apply (FIN_fr3 s); [apply fr3_pop|exact I]|apply incl_refl]|].
  destruct (split_at_id (b_id b) (sibs s)) as [[[after_rev bi] before_rev]|] eqn:Es; [|discriminate].
  match type of H with (if ?c then _ else _) = _ => destruct c end;
    [inv; split; [apply (FIN_fr3 s); [apply fr3_pop|exact I]|apply incl_refl]|].
  match type of H with bind ?r _ = _ => destruct r as [il|?|] end; cbn [bind] in H; try discriminate.
  destruct il as [[[p' cu] ct]|].
  - destruct (close_bracket_match _ _ _ _ _ _) as [s1|?|] eqn:Ec; cbn [bind] in H; try discriminate.
    inversion H; subst. apply cbm_FIN in Ec; [|apply (FIN_fr3 s); [apply fr3_set_pos|exact I]].
    destruct Ec as (A & B & _). split; [exact A|exact B].
  - match type of H with (match ?x with _ => _ end) = _ => destruct x as [[lab0 found0] p1] end.
    match type of H with bind ?r _ = _ => destruct r as [[lab fl]|?|] end; cbn [bind] in H; try discriminate.
    match type of H with bind ?r _ = _ => destruct r as [[s2 reff]|?|] eqn:Elk end; cbn [bind] in H; try discriminate.
    assert (fr3 s s2) as F by (eapply fr3_trans; [apply fr3_set_pos | exact (lk_fr3 _ _ _ _ _ _ _ Elk)]).
    assert (FIN s2) as I2 by (eapply FIN_fr3; eauto).
    destruct reff as [[url title]|].
    + destruct (close_bracket_match _ _ _ _ _ _) as [s1|?|] eqn:Ec; cbn [bind] in H; try discriminate.
      inversion H; subst. apply cbm_FIN in Ec; [|exact I2]. destruct Ec as (A & B & _).
      split; [exact A|]. destruct F as [F1 _]. rewrite <- F1. exact B.
    + match type of H with (if ?c then _ else _) = _ => destruct c end.
      * (* footnote reference *)
        destruct (mk _ _ _ _) as [tmp|?|] eqn:Emk; cbn [bind] in H; try discriminate.
        apply mk_nval in Emk.
        destruct (end_col _) as [ecol|?|]; cbn [bind] in H; try discriminate.
        cbn [fresh_id] in H. inversion H; subst s' n. clear H.
        destruct F as [F1 [F2 F3]].
        apply split_at_id_eq in Es. destruct Es as [Es _].
        split.
        -- apply (FIN_weaken s _ (fun d => Nat.ltb (d_pos d) (b_pos b)) I); unfold pop_bracket;
             cbn [delims brackets sibs nid pos set_pos set_sibs set_delims set_brackets fst snd].
           ++ rewrite F1. reflexivity.
           ++ lia.
           ++ intros j _. rewrite tlsum_app. cbn [tlsum fst]. rewrite Es, tlsum_app. cbn [tlsum].
              match goal with |- context [tlen (?i, ?nd)] => assert (tlen (i, nd) = 0) as -> end.
              { unfold tlen. cbn [snd]. unfold text_of. cbn [nval]. rewrite Emk. reflexivity. }
              match goal with |- context [tlsum ?l j] => match l with filter _ after_rev => assert (tlsum l j <= tlsum after_rev j) by apply tlsum_filter end end.
              repeat match goal with |- context [if ?c then _ else _] => destruct c end; lia.
           ++ destruct I as [_ [_ I3]]. rewrite F3. intros it Hit. apply in_app_or in Hit.
              destruct Hit as [Hit|[<-|Hit]]; [|cbn [fst]; lia|].
              ** apply filter_In in Hit. destruct Hit as [Hit _].
                 assert (fst it < nid s) by (apply I3; rewrite Es; apply in_or_app; left; exact Hit). lia.
              ** assert (fst it < nid s) by (apply I3; rewrite Es; apply in_or_app; right; right; exact Hit). lia.
        -- unfold pop_bracket. cbn [delims set_pos set_sibs set_delims set_brackets]. rewrite F1.
           intros d Hd. unfold delims_below in Hd. apply filter_In in Hd. apply Hd.
      * clear Elk. inv. split.
        -- apply (FIN_fr3 s2); [|exact I2]. eapply fr3_trans; [apply fr3_pop|apply fr3_set_pos].
        -- unfold pop_bracket. cbn [delims set_pos set_brackets]. destruct F as [-> _]. apply incl_refl.
Qed.

Lemma hcb_nofuel u refmap maxref s0 : FI0 s0 -> handle_close_bracket o u inp refmap maxref s0 <> OutOfFuel.
Proof.
  intro I0. unfold handle_close_bracket.
  set (s := set_pos s0 (S (pos s0))).
  assert (FI0 s) as I by (apply (FI0_fr3 s0); [apply fr3_set_pos | exact I0]).
  clearbody s. clear I0.
  destruct (brackets s) as [|b br] eqn:Eb; [nf|].
  cbv zeta.
  destruct (negb (b_image b) && nlo s); [nf|].
  destruct (split_at_id (b_id b) (sibs s)) as [[[after_rev bi] before_rev]|] eqn:Es; [|discriminate].
  match goal with |- (if ?c then _ else _) <> _ => destruct c end; [nf|].
  match goal with |- bind ?r _ <> _ => destruct r as [il|?|] eqn:Eil; cbn [bind];
    [| discriminate | exfalso; generalize Eil; clear Eil; match goal with |- ?x = _ -> _ => change (x <> OutOfFuel) end; nf] end.
  destruct il as [[[p' cu] ct]|].
  - match goal with |- bind ?r _ <> _ => destruct r as [s1|?|] eqn:Ec; cbn [bind]; [discriminate|discriminate|] end.
    exfalso. revert Ec. apply cbm_nofuel. apply (FI0_fr3 s); [apply fr3_set_pos|exact I].
  - match goal with |- (match ?x with _ => _ end) <> _ => destruct x as [[lab0 found0] p1] end.
    match goal with |- bind ?r _ <> _ => destruct r as [[lab fl]|?|] eqn:El; cbn [bind];
      [| discriminate | exfalso; generalize El; clear El; match goal with |- ?x = _ -> _ => change (x <> OutOfFuel) end; nf] end.
    match goal with |- bind ?r _ <> _ => destruct r as [[s2 reff]|?|] eqn:Elk; cbn [bind];
      [| discriminate | exfalso; generalize Elk; clear Elk; match goal with |- ?x = _ -> _ => change (x <> OutOfFuel) end; nf] end.
    assert (FI0 s2) as I2.
    { apply (FI0_fr3 s); [|exact I]. eapply fr3_trans; [apply fr3_set_pos | exact (lk_fr3 _ _ _ _ _ _ _ Elk)]. }
    destruct reff as [[url title]|].
    + match goal with |- bind ?r _ <> _ => destruct r as [s1|?|] eqn:Ec; cbn [bind]; [discriminate|discriminate|] end.
      exfalso. revert Ec. apply cbm_nofuel. exact I2.
    + match goal with |- (if ?c then _ else _) <> _ => destruct c end; [|nf].
      unfold fresh_id. nf.
Qed.

(* ------------------------------------------------------------------ the autolink arms *)
Lemma rewind_loop_tl : forall fuel reverse l l',
  rewind_loop fuel reverse l = Ok l' ->
  (forall j, tlsum l' j <= tlsum l j) /\ (forall it, In it l' -> In (fst it) (map fst l)).
Proof.
  induction fuel as [|f IH]; intros reverse l l' H.
  - destruct reverse; [|discriminate]. inversion H; subst. split; [intro; lia|]. intros it Hi. apply in_map. exact Hi.
  - cbn [rewind_loop] in H. destruct reverse as [|k].
    { inversion H; subst. split; [intro; lia|]. intros it Hi. apply in_map. exact Hi. }
    destruct l as [|[id n] r]; [discriminate|].
    destruct (text_of n) as [prev|] eqn:Et; [|discriminate].
    destruct (Nat.ltb (S k) (List.length prev)) eqn:El.
    + destruct (nsub _ _ _) as [c|?|]; cbn [bind] in H; try discriminate. inversion H; subst l'. split.
      * intro j. cbn [tlsum fst]. rewrite tlen_set, firstn_length. unfold tlen. cbn [snd]. rewrite Et.
        destruct (Nat.eqb id j); lia.
      * intros it [<-|Hi]; [left; reflexivity | right; apply in_map; exact Hi].
    + apply IH in H. destruct H as [H1 H2]. split.
      * intro j. cbn [tlsum]. specialize (H1 j). lia.
      * intros it Hi. right. apply H2. exact Hi.
Qed.

Lemma haw_FIN s m s1 n :
  FIN s -> handle_autolink_with o s m = Ok (Some (s1, n)) -> FIN s1 /\ delims s1 = delims s /\ pos s <= pos s1.
Proof.
  intros I H. unfold handle_autolink_with in H.
  destruct (negb (io_relaxed_autolinks o) && within s); [discriminate|].
  destruct (m (pos s)) as [[[[[url text] nr] skip]|]|?|]; cbn [bind] in H; try discriminate.
  destruct (usub _ _ _) as [adv|?|]; cbn [bind] in H; try discriminate.
  cbn [sibs nid set_pos] in H.
  destruct (rewind_loop _ _ _) as [l'|?|] eqn:Er; cbn [bind] in H; try discriminate.
  inversion H; subst s1 n. clear H. apply rewind_loop_tl in Er. destruct Er as [R1 R2].
  cbn [delims pos set_pos set_sibs]. split; [|split; [reflexivity|lia]].
  apply (FIN_weaken s _ (fun _ => true) I); cbn [delims sibs nid set_pos set_sibs].
  - rewrite filter_true. reflexivity.
  - lia.
  - intros j _. apply R1.
  - intros it Hi. apply R2 in Hi. apply in_map_iff in Hi. destruct Hi as [it0 [E Hi]]. rewrite <- E. apply I. exact Hi.
Qed.

(* ------------------------------------------------------------------ handle_delim *)
Lemma scan_delims_fst u p c :
  let nd := if beqb c x27 || beqb c x22 then 1 else count_eq inp c p in
  fst (fst (fst (scan_delims o u inp p c))) = p + nd /\ snd (fst (fst (scan_delims o u inp p c))) = nd.
Proof.
  unfold scan_delims. cbv zeta.
  destruct (beqb c x5f); [split; reflexivity|].
  destruct (beqb c x27 || beqb c x22); split; reflexivity.
Qed.

Lemma slice_length site a b t : slice inp site a b = Ok t -> List.length t <= b - a.
Proof.
  unfold slice. destruct (_ || _); [discriminate|]. intro H. inversion H; subst. rewrite firstn_length. lia.
Qed.

Lemma handle_delim_shape u s c s1 n d :
  nth_error inp (pos s) = Some c ->
  handle_delim o u inp s c = Ok (s1, n, d) ->
  fr3 s s1 /\ pos s < pos s1 /\ pos s1 <= List.length inp /\
  forall d', d = Some d' ->
    d_char d' = c /\ d_id d' = nid s1 /\ d_pos d' = pos s1 /\
    (quote c = false -> d_len d' <= pos s1 - pos s) /\
    exists t, text_of n = Some t /\ List.length t = d_len d'.
Proof.
  intros Ec H. unfold handle_delim in H.
  pose proof (scan_delims_fst u (pos s) c) as Hsd. cbv zeta in Hsd.
  destruct (scan_delims o u inp (pos s) c) as [[[p' nd] co] cc]. cbn [fst snd] in Hsd. destruct Hsd as [Hp' Hnd].
  assert (pos s < List.length inp) as Hlt by (apply nth_error_Some; congruence).
  assert (1 <= nd /\ p' <= List.length inp) as [Hnd1 Hp'l].
  { subst nd p'. destruct (beqb c x27 || beqb c x22); [lia|].
    pose proof (count_eq_pos inp c (pos s) c Ec) as A. unfold beqb in A. rewrite N.eqb_refl in A. specialize (A eq_refl).
    pose proof (count_eq_le inp c (pos s)). lia. }
  match type of H with bind ?r _ = _ => destruct r as [a|?|] eqn:Ea end; cbn [bind] in H; try discriminate.
  unfold usub in Ea. destruct (Nat.ltb p' nd); [discriminate|]. inversion Ea; subst a. clear Ea.
  match type of H with bind ?r _ = _ => destruct r as [contents|?|] eqn:Econt end; cbn [bind] in H; try discriminate.
  match type of H with bind ?r _ = _ => destruct r as [e|?|] end; cbn [bind] in H; try discriminate.
  match type of H with bind ?r _ = _ => destruct r as [n'|?|] eqn:Emk end; cbn [bind] in H; try discriminate.
  assert (text_of n' = Some contents) as Htx.
  { unfold mk in Emk. destruct (make_inline_cols _ _ _ _); cbn [bind] in Emk; try discriminate. inversion Emk. reflexivity. }
  assert (quote c = false -> List.length contents <= nd) as Hcl.
  { intro Hq. unfold quote in Hq. apply orb_false_iff in Hq. destruct Hq as [Q1 Q2]. rewrite Q1, Q2 in Econt. cbn [andb] in Econt.
    apply slice_length in Econt. lia. }
  match type of H with (if ?b then _ else _) = _ => destruct b end; inversion H; subst s1 n d; clear H;
    cbn [pos nid set_pos]; (split; [apply fr3_set_pos|]); (split; [lia|]); (split; [lia|]); intros d' Hd'; [|discriminate].
  inversion Hd'; subst d'. cbn [d_char d_id d_pos d_len]. repeat split; try reflexivity.
  - intro Hq. specialize (Hcl Hq). lia.
  - exists contents. split; [exact Htx|reflexivity].
Qed.

Lemma delim_test_ok c w :
  (beqb c x2a || beqb c x5f || beqb c x27 || beqb c x22
   || (beqb c x7e && (io_strikethrough o || io_subscript o))
   || (beqb c x5e && io_superscript o && negb w)
   || (beqb c x7c && io_spoiler o)) = true -> dchar_ok o c = true.
Proof.
  unfold dchar_ok, is_emph_char, quote. intro H.
  destruct (beqb c x2a); [reflexivity|]. destruct (beqb c x5f); [reflexivity|].
  destruct (beqb c x27); [rewrite !orb_true_r; reflexivity|]. destruct (beqb c x22); [rewrite !orb_true_r; reflexivity|].
  cbn [orb] in *.
  destruct (beqb c x7e); [cbn [andb] in H; destruct (io_strikethrough o || io_subscript o); [reflexivity|]|]; cbn [andb orb] in *.
  - destruct (beqb c x5e); [destruct (io_superscript o); [reflexivity|]|]; cbn [andb orb] in *;
      (destruct (beqb c x7c); [destruct (io_spoiler o); [rewrite ?orb_true_r; reflexivity|]|]); cbn [andb orb] in *; discriminate H.
  - destruct (beqb c x5e); [destruct (io_superscript o); [rewrite ?orb_true_r; reflexivity|]|]; cbn [andb orb] in *;
      (destruct (beqb c x7c); [destruct (io_spoiler o); [rewrite ?orb_true_r; reflexivity|]|]); cbn [andb orb] in *; discriminate H.
Qed.

End FI.
