(* Proofs/BlocksTotal7CodeOpen.v — the code block sites, part 6: open_new_blocks along the Ok path, with the
   exception.  From CX None (and TI, SV) the handlers, one step, the loop and open_new_blocks answer a state with
   CX None, or — when the container they answer is a code block created on this line — CX (Some container) and
   "the node under that identifier is a CodeBlock" (then the step stops: a code block accepts lines, and the loop
   stops: is_code_or_html).  Description lists included (reopen_cx_tree). *)
From Coq Require Import List NArith Arith Bool Lia Strings.String.
From V Require Import Base.Bytes Base.Res Gen.Nodes Gen.BlocksConst Model.Ast Model.Strings Model.Scan Model.Blocks
  Proofs.BlocksProofs Proofs.BlocksPos Proofs.ParserShapeBlocks Proofs.ParserShapeTree Proofs.ParserShapeTabPrim Proofs.ParserShapeTables
  Proofs.BlocksCursor Proofs.BlocksTotal4Safe Proofs.BlocksTotal7Add Proofs.BlocksTotal7CodeFin Proofs.BlocksTotal7CodeInv Proofs.BlocksTotal7CodeTree
  Proofs.BlocksTotal7CodeFrame Proofs.BlocksTotal7CodeFence.
Import ListNotations.
Local Open Scope string_scope.
Local Open Scope list_scope.


Lemma all_info_bsub (P : binfo -> Prop) : forall t, (forall n, In n (bsub t) -> P (binf n)) -> all_info P t.
Proof.
  induction t as [i ch IH] using bnode_ind2. intro H. apply all_info_node. split; [exact (H _ (bsub_self _))|].
  rewrite Forall_forall in IH. apply Forall_forall. intros x Hx. apply IH; [exact Hx|]. intros n Hn. apply H. eapply bsub_kid; eassumption.
Qed.

Lemma add_child_code_ke o st parent cb col id st' :
  add_child o st parent (CodeBlock cb) col = Ok (id, st') -> TI o [] st' -> KE id (cb_fenced cb) st'.
Proof.
  intros A T. unfold add_child in A.
  destruct (add_child_gen_new _ _ _ _ _ _ _ _ _ _ A T (fun _ => eq_refl) (fun _ => eq_refl)) as (new & l & G & B).
  constructor. apply all_info_bsub. intros n Hn Hid.
  pose proof (find_node_unique _ _ (TI_distinct _ _ _ T) Hn) as F. unfold bid in F. rewrite Hid in F.
  apply get_find in G. rewrite F in G. inversion G; subst n. rewrite B. reflexivity.
Qed.

Lemma ke_kind e Fl st n : KE e Fl st -> get st e = Ok n -> bkind n = KCodeBlock.
Proof.
  intros K G. pose proof (get_ke _ _ _ _ _ K G) as Kn. specialize (Kn (get_bid _ _ _ G)).
  unfold bkind, bval. destruct (bi_val (binf n)); try discriminate Kn. reflexivity.
Qed.

Lemma KE_root e Fl s s' : ps_root s' = ps_root s -> KE e Fl s -> KE e Fl s'.
Proof. intros R [A]. constructor. now rewrite R. Qed.

Section Open.
Variables (o : bopts) (line : bytes) (k cu : nat).
Hypothesis LN : lf_terminated line.

Definition CUR (s : pstate) : Prop := c_offset (ps_cur s) < List.length line /\ c_pct (ps_cur s) = false.
Definition EXC (s : pstate) (c : nat) : Prop :=
  CX (Some c) s /\ k <= c /\ exists Fl, KE c Fl s /\ (Fl = true -> CUR s).
Definition HPx (x : bool * nat * pstate) : Prop :=
  let '(b, c, s) := x in
  TI o [] s /\ SV s /\ FR k cu s /\ (CX None s \/ (b = true /\ EXC s c)).

Lemma or_else_hx (r : hres) kk b c s :
  or_else_h r kk = Ok (b, c, s) ->
  (forall b1 c1 s1, r = Ok (b1, c1, s1) -> HPx (b1, c1, s1)) ->
  (forall c1 s1 b2 c2 s2, kk c1 s1 = Ok (b2, c2, s2) -> TI o [] s1 -> SV s1 -> FR k cu s1 -> CX None s1 -> HPx (b2, c2, s2)) ->
  HPx (b, c, s).
Proof.
  unfold or_else_h. intros H Hr Hk.
  destruct r as [[[b1 c1] s1]| |]; cbn [bind] in H; try discriminate H.
  destruct b1.
  - inversion H; subst. now apply Hr.
  - destruct (Hr _ _ _ eq_refl) as (T & V & Fr & [P|(F & _)]); [|discriminate F]. eapply Hk; eassumption.
Qed.

Lemma handle_code_fence_hx st c ind b c' s :
  handle_code_fence o st c line ind = Ok (b, c', s) -> TI o [] st -> SV st -> FR k cu st -> CX None st -> HPx (b, c', s).
Proof.
  intros H0 T V Fr P. split; [eapply handle_code_fence_TI; eassumption|]. split; [eapply handle_code_fence_valid; eassumption|].
  split; [eapply handle_code_fence_fr; eassumption|].
  pose proof H0 as H. unfold handle_code_fence, rest_at_fns, not_handled in H.
  destruct ind; [inversion H; subst; now left|].
  mstep H. destruct (scan_open_code_fence a) as [m|]; [|inversion H; subst; now left]. cbv zeta in H.
  mstep H. mstep H.
  match type of H with bind ?r _ = _ => destruct r as [[id s1]| |] eqn:A; cbn [bind fst snd] in H; try discriminate H end.
  mstep H. mstep H. inversion H; subst. right. split; [reflexivity|].
  assert (T1 : TI o [] s1) by eauto with ti.
  match goal with E3 : adv s1 _ _ _ = Ok _ |- _ =>
    assert (R : ps_root s = ps_root s1) by (unfold adv in E3; mon E3; reflexivity);
    split; [eapply adv_cx; [exact E3|]; eapply add_child_code_cx; eassumption|]
  end.
  split; [eapply add_child_gen_id_ge; [unfold add_child in A; exact A | exact Fr]|].
  eexists. split; [eapply KE_root; [exact R|]; eapply add_child_code_ke; eassumption|].
  intros _. exact (handle_code_fence_cursor _ _ _ _ _ _ _ LN H0).
Qed.

Lemma handle_code_block_hx st c ind ml b c' s :
  handle_code_block o st c line ind ml = Ok (b, c', s) -> TI o [] st -> SV st -> FR k cu st -> CX None st -> HPx (b, c', s).
Proof.
  intros H0 T V Fr P. split; [eapply handle_code_block_TI; eassumption|]. split; [eapply handle_code_block_valid; eassumption|].
  split; [eapply handle_code_block_fr; eassumption|].
  pose proof H0 as H. unfold handle_code_block, not_handled in H.
  destruct (negb _); [inversion H; subst; now left|].
  destruct (adv st line code_indent true) as [s0| |] eqn:E0; cbn [bind] in H; try discriminate H.
  match type of H with bind ?r _ = _ => destruct r as [[id s1]| |] eqn:A; cbn [bind fst snd] in H; try discriminate H end.
  inversion H; subst. right. split; [reflexivity|].
  assert (T0 : TI o [] s0) by eauto with ti.
  assert (T1 : TI o [] s) by eauto with ti.
  split; [eapply add_child_code_cx; [eassumption|]; eapply adv_cx; eassumption|].
  split; [eapply add_child_gen_id_ge; [unfold add_child in A; exact A | eapply adv_fr; eassumption]|].
  eexists. split; [eapply add_child_code_ke; eassumption|]. cbn. discriminate.
Qed.

Ltac hplain TIlem SVlem FRlem CXlem :=
  intros ? ? ? ?; split; [eapply TIlem; eassumption | split; [eapply SVlem; eassumption | split; [eapply FRlem; eassumption | left; eapply CXlem; eassumption]]].
Lemma handlers_chain_hx st ind am ml d c hd c1 s1 :
  or_else_h (handle_alert o st c line ind) (fun container st =>
          or_else_h (handle_multiline_blockquote o st container line ind) (fun container st =>
          or_else_h (handle_blockquote o st container line ind) (fun container st =>
          or_else_h (handle_atx_heading o st container line ind) (fun container st =>
          or_else_h (handle_code_fence o st container line ind) (fun container st =>
          or_else_h (handle_html_block o st container line ind) (fun container st =>
          or_else_h (handle_setext_heading o st container line ind) (fun container st =>
          or_else_h (handle_thematic_break o st container line ind am) (fun container st =>
          or_else_h (handle_footnote o st container line ind d) (fun container st =>
          or_else_h (handle_description_list o st container line ind) (fun container st =>
          or_else_h (handle_list o st container line ind d) (fun container st =>
          handle_code_block o st container line ind ml))))))))))) = Ok (hd, c1, s1) ->
  TI o [] st -> SV st -> FR k cu st -> CX None st -> HPx (hd, c1, s1).
Proof.
  intros R T V Fr P.
  eapply or_else_hx; [exact R | hplain handle_alert_TI handle_alert_valid handle_alert_fr handle_alert_cx |]. clear R st T V Fr P. intros kk2 st ? ? ? R T V Fr P. cbv beta in R.
  eapply or_else_hx; [exact R | hplain handle_mbq_TI handle_mbq_valid handle_mbq_fr handle_mbq_cx |]. clear R st T V Fr P. intros kk3 st ? ? ? R T V Fr P. cbv beta in R.
  eapply or_else_hx; [exact R | hplain handle_blockquote_TI handle_blockquote_valid handle_blockquote_fr handle_blockquote_cx |]. clear R st T V Fr P. intros kk4 st ? ? ? R T V Fr P. cbv beta in R.
  eapply or_else_hx; [exact R | hplain handle_atx_TI handle_atx_valid handle_atx_fr handle_atx_cx |]. clear R st T V Fr P. intros kk5 st ? ? ? R T V Fr P. cbv beta in R.
  eapply or_else_hx; [exact R | intros ? ? ? E; eapply handle_code_fence_hx; eassumption |]. clear R st T V Fr P. intros kk6 st ? ? ? R T V Fr P. cbv beta in R.
  eapply or_else_hx; [exact R | hplain handle_html_block_TI handle_html_block_valid handle_html_block_fr handle_html_block_cx |]. clear R st T V Fr P. intros kk7 st ? ? ? R T V Fr P. cbv beta in R.
  eapply or_else_hx; [exact R | hplain handle_setext_TI handle_setext_valid handle_setext_fr handle_setext_cx |]. clear R st T V Fr P. intros kk8 st ? ? ? R T V Fr P. cbv beta in R.
  eapply or_else_hx; [exact R | hplain handle_thematic_break_TI handle_thematic_break_valid handle_thematic_break_fr handle_thematic_break_cx |]. clear R st T V Fr P. intros kk9 st ? ? ? R T V Fr P. cbv beta in R.
  eapply or_else_hx; [exact R | hplain handle_footnote_TI handle_footnote_valid handle_footnote_fr handle_footnote_cx |]. clear R st T V Fr P. intros kk10 st ? ? ? R T V Fr P. cbv beta in R.
  eapply or_else_hx; [exact R | intros ? ? ? E; split; [eapply handle_description_list_TI; eassumption | split; [eapply handle_description_list_valid; eassumption | split; [eapply handle_description_list_fr; eassumption | left; eapply handle_description_list_cx; eassumption]]] |]. clear R st T V Fr P. intros kk11 st ? ? ? R T V Fr P. cbv beta in R.
  eapply or_else_hx; [exact R | hplain handle_list_TI handle_list_valid handle_list_fr handle_list_cx |]. clear R st T V Fr P. intros kk12 st ? ? ? R T V Fr P. cbv beta in R.
  eapply handle_code_block_hx; eassumption.
Qed.

Definition SPx (x : bool * nat * pstate) : Prop :=
  let '(g, c, s) := x in TI o [] s /\ SV s /\ FR k cu s /\ (CX None s \/ (g = false /\ EXC s c)).
Definition LPx (x : nat * pstate) : Prop :=
  let '(c, s) := x in TI o [] s /\ SV s /\ FR k cu s /\ (CX None s \/ EXC s c).

Lemma open_new_blocks_step_x st c am ml d g c' st' :
  open_new_blocks_step o st c line am ml d = Ok (g, c', st') -> TI o [] st -> SV st -> FR k cu st -> CX None st -> SPx (g, c', st').
Proof.
  intros H0 T V Fr P.
  split; [eapply open_new_blocks_step_TI; eassumption|]. split; [eapply open_new_blocks_step_valid; eassumption|].
  pose proof H0 as H. unfold open_new_blocks_step in H.
  destruct (ffn st line) as [s0| |] eqn:F0; cbn [bind] in H; try discriminate H.
  assert (T0 : TI o [] s0) by eauto with ti. assert (V0 : SV s0) by eauto with sv. assert (P0 : CX None s0) by eauto with cx.
  assert (Fr0 : FR k cu s0) by eauto with fr.
  match type of H with bind ?r _ = _ => destruct r as [[[hd c1] s1]| |] eqn:R; cbn [bind] in H; try discriminate H end.
  pose proof (handlers_chain_hx _ _ _ _ _ _ _ _ _ R T0 V0 Fr0 P0) as (T1 & V1 & Fr1 & D1). clear R.
  assert (FRs : FR k cu st') by (pose proof H as H'; clear H; frgo H').
  split; [exact FRs|].
  destruct hd.
  - cbn [bind negb] in H. mstep H.
    destruct D1 as [P1|(_ & P1 & Kc & Fl & K1 & C1)].
    + left. destruct (accepts_lines (bkind a)); inversion H; subst; exact P1.
    + rewrite (ke_kind _ _ _ _ K1 E) in H. cbn in H. inversion H; subst. right. split; [reflexivity|].
      split; [exact P1|]. split; [exact Kc|]. exists Fl. now split.
  - destruct D1 as [P1|(F & _)]; [|discriminate F]. left.
    destruct (negb (Nat.leb code_indent (indent s0)) && bo_table o) eqn:Tb.
    + destruct (try_opening_block o s1 c1 line) as [[tr s2]| |] eqn:TO; cbn [bind] in H; try discriminate H.
      assert (P2 : CX None s2) by (eapply try_opening_block_cx; eassumption).
      destruct tr; cxgo H.
    + cxgo H.
Qed.

Lemma open_new_blocks_loop_x am : forall fuel st c ml d c' st',
  open_new_blocks_loop fuel o st c line am ml d = Ok (c', st') -> TI o [] st -> SV st -> FR k cu st -> CX None st -> LPx (c', st').
Proof.
  induction fuel as [|f IH]; intros st c ml d c' st' H T V Fr P; cbn [open_new_blocks_loop] in H; [discriminate H|].
  mstep H. destruct (is_code_or_html a); [inversion H; subst; split; [exact T | split; [exact V | split; [exact Fr | now left]]]|].
  match type of H with bind ?r _ = _ => destruct r as [[[go c1] s1]| |] eqn:S; cbn [bind] in H; try discriminate H end.
  pose proof (open_new_blocks_step_x _ _ _ _ _ _ _ _ S T V Fr P) as (T1 & V1 & Fr1 & D1).
  destruct go.
  - destruct D1 as [P1|(F & _)]; [|discriminate F]. eapply IH; eassumption.
  - inversion H; subst. split; [exact T1|]. split; [exact V1|]. split; [exact Fr1|]. destruct D1 as [P1|(_ & X)]; [now left | now right].
Qed.

Lemma open_new_blocks_x st c am c' st' :
  open_new_blocks o st c line am = Ok (c', st') -> TI o [] st -> SV st -> FR k cu st -> CX None st -> LPx (c', st').
Proof. unfold open_new_blocks. intros H T V Fr P. mstep H. eapply open_new_blocks_loop_x; eassumption. Qed.

(* both identifiers open_new_blocks starts from are in the tree *)
Lemma open_new_blocks_has st c am r :
  open_new_blocks o st c line am = Ok r -> (exists n, get st (ps_current st) = Ok n) /\ (exists n, get st c = Ok n).
Proof.
  unfold open_new_blocks. intro H. mstep H. split; [eexists; reflexivity|].
  rewrite (Nat.add_comm _ 8) in H. cbn [Nat.add open_new_blocks_loop] in H. mstep H. eexists; reflexivity.
Qed.
End Open.
