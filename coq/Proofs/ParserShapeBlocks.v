(* Proofs/ParserShapeBlocks.v — the tree-shape clauses s2, s4, s7 OF THE BLOCK-PHASE MODEL (Model/Blocks.v):
   an invariant carried through every step of parse_blocks, in the style of BlocksProofs.parse_blocks_tvalid.

     NI st  :=  the root of the state is the Document node  /\  every node of the tree carries a value the block
                phase may create (bvok o): one of the twenty block values, a Heading only with level 1..6, a
                FootnoteDefinition only with the footnotes extension, Table / TableRow / TableCell only with the
                table extension; in particular never Raw, EscapedTag or any inline value.

   The proofs look at a function body only through the tactic `nigo` (walk through the monadic code that
   returned Ok); the lemmas that need more are the primitives (upd / edit_kids), finalize, add_child_gen, the
   two heading handlers, the table openers, the description list helper and add_line. *)
From Coq Require Import List NArith Arith Bool Lia Strings.String.
From V Require Import Base.Bytes Base.Res Gen.Nodes Model.Ast Model.Strings Model.Feed Model.FrontMatter Model.RefDef
  Model.Scan Model.Blocks Spec.Shape Spec.HtmlSpec Spec.Valid Proofs.BlocksProofs Proofs.BlocksCursor.
Import ListNotations.
Local Open Scope string_scope.
Local Open Scope list_scope.

(* ================================================================== the node-wise clause *)
Definition bvok (o : bopts) (v : node_value) : bool :=
  match v with
  | Document | FrontMatter _ | BlockQuote | NList _ | Item _ | DescriptionList | DescriptionItem _ _ _
  | DescriptionTerm | DescriptionDetails | CodeBlock _ | HtmlBlock _ _ | Paragraph | ThematicBreak
  | MultilineBlockQuote _ _ | Alert _ => true
  | Heading l _ => (1 <=? l)%N && (l <=? 6)%N
  | FootnoteDefinition _ _ => bo_footnotes o
  | Table _ | TableRow _ | TableCell => bo_table o
  | _ => false
  end.

Fixpoint ball (o : bopts) (t : bnode) : bool :=
  match t with BNode i ch => bvok o (bi_val i) && forallb (ball o) ch end.

Lemma ball_node o i ch : ball o (BNode i ch) = true <-> bvok o (bi_val i) = true /\ forallb (ball o) ch = true.
Proof. cbn [ball]. apply andb_true_iff. Qed.

Lemma forallb_cons {A} (f : A -> bool) x l : forallb f (x :: l) = true <-> f x = true /\ forallb f l = true.
Proof. cbn [forallb]. apply andb_true_iff. Qed.

Lemma forallb_app_iff {A} (f : A -> bool) a b : forallb f (a ++ b) = true <-> forallb f a = true /\ forallb f b = true.
Proof. rewrite forallb_app. apply andb_true_iff. Qed.

Lemma forallb_map_c {A B} (f : B -> bool) (g : A -> B) l : forallb f (map g l) = forallb (fun x => f (g x)) l.
Proof. induction l as [|x r IH]; [reflexivity|]. cbn [map forallb]. now rewrite IH. Qed.

Lemma to_node_val t : nval (to_node t) = bval t.
Proof. destruct t; reflexivity. Qed.

Lemma find_node_ball o id t : forall n, ball o t = true -> find_node id t = Some n -> ball o n = true.
Proof.
  induction t as [i ch IH] using bnode_ind2. intros n V F. cbn [find_node] in F.
  destruct (Nat.eqb (bi_id i) id). { now inversion F; subst. }
  apply ball_node in V. destruct V as [_ V].
  induction ch as [|c r IHr]; [discriminate|].
  inversion IH; subst. apply forallb_cons in V. destruct V as [Vc Vr].
  destruct (find_node id c) eqn:E.
  - inversion F; subst. eauto.
  - eauto.
Qed.

(* upd: the function is applied to the node find_node returns *)
Lemma upd_ball o id f t : forall t',
  ball o t = true -> upd id f t = Some t' ->
  (forall n, find_node id t = Some n -> ball o n = true -> ball o (f n) = true) ->
  ball o t' = true.
Proof.
  induction t as [i ch IH] using bnode_ind2. intros t' V U Hf. cbn [upd] in U. cbn [find_node] in Hf.
  destruct (Nat.eqb (bi_id i) id). { inversion U; subst. apply Hf; auto. }
  match type of U with match ?g with _ => _ end = _ => destruct g as [ch'|] eqn:G; [|discriminate] end.
  inversion U; subst. clear U.
  apply ball_node in V. destruct V as [Vi V]. apply ball_node. split; [exact Vi|].
  revert ch' G Hf. induction ch as [|c r IHr]; intros ch' G Hf; [discriminate|].
  inversion IH as [|? ? IHc IHrest]; subst.
  apply forallb_cons in V. destruct V as [Vc Vr].
  destruct (upd id f c) as [c'|] eqn:Uc.
  - inversion G; subst. apply forallb_cons. split; [|exact Vr].
    apply (IHc c' Vc eq_refl). intros n Fn. apply Hf. now rewrite Fn.
  - match type of G with match ?g with _ => _ end = _ => destruct g as [r'|] eqn:Gr; [|discriminate] end.
    inversion G; subst.
    assert (Fc : find_node id c = None) by (eapply upd_none_find; eassumption).
    apply forallb_cons. split; [exact Vc|].
    apply IHr; auto. intros n Fn. apply Hf. now rewrite Fc.
Qed.

(* upd never replaces the root by something else than f root *)
Lemma upd_root_val id f t t' :
  upd id f t = Some t' ->
  (forall n, find_node id t = Some n -> bval n = Document -> bval (f n) = Document) ->
  bval t = Document -> bval t' = Document.
Proof.
  destruct t as [i ch]. cbn [upd find_node]. intros U Hf D.
  destruct (Nat.eqb (bi_id i) id). { inversion U; subst. now apply Hf. }
  match type of U with match ?g with _ => _ end = _ => destruct g as [ch'|]; [|discriminate] end.
  inversion U; subst. exact D.
Qed.

Lemma edit_kids_ball o id g t : forall t',
  ball o t = true -> edit_kids id g t = Some t' ->
  (forall pk pre c post, forallb (ball o) (pre ++ c :: post) = true -> forallb (ball o) (g pk pre c post) = true) ->
  ball o t' = true /\ bval t' = bval t.
Proof.
  induction t as [i ch IH] using bnode_ind2. intros t' V U Hg. cbn [edit_kids] in U.
  apply ball_node in V. destruct V as [Vi V].
  destruct (split_kid id ch) as [[[pre c] post]|] eqn:S.
  { inversion U; subst. split; [|reflexivity]. apply ball_node. split; [exact Vi|]. apply Hg.
    now rewrite <- (split_kid_eq _ _ _ _ _ S). }
  clear S.
  match type of U with match ?gg with _ => _ end = _ => destruct gg as [ch'|] eqn:G; [|discriminate] end.
  inversion U; subst. clear U. split; [|reflexivity]. apply ball_node. split; [exact Vi|].
  revert ch' G. induction ch as [|c r IHr]; intros ch' G; [discriminate|].
  inversion IH as [|? ? IHc IHrest]; subst.
  apply forallb_cons in V. destruct V as [Vc Vr].
  destruct (edit_kids id g c) as [c'|] eqn:Uc.
  - inversion G; subst. destruct (IHc c' Vc eq_refl Hg) as [Vc' _].
    apply forallb_cons. split; assumption.
  - match type of G with match ?gg with _ => _ end = _ => destruct gg as [r'|] eqn:Gr; [|discriminate] end.
    inversion G; subst. apply forallb_cons. split; [exact Vc|]. now apply IHr.
Qed.

(* ================================================================== the invariant on states *)
Definition NI (o : bopts) (st : pstate) : Prop := bval (ps_root st) = Document /\ ball o (ps_root st) = true.

Lemma NI_st_next o st n : NI o st -> NI o (st_next st n). Proof. exact (fun H => H). Qed.
Lemma NI_st_current o st n : NI o st -> NI o (st_current st n). Proof. exact (fun H => H). Qed.
Lemma NI_st_refmap o st m : NI o st -> NI o (st_refmap st m). Proof. exact (fun H => H). Qed.
Lemma NI_st_line_number o st n : NI o st -> NI o (st_line_number st n). Proof. exact (fun H => H). Qed.
Lemma NI_st_cur o st c : NI o st -> NI o (st_cur st c). Proof. exact (fun H => H). Qed.
Lemma NI_st_curline o st a b : NI o st -> NI o (st_curline st a b). Proof. exact (fun H => H). Qed.
Lemma NI_st_last_line_length o st n : NI o st -> NI o (st_last_line_length st n). Proof. exact (fun H => H). Qed.

Lemma get_ball o st id n : NI o st -> get st id = Ok n -> ball o n = true.
Proof. intros [_ V] G. apply get_find in G. exact (find_node_ball _ _ _ _ V G). Qed.

Lemma modify_NI o st id f st' :
  NI o st -> modify st id f = Ok st' ->
  (forall n, find_node id (ps_root st) = Some n -> ball o n = true ->
             ball o (f n) = true /\ (bval n = Document -> bval (f n) = Document)) ->
  NI o st'.
Proof.
  unfold modify, NI. intros [D V] M Hf. destruct (upd id f (ps_root st)) as [r|] eqn:U; [|discriminate].
  inversion M; subst. cbn [ps_root st_root]. split.
  - eapply upd_root_val; [exact U| |exact D]. intros n Fn. apply Hf; [exact Fn|]. eapply find_node_ball; eassumption.
  - eapply upd_ball; [exact V | exact U |]. intros n Fn Vn. now apply Hf.
Qed.

(* modify_info with a function under which the value stays allowed and a Document stays a Document *)
Lemma modify_info_NI o st id f st' :
  NI o st -> modify_info st id f = Ok st' ->
  (forall n, find_node id (ps_root st) = Some n ->
             bvok o (bi_val (f (binf n))) = true /\ (bi_val (binf n) = Document -> bi_val (f (binf n)) = Document)) ->
  NI o st'.
Proof.
  intros V M Hf. eapply modify_NI; [exact V | exact M |].
  intros n Fn Vn. specialize (Hf n Fn). destruct n as [i ch]. cbn [on_info binf] in *. destruct Hf as [A B].
  split; [|exact B]. apply ball_node. apply ball_node in Vn. tauto.
Qed.

Lemma modify_info_set_NI o st id f st' :
  modify_info st id f = Ok st' -> (forall i, bi_val (f i) = bi_val i) -> NI o st -> NI o st'.
Proof.
  intros M Hf V. eapply modify_info_NI; [exact V | exact M |]. intros n Fn. rewrite Hf.
  split; [|exact (fun H => H)].
  destruct V as [_ V]. pose proof (find_node_ball _ _ _ _ V Fn) as Vn. destruct n as [i ch]. apply ball_node in Vn. tauto.
Qed.

Lemma bdetach_NI o st id st' : bdetach st id = Ok st' -> NI o st -> NI o st'.
Proof.
  unfold bdetach, NI. intros D [R V].
  destruct (edit_kids id (fun _ pre _ post => pre ++ post) (ps_root st)) as [r|] eqn:E.
  - inversion D; subst. cbn [ps_root st_root].
    destruct (edit_kids_ball o _ _ _ _ V E) as [A B].
    { intros pk pre c post K. apply forallb_app_iff in K. destruct K as [K1 K2]. apply forallb_cons in K2.
      apply forallb_app_iff. tauto. }
    split; [now rewrite B | exact A].
  - now inversion D; subst.
Qed.

Lemma append_child_NI o st pid c st' :
  append_child st pid c = Ok st' -> ball o c = true -> NI o st -> NI o st'.
Proof.
  intros A Vc V. eapply modify_NI; [exact V | exact A |].
  intros n Fn Vn. destruct n as [i ch]. split; [|exact (fun H => H)].
  apply ball_node. apply ball_node in Vn. destruct Vn as [Vi Vk]. split; [exact Vi|].
  apply forallb_app_iff. split; [exact Vk|]. apply forallb_cons. split; [exact Vc | reflexivity].
Qed.

Lemma edit_root_NI o st id g r :
  edit_kids id g (ps_root st) = Some r -> NI o st ->
  (forall pk pre c post, forallb (ball o) (pre ++ c :: post) = true -> forallb (ball o) (g pk pre c post) = true) ->
  NI o (st_root st r).
Proof.
  intros E [D V] Hg. unfold NI. cbn [ps_root st_root]. destruct (edit_kids_ball o _ _ _ _ V E Hg) as [A B].
  split; [now rewrite B | exact A].
Qed.

(* retighten (finalize of a reference-only paragraph): only the tight flag of a List changes *)
Lemma retighten_NI o st p st' : retighten st p = Ok st' -> NI o st -> NI o st'.
Proof.
  unfold retighten. intros H V. destruct p as [item|]; [|inversion H; subst; exact V].
  destruct (parent_of item (ps_root st)) as [lid|]; [|inversion H; subst; exact V].
  destruct (get st lid) as [l| |] eqn:G; cbn [bind] in H; try discriminate H.
  destruct (bi_open (binf l)); [inversion H; subst; exact V|].
  destruct (bval l) eqn:Bv; try (inversion H; subst; exact V).
  eapply modify_info_NI; [exact V | exact H |].
  intros n Fn. rewrite (get_find _ _ _ G) in Fn. inversion Fn; subst. unfold bval in Bv. cbn. rewrite Bv.
  split; [reflexivity | intro HD; discriminate HD].
Qed.

(* ---- finalize: the value changes only CodeBlock -> CodeBlock, HtmlBlock -> HtmlBlock, NList -> NList *)
Lemma finalize_NI o st id p st' : finalize o st id = Ok (p, st') -> NI o st -> NI o st'.
Proof.
  intros F V. unfold finalize in F.
  mstep F. pose proof (get_ball _ _ _ _ V E) as Va. apply get_find in E.
  mstep F; [discriminate F|].
  mstep F. clear E1.
  assert (Vv : bvok o (bi_val (binf a)) = true) by (destruct a as [i ch]; apply ball_node in Va; tauto).
  destruct (bi_val (binf a)) eqn:Ev; mon F;
  repeat first [ apply NI_st_refmap
               | (eapply retighten_NI; [eassumption|])
               | (eapply bdetach_NI; [eassumption|])
               | (eapply modify_info_NI; [exact V | eassumption |
                    intros n Fn; rewrite E in Fn; inversion Fn; subst; cbn; rewrite ?Ev;
                    (split; [first [exact Vv | reflexivity] | first [intro HD; discriminate HD | intro HD; exact HD | reflexivity]])]) ].
Qed.

Lemma unwrap_parent_fin_NI site o st id p st' :
  unwrap_parent site (finalize o st id) = Ok (p, st') -> NI o st -> NI o st'.
Proof.
  unfold unwrap_parent. intros H V.
  destruct (finalize o st id) as [[op s1]| |] eqn:E; cbn [bind fst snd] in H; try discriminate H.
  destruct op; inversion H; subst. eapply finalize_NI; eassumption.
Qed.

Lemma add_child_loop_NI o k : forall fuel st parent p' st',
  add_child_loop fuel o st parent k = Ok (p', st') -> NI o st -> NI o st'.
Proof.
  induction fuel as [|f IH]; intros st parent p' st' H V; [discriminate|].
  cbn [add_child_loop] in H.
  destruct (get st parent) as [pn| |] eqn:G; cbn [bind] in H; try discriminate H.
  destruct (can_contain (bkind pn) k) eqn:C.
  - inversion H; subst. exact V.
  - match type of H with bind ?r _ = _ => destruct r as [[q s1]| |] eqn:U; cbn [bind fst snd] in H; try discriminate H end.
    eapply IH; [exact H|]. eapply unwrap_parent_fin_NI; eassumption.
Qed.

Lemma add_child_gen_NI o st parent v col post kids id st' :
  add_child_gen o st parent v col post kids = Ok (id, st') -> NI o st ->
  (forall id l c, bvok o (bi_val (post (new_info id v l c))) = true) ->
  forallb (ball o) kids = true -> NI o st'.
Proof.
  unfold add_child_gen. intros H V Hp Hk.
  match type of H with bind ?r _ = _ => destruct r as [[p' s1]| |] eqn:E; cbn [bind] in H; try discriminate H end.
  pose proof (add_child_loop_NI _ _ _ _ _ _ _ E V) as V1.
  mon H. eapply append_child_NI; [eassumption | | apply NI_st_next; exact V1].
  apply ball_node. split; [apply Hp | exact Hk].
Qed.

Lemma add_child_NI o st parent v col id st' :
  add_child o st parent v col = Ok (id, st') -> bvok o v = true -> NI o st -> NI o st'.
Proof.
  unfold add_child. intros H Hv V. eapply add_child_gen_NI; [exact H | exact V | intros; exact Hv | reflexivity].
Qed.

Lemma adv_NI o st line n b st' : adv st line n b = Ok st' -> NI o st -> NI o st'.
Proof. unfold adv. intros H V. mon H. exact V. Qed.
Lemma ffn_NI o st line st' : ffn st line = Ok st' -> NI o st -> NI o st'.
Proof. unfold ffn. intros H V. mon H. exact V. Qed.

Create HintDb ni.
#[export] Hint Resolve adv_NI ffn_NI unwrap_parent_fin_NI finalize_NI bdetach_NI
  NI_st_next NI_st_current NI_st_refmap NI_st_line_number NI_st_cur NI_st_curline NI_st_last_line_length
  modify_info_set_NI : ni.
#[export] Hint Extern 1 (forall i : binfo, bi_val _ = bi_val i) => (intro; reflexivity) : ni.
#[export] Hint Extern 1 (bvok _ _ = true) => reflexivity : ni.
#[export] Hint Resolve add_child_NI : ni.

Ltac nigo H := mon H; monall; repeat match goal with p : (_ * _)%type |- _ => destruct p end; cbn [fst snd] in *; eauto 20 with ni.

Lemma skip_one_space_NI o st line site st' : skip_one_space st line site = Ok st' -> NI o st -> NI o st'.
Proof. unfold skip_one_space. intros H V. nigo H. Qed.
#[export] Hint Resolve skip_one_space_NI : ni.

Lemma parse_block_quote_prefix_NI o st line b st' : parse_block_quote_prefix o st line = Ok (b, st') -> NI o st -> NI o st'.
Proof. unfold parse_block_quote_prefix. intros H V. nigo H. Qed.
#[export] Hint Resolve parse_block_quote_prefix_NI : ni.

Lemma parse_footnote_prefix_NI o st line b st' : parse_footnote_definition_block_prefix st line = Ok (b, st') -> NI o st -> NI o st'.
Proof. unfold parse_footnote_definition_block_prefix. intros H V. nigo H. Qed.
#[export] Hint Resolve parse_footnote_prefix_NI : ni.

Lemma parse_item_prefix_NI o st line c mo pad b st' : parse_item_prefix st line c mo pad = Ok (b, st') -> NI o st -> NI o st'.
Proof. unfold parse_item_prefix. intros H V. nigo H. Qed.
#[export] Hint Resolve parse_item_prefix_NI : ni.

Lemma skip_fence_offset_NI o line site : forall i st st', skip_fence_offset i st line site = Ok st' -> NI o st -> NI o st'.
Proof. induction i as [|j IH]; intros st st' H V; cbn [skip_fence_offset] in H; nigo H. Qed.
#[export] Hint Resolve skip_fence_offset_NI : ni.

Lemma parse_code_block_prefix_NI o st line c cb a b st' :
  parse_code_block_prefix o st line c cb = Ok (a, b, st') -> NI o st -> NI o st'.
Proof. unfold parse_code_block_prefix. intros H V. nigo H. Qed.
#[export] Hint Resolve parse_code_block_prefix_NI : ni.

Lemma parse_mbq_prefix_NI o st line c fl fo a b st' :
  parse_multiline_block_quote_prefix o st line c fl fo = Ok (a, b, st') -> NI o st -> NI o st'.
Proof. unfold parse_multiline_block_quote_prefix. intros H V. nigo H. Qed.
#[export] Hint Resolve parse_mbq_prefix_NI : ni.

Lemma check_container_NI o st line c a b st' : check_container o st line c = Ok (a, b, st') -> NI o st -> NI o st'.
Proof. unfold check_container. intros H V. destruct (bval c); nigo H. Qed.
#[export] Hint Resolve check_container_NI : ni.

Lemma check_open_blocks_inner_NI o line : forall fuel st container a c b st',
  check_open_blocks_inner fuel o st line container = Ok (a, c, b, st') -> NI o st -> NI o st'.
Proof. induction fuel as [|f IH]; intros st container a c b st' H V; cbn [check_open_blocks_inner] in H; nigo H. Qed.
#[export] Hint Resolve check_open_blocks_inner_NI : ni.

Lemma check_open_blocks_NI o st line r st' : check_open_blocks o st line = Ok (r, st') -> NI o st -> NI o st'.
Proof. unfold check_open_blocks. intros H V. nigo H. Qed.
#[export] Hint Resolve check_open_blocks_NI : ni.

(* ---- tables (only reached with the table extension) *)
Lemma try_inserting_NI o st c po st' : try_inserting_table_header_paragraph st c po = Ok st' -> NI o st -> NI o st'.
Proof.
  unfold try_inserting_table_header_paragraph. intros H V. mon H; monall; eauto with ni.
  eapply edit_root_NI; [eassumption | eauto 10 with ni |].
  intros pk pre x post K. cbv beta. destruct (can_contain pk KParagraph) eqn:C; [|exact K].
  apply forallb_app_iff in K. destruct K as [K1 K2]. apply forallb_app_iff. split; [exact K1|].
  cbn [app]. apply forallb_cons. split; [reflexivity | exact K2].
Qed.
#[export] Hint Resolve try_inserting_NI : ni.

Lemma header_cells_ball o : bo_table o = true -> forall cells id ln sl sc po l,
  header_cells cells id ln sl sc po = Ok l -> forallb (ball o) l = true.
Proof.
  intro T. induction cells as [|c r IH]; intros id ln sl sc po l H; cbn [header_cells] in H.
  - inversion H. reflexivity.
  - mon H. apply forallb_cons. split; [cbn; now rewrite T | eapply IH; eassumption].
Qed.

Lemma try_opening_header_NI o st c line r st' :
  bo_table o = true -> try_opening_header o st c line = Ok (r, st') -> NI o st -> NI o st'.
Proof.
  intro T. unfold try_opening_header. intros H V. mon H; monall; eauto 10 with ni;
  (eapply edit_root_NI; [eassumption | eauto 10 with ni |]);
  intros pk pre x post K; cbv beta; (destruct (is_paragraph x) eqn:P; [|exact K]);
  apply forallb_app_iff in K; destruct K as [K1 K2]; apply forallb_cons in K2; destruct K2 as [_ K2];
  apply forallb_app_iff; (split; [exact K1|]); cbn [app]; apply forallb_cons; (split; [|exact K2]);
  apply ball_node; cbn [bi_val new_info bvok]; (split; [exact T|]);
  apply forallb_cons; (split; [|reflexivity]); apply ball_node;
  (split; [cbn; exact T | eapply header_cells_ball; eassumption]).
Qed.

Lemma row_cells_ball o : bo_table o = true -> forall n cells id ln sc lc l lc',
  row_cells n cells id ln sc lc = Ok (l, lc') -> forallb (ball o) l = true.
Proof.
  intro T. induction n as [|m IH]; intros cells id ln sc lc l lc' H; cbn [row_cells] in H.
  - destruct cells; inversion H; reflexivity.
  - destruct cells as [|c r]; [inversion H; reflexivity|].
    mon H. repeat match goal with p : (_ * _)%type |- _ => destruct p end. cbn [fst snd] in *.
    apply forallb_cons. split; [cbn; now rewrite T | eapply IH; eassumption].
Qed.

Lemma filler_cells_ball o : bo_table o = true -> forall n id ln lc, forallb (ball o) (filler_cells n id ln lc) = true.
Proof.
  intro T. induction n as [|m IH]; intros; cbn [filler_cells]; [reflexivity|].
  apply forallb_cons. split; [cbn; now rewrite T | apply IH].
Qed.

Lemma try_opening_row_NI o st c t line r st' :
  bo_table o = true -> (exists cn, get st c = Ok cn /\ bval cn = Table t) ->
  try_opening_row o st c t line = Ok (r, st') -> NI o st -> NI o st'.
Proof.
  intros T [cn [G Bv]]. unfold try_opening_row. intros H V. rewrite G in H. cbn [bind] in H.
  mon H; monall; eauto 10 with ni.
  match goal with M : modify _ _ _ = Ok ?s |- _ => assert (NI o s) end.
  { eapply modify_NI; [apply NI_st_next; exact V | eassumption |].
    intros nn Fn Vn. cbn in Fn. rewrite (get_find _ _ _ G) in Fn. inversion Fn; subst.
    destruct nn as [i ch]. unfold bval in Bv. cbn [binf] in Bv.
    split; [|unfold bval; cbn [binf]; rewrite Bv; discriminate].
    apply ball_node. apply ball_node in Vn. destruct Vn as [_ Vk]. cbn [set_val bi_val bvok]. split; [exact T|].
    apply forallb_app_iff. split; [exact Vk|]. apply forallb_cons. split; [|reflexivity].
    apply ball_node. split; [cbn; exact T|].
    apply forallb_app_iff. split; [eapply row_cells_ball; eassumption | now apply filler_cells_ball]. }
  eauto 10 with ni.
Qed.

Lemma try_opening_block_NI o st c line r st' :
  bo_table o = true -> try_opening_block o st c line = Ok (r, st') -> NI o st -> NI o st'.
Proof.
  intro T. unfold try_opening_block. intros H V.
  destruct (get st c) as [cn| |] eqn:G; cbn [bind] in H; try discriminate H.
  destruct (bval cn) eqn:Bv; try (inversion H; subst; exact V).
  - eapply try_opening_header_NI; eassumption.
  - eapply try_opening_row_NI; [exact T | exists cn; split; [exact G | exact Bv] | exact H | exact V].
Qed.

Lemma reopen_NI o : forall fuel st id st', reopen_ast_nodes fuel st id = Ok st' -> NI o st -> NI o st'.
Proof. induction fuel as [|f IH]; intros st id st' H V; cbn [reopen_ast_nodes] in H; nigo H. Qed.
#[export] Hint Resolve reopen_NI : ni.

Lemma last_kid_ball o c lc : ball o c = true -> last_opt (bkids c) = Some lc -> ball o lc = true.
Proof.
  destruct c as [i ch]. intros V L. apply ball_node in V. destruct V as [_ V].
  cbn [bkids] in L. apply last_opt_in in L. rewrite forallb_forall in V. now apply V.
Qed.

Lemma parse_desc_list_details_NI o st c m b c' st' :
  parse_desc_list_details o st c m = Ok (b, c', st') -> NI o st -> NI o st'.
Proof.
  unfold parse_desc_list_details. intros H V.
  destruct (get st c) as [cn| |] eqn:G; cbn [bind] in H; try discriminate H.
  match type of H with bind ?r _ = _ => destruct r as [[[[tight c1] lc]|]| |] eqn:R; cbn [bind] in H; try discriminate H end;
    [|inversion H; subst; exact V].
  assert (Vlc : ball o lc = true).
  { pose proof (get_ball _ _ _ _ V G) as Vc.
    destruct (last_opt (bkids cn)) eqn:L.
    - inversion R; subst. eapply last_kid_ball; eassumption.
    - mon R. eapply last_kid_ball; [eapply get_ball; [exact V | eassumption] | eassumption]. }
  clear R.
  destruct (bval lc) eqn:Bl; try (inversion H; subst; exact V).
  - (* DescriptionItem *) nigo H.
  - (* Paragraph *)
    mon H; monall; repeat match goal with p : (_ * _)%type |- _ => destruct p end; cbn [fst snd] in *;
    match goal with A : add_child_gen _ ?s _ DescriptionTerm _ _ _ = Ok (_, ?s') |- _ =>
      assert (NI o s -> NI o s') by
        (intro; eapply add_child_gen_NI; [exact A | assumption | intros; reflexivity |
           apply forallb_cons; split; [exact Vlc | reflexivity]])
    end; eauto 20 with ni.
Qed.
#[export] Hint Resolve parse_desc_list_details_NI : ni.

(* ---- the handlers *)
Lemma handle_alert_NI o st c line ind b c' st' : handle_alert o st c line ind = Ok (b, c', st') -> NI o st -> NI o st'.
Proof. unfold handle_alert. intros H V. nigo H. Qed.
Lemma handle_mbq_NI o st c line ind b c' st' : handle_multiline_blockquote o st c line ind = Ok (b, c', st') -> NI o st -> NI o st'.
Proof. unfold handle_multiline_blockquote, rest_at_fns. intros H V. nigo H. Qed.
Lemma handle_blockquote_NI o st c line ind b c' st' : handle_blockquote o st c line ind = Ok (b, c', st') -> NI o st -> NI o st'.
Proof. unfold handle_blockquote. intros H V. nigo H. Qed.

(* ATX: the level is the number of hashes the scanner accepted *)
Lemma handle_atx_NI o st c line ind b c' st' : handle_atx_heading o st c line ind = Ok (b, c', st') -> NI o st -> NI o st'.
Proof.
  unfold handle_atx_heading, rest_at_fns. intros H V.
  mon H; monall; repeat match goal with p : (_ * _)%type |- _ => destruct p end; cbn [fst snd] in *; eauto with ni.
  eapply add_child_gen_NI; [eassumption | eauto with ni | | reflexivity].
  intros id0 l0 c0. cbn [set_ioff set_val new_info bi_val bvok].
  match goal with S : scan_atx_heading_start _ = Some _, P : position_hash _ = Some _, C : count_hashes _ = Ok ?lv |- _ =>
    pose proof (atx_level_bounds _ _ _ _ S P C) as B end.
  apply andb_true_iff. split; apply N.leb_le; lia.
Qed.

Lemma handle_code_fence_NI o st c line ind b c' st' : handle_code_fence o st c line ind = Ok (b, c', st') -> NI o st -> NI o st'.
Proof. unfold handle_code_fence, rest_at_fns. intros H V. nigo H. Qed.
Lemma handle_html_block_NI o st c line ind b c' st' : handle_html_block o st c line ind = Ok (b, c', st') -> NI o st -> NI o st'.
Proof. unfold handle_html_block, rest_at_fns. intros H V. nigo H. Qed.
Lemma handle_thematic_break_NI o st c line ind am b c' st' : handle_thematic_break o st c line ind am = Ok (b, c', st') -> NI o st -> NI o st'.
Proof. unfold handle_thematic_break. intros H V. nigo H. Qed.

Lemma handle_footnote_NI o st c line ind d b c' st' : handle_footnote o st c line ind d = Ok (b, c', st') -> NI o st -> NI o st'.
Proof.
  unfold handle_footnote, rest_at_fns. intros H V.
  mstep H; [inversion H; subst; exact V|].
  assert (F : bo_footnotes o = true).
  { destruct (bo_footnotes o); [reflexivity|]. destruct ind; cbn in E; discriminate E. }
  assert (Fv : forall n k, bvok o (FootnoteDefinition n k) = true) by (intros; exact F).
  nigo H.
Qed.

Lemma handle_description_list_NI o st c line ind b c' st' : handle_description_list o st c line ind = Ok (b, c', st') -> NI o st -> NI o st'.
Proof. unfold handle_description_list, rest_at_fns. intros H V. nigo H. Qed.
Lemma list_spaces_loop_NI o line sc : forall fuel st st', list_spaces_loop fuel st line sc = Ok st' -> NI o st -> NI o st'.
Proof. induction fuel as [|f IH]; intros st st' H V; cbn [list_spaces_loop] in H; nigo H. Qed.
#[export] Hint Resolve list_spaces_loop_NI : ni.
Lemma handle_list_NI o st c line ind d b c' st' : handle_list o st c line ind d = Ok (b, c', st') -> NI o st -> NI o st'.
Proof. unfold handle_list. intros H V. nigo H. Qed.
Lemma handle_code_block_NI o st c line ind ml b c' st' : handle_code_block o st c line ind ml = Ok (b, c', st') -> NI o st -> NI o st'.
Proof. unfold handle_code_block. intros H V. nigo H. Qed.

(* setext: a Paragraph becomes a Heading of level 1 or 2 *)
Lemma handle_setext_NI o st c line ind b c' st' : handle_setext_heading o st c line ind = Ok (b, c', st') -> NI o st -> NI o st'.
Proof.
  unfold handle_setext_heading, rest_at_fns. intros H V.
  mstep H; [inversion H; subst; exact V|].
  destruct (get st c) as [cn| |] eqn:G; cbn [bind] in H; try discriminate H.
  destruct (is_paragraph cn) eqn:P; cbn [negb] in H; [|inversion H; subst; exact V].
  mon H; monall; repeat match goal with p : (_ * _)%type |- _ => destruct p end; cbn [fst snd] in *; eauto 10 with ni;
  match goal with M1 : modify_info (st_refmap st _) _ _ = Ok ?s1 |- _ => assert (V1 : NI o s1) end;
  try (eapply modify_info_NI; [apply NI_st_refmap; exact V | eassumption |];
       intros nn Fn; cbn [ps_root st_refmap] in Fn; rewrite (get_find _ _ _ G) in Fn; inversion Fn; subst;
       assert (Kp : bi_val (binf nn) = Paragraph)
         by (unfold is_paragraph, bval in P; destruct (bi_val (binf nn)); try discriminate P; reflexivity);
       cbn [set_val set_content bi_val]; rewrite ?Kp;
       (split; [first [reflexivity | match goal with |- bvok _ (Heading ?l _) = true => destruct l; reflexivity end
                      | match goal with |- context [match ?s with SetextEquals => _ | SetextHyphen => _ end] => destruct s; reflexivity end]
               | intro HD; discriminate HD]));
  eauto 10 with ni.
Qed.
#[export] Hint Resolve handle_alert_NI handle_mbq_NI handle_blockquote_NI handle_atx_NI handle_code_fence_NI
  handle_html_block_NI handle_setext_NI handle_thematic_break_NI handle_footnote_NI
  handle_description_list_NI handle_list_NI handle_code_block_NI : ni.

Lemma or_else_h_NI o (r : hres) k b c st st' :
  or_else_h r k = Ok (b, c, st') -> NI o st ->
  (forall b1 c1 s1, r = Ok (b1, c1, s1) -> NI o st -> NI o s1) ->
  (forall c1 s1 b2 c2 s2, k c1 s1 = Ok (b2, c2, s2) -> NI o s1 -> NI o s2) ->
  NI o st'.
Proof.
  unfold or_else_h. intros H V Hr Hk.
  destruct r as [[[b1 c1] s1]| |]; cbn [bind] in H; try discriminate H.
  destruct b1.
  - inversion H; subst. eapply Hr; [reflexivity | exact V].
  - eapply Hk; [exact H|]. eapply Hr; [reflexivity | exact V].
Qed.

Ltac chain_ni :=
  match goal with
  | R : or_else_h _ _ = Ok _ |- NI _ _ =>
    eapply (or_else_h_NI _ _ _ _ _ _ _ R); clear R;
    [ eassumption | intros ? ? ? ? ?; eauto with ni | intros ? ? ? ? ? R ?; cbv beta in R; chain_ni ]
  | |- NI _ _ => eauto with ni
  end.

Lemma open_new_blocks_step_NI o st c line am ml d g c' st' :
  open_new_blocks_step o st c line am ml d = Ok (g, c', st') -> NI o st -> NI o st'.
Proof.
  unfold open_new_blocks_step. intros H V.
  destruct (ffn st line) as [s0| |] eqn:F0; cbn [bind] in H; try discriminate H.
  assert (V0 : NI o s0) by eauto with ni.
  match type of H with bind ?r _ = _ => destruct r as [[[hd c1] s1]| |] eqn:R; cbn [bind] in H; try discriminate H end.
  assert (V1 : NI o s1) by chain_ni.
  clear R.
  destruct hd.
  - nigo H.
  - destruct (negb (Nat.leb code_indent (indent s0)) && bo_table o) eqn:ET.
    + assert (T : bo_table o = true) by (apply andb_true_iff in ET; tauto).
      match type of H with bind (bind ?r _) _ = _ => destruct r as [[tr s2]| |] eqn:TB; cbn [bind] in H; try discriminate H end.
      pose proof (try_opening_block_NI _ _ _ _ _ _ T TB V1) as V2.
      nigo H.
    + nigo H.
Qed.
#[export] Hint Resolve open_new_blocks_step_NI : ni.

Lemma open_new_blocks_loop_NI o line am : forall fuel st c ml d c' st',
  open_new_blocks_loop fuel o st c line am ml d = Ok (c', st') -> NI o st -> NI o st'.
Proof. induction fuel as [|f IH]; intros st c ml d c' st' H V; cbn [open_new_blocks_loop] in H; nigo H. Qed.
#[export] Hint Resolve open_new_blocks_loop_NI : ni.

Lemma open_new_blocks_NI o st c line am c' st' : open_new_blocks o st c line am = Ok (c', st') -> NI o st -> NI o st'.
Proof. unfold open_new_blocks. intros H V. nigo H. Qed.
#[export] Hint Resolve open_new_blocks_NI : ni.

Lemma clear_llb_up_NI o : forall fuel st id st', clear_llb_up fuel st id = Ok st' -> NI o st -> NI o st'.
Proof. induction fuel as [|f IH]; intros st id st' H V; cbn [clear_llb_up] in H; nigo H. Qed.
#[export] Hint Resolve clear_llb_up_NI : ni.

Lemma finalize_up_to_NI o target site : forall fuel st st', finalize_up_to fuel o st target site = Ok st' -> NI o st -> NI o st'.
Proof. induction fuel as [|f IH]; intros st st' H V; cbn [finalize_up_to] in H; nigo H. Qed.
#[export] Hint Resolve finalize_up_to_NI : ni.

Lemma add_line_NI o st id line st' : add_line st id line = Ok st' -> NI o st -> NI o st'.
Proof.
  unfold add_line. intros H V.
  destruct (get st id) as [n| |] eqn:G; cbn [bind] in H; try discriminate H.
  pose proof (get_ball _ _ _ _ V G) as Vn.
  assert (Vv : bvok o (bi_val (binf n)) = true) by (destruct n as [i ch]; apply ball_node in Vn; tauto).
  mon H; monall; apply NI_st_cur;
  (eapply modify_info_NI; [exact V | eassumption |];
   intros nn Fn; rewrite (get_find _ _ _ G) in Fn; inversion Fn; subst; cbn; split; [exact Vv | exact (fun HD => HD)]).
Qed.
#[export] Hint Resolve add_line_NI : ni.

Lemma add_text_to_container_NI o st c lm line st' :
  add_text_to_container o st c lm line = Ok st' -> NI o st -> NI o st'.
Proof. unfold add_text_to_container. intros H V. nigo H. Qed.
#[export] Hint Resolve add_text_to_container_NI : ni.

Lemma process_line_NI o st line st' : process_line o st line = Ok st' -> NI o st -> NI o st'.
Proof. unfold process_line. intros H V. nigo H. Qed.
#[export] Hint Resolve process_line_NI : ni.

Lemma process_lines_NI o : forall ls st st', process_lines o st ls = Ok st' -> NI o st -> NI o st'.
Proof. induction ls as [|l r IH]; intros st st' H V; cbn [process_lines] in H; nigo H. Qed.
#[export] Hint Resolve process_lines_NI : ni.

Lemma finalize_document_NI o st st' : finalize_document o st = Ok st' -> NI o st -> NI o st'.
Proof. unfold finalize_document. intros H V. nigo H. Qed.
#[export] Hint Resolve finalize_document_NI : ni.

Lemma run_lines_NI o st ls st' : run_lines o st ls = Ok st' -> NI o st -> NI o st'.
Proof. unfold run_lines. intros H V. nigo H. Qed.
#[export] Hint Resolve run_lines_NI : ni.

Lemma front_matter_prologue_NI o st s st' rest : front_matter_prologue o st s = Ok (st', rest) -> NI o st -> NI o st'.
Proof. unfold front_matter_prologue. intros H V. nigo H. Qed.
#[export] Hint Resolve front_matter_prologue_NI : ni.

Lemma NI_init o : NI o init_state.
Proof. split; reflexivity. Qed.

Theorem parse_blocks_NI o x r : parse_blocks o x = Ok r ->
  bval (br_root r) = Document /\ ball o (br_root r) = true.
Proof.
  unfold parse_blocks. intro H. pose proof (NI_init o) as V.
  mon H; monall. cbn [br_root]. change (NI o a). eauto with ni.
Qed.
