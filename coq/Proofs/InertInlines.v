(* Proofs/InertInlines.v — C13 for the INLINE phase of the parser model (Model/Inlines.v).

   Setting.  T is a set of bytes ("trigger bytes"), the block content `inp` contains none of them, and the two
   option records o1 o2 agree on every field EXCEPT those whose reads in Subject are guarded by a T-byte
   (hypotheses A_*: a field may differ only when ALL the bytes that lead to a read of it are in T).  Then
     parse_inline   (one dispatcher step)   gives the same result for o1 and o2 on every state satisfying the
                                            invariant `Inv` (the delimiter stack holds no T delimiter, the Text
                                            node of a stacked delimiter does not begin with a T byte, no open
                                            bracket when `[` is in T), and the invariant is kept;
     inline_loop / process_emphasis / parse_inlines   give the same result (by induction on the fuel).
   The special-character tables enter through two hypotheses (A_fsc, A_skip) that Proofs/InertFeatures.v
   discharges per feature from the table theorems of Proofs/SpecialProofs.v (C13_table_inert,
   C13_find_special_inert).  No axioms. *)
From Coq Require Import List NArith ZArith Arith Bool Lia Strings.String.
From V Require Import Base.Bytes Base.Res Gen.StrLeafGen Gen.Special Model.Special Model.Ast Model.Spx Model.Strings
     Model.Entity Model.Inlines Proofs.InlinesProofs.
Import ListNotations.
Local Open Scope string_scope.
Local Open Scope list_scope.

(* ------------------------------------------------------------------ generic helpers *)
Lemma bind_ext {A B} (r : res A) (k1 k2 : A -> res B) :
  (forall a, r = Ok a -> k1 a = k2 a) -> bind r k1 = bind r k2.
Proof. intro H. destruct r; cbn [bind]; auto. Qed.

Lemma in_firstn {A} (x : A) n l : In x (firstn n l) -> In x l.
Proof. revert l; induction n as [|n IH]; intros [|y l] H; cbn in *; try tauto. destruct H; auto. Qed.
Lemma in_skipn {A} (x : A) n l : In x (skipn n l) -> In x l.
Proof. revert l; induction n as [|n IH]; intros [|y l] H; cbn in *; try tauto. right. auto. Qed.

(* walk two syntactically parallel terms *)
Ltac walk1 :=
  match goal with
  | |- ?a = ?a => reflexivity
  | |- bind ?r _ = bind ?r _ => let E := fresh "E" in destruct r eqn:E; cbn [bind]; [|reflexivity|reflexivity]
  | |- (match ?x with _ => _ end) = (match ?x with _ => _ end) => let E := fresh "E" in destruct x eqn:E
  end.
Ltac walk := repeat walk1.

(* ids of the items whose Text begins with a byte of T *)
Section Bad.
Variable T : byte -> bool.

Definition isbad (it : item) : bool :=
  match text_of (snd it) with Some (c :: _) => T c | _ => false end.
Definition ibad (l : list item) : list nat := map fst (filter isbad l).

Lemma ibad_app a b : ibad (a ++ b) = ibad a ++ ibad b.
Proof. unfold ibad. rewrite filter_app, map_app. reflexivity. Qed.
Lemma ibad_cons x l : ibad (x :: l) = ibad [x] ++ ibad l.
Proof. exact (ibad_app [x] l). Qed.
Lemma ibad_in i l : In i (ibad l) <-> exists it, In it l /\ fst it = i /\ isbad it = true.
Proof.
  unfold ibad. rewrite in_map_iff. split.
  - intros [it [E H]]. apply filter_In in H. exists it. tauto.
  - intros [it [H [E B]]]. exists it. split; [exact E|]. apply filter_In. tauto.
Qed.
Lemma ibad_incl l1 l2 : (forall it, In it l1 -> In it l2) -> incl (ibad l1) (ibad l2).
Proof. intros H i Hi. apply ibad_in in Hi. destruct Hi as [it [H1 H2]]. apply ibad_in. exists it. split; auto. Qed.
Lemma ibad_rev l : incl (ibad (rev l)) (ibad l).
Proof. apply ibad_incl. intros it H. apply in_rev. exact H. Qed.
Lemma ibad_ids i l : In i (ibad l) -> In i (map fst l).
Proof. intro H. apply ibad_in in H. destruct H as [it [H1 [H2 _]]]. apply in_map_iff. exists it. auto. Qed.
End Bad.

Lemma split_at_id_eq id : forall l a x b, split_at_id id l = Some (a, x, b) -> l = a ++ x :: b /\ fst x = id.
Proof.
  induction l as [|y l IH]; intros a x b H; cbn in H; [discriminate|].
  destruct (Nat.eqb (fst y) id) eqn:E.
  - inversion H; subst. apply Nat.eqb_eq in E. auto.
  - destruct (split_at_id id l) as [[[a' y'] b']|]; [|discriminate]. inversion H; subst.
    destruct (IH _ _ _ eq_refl) as [-> E2]. auto.
Qed.

Section Inert.
Variable memo : bool.
Variable T : byte -> bool.
Variables o1 o2 : iopts.
Variable u : oracle.
Variable inp : bytes.
Variable lo : list N.
Variable start_line : N.
Variable refmap : list (bytes * (bytes * bytes)).
Variable maxref : N.

Hypothesis Hfree : forall b, In b inp -> T b = false.
Hypothesis Hna : forall b, is_ascii b = false -> T b = false.

(* a field may differ only when every byte that guards its reads is a trigger *)
Hypothesis A_autolink : io_autolink o1 = io_autolink o2 \/ (T x3a = true /\ T x77 = true).
Hypothesis A_relaxed : io_relaxed_autolinks o1 = io_relaxed_autolinks o2 \/ (T x3a = true /\ T x77 = true).
Hypothesis A_strike : io_strikethrough o1 = io_strikethrough o2 \/ T x7e = true.
Hypothesis A_sub : io_subscript o1 = io_subscript o2 \/ T x7e = true.
Hypothesis A_sup : io_superscript o1 = io_superscript o2 \/ T x5e = true.
Hypothesis A_under : io_underline o1 = io_underline o2 \/ T x5f = true.
Hypothesis A_spoiler : io_spoiler o1 = io_spoiler o2 \/ T x7c = true.
Hypothesis A_md : io_math_dollars o1 = io_math_dollars o2 \/ T x24 = true.
Hypothesis A_mc : io_math_code o1 = io_math_code o2 \/ T x24 = true.
Hypothesis A_wa : io_wikilinks_after o1 = io_wikilinks_after o2 \/ T x5b = true.
Hypothesis A_wb : io_wikilinks_before o1 = io_wikilinks_before o2 \/ T x5b = true.
Hypothesis A_fn : io_footnotes o1 = io_footnotes o2 \/ T x5b = true.
Hypothesis A_smart : io_smart o1 = io_smart o2 \/ (T x27 = true /\ T x22 = true /\ T x2d = true /\ T x2e = true).
Hypothesis A_ecs : io_escaped_char_spans o1 = io_escaped_char_spans o2.
Hypothesis A_iel : io_ignore_empty_links o1 = io_ignore_empty_links o2.
(* the tables of Subject::new *)
Hypothesis A_fsc : forall wb p, find_special_char (io_fn o1) wb inp p = find_special_char (io_fn o2) wb inp p.
Hypothesis A_skip : forall b, T b = false -> skip_chars (io_fn o1) b = skip_chars (io_fn o2) b.

Lemma nth_free p c : nth_error inp p = Some c -> T c = false.
Proof. intro H. apply Hfree. eapply nth_error_In; eauto. Qed.

Lemma T_neq c t : T c = false -> T t = true -> beqb c t = false.
Proof. intros H1 H2. apply beqb_neq. intro E. subst. congruence. Qed.

(* ------------------------------------------------------------------ scan_delims: skip_chars on bytes of inp *)
Lemma skipc_eq b : T b = false -> skipc o1 b = skipc o2 b.
Proof. exact (A_skip b). Qed.

Lemma back_skip_eq : forall r bcp, (forall b, In b r -> T b = false) -> back_skip o1 r bcp = back_skip o2 r bcp.
Proof.
  induction r as [|b r IH]; intros bcp H; [reflexivity|].
  cbn [back_skip]. destruct r as [|b' r']; [reflexivity|].
  rewrite (skipc_eq b) by (apply H; left; reflexivity).
  rewrite IH by (intros x Hx; apply H; right; exact Hx). reflexivity.
Qed.

Lemma fwd_skip_eq : forall r, (forall b, In b r -> T b = false) -> fwd_skip o1 r = fwd_skip o2 r.
Proof.
  induction r as [|b r IH]; intros H; [reflexivity|].
  cbn [fwd_skip]. destruct r as [|b' r']; [reflexivity|].
  rewrite (skipc_eq b) by (apply H; left; reflexivity).
  rewrite IH by (intros x Hx; apply H; right; exact Hx). reflexivity.
Qed.

Lemma fwd_skip_sub o : forall r x, In x (fwd_skip o r) -> In x r.
Proof.
  induction r as [|b r IH]; intros x H; [exact H|].
  cbn [fwd_skip] in H. destruct r as [|b' r']; [exact H|].
  destruct (skipc o b); [right; apply IH; exact H | exact H].
Qed.

Lemma latin1_not_ascii_c2 : forall b1, negb (is_ascii (byte_of_N ((bN xc2 mod 32) * 64 + bN b1 mod 64))) = true.
Proof. apply forall_bytes. vm_compute. reflexivity. Qed.
Lemma latin1_not_ascii_c3 : forall b1, negb (is_ascii (byte_of_N ((bN xc3 mod 32) * 64 + bN b1 mod 64))) = true.
Proof. apply forall_bytes. vm_compute. reflexivity. Qed.

Lemma char_skipped_eq c : (forall b, In b c -> T b = false) -> char_skipped o1 c = char_skipped o2 c.
Proof.
  intro H. unfold char_skipped. destruct c as [|b0 [|b1 [|b2 r]]]; try reflexivity.
  - destruct (is_ascii b0); [|reflexivity]. apply skipc_eq. apply H. left. reflexivity.
  - destruct (beqb b0 xc2) eqn:E2; cbn [orb].
    + apply beqb_eq in E2. subst b0. apply skipc_eq, Hna, negb_true_iff, latin1_not_ascii_c2.
    + destruct (beqb b0 xc3) eqn:E3; [|reflexivity].
      apply beqb_eq in E3. subst b0. apply skipc_eq, Hna, negb_true_iff, latin1_not_ascii_c3.
Qed.

Lemma first_char_sub s x : In x (first_char s) -> In x s.
Proof.
  destruct s as [|b r]; intro H; [exact H|]. unfold first_char in H.
  destruct H as [E|H]; [left; exact E | right; eapply in_firstn; exact H].
Qed.

Lemma before_char_eq p : before_char o1 inp p = before_char o2 inp p.
Proof.
  unfold before_char. destruct p as [|p1]; [reflexivity|].
  rewrite back_skip_eq by (intros b Hb; apply in_rev in Hb; apply in_firstn in Hb; apply Hfree; exact Hb).
  match goal with |- match ?c with _ => _ end = _ => destruct c eqn:Ec end; [reflexivity|].
  rewrite char_skipped_eq; [reflexivity|].
  intros x Hx. rewrite <- Ec in Hx. apply first_char_sub, in_firstn, in_skipn in Hx. apply Hfree. exact Hx.
Qed.

Lemma after_char_eq p : after_char o1 inp p = after_char o2 inp p.
Proof.
  unfold after_char. destruct (eof inp p); [reflexivity|].
  rewrite fwd_skip_eq by (intros b Hb; apply in_skipn in Hb; apply Hfree; exact Hb).
  match goal with |- match ?c with _ => _ end = _ => destruct c eqn:Ec end; [reflexivity|].
  rewrite char_skipped_eq; [reflexivity|].
  intros x Hx. rewrite <- Ec in Hx. apply first_char_sub, fwd_skip_sub, in_skipn in Hx. apply Hfree. exact Hx.
Qed.

Lemma scan_delims_eq p c : scan_delims o1 u inp p c = scan_delims o2 u inp p c.
Proof. unfold scan_delims. rewrite before_char_eq, after_char_eq. reflexivity. Qed.

(* ------------------------------------------------------------------ handle_delim *)
Lemma handle_delim_eq s c : T c = false -> handle_delim o1 u inp s c = handle_delim o2 u inp s c.
Proof.
  intro Hc. unfold handle_delim. rewrite scan_delims_eq.
  destruct A_smart as [E | [H1 [H2 _]]].
  - rewrite E. reflexivity.
  - rewrite (T_neq c x27 Hc H1), (T_neq c x22 Hc H2). cbn [andb orb negb]. reflexivity.
Qed.

(* ------------------------------------------------------------------ the option reads of process_emphasis *)
Lemma is_emph_char_eq ch : T ch = false -> is_emph_char o1 ch = is_emph_char o2 ch.
Proof.
  intro Hc. unfold is_emph_char.
  assert ((io_strikethrough o1 || io_subscript o1) && beqb ch x7e = (io_strikethrough o2 || io_subscript o2) && beqb ch x7e) as ->.
  { destruct A_strike as [-> | H]; [destruct A_sub as [-> | H]; [reflexivity|]|];
      rewrite (T_neq ch x7e Hc H), !andb_false_r; reflexivity. }
  assert (io_superscript o1 && beqb ch x5e = io_superscript o2 && beqb ch x5e) as ->.
  { destruct A_sup as [-> | H]; [reflexivity|]. rewrite (T_neq ch x5e Hc H), !andb_false_r. reflexivity. }
  assert (io_spoiler o1 && beqb ch x7c = io_spoiler o2 && beqb ch x7c) as ->.
  { destruct A_spoiler as [-> | H]; [reflexivity|]. rewrite (T_neq ch x7c Hc H), !andb_false_r. reflexivity. }
  reflexivity.
Qed.

Lemma emph_value_eq ch n : T ch = false -> emph_value o1 ch n = emph_value o2 ch n.
Proof.
  intro Hc. unfold emph_value.
  destruct (beqb ch x7e) eqn:E7e.
  - assert (io_subscript o1 = io_subscript o2) as ->.
    { destruct A_sub as [E | H]; [exact E|]. rewrite (T_neq ch x7e Hc H) in E7e. discriminate. }
    assert (io_strikethrough o1 = io_strikethrough o2) as ->.
    { destruct A_strike as [E | H]; [exact E|]. rewrite (T_neq ch x7e Hc H) in E7e. discriminate. }
    reflexivity.
  - rewrite !andb_false_r. cbn [andb].
    assert (io_superscript o1 && beqb ch x5e = io_superscript o2 && beqb ch x5e) as ->.
    { destruct A_sup as [-> | H]; [reflexivity|]. rewrite (T_neq ch x5e Hc H), !andb_false_r. reflexivity. }
    destruct (io_superscript o2 && beqb ch x5e); [reflexivity|].
    assert (io_spoiler o1 && beqb ch x7c = io_spoiler o2 && beqb ch x7c) as ->.
    { destruct A_spoiler as [-> | H]; [reflexivity|]. rewrite (T_neq ch x7c Hc H), !andb_false_r. reflexivity. }
    destruct (io_spoiler o2 && beqb ch x7c); [reflexivity|].
    assert (io_underline o1 && beqb ch x5f = io_underline o2 && beqb ch x5f) as E.
    { destruct A_under as [-> | H]; [reflexivity|]. rewrite (T_neq ch x5f Hc H), !andb_false_r. reflexivity. }
    rewrite E. reflexivity.
Qed.

(* ------------------------------------------------------------------ process_emphasis *)
Definition dgood (items : list item) (d : delim) : Prop :=
  T (d_char d) = false /\ ~ In (d_id d) (ibad T items).

Lemma dgood_incl items items' d : incl (ibad T items') (ibad T items) -> dgood items d -> dgood items' d.
Proof. intros H [A B]. split; [exact A|]. intro K. apply B, H, K. Qed.

Lemma text_head_good items d it c t :
  dgood items d -> In it items -> fst it = d_id d -> text_of (snd it) = Some (c :: t) -> T c = false.
Proof.
  intros [_ Hn] Hin Hid Ht. destruct (T c) eqn:E; [|reflexivity]. exfalso. apply Hn. apply ibad_in.
  exists it. split; [exact Hin|]. split; [exact Hid|]. unfold isbad. rewrite Ht. exact E.
Qed.

Lemma tilde_guard_eq ch : T ch = false ->
  (io_strikethrough o1 || io_subscript o1) && beqb ch x7e = (io_strikethrough o2 || io_subscript o2) && beqb ch x7e.
Proof.
  intro Hc. destruct A_strike as [-> | H]; [destruct A_sub as [-> | H]; [reflexivity|]|];
    rewrite (T_neq ch x7e Hc H), !andb_false_r; reflexivity.
Qed.

Lemma insert_emph_eq s n0 items op cl :
  dgood items op -> insert_emph o1 s n0 items op cl = insert_emph o2 s n0 items op cl.
Proof.
  intro G. unfold insert_emph.
  destruct (split_at_id (d_id op) items) as [[[pre opi] rest1]|] eqn:E1; [|reflexivity].
  destruct (split_at_id (d_id cl) rest1) as [[[mid cli] post]|] eqn:E2; [|reflexivity].
  destruct (text_of (snd opi)) as [ot|] eqn:Eo; [|reflexivity].
  destruct (text_of (snd cli)) as [ct|] eqn:Ec; [|reflexivity].
  destruct ot as [|oc ot']; [reflexivity|].
  apply split_at_id_eq in E1. destruct E1 as [E1 Eid].
  assert (T oc = false) as Hoc.
  { eapply (text_head_good items op opi); eauto. rewrite E1. apply in_or_app. right. left. reflexivity. }
  cbv zeta. rewrite (tilde_guard_eq oc Hoc).
  apply bind_ext. intros on' _. apply bind_ext. intros cn' _.
  rewrite (emph_value_eq oc _ Hoc). reflexivity.
Qed.

Lemma emph_value_not_text o c n sp ch : text_of (Node (emph_value o c n) sp ch) = None.
Proof. unfold emph_value, text_of. cbn [nval]. repeat match goal with |- context [if ?b then _ else _] => destruct b end; reflexivity. Qed.

Lemma mk_nval s v a b n : mk s v a b = Ok n -> nval n = v.
Proof. unfold mk. intro H. inv. reflexivity. Qed.

Lemma text_of_set n t sp : text_of (set_sp (set_text n t) sp) = Some t.
Proof. destruct n. reflexivity. Qed.

Lemma isbad_prefix id n k t sp :
  isbad T (id, set_sp (set_text n (firstn k t)) sp) = true -> text_of n = Some t -> isbad T (id, n) = true.
Proof.
  unfold isbad. cbn [snd]. rewrite text_of_set. intros H E. rewrite E.
  destruct k; [discriminate|]. destruct t; [discriminate|]. exact H.
Qed.

Lemma insert_emph_bad o s n0 items op cl items' ko kc n1 :
  insert_emph o s n0 items op cl = Ok (Some (items', ko, kc, n1)) ->
  incl (ibad T items') (ibad T items) /\ n1 = S n0.
Proof.
  unfold insert_emph. intro H.
  destruct (split_at_id (d_id op) items) as [[[pre opi] rest1]|] eqn:E1; [|discriminate].
  destruct (split_at_id (d_id cl) rest1) as [[[mid cli] post]|] eqn:E2; [|discriminate].
  destruct (text_of (snd opi)) as [ot|] eqn:Eo; [|discriminate].
  destruct (text_of (snd cli)) as [ct|] eqn:Ec; [|discriminate].
  destruct ot as [|oc ot']; [discriminate|].
  apply split_at_id_eq in E1. destruct E1 as [E1 _].
  apply split_at_id_eq in E2. destruct E2 as [E2 _].
  cbv zeta in H.
  destruct (usub _ _ _) as [on'| |] eqn:Eon; cbn [bind] in H; try discriminate.
  destruct (usub _ _ _) as [cn'| |] eqn:Ecn in H; cbn [bind] in H; try discriminate.
  match type of H with (if ?b then _ else _) = _ => destruct b end; [discriminate|].
  destruct (mk _ _ _ _) as [tmp| |] eqn:Emk; cbn [bind] in H; try discriminate.
  destruct (nsub _ _ _) as [eec| |] eqn:Eeec in H; cbn [bind] in H; try discriminate.
  match type of H with bind ?r _ = _ => destruct r as [opl| |] eqn:Eopl end; cbn [bind] in H; try discriminate.
  inversion H; subst items' ko kc n1. clear H. split; [|reflexivity].
  apply mk_nval in Emk.
  subst items rest1. intros i Hi. apply ibad_in in Hi. destruct Hi as [it [Hin [Hid Hb]]].
  apply ibad_in.
  apply in_app_or in Hin. destruct Hin as [Hin|Hin].
  { exists it. split; [apply in_or_app; left; exact Hin | auto]. }
  apply in_app_or in Hin. destruct Hin as [Hin|Hin].
  { (* the shortened opener *)
    destruct (Nat.eqb on' 0); [inversion Eopl; subst opl; destruct Hin|].
    destruct (nsub _ _ _) as [c| |] in Eopl; cbn [bind] in Eopl; try discriminate.
    inversion Eopl; subst opl. destruct Hin as [<-|[]].
    exists opi. split; [apply in_or_app; right; left; reflexivity|]. split; [exact Hid|].
    destruct opi as [oid on]. cbn [fst snd] in *. eapply isbad_prefix; eauto. }
  cbn [app] in Hin. destruct Hin as [<-|Hin].
  { exfalso. unfold isbad in Hb. cbn [snd] in Hb. rewrite Emk, emph_value_not_text in Hb. discriminate. }
  apply in_app_or in Hin. destruct Hin as [Hin|Hin].
  { destruct (Nat.eqb cn' 0); [destruct Hin|]. destruct Hin as [<-|[]].
    exists cli. split; [apply in_or_app; right; right; apply in_or_app; right; left; reflexivity|]. split; [exact Hid|].
    destruct cli as [cid cn]. cbn [fst snd] in *. eapply isbad_prefix; eauto. }
  exists it. split; [|auto]. apply in_or_app; right; right; apply in_or_app; right; right; exact Hin.
Qed.

Lemma find_opener_sub c bottom : forall below br mod3 between op rest m,
  find_opener c bottom below br mod3 = (Some (between, op, rest), m) ->
  In op below /\ incl rest below /\ (forall d, In d between -> In d below \/ In d br).
Proof.
  induction below as [|x below IH]; intros br mod3 between op rest m H; cbn [find_opener] in H; [discriminate|].
  destruct (Nat.leb bottom (d_pos x)); [|discriminate].
  destruct (d_open x && beqb (d_char x) (d_char c)).
  - match type of H with (if ?b then _ else _) = _ => destruct b end.
    + inversion H; subst. split; [left; reflexivity|]. split; [intros d Hd; right; exact Hd|].
      intros d Hd. right. apply in_rev. exact Hd.
    + apply IH in H. destruct H as [H1 [H2 H3]]. split; [right; exact H1|]. split; [intros d Hd; right; apply H2; exact Hd|].
      intros d Hd. destruct (H3 d Hd) as [K|[K|K]]; [left; right; exact K | left; left; exact K | right; exact K].
  - apply IH in H. destruct H as [H1 [H2 H3]]. split; [right; exact H1|]. split; [intros d Hd; right; apply H2; exact Hd|].
    intros d Hd. destruct (H3 d Hd) as [K|[K|K]]; [left; right; exact K | left; left; exact K | right; exact K].
Qed.

Lemma replace_item_text_bad site id t items items1 :
  (forall c r, t = c :: r -> T c = false) ->
  replace_item_text site id t items = Ok items1 -> incl (ibad T items1) (ibad T items).
Proof.
  intros Ht H. unfold replace_item_text in H.
  destruct (split_at_id id items) as [[[a it] b]|] eqn:E; [|discriminate].
  destruct (text_of (snd it)) eqn:Et; [|discriminate]. inversion H; subst items1.
  apply split_at_id_eq in E. destruct E as [-> _].
  intros i Hi. apply ibad_in in Hi. destruct Hi as [x [Hin [Hid Hb]]]. apply ibad_in.
  apply in_app_or in Hin. destruct Hin as [Hin|Hin].
  { exists x. split; [apply in_or_app; left; exact Hin | auto]. }
  cbn [app] in Hin. destruct Hin as [<-|Hin].
  { exfalso. unfold isbad in Hb. cbn [snd] in Hb. destruct (snd it) as [v sp ch]. cbn in Hb. destruct v; try discriminate.
    destruct t as [|c r]; [discriminate|]. rewrite (Ht c r eq_refl) in Hb. discriminate. }
  exists x. split; [apply in_or_app; right; right; exact Hin | auto].
Qed.

Lemma quote_text_good (b : bool) (q1 q2 : bytes) :
  q1 = utf8_rsquo \/ q1 = utf8_lsquo -> q2 = utf8_rdquo \/ q2 = utf8_ldquo ->
  forall c r, (if b then q1 else q2) = c :: r -> T c = false.
Proof.
  intros H1 H2 c r E. apply Hna.
  destruct b; [destruct H1 as [-> | ->] | destruct H2 as [-> | ->]]; inversion E; reflexivity.
Qed.

Lemma pe_loop_eq : forall fuel s n0 items ob below closer above D,
  (forall d, In d D -> dgood items d) ->
  incl below D -> (forall c, closer = Some c -> In c D) -> incl above D ->
  pe_loop o1 fuel s n0 items ob below closer above = pe_loop o2 fuel s n0 items ob below closer above.
Proof.
  induction fuel as [|f IH]; intros s n0 items ob below closer above D HD Hb Hc Ha; [reflexivity|].
  cbn [pe_loop]. destruct closer as [c|]; [|reflexivity].
  assert (In c D) as HcD by (apply Hc; reflexivity).
  assert (forall x, match above with [] => None | a :: _ => Some a end = Some x -> In x D) as Hnext.
  { intros x E. destruct above as [|a r]; [discriminate|]. inversion E; subst. apply Ha. left. reflexivity. }
  assert (incl (match above with [] => [] | _ :: r => r end) D) as Hab'.
  { destruct above as [|a r]; [exact Ha|]. intros d Hd. apply Ha. right. exact Hd. }
  destruct (d_close c).
  - destruct (ob_index c) as [ix|?|]; cbn [bind]; [|reflexivity|reflexivity].
    destruct (find_opener c (nth ix ob 0) below [] false) as [found mod3] eqn:Ef.
    rewrite (is_emph_char_eq (d_char c)) by (apply (HD c HcD)).
    assert (incl (if d_open c then c :: below else below) D) as Hbnf.
    { destruct (d_open c); [|exact Hb]. intros d [<-|Hd]; [exact HcD | apply Hb; exact Hd]. }
    destruct (is_emph_char o2 (d_char c)).
    + destruct found as [[[between op] rest]|].
      * apply find_opener_sub in Ef. destruct Ef as [Hop [Hrest Hbet]].
        rewrite (insert_emph_eq s n0 items op c) by (apply HD, Hb, Hop).
        destruct (insert_emph o2 s n0 items op c) as [[r|]|?|] eqn:Ei; cbn [bind]; [|reflexivity|reflexivity|reflexivity].
        destruct r as [[[items' ko] kc] n1].
        apply insert_emph_bad in Ei. destruct Ei as [Hinc _].
        assert (forall d, In d D -> dgood items' d) as HD' by (intros d Hd; eapply dgood_incl; [exact Hinc | apply HD; exact Hd]).
        assert (incl (if ko then op :: rest else rest) D) as Hb'.
        { destruct ko; intros d Hd; [destruct Hd as [<-|Hd]; [apply Hb, Hop | apply Hb, Hrest, Hd] | apply Hb, Hrest, Hd]. }
        destruct kc; apply (IH _ _ _ _ _ _ _ D); auto.
      * apply (IH _ _ _ _ _ _ _ D); auto.
    + destruct (beqb (d_char c) x27 || beqb (d_char c) x22); [|reflexivity].
      destruct (replace_item_text _ (d_id c) _ items) as [items1|?|] eqn:E1; cbn [bind]; [|reflexivity|reflexivity].
      apply replace_item_text_bad in E1; [|apply (quote_text_good _ utf8_rsquo utf8_rdquo); auto].
      assert (forall d, In d D -> dgood items1 d) as HD1 by (intros d Hd; eapply dgood_incl; [exact E1 | apply HD; exact Hd]).
      destruct found as [[[between op] rest]|].
      * apply find_opener_sub in Ef. destruct Ef as [Hop [Hrest Hbet]].
        destruct (replace_item_text _ (d_id op) _ items1) as [items2|?|] eqn:E2; cbn [bind]; [|reflexivity|reflexivity].
        apply replace_item_text_bad in E2; [|apply (quote_text_good _ utf8_lsquo utf8_ldquo); auto].
        apply (IH _ _ _ _ _ _ _ D); auto.
        -- intros d Hd; eapply dgood_incl; [exact E2 | apply HD1; exact Hd].
        -- intros d Hd. apply in_app_or in Hd. destruct Hd as [Hd|Hd]; [|apply Hb, Hrest, Hd].
           destruct (Hbet d Hd) as [K|[]]. apply Hb, K.
      * apply (IH _ _ _ _ _ _ _ D); auto.
  - apply (IH _ _ _ _ _ _ _ D); auto.
    intros d [<-|Hd]; [exact HcD | apply Hb; exact Hd].
Qed.

Lemma process_emphasis_eq s n0 items ds bottom :
  (forall d, In d ds -> dgood items d) ->
  process_emphasis o1 inp s n0 items ds bottom = process_emphasis o2 inp s n0 items ds bottom.
Proof.
  intro H. unfold process_emphasis. destruct ds as [|c above]; [reflexivity|].
  apply (pe_loop_eq _ _ _ _ _ _ _ _ (c :: above)); auto.
  - intros d [].
  - intros x E. inversion E; subst. left. reflexivity.
  - intros d Hd. right. exact Hd.
Qed.

Lemma pe_loop_mono o : forall fuel s n0 items ob below closer above items' n1,
  pe_loop o fuel s n0 items ob below closer above = Ok (items', n1) -> n0 <= n1.
Proof.
  induction fuel as [|f IH]; intros s n0 items ob below closer above items' n1 H; [discriminate|].
  cbn [pe_loop] in H. destruct closer as [c|]; [|inversion H; subst; lia].
  destruct (d_close c); [|eapply IH; eauto].
  destruct (ob_index c) as [ix| |]; cbn [bind] in H; try discriminate.
  destruct (find_opener c (nth ix ob 0) below [] false) as [found mod3].
  destruct (is_emph_char o (d_char c)).
  - destruct found as [[[between op] rest]|]; [|eapply IH; eauto].
    destruct (insert_emph o s n0 items op c) as [[r|]| |] eqn:Ei; cbn [bind] in H; try discriminate.
    + destruct r as [[[items2 ko] kc] n2]. apply insert_emph_bad in Ei. destruct Ei as [_ ->].
      destruct kc; apply IH in H; lia.
    + inversion H; subst; lia.
  - destruct (beqb (d_char c) x27 || beqb (d_char c) x22); [|discriminate].
    destruct (replace_item_text _ (d_id c) _ items) as [items1| |]; cbn [bind] in H; try discriminate.
    destruct found as [[[between op] rest]|]; [|eapply IH; eauto].
    destruct (replace_item_text _ (d_id op) _ items1) as [items2| |]; cbn [bind] in H; try discriminate.
    eapply IH; eauto.
Qed.

Lemma process_emphasis_mono o s n0 items ds bottom items' n1 :
  process_emphasis o inp s n0 items ds bottom = Ok (items', n1) -> n0 <= n1.
Proof.
  unfold process_emphasis. destruct ds as [|c above]; intro H; [inversion H; subst; lia|].
  eapply pe_loop_mono; eauto.
Qed.

(* ------------------------------------------------------------------ frames: what the handlers leave alone *)
Definition frame (s s' : st) : Prop :=
  delims s' = delims s /\ brackets s' = brackets s /\ sibs s' = sibs s /\ nid s' = nid s.

Lemma frame_refl s : frame s s.
Proof. unfold frame. auto. Qed.

Ltac projs := cbn [delims brackets sibs nid pos within set_pos set_linecol set_lineoff set_flags set_refsize set_delims
                   set_brackets set_within set_bt set_nlo set_sibs push_item fresh_id fst snd] in *.

Lemma adjust_frame s n ml ex s' n' : adjust_node_newlines inp lo s n ml ex = Ok (s', n') -> frame s s'.
Proof. unfold adjust_node_newlines. intro H. inv; unfold frame; projs; auto. Qed.

Lemma stcb_frame s otl r s' : scan_to_closing_backtick memo inp s otl = (r, s') -> frame s s'.
Proof.
  unfold scan_to_closing_backtick. intro H.
  repeat match type of H with
         | (if ?b then _ else _) = _ => destruct b
         | (let '(_, _) := ?x in _) = _ => destruct x as [[? ?] ?]
         end; inversion H; subst; unfold frame; projs; auto.
Qed.

Ltac fr :=
  repeat match goal with
         | H : adjust_node_newlines _ _ _ _ _ _ = Ok _ |- _ => apply adjust_frame in H
         | H : scan_to_closing_backtick _ _ _ _ = _ |- _ => apply stcb_frame in H
         end;
  unfold frame in *; projs;
  repeat match goal with H : _ /\ _ |- _ => destruct H end;
  repeat split; congruence.

Lemma newline_frame s s' n : handle_newline inp s = Ok (s', n) -> frame s s'.
Proof. unfold handle_newline. intro H. inv; fr. Qed.
Lemma backticks_frame s s' n : handle_backticks memo inp lo s = Ok (s', n) -> frame s s'.
Proof. unfold handle_backticks. intro H. inv; fr. Qed.
Lemma backslash_frame o s s' n : handle_backslash o inp s = Ok (s', n) -> frame s s'.
Proof. unfold handle_backslash. intro H. inv; fr. Qed.
Lemma entity_frame s s' n : handle_entity inp s = Ok (s', n) -> frame s s'.
Proof. unfold handle_entity. intro H. inv; fr. Qed.
Lemma pointy_frame s s' n : handle_pointy_brace inp lo s = Ok (s', n) -> frame s s'.
Proof. unfold handle_pointy_brace. intro H. inv; fr. Qed.
Lemma hyphen_frame o s s' n : handle_hyphen o inp s = Ok (s', n) -> frame s s'.
Proof. unfold handle_hyphen. intro H. inv; fr. Qed.
Lemma period_frame o s s' n : handle_period o inp s = Ok (s', n) -> frame s s'.
Proof. unfold handle_period. intro H. inv; fr. Qed.
Lemma dollars_frame o s s' n : handle_dollars o inp lo s = Ok (s', n) -> frame s s'.
Proof. unfold handle_dollars. intro H. inv; fr. Qed.

(* ------------------------------------------------------------------ the invariant of the dispatcher loop *)
Definition Inv (s : st) : Prop :=
  (T x5b = true -> brackets s = []) /\
  (forall d, In d (delims s) -> dgood (sibs s) d /\ d_id d < nid s) /\
  (forall it, In it (sibs s) -> fst it < nid s).

Lemma Inv_weaken s s' :
  Inv s -> (T x5b = true -> brackets s' = []) -> incl (delims s') (delims s) -> nid s <= nid s' ->
  incl (ibad T (sibs s')) (ibad T (sibs s)) -> (forall it, In it (sibs s') -> fst it < nid s') -> Inv s'.
Proof.
  intros [I1 [I2 I3]] H1 H2 H3 H4 H5. split; [exact H1|]. split; [|exact H5].
  intros d Hd. destruct (I2 d (H2 d Hd)) as [G L]. split; [eapply dgood_incl; eauto | lia].
Qed.

Lemma Inv_frame s s' : frame s s' -> Inv s -> Inv s'.
Proof.
  intros [F1 [F2 [F3 F4]]] I. apply (Inv_weaken s s' I).
  - rewrite F2. apply I.
  - rewrite F1. apply incl_refl.
  - lia.
  - rewrite F3. apply incl_refl.
  - rewrite F3, F4. apply I.
Qed.

Lemma Inv_push s n : Inv s -> Inv (fst (push_item s n)).
Proof.
  intros [I1 [I2 I3]]. unfold Inv, push_item. projs. split; [exact I1|]. split.
  - intros d Hd. destruct (I2 d Hd) as [[G1 G2] L]. split; [|lia]. split; [exact G1|].
    rewrite ibad_cons. intro K. apply in_app_or in K. destruct K as [K|K]; [|exact (G2 K)].
    apply ibad_ids in K. cbn in K. destruct K as [K|[]]. lia.
  - intros it [<-|H]; [cbn; lia|]. specialize (I3 it H). lia.
Qed.

Lemma Inv_push_frame s s1 n : Inv s -> frame s s1 -> Inv (fst (push_item s1 n)).
Proof. intros I F. apply Inv_push. eapply Inv_frame; eauto. Qed.

Lemma Inv_dinv s : Inv s -> forall d, In d (delims s) -> dgood (sibs s) d.
Proof. intros [_ [I2 _]] d Hd. apply I2. exact Hd. Qed.

(* ------------------------------------------------------------------ handlers that read options only after the byte test *)
Lemma handle_backslash_eq s : handle_backslash o1 inp s = handle_backslash o2 inp s.
Proof. unfold handle_backslash. rewrite A_ecs. reflexivity. Qed.

Lemma handle_hyphen_eq s : io_smart o1 = io_smart o2 -> handle_hyphen o1 inp s = handle_hyphen o2 inp s.
Proof. intro E. unfold handle_hyphen. rewrite E. reflexivity. Qed.
Lemma handle_period_eq s : io_smart o1 = io_smart o2 -> handle_period o1 inp s = handle_period o2 inp s.
Proof. intro E. unfold handle_period. rewrite E. reflexivity. Qed.

Lemma handle_dollars_eq s :
  io_math_dollars o1 = io_math_dollars o2 -> io_math_code o1 = io_math_code o2 ->
  handle_dollars o1 inp lo s = handle_dollars o2 inp lo s.
Proof. intros E1 E2. unfold handle_dollars, scan_to_closing_dollar. rewrite E1, E2. reflexivity. Qed.

Lemma lbe_loop_eq_aux s sc0 : forall n rest, List.length rest <= n -> forall offset startpos cur acc,
  lbe_loop o1 s sc0 rest offset startpos cur acc = lbe_loop o2 s sc0 rest offset startpos cur acc.
Proof.
  induction n as [|n IH]; intros rest Hl offset startpos cur acc.
  - destruct rest; [reflexivity | cbn in Hl; lia].
  - destruct rest as [|c r]; [reflexivity|]. cbn [lbe_loop]. cbn [List.length] in Hl.
    destruct r as [|c2 r2]; [apply IH; cbn; lia|]. cbn [List.length] in Hl.
    destruct (beqb c x5c && sl_ispunct c2); [|apply IH; cbn; lia].
    rewrite A_ecs. walk. apply IH. lia.
Qed.
Lemma lbe_loop_eq s sc0 rest offset startpos cur acc :
  lbe_loop o1 s sc0 rest offset startpos cur acc = lbe_loop o2 s sc0 rest offset startpos cur acc.
Proof. apply (lbe_loop_eq_aux s sc0 (List.length rest)). lia. Qed.

Lemma handle_wikilink_eq s : wikilinks_mode o1 = wikilinks_mode o2 -> handle_wikilink o1 inp s = handle_wikilink o2 inp s.
Proof.
  intro E. unfold handle_wikilink, wikilink_url_link_label. rewrite E. walk. rewrite lbe_loop_eq. reflexivity.
Qed.

Lemma ext_loop_eq : io_relaxed_autolinks o1 = io_relaxed_autolinks o2 ->
  forall rest prev le, ext_loop o1 rest prev le = ext_loop o2 rest prev le.
Proof.
  intro E. induction rest as [|c r IH]; intros; [reflexivity|]. cbn [ext_loop]. rewrite E, IH. reflexivity.
Qed.

Lemma url_match_eq i : io_relaxed_autolinks o1 = io_relaxed_autolinks o2 -> url_match o1 u inp i = url_match o2 u inp i.
Proof. intro E. unfold url_match. rewrite E. walk. rewrite (ext_loop_eq E). reflexivity. Qed.
Lemma www_match_eq i : io_relaxed_autolinks o1 = io_relaxed_autolinks o2 -> www_match o1 u inp i = www_match o2 u inp i.
Proof. intro E. unfold www_match. rewrite E. walk. rewrite (ext_loop_eq E). reflexivity. Qed.

Lemma haw_eq s m1 m2 : io_relaxed_autolinks o1 = io_relaxed_autolinks o2 -> (forall i, m1 i = m2 i) ->
  handle_autolink_with o1 s m1 = handle_autolink_with o2 s m2.
Proof. intros E Hm. unfold handle_autolink_with. rewrite E, Hm. reflexivity. Qed.

(* ------------------------------------------------------------------ brackets *)
Lemma cbm_eq s img url title :
  (forall d, In d (delims s) -> dgood (sibs s) d) ->
  close_bracket_match o1 inp s img url title = close_bracket_match o2 inp s img url title.
Proof.
  intro G. unfold close_bracket_match.
  destruct (top_bracket s) as [b|?|]; cbn [bind]; [|reflexivity|reflexivity].
  destruct (mk s _ _ _) as [tmp|?|]; cbn [bind]; [|reflexivity|reflexivity].
  destruct (split_at_id (b_id b) (sibs s)) as [[[after_rev bi] before_rev]|] eqn:Es; [|reflexivity].
  destruct (end_col s) as [ecol|?|]; cbn [bind]; [|reflexivity|reflexivity].
  cbn [fresh_id]. rewrite process_emphasis_eq; [reflexivity|].
  projs. intros d Hd. unfold delims_from in Hd. apply filter_In in Hd. destruct Hd as [Hd _].
  apply (dgood_incl (sibs s)); [|apply G; exact Hd].
  apply split_at_id_eq in Es. destruct Es as [-> _].
  intros i Hi. apply ibad_rev in Hi. rewrite ibad_app. apply in_or_app. left. exact Hi.
Qed.

Lemma notext_ibad id n : text_of n = None -> ibad T [(id, n)] = [].
Proof. intro H. unfold ibad, isbad. cbn [filter snd]. rewrite H. reflexivity. Qed.

Lemma cbm_inv o s img url title s' :
  Inv s -> close_bracket_match o inp s img url title = Ok s' -> Inv s'.
Proof.
  intros I H. unfold close_bracket_match in H.
  destruct (top_bracket s) as [b|?|] eqn:Eb; cbn [bind] in H; try discriminate.
  destruct (mk s _ _ _) as [tmp|?|] eqn:Emk; cbn [bind] in H; try discriminate.
  destruct (split_at_id (b_id b) (sibs s)) as [[[after_rev bi] before_rev]|] eqn:Es; [|discriminate].
  destruct (end_col s) as [ecol|?|]; cbn [bind] in H; try discriminate.
  cbn [fresh_id] in H.
  destruct (process_emphasis o inp _ _ _ _ _) as [[kids n1]|?|] eqn:Ep; cbn [bind] in H; try discriminate.
  apply process_emphasis_mono in Ep. projs.
  apply split_at_id_eq in Es. destruct Es as [Es _].
  apply mk_nval in Emk.
  assert (Inv (pop_bracket (set_delims (set_sibs (set_sibs s (S (nid s)) (sibs s)) n1
            ((nid s, Node (nval tmp) (mkSp (sl (nsp (snd bi))) (sc (nsp (snd bi))) (el (nsp tmp)) ecol) (map snd kids)) :: before_rev))
            (delims_below (delims s) (b_pos b))))) as I'.
  { apply (Inv_weaken s _ I); unfold pop_bracket; projs.
    - intro Ht. destruct I as [I1 _]. rewrite (I1 Ht). reflexivity.
    - intros d Hd. unfold delims_below in Hd. apply filter_In in Hd. apply Hd.
    - lia.
    - rewrite ibad_cons, notext_ibad by (rewrite Emk; destruct img; reflexivity). cbn [app].
      rewrite Es. rewrite ibad_app, (ibad_cons T bi). intros i Hi. apply in_or_app. right. apply in_or_app. right. exact Hi.
    - destruct I as [_ [_ I3]]. intros it [<-|Hi]; [cbn; lia|].
      assert (fst it < nid s) by (apply I3; rewrite Es; apply in_or_app; right; right; exact Hi). lia. }
  destruct img; inversion H; subst s'; [exact I'|].
  eapply Inv_frame; [|exact I']. unfold frame, pop_bracket. projs. auto.
Qed.

Lemma ref_lookup_frame s lab s' r : ref_lookup refmap maxref s lab = Ok (s', r) -> frame s s'.
Proof. unfold ref_lookup. intro H. inv; fr. Qed.

Lemma frame_trans a b c : frame a b -> frame b c -> frame a c.
Proof. unfold frame. intros [A1 [A2 [A3 A4]]] [B1 [B2 [B3 B4]]]. repeat split; congruence. Qed.
Lemma frame_set_pos s p : frame s (set_pos s p).
Proof. unfold frame. projs. auto. Qed.
Lemma lk_frame (c : bool) s1 lab s2 r :
  (if c then ref_lookup refmap maxref s1 lab else Ok (s1, None)) = Ok (s2, r) -> frame s1 s2.
Proof. destruct c; [apply ref_lookup_frame | intro H; inversion H; apply frame_refl]. Qed.

Lemma dinv_frame s s' : frame s s' -> (forall d, In d (delims s) -> dgood (sibs s) d) ->
  forall d, In d (delims s') -> dgood (sibs s') d.
Proof. intros [F1 [_ [F3 _]]] G d Hd. rewrite F3. apply G. rewrite <- F1. exact Hd. Qed.

Lemma hcb_eq s0 : Inv s0 ->
  handle_close_bracket o1 u inp refmap maxref s0 = handle_close_bracket o2 u inp refmap maxref s0.
Proof.
  intro I. unfold handle_close_bracket.
  set (s := set_pos s0 (S (pos s0))).
  assert (forall d, In d (delims s) -> dgood (sibs s) d) as G by (apply (dinv_frame s0); [unfold frame, s; projs; auto | apply Inv_dinv; exact I]).
  destruct (brackets s) as [|b br] eqn:Eb; [reflexivity|].
  assert (io_footnotes o1 = io_footnotes o2) as Efn.
  { destruct A_fn as [E|Ht]; [exact E|]. destruct I as [I1 _]. specialize (I1 Ht). unfold s in Eb. projs. congruence. }
  rewrite Efn, A_iel. cbv zeta.
  destruct (negb (b_image b) && nlo s); [reflexivity|].
  destruct (split_at_id (b_id b) (sibs s)) as [[[after_rev bi] before_rev]|]; [|reflexivity].
  match goal with |- (if ?c then _ else _) = _ => destruct c end; [reflexivity|].
  apply bind_ext. intros il _. destruct il as [[[p' cu] ct]|].
  - rewrite cbm_eq; [reflexivity|]. apply (dinv_frame s); [unfold frame; projs; auto | exact G].
  - walk. rewrite cbm_eq; [reflexivity|].
    match goal with E : (if _ then ref_lookup _ _ ?s1 _ else _) = Ok (?s2, _) |- _ =>
      apply (dinv_frame s1); [exact (lk_frame _ _ _ _ _ E) | apply (dinv_frame s); [apply frame_set_pos | exact G]]
    end.
Qed.

Lemma Inv_pop s : Inv s -> Inv (pop_bracket s).
Proof.
  intro I. apply (Inv_weaken s _ I); unfold pop_bracket; projs; try apply incl_refl; try lia; try apply I.
  intro Ht. destruct I as [I1 _]. rewrite (I1 Ht). reflexivity.
Qed.

Lemma hcb_inv o s0 s' n : Inv s0 -> handle_close_bracket o u inp refmap maxref s0 = Ok (s', n) -> Inv s'.
Proof.
  intros I0 H. unfold handle_close_bracket in H.
  set (s := set_pos s0 (S (pos s0))) in *.
  assert (Inv s) as I by (apply (Inv_frame s0); [unfold frame, s; projs; auto | exact I0]).
  clearbody s. clear I0.
  destruct (brackets s) as [|b br] eqn:Eb; [inv; exact I|].
  cbv zeta in H.
  destruct (negb (b_image b) && nlo s); [inv; apply Inv_pop; exact I|].
  destruct (split_at_id (b_id b) (sibs s)) as [[[after_rev bi] before_rev]|] eqn:Es; [|discriminate].
  match type of H with (if ?c then _ else _) = _ => destruct c end; [inv; apply Inv_pop; exact I|].
  match type of H with bind ?r _ = _ => destruct r as [il|?|] end; cbn [bind] in H; try discriminate.
  destruct il as [[[p' cu] ct]|].
  - destruct (close_bracket_match _ _ _ _ _ _) as [s1|?|] eqn:Ec; cbn [bind] in H; try discriminate.
    inversion H; subst. eapply cbm_inv; [|exact Ec]. apply (Inv_frame s); [unfold frame; projs; auto | exact I].
  - match type of H with (match ?x with _ => _ end) = _ => destruct x as [[lab0 found0] p1] end.
    match type of H with bind ?r _ = _ => destruct r as [[lab fl]|?|] end; cbn [bind] in H; try discriminate.
    match type of H with bind ?r _ = _ => destruct r as [[s2 reff]|?|] eqn:Elk end; cbn [bind] in H; try discriminate.
    assert (frame s s2) as F by (eapply frame_trans; [apply frame_set_pos | exact (lk_frame _ _ _ _ _ Elk)]).
    assert (Inv s2) as I2 by (eapply Inv_frame; eauto).
    destruct reff as [[url title]|].
    + destruct (close_bracket_match _ _ _ _ _ _) as [s1|?|] eqn:Ec; cbn [bind] in H; try discriminate.
      inversion H; subst. eapply cbm_inv; eauto.
    + match type of H with (if ?c then _ else _) = _ => destruct c end.
      * (* footnote reference *)
        destruct (mk _ _ _ _) as [tmp|?|] eqn:Emk; cbn [bind] in H; try discriminate.
        apply mk_nval in Emk.
        destruct (end_col _) as [ecol|?|]; cbn [bind] in H; try discriminate.
        cbn [fresh_id] in H. inversion H; subst s' n. clear H.
        destruct F as [F1 [F2 [F3 F4]]].
        apply split_at_id_eq in Es. destruct Es as [Es _].
        apply Inv_pop. apply (Inv_weaken s _ I); projs.
        -- rewrite F2. apply I.
        -- rewrite F1. intros d Hd. unfold delims_below in Hd. apply filter_In in Hd. apply Hd.
        -- lia.
        -- rewrite ibad_app, ibad_cons, notext_ibad by (cbn [text_of nval]; rewrite Emk; reflexivity). cbn [app]. rewrite Es, ibad_app, (ibad_cons T bi).
           intros i Hi. apply in_app_or in Hi. destruct Hi as [Hi|Hi].
           ++ apply in_or_app. left. revert Hi. apply ibad_incl. intros it Hit. apply filter_In in Hit. apply Hit.
           ++ apply in_or_app. right. apply in_or_app. right. exact Hi.
        -- destruct I as [_ [_ I3]]. rewrite F4. intros it Hit. apply in_app_or in Hit.
           destruct Hit as [Hit|[<-|Hit]]; [|cbn; lia|].
           ++ apply filter_In in Hit. destruct Hit as [Hit _].
              assert (fst it < nid s) by (apply I3; rewrite Es; apply in_or_app; left; exact Hit). lia.
           ++ assert (fst it < nid s) by (apply I3; rewrite Es; apply in_or_app; right; right; exact Hit). lia.
      * clear Elk. inv. apply (Inv_frame (pop_bracket s2)); [unfold frame, pop_bracket; projs; auto | apply Inv_pop; exact I2].
Qed.

(* ------------------------------------------------------------------ autolink arms: the rewind over the last children *)
Lemma rewind_loop_bad : forall fuel reverse l l',
  rewind_loop fuel reverse l = Ok l' ->
  incl (ibad T l') (ibad T l) /\ (forall it, In it l' -> In (fst it) (map fst l)).
Proof.
  induction fuel as [|f IH]; intros reverse l l' H.
  - destruct reverse; [|discriminate]. inversion H; subst. split; [apply incl_refl|]. intros it Hi. apply in_map. exact Hi.
  - cbn [rewind_loop] in H. destruct reverse as [|k].
    { inversion H; subst. split; [apply incl_refl|]. intros it Hi. apply in_map. exact Hi. }
    destruct l as [|[id n] r]; [discriminate|].
    destruct (text_of n) as [prev|] eqn:Et; [|discriminate].
    destruct (Nat.ltb (S k) (List.length prev)).
    + destruct (nsub _ _ _) as [c|?|]; cbn [bind] in H; try discriminate. inversion H; subst l'. split.
      * rewrite ibad_cons, (ibad_cons T (id, n)). intros i Hi. apply in_app_or in Hi. destruct Hi as [Hi|Hi]; [|apply in_or_app; right; exact Hi].
        apply in_or_app. left. apply ibad_in in Hi. destruct Hi as [it [[<-|[]] [Hid Hb]]].
        apply ibad_in. exists (id, n). split; [left; reflexivity|]. split; [exact Hid|]. eapply isbad_prefix; eauto.
      * intros it [<-|Hi]; [left; reflexivity | right; apply in_map; exact Hi].
    + apply IH in H. destruct H as [H1 H2]. split.
      * rewrite (ibad_cons T (id, n)). intros i Hi. apply in_or_app. right. apply H1. exact Hi.
      * intros it Hi. right. apply H2. exact Hi.
Qed.

Lemma haw_inv o s m s1 n : Inv s -> handle_autolink_with o s m = Ok (Some (s1, n)) -> Inv s1.
Proof.
  intros I H. unfold handle_autolink_with in H.
  destruct (negb (io_relaxed_autolinks o) && within s); [discriminate|].
  destruct (m (pos s)) as [[[[[url text] nr] skip]|]|?|]; cbn [bind] in H; try discriminate.
  destruct (usub _ _ _) as [adv|?|]; cbn [bind] in H; try discriminate.
  projs. destruct (rewind_loop _ _ _) as [l'|?|] eqn:Er; cbn [bind] in H; try discriminate.
  inversion H; subst s1 n. clear H. apply rewind_loop_bad in Er. destruct Er as [R1 R2].
  apply (Inv_weaken s _ I); projs; try apply incl_refl; try lia; try apply I; [exact R1|].
  intros it Hi. apply R2 in Hi. apply in_map_iff in Hi. destruct Hi as [it0 [E Hi]]. rewrite <- E. apply I. exact Hi.
Qed.

(* ------------------------------------------------------------------ delimiter runs *)
Lemma slice_sub site a b t : slice inp site a b = Ok t -> forall x, In x t -> In x inp.
Proof.
  unfold slice. destruct (_ || _); [discriminate|]. intro H. inversion H; subst. intros x Hx.
  apply in_firstn, in_skipn in Hx. exact Hx.
Qed.

Lemma handle_delim_shape o s c s1 n d : T c = false ->
  handle_delim o u inp s c = Ok (s1, n, d) ->
  frame s s1 /\ (forall i, isbad T (i, n) = false) /\ (forall d', d = Some d' -> d_char d' = c /\ d_id d' = nid s).
Proof.
  intros Hc H. unfold handle_delim in H.
  destruct (scan_delims o u inp (pos s) c) as [[[p' nd] co] cc].
  destruct (usub _ _ _) as [a|?|]; cbn [bind] in H; try discriminate.
  match type of H with bind ?r _ = _ => destruct r as [contents|?|] eqn:Ect end; cbn [bind] in H; try discriminate.
  destruct (usub _ _ _) as [e|?|] in H; cbn [bind] in H; try discriminate.
  destruct (mk _ _ _ _) as [n0|?|] eqn:Emk; cbn [bind] in H; try discriminate.
  apply mk_nval in Emk.
  assert (forall i, isbad T (i, n0) = false) as Hb.
  { intro i. unfold isbad, text_of. cbn [snd]. rewrite Emk. destruct contents as [|x r]; [reflexivity|].
    repeat match type of Ect with (if ?b then _ else _) = _ => destruct b end;
      try (inversion Ect; subst; apply Hna; reflexivity);
      try (destruct cc; inversion Ect; subst; apply Hna; reflexivity).
    apply Hfree. eapply slice_sub; [exact Ect | left; reflexivity]. }
  match type of H with (if ?b then _ else _) = _ => destruct b end; inversion H; subst; (split; [unfold frame; projs; auto|]);
    (split; [exact Hb|]); intros d' Hd'; inversion Hd'; subst; projs; auto.
Qed.

(* ------------------------------------------------------------------ one step of the dispatcher *)
Lemma delim_cond_eq c w : T c = false ->
  (beqb c x2a || beqb c x5f || beqb c x27 || beqb c x22
   || (beqb c x7e && (io_strikethrough o1 || io_subscript o1))
   || (beqb c x5e && io_superscript o1 && negb w)
   || (beqb c x7c && io_spoiler o1))
  = (beqb c x2a || beqb c x5f || beqb c x27 || beqb c x22
   || (beqb c x7e && (io_strikethrough o2 || io_subscript o2))
   || (beqb c x5e && io_superscript o2 && negb w)
   || (beqb c x7c && io_spoiler o2)).
Proof.
  intro Hc.
  assert (beqb c x7e && (io_strikethrough o1 || io_subscript o1) = beqb c x7e && (io_strikethrough o2 || io_subscript o2)) as ->
    by (rewrite !(andb_comm (beqb c x7e)); apply tilde_guard_eq; exact Hc).
  assert (beqb c x5e && io_superscript o1 = beqb c x5e && io_superscript o2) as ->.
  { destruct A_sup as [-> | H]; [reflexivity|]. rewrite (T_neq c x5e Hc H). reflexivity. }
  assert (beqb c x7c && io_spoiler o1 = beqb c x7c && io_spoiler o2) as ->.
  { destruct A_spoiler as [-> | H]; [reflexivity|]. rewrite (T_neq c x7c Hc H). reflexivity. }
  reflexivity.
Qed.

Lemma beqb_T c t : T c = false -> beqb c t = true -> T t = false.
Proof. intros H E. apply beqb_eq in E. subst. exact H. Qed.

Lemma step_eq s : Inv s ->
  parse_inline memo o1 u inp lo start_line refmap maxref s = parse_inline memo o2 u inp lo start_line refmap maxref s.
Proof.
  intro I. unfold parse_inline.
  destruct (peek inp (pos s)) as [c|] eqn:Ec; [|reflexivity]. unfold peek in Ec.
  assert (T c = false) as Hc by (eapply nth_free; eauto).
  apply bind_ext. intros adj _.
  destruct (nth_error lo (N.to_nat adj)) as [off|]; [|reflexivity].
  set (s1 := set_lineoff s off).
  assert (Inv s1) as I1 by (apply (Inv_frame s); [unfold frame, s1; projs; auto | exact I]).
  clearbody s1.
  destruct (beqb c x00); [reflexivity|].
  destruct (beqb c x0d || beqb c x0a); [reflexivity|].
  destruct (beqb c x60); [reflexivity|].
  destruct (beqb c x5c). { rewrite handle_backslash_eq. reflexivity. }
  destruct (beqb c x26); [reflexivity|].
  destruct (beqb c x3c); [reflexivity|].
  destruct (beqb c x3a) eqn:E3a.
  { pose proof (beqb_T c x3a Hc E3a) as Ht.
    assert (io_autolink o1 = io_autolink o2) as Ea by (destruct A_autolink as [E|[H _]]; [exact E | congruence]).
    assert (io_relaxed_autolinks o1 = io_relaxed_autolinks o2) as Er by (destruct A_relaxed as [E|[H _]]; [exact E | congruence]).
    rewrite Ea. destruct (io_autolink o2); [|reflexivity].
    rewrite (haw_eq s1 _ (url_match o2 u inp) Er) by (intro i; apply url_match_eq; exact Er). reflexivity. }
  assert (beqb c x77 && io_autolink o1 = beqb c x77 && io_autolink o2) as ->.
  { destruct A_autolink as [-> | [_ H]]; [reflexivity|]. rewrite (T_neq c x77 Hc H). reflexivity. }
  destruct (beqb c x77 && io_autolink o2) eqn:Ew.
  { apply andb_true_iff in Ew. destruct Ew as [Ew _]. pose proof (beqb_T c x77 Hc Ew) as Ht.
    assert (io_relaxed_autolinks o1 = io_relaxed_autolinks o2) as Er by (destruct A_relaxed as [E|[_ H]]; [exact E | congruence]).
    rewrite (haw_eq s1 _ (www_match o2 u inp) Er) by (intro i; apply www_match_eq; exact Er). reflexivity. }
  rewrite (delim_cond_eq c (within s1) Hc).
  match goal with |- (if ?b then _ else _) = _ => destruct b end.
  { rewrite (handle_delim_eq s1 c Hc). reflexivity. }
  destruct (beqb c x2d) eqn:E2d.
  { pose proof (beqb_T c x2d Hc E2d) as Ht. rewrite handle_hyphen_eq; [reflexivity|].
    destruct A_smart as [E|[_ [_ [H _]]]]; [exact E | congruence]. }
  destruct (beqb c x2e) eqn:E2e.
  { pose proof (beqb_T c x2e Hc E2e) as Ht. rewrite handle_period_eq; [reflexivity|].
    destruct A_smart as [E|[_ [_ [_ H]]]]; [exact E | congruence]. }
  destruct (beqb c x5b) eqn:E5b.
  { pose proof (beqb_T c x5b Hc E5b) as Ht.
    assert (wikilinks_mode o1 = wikilinks_mode o2) as Ew'.
    { unfold wikilinks_mode. destruct A_wa as [-> | H]; [|congruence]. destruct A_wb as [-> | H]; [|congruence]. reflexivity. }
    cbv zeta. rewrite Ew'. rewrite (handle_wikilink_eq _ Ew'). reflexivity. }
  destruct (beqb c x5d).
  { rewrite hcb_eq; [reflexivity|]. apply (Inv_frame s1); [unfold frame; projs; auto | exact I1]. }
  destruct (beqb c x21); [reflexivity|].
  destruct (beqb c x24) eqn:E24.
  { pose proof (beqb_T c x24 Hc E24) as Ht. rewrite handle_dollars_eq; [reflexivity| |].
    - destruct A_md as [E|H]; [exact E | congruence].
    - destruct A_mc as [E|H]; [exact E | congruence]. }
  rewrite A_fsc. reflexivity.
Qed.

Lemma wikilink_frame o s s' n : handle_wikilink o inp s = Ok (Some (s', n)) -> frame s s'.
Proof. unfold handle_wikilink. intro H. inv; fr. Qed.

Lemma Inv_push_delim s n d' :
  Inv s -> (forall i, isbad T (i, n) = false) -> T (d_char d') = false -> d_id d' = nid s ->
  Inv (set_delims (fst (push_item s n)) (delims (fst (push_item s n)) ++ [d'])).
Proof.
  intros I Hb Hc Hid. pose proof (Inv_push s n I) as [J1 [J2 J3]]. destruct I as [I1 [I2 I3]].
  unfold Inv, push_item in *. projs. split; [exact J1|]. split; [|exact J3].
  intros d Hd. apply in_app_or in Hd. destruct Hd as [Hd|[<-|[]]]; [apply J2; exact Hd|].
  split; [|lia]. split; [exact Hc|]. rewrite Hid, ibad_cons. intro K. apply in_app_or in K. destruct K as [K|K].
  - unfold ibad in K. cbn [filter] in K. rewrite Hb in K. destruct K.
  - apply ibad_ids in K. apply in_map_iff in K. destruct K as [it [E Hi]]. specialize (I3 it Hi). lia.
Qed.

Lemma Inv_bracket s img id : Inv s -> T x5b = false -> Inv (set_within (push_bracket s img id) true).
Proof.
  intros I Ht. apply (Inv_weaken s _ I); unfold push_bracket; destruct img; projs;
    try apply incl_refl; try lia; try apply I; intro K; congruence.
Qed.

Lemma peek_eq_free p t : peek_eq inp p t = true -> T t = false.
Proof.
  unfold peek_eq, peek_is, peek. destruct (nth_error inp p) as [b|] eqn:E; [|discriminate].
  intro H. apply beqb_eq in H. subst. eapply nth_free; eauto.
Qed.

Lemma append_mk_inv sa v a b s' :
  append (do n <- mk sa v a b; Ok (sa, n)) = Ok (Some s') -> exists n, s' = fst (push_item sa n).
Proof.
  unfold append. destruct (mk sa v a b) as [n|?|]; cbn [bind]; intro H; try discriminate.
  inversion H. exists n. reflexivity.
Qed.

Ltac app_arm I1 lem :=
  match goal with
  | H : append ?r = Ok (Some _) |- _ =>
    let Eh := fresh "Eh" in
    unfold append in H; destruct r as [[? ?]|?|] eqn:Eh; cbn [bind] in H; [|discriminate H|discriminate H];
    inversion H; subst; eapply Inv_push_frame; [exact I1 | eapply lem; exact Eh]
  end.

Lemma step_inv o s s' : Inv s ->
  parse_inline memo o u inp lo start_line refmap maxref s = Ok (Some s') -> Inv s'.
Proof.
  intros I H. unfold parse_inline in H.
  destruct (peek inp (pos s)) as [c|] eqn:Ec; [|discriminate]. unfold peek in Ec.
  assert (T c = false) as Hc by (eapply nth_free; eauto).
  destruct (nsub _ _ _) as [adj|?|]; cbn [bind] in H; try discriminate.
  destruct (nth_error lo (N.to_nat adj)) as [off|]; [|discriminate].
  set (s1 := set_lineoff s off) in *.
  assert (Inv s1) as I1 by (apply (Inv_frame s); [unfold frame, s1; projs; auto | exact I]).
  clearbody s1.
  destruct (beqb c x00); [discriminate|].
  destruct (beqb c x0d || beqb c x0a); [app_arm I1 newline_frame|].
  destruct (beqb c x60); [app_arm I1 backticks_frame|].
  destruct (beqb c x5c); [app_arm I1 backslash_frame|].
  destruct (beqb c x26); [app_arm I1 entity_frame|].
  destruct (beqb c x3c); [app_arm I1 pointy_frame|].
  assert (forall b, text1 s1 b = Ok (Some s') -> Inv s') as Htext.
  { intros b Hb. unfold text1 in Hb. apply append_mk_inv in Hb. destruct Hb as [n ->].
    eapply Inv_push_frame; [exact I1 | apply frame_set_pos]. }
  destruct (beqb c x3a).
  { match type of H with bind ?r _ = _ => destruct r as [[[s2 n]|]|?|] eqn:Er end; cbn [bind] in H; try discriminate.
    - inversion H; subst. apply Inv_push. destruct (io_autolink o); [|discriminate]. eapply haw_inv; eauto.
    - eapply Htext; eauto. }
  destruct (beqb c x77 && io_autolink o).
  { match type of H with bind ?r _ = _ => destruct r as [[[s2 n]|]|?|] eqn:Er end; cbn [bind] in H; try discriminate.
    - inversion H; subst. apply Inv_push. eapply haw_inv; eauto.
    - eapply Htext; eauto. }
  match type of H with (if ?b then _ else _) = _ => destruct b end.
  { destruct (handle_delim o u inp s1 c) as [[[s2 n] d]|?|] eqn:Ed; cbn [bind] in H; try discriminate.
    apply (handle_delim_shape o s1 c s2 n d Hc) in Ed. destruct Ed as [F [Hb Hd]].
    assert (Inv s2) as I2 by (eapply Inv_frame; eauto).
    destruct (push_item s2 n) as [s3 i3] eqn:Ep. inversion H; subst s'. clear H.
    assert (s3 = fst (push_item s2 n)) as -> by (rewrite Ep; reflexivity).
    destruct d as [d'|]; [|apply Inv_push; exact I2].
    destruct (Hd d' eq_refl) as [Hch Hid]. apply Inv_push_delim; auto.
    - rewrite Hch. exact Hc.
    - destruct F as [_ [_ [_ F4]]]. rewrite Hid. symmetry. exact F4. }
  destruct (beqb c x2d); [app_arm I1 hyphen_frame|].
  destruct (beqb c x2e); [app_arm I1 period_frame|].
  destruct (beqb c x5b) eqn:E5b.
  { pose proof (beqb_T c x5b Hc E5b) as Ht. cbv zeta in H.
    match type of H with bind ?r _ = _ => destruct r as [[[s2 n]|]|?|] eqn:Er end; cbn [bind] in H; try discriminate.
    - inversion H; subst. match type of Er with (if ?b then _ else _) = _ => destruct b end; [|discriminate].
      apply wikilink_frame in Er. eapply Inv_push_frame; [exact I1|]. eapply frame_trans; [apply frame_set_pos | exact Er].
    - match type of H with bind ?r _ = _ => destruct r as [n|?|] end; cbn [bind] in H; try discriminate.
      destruct (push_item _ n) as [s3 i3] eqn:Ep. inversion H; subst s'. apply (Inv_bracket s3 false i3); [|exact Ht].
      assert (s3 = fst (push_item (set_pos s1 (S (pos s1))) n)) as -> by (rewrite Ep; reflexivity).
      eapply Inv_push_frame; [exact I1 | apply frame_set_pos]. }
  destruct (beqb c x5d).
  { destruct (handle_close_bracket _ _ _ _ _ _) as [[s2 n]|?|] eqn:Eh; cbn [bind] in H; try discriminate.
    apply hcb_inv in Eh; [|apply (Inv_frame s1); [unfold frame; projs; auto | exact I1]].
    inversion H; subst. destruct n; [apply Inv_push|]; exact Eh. }
  destruct (beqb c x21).
  { cbv zeta in H. destruct (peek_eq inp (S (pos s1)) x5b && negb (peek_eq inp (S (S (pos s1))) x5e)) eqn:Eb.
    - apply andb_true_iff in Eb. destruct Eb as [Eb _]. apply peek_eq_free in Eb.
      match type of H with bind ?r _ = _ => destruct r as [n|?|] end; cbn [bind] in H; try discriminate.
      destruct (push_item _ n) as [s3 i3] eqn:Ep. inversion H; subst s'. apply (Inv_bracket s3 true i3); [|exact Eb].
      assert (s3 = fst (push_item (set_pos s1 (S (S (pos s1)))) n)) as -> by (rewrite Ep; reflexivity).
      eapply Inv_push_frame; [exact I1 | apply frame_set_pos].
    - apply append_mk_inv in H. destruct H as [n ->]. eapply Inv_push_frame; [exact I1 | apply frame_set_pos]. }
  destruct (beqb c x24); [app_arm I1 dollars_frame|].
  cbv zeta in H.
  match type of H with bind ?r _ = _ => destruct r as [contents|?|] end; cbn [bind] in H; try discriminate.
  match type of H with bind ?r _ = _ => destruct r as [[c1 e1]|?|] end; cbn [bind] in H; try discriminate.
  match type of H with bind ?r _ = _ => destruct r as [[c2 sp2]|?|] end; cbn [bind] in H; try discriminate.
  match type of H with bind ?r _ = _ => destruct r as [e|?|] end; cbn [bind] in H; try discriminate.
  apply append_mk_inv in H. destruct H as [n ->]. eapply Inv_push_frame; [exact I1 | apply frame_set_pos].
Qed.

(* ------------------------------------------------------------------ the loop and the whole block *)
Lemma loop_eq : forall fuel s, Inv s ->
  inline_loop memo o1 u inp lo start_line refmap maxref fuel s = inline_loop memo o2 u inp lo start_line refmap maxref fuel s
  /\ forall s', inline_loop memo o2 u inp lo start_line refmap maxref fuel s = Ok s' -> Inv s'.
Proof.
  induction fuel as [|f IH]; intros s I; cbn [inline_loop]; [split; [reflexivity | discriminate]|].
  rewrite (step_eq s I).
  destruct (parse_inline memo o2 u inp lo start_line refmap maxref s) as [[s1|]|?|] eqn:E; cbn [bind].
  - apply IH. eapply step_inv; eauto.
  - split; [reflexivity|]. intros s' H. inversion H; subst. exact I.
  - split; [reflexivity | discriminate].
  - split; [reflexivity | discriminate].
Qed.

Lemma Inv_init r0 : Inv (init_st start_line r0).
Proof. unfold Inv, init_st. projs. split; [reflexivity|]. split; intros ? []. Qed.

Theorem parse_inlines_inert r0 :
  parse_inlines memo o1 u inp lo start_line refmap maxref r0 = parse_inlines memo o2 u inp lo start_line refmap maxref r0.
Proof.
  unfold parse_inlines.
  destruct (loop_eq (S (len inp)) (init_st start_line r0) (Inv_init r0)) as [E HI]. rewrite E.
  destruct (inline_loop memo o2 u inp lo start_line refmap maxref (S (len inp)) (init_st start_line r0)) as [s|?|]; cbn [bind]; [|reflexivity|reflexivity].
  specialize (HI s eq_refl). rewrite process_emphasis_eq; [reflexivity|].
  intros d Hd. apply (dgood_incl (sibs s)); [apply ibad_rev | apply (Inv_dinv s HI d Hd)].
Qed.

End Inert.

(* ------------------------------------------------------------------ the hypotheses as one record *)
Record iagree (T : byte -> bool) (o1 o2 : iopts) (inp : bytes) : Prop := mkIAgree {
  ia_nonascii : forall b, is_ascii b = false -> T b = false;
  ia_autolink : io_autolink o1 = io_autolink o2 \/ (T x3a = true /\ T x77 = true);
  ia_relaxed : io_relaxed_autolinks o1 = io_relaxed_autolinks o2 \/ (T x3a = true /\ T x77 = true);
  ia_strike : io_strikethrough o1 = io_strikethrough o2 \/ T x7e = true;
  ia_sub : io_subscript o1 = io_subscript o2 \/ T x7e = true;
  ia_sup : io_superscript o1 = io_superscript o2 \/ T x5e = true;
  ia_under : io_underline o1 = io_underline o2 \/ T x5f = true;
  ia_spoiler : io_spoiler o1 = io_spoiler o2 \/ T x7c = true;
  ia_md : io_math_dollars o1 = io_math_dollars o2 \/ T x24 = true;
  ia_mc : io_math_code o1 = io_math_code o2 \/ T x24 = true;
  ia_wa : io_wikilinks_after o1 = io_wikilinks_after o2 \/ T x5b = true;
  ia_wb : io_wikilinks_before o1 = io_wikilinks_before o2 \/ T x5b = true;
  ia_fn : io_footnotes o1 = io_footnotes o2 \/ T x5b = true;
  ia_smart : io_smart o1 = io_smart o2 \/ (T x27 = true /\ T x22 = true /\ T x2d = true /\ T x2e = true);
  ia_ecs : io_escaped_char_spans o1 = io_escaped_char_spans o2;
  ia_iel : io_ignore_empty_links o1 = io_ignore_empty_links o2;
  ia_fsc : forall wb p, find_special_char (io_fn o1) wb inp p = find_special_char (io_fn o2) wb inp p;
  ia_skip : forall b, T b = false -> skip_chars (io_fn o1) b = skip_chars (io_fn o2) b }.

Definition tfree (T : byte -> bool) (inp : bytes) : Prop := forall b, In b inp -> T b = false.

Lemma parse_inlines_inert_rec memo T o1 o2 u inp lo sl refmap maxref r0 :
  tfree T inp -> iagree T o1 o2 inp ->
  parse_inlines memo o1 u inp lo sl refmap maxref r0 = parse_inlines memo o2 u inp lo sl refmap maxref r0.
Proof. intros Hf []. apply (parse_inlines_inert memo T); assumption. Qed.

Lemma step_eq_rec memo T o1 o2 u inp lo sl refmap maxref s :
  tfree T inp -> iagree T o1 o2 inp -> Inv T s ->
  parse_inline memo o1 u inp lo sl refmap maxref s = parse_inline memo o2 u inp lo sl refmap maxref s.
Proof. intros Hf []. apply (step_eq memo T); assumption. Qed.

Lemma step_inv_rec memo T o u inp lo sl refmap maxref s s' :
  tfree T inp -> (forall b, is_ascii b = false -> T b = false) -> Inv T s ->
  parse_inline memo o u inp lo sl refmap maxref s = Ok (Some s') -> Inv T s'.
Proof. intros Hf Hn. apply (step_inv memo T); assumption. Qed.

Lemma loop_eq_rec memo T o1 o2 u inp lo sl refmap maxref fuel s :
  tfree T inp -> iagree T o1 o2 inp -> Inv T s ->
  inline_loop memo o1 u inp lo sl refmap maxref fuel s = inline_loop memo o2 u inp lo sl refmap maxref fuel s.
Proof. intros Hf [] I. apply (loop_eq memo T); assumption. Qed.

Lemma process_emphasis_inert_rec T o1 o2 inp s n0 items ds bottom :
  iagree T o1 o2 inp -> (forall d, In d ds -> dgood T items d) ->
  process_emphasis o1 inp s n0 items ds bottom = process_emphasis o2 inp s n0 items ds bottom.
Proof. intros [] G. apply (process_emphasis_eq T); assumption. Qed.
