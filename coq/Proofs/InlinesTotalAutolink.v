(* Proofs/InlinesTotalAutolink.v — progress of the two autolink arms of parse_inline (`:` with url_match, `w` with
   www_match): when handle_autolink_with answers Some, `pos` has moved forward by at least one byte.

   The length of the link is what autolink_delim leaves of it.  autolink_delim walks backwards from the end and
   strips trailing punctuation, entity-like tails and unbalanced closing brackets; it never strips past a byte
   that is none of those (`hard`): the `/` after the colon of a URL, the first `w` of `www.`. *)
From Coq Require Import List NArith ZArith Bool Strings.String Lia.
From V Require Import Base.Bytes Base.Res Gen.StrLeafGen Gen.Consts Gen.Special Model.Special
     Model.Scan Model.Strings Model.Entity Model.LinkUrl Model.AutolinkLeaf Model.Spx Model.Ast Model.Inlines
     Proofs.InlinesProofs.
Import ListNotations.
Local Open Scope list_scope.

(* a byte the backward walk of autolink_delim stops at *)
Definition hard (c : byte) : bool :=
  negb (sl_link_end_assortment c) && negb (beqb c x3b) && negb (beqb c x29) && negb (beqb c x5d)
  && negb (beqb c x7d) && negb (beqb c x26).

(* strip_alpha_keep_last leaves a suffix that still holds the hard byte (when that byte is a letter it must be the
   last one, which is never stripped) *)
Lemma strip_alpha_suffix : forall pre c suf,
  (sl_isalpha c = false \/ suf = []) ->
  exists pre', strip_alpha_keep_last (pre ++ c :: suf) = pre' ++ c :: suf /\ List.length pre' <= List.length pre.
Proof.
  induction pre as [|x pre IH]; intros c suf Hc.
  - exists []. split; [|simpl; lia]. cbn [app]. destruct suf as [|y suf]; [reflexivity|].
    cbn [strip_alpha_keep_last]. destruct Hc as [Hc|Hc]; [rewrite Hc; reflexivity|discriminate].
  - cbn [app]. cbn [strip_alpha_keep_last].
    destruct (pre ++ c :: suf) as [|y l] eqn:E; [destruct pre; discriminate|].
    destruct (sl_isalpha x).
    + rewrite <- E. destruct (IH c suf Hc) as [pre' [H1 H2]]. exists pre'. split; [exact H1|simpl; lia].
    + exists (x :: pre). rewrite <- E. split; [reflexivity|lia].
Qed.

Lemma delim_loop_hard : forall fuel relaxed rp r,
  delim_loop fuel relaxed rp = Ok r ->
  forall pre c suf, rp = pre ++ c :: suf -> hard c = true -> (sl_isalpha c = false \/ suf = []) ->
  S (List.length suf) <= r.
Proof.
  induction fuel as [|f IH]; intros relaxed rp r H pre c suf Hrp Hh Hc; [discriminate|].
  cbn [delim_loop] in H.
  destruct rp as [|cclose rest]; [destruct pre; discriminate|].
  pose proof Hh as Hhard.
  unfold hard in Hh. repeat (apply andb_prop in Hh; destruct Hh as [Hh ?]).
  destruct pre as [|x pre].
  - (* the byte at the end is the hard one: the walk stops here *)
    cbn [app] in Hrp. inversion Hrp; subst cclose rest. clear Hrp.
    destruct (sl_link_end_assortment c); [discriminate|].
    destruct (beqb c x3b); [discriminate|].
    destruct (beqb c x29); [discriminate|].
    destruct (beqb c x5d); [discriminate|].
    destruct (beqb c x7d); [discriminate|].
    destruct relaxed; inversion H; cbn [List.length]; lia.
  - cbn [app] in Hrp. inversion Hrp; subst cclose rest. clear Hrp.
    destruct (sl_link_end_assortment x).
    { eapply IH; [exact H|reflexivity|exact Hhard|exact Hc]. }
    destruct (beqb x x3b).
    { destruct (pre ++ c :: suf) as [|y l] eqn:E; [discriminate|]. rewrite <- E in H.
      destruct (strip_alpha_suffix pre c suf Hc) as [pre' [Hs Hl]]. rewrite Hs in H.
      destruct pre' as [|z pre'].
      - cbn [app] in H.
        assert (beqb c x26 = false) as Hamp by (destruct (beqb c x26); [discriminate|reflexivity]).
        rewrite Hamp, andb_false_r in H.
        eapply IH; [exact H|reflexivity|exact Hhard|exact Hc].
      - cbn [app] in H.
        destruct (Nat.ltb _ _ && beqb z x26).
        + eapply IH; [exact H|reflexivity|exact Hhard|exact Hc].
        + eapply IH; [exact H|reflexivity|exact Hhard|exact Hc]. }
    match type of H with match ?co with _ => _ end = _ => destruct co end.
    + match type of H with (if ?b then _ else _) = _ => destruct b end.
      * inversion H. cbn [List.length]. rewrite app_length. cbn [List.length]. lia.
      * eapply IH; [exact H|reflexivity|exact Hhard|exact Hc].
    + inversion H. cbn [List.length]. rewrite app_length. cbn [List.length]. lia.
Qed.

(* autolink_delim keeps at least k + 1 bytes when the byte at index k is hard, lies inside the link and no `<`
   comes before it *)
Lemma firstn_split_at {A} (l : list A) : forall k c, nth_error l k = Some c ->
  forall n, k < n -> exists suf, firstn n l = firstn k l ++ c :: suf.
Proof.
  induction l as [|x l IH]; intros [|k] c E n Hn; simpl in E; try discriminate.
  - inversion E; subst. destruct n; [lia|]. simpl. eauto.
  - destruct n; [lia|]. destruct (IH k c E n) as [suf Hs]; [lia|]. exists suf. simpl. rewrite Hs. reflexivity.
Qed.

Lemma nth_error_firstn_lt' {A} (l : list A) : forall n j, j < n -> nth_error (firstn n l) j = nth_error l j.
Proof.
  induction l as [|x l IH]; intros [|n] [|j] H; simpl; try lia; auto. apply IH. lia.
Qed.

Lemma count_while_b_firstn f (l : bytes) : forall k, (forall j, j <= k -> match nth_error l j with Some c => f c = true | None => True end) ->
  k < List.length l -> k < count_while_b f l.
Proof.
  induction l as [|x l IH]; intros k H Hl; simpl in Hl; [lia|].
  simpl. pose proof (H 0 (Nat.le_0_l k)) as H0. simpl in H0. rewrite H0.
  destruct k; [lia|]. apply -> Nat.succ_lt_mono. apply IH; [|lia].
  intros j Hj. apply (H (S j)). lia.
Qed.

Lemma autolink_delim_hard data link_end relaxed r k c :
  autolink_delim data link_end relaxed = Ok r ->
  nth_error data k = Some c -> hard c = true -> (sl_isalpha c = false \/ k = 0) ->
  k < link_end ->
  (forall j, j <= k -> match nth_error data j with Some x => beqb x x3c = false | None => True end) ->
  k < r.
Proof.
  intros H Ek Hh Hc Hk Hlt. unfold autolink_delim in H.
  assert (k < List.length data) as Hkl by (apply nth_error_Some; congruence).
  set (pre := firstn link_end data) in *.
  set (cut := count_while_b (fun b => negb (beqb b x3c)) pre) in *.
  assert (k < List.length pre) as Hkp by (unfold pre; rewrite firstn_length; lia).
  assert (k < cut) as Hcut.
  { unfold cut. apply count_while_b_firstn; [|exact Hkp].
    intros j Hj. unfold pre. specialize (Hlt j Hj).
    destruct (nth_error (firstn link_end data) j) as [x|] eqn:E; [|exact I].
    assert (nth_error data j = Some x) as E2.
    { rewrite <- E. symmetry. apply nth_error_firstn_lt'. lia. }
    rewrite E2 in Hlt. rewrite Hlt. reflexivity. }
  set (le1 := if Nat.ltb cut (List.length pre) then cut else link_end) in *.
  assert (k < le1) as Hle1 by (unfold le1; destruct (Nat.ltb cut (List.length pre)); lia).
  destruct (Nat.ltb (List.length data) le1) eqn:Elen.
  - destruct le1; [lia|discriminate].
  - destruct (firstn_split_at data k c Ek le1 Hle1) as [suf Hs].
    rewrite Hs in H. rewrite rev_app_distr in H. cbn [rev] in H. rewrite <- app_assoc in H. cbn [app] in H.
    eapply delim_loop_hard in H; [|reflexivity|exact Hh|].
    + rewrite rev_length, firstn_length in H. lia.
    + destruct Hc as [Hc|Hc]; [left; exact Hc|right; subst k; reflexivity].
Qed.

(* ------------------------------------------------------------------ ext_loop, check_domain *)
Lemma ext_loop_ge o rest : forall prev le le1, ext_loop o rest prev le = Some le1 -> le <= le1.
Proof.
  induction rest as [|c r IH]; intros prev le le1 H; simpl in H; [inversion H; lia|].
  destruct (sl_isspace c); [inversion H; lia|].
  destruct (_ && _ && _); [discriminate|]. apply IH in H. lia.
Qed.

Lemma ext_loop_step o c r prev le le1 :
  ext_loop o (c :: r) prev le = Some le1 -> sl_isspace c = false -> S le <= le1.
Proof.
  intros H Hs. simpl in H. rewrite Hs in H.
  destruct (_ && _ && _); [discriminate|]. apply ext_loop_ge in H. exact H.
Qed.

Lemma ext_loop_step2 o c1 c2 r prev le le1 :
  ext_loop o (c1 :: c2 :: r) prev le = Some le1 -> sl_isspace c1 = false -> sl_isspace c2 = false -> S (S le) <= le1.
Proof.
  intros H H1 H2. cbn [ext_loop] in H. rewrite H1, H2 in H.
  destruct (_ && _ && _); [discriminate|].
  destruct (_ && _ && _); [discriminate|]. apply ext_loop_ge in H. exact H.
Qed.

Lemma cd_loop_ge hc len a s : forall skip i np u1 u2 r,
  cd_loop hc len a s skip i np u1 u2 = Ok (CdReturn (Some r)) -> i <= r.
Proof.
  induction s as [|b s IH]; intros skip i np u1 u2 r H; simpl in H; [discriminate|].
  destruct skip as [|k]; [|apply IH in H; lia].
  repeat match type of H with
         | (if ?c then _ else _) = _ => destruct c
         | Panic _ = _ => discriminate H
         | Ok (CdReturn None) = _ => discriminate H
         | Ok (CdReturn (if ?c then _ else _)) = _ => destruct c
         | Ok (CdReturn (Some _)) = _ => inversion H; lia
         | cd_loop _ _ _ _ _ _ _ _ _ = _ => apply IH in H; lia
         end.
Qed.

Lemma check_domain_www hc rr le0 :
  check_domain hc ([x77; x77; x77; x2e] ++ rr) false = Ok (Some le0) -> 1 <= le0.
Proof.
  unfold check_domain. intro H.
  destruct (cd_loop hc _ false _ 0 0 0 0 0) as [[r0|np u1 u2]| |] eqn:Ec; cbn [bind] in H; try discriminate.
  - inversion H; subst. clear H. cbn [app cd_loop] in Ec.
    change (beqb x77 x5c) with false in Ec. change (beqb x77 x5f) with false in Ec. change (beqb x77 x2e) with false in Ec.
    cbv iota in Ec.
    change (is_valid_hostchar hc (x77 :: firstn (char_width x77 - 1) ([x77; x77; x2e] ++ rr))) with true in Ec.
    cbn [negb andb] in Ec. cbv iota in Ec.
    apply cd_loop_ge in Ec. lia.
  - repeat match type of H with (if ?b then _ else _) = _ => destruct b end; inversion H; subst; cbn [app List.length]; lia.
Qed.

Lemma skipn_nth2 {A} (l : list A) p c : nth_error l p = Some c -> skipn p l = c :: skipn (S p) l.
Proof.
  revert p. induction l as [|x l IH]; intros [|p] E; simpl in *; try discriminate.
  - inversion E; reflexivity.
  - apply IH. exact E.
Qed.

Section Auto.
Variable o : iopts.
Variable u : oracle.
Variable inp : bytes.

Lemma peek_eq_nth p c : peek_eq inp p c = true -> nth_error inp p = Some c.
Proof.
  unfold peek_eq, peek_is, peek. destruct (nth_error inp p) as [x|]; [|discriminate].
  intro H. apply beqb_eq in H. congruence.
Qed.

Lemma nth_skipn_0 i j : nth_error (skipn i inp) j = nth_error inp (i + j).
Proof.
  revert i. induction inp as [|x l IH]; intros [|i]; simpl; auto. destruct j; reflexivity.
Qed.

(* the URL arm: the link keeps at least the colon and the first slash *)
Lemma url_match_advances i url text reverse skip :
  nth_error inp i = Some x3a ->
  url_match o u inp i = Ok (Some (url, text, reverse, skip)) -> reverse + 2 <= skip.
Proof.
  intros Ei H. unfold url_match in H.
  destruct (Nat.ltb (len inp - i) 4 || negb (peek_eq inp (i + 1) x2f) || negb (peek_eq inp (i + 2) x2f)) eqn:E0; [discriminate|].
  apply orb_false_iff in E0. destruct E0 as [E0 E2]. apply orb_false_iff in E0. destruct E0 as [_ E1].
  apply negb_false_iff in E1. apply peek_eq_nth in E1.
  match type of H with (if ?b then _ else _) = _ => destruct b; [discriminate|] end.
  inv1. destruct a as [le0|]; [|discriminate].
  destruct (ext_loop o (skipn (i + le0) inp) _ le0) as [le1|] eqn:Ee; [|discriminate].
  inv1. inversion H; subst. clear H.
  assert (2 <= le1) as Hle1.
  { destruct le0 as [|[|le0]].
    - rewrite Nat.add_0_r in Ee. rewrite (skipn_nth2 inp i x3a Ei) in Ee.
      replace (S i) with (i + 1) in Ee by lia. rewrite (skipn_nth2 inp (i + 1) x2f E1) in Ee.
      apply ext_loop_step2 in Ee; [lia|reflexivity|reflexivity].
    - rewrite (skipn_nth2 inp (i + 1) x2f E1) in Ee.
      apply ext_loop_step in Ee; [lia|reflexivity].
    - apply ext_loop_ge in Ee. lia. }
  match goal with Ea : autolink_delim _ _ _ = Ok ?r |- _ =>
    enough (1 < r) by lia;
    eapply (autolink_delim_hard _ _ _ _ 1 x2f) in Ea; [exact Ea| |reflexivity|left; reflexivity|lia|] end.
  - rewrite nth_skipn_0. exact E1.
  - intros j Hj. rewrite nth_skipn_0. destruct j as [|[|j]]; [| |lia].
    + rewrite Nat.add_0_r, Ei. reflexivity.
    + rewrite E1. reflexivity.
Qed.

(* the www arm: the link keeps at least the first w *)
Lemma www_match_advances i url text reverse skip :
  www_match o u inp i = Ok (Some (url, text, reverse, skip)) -> reverse + 1 <= skip.
Proof.
  intro H. unfold www_match in H.
  match type of H with (if ?b then _ else _) = _ => destruct b; [discriminate|] end.
  destruct (starts_with (skipn i inp) [x77; x77; x77; x2e]) eqn:Es; [|discriminate]. cbn [negb] in H. cbv iota in H.
  apply starts_with_app in Es. destruct Es as [rr Hr].
  inv1. destruct a as [le0|]; [|discriminate].
  inv1.
  match type of H with match ?e with _ => _ end = _ => destruct e as [le1|] eqn:Ee; [|discriminate] end.
  inv1. inversion H; subst. clear H.
  assert (1 <= le0) as Hle0.
  { match goal with Ec : check_domain _ _ _ = Ok _ |- _ => rewrite Hr in Ec; apply check_domain_www in Ec; exact Ec end. }
  apply ext_loop_ge in Ee.
  match goal with Ea : autolink_delim _ _ _ = Ok ?r |- _ =>
    enough (0 < r) by lia;
    eapply (autolink_delim_hard _ _ _ _ 0 x77) in Ea; [exact Ea| |reflexivity|right; reflexivity|lia|] end.
  - rewrite Hr. reflexivity.
  - intros j Hj. assert (j = 0) as -> by lia. rewrite Hr. reflexivity.
Qed.

Lemma adv_autolink_url s s' n :
  nth_error inp (pos s) = Some x3a ->
  handle_autolink_with o s (url_match o u inp) = Ok (Some (s', n)) -> pos s < pos s'.
Proof.
  intros Ec H. unfold handle_autolink_with in H.
  destruct (_ && _); [discriminate|]. inv1.
  destruct a as [[[[url text] rv] sk]|]; [|discriminate].
  apply url_match_advances in E; [|exact Ec].
  unfold usub in H. destruct (Nat.ltb sk rv) eqn:El; cbn [bind] in H; [discriminate|].
  inv. cbn [pos set_pos set_sibs]. lia.
Qed.

Lemma adv_autolink_www s s' n :
  handle_autolink_with o s (www_match o u inp) = Ok (Some (s', n)) -> pos s < pos s'.
Proof.
  intro H. unfold handle_autolink_with in H.
  destruct (_ && _); [discriminate|]. inv1.
  destruct a as [[[[url text] rv] sk]|]; [|discriminate].
  apply www_match_advances in E.
  unfold usub in H. destruct (Nat.ltb sk rv) eqn:El; cbn [bind] in H; [discriminate|].
  inv. cbn [pos set_pos set_sibs]. lia.
Qed.

End Auto.
