(* Proofs/ParserShapeBlocksRead.v — the invariant of Proofs/ParserShapeBlocks.v read on the public tree
   `to_node (br_root r)`: s2, s4, s7, the list of values the block phase creates, and s6 without footnotes. *)
From Coq Require Import List NArith Arith Bool Lia Strings.String.
From V Require Import Base.Bytes Base.Res Gen.Nodes Model.Ast Model.Blocks Spec.Shape Spec.HtmlSpec Spec.Valid
  Proofs.BlocksProofs Proofs.ParserShapeBlocks.
Import ListNotations.
Local Open Scope list_scope.

Lemma ball_s4 o : forall t, ball o t = true -> s4 (to_node t) = true.
Proof.
  induction t as [i ch IH] using bnode_ind2. intro V. apply ball_node in V. destruct V as [Vi Vk].
  cbn [to_node s4]. apply andb_true_iff. split.
  - destruct (bi_val i); try reflexivity. exact Vi.
  - rewrite forallb_map_c. apply forallb_forall. intros c Hc. rewrite Forall_forall in IH. apply IH; [exact Hc|].
    rewrite forallb_forall in Vk. now apply Vk.
Qed.

Lemma ball_s7 o : forall t, ball o t = true -> s7 (to_node t) = true.
Proof.
  induction t as [i ch IH] using bnode_ind2. intro V. apply ball_node in V. destruct V as [Vi Vk].
  cbn [to_node s7]. apply andb_true_iff. split.
  - destruct (bi_val i); try reflexivity; discriminate Vi.
  - rewrite forallb_map_c. apply forallb_forall. intros c Hc. rewrite Forall_forall in IH. apply IH; [exact Hc|].
    rewrite forallb_forall in Vk. now apply Vk.
Qed.

(* the values of a block-phase tree, as a predicate on the public tree *)
Fixpoint nall (P : node_value -> bool) (n : node) : bool :=
  match n with Node v _ ch => P v && forallb (nall P) ch end.

Lemma ball_nall o : forall t, ball o t = true -> nall (bvok o) (to_node t) = true.
Proof.
  induction t as [i ch IH] using bnode_ind2. intro V. apply ball_node in V. destruct V as [Vi Vk].
  cbn [to_node nall]. apply andb_true_iff. split; [exact Vi|].
  rewrite forallb_map_c. apply forallb_forall. intros c Hc. rewrite Forall_forall in IH. apply IH; [exact Hc|].
  rewrite forallb_forall in Vk. now apply Vk.
Qed.

Theorem parse_blocks_s2 o x r : parse_blocks o x = Ok r -> s2 (to_node (br_root r)) = true.
Proof. intro H. destruct (parse_blocks_NI _ _ _ H) as [D _]. unfold s2. rewrite to_node_val, D. reflexivity. Qed.

Theorem parse_blocks_s4 o x r : parse_blocks o x = Ok r -> s4 (to_node (br_root r)) = true.
Proof. intro H. destruct (parse_blocks_NI _ _ _ H) as [_ V]. eapply ball_s4; exact V. Qed.

Theorem parse_blocks_s7 o x r : parse_blocks o x = Ok r -> s7 (to_node (br_root r)) = true.
Proof. intro H. destruct (parse_blocks_NI _ _ _ H) as [_ V]. eapply ball_s7; exact V. Qed.

Theorem parse_blocks_values o x r : parse_blocks o x = Ok r -> nall (bvok o) (to_node (br_root r)) = true.
Proof. intro H. destruct (parse_blocks_NI _ _ _ H) as [_ V]. eapply ball_nall; exact V. Qed.

(* without the footnotes extension the block tree holds no footnote definition: s6 *)
Lemma nall_nofn o : bo_footnotes o = false -> forall n, nall (bvok o) n = true -> nofn n = true.
Proof.
  intro F. induction n as [v sp ch IH] using node_ind2. intro V. cbn [nall] in V. apply andb_true_iff in V.
  destruct V as [Vv Vk]. cbn [nofn]. apply andb_true_iff. split.
  - destruct v; try reflexivity. cbn in Vv. congruence.
  - apply forallb_forall. intros c Hc. rewrite Forall_forall in IH. apply IH; [exact Hc|].
    rewrite forallb_forall in Vk. now apply Vk.
Qed.

Lemma nofn_s6_list : forall l, forallb nofn l = true -> s6_list l = true.
Proof.
  induction l as [|x r IH]; intro H; [reflexivity|]. apply forallb_cons in H. destruct H as [Hx Hr].
  cbn [s6_list]. assert (E : is_fndef (nval x) = false).
  { destruct x as [v sp ch]. cbn [nofn] in Hx. apply andb_true_iff in Hx. destruct Hx as [Hv _]. cbn [nval]. now apply negb_true_iff. }
  rewrite E, Hx. cbn [andb]. now apply IH.
Qed.

Theorem parse_blocks_s6_no_footnotes o x r :
  bo_footnotes o = false -> parse_blocks o x = Ok r -> s6 (to_node (br_root r)) = true.
Proof.
  intros F H. pose proof (nall_nofn o F _ (parse_blocks_values _ _ _ H)) as N.
  destruct (to_node (br_root r)) as [v sp ch]. cbn [nofn] in N. apply andb_true_iff in N. destruct N as [Nv Nc].
  unfold s6. cbn [nval nch]. rewrite Nv. cbn. now apply nofn_s6_list.
Qed.
