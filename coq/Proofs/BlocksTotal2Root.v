(* Proofs/BlocksTotal2Root.v — totality of the block phase, step 1 (tree side): the identifier of the root.

     R0 o st  :=  bid (ps_root st) = root_id          (the option set is a dummy argument)

   carried through every step of parse_blocks in the style of Proofs/ParserShapeBlocks.v (the proofs below the
   primitives are the same walks: every statement that returned Ok keeps the root where it is, because upd and
   edit_kids never replace the root by another node and every function applied to a node keeps its identifier). *)
From Coq Require Import List NArith Arith Bool Lia Strings.String.
From V Require Import Base.Bytes Base.Res Gen.Nodes Model.Ast Model.Strings Model.Feed Model.FrontMatter Model.RefDef
  Model.Scan Model.Blocks Proofs.BlocksProofs Proofs.BlocksCursor.
Import ListNotations.
Local Open Scope string_scope.
Local Open Scope list_scope.

Definition R0 (o : bopts) (st : pstate) : Prop := bid (ps_root st) = root_id.

Lemma R0_st_next o st n : R0 o st -> R0 o (st_next st n). Proof. exact (fun H => H). Qed.
Lemma R0_st_current o st n : R0 o st -> R0 o (st_current st n). Proof. exact (fun H => H). Qed.
Lemma R0_st_refmap o st m : R0 o st -> R0 o (st_refmap st m). Proof. exact (fun H => H). Qed.
Lemma R0_st_line_number o st n : R0 o st -> R0 o (st_line_number st n). Proof. exact (fun H => H). Qed.
Lemma R0_st_cur o st c : R0 o st -> R0 o (st_cur st c). Proof. exact (fun H => H). Qed.
Lemma R0_st_curline o st a b : R0 o st -> R0 o (st_curline st a b). Proof. exact (fun H => H). Qed.
Lemma R0_st_last_line_length o st n : R0 o st -> R0 o (st_last_line_length st n). Proof. exact (fun H => H). Qed.

Lemma upd_root_bid id f t t' :
  upd id f t = Some t' -> (forall n, find_node id t = Some n -> bid (f n) = bid n) -> bid t' = bid t.
Proof.
  destruct t as [i ch]. cbn [upd find_node]. intros U Hf.
  destruct (Nat.eqb (bi_id i) id). { inversion U; subst. now apply Hf. }
  match type of U with match ?g with _ => _ end = _ => destruct g as [ch'|]; [|discriminate] end.
  inversion U; subst. reflexivity.
Qed.

Lemma edit_kids_root_bid id g t t' : edit_kids id g t = Some t' -> bid t' = bid t.
Proof.
  destruct t as [i ch]. cbn [edit_kids]. intro U.
  destruct (split_kid id ch) as [[[pre c] post]|]. { inversion U; subst. reflexivity. }
  match type of U with match ?gg with _ => _ end = _ => destruct gg as [ch'|]; [|discriminate] end.
  inversion U; subst. reflexivity.
Qed.

Lemma modify_R0 o st id f st' :
  R0 o st -> modify st id f = Ok st' -> (forall n, find_node id (ps_root st) = Some n -> bid (f n) = bid n) -> R0 o st'.
Proof.
  unfold modify, R0. intros V M Hf. destruct (upd id f (ps_root st)) as [r|] eqn:U; [|discriminate].
  inversion M; subst. cbn [ps_root st_root]. rewrite (upd_root_bid _ _ _ _ U Hf). exact V.
Qed.

Lemma modify_info_R0 o st id f st' :
  R0 o st -> modify_info st id f = Ok st' ->
  (forall n, find_node id (ps_root st) = Some n -> bi_id (f (binf n)) = bi_id (binf n)) -> R0 o st'.
Proof.
  intros V M Hf. eapply modify_R0; [exact V | exact M |]. intros n Fn. specialize (Hf n Fn). destruct n as [i ch]. exact Hf.
Qed.

Lemma modify_info_set_R0 o st id f st' :
  modify_info st id f = Ok st' -> (forall i, bi_id (f i) = bi_id i) -> R0 o st -> R0 o st'.
Proof. intros M Hf V. eapply modify_info_R0; [exact V | exact M | intros; apply Hf]. Qed.

Lemma bdetach_R0 o st id st' : bdetach st id = Ok st' -> R0 o st -> R0 o st'.
Proof.
  unfold bdetach, R0. intros D V.
  destruct (edit_kids id (fun _ pre _ post => pre ++ post) (ps_root st)) as [r|] eqn:E.
  - inversion D; subst. cbn [ps_root st_root]. now rewrite (edit_kids_root_bid _ _ _ _ E).
  - now inversion D; subst.
Qed.

Lemma append_child_R0 o st pid c st' : append_child st pid c = Ok st' -> R0 o st -> R0 o st'.
Proof. intros A V. eapply modify_R0; [exact V | exact A |]. intros [i ch] _. reflexivity. Qed.

Lemma edit_root_R0 o st id g r : edit_kids id g (ps_root st) = Some r -> R0 o st -> R0 o (st_root st r).
Proof. unfold R0. intros E V. cbn [ps_root st_root]. now rewrite (edit_kids_root_bid _ _ _ _ E). Qed.

Lemma retighten_R0 o st p st' : retighten st p = Ok st' -> R0 o st -> R0 o st'.
Proof.
  unfold retighten. intros H V. destruct p as [item|]; [|inversion H; subst; exact V].
  destruct (parent_of item (ps_root st)) as [lid|]; [|inversion H; subst; exact V].
  destruct (get st lid) as [l| |] eqn:G; cbn [bind] in H; try discriminate H.
  destruct (bi_open (binf l)); [inversion H; subst; exact V|].
  destruct (bval l) eqn:Bv; try (inversion H; subst; exact V).
  eapply modify_info_set_R0; [exact H | intro; reflexivity | exact V].
Qed.

Lemma finalize_R0 o st id p st' : finalize o st id = Ok (p, st') -> R0 o st -> R0 o st'.
Proof.
  intros F V. unfold finalize in F.
  mstep F. apply get_find in E.
  mstep F; [discriminate F|].
  mstep F. clear E1.
  destruct (bi_val (binf a)) eqn:Ev; mon F;
  repeat first [ apply R0_st_refmap
               | (eapply retighten_R0; [eassumption|])
               | (eapply bdetach_R0; [eassumption|])
               | (eapply modify_info_R0; [exact V | eassumption |
                    intros n Fn; rewrite E in Fn; inversion Fn; subst; reflexivity]) ].
Qed.

Lemma unwrap_parent_fin_R0 site o st id p st' :
  unwrap_parent site (finalize o st id) = Ok (p, st') -> R0 o st -> R0 o st'.
Proof.
  unfold unwrap_parent. intros H V.
  destruct (finalize o st id) as [[op s1]| |] eqn:E; cbn [bind fst snd] in H; try discriminate H.
  destruct op; inversion H; subst. eapply finalize_R0; eassumption.
Qed.

Lemma add_child_loop_R0 o k : forall fuel st parent p' st',
  add_child_loop fuel o st parent k = Ok (p', st') -> R0 o st -> R0 o st'.
Proof.
  induction fuel as [|f IH]; intros st parent p' st' H V; [discriminate|].
  cbn [add_child_loop] in H.
  destruct (get st parent) as [pn| |] eqn:G; cbn [bind] in H; try discriminate H.
  destruct (can_contain (bkind pn) k) eqn:C.
  - inversion H; subst. exact V.
  - match type of H with bind ?r _ = _ => destruct r as [[q s1]| |] eqn:U; cbn [bind fst snd] in H; try discriminate H end.
    eapply IH; [exact H|]. eapply unwrap_parent_fin_R0; eassumption.
Qed.

Lemma add_child_gen_R0 o st parent v col post kids id st' :
  add_child_gen o st parent v col post kids = Ok (id, st') -> R0 o st -> R0 o st'.
Proof.
  unfold add_child_gen. intros H V.
  match type of H with bind ?r _ = _ => destruct r as [[p' s1]| |] eqn:E; cbn [bind] in H; try discriminate H end.
  pose proof (add_child_loop_R0 _ _ _ _ _ _ _ E V) as V1.
  mon H. eapply append_child_R0; [eassumption | apply R0_st_next; exact V1].
Qed.

Lemma add_child_R0 o st parent v col id st' : add_child o st parent v col = Ok (id, st') -> R0 o st -> R0 o st'.
Proof. unfold add_child. intros H V. eapply add_child_gen_R0; eassumption. Qed.

Lemma adv_R0 o st line n b st' : adv st line n b = Ok st' -> R0 o st -> R0 o st'.
Proof. unfold adv. intros H V. mon H. exact V. Qed.
Lemma ffn_R0 o st line st' : ffn st line = Ok st' -> R0 o st -> R0 o st'.
Proof. unfold ffn. intros H V. mon H. exact V. Qed.

Create HintDb r0.
#[export] Hint Resolve adv_R0 ffn_R0 unwrap_parent_fin_R0 finalize_R0 bdetach_R0
  R0_st_next R0_st_current R0_st_refmap R0_st_line_number R0_st_cur R0_st_curline R0_st_last_line_length
  modify_info_set_R0 : r0.
#[export] Hint Extern 1 (forall i : binfo, bi_id _ = bi_id i) =>
  (intro; repeat match goal with |- context [if ?b then _ else _] => destruct b end; reflexivity) : r0.
#[export] Hint Resolve add_child_R0 add_child_gen_R0 : r0.

Ltac r0go H := mon H; monall; repeat match goal with p : (_ * _)%type |- _ => destruct p end; cbn [fst snd] in *; eauto 20 with r0.

Lemma skip_one_space_R0 o st line site st' : skip_one_space st line site = Ok st' -> R0 o st -> R0 o st'.
Proof. unfold skip_one_space. intros H V. r0go H. Qed.
#[export] Hint Resolve skip_one_space_R0 : r0.

Lemma parse_block_quote_prefix_R0 o st line b st' : parse_block_quote_prefix o st line = Ok (b, st') -> R0 o st -> R0 o st'.
Proof. unfold parse_block_quote_prefix. intros H V. r0go H. Qed.
#[export] Hint Resolve parse_block_quote_prefix_R0 : r0.

Lemma parse_footnote_prefix_R0 o st line b st' : parse_footnote_definition_block_prefix st line = Ok (b, st') -> R0 o st -> R0 o st'.
Proof. unfold parse_footnote_definition_block_prefix. intros H V. r0go H. Qed.
#[export] Hint Resolve parse_footnote_prefix_R0 : r0.

Lemma parse_item_prefix_R0 o st line c mo pad b st' : parse_item_prefix st line c mo pad = Ok (b, st') -> R0 o st -> R0 o st'.
Proof. unfold parse_item_prefix. intros H V. r0go H. Qed.
#[export] Hint Resolve parse_item_prefix_R0 : r0.

Lemma skip_fence_offset_R0 o line site : forall i st st', skip_fence_offset i st line site = Ok st' -> R0 o st -> R0 o st'.
Proof. induction i as [|j IH]; intros st st' H V; cbn [skip_fence_offset] in H; r0go H. Qed.
#[export] Hint Resolve skip_fence_offset_R0 : r0.

Lemma parse_code_block_prefix_R0 o st line c cb a b st' :
  parse_code_block_prefix o st line c cb = Ok (a, b, st') -> R0 o st -> R0 o st'.
Proof. unfold parse_code_block_prefix. intros H V. r0go H. Qed.
#[export] Hint Resolve parse_code_block_prefix_R0 : r0.

Lemma parse_mbq_prefix_R0 o st line c fl fo a b st' :
  parse_multiline_block_quote_prefix o st line c fl fo = Ok (a, b, st') -> R0 o st -> R0 o st'.
Proof. unfold parse_multiline_block_quote_prefix. intros H V. r0go H. Qed.
#[export] Hint Resolve parse_mbq_prefix_R0 : r0.

Lemma check_container_R0 o st line c a b st' : check_container o st line c = Ok (a, b, st') -> R0 o st -> R0 o st'.
Proof. unfold check_container. intros H V. destruct (bval c); r0go H. Qed.
#[export] Hint Resolve check_container_R0 : r0.

Lemma check_open_blocks_inner_R0 o line : forall fuel st container a c b st',
  check_open_blocks_inner fuel o st line container = Ok (a, c, b, st') -> R0 o st -> R0 o st'.
Proof. induction fuel as [|f IH]; intros st container a c b st' H V; cbn [check_open_blocks_inner] in H; r0go H. Qed.
#[export] Hint Resolve check_open_blocks_inner_R0 : r0.

Lemma check_open_blocks_R0 o st line r st' : check_open_blocks o st line = Ok (r, st') -> R0 o st -> R0 o st'.
Proof. unfold check_open_blocks. intros H V. r0go H. Qed.
#[export] Hint Resolve check_open_blocks_R0 : r0.

(* ---- tables (only reached with the table extension) *)
Lemma try_inserting_R0 o st c po st' : try_inserting_table_header_paragraph st c po = Ok st' -> R0 o st -> R0 o st'.
Proof.
  unfold try_inserting_table_header_paragraph. intros H V. mon H; monall; eauto with r0.
  eapply edit_root_R0; [eassumption | eauto 10 with r0].
Qed.
#[export] Hint Resolve try_inserting_R0 : r0.



Lemma try_opening_header_R0 o st c line r st' :
  try_opening_header o st c line = Ok (r, st') -> R0 o st -> R0 o st'.
Proof.
  unfold try_opening_header. intros H V. mon H; monall; eauto 10 with r0;
  (eapply edit_root_R0; [eassumption | eauto 10 with r0]).
Qed.





Lemma try_opening_row_R0 o st c t line r st' :
  try_opening_row o st c t line = Ok (r, st') -> R0 o st -> R0 o st'.
Proof.
  unfold try_opening_row. intros H V.
  mon H; monall; eauto 10 with r0.
  match goal with M : modify _ _ _ = Ok ?s |- _ => assert (R0 o s) end.
  { eapply modify_R0; [apply R0_st_next; exact V | eassumption |]. intros [i ch] _. reflexivity. }
  eauto 10 with r0.
Qed.

Lemma try_opening_block_R0 o st c line r st' :
  try_opening_block o st c line = Ok (r, st') -> R0 o st -> R0 o st'.
Proof.
  unfold try_opening_block. intros H V.
  destruct (get st c) as [cn| |] eqn:G; cbn [bind] in H; try discriminate H.
  destruct (bval cn) eqn:Bv; try (inversion H; subst; exact V).
  - eapply try_opening_header_R0; eassumption.
  - eapply try_opening_row_R0; eassumption.
Qed.

Lemma reopen_R0 o : forall fuel st id st', reopen_ast_nodes fuel st id = Ok st' -> R0 o st -> R0 o st'.
Proof. induction fuel as [|f IH]; intros st id st' H V; cbn [reopen_ast_nodes] in H; r0go H. Qed.
#[export] Hint Resolve reopen_R0 : r0.



Lemma parse_desc_list_details_R0 o st c m b c' st' :
  parse_desc_list_details o st c m = Ok (b, c', st') -> R0 o st -> R0 o st'.
Proof. unfold parse_desc_list_details. intros H V. r0go H. Qed.
#[export] Hint Resolve parse_desc_list_details_R0 : r0.

(* ---- the handlers *)
Lemma handle_alert_R0 o st c line ind b c' st' : handle_alert o st c line ind = Ok (b, c', st') -> R0 o st -> R0 o st'.
Proof. unfold handle_alert. intros H V. r0go H. Qed.
Lemma handle_mbq_R0 o st c line ind b c' st' : handle_multiline_blockquote o st c line ind = Ok (b, c', st') -> R0 o st -> R0 o st'.
Proof. unfold handle_multiline_blockquote, rest_at_fns. intros H V. r0go H. Qed.
Lemma handle_blockquote_R0 o st c line ind b c' st' : handle_blockquote o st c line ind = Ok (b, c', st') -> R0 o st -> R0 o st'.
Proof. unfold handle_blockquote. intros H V. r0go H. Qed.

(* ATX: the level is the number of hashes the scanner accepted *)
Lemma handle_atx_R0 o st c line ind b c' st' : handle_atx_heading o st c line ind = Ok (b, c', st') -> R0 o st -> R0 o st'.
Proof. unfold handle_atx_heading, rest_at_fns. intros H V. r0go H. Qed.

Lemma handle_code_fence_R0 o st c line ind b c' st' : handle_code_fence o st c line ind = Ok (b, c', st') -> R0 o st -> R0 o st'.
Proof. unfold handle_code_fence, rest_at_fns. intros H V. r0go H. Qed.
Lemma handle_html_block_R0 o st c line ind b c' st' : handle_html_block o st c line ind = Ok (b, c', st') -> R0 o st -> R0 o st'.
Proof. unfold handle_html_block, rest_at_fns. intros H V. r0go H. Qed.
Lemma handle_thematic_break_R0 o st c line ind am b c' st' : handle_thematic_break o st c line ind am = Ok (b, c', st') -> R0 o st -> R0 o st'.
Proof. unfold handle_thematic_break. intros H V. r0go H. Qed.

Lemma handle_footnote_R0 o st c line ind d b c' st' : handle_footnote o st c line ind d = Ok (b, c', st') -> R0 o st -> R0 o st'.
Proof. unfold handle_footnote, rest_at_fns. intros H V. r0go H. Qed.

Lemma handle_description_list_R0 o st c line ind b c' st' : handle_description_list o st c line ind = Ok (b, c', st') -> R0 o st -> R0 o st'.
Proof. unfold handle_description_list, rest_at_fns. intros H V. r0go H. Qed.
Lemma list_spaces_loop_R0 o line sc : forall fuel st st', list_spaces_loop fuel st line sc = Ok st' -> R0 o st -> R0 o st'.
Proof. induction fuel as [|f IH]; intros st st' H V; cbn [list_spaces_loop] in H; r0go H. Qed.
#[export] Hint Resolve list_spaces_loop_R0 : r0.
Lemma handle_list_R0 o st c line ind d b c' st' : handle_list o st c line ind d = Ok (b, c', st') -> R0 o st -> R0 o st'.
Proof. unfold handle_list. intros H V. r0go H. Qed.
Lemma handle_code_block_R0 o st c line ind ml b c' st' : handle_code_block o st c line ind ml = Ok (b, c', st') -> R0 o st -> R0 o st'.
Proof. unfold handle_code_block. intros H V. r0go H. Qed.

(* setext: a Paragraph becomes a Heading of level 1 or 2 *)
Lemma handle_setext_R0 o st c line ind b c' st' : handle_setext_heading o st c line ind = Ok (b, c', st') -> R0 o st -> R0 o st'.
Proof. unfold handle_setext_heading, rest_at_fns. intros H V. r0go H. Qed.
#[export] Hint Resolve handle_alert_R0 handle_mbq_R0 handle_blockquote_R0 handle_atx_R0 handle_code_fence_R0
  handle_html_block_R0 handle_setext_R0 handle_thematic_break_R0 handle_footnote_R0
  handle_description_list_R0 handle_list_R0 handle_code_block_R0 : r0.

Lemma or_else_h_R0 o (r : hres) k b c st st' :
  or_else_h r k = Ok (b, c, st') -> R0 o st ->
  (forall b1 c1 s1, r = Ok (b1, c1, s1) -> R0 o st -> R0 o s1) ->
  (forall c1 s1 b2 c2 s2, k c1 s1 = Ok (b2, c2, s2) -> R0 o s1 -> R0 o s2) ->
  R0 o st'.
Proof.
  unfold or_else_h. intros H V Hr Hk.
  destruct r as [[[b1 c1] s1]| |]; cbn [bind] in H; try discriminate H.
  destruct b1.
  - inversion H; subst. eapply Hr; [reflexivity | exact V].
  - eapply Hk; [exact H|]. eapply Hr; [reflexivity | exact V].
Qed.

Ltac chain_r0 :=
  match goal with
  | R : or_else_h _ _ = Ok _ |- R0 _ _ =>
    eapply (or_else_h_R0 _ _ _ _ _ _ _ R); clear R;
    [ eassumption | intros ? ? ? ? ?; eauto with r0 | intros ? ? ? ? ? R ?; cbv beta in R; chain_r0 ]
  | |- R0 _ _ => eauto with r0
  end.

Lemma open_new_blocks_step_R0 o st c line am ml d g c' st' :
  open_new_blocks_step o st c line am ml d = Ok (g, c', st') -> R0 o st -> R0 o st'.
Proof.
  unfold open_new_blocks_step. intros H V.
  destruct (ffn st line) as [s0| |] eqn:F0; cbn [bind] in H; try discriminate H.
  assert (V0 : R0 o s0) by eauto with r0.
  match type of H with bind ?r _ = _ => destruct r as [[[hd c1] s1]| |] eqn:R; cbn [bind] in H; try discriminate H end.
  assert (V1 : R0 o s1) by chain_r0.
  clear R.
  destruct hd.
  - r0go H.
  - destruct (negb (Nat.leb code_indent (indent s0)) && bo_table o) eqn:ET.
    + match type of H with bind (bind ?r _) _ = _ => destruct r as [[tr s2]| |] eqn:TB; cbn [bind] in H; try discriminate H end.
      pose proof (try_opening_block_R0 _ _ _ _ _ _ TB V1) as V2.
      r0go H.
    + r0go H.
Qed.
#[export] Hint Resolve open_new_blocks_step_R0 : r0.

Lemma open_new_blocks_loop_R0 o line am : forall fuel st c ml d c' st',
  open_new_blocks_loop fuel o st c line am ml d = Ok (c', st') -> R0 o st -> R0 o st'.
Proof. induction fuel as [|f IH]; intros st c ml d c' st' H V; cbn [open_new_blocks_loop] in H; r0go H. Qed.
#[export] Hint Resolve open_new_blocks_loop_R0 : r0.

Lemma open_new_blocks_R0 o st c line am c' st' : open_new_blocks o st c line am = Ok (c', st') -> R0 o st -> R0 o st'.
Proof. unfold open_new_blocks. intros H V. r0go H. Qed.
#[export] Hint Resolve open_new_blocks_R0 : r0.

Lemma clear_llb_up_R0 o : forall fuel st id st', clear_llb_up fuel st id = Ok st' -> R0 o st -> R0 o st'.
Proof. induction fuel as [|f IH]; intros st id st' H V; cbn [clear_llb_up] in H; r0go H. Qed.
#[export] Hint Resolve clear_llb_up_R0 : r0.

Lemma finalize_up_to_R0 o target site : forall fuel st st', finalize_up_to fuel o st target site = Ok st' -> R0 o st -> R0 o st'.
Proof. induction fuel as [|f IH]; intros st st' H V; cbn [finalize_up_to] in H; r0go H. Qed.
#[export] Hint Resolve finalize_up_to_R0 : r0.

Lemma add_line_R0 o st id line st' : add_line st id line = Ok st' -> R0 o st -> R0 o st'.
Proof.
  unfold add_line. intros H V.
  destruct (get st id) as [n| |] eqn:G; cbn [bind] in H; try discriminate H.
  mon H; monall; apply R0_st_cur;
  (eapply modify_info_R0; [exact V | eassumption |];
   intros nn Fn; rewrite (get_find _ _ _ G) in Fn; inversion Fn; subst; reflexivity).
Qed.
#[export] Hint Resolve add_line_R0 : r0.

Lemma add_text_to_container_R0 o st c lm line st' :
  add_text_to_container o st c lm line = Ok st' -> R0 o st -> R0 o st'.
Proof. unfold add_text_to_container. intros H V. r0go H. Qed.
#[export] Hint Resolve add_text_to_container_R0 : r0.

Lemma process_line_R0 o st line st' : process_line o st line = Ok st' -> R0 o st -> R0 o st'.
Proof. unfold process_line. intros H V. r0go H. Qed.
#[export] Hint Resolve process_line_R0 : r0.

Lemma process_lines_R0 o : forall ls st st', process_lines o st ls = Ok st' -> R0 o st -> R0 o st'.
Proof. induction ls as [|l r IH]; intros st st' H V; cbn [process_lines] in H; r0go H. Qed.
#[export] Hint Resolve process_lines_R0 : r0.

Lemma finalize_document_R0 o st st' : finalize_document o st = Ok st' -> R0 o st -> R0 o st'.
Proof. unfold finalize_document. intros H V. r0go H. Qed.
#[export] Hint Resolve finalize_document_R0 : r0.

Lemma run_lines_R0 o st ls st' : run_lines o st ls = Ok st' -> R0 o st -> R0 o st'.
Proof. unfold run_lines. intros H V. r0go H. Qed.
#[export] Hint Resolve run_lines_R0 : r0.

Lemma front_matter_prologue_R0 o st s st' rest : front_matter_prologue o st s = Ok (st', rest) -> R0 o st -> R0 o st'.
Proof. unfold front_matter_prologue. intros H V. r0go H. Qed.
#[export] Hint Resolve front_matter_prologue_R0 : r0.

Lemma R0_init o : R0 o init_state.
Proof. reflexivity. Qed.
