(* Proofs/ParseCellsRow.v — C04, the premise of Parse_valid_partial2, part 1: table.rs::row.

     re_bytes p r           every byte class of the expression r lies inside the byte predicate p (executable)
     matches_bytes          a string an expression with re_bytes p matches consists of bytes of p
     table_cell_bytes       scanners::table_cell, both spoiler settings: the prefix it returns holds neither CR nor LF
     unescape_pipes_In / trim_slice_In    these two only remove bytes
     row_cells_no_nl        every cell `row` returns is free of CR and LF (all inputs, both spoiler settings)

   NO Model file is changed. *)
From Coq Require Import List NArith Arith Bool Lia Strings.String.
From V Require Import Base.Bytes Base.Res Base.Regex Base.Re2c Gen.ScannersRe Model.Ast Model.Strings Model.Scan Model.AutolinkLeaf
  Model.Blocks Spec.ParseValidSpec Proofs.RegexProofs Proofs.ScanProofs Proofs.StrLeafProofs Proofs.BlocksProofs.
Import ListNotations.
Local Open Scope string_scope.
Local Open Scope list_scope.

(* ================================================================== expressions over a byte class *)
Fixpoint re_bytes (p : byte -> bool) (r : re) : bool :=
  match r with
  | Empty | Eps => true
  | Chr cs => forallb (fun b => implb (cs_mem cs b) (p b)) all_bytes
  | Cat a b | Alt a b => re_bytes p a && re_bytes p b
  | Star a => re_bytes p a
  end.

Lemma matches_bytes p r s : matches r s -> re_bytes p r = true -> forallb p s = true.
Proof.
  induction 1; cbn [re_bytes]; intro R; try reflexivity.
  - cbn [forallb]. rewrite andb_true_r. exact (forall_bytes_impl _ _ R b H).
  - apply andb_true_iff in R as [R1 R2]. rewrite forallb_app, IHmatches1, IHmatches2 by assumption. reflexivity.
  - apply andb_true_iff in R as [R1 R2]. auto.
  - apply andb_true_iff in R as [R1 R2]. auto.
  - rewrite forallb_app, IHmatches1, IHmatches2 by assumption. reflexivity.
Qed.

Definition not_nl (b : byte) : bool := negb (beqb b x0a) && negb (beqb b x0d).

Lemma no_nl_is s : no_nl s = forallb not_nl s.
Proof. reflexivity. Qed.

Lemma table_cell_re_bytes : re_bytes not_nl re_table_cell = true /\ re_bytes not_nl re_table_cell_spoiler = true.
Proof. split; vm_compute; reflexivity. Qed.

(* scanners::table_cell(s, spoiler) = Some n: the n bytes matched hold neither CR nor LF *)
Lemma table_cell_bytes s spoiler n : scan_table_cell s spoiler = Some n -> no_nl (firstn n s) = true.
Proof.
  unfold scan_table_cell. destruct table_cell_re_bytes as [R0 R1].
  destruct spoiler.
  - unfold rules_table_cell_spoiler, default_table_cell_spoiler, pad_table_cell_spoiler.
    match goal with |- context [run_rules ?rs _ _ _] => destruct (run_rules_plain rs ActNone s eq_refl)
      as [[E _] | (r & a & L & Hin & Hl & E & _)] end; rewrite E; unfold as_opt_usize; cbn [o_act o_cursor]; [discriminate|].
    destruct Hin as [Hin | []]. inversion Hin; subst r a. intro H. inversion H; subst L.
    apply longest_match_spec in Hl. destruct Hl as (_ & Hm & _). exact (matches_bytes _ _ _ Hm R1).
  - unfold rules_table_cell, default_table_cell, pad_table_cell.
    match goal with |- context [run_rules ?rs _ _ _] => destruct (run_rules_plain rs ActNone s eq_refl)
      as [[E _] | (r & a & L & Hin & Hl & E & _)] end; rewrite E; unfold as_opt_usize; cbn [o_act o_cursor]; [discriminate|].
    destruct Hin as [Hin | []]. inversion Hin; subst r a. intro H. inversion H; subst L.
    apply longest_match_spec in Hl. destruct Hl as (_ & Hm & _). exact (matches_bytes _ _ _ Hm R0).
Qed.

Lemma table_cell_or0_bytes s spoiler : no_nl (firstn (or0 (scan_table_cell s spoiler)) s) = true.
Proof.
  destruct (scan_table_cell s spoiler) as [n|] eqn:E; cbn [or0]; [exact (table_cell_bytes _ _ _ E) | reflexivity].
Qed.

(* ================================================================== unescape_pipes and trim only remove bytes *)
Lemma forallb_sub {A} (p : A -> bool) (l l' : list A) :
  (forall x, In x l' -> In x l) -> forallb p l = true -> forallb p l' = true.
Proof. intros S H. apply forallb_forall. intros x Hx. rewrite forallb_forall in H. apply H, S, Hx. Qed.

Lemma unescape_pipes_In : forall s x, In x (unescape_pipes s) -> In x s.
Proof.
  fix IH 1. intros s x H. destruct s as [|c r]; cbn [unescape_pipes] in H; [exact H|].
  destruct (beqb c x5c && match r with d :: _ => beqb d x7c | [] => false end).
  - right. apply IH, H.
  - destruct H as [H|H]; [left; exact H | right; apply IH, H].
Qed.

Lemma drop_while_sub (f : byte -> bool) : forall l x, In x (drop_while f l) -> In x l.
Proof.
  induction l as [|y r IH]; intros x H; cbn [drop_while] in H; [exact H|].
  destruct (f y); [right; now apply IH | exact H].
Qed.

Lemma trim_slice_In s x : In x (trim_slice s) -> In x s.
Proof.
  unfold trim_slice, rtrim_slice, ltrim_slice. intro H.
  apply in_rev in H. apply drop_while_sub in H. apply in_rev in H. exact (drop_while_sub _ _ _ H).
Qed.

Lemma no_nl_cell s c : no_nl s = true -> Strings.trim (unescape_pipes s) = Ok c -> no_nl c = true.
Proof.
  intros H T. rewrite trim_ok in T. inversion T; subst c. rewrite no_nl_is in *.
  eapply forallb_sub; [|exact H]. intros x Hx. apply unescape_pipes_In, trim_slice_In, Hx.
Qed.

(* ================================================================== row *)
Lemma from_utf8_eq site b c : from_utf8 site b = Ok c -> c = b.
Proof. unfold from_utf8. match goal with |- context [if ?c then _ else _] => destruct c end; intro H; inversion H; reflexivity. Qed.

Definition cells_no_nl (cells : list tcell) : Prop := Forall (fun c => no_nl (ce_content c) = true) cells.

Lemma row_loop_no_nl spoiler s : forall fuel off po cells off' po' cells' ab,
  row_loop fuel s spoiler off po cells = Ok (off', po', cells', ab) -> cells_no_nl cells -> cells_no_nl cells'.
Proof.
  induction fuel as [|f IH]; intros off po cells off' po' cells' ab H C; cbn [row_loop] in H; [discriminate|].
  destruct (negb (Nat.ltb off (List.length s))); [inversion H; subst; exact C|].
  pose proof (table_cell_or0_bytes (skipn off s) spoiler) as Hb.
  set (cm := or0 (scan_table_cell (skipn off s) spoiler)) in *.
  destruct (slice_from "table.rs:row:string[offset + cell_matched..]" s (off + cm)) as [rest| |]; cbn [bind] in H; try discriminate H.
  set (pm := or0 (scan_table_cell_end rest)) in *.
  match type of H with bind ?e _ = _ => destruct e as [[cells1 abort]| |] eqn:R; cbn [bind] in H; try discriminate H end.
  assert (C1 : cells_no_nl cells1).
  { destruct (Nat.ltb 0 cm || Nat.ltb 0 pm); [|inversion R; subst; exact C].
    destruct (Nat.ltb (List.length s) (off + cm)); cbn [bind] in R; [discriminate R|].
    destruct (Strings.trim (unescape_pipes (firstn cm (skipn off s)))) as [c1| |] eqn:T; cbn [bind] in R; try discriminate R.
    pose proof (no_nl_cell _ _ Hb T) as N1.
    mon R; try exact C.
    match goal with U : from_utf8 _ _ = Ok _ |- _ => apply from_utf8_eq in U; subst end.
    apply Forall_app. split; [exact C|]. constructor; [|constructor]. cbn [ce_content]. exact N1. }
  destruct abort; [inversion H; subst; exact C1|].
  destruct (Nat.ltb 0 pm); [eapply IH; eassumption|].
  mon H; try exact C1.
  eapply IH; [eassumption | constructor].
Qed.

(* every cell `row` returns is free of CR and LF *)
Theorem row_cells_no_nl s spoiler po cells :
  row s spoiler = Ok (Some (po, cells)) -> Forall (fun c => no_nl (ce_content c) = true) cells.
Proof.
  unfold row. intro H.
  match type of H with bind ?e _ = _ => destruct e as [[[[off po1] cells1] ab]| |] eqn:R; cbn [bind] in H; try discriminate H end.
  apply row_loop_no_nl in R; [|constructor].
  destruct (negb (Nat.eqb off (List.length s)) || negb (is_cons cells1) || ab); inversion H; subst. exact R.
Qed.
