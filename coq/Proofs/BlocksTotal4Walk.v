(* Proofs/BlocksTotal4Walk.v — totality of the block phase, fourth round, step 2 (cursor), part 3: the walk of the
   cursor invariant through check_open_blocks (every prefix parser); vocabulary in Proofs/BlocksTotal4Frame.v. *)
From Coq Require Import List NArith Arith Bool Lia Strings.String.
From V Require Import Base.Bytes Base.Res Gen.Nodes Gen.BlocksConst Model.Ast Model.Strings Model.Entity Model.LinkUrl Model.ListMarker
  Model.Feed Model.FrontMatter Model.RefDef Model.Scan Model.Blocks Spec.EscapeSpec
  Proofs.StrLeafProofs Proofs.StrLeafEntity Proofs.BlocksProofs Proofs.BlocksCursor Proofs.BlocksTotal
  Proofs.BlocksTotal2Safe Proofs.BlocksTotal3Cur Proofs.BlocksTotal4Safe Proofs.BlocksTotal4Cur Proofs.BlocksTotal4Frame.
Import ListNotations.
Local Open Scope string_scope.
Local Open Scope list_scope.


(* ================================================================== the invariants *)
Definition C0 (line : bytes) (st : pstate) : Prop :=
  CI (ps_cur st) line /\ ps_curline_len st = List.length line.
Definition C1 (line : bytes) (st : pstate) : Prop :=
  C0 line st /\ c_offset (ps_cur st) < List.length line.
Definition F0 (line : bytes) (st : pstate) : Prop :=
  fresh_fns (ps_cur st) line /\ c_offset (ps_cur st) <= c_fns (ps_cur st) <= List.length line
  /\ c_indent (ps_cur st) = c_fnsc (ps_cur st) - c_column (ps_cur st)
  /\ (c_blank (ps_cur st) = true -> c_fns (ps_cur st) < List.length line)
  /\ ps_curline_len st = List.length line.
Definition F1 (line : bytes) (st : pstate) : Prop := F0 line st /\ c_offset (ps_cur st) < List.length line.

Lemma F0_C0 line st : F0 line st -> C0 line st.
Proof. intros (A & B & _ & _ & E). split; [split; [lia | now right] | exact E]. Qed.
Lemma F1_C1 line st : F1 line st -> C1 line st.
Proof. intros [A B]. split; [now apply F0_C0 | exact B]. Qed.

Lemma C0_KC line st st' : KC (ps_cur st) (ps_curline_len st) st' -> C0 line st -> C0 line st'.
Proof. intros [A B] [C D]. split; congruence. Qed.
Lemma C1_KC line st st' : KC (ps_cur st) (ps_curline_len st) st' -> C1 line st -> C1 line st'.
Proof. intros K [C D]. split; [eapply C0_KC; eassumption | destruct K as [-> _]; exact D]. Qed.
Lemma F0_KC line st st' : KC (ps_cur st) (ps_curline_len st) st' -> F0 line st -> F0 line st'.
Proof. intros [A B] F. unfold F0 in *. rewrite A, B. exact F. Qed.
Lemma F1_KC line st st' : KC (ps_cur st) (ps_curline_len st) st' -> F1 line st -> F1 line st'.
Proof. intros K [C D]. split; [eapply F0_KC; eassumption | destruct K as [-> _]; exact D]. Qed.

(* what a fresh cursor inside an LF-terminated line gives *)
Lemma F1_in line st : lf_terminated line -> F1 line st ->
  c_offset (ps_cur st) <= c_fns (ps_cur st) /\ c_fns (ps_cur st) < List.length line /\
  exists b, nth_error line (c_fns (ps_cur st)) = Some b /\ is_space_or_tab b = false.
Proof.
  intros L [(Fr & _) Lt]. destruct (fresh_in _ _ L Fr Lt) as [[A B] C]. auto.
Qed.

(* ---- find_first_nonspace *)
Lemma ffn_blank c line c' : find_first_nonspace c line = Ok c' -> c_blank c' = true -> c_fns c' < List.length line.
Proof.
  unfold find_first_nonspace. intros H B.
  destruct (if Nat.leb (c_fns c) (c_offset c) then _ else _) as [f fc].
  destruct (sub _ fc (c_column c)); cbn [bind] in H; try discriminate H. inversion H; subst. cbn in B |- *.
  destruct (nth_error line f) eqn:N; [|discriminate B]. apply nth_error_Some. congruence.
Qed.

Lemma ffn_cur line st : C0 line st ->
  sgc (fun s1 => F0 line s1 /\ c_offset (ps_cur s1) = c_offset (ps_cur st) /\ c_tbkp (ps_cur s1) = c_tbkp (ps_cur st)
                 /\ ps_root s1 = ps_root st /\ ps_next s1 = ps_next st /\ ps_current s1 = ps_current st
                 /\ ps_line_number s1 = ps_line_number st /\ ps_refmap s1 = ps_refmap st)
      (ffn st line).
Proof.
  intros [Ci Len]. unfold ffn. destruct (ffn_total _ _ Ci) as (c' & E & Fr & Ci' & Eo & Ec & Ep & B & Ind).
  rewrite E. cbn [bind sg]. unfold F0. cbn [ps_cur st_cur ps_curline_len ps_root ps_next ps_current ps_line_number ps_refmap].
  split; [|repeat split; try assumption].
  - split; [exact Fr|]. split; [exact B|]. split; [exact Ind|]. split; [eapply ffn_blank; exact E | exact Len].
  - unfold find_first_nonspace in E. destruct (if Nat.leb _ _ then _ else _) as [f fc].
    destruct (sub _ fc (c_column (ps_cur st))); cbn [bind] in E; try discriminate E. inversion E; subst. reflexivity.
Qed.

(* ---- advance_offset on the state *)
Lemma adv_bytes_cur line st k : c_offset (ps_cur st) + k <= List.length line ->
  sgc (fun s1 => c_offset (ps_cur s1) = c_offset (ps_cur st) + k /\ c_fns (ps_cur s1) = c_fns (ps_cur st)
                 /\ c_tbkp (ps_cur s1) = c_tbkp (ps_cur st)
                 /\ ps_curline_len s1 = ps_curline_len st /\ adv st line k false = Ok s1)
      (adv st line k false).
Proof.
  intro H. unfold adv. destruct (adv_bytes_exact _ _ _ H) as (c' & E & A & B & _ & _ & _ & T). rewrite E. cbn [bind sg].
  cbn [ps_cur st_cur ps_curline_len]. auto.
Qed.

(* a byte advance that ends at or behind first_nonspace *)
Lemma adv_to_C0 line st s1 k : ps_curline_len st = List.length line ->
  c_offset (ps_cur s1) = c_offset (ps_cur st) + k -> c_fns (ps_cur s1) = c_fns (ps_cur st) ->
  ps_curline_len s1 = ps_curline_len st ->
  c_fns (ps_cur st) <= c_offset (ps_cur st) + k <= List.length line -> C0 line s1.
Proof. intros L A B C D. split; [split; [lia | left; lia] | congruence]. Qed.

Lemma adv_cols_cur line st count : F0 line st -> count <= c_indent (ps_cur st) ->
  sgc (fun s1 => C0 line s1 /\ c_offset (ps_cur s1) <= c_fns (ps_cur st) /\ c_fns (ps_cur s1) = c_fns (ps_cur st)
                 /\ c_tbkp (ps_cur s1) = c_tbkp (ps_cur st) /\ adv st line count true = Ok s1)
      (adv st line count true).
Proof.
  intros (Fr & B & Ind & Bl & Len) Hc. unfold adv. rewrite Ind in Hc.
  destruct (adv_cols_in (ps_cur st) line count ltac:(lia) Fr Hc) as (c' & E & Fr' & Bo & Fn & Fc & In' & Bk & Tb & Cl).
  rewrite E. cbn [bind sg]. unfold C0, CI. cbn [ps_cur st_cur ps_curline_len].
  repeat split; try lia; try assumption. now right.
Qed.

(* ---- skip_one_space / skip_fence_offset *)
Lemma skip_one_space_cur line st site : lf_terminated line -> C1 line st ->
  sgc (fun s1 => C1 line s1) (skip_one_space st line site).
Proof.
  intros L [[Ci Len] Lt]. unfold skip_one_space, offset.
  eapply sg_bind; [apply sg_idx; left; exact Lt|]. intros b _ Hb. cbv beta in Hb.
  destruct (is_space_or_tab b) eqn:Sp; [|cbn [sg]; split; [split|]; assumption].
  unfold adv. destruct (CI_adv_one _ _ _ Ci Hb Sp) as (c' & E & Ci' & Bo & _). rewrite E. cbn [bind sg].
  pose proof (not_last _ _ _ L Hb (ws_not_lf _ Sp)) as NL.
  split; [split; [exact Ci' | exact Len] | cbn [ps_cur st_cur]; lia].
Qed.

Lemma skip_fence_offset_cur line site : lf_terminated line -> forall i st, C1 line st ->
  sgc (fun s1 => C1 line s1) (skip_fence_offset i st line site).
Proof.
  intros L. induction i as [|j IH]; intros st C; cbn [skip_fence_offset]; [exact C|].
  pose proof C as [[Ci Len] Lt]. unfold offset.
  eapply sg_bind; [apply sg_idx; left; exact Lt|]. intros b _ Hb. cbv beta in Hb.
  destruct (is_space_or_tab b) eqn:Sp; [|exact C].
  unfold adv. destruct (CI_adv_one _ _ _ Ci Hb Sp) as (c' & E & Ci' & Bo & _). rewrite E. cbn [bind].
  pose proof (not_last _ _ _ L Hb (ws_not_lf _ Sp)) as NL.
  apply IH. split; [split; [exact Ci' | exact Len] | cbn [ps_cur st_cur]; lia].
Qed.

(* ================================================================== the prefix parsers of check_open_blocks *)
Section Check.
Variable line : bytes.
Hypothesis LN : lf_terminated line.

Lemma is_not_greentext_cur o st b : F1 line st -> nth_error line (c_fns (ps_cur st)) = Some b -> b = x3e ->
  ngc (is_not_greentext o st line).
Proof.
  intros F Hb Eb. unfold is_not_greentext, fns. destruct (negb (bo_greentext o)); [exact I|].
  apply ng_bind; [|intros; exact I]. apply ng_idx. left.
  eapply not_last; [exact LN | exact Hb | subst b; discriminate].
Qed.

Lemma pbq_cur o st : F1 line st -> sgc (fun r => C1 line (snd r)) (parse_block_quote_prefix o st line).
Proof.
  intro F. pose proof (F1_C1 _ _ F) as C. destruct (F1_in _ _ LN F) as (Le & Lt & b0 & Hb0 & Sp0).
  unfold parse_block_quote_prefix, indent, fns.
  destruct (Nat.leb _ 3); [|exact C].
  eapply sg_bind; [apply sg_idx; left; exact Lt|]. intros b _ Hb. cbv beta in Hb.
  destruct (beqb b x3e) eqn:Eb; [|exact C]. apply beqb_eq in Eb.
  apply sgb; [eapply is_not_greentext_cur; eassumption|]. intros g _. destruct g; [|exact C].
  destruct F as [(Fr & B & Ind & Bl & Len) Lo].
  assert (Sp : is_space_or_tab b = false) by (subst b; reflexivity).
  unfold adv. rewrite Ind.
  destruct (adv_cols_past (ps_cur st) line b ltac:(lia) Fr Hb Sp) as (c' & E & Eo & Ef & _). rewrite E. cbn [bind].
  assert (NL : S (c_fns (ps_cur st)) < List.length line) by (eapply not_last; [exact LN | exact Hb | subst b; discriminate]).
  eapply sg_bind; [apply skip_one_space_cur; [exact LN|]|].
  - split; [split; [split; [cbn [ps_cur st_cur]; lia | left; cbn [ps_cur st_cur]; lia] | exact Len] | cbn [ps_cur st_cur]; lia].
  - intros s1 _ H. exact H.
Qed.

Lemma pfn_cur st : F1 line st -> sgc (fun r => C1 line (snd r)) (parse_footnote_definition_block_prefix st line).
Proof.
  intro F. pose proof (F1_C1 _ _ F) as C. destruct (F1_in _ _ LN F) as (Le & Lt & _).
  unfold parse_footnote_definition_block_prefix, indent.
  destruct (Nat.leb 4 _) eqn:E4; [|exact C]. apply Nat.leb_le in E4.
  eapply sg_bind; [apply adv_cols_cur; [exact (proj1 F) | exact E4]|]. intros s1 _ (F0' & Bo & _). cbn [sg snd].
  split; [exact F0' | lia].
Qed.

Lemma pip_cur st c mo pad : F1 line st -> sgc (fun r => C1 line (snd r)) (parse_item_prefix st line c mo pad).
Proof.
  intro F. pose proof (F1_C1 _ _ F) as C. destruct (F1_in _ _ LN F) as (Le & Lt & _).
  unfold parse_item_prefix, indent, blank, fns, offset.
  destruct (Nat.leb (mo + pad) _) eqn:E4.
  - apply Nat.leb_le in E4.
    eapply sg_bind; [apply adv_cols_cur; [exact (proj1 F) | exact E4]|]. intros s1 _ (F0' & Bo & _). cbn [sg snd].
    split; [exact F0' | lia].
  - destruct (c_blank (ps_cur st) && is_cons (bkids c)); [|exact C].
    eapply sg_bind; [apply sg_sub; left; exact Le|]. intros k _ [-> _].
    eapply sg_bind; [apply adv_bytes_cur; lia|]. intros s1 _ (A & B & _ & D & _). cbn [sg snd].
    destruct C as [[_ Len] _]. split; [eapply adv_to_C0; try eassumption; lia | lia].
Qed.

(* (matched, should_continue, state): the state matters only when the loop of check_open_blocks_inner or
   open_new_blocks goes on with it *)
Definition CKc (r : bool * bool * pstate) : Prop :=
  let '(matched, cont, st') := r in (matched || cont) = true -> C1 line st'.

Lemma pcbp_cur o st cid cb : F1 line st -> sgc CKc (parse_code_block_prefix o st line cid cb).
Proof.
  intro F. pose proof (F1_C1 _ _ F) as C. destruct (F1_in _ _ LN F) as (Le & Lt & _).
  unfold parse_code_block_prefix, indent, blank, fns, offset.
  destruct (negb (cb_fenced cb)).
  { destruct (Nat.leb code_indent _) eqn:E4.
    - apply Nat.leb_le in E4.
      eapply sg_bind; [apply adv_cols_cur; [exact (proj1 F) | exact E4]|]. intros s1 _ (F0' & Bo & _). cbn [sg CKc].
      intros _. split; [exact F0' | lia].
    - destruct (c_blank (ps_cur st)); [|intros _; exact C].
      eapply sg_bind; [apply sg_sub; left; exact Le|]. intros k _ [-> _].
      eapply sg_bind; [apply adv_bytes_cur; lia|]. intros s1 _ (A & B & _ & D & _). cbn [sg CKc]. intros _.
      destruct C as [[_ Len] _]. split; [eapply adv_to_C0; try eassumption; lia | lia]. }
  eapply sg_bind with (P := fun m => c_fns (ps_cur st) + m <= List.length line).
  { destruct (Nat.leb _ 3); [|cbn [sg]; lia].
    eapply sg_bind; [apply sg_idx; left; exact Lt|]. intros b _ _.
    destruct (N.eqb _ _); [|cbn [sg]; lia]. cbn [sg].
    destruct (scan_close_code_fence _) as [m|] eqn:Sc; [|lia].
    apply scan_close_code_fence_le in Sc. rewrite skipn_length in Sc. lia. }
  intros matched _ Hm. cbv beta in Hm.
  destruct (N.leb _ _).
  - eapply sg_bind; [apply adv_bytes_cur; lia|]. intros s1 _ _.
    apply sgb; [apply ngc_unwrap_parent; allowed|]. intros r _. cbn [sg CKc orb]. discriminate.
  - eapply sg_bind; [apply skip_fence_offset_cur; [exact LN | exact C]|]. intros s1 _ C1'. cbn [sg CKc]. intros _. exact C1'.
Qed.

Lemma pmbq_cur o st cid fl fo : F1 line st -> sgc CKc (parse_multiline_block_quote_prefix o st line cid fl fo).
Proof.
  intro F. pose proof (F1_C1 _ _ F) as C. destruct (F1_in _ _ LN F) as (Le & Lt & _).
  unfold parse_multiline_block_quote_prefix, indent, fns.
  eapply sg_bind with (P := fun m => c_fns (ps_cur st) + m <= List.length line).
  { destruct (Nat.leb _ 3); [|cbn [sg]; lia].
    eapply sg_bind; [apply sg_idx; left; exact Lt|]. intros b _ _.
    destruct (beqb _ _); [|cbn [sg]; lia]. cbn [sg].
    destruct (scan_close_multiline_block_quote_fence _) as [m|] eqn:Sc; [|lia].
    apply scan_close_mbq_fence_le in Sc. rewrite skipn_length in Sc. lia. }
  intros matched _ Hm. cbv beta in Hm.
  destruct (N.leb _ _).
  - eapply sg_bind; [apply adv_bytes_cur; lia|]. intros s1 _ _.
    apply sgb; [auto with ngc|]. intros lc _.
    apply sgb; [destruct lc; [|exact I]; apply ng_bind; [apply ngc_unwrap_parent; allowed | intros; exact I]|]. intros s2 _.
    apply sgb; [apply ngc_unwrap_parent; allowed|]. intros r _. cbn [sg CKc orb]. discriminate.
  - eapply sg_bind; [apply skip_fence_offset_cur; [exact LN | exact C]|]. intros s1 _ C1'. cbn [sg CKc]. intros _. exact C1'.
Qed.

Lemma CKc_lift (r : res (bool * pstate)) :
  sgc (fun x => C1 line (snd x)) r -> sgc CKc (do x <- r; Ok (fst x, true, snd x)).
Proof.
  intro S. eapply sg_bind; [exact S|]. intros [b s] _ H. cbn [sg CKc fst snd] in *. intros _. exact H.
Qed.

Lemma check_container_cur o st c : F1 line st -> sgc CKc (check_container o st line c).
Proof.
  intro F. pose proof (F1_C1 _ _ F) as C. destruct (F1_in _ _ LN F) as (Le & Lt & _).
  unfold check_container.
  destruct (bval c); try (cbn [sg CKc]; intros _; exact C);
    try (apply CKc_lift; first [now apply pbq_cur | now apply pip_cur | now apply pfn_cur]).
  - now apply pcbp_cur.
  - apply sgb; [auto with ngc|]. intros b _. cbn [sg CKc]. intros _. exact C.
  - unfold fns. eapply sg_bind; [apply sg_slice_from; left; lia|]. intros rest _ _.
    apply sgb; [auto with ngc|]. intros m _. cbn [sg CKc]. intros _. exact C.
  - now apply pmbq_cur.
  - match goal with |- context [a_multiline ?a] => destruct (a_multiline a) end; [now apply pmbq_cur|].
    apply CKc_lift. now apply pbq_cur.
Qed.

Definition COBc (r : bool * nat * bool * pstate) : Prop :=
  let '(am, c, cont, st') := r in cont = true -> C1 line st'.

Lemma cobi_cur o : forall fuel st container, C1 line st -> sgc COBc (check_open_blocks_inner fuel o st line container).
Proof.
  induction fuel as [|f IH]; intros st container C; cbn [check_open_blocks_inner]; [reflexivity|].
  apply sgb; [auto with ngc|]. intros lc _. destruct lc as [cid|]; [|cbn [sg COBc]; intros _; exact C].
  eapply sg_bind; [apply ffn_cur; exact (proj1 C)|]. intros s1 _ (F0' & Eo & _).
  assert (F : F1 line s1) by (split; [exact F0' | rewrite Eo; exact (proj2 C)]).
  apply sgb; [auto with ngc|]. intros c _.
  eapply sg_bind; [apply check_container_cur; exact F|]. intros [[matched cont] s2] _ K. cbn [CKc] in K.
  destruct matched.
  - apply IH. apply K. reflexivity.
  - cbn [sg COBc]. intro E. apply K. rewrite E. reflexivity.
Qed.

Lemma check_open_blocks_cur o st : C1 line st ->
  sgc (fun r => match fst r with Some _ => C1 line (snd r) | None => True end) (check_open_blocks o st line).
Proof.
  intro C. unfold check_open_blocks.
  eapply sg_bind; [apply cobi_cur; exact C|]. intros [[[am c] cont] s1] _ K. cbn [COBc] in K.
  apply sgb; [destruct am; [exact I|]; destruct (parent_of c (ps_root s1)); [exact I | allowed]|]. intros c1 _.
  destruct cont; cbn [sg fst snd]; [now apply K | exact I].
Qed.
End Check.
