(* Proofs/AnchorProofs.v — the decimal printer is injective; the suffix loop of the anchorizer
   terminates within |issued| + 1 iterations (pigeonhole) and never re-issues an id. *)
From Coq Require Import List NArith Bool Lia.
From V Require Import Base.Bytes Base.Res Model.Anchor.
Import ListNotations.
Local Open Scope list_scope.

(* ---------------------------------------------------------------- decimal printing *)
Lemma bN_byte_of_N n : (n < 256)%N -> bN (byte_of_N n) = n.
Proof.
  intro H. unfold bN, byte_of_N. destruct (Byte.of_N n) eqn:E.
  - apply Byte.to_of_N in E. exact E.
  - apply Byte.of_N_None_iff in E. lia.
Qed.

Definition dig (k : N) : byte := byte_of_N (48 + k).

(* little-endian digit list computed by the same recursion as dec_aux *)
Fixpoint ldigits (fuel : nat) (n : N) : list N :=
  match fuel with
  | O => []
  | S f => if (n <? 10)%N then [(n mod 10)%N] else (n mod 10)%N :: ldigits f (n / 10)%N
  end.

Lemma dec_aux_ldigits f : forall n acc, dec_aux f n acc = rev (map dig (ldigits f n)) ++ acc.
Proof.
  induction f as [|f IH]; intros n acc; cbn [dec_aux ldigits].
  - reflexivity.
  - destruct (n <? 10)%N.
    + reflexivity.
    + rewrite IH. cbn [map rev]. rewrite <- app_assoc. reflexivity.
Qed.

Definition lval (l : list N) : N := fold_right (fun d a => d + 10 * a)%N 0%N l.
Definition lvalb (l : bytes) : N := fold_right (fun b a => (bN b - 48) + 10 * a)%N 0%N l.

Lemma ldigits_lt10 f : forall n, Forall (fun d => d < 10)%N (ldigits f n).
Proof.
  induction f as [|f IH]; intro n; cbn [ldigits].
  - constructor.
  - assert (n mod 10 < 10)%N by (apply N.mod_lt; lia).
    destruct (n <? 10)%N; repeat constructor; auto.
Qed.

Lemma lvalb_dig l : Forall (fun d => d < 10)%N l -> lvalb (map dig l) = lval l.
Proof.
  induction 1 as [|d l Hd _ IH]; cbn [map lvalb lval fold_right].
  - reflexivity.
  - fold (lvalb (map dig l)). fold (lval l). rewrite IH. unfold dig. rewrite bN_byte_of_N by lia. lia.
Qed.

Lemma lval_ldigits f : forall n, (n < 2 ^ N.of_nat f)%N -> lval (ldigits f n) = n.
Proof.
  induction f as [|f IH]; intros n H.
  - cbn [ldigits lval fold_right]. change (2 ^ N.of_nat 0)%N with 1%N in H. lia.
  - cbn [ldigits]. destruct (n <? 10)%N eqn:E.
    + apply N.ltb_lt in E. cbn [lval fold_right]. rewrite N.mod_small by lia. lia.
    + apply N.ltb_ge in E. cbn [lval fold_right]. fold (lval (ldigits f (n / 10))).
      rewrite IH.
      * pose proof (N.div_mod n 10). lia.
      * rewrite Nnat.Nat2N.inj_succ, N.pow_succ_r' in H.
        apply N.div_lt_upper_bound; lia.
Qed.

Lemma dec_digits n : dec n = rev (map dig (ldigits (S (N.to_nat (N.log2 n))) n)).
Proof. unfold dec. rewrite dec_aux_ldigits, app_nil_r. reflexivity. Qed.

Lemma undec_dec n : lvalb (rev (dec n)) = n.
Proof.
  rewrite dec_digits, rev_involutive, lvalb_dig by apply ldigits_lt10.
  apply lval_ldigits.
  rewrite Nnat.Nat2N.inj_succ, Nnat.N2Nat.id.
  destruct n as [|p]; [reflexivity|].
  apply N.log2_spec. lia.
Qed.

Lemma dec_inj a b : dec a = dec b -> a = b.
Proof. intro H. rewrite <- (undec_dec a), <- (undec_dec b), H. reflexivity. Qed.

(* ---------------------------------------------------------------- candidates *)
Lemma candidate_inj id a b : candidate id a = candidate id b -> a = b.
Proof.
  unfold candidate.
  destruct (N.eqb_spec a 0) as [->|Ha]; destruct (N.eqb_spec b 0) as [->|Hb]; intro H.
  - reflexivity.
  - rewrite <- (app_nil_r id) in H at 1. apply app_inv_head in H. discriminate.
  - rewrite <- (app_nil_r id) in H at 2. apply app_inv_head in H. discriminate.
  - apply app_inv_head in H. unfold hyphen in H. cbn [app] in H. injection H as H. apply dec_inj. exact H.
Qed.

Lemma mem_bytes_In x l : mem_bytes x l = true <-> In x l.
Proof.
  unfold mem_bytes. rewrite existsb_exists. split.
  - intros [y [Hy E]]. apply bytes_eqb_eq in E. subst. exact Hy.
  - intro H. exists x. split; [exact H | apply bytes_eqb_eq; reflexivity].
Qed.

Lemma mem_bytes_not_In x l : mem_bytes x l = false <-> ~ In x l.
Proof.
  split.
  - intros H I. apply mem_bytes_In in I. congruence.
  - intro H. destruct (mem_bytes x l) eqn:E; [apply mem_bytes_In in E; contradiction | reflexivity].
Qed.

(* ---------------------------------------------------------------- the loop *)
Lemma uniq_loop_spec f : forall issued id u,
  match uniq_loop f issued id u with
  | Ok a => ~ In a issued /\ exists k, a = candidate id k
  | OutOfFuel => forall j, (j < f)%nat -> In (candidate id (u + N.of_nat j)) issued
  | Panic _ => forall j, (u + N.of_nat j <= i32_max)%N -> In (candidate id (u + N.of_nat j)) issued
  end.
Proof.
  induction f as [|f IH]; intros issued id u; cbn [uniq_loop].
  - intros j Hj. lia.
  - destruct (mem_bytes (candidate id u) issued) eqn:M.
    + apply mem_bytes_In in M.
      destruct (N.eqb_spec u i32_max) as [E|NE].
      * intros j Hj. assert (j = 0)%nat by lia. subst j. rewrite N.add_0_r. exact M.
      * specialize (IH issued id (u + 1)%N).
        destruct (uniq_loop f issued id (u + 1)) as [a|s|].
        -- exact IH.
        -- intros j Hj. destruct j as [|j].
           ++ rewrite N.add_0_r. exact M.
           ++ replace (u + N.of_nat (S j))%N with (u + 1 + N.of_nat j)%N by lia. apply IH. lia.
        -- intros j Hj. destruct j as [|j].
           ++ rewrite N.add_0_r. exact M.
           ++ replace (u + N.of_nat (S j))%N with (u + 1 + N.of_nat j)%N by lia. apply IH. lia.
    + apply mem_bytes_not_In in M. split; [exact M | exists u; reflexivity].
Qed.

Lemma NoDup_map_inj {A B} (g : A -> B) l :
  (forall a b, g a = g b -> a = b) -> NoDup l -> NoDup (map g l).
Proof.
  intros Hg. induction 1 as [|x l Hx _ IH]; cbn [map]; constructor.
  - intro I. apply in_map_iff in I. destruct I as [y [E Hy]]. apply Hg in E. subst. contradiction.
  - exact IH.
Qed.

Lemma pigeon (issued : list bytes) id n :
  (forall j, (j < n)%nat -> In (candidate id (N.of_nat j)) issued) -> (n <= length issued)%nat.
Proof.
  intro H.
  assert (NoDup (map (fun j => candidate id (N.of_nat j)) (seq 0 n))) as ND.
  { apply NoDup_map_inj; [|apply seq_NoDup].
    intros a b E. apply candidate_inj in E. lia. }
  assert (incl (map (fun j => candidate id (N.of_nat j)) (seq 0 n)) issued) as IN.
  { intros x I. apply in_map_iff in I. destruct I as [j [<- Hj]]. apply in_seq in Hj. apply H. lia. }
  pose proof (NoDup_incl_length ND IN) as L. rewrite map_length, seq_length in L. exact L.
Qed.

Lemma uniq_loop_enough issued id :
  (N.of_nat (length issued) <= i32_max)%N ->
  exists a, uniq_loop (S (length issued)) issued id 0 = Ok a /\ ~ In a issued /\ exists k, a = candidate id k.
Proof.
  intro B. pose proof (uniq_loop_spec (S (length issued)) issued id 0%N) as HS.
  destruct (uniq_loop (S (length issued)) issued id 0) as [a|s|].
  - exists a. split; [reflexivity | exact HS].
  - exfalso. assert (S (length issued) <= length issued)%nat; [|lia].
    apply (pigeon issued id). intros j Hj. specialize (HS j). rewrite N.add_0_l in HS. apply HS. lia.
  - exfalso. assert (S (length issued) <= length issued)%nat; [|lia].
    apply (pigeon issued id). intros j Hj. specialize (HS j). rewrite N.add_0_l in HS. apply HS. exact Hj.
Qed.

Lemma uniq_loop_more f : forall issued id u a d,
  uniq_loop f issued id u = Ok a -> uniq_loop (f + d) issued id u = Ok a.
Proof.
  induction f as [|f IH]; intros issued id u a d H; cbn [uniq_loop plus] in *.
  - discriminate.
  - destruct (mem_bytes (candidate id u) issued); [|exact H].
    destruct (u =? i32_max)%N; [discriminate|]. apply IH. exact H.
Qed.

Section WithSlug.
  Variable slug : bytes -> bytes.

  Lemma anchor_fuel_lemma issued header :
    (N.of_nat (length issued) <= i32_max)%N ->
    exists id, anchorize slug issued header = Ok (id :: issued, id)
               /\ ~ In id issued /\ exists k, id = candidate (slug header) k.
  Proof.
    intro B. destruct (uniq_loop_enough issued (slug header) B) as [a [E [NI K]]].
    exists a. unfold anchorize, anchorize_fuel. rewrite E. cbn [bind]. auto.
  Qed.

  Lemma anchor_fuel_more_lemma issued header fuel :
    (N.of_nat (length issued) <= i32_max)%N -> (S (length issued) <= fuel)%nat ->
    anchorize_fuel slug fuel issued header = anchorize slug issued header.
  Proof.
    intros B L. destruct (uniq_loop_enough issued (slug header) B) as [a [E _]].
    unfold anchorize, anchorize_fuel. rewrite E.
    replace fuel with (S (length issued) + (fuel - S (length issued)))%nat by lia.
    rewrite (uniq_loop_more _ _ _ _ _ _ E). reflexivity.
  Qed.

  Lemma anchorize_all_spec headers : forall issued,
    NoDup issued ->
    (N.of_nat (length issued + length headers) <= i32_max)%N ->
    exists ids, anchorize_all slug issued headers = Ok (rev ids ++ issued, ids)
                /\ length ids = length headers
                /\ NoDup ids /\ (forall i, In i ids -> ~ In i issued) /\ NoDup (rev ids ++ issued).
  Proof.
    induction headers as [|h r IH]; intros issued ND B; cbn [anchorize_all].
    - exists []. cbn. repeat split; auto. constructor.
    - cbn [length] in B.
      destruct (anchor_fuel_lemma issued h) as [id [E [NI _]]]; [lia|].
      rewrite E. cbn [bind fst snd].
      destruct (IH (id :: issued)) as [ids [E2 [L [ND2 [DJ ND3]]]]].
      { constructor; assumption. }
      { cbn [length]. lia. }
      rewrite E2. cbn [bind fst snd].
      exists (id :: ids). cbn [rev length]. rewrite <- app_assoc. cbn [app].
      repeat split.
      + congruence.
      + constructor; [|exact ND2]. intro I. apply DJ in I. apply I. left. reflexivity.
      + intros i [<-|I]; [exact NI|]. apply DJ in I. intro J. apply I. right. exact J.
      + exact ND3.
  Qed.

  Lemma anchors_nodup_lemma headers :
    (N.of_nat (length headers) <= i32_max)%N ->
    exists ids, anchorize_all slug [] headers = Ok (rev ids, ids) /\ length ids = length headers /\ NoDup ids.
  Proof.
    intro B. destruct (anchorize_all_spec headers [] (NoDup_nil _) B) as [ids [E [L [ND _]]]].
    exists ids. rewrite app_nil_r in E. auto.
  Qed.

  Lemma heading_ids_distinct_lemma headers (prefix : bytes) :
    (N.of_nat (length headers) <= i32_max)%N ->
    exists ids, anchorize_all slug [] headers = Ok (rev ids, ids) /\ length ids = length headers
                /\ NoDup (map (fun i => prefix ++ i) ids).
  Proof.
    intro B. destruct (anchors_nodup_lemma headers B) as [ids [E [L ND]]].
    exists ids. repeat split; auto. apply NoDup_map_inj; [|exact ND].
    intros a b H. apply app_inv_head in H. exact H.
  Qed.
End WithSlug.
