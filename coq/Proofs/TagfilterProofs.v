(* Proofs/TagfilterProofs.v — lemmas behind Props/C14.v *)
From Coq Require Import List NArith Bool Lia Arith Strings.String.
From V Require Import Base.Bytes Base.Res Gen.Tagfilter Model.Escape Model.Tagfilter
  Spec.GfmFilter Proofs.EscapeProofs.
Import ListNotations.
Local Open Scope list_scope.

(* ---------------------------------------------------------------- finite facts *)

(* the byte set that ends a tag name in the code (regenerated from the matches! pattern of tagfilter)
   is the GFM whitespace set: space, tab, LF, line tabulation, form feed, CR *)
Lemma tf_space_is_gfm_all : forall b, Bool.eqb (tf_space b) (gfm_ws b) = true.
Proof. apply forall_bytes. vm_compute. reflexivity. Qed.

Lemma tf_space_gfm b : tf_space b = gfm_ws b.
Proof. apply eqb_prop. apply tf_space_is_gfm_all. Qed.

Lemma lower_agree_all : forall b, beqb (to_lower_ascii b) (ascii_lower b) = true.
Proof. apply forall_bytes. vm_compute. reflexivity. Qed.

Lemma lower_agree b : to_lower_ascii b = ascii_lower b.
Proof. apply beqb_eq. apply lower_agree_all. Qed.

Lemma ascii_lower_amp : ascii_lower x26 = x26.
Proof. vm_compute. reflexivity. Qed.

(* the regenerated blacklist is the GFM list *)
Lemma blacklist_is_gfm : tagfilter_blacklist = gfm_disallowed_names.
Proof. vm_compute. reflexivity. Qed.

Definition name_ok (n : bytes) : bool :=
  Nat.leb 3 (List.length n) &&
  forallb (fun y => negb (beqb x26 y) && beqb (to_lower_ascii y) y) n.

Lemma names_ok : forallb name_ok gfm_disallowed_names = true.
Proof. vm_compute. reflexivity. Qed.

Lemma name_facts n : In n gfm_disallowed_names ->
  3 <= List.length n /\
  (forall y, In y n -> beqb x26 y = false) /\
  (forall y, In y n -> to_lower_ascii y = y).
Proof.
  intro Hin. pose proof names_ok as H. rewrite forallb_forall in H. specialize (H n Hin).
  unfold name_ok in H. apply andb_true_iff in H. destruct H as [H1 H2].
  apply Nat.leb_le in H1. rewrite forallb_forall in H2. split; [exact H1|]. split.
  - intros y Hy. specialize (H2 y Hy). apply andb_true_iff in H2. destruct H2 as [H2 _].
    apply negb_true_iff in H2. exact H2.
  - intros y Hy. specialize (H2 y Hy). apply andb_true_iff in H2. destruct H2 as [_ H2].
    apply beqb_eq. exact H2.
Qed.

(* no name is a proper prefix of another: at most one name can match at a position *)
Definition prefix_free (names : list bytes) : bool :=
  forallb (fun a => forallb (fun b => bytes_eqb a b || negb (starts_with b a)) names) names.

Lemma names_prefix_free : prefix_free gfm_disallowed_names = true.
Proof. vm_compute. reflexivity. Qed.

(* ---------------------------------------------------------------- list helpers *)

Lemma skipn_cons_nth {A} : forall n (l : list A) c r,
  skipn n l = c :: r ->
  nth_error l n = Some c /\ skipn (S n) l = r /\ List.length l = n + S (List.length r).
Proof.
  induction n as [|n IH]; intros l c r H.
  - cbn [skipn] in H. subst l. repeat split.
  - destruct l as [|x l]; [cbn in H; discriminate|].
    cbn [skipn] in H. destruct (IH l c r H) as [H1 [H2 H3]].
    repeat split.
    + exact H1.
    + exact H2.
    + cbn [List.length]. lia.
Qed.

Lemma skipn_nonempty {A} : forall n (l : list A), n < List.length l -> exists c r, skipn n l = c :: r.
Proof.
  intros n l H. destruct (skipn n l) as [|c r] eqn:E.
  - pose proof (skipn_length n l) as HL. rewrite E in HL. cbn in HL. lia.
  - eauto.
Qed.

Lemma nth_error_app_r {A} (pre l : list A) n :
  nth_error (pre ++ l) (List.length pre + n) = nth_error l n.
Proof. rewrite nth_error_app2 by lia. f_equal. lia. Qed.

(* ---------------------------------------------------------------- case-insensitive prefix *)

Lemma name_prefix_ci_length : forall n s, name_prefix_ci s n = true -> List.length n <= List.length s.
Proof.
  induction n as [|y n IH]; intros s H; cbn [List.length]; [lia|].
  destruct s as [|x s]; cbn [name_prefix_ci] in H; [discriminate|].
  apply andb_true_iff in H. destruct H as [_ H]. apply IH in H. cbn [List.length]. lia.
Qed.

Lemma eq_ci_firstn : forall t rest,
  (forall y, In y t -> to_lower_ascii y = y) ->
  List.length t <= List.length rest ->
  eq_ignore_ascii_case (firstn (List.length t) rest) t = name_prefix_ci rest t.
Proof.
  induction t as [|y t IH]; intros rest Hl Hlen.
  - cbn. reflexivity.
  - destruct rest as [|x rest]; [cbn in Hlen; lia|].
    cbn [List.length firstn eq_ignore_ascii_case name_prefix_ci].
    unfold byte_eq_ignore_ascii_case. rewrite (Hl y (or_introl eq_refl)). rewrite lower_agree.
    f_equal. apply IH.
    + intros z Hz. apply Hl. right. exact Hz.
    + cbn [List.length] in Hlen. lia.
Qed.

Lemma prefix_chain : forall a b s,
  name_prefix_ci s a = true -> name_prefix_ci s b = true ->
  List.length a <= List.length b -> starts_with b a = true.
Proof.
  induction a as [|x a IH]; intros b s Ha Hb Hlen.
  - destruct b; reflexivity.
  - destruct b as [|y b]; [cbn in Hlen; lia|].
    destruct s as [|c s]; [cbn in Ha; discriminate|].
    cbn [name_prefix_ci] in Ha, Hb. cbn [starts_with].
    apply andb_true_iff in Ha. destruct Ha as [Ha1 Ha2].
    apply andb_true_iff in Hb. destruct Hb as [Hb1 Hb2].
    apply beqb_eq in Ha1. apply beqb_eq in Hb1. subst x. subst y. rewrite beqb_refl. cbn [andb].
    apply (IH b s Ha2 Hb2). cbn [List.length] in Hlen. lia.
Qed.

Lemma unique_match : forall names, prefix_free names = true ->
  forall s a b, In a names -> In b names ->
  name_prefix_ci s a = true -> name_prefix_ci s b = true -> a = b.
Proof.
  intros names PF s a b Ia Ib Ha Hb. unfold prefix_free in PF. rewrite forallb_forall in PF.
  destruct (le_ge_dec (List.length a) (List.length b)) as [L|L].
  - pose proof (prefix_chain a b s Ha Hb L) as P.
    specialize (PF a Ia). rewrite forallb_forall in PF. specialize (PF b Ib).
    rewrite P in PF. cbn [negb] in PF. rewrite orb_false_r in PF. apply bytes_eqb_eq. exact PF.
  - pose proof (prefix_chain b a s Hb Ha L) as P.
    specialize (PF b Ib). rewrite forallb_forall in PF. specialize (PF a Ia).
    rewrite P in PF. cbn [negb] in PF. rewrite orb_false_r in PF. symmetry. apply bytes_eqb_eq. exact PF.
Qed.

(* ---------------------------------------------------------------- tagfilter *)

Lemma tf_terminator_spec : forall pre rest n,
  n < List.length rest ->
  tf_terminator (pre ++ rest) (List.length pre + n) = Ok (tag_end tf_space (skipn n rest)).
Proof.
  intros pre rest n Hn. destruct (skipn_nonempty n rest Hn) as [c [r E]].
  destruct (skipn_cons_nth n rest c r E) as [N1 [N2 N3]].
  unfold tf_terminator, idx. rewrite nth_error_app_r, N1. cbn [bind]. rewrite E. cbn [tag_end].
  destruct (tf_space c); [reflexivity|]. cbn [orb].
  destruct (beqb c x3e); [reflexivity|]. cbn [orb].
  destruct (beqb c x2f); [|reflexivity]. cbn [andb].
  rewrite app_length, N3.
  destruct r as [|d r'].
  - cbn [List.length]. replace (Nat.leb _ _) with false; [reflexivity|].
    symmetry. apply Nat.leb_gt. lia.
  - cbn [List.length]. replace (Nat.leb _ _) with true by (symmetry; apply Nat.leb_le; lia).
    destruct (skipn_cons_nth (S n) rest d r' N2) as [M1 _].
    replace (List.length pre + n + 1) with (List.length pre + S n) by lia.
    rewrite nth_error_app_r, M1. reflexivity.
Qed.

Definition name_hit (r : bytes) (n : bytes) : bool :=
  name_prefix_ci r n && tag_end tf_space (skipn (List.length n) r).

Lemma tf_names_spec : forall names pre rest,
  (forall t, In t names -> forall y, In y t -> to_lower_ascii y = y) ->
  (forall a b, In a names -> In b names ->
     name_prefix_ci rest a = true -> name_prefix_ci rest b = true -> a = b) ->
  tf_names (pre ++ rest) rest (List.length pre) names = Ok (existsb (name_hit rest) names).
Proof.
  induction names as [|t names IH]; intros pre rest Hlow Huniq; [reflexivity|].
  cbn [tf_names existsb].
  assert (IH' : tf_names (pre ++ rest) rest (List.length pre) names = Ok (existsb (name_hit rest) names)).
  { apply IH.
    - intros t' Ht'. apply Hlow. right. exact Ht'.
    - intros a b Ia Ib. apply Huniq; right; assumption. }
  destruct (Nat.ltb (List.length t) (List.length rest)) eqn:L.
  - apply Nat.ltb_lt in L. unfold slice_to.
    replace (Nat.leb (List.length t) (List.length rest)) with true by (symmetry; apply Nat.leb_le; lia).
    cbn [bind]. rewrite eq_ci_firstn; [|apply Hlow; left; reflexivity|lia].
    unfold name_hit at 1. destruct (name_prefix_ci rest t) eqn:M.
    + rewrite tf_terminator_spec by exact L. cbn [andb].
      destruct (tag_end tf_space (skipn (List.length t) rest)) eqn:T; [reflexivity|]. cbn [orb].
      destruct (existsb (name_hit rest) names) eqn:E; [|reflexivity]. exfalso.
      apply existsb_exists in E. destruct E as [x [Hx Hh]]. unfold name_hit in Hh.
      apply andb_true_iff in Hh. destruct Hh as [Hp Ht].
      assert (x = t) by (apply Huniq; [right; exact Hx|left; reflexivity|exact Hp|exact M]).
      subst x. congruence.
    + cbn [andb orb]. exact IH'.
  - apply Nat.ltb_ge in L. rewrite IH'. f_equal.
    assert (name_hit rest t = false) as ->; [|reflexivity].
    unfold name_hit. destruct (name_prefix_ci rest t) eqn:M; [|reflexivity].
    apply name_prefix_ci_length in M. rewrite skipn_all2 by lia. reflexivity.
Qed.

Lemma name_then_end_length ws r : name_then_end ws r = true -> 4 <= List.length r.
Proof.
  unfold name_then_end. intro H. apply existsb_exists in H. destruct H as [n [Hin H]].
  apply andb_true_iff in H. destruct H as [Hp Ht].
  destruct (name_facts n Hin) as [H3 _]. apply name_prefix_ci_length in Hp.
  destruct (skipn (List.length n) r) as [|c q] eqn:E; [cbn in Ht; discriminate|].
  pose proof (skipn_length (List.length n) r) as HL. rewrite E in HL. cbn [List.length] in HL. lia.
Qed.

Lemma disallowed_length ws s : disallowed_at_ws ws s = true -> 5 <= List.length s.
Proof.
  destruct s as [|c [|d r]]; cbn [disallowed_at_ws]; try discriminate.
  - rewrite andb_false_r. discriminate.
  - intro H. apply andb_true_iff in H. destruct H as [_ H].
    destruct (beqb d x2f); apply name_then_end_length in H; cbn [List.length] in *; lia.
Qed.

Lemma disallowed_lt ws s : disallowed_at_ws ws s = true -> exists r, s = x3c :: r.
Proof.
  destruct s as [|c r]; cbn [disallowed_at_ws]; [discriminate|].
  intro H. apply andb_true_iff in H. destruct H as [H _]. apply beqb_eq in H. subst c. eauto.
Qed.

Lemma dis_not_lt ws c l : beqb c x3c = false -> disallowed_at_ws ws (c :: l) = false.
Proof. intro H. cbn [disallowed_at_ws]. rewrite H. reflexivity. Qed.

Lemma name_then_end_hit r :
  name_then_end tf_space r = existsb (name_hit r) gfm_disallowed_names.
Proof. reflexivity. Qed.

Lemma dis_short ws s : List.length s < 5 -> disallowed_at_ws ws s = false.
Proof.
  intro H. destruct (disallowed_at_ws ws s) eqn:D; [apply disallowed_length in D; lia|reflexivity].
Qed.

(* the model computes exactly the spec predicate instantiated with the code's terminator set; total *)
Lemma tagfilter_model s : tagfilter s = Ok (disallowed_at_ws tf_space s).
Proof.
  assert (Hlow : forall t, In t tagfilter_blacklist -> forall y, In y t -> to_lower_ascii y = y)
    by (rewrite blacklist_is_gfm; intros t Ht; apply (name_facts t Ht)).
  assert (Huniq : forall rest a b, In a tagfilter_blacklist -> In b tagfilter_blacklist ->
         name_prefix_ci rest a = true -> name_prefix_ci rest b = true -> a = b)
    by (rewrite blacklist_is_gfm; intros rest; apply unique_match; exact names_prefix_free).
  destruct s as [|c0 [|c1 [|c2 tl]]].
  1-3: rewrite dis_short by (cbn [List.length]; lia); reflexivity.
  unfold tagfilter.
  replace (Nat.ltb (List.length (c0 :: c1 :: c2 :: tl)) 3) with false by reflexivity.
  unfold idx; cbn [nth_error bind]. cbn [disallowed_at_ws].
  destruct (beqb c0 x3c); cbn [negb andb]; [|reflexivity].
  destruct (beqb c1 x2f); unfold slice_from.
  - replace (Nat.leb 2 (List.length (c0 :: c1 :: c2 :: tl))) with true by reflexivity.
    cbn [bind skipn].
    change (c0 :: c1 :: c2 :: tl) with ([c0; c1] ++ c2 :: tl).
    change 2 with (List.length [c0; c1]).
    rewrite tf_names_spec; [|exact Hlow|apply Huniq]. rewrite blacklist_is_gfm. reflexivity.
  - replace (Nat.leb 1 (List.length (c0 :: c1 :: c2 :: tl))) with true by reflexivity.
    cbn [bind skipn].
    change (c0 :: c1 :: c2 :: tl) with ([c0] ++ c1 :: c2 :: tl) at 1.
    change 1 with (List.length [c0]).
    rewrite tf_names_spec; [|exact Hlow|apply Huniq]. rewrite blacklist_is_gfm. reflexivity.
Qed.

Lemma tagfilter_total s : exists b, tagfilter s = Ok b.
Proof. eexists. apply tagfilter_model. Qed.

(* ---------------------------------------------------------------- tagfilter_block *)

Lemma lt_ent_entity : tf_lt = lt_entity.
Proof. reflexivity. Qed.

Lemma scan_to_lt_spec : forall s run rest,
  scan_to_lt s = (run, rest) ->
  s = run ++ rest /\ Forall (fun b => beqb b x3c = false) run /\
  match rest with [] => True | b :: _ => b = x3c end.
Proof.
  induction s as [|b s IH]; intros run rest H; cbn [scan_to_lt] in H.
  - inversion H; subst. repeat split. constructor.
  - destruct (beqb b x3c) eqn:Hb; cbn [negb] in H.
    + inversion H; subst. repeat split; [constructor|]. apply beqb_eq. exact Hb.
    + destruct (scan_to_lt s) as [r t] eqn:E. inversion H; subst.
      destruct (IH r rest eq_refl) as [E1 [E2 E3]]. repeat split.
      * cbn [app]. f_equal. exact E1.
      * constructor; assumption.
      * exact E3.
Qed.

Lemma gfm_filter_copy ws : forall run rest,
  Forall (fun b => beqb b x3c = false) run ->
  gfm_filter_ws ws (run ++ rest) = run ++ gfm_filter_ws ws rest.
Proof.
  induction run as [|b run IH]; intros rest H; [reflexivity|].
  inversion H; subst. cbn [app gfm_filter_ws]. rewrite dis_not_lt by assumption.
  cbn [app]. f_equal. apply IH. assumption.
Qed.

Lemma tfb_loop_spec : forall fuel s out,
  List.length s < fuel -> tfb_loop fuel out s = Ok (out ++ gfm_filter_ws tf_space s).
Proof.
  induction fuel as [|f IH]; intros s out Hlen; [lia|].
  cbn [tfb_loop]. destruct s as [|b0 s0].
  - rewrite app_nil_r. reflexivity.
  - remember (b0 :: s0) as s eqn:Es.
    destruct (scan_to_lt s) as [run rest] eqn:E.
    destruct (scan_to_lt_spec s run rest E) as [E1 [E2 E3]].
    rewrite E1. rewrite gfm_filter_copy by exact E2.
    destruct rest as [|b rest'].
    + cbn [gfm_filter_ws]. rewrite app_nil_r. reflexivity.
    + subst b. rewrite tagfilter_model. cbn [bind]. rewrite IH.
      * cbn [gfm_filter_ws]. rewrite lt_ent_entity. rewrite <- !app_assoc. reflexivity.
      * rewrite E1, app_length in Hlen. cbn [List.length] in Hlen. lia.
Qed.

Lemma tagfilter_block_model s : tagfilter_block s = Ok (gfm_filter_ws tf_space s).
Proof. unfold tagfilter_block. rewrite tfb_loop_spec by lia. reflexivity. Qed.

Lemma tagfilter_block_total s : exists o, tagfilter_block s = Ok o.
Proof. eexists. apply tagfilter_block_model. Qed.

(* ---------------------------------------------------------------- dependence on the whitespace set *)

Lemma In_skipn {A} : forall n (l : list A) x, In x (skipn n l) -> In x l.
Proof.
  induction n as [|n IH]; intros l x H; [exact H|].
  destruct l as [|y l]; [exact H|]. right. apply IH. exact H.
Qed.

Section TwoWs.
  Variables ws1 ws2 : byte -> bool.

  Lemma tag_end_local r : (forall b, In b r -> ws1 b = ws2 b) -> tag_end ws1 r = tag_end ws2 r.
  Proof.
    intro H. destruct r as [|c r]; [reflexivity|]. cbn [tag_end]. rewrite (H c (or_introl eq_refl)). reflexivity.
  Qed.

  Lemma name_then_end_local r : (forall b, In b r -> ws1 b = ws2 b) -> name_then_end ws1 r = name_then_end ws2 r.
  Proof.
    intro H. unfold name_then_end. induction gfm_disallowed_names as [|n l IH]; [reflexivity|].
    cbn [existsb]. rewrite IH. f_equal. f_equal. apply tag_end_local.
    intros b Hb. apply H. eapply In_skipn. exact Hb.
  Qed.

  Lemma disallowed_local s : (forall b, In b s -> ws1 b = ws2 b) -> disallowed_at_ws ws1 s = disallowed_at_ws ws2 s.
  Proof.
    intro H. destruct s as [|c [|d r]]; try reflexivity. cbn [disallowed_at_ws]. f_equal.
    destruct (beqb d x2f); apply name_then_end_local; intros b Hb; apply H.
    - right. right. exact Hb.
    - right. exact Hb.
  Qed.

  Lemma gfm_filter_local : forall s, (forall b, In b s -> ws1 b = ws2 b) -> gfm_filter_ws ws1 s = gfm_filter_ws ws2 s.
  Proof.
    induction s as [|c r IH]; intro H; [reflexivity|].
    cbn [gfm_filter_ws]. rewrite (disallowed_local (c :: r) H). f_equal. apply IH.
    intros b Hb. apply H. right. exact Hb.
  Qed.

  (* a larger whitespace set only adds matches *)
  Hypothesis sub : forall b, ws1 b = true -> ws2 b = true.

  Lemma tag_end_mono r : tag_end ws1 r = true -> tag_end ws2 r = true.
  Proof.
    destruct r as [|c r]; [discriminate|]. cbn [tag_end]. intro H.
    apply orb_true_iff in H. destruct H as [H|H]; [|rewrite H; apply orb_true_r].
    apply orb_true_iff in H. destruct H as [H|H]; [rewrite (sub c H); reflexivity|].
    rewrite H. rewrite orb_true_r. reflexivity.
  Qed.

  Lemma name_then_end_mono r : name_then_end ws1 r = true -> name_then_end ws2 r = true.
  Proof.
    unfold name_then_end. intro H. apply existsb_exists in H. destruct H as [n [Hin H]].
    apply existsb_exists. exists n. split; [exact Hin|].
    apply andb_true_iff in H. destruct H as [H1 H2]. rewrite H1. cbn [andb]. apply tag_end_mono. exact H2.
  Qed.

  Lemma disallowed_mono s : disallowed_at_ws ws1 s = true -> disallowed_at_ws ws2 s = true.
  Proof.
    destruct s as [|c [|d r]]; try (intro H; exact H). cbn [disallowed_at_ws]. intro H.
    apply andb_true_iff in H. destruct H as [H1 H2]. rewrite H1. cbn [andb].
    destruct (beqb d x2f); apply name_then_end_mono; exact H2.
  Qed.
End TwoWs.

Lemma disallowed_tf_space s : disallowed_at_ws tf_space s = disallowed_at s.
Proof. apply disallowed_local. intros b _. apply tf_space_gfm. Qed.

Lemma gfm_filter_tf_space s : gfm_filter_ws tf_space s = gfm_filter s.
Proof. apply gfm_filter_local. intros b _. apply tf_space_gfm. Qed.

(* what the code does IS the GFM reading (line tabulation and form feed end a tag name too) *)
Lemma tagfilter_spec s : tagfilter s = Ok (disallowed_at s).
Proof. rewrite tagfilter_model, disallowed_tf_space. reflexivity. Qed.

Lemma tagfilter_block_spec s : tagfilter_block s = Ok (gfm_filter s).
Proof. rewrite tagfilter_block_model, gfm_filter_tf_space. reflexivity. Qed.

(* the witness of the repaired defect C14-a (tagfilter_vt_ff): LT title FF GT *)
Definition vtff_witness : bytes := [x3c; x74; x69; x74; x6c; x65; x0c; x3e].

(* the code never filters anything but a GFM-disallowed tag *)
Lemma tagfilter_sound s : tagfilter s = Ok true -> disallowed_at s = true.
Proof. rewrite tagfilter_spec. intro H. injection H as D. exact D. Qed.

(* ---------------------------------------------------------------- nothing else is altered *)

Section Structural.
  Variable ws : byte -> bool.
  Hypothesis ws_amp : ws x26 = false.

  Lemma concat_map_seq_shift (F : nat -> bytes) n :
    List.concat (map F (seq 0 (S n))) = F 0 ++ List.concat (map (fun i => F (S i)) (seq 0 n)).
  Proof. cbn [seq map List.concat]. rewrite <- seq_shift, map_map. reflexivity. Qed.

  (* gfm_filter s is s with the entity substituted exactly at the positions where a disallowed tag
     begins; every such position holds LT (disallowed_lt) *)
  Lemma filter_only_lt_ws : forall s,
    gfm_filter_ws ws s = subst_lt_at (fun i => disallowed_at_ws ws (skipn i s)) s.
  Proof.
    induction s as [|c r IH]; [reflexivity|].
    unfold subst_lt_at. cbn [List.length]. rewrite concat_map_seq_shift.
    cbn [gfm_filter_ws skipn firstn]. f_equal. rewrite IH. unfold subst_lt_at.
    f_equal.
  Qed.

  Lemma subst_length_ge P : forall s, List.length s <= List.length (subst_lt_at P s).
  Proof.
    intro s. unfold subst_lt_at.
    assert (G : forall k n, k + n <= List.length s ->
              n <= List.length (List.concat (map (fun i => if P i then lt_entity else firstn 1 (skipn i s)) (seq k n)))).
    { intros k n; revert k. induction n as [|n IH]; intros k Hk; [cbn; lia|].
      cbn [seq map List.concat]. rewrite app_length. specialize (IH (S k)).
      assert (1 <= List.length (if P k then lt_entity else firstn 1 (skipn k s))).
      { destruct (P k); [cbn; lia|]. rewrite firstn_length, skipn_length. lia. }
      lia. }
    apply (G 0). lia.
  Qed.

  (* ---------------------------------------------------------------- no such tag survives *)

  Lemma prefix_transfer : forall n r,
    (forall y, In y n -> beqb x26 y = false) ->
    name_prefix_ci (gfm_filter_ws ws r) n = true ->
    name_prefix_ci r n = true /\
    skipn (List.length n) (gfm_filter_ws ws r) = gfm_filter_ws ws (skipn (List.length n) r).
  Proof.
    induction n as [|y n IH]; intros r Hy H; [split; reflexivity|].
    destruct r as [|c r]; [cbn in H; discriminate|].
    cbn [gfm_filter_ws] in *. destruct (disallowed_at_ws ws (c :: r)) eqn:D.
    - cbn [lt_entity app name_prefix_ci] in H. rewrite ascii_lower_amp in H.
      rewrite (Hy y (or_introl eq_refl)) in H. discriminate.
    - cbn [app name_prefix_ci] in H. apply andb_true_iff in H. destruct H as [H1 H2].
      destruct (IH r (fun z Hz => Hy z (or_intror Hz)) H2) as [I1 I2].
      cbn [name_prefix_ci List.length skipn app]. rewrite H1, I1. split; [reflexivity|exact I2].
  Qed.

  Lemma head_transfer t (p : byte -> bool) : p x26 = false ->
    match gfm_filter_ws ws t with d :: _ => p d | [] => false end = true ->
    match t with d :: _ => p d | [] => false end = true.
  Proof.
    intros Hp. destruct t as [|d t]; [intro H; exact H|]. cbn [gfm_filter_ws].
    destruct (disallowed_at_ws ws (d :: t)); cbn [lt_entity app]; [rewrite Hp; discriminate|].
    intro H; exact H.
  Qed.

  Lemma tag_end_transfer t : tag_end ws (gfm_filter_ws ws t) = true -> tag_end ws t = true.
  Proof.
    destruct t as [|c t]; [intro H; exact H|]. cbn [gfm_filter_ws].
    destruct (disallowed_at_ws ws (c :: t)) eqn:D; cbn [lt_entity app tag_end].
    - rewrite ws_amp. replace (beqb x26 x3e) with false by reflexivity.
      replace (beqb x26 x2f) with false by reflexivity. discriminate.
    - intro H. apply orb_true_iff in H. destruct H as [H|H]; [rewrite H; reflexivity|].
      apply andb_true_iff in H. destruct H as [H1 H2]. rewrite H1.
      rewrite (head_transfer t (fun d => beqb d x3e) eq_refl H2). apply orb_true_r.
  Qed.

  Lemma name_then_end_transfer r : name_then_end ws (gfm_filter_ws ws r) = true -> name_then_end ws r = true.
  Proof.
    unfold name_then_end. intro H. apply existsb_exists in H. destruct H as [n [Hin H]].
    apply existsb_exists. exists n. split; [exact Hin|].
    apply andb_true_iff in H. destruct H as [H1 H2].
    destruct (name_facts n Hin) as [_ [Hamp _]].
    destruct (prefix_transfer n r Hamp H1) as [P1 P2]. rewrite P1. cbn [andb].
    apply tag_end_transfer. rewrite <- P2. exact H2.
  Qed.

  Lemma name_then_end_amp z : name_then_end ws (x26 :: z) = false.
  Proof.
    destruct (name_then_end ws (x26 :: z)) eqn:E; [|reflexivity]. exfalso.
    unfold name_then_end in E. apply existsb_exists in E. destruct E as [n [Hin H]].
    apply andb_true_iff in H. destruct H as [H _].
    destruct (name_facts n Hin) as [H3 [Hamp _]].
    destruct n as [|y n]; [cbn in H3; lia|].
    cbn [name_prefix_ci] in H. rewrite ascii_lower_amp, (Hamp y (or_introl eq_refl)) in H. discriminate.
  Qed.

  Lemma dis_transfer r :
    disallowed_at_ws ws (x3c :: gfm_filter_ws ws r) = true -> disallowed_at_ws ws (x3c :: r) = true.
  Proof.
    destruct r as [|c r]; [intro H; exact H|].
    cbn [disallowed_at_ws]. replace (beqb x3c x3c) with true by reflexivity. cbn [andb].
    destruct (disallowed_at_ws ws (c :: r)) eqn:D.
    - cbn [gfm_filter_ws]. rewrite D. cbn [lt_entity app].
      replace (beqb x26 x2f) with false by reflexivity. rewrite name_then_end_amp. discriminate.
    - assert (G : gfm_filter_ws ws (c :: r) = c :: gfm_filter_ws ws r)
        by (cbn [gfm_filter_ws]; rewrite D; reflexivity).
      rewrite G. destruct (beqb c x2f).
      + apply name_then_end_transfer.
      + rewrite <- G. apply name_then_end_transfer.
  Qed.

  Lemma filter_clean_ws : forall s, any_disallowed_ws ws (gfm_filter_ws ws s) = false.
  Proof.
    induction s as [|c r IH]; [reflexivity|].
    cbn [gfm_filter_ws]. destruct (disallowed_at_ws ws (c :: r)) eqn:D.
    - cbn [lt_entity app any_disallowed_ws].
      rewrite !dis_not_lt by reflexivity. cbn [orb]. exact IH.
    - cbn [app any_disallowed_ws]. rewrite IH, orb_false_r.
      destruct (beqb c x3c) eqn:C.
      + apply beqb_eq in C. subst c.
        destruct (disallowed_at_ws ws (x3c :: gfm_filter_ws ws r)) eqn:E; [|reflexivity].
        apply dis_transfer in E. congruence.
      + apply dis_not_lt. exact C.
  Qed.

  Lemma any_disallowed_skipn : forall o, any_disallowed_ws ws o = false ->
    forall i, disallowed_at_ws ws (skipn i o) = false.
  Proof.
    induction o as [|b o IH]; intros H i.
    - destruct i; reflexivity.
    - cbn [any_disallowed_ws] in H. apply orb_false_iff in H. destruct H as [H1 H2].
      destruct i as [|i]; [exact H1|]. cbn [skipn]. apply IH. exact H2.
  Qed.

  Lemma filter_clean_positions s i : disallowed_at_ws ws (skipn i (gfm_filter_ws ws s)) = false.
  Proof. apply any_disallowed_skipn. apply filter_clean_ws. Qed.

  (* idempotence: a second pass changes nothing *)
  Lemma gfm_filter_id_when_clean : forall o, any_disallowed_ws ws o = false -> gfm_filter_ws ws o = o.
  Proof.
    induction o as [|b o IH]; intro H; [reflexivity|].
    cbn [any_disallowed_ws] in H. apply orb_false_iff in H. destruct H as [H1 H2].
    cbn [gfm_filter_ws]. rewrite H1. cbn [app]. f_equal. apply IH. exact H2.
  Qed.

  Lemma filter_idempotent s : gfm_filter_ws ws (gfm_filter_ws ws s) = gfm_filter_ws ws s.
  Proof. apply gfm_filter_id_when_clean. apply filter_clean_ws. Qed.

  (* the end-to-end relation: the filtered text is the original with some LT written as the entity *)
  Lemma filter_lt_expansion : forall s, lt_expansion s (gfm_filter_ws ws s) = true.
  Proof.
    induction s as [|c r IH]; [reflexivity|].
    cbn [gfm_filter_ws]. destruct (disallowed_at_ws ws (c :: r)) eqn:D.
    - destruct (disallowed_lt ws _ D) as [r' E]. inversion E; subst c r'.
      cbn [lt_entity app lt_expansion starts_with skipn].
      rewrite IH. replace (beqb x3c x26) with false by reflexivity.
      rewrite !beqb_refl. reflexivity.
    - cbn [app lt_expansion]. rewrite beqb_refl, IH. reflexivity.
  Qed.
End Structural.

Lemma gfm_ws_amp : gfm_ws x26 = false. Proof. reflexivity. Qed.

(* no disallowed tag survives the code's filter *)
Lemma block_clean s o : tagfilter_block s = Ok o -> any_disallowed o = false.
Proof.
  intro H. rewrite tagfilter_block_spec in H. injection H as <-.
  exact (filter_clean_ws gfm_ws gfm_ws_amp s).
Qed.

(* ---------------------------------------------------------------- the two node renderers *)

Lemma block_payload_total e u t lit : exists o, html_block_payload e u t lit = Ok o.
Proof.
  unfold html_block_payload. destruct e; [apply escape_total|].
  destruct u; cbn [negb]; [|eauto]. destruct t; [apply tagfilter_block_total|eauto].
Qed.

Lemma inline_payload_exact lit :
  html_inline_payload false true true lit = Ok (lt_escape_first lit).
Proof.
  unfold html_inline_payload. cbn [negb]. rewrite tagfilter_spec. cbn [bind].
  unfold lt_escape_first, lt_escape_first_ws. fold disallowed_at.
  destruct (disallowed_at lit) eqn:D; [|reflexivity].
  destruct (disallowed_lt _ _ D) as [r E]. subst lit. reflexivity.
Qed.

Lemma inline_payload_total e u t lit : exists o, html_inline_payload e u t lit = Ok o.
Proof.
  destruct e; [apply escape_total|]. destruct u; [|cbn; eauto].
  destruct t; [rewrite inline_payload_exact; eauto|cbn; eauto].
Qed.

Lemma block_payload_exact lit :
  html_block_payload false true true lit = Ok (gfm_filter lit) /\
  html_block_payload false true false lit = Ok lit.
Proof. split; [apply tagfilter_block_spec|reflexivity]. Qed.

Lemma inline_payload_off lit : html_inline_payload false true false lit = Ok lit.
Proof. reflexivity. Qed.

Lemma payload_option_irrelevant e u lit : e || negb u = true ->
  html_block_payload e u true lit = html_block_payload e u false lit /\
  html_inline_payload e u true lit = html_inline_payload e u false lit.
Proof. destruct e, u; cbn; try discriminate; intros _; split; reflexivity. Qed.

Lemma block_lt_expansion s o : tagfilter_block s = Ok o -> lt_expansion s o = true.
Proof.
  intro H. rewrite tagfilter_block_spec in H. injection H as <-.
  exact (filter_lt_expansion gfm_ws s).
Qed.

Lemma inline_cascade lit :
  html_inline_payload false true true lit = Ok (lt_escape_first lit) /\
  html_inline_payload false true false lit = Ok lit.
Proof. split; [apply inline_payload_exact | apply inline_payload_off]. Qed.
