(* Proofs/TagfilterProofs.v — lemmas behind Props/C14.v *)
From Coq Require Import List NArith Bool Lia Arith Strings.String.
From V Require Import Base.Bytes Base.Res Gen.Ctype Gen.Tagfilter Model.Escape Model.Tagfilter
  Spec.GfmFilter Proofs.EscapeProofs.
Import ListNotations.
Local Open Scope list_scope.

(* ---------------------------------------------------------------- finite facts *)

(* comrak's isspace (regenerated ctype table) is space, tab, LF, CR *)
Lemma isspace_is_narrow : forall b, Bool.eqb (isspace b) (narrow_ws b) = true.
Proof. apply forall_bytes. vm_compute. reflexivity. Qed.

Lemma isspace_narrow b : isspace b = narrow_ws b.
Proof. apply eqb_prop. apply isspace_is_narrow. Qed.

Lemma narrow_vs_gfm_all : forall b,
  Bool.eqb (narrow_ws b) (gfm_ws b && negb (beqb b x0b || beqb b x0c)) = true.
Proof. apply forall_bytes. vm_compute. reflexivity. Qed.

Lemma narrow_vs_gfm b : narrow_ws b = gfm_ws b && negb (beqb b x0b || beqb b x0c).
Proof. apply eqb_prop. apply narrow_vs_gfm_all. Qed.

Lemma lower_agree_all : forall b, beqb (to_lower_ascii b) (ascii_lower b) = true.
Proof. apply forall_bytes. vm_compute. reflexivity. Qed.

Lemma lower_agree b : to_lower_ascii b = ascii_lower b.
Proof. apply beqb_eq. apply lower_agree_all. Qed.

Lemma ascii_lower_amp : ascii_lower x26 = x26.
Proof. vm_compute. reflexivity. Qed.

(* the regenerated blacklist is the GFM list *)
Lemma blacklist_is_gfm : tagfilter_blacklist = gfm_disallowed_names.
Proof. vm_compute. reflexivity. Qed.

Definition name_ok (n : bytes) : bool :=
  Nat.leb 3 (List.length n) &&
  forallb (fun y => negb (beqb x26 y) && beqb (to_lower_ascii y) y) n.

Lemma names_ok : forallb name_ok gfm_disallowed_names = true.
Proof. vm_compute. reflexivity. Qed.

Lemma name_facts n : In n gfm_disallowed_names ->
  3 <= List.length n /\
  (forall y, In y n -> beqb x26 y = false) /\
  (forall y, In y n -> to_lower_ascii y = y).
Proof.
  intro Hin. pose proof names_ok as H. rewrite forallb_forall in H. specialize (H n Hin).
  unfold name_ok in H. apply andb_true_iff in H. destruct H as [H1 H2].
  apply Nat.leb_le in H1. rewrite forallb_forall in H2. split; [exact H1|]. split.
  - intros y Hy. specialize (H2 y Hy). apply andb_true_iff in H2. destruct H2 as [H2 _].
    apply negb_true_iff in H2. exact H2.
  - intros y Hy. specialize (H2 y Hy). apply andb_true_iff in H2. destruct H2 as [_ H2].
    apply beqb_eq. exact H2.
Qed.

(* no name is a proper prefix of another: at most one name can match at a position *)
Definition prefix_free (names : list bytes) : bool :=
  forallb (fun a => forallb (fun b => bytes_eqb a b || negb (starts_with b a)) names) names.

Lemma names_prefix_free : prefix_free gfm_disallowed_names = true.
Proof. vm_compute. reflexivity. Qed.

(* ---------------------------------------------------------------- list helpers *)

Lemma skipn_cons_nth {A} : forall n (l : list A) c r,
  skipn n l = c :: r ->
  nth_error l n = Some c /\ skipn (S n) l = r /\ List.length l = n + S (List.length r).
Proof.
  induction n as [|n IH]; intros l c r H.
  - cbn [skipn] in H. subst l. repeat split.
  - destruct l as [|x l]; [cbn in H; discriminate|].
    cbn [skipn] in H. destruct (IH l c r H) as [H1 [H2 H3]].
    repeat split.
    + exact H1.
    + exact H2.
    + cbn [List.length]. lia.
Qed.

Lemma skipn_nonempty {A} : forall n (l : list A), n < List.length l -> exists c r, skipn n l = c :: r.
Proof.
  intros n l H. destruct (skipn n l) as [|c r] eqn:E.
  - pose proof (skipn_length n l) as HL. rewrite E in HL. cbn in HL. lia.
  - eauto.
Qed.

Lemma nth_error_app_r {A} (pre l : list A) n :
  nth_error (pre ++ l) (List.length pre + n) = nth_error l n.
Proof. rewrite nth_error_app2 by lia. f_equal. lia. Qed.

(* ---------------------------------------------------------------- case-insensitive prefix *)

Lemma name_prefix_ci_length : forall n s, name_prefix_ci s n = true -> List.length n <= List.length s.
Proof.
  induction n as [|y n IH]; intros s H; cbn [List.length]; [lia|].
  destruct s as [|x s]; cbn [name_prefix_ci] in H; [discriminate|].
  apply andb_true_iff in H. destruct H as [_ H]. apply IH in H. cbn [List.length]. lia.
Qed.

Lemma eq_ci_firstn : forall t rest,
  (forall y, In y t -> to_lower_ascii y = y) ->
  List.length t <= List.length rest ->
  eq_ignore_ascii_case (firstn (List.length t) rest) t = name_prefix_ci rest t.
Proof.
  induction t as [|y t IH]; intros rest Hl Hlen.
  - cbn. reflexivity.
  - destruct rest as [|x rest]; [cbn in Hlen; lia|].
    cbn [List.length firstn eq_ignore_ascii_case name_prefix_ci].
    unfold byte_eq_ignore_ascii_case. rewrite (Hl y (or_introl eq_refl)). rewrite lower_agree.
    f_equal. apply IH.
    + intros z Hz. apply Hl. right. exact Hz.
    + cbn [List.length] in Hlen. lia.
Qed.

Lemma prefix_chain : forall a b s,
  name_prefix_ci s a = true -> name_prefix_ci s b = true ->
  List.length a <= List.length b -> starts_with b a = true.
Proof.
  induction a as [|x a IH]; intros b s Ha Hb Hlen.
  - destruct b; reflexivity.
  - destruct b as [|y b]; [cbn in Hlen; lia|].
    destruct s as [|c s]; [cbn in Ha; discriminate|].
    cbn [name_prefix_ci] in Ha, Hb. cbn [starts_with].
    apply andb_true_iff in Ha. destruct Ha as [Ha1 Ha2].
    apply andb_true_iff in Hb. destruct Hb as [Hb1 Hb2].
    apply beqb_eq in Ha1. apply beqb_eq in Hb1. subst x. subst y. rewrite beqb_refl. cbn [andb].
    apply (IH b s Ha2 Hb2). cbn [List.length] in Hlen. lia.
Qed.

Lemma unique_match : forall names, prefix_free names = true ->
  forall s a b, In a names -> In b names ->
  name_prefix_ci s a = true -> name_prefix_ci s b = true -> a = b.
Proof.
  intros names PF s a b Ia Ib Ha Hb. unfold prefix_free in PF. rewrite forallb_forall in PF.
  destruct (le_ge_dec (List.length a) (List.length b)) as [L|L].
  - pose proof (prefix_chain a b s Ha Hb L) as P.
    specialize (PF a Ia). rewrite forallb_forall in PF. specialize (PF b Ib).
    rewrite P in PF. cbn [negb] in PF. rewrite orb_false_r in PF. apply bytes_eqb_eq. exact PF.
  - pose proof (prefix_chain b a s Hb Ha L) as P.
    specialize (PF b Ib). rewrite forallb_forall in PF. specialize (PF a Ia).
    rewrite P in PF. cbn [negb] in PF. rewrite orb_false_r in PF. symmetry. apply bytes_eqb_eq. exact PF.
Qed.

(* ---------------------------------------------------------------- tagfilter *)

Lemma tf_terminator_spec : forall pre rest n,
  n < List.length rest ->
  tf_terminator (pre ++ rest) (List.length pre + n) = Ok (tag_end isspace (skipn n rest)).
Proof.
  intros pre rest n Hn. destruct (skipn_nonempty n rest Hn) as [c [r E]].
  destruct (skipn_cons_nth n rest c r E) as [N1 [N2 N3]].
  unfold tf_terminator, idx. rewrite nth_error_app_r, N1. cbn [bind]. rewrite E. cbn [tag_end].
  destruct (isspace c); [reflexivity|]. cbn [orb].
  destruct (beqb c x3e); [reflexivity|]. cbn [orb].
  destruct (beqb c x2f); [|reflexivity]. cbn [andb].
  rewrite app_length, N3.
  destruct r as [|d r'].
  - cbn [List.length]. replace (Nat.leb _ _) with false; [reflexivity|].
    symmetry. apply Nat.leb_gt. lia.
  - cbn [List.length]. replace (Nat.leb _ _) with true by (symmetry; apply Nat.leb_le; lia).
    destruct (skipn_cons_nth (S n) rest d r' N2) as [M1 _].
    replace (List.length pre + n + 1) with (List.length pre + S n) by lia.
    rewrite nth_error_app_r, M1. reflexivity.
Qed.

Definition name_hit (r : bytes) (n : bytes) : bool :=
  name_prefix_ci r n && tag_end isspace (skipn (List.length n) r).

Lemma tf_names_spec : forall names pre rest,
  (forall t, In t names -> forall y, In y t -> to_lower_ascii y = y) ->
  (forall a b, In a names -> In b names ->
     name_prefix_ci rest a = true -> name_prefix_ci rest b = true -> a = b) ->
  tf_names (pre ++ rest) rest (List.length pre) names = Ok (existsb (name_hit rest) names).
Proof.
  induction names as [|t names IH]; intros pre rest Hlow Huniq; [reflexivity|].
  cbn [tf_names existsb].
  assert (IH' : tf_names (pre ++ rest) rest (List.length pre) names = Ok (existsb (name_hit rest) names)).
  { apply IH.
    - intros t' Ht'. apply Hlow. right. exact Ht'.
    - intros a b Ia Ib. apply Huniq; right; assumption. }
  destruct (Nat.ltb (List.length t) (List.length rest)) eqn:L.
  - apply Nat.ltb_lt in L. unfold slice_to.
    replace (Nat.leb (List.length t) (List.length rest)) with true by (symmetry; apply Nat.leb_le; lia).
    cbn [bind]. rewrite eq_ci_firstn; [|apply Hlow; left; reflexivity|lia].
    unfold name_hit at 1. destruct (name_prefix_ci rest t) eqn:M.
    + rewrite tf_terminator_spec by exact L. cbn [andb].
      destruct (tag_end isspace (skipn (List.length t) rest)) eqn:T; [reflexivity|]. cbn [orb].
      destruct (existsb (name_hit rest) names) eqn:E; [|reflexivity]. exfalso.
      apply existsb_exists in E. destruct E as [x [Hx Hh]]. unfold name_hit in Hh.
      apply andb_true_iff in Hh. destruct Hh as [Hp Ht].
      assert (x = t) by (apply Huniq; [right; exact Hx|left; reflexivity|exact Hp|exact M]).
      subst x. congruence.
    + cbn [andb orb]. exact IH'.
  - apply Nat.ltb_ge in L. rewrite IH'. f_equal.
    assert (name_hit rest t = false) as ->; [|reflexivity].
    unfold name_hit. destruct (name_prefix_ci rest t) eqn:M; [|reflexivity].
    apply name_prefix_ci_length in M. rewrite skipn_all2 by lia. reflexivity.
Qed.

Lemma name_then_end_length ws r : name_then_end ws r = true -> 4 <= List.length r.
Proof.
  unfold name_then_end. intro H. apply existsb_exists in H. destruct H as [n [Hin H]].
  apply andb_true_iff in H. destruct H as [Hp Ht].
  destruct (name_facts n Hin) as [H3 _]. apply name_prefix_ci_length in Hp.
  destruct (skipn (List.length n) r) as [|c q] eqn:E; [cbn in Ht; discriminate|].
  pose proof (skipn_length (List.length n) r) as HL. rewrite E in HL. cbn [List.length] in HL. lia.
Qed.

Lemma disallowed_length ws s : disallowed_at_ws ws s = true -> 5 <= List.length s.
Proof.
  destruct s as [|c [|d r]]; cbn [disallowed_at_ws]; try discriminate.
  - rewrite andb_false_r. discriminate.
  - intro H. apply andb_true_iff in H. destruct H as [_ H].
    destruct (beqb d x2f); apply name_then_end_length in H; cbn [List.length] in *; lia.
Qed.

Lemma disallowed_lt ws s : disallowed_at_ws ws s = true -> exists r, s = x3c :: r.
Proof.
  destruct s as [|c r]; cbn [disallowed_at_ws]; [discriminate|].
  intro H. apply andb_true_iff in H. destruct H as [H _]. apply beqb_eq in H. subst c. eauto.
Qed.

Lemma dis_not_lt ws c l : beqb c x3c = false -> disallowed_at_ws ws (c :: l) = false.
Proof. intro H. cbn [disallowed_at_ws]. rewrite H. reflexivity. Qed.

Lemma name_then_end_hit r :
  name_then_end isspace r = existsb (name_hit r) gfm_disallowed_names.
Proof. reflexivity. Qed.

Lemma dis_short ws s : List.length s < 5 -> disallowed_at_ws ws s = false.
Proof.
  intro H. destruct (disallowed_at_ws ws s) eqn:D; [apply disallowed_length in D; lia|reflexivity].
Qed.

(* the model computes exactly the spec predicate instantiated with comrak's isspace; total *)
Lemma tagfilter_model s : tagfilter s = Ok (disallowed_at_ws isspace s).
Proof.
  assert (Hlow : forall t, In t tagfilter_blacklist -> forall y, In y t -> to_lower_ascii y = y)
    by (rewrite blacklist_is_gfm; intros t Ht; apply (name_facts t Ht)).
  assert (Huniq : forall rest a b, In a tagfilter_blacklist -> In b tagfilter_blacklist ->
         name_prefix_ci rest a = true -> name_prefix_ci rest b = true -> a = b)
    by (rewrite blacklist_is_gfm; intros rest; apply unique_match; exact names_prefix_free).
  destruct s as [|c0 [|c1 [|c2 tl]]].
  1-3: rewrite dis_short by (cbn [List.length]; lia); reflexivity.
  unfold tagfilter.
  replace (Nat.ltb (List.length (c0 :: c1 :: c2 :: tl)) 3) with false by reflexivity.
  unfold idx; cbn [nth_error bind]. cbn [disallowed_at_ws].
  destruct (beqb c0 x3c); cbn [negb andb]; [|reflexivity].
  destruct (beqb c1 x2f); unfold slice_from.
  - replace (Nat.leb 2 (List.length (c0 :: c1 :: c2 :: tl))) with true by reflexivity.
    cbn [bind skipn].
    change (c0 :: c1 :: c2 :: tl) with ([c0; c1] ++ c2 :: tl).
    change 2 with (List.length [c0; c1]).
    rewrite tf_names_spec; [|exact Hlow|apply Huniq]. rewrite blacklist_is_gfm. reflexivity.
  - replace (Nat.leb 1 (List.length (c0 :: c1 :: c2 :: tl))) with true by reflexivity.
    cbn [bind skipn].
    change (c0 :: c1 :: c2 :: tl) with ([c0] ++ c1 :: c2 :: tl) at 1.
    change 1 with (List.length [c0]).
    rewrite tf_names_spec; [|exact Hlow|apply Huniq]. rewrite blacklist_is_gfm. reflexivity.
Qed.
