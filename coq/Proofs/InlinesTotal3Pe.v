(* Proofs/InlinesTotal3Pe.v — C01, inline phase, third wave: process_emphasis / insert_emph NEVER panic when the
   delimiters they are given embed (in stack order) into the sibling list they are given (invariant (S),
   InlinesTotal3Emb.v), sibling ids are unique, the id counter is fresh and column_offset >= -pos.
   This excludes the eight insert_emph sites and the two text_mut().unwrap() sites of process_emphasis.
   The zipper of pe_loop (below, closer, above) read bottom-up is `rev below ++ closer :: above`; every branch
   of the loop leaves a SUBLIST of it embedded in the new item list:
     insert_emph   removes the delimiters between opener and closer, shrinks or removes the two Texts
                   (k copies -> k - use_delims copies; end column of the opener lowered by use_delims, start
                   column of the closer raised: end column >= number of copies is kept), adds a non-Text node
                   with the fresh id;
     quotes        rewrites two quote Texts into other quote Texts;
     otherwise     the closer moves up or leaves.
   No axioms. *)
From Coq Require Import List NArith ZArith Arith Bool Strings.String Lia.
From V Require Import Base.Bytes Base.Res Gen.StrLeafGen Model.Strings Model.Spx Model.Ast Model.Inlines
     Proofs.InlinesProofs Proofs.InertInlines Proofs.InlinesTotal Proofs.InlinesTotal2Pe Proofs.InlinesTotal3Emb.
Import ListNotations.
Local Open Scope list_scope.

Lemma text_of_set_text n t : text_of (set_text n t) = Some t.
Proof. destruct n. reflexivity. Qed.
Lemma nsp_set_text n t : nsp (set_text n t) = nsp n.
Proof. destruct n. reflexivity. Qed.
Lemma nsp_set_sp n sp : nsp (set_sp n sp) = sp.
Proof. destruct n. reflexivity. Qed.

Lemma mk_panic' s v a b site : mk s v a b = Panic site ->
  ((Z.of_nat a + 1 + coloff s + Z.of_N (lineoff s) < 0)%Z \/ (Z.of_nat b + 1 + coloff s + Z.of_N (lineoff s) < 0)%Z).
Proof.
  unfold mk, make_inline_cols, to_usize. rewrite !nat_N_Z.
  destruct (_ <? 0)%Z eqn:E1; cbn [bind].
  - intros _. left. apply Z.ltb_lt in E1. exact E1.
  - match goal with |- context [if ?b then _ else _] => destruct b eqn:E2 end; cbn [bind]; [|intro H; discriminate H].
    intros _. right. apply Z.ltb_lt in E2. exact E2.
Qed.

Lemma firstn_repeat {A} (x : A) : forall n k, firstn n (repeat x k) = repeat x (Nat.min n k).
Proof.
  induction n as [|n IH]; intros [|k]; cbn [firstn repeat Nat.min]; try reflexivity. rewrite IH. reflexivity.
Qed.

Lemma bq_notin img : In (btext img) qtexts -> False.
Proof.
  intro H. destruct img; cbn in H; repeat (destruct H as [H|H]; [discriminate H|]); destruct H.
Qed.

Section Pe.
Variable o : iopts.

(* ------------------------------------------------------------------ insert_emph *)
Lemma insert_emph_S s n0 items op c R M above :
  (- coloff s <= Z.of_nat (pos s))%Z ->
  quote (d_char op) = false -> quote (d_char c) = false ->
  emb (map ED (R ++ op :: M ++ c :: above)) items -> uniq items ->
  insert_emph o s n0 items op c = Ok None \/
  exists items' ko kc, insert_emph o s n0 items op c = Ok (Some (items', ko, kc, S n0))
    /\ emb (map ED (R ++ (if ko then [op] else []) ++ (if kc then [c] else []) ++ above)) items'
    /\ (forall j, idc items' j <= idc items j + (if Nat.eqb n0 j then 1 else 0)).
Proof.
  intros C Qo Qc E U. unfold insert_emph.
  rewrite map_app in E. cbn [map] in E.
  destruct (split_at_id (d_id op) items) as [[[pre opi] rest1]|] eqn:Es1.
  2:{ exfalso. revert Es1. apply split_at_id_some. apply (emb_ids _ _ E (ED op)). apply in_or_app. right. left. reflexivity. }
  apply split_at_id_eq in Es1. destruct Es1 as [-> Hop].
  destruct (emb_split _ (ED op) _ _ _ _ U Hop E) as (E1 & N1 & E2).
  rewrite map_app in E2. cbn [map] in E2.
  assert (uniq rest1) as U1.
  { intro j. specialize (U j). rewrite idc_app in U. cbn [idc] in U. lia. }
  destruct (split_at_id (d_id c) rest1) as [[[mid cli] post]|] eqn:Es2.
  2:{ exfalso. revert Es2. apply split_at_id_some. apply (emb_ids _ _ E2 (ED c)). apply in_or_app. right. left. reflexivity. }
  apply split_at_id_eq in Es2. destruct Es2 as [-> Hcl].
  destruct (emb_split _ (ED c) _ _ _ _ U1 Hcl E2) as (_ & N2 & E3).
  destruct N1 as [_ (ot & Eot & Dot & Cot)]. destruct N2 as [_ (ct & Ect & Dct & Cct)].
  rewrite Eot, Ect. unfold dtext in Dot, Dct. rewrite Qo in Dot. rewrite Qc in Dct.
  destruct Dot as (k1 & Hk1 & Hk1' & ->). destruct Dct as (k2 & Hk2 & Hk2' & ->).
  specialize (Cot Qo). specialize (Cct Qc). rewrite repeat_length in Cot, Cct.
  destruct k1 as [|k1]; [lia|]. cbn [repeat].
  change (d_char op :: repeat (d_char op) k1) with (repeat (d_char op) (S k1)).
  cbv zeta. rewrite !repeat_length.
  set (ud := if Nat.leb 2 k2 && Nat.leb 2 (S k1) then 2 else 1).
  assert (1 <= ud /\ ud <= S k1 /\ ud <= k2) as (Hu1 & Hu2 & Hu3).
  { unfold ud. destruct (Nat.leb 2 k2) eqn:A1; destruct (Nat.leb 2 (S k1)) eqn:A2; cbn [andb];
      try apply Nat.leb_le in A1; try apply Nat.leb_le in A2; lia. }
  unfold usub.
  destruct (Nat.ltb (S k1) ud) eqn:L1; [apply Nat.ltb_lt in L1; lia|]. cbn [bind].
  destruct (Nat.ltb k2 ud) eqn:L2; [apply Nat.ltb_lt in L2; lia|]. cbn [bind].
  match goal with |- context [if ?b then Ok None else _] => destruct b end; [left; reflexivity|]. right.
  destruct (mk s (emph_value o (d_char op) ud) (pos s) (pos s)) as [tmp|site|] eqn:Emk; cbn [bind].
  2:{ exfalso. apply mk_panic' in Emk. lia. }
  2:{ exfalso. revert Emk. apply mk_nofuel. }
  unfold nsub.
  destruct (ec (nsp (snd cli)) <? N.of_nat (k2 - ud))%N eqn:L3; [apply N.ltb_lt in L3; lia|]. cbn [bind].
  set (emph := Node (nval tmp) _ (map snd mid)).
  assert (exists opl,
     (if Nat.eqb (S k1 - ud) 0 then Ok []
      else
        do c0 <- (if (ec (nsp (snd opi)) <? N.of_nat ud)%N
                  then Panic "inlines.rs:insert_emph:opener end.column-use_delims"%string
                  else Ok (ec (nsp (snd opi)) - N.of_nat ud)%N);
        Ok [(fst opi, set_sp (set_text (snd opi) (firstn (S k1 - ud) (repeat (d_char op) (S k1))))
                             (mkSp (sl (nsp (snd opi))) (sc (nsp (snd opi))) (el (nsp (snd opi))) c0))]) = Ok opl
     /\ emb (map ED (if negb (Nat.eqb (S k1 - ud) 0) then [op] else [])) opl
     /\ (forall j, idc opl j <= (if Nat.eqb (fst opi) j then 1 else 0))) as (opl & -> & Eopl & Iopl).
  { destruct (Nat.eqb (S k1 - ud) 0) eqn:Z1; cbn [negb].
    - exists []. split; [reflexivity|]. split; [apply emb_nil|]. intro j. cbn [idc]. lia.
    - apply Nat.eqb_neq in Z1.
      destruct (ec (nsp (snd opi)) <? N.of_nat ud)%N eqn:L4; [apply N.ltb_lt in L4; lia|]. cbn [bind].
      eexists. split; [reflexivity|]. split.
      + apply emb_one. split; [cbn [fst eid]; exact Hop|].
        exists (repeat (d_char op) (S k1 - ud)). cbn [snd]. split; [|split].
        * rewrite text_of_set, firstn_repeat. f_equal. f_equal. lia.
        * unfold dtext. rewrite Qo. exists (S k1 - ud). split; [lia|]. split; [lia|reflexivity].
        * intros _. rewrite nsp_set_sp, repeat_length. cbn [ec]. apply N.ltb_ge in L4. lia.
      + intro j. cbn [idc fst]. lia. }
  cbn [bind].
  set (cll := if Nat.eqb (k2 - ud) 0 then [] else _).
  assert (emb (map ED (if negb (Nat.eqb (k2 - ud) 0) then [c] else [])) cll
          /\ (forall j, idc cll j <= (if Nat.eqb (fst cli) j then 1 else 0))) as (Ecll & Icll).
  { unfold cll. destruct (Nat.eqb (k2 - ud) 0) eqn:Z2; cbn [negb].
    - split; [apply emb_nil|]. intro j. cbn [idc]. lia.
    - apply Nat.eqb_neq in Z2. split.
      + apply emb_one. split; [cbn [fst eid]; exact Hcl|].
        exists (repeat (d_char c) (k2 - ud)). cbn [snd]. split; [|split].
        * rewrite text_of_set, firstn_repeat. f_equal. f_equal. lia.
        * unfold dtext. rewrite Qc. exists (k2 - ud). split; [lia|]. split; [lia|reflexivity].
        * intros _. rewrite nsp_set_sp, repeat_length. cbn [ec]. lia.
      + intro j. cbn [idc fst]. lia. }
  clearbody cll emph.
  exists (pre ++ opl ++ [(n0, emph)] ++ cll ++ post), (negb (Nat.eqb (S k1 - ud) 0)), (negb (Nat.eqb (k2 - ud) 0)).
  split; [reflexivity|]. split.
  - rewrite !map_app. apply emb_app; [exact E1|]. apply emb_app; [exact Eopl|].
    cbn [app]. apply emb_skip. apply emb_app; [exact Ecll|exact E3].
  - intro j. specialize (Iopl j). specialize (Icll j). rewrite !idc_app. cbn [idc fst]. rewrite !idc_app. cbn [idc].
    destruct (Nat.eqb n0 j); lia.
Qed.

(* ------------------------------------------------------------------ the quote branch *)
Lemma replace_S site es c q items :
  emb es items -> uniq items -> In (ED c) es -> quote (d_char c) = true -> In q qtexts ->
  exists items', replace_item_text site (d_id c) q items = Ok items'
    /\ emb es items' /\ (forall j, idc items' j = idc items j).
Proof.
  intros E U Hin Qc Hq. unfold replace_item_text.
  destruct (split_at_id (d_id c) items) as [[[a it] b]|] eqn:Es.
  2:{ exfalso. revert Es. apply split_at_id_some. apply (emb_ids _ _ E (ED c) Hin). }
  apply split_at_id_eq in Es. destruct Es as [-> Hid].
  apply in_split in Hin. destruct Hin as (A & B & HAB). pose proof E as E0. rewrite HAB in E0.
  destruct (emb_split _ (ED c) _ _ _ _ U Hid E0) as (_ & N & _).
  destruct N as [_ (t & Et & Dt & _)]. rewrite Et. unfold dtext in Dt. rewrite Qc in Dt.
  eexists. split; [reflexivity|]. split.
  - cbn [app]. apply (emb_replace it); [|exact E].
    intros e _ [He1 He2]. split; [exact He1|]. cbn [snd]. destruct e as [d'|i p g].
    + destruct He2 as (t' & Et' & Dt' & _). rewrite Et in Et'. inversion Et'; subst t'.
      exists q. split; [apply text_of_set_text|]. unfold dtext in *.
      destruct (quote (d_char d')) eqn:Qd; [split; [exact Hq|intro K; discriminate K]|].
      exfalso. destruct Dt' as (k & _ & _ & Hk). eapply repeat_not_quote; eassumption.
    + exfalso. rewrite Et in He2. inversion He2; subst t. eapply bq_notin. exact Dt.
  - intro j. rewrite !idc_app. cbn [app idc fst]. lia.
Qed.

(* ------------------------------------------------------------------ the loop *)
Lemma uniq_fresh_step items items' n0 :
  uniq items -> fresh items n0 -> (forall j, idc items' j <= idc items j + (if Nat.eqb n0 j then 1 else 0)) ->
  uniq items' /\ fresh items' (S n0).
Proof.
  intros U F H. split.
  - intro j. specialize (H j). specialize (U j). destruct (Nat.eqb n0 j) eqn:E; [|lia].
    apply Nat.eqb_eq in E. subst j. rewrite (F n0) in H by lia. lia.
  - intros k Hk. specialize (H k). rewrite (F k) in H by lia.
    assert (Nat.eqb n0 k = false) as E by (apply Nat.eqb_neq; lia). rewrite E in H. lia.
Qed.

Lemma pe_loop_S : forall fuel s n0 items ob below cs site,
  (- coloff s <= Z.of_nat (pos s))%Z ->
  Forall (fun d => dchar_ok o (d_char d) = true) cs ->
  emb (map ED (rev below ++ cs)) items -> uniq items -> fresh items n0 ->
  pe_loop o fuel s n0 items ob below (hd_error cs) (tl cs) = Panic site -> False.
Proof.
  induction fuel as [|f IH]; intros s n0 items ob below cs site C Hok E U F H; [discriminate|].
  cbn [pe_loop] in H. destruct cs as [|c above]; cbn [hd_error tl] in H; [discriminate|].
  destruct (hd_tl_next above) as [E1 E2]. rewrite E1, E2 in H. clear E1 E2.
  inversion Hok as [|? ? Hc Hab]; subst.
  assert (emb (map ED (rev (c :: below) ++ above)) items) as Eup.
  { cbn [rev]. rewrite <- app_assoc. exact E. }
  assert (emb (map ED (rev below ++ above)) items) as Edrop.
  { rewrite map_app in *. cbn [map] in E. eapply emb_drop. exact E. }
  destruct (d_close c); [|eapply IH; [exact C|exact Hab|exact Eup|exact U|exact F|exact H]].
  destruct (ob_index_ok o c Hc) as [ix Eix]. rewrite Eix in H. cbn [bind] in H.
  destruct (find_opener c (nth ix ob 0) below [] false) as [found mod3] eqn:Ef.
  assert (forall ob', pe_loop o f s n0 items ob' (if d_open c then c :: below else below) (hd_error above) (tl above)
                      = Panic site -> False) as Hnf.
  { intros ob' H'. destruct (d_open c); eapply IH; [exact C|exact Hab|exact Eup|exact U|exact F|exact H'
                                                    |exact C|exact Hab|exact Edrop|exact U|exact F|exact H']. }
  destruct (is_emph_char o (d_char c)) eqn:Eem.
  - destruct found as [[[between op] rest]|]; [|eapply Hnf; exact H].
    pose proof (find_opener_inside _ _ _ _ _ _ _ _ _ Ef) as Hsplit. cbn [rev app] in Hsplit.
    pose proof (find_opener_props _ _ _ _ _ _ _ _ _ Ef) as (_ & Hch & _). apply beqb_eq in Hch.
    pose proof (emph_not_quote o _ Eem) as Qc.
    assert (quote (d_char op) = false) as Qo by (rewrite Hch; exact Qc).
    assert (emb (map ED (rev rest ++ op :: rev between ++ c :: above)) items) as E'.
    { rewrite Hsplit in E. rewrite rev_app_distr in E. cbn [rev] in E. rewrite <- !app_assoc in E. cbn [app] in E. exact E. }
    destruct (insert_emph_S s n0 items op c (rev rest) (rev between) above C Qo Qc E' U) as [Ei|(items' & ko & kc & Ei & E2 & I2)];
      rewrite Ei in H; cbn [bind] in H; [discriminate H|].
    destruct (uniq_fresh_step items items' n0 U F I2) as [U' F'].
    destruct kc.
    + eapply (IH _ _ _ _ _ (c :: above)); [exact C|exact Hok| |exact U'|exact F'|exact H].
      destruct ko; cbn [rev app] in *; [rewrite <- app_assoc; cbn [app]|]; exact E2.
    + eapply IH; [exact C|exact Hab| |exact U'|exact F'|exact H].
      destruct ko; cbn [rev app] in *; [rewrite <- app_assoc; cbn [app]|]; exact E2.
  - unfold dchar_ok in Hc. rewrite Eem in Hc. cbn [orb] in Hc. pose proof Hc as Qc. unfold quote in Hc. rewrite Hc in H.
    assert (In (ED c) (map ED (rev below ++ c :: above))) as Hcin.
    { apply in_map. apply in_or_app. right. left. reflexivity. }
    match type of H with bind (replace_item_text ?st _ ?q _) _ = _ =>
      destruct (replace_S st _ c q items E U Hcin Qc) as (items1 & Er1 & E1' & I1) end.
    { destruct (beqb (d_char c) x27); cbn; auto. }
    rewrite Er1 in H. cbn [bind] in H.
    assert (uniq items1) as U1 by (intro j; rewrite I1; apply U).
    assert (fresh items1 n0) as F1 by (intros k Hk; rewrite I1; apply F, Hk).
    destruct found as [[[between op] rest]|].
    2:{ assert (emb (map ED (rev (c :: below) ++ above)) items1) as Eup1.
        { cbn [rev]. rewrite <- app_assoc. exact E1'. }
        assert (emb (map ED (rev below ++ above)) items1) as Edrop1.
        { rewrite map_app in *. cbn [map] in E1'. eapply emb_drop. exact E1'. }
        destruct (d_open c); eapply IH; [exact C|exact Hab|exact Eup1|exact U1|exact F1|exact H
                                        |exact C|exact Hab|exact Edrop1|exact U1|exact F1|exact H]. }
    pose proof (find_opener_inside _ _ _ _ _ _ _ _ _ Ef) as Hsplit. cbn [rev app] in Hsplit.
    pose proof (find_opener_props _ _ _ _ _ _ _ _ _ Ef) as (_ & Hch & _). apply beqb_eq in Hch.
    assert (quote (d_char op) = true) as Qo by (rewrite Hch; exact Qc).
    assert (In (ED op) (map ED (rev below ++ c :: above))) as Hoin.
    { apply in_map. apply in_or_app. left. apply in_rev. rewrite rev_involutive, Hsplit. apply in_or_app. right. left. reflexivity. }
    match type of H with bind (replace_item_text ?st _ ?q _) _ = _ =>
      destruct (replace_S st _ op q items1 E1' U1 Hoin Qo) as (items2 & Er2 & E2' & I2) end.
    { destruct (beqb (d_char c) x27); cbn; auto. }
    rewrite Er2 in H. cbn [bind] in H.
    eapply IH; [exact C|exact Hab| | | |exact H].
    + rewrite Hsplit in E2'. rewrite rev_app_distr in E2'. cbn [rev] in E2'. rewrite <- !app_assoc in E2'. cbn [app] in E2'.
      rewrite rev_app_distr, <- app_assoc.
      rewrite !map_app in *. cbn [map] in E2'. rewrite !map_app in E2'. cbn [map] in E2'.
      apply emb_drop in E2'. rewrite app_assoc in E2'. apply emb_drop in E2'. rewrite <- app_assoc in E2'. exact E2'.
    + intro j. rewrite I2. apply U1.
    + intros k Hk. rewrite I2. apply F1, Hk.
Qed.

Theorem process_emphasis_S inp s n0 items ds bottom site :
  (- coloff s <= Z.of_nat (pos s))%Z ->
  Forall (fun d => dchar_ok o (d_char d) = true) ds ->
  emb (map ED ds) items -> uniq items -> fresh items n0 ->
  process_emphasis o inp s n0 items ds bottom = Panic site -> False.
Proof.
  intros C Hok E U F H. unfold process_emphasis in H. destruct ds as [|c above]; [discriminate|].
  eapply (pe_loop_S _ s n0 items _ [] (c :: above)); [exact C|exact Hok|exact E|exact U|exact F|exact H].
Qed.

End Pe.
