(* Proofs/InlinesTotal3Enum.v — C01, inline phase, third wave: the arms of parse_inline that do not touch the stacks
   answer none of the 16 sites that were left open by the second wave (InlinesTotal2Sites.remaining): plain
   enumeration of their Panic leaves (no invariant needed).  Used together with InlinesTotal2Walk.step_sites
   (every Panic is at a remaining site) to conclude that these arms do not panic at all.  No axioms. *)
From Coq Require Import List NArith ZArith Arith Bool Strings.String Lia.
From V Require Import Base.Bytes Base.Res Gen.StrLeafGen Gen.Consts Gen.Special Model.Special
     Model.Scan Model.Strings Model.Entity Model.LinkUrl Model.AutolinkLeaf Model.Spx Model.Ast Model.Inlines
     Proofs.StrLeafProofs Proofs.StrLeafEntity Proofs.StrLeafParse
     Proofs.InlinesProofs Proofs.InlinesMemo Proofs.InlinesTotalAutolink Proofs.InlinesTotalFuel Proofs.InlinesTotal
     Proofs.InertInlines Proofs.InlinesTotal2 Proofs.InlinesTotal2Pe Proofs.InlinesTotal2Fuel Proofs.InlinesTotal2Inv
     Proofs.InlinesTotal2Scan Proofs.InlinesTotal2Sites.
Import ListNotations.
Local Open Scope list_scope.

Section Enum.
Variable inp : bytes.
Variable lo : list N.

Lemma adjust_enum s n ml ex site :
  adjust_node_newlines inp lo s n ml ex = Panic site -> allowed site = false.
Proof. unfold adjust_node_newlines, usub, nsub. intro H. invp; reflexivity. Qed.

Ltac enum :=
  invp; try reflexivity;
  try match goal with Ha : adjust_node_newlines _ _ _ _ _ _ = Panic _ |- _ => eapply adjust_enum; exact Ha end.

Lemma handle_newline_enum s site : handle_newline inp s = Panic site -> allowed site = false.
Proof. unfold handle_newline, usub. intro H. enum. Qed.

Lemma handle_backticks_enum memo s site : handle_backticks memo inp lo s = Panic site -> allowed site = false.
Proof. unfold handle_backticks, usub. intro H. enum. Qed.

Lemma handle_backslash_enum o s site : handle_backslash o inp s = Panic site -> allowed site = false.
Proof. unfold handle_backslash, usub. intro H. enum. Qed.

Lemma handle_entity_enum s site : handle_entity inp s = Panic site -> allowed site = false.
Proof. unfold handle_entity, from, usub. intro H. enum. Qed.

Lemma handle_hyphen_enum o s site : handle_hyphen o inp s = Panic site -> allowed site = false.
Proof. unfold handle_hyphen. intro H. enum. Qed.

Lemma handle_period_enum o s site : handle_period o inp s = Panic site -> allowed site = false.
Proof. unfold handle_period. intro H. enum. Qed.

Lemma handle_delim_enum o u s c site : handle_delim o u inp s c = Panic site -> allowed site = false.
Proof. unfold handle_delim, usub. intro H. enum. Qed.

Lemma make_autolink_enum s url e sc ec site : make_autolink s url e sc ec = Panic site -> allowed site = false.
Proof. unfold make_autolink, usub. intro H. enum. Qed.

Lemma handle_pointy_brace_enum s site : handle_pointy_brace inp lo s = Panic site -> allowed site = false.
Proof.
  unfold handle_pointy_brace, from, usub. intro H.
  invp; try reflexivity;
    try match goal with Ha : adjust_node_newlines _ _ _ _ _ _ = Panic _ |- _ => eapply adjust_enum; exact Ha end;
    try match goal with Ha : make_autolink _ _ _ _ _ = Panic _ |- _ => eapply make_autolink_enum; exact Ha end.
Qed.

Lemma stcd_loop_enum odl : forall fuel p site, stcd_loop inp fuel p odl = Panic site -> allowed site = false.
Proof.
  induction fuel as [|f IH]; intros p site H; [discriminate|]. cbn [stcd_loop] in H. unfold usub in H.
  repeat first [ match goal with Hr : stcd_loop _ f _ _ = Panic _ |- _ => eapply IH; exact Hr end | invp1 | inv1 ];
    try reflexivity.
Qed.

Lemma stccd_loop_enum : forall fuel p site, stccd_loop inp fuel p = Panic site -> allowed site = false.
Proof.
  induction fuel as [|f IH]; intros p site H; [discriminate|]. cbn [stccd_loop] in H. unfold usub in H.
  repeat first [ match goal with Hr : stccd_loop _ f _ = Panic _ |- _ => eapply IH; exact Hr end | invp1 | inv1 ];
    try reflexivity.
Qed.

Lemma handle_dollars_enum o s site : handle_dollars o inp lo s = Panic site -> allowed site = false.
Proof.
  unfold handle_dollars, scan_to_closing_dollar, usub. intro H.
  repeat first [ match goal with
                 | Hr : stcd_loop _ _ _ _ = Panic _ |- _ => eapply stcd_loop_enum; exact Hr
                 | Hr : stccd_loop _ _ _ = Panic _ |- _ => eapply stccd_loop_enum; exact Hr
                 | Ha : adjust_node_newlines _ _ _ _ _ _ = Panic _ |- _ => eapply adjust_enum; exact Ha
                 end | invp1 | inv1 ];
    try reflexivity.
Qed.

Lemma lbe_loop_enum o s sc0 : forall k rest, List.length rest <= k -> forall offset startpos cur acc site,
  lbe_loop o s sc0 rest offset startpos cur acc = Panic site -> allowed site = false.
Proof.
  induction k as [|k IH]; intros rest Hk offset startpos cur acc site H.
  - destruct rest as [|c r]; [|cbn [List.length] in Hk; lia]. cbn [lbe_loop] in H. unfold usub in H. invp; reflexivity.
  - destruct rest as [|c r]; [cbn [lbe_loop] in H; unfold usub in H; invp; reflexivity|].
    cbn [List.length] in Hk. cbn [lbe_loop] in H.
    destruct r as [|c2 r2]; [eapply IH; [|exact H]; cbn [List.length]; lia|]. cbn [List.length] in Hk.
    destruct (beqb c x5c && sl_ispunct c2); [|eapply IH; [|exact H]; cbn [List.length]; lia].
    unfold usub in H.
    repeat match type of H with
           | bind ?r _ = Panic _ =>
             let E := fresh "E" in destruct r eqn:E; cbn [bind] in H;
             [ | inversion H; subst; clear H; invp; reflexivity | discriminate H ]
           end.
    eapply IH; [|exact H]. lia.
Qed.

Lemma handle_wikilink_enum o s site : handle_wikilink o inp s = Panic site -> allowed site = false.
Proof.
  unfold handle_wikilink, usub. intro H.
  repeat first [ match goal with
                 | Hr : lbe_loop _ _ _ _ _ _ _ _ = Panic _ |- _ => eapply lbe_loop_enum; [apply Nat.le_refl|exact Hr]
                 end | invp1 | inv1 ];
    try reflexivity.
Qed.

End Enum.
