(* Proofs/BlocksTotal7ContWalk.v — totality of the block phase, seventh round, walk for the sites excluded by the
   stored-content invariant of Proofs/BlocksTotal7Cont.v (UI: the content of every Paragraph, and the content and the
   literal of every fenced CodeBlock, are valid UTF-8 — for EVERY input, no premise on the cursor), carried next to
   the stored-value invariant QI of the sixth round.

   al7c = but cont_sites.  As in Proofs/BlocksTotal6ValWalk.v the invariants come from the Ok-path lemmas (`sat`).
     mod.rs:finalize_borrowed:String::from_utf8(tmp)     info string = unescape (trim (unescape_html (content[..pos])))
                                                         of the valid content of a fenced code block, cut at a line end
     inlines.rs:link_label:str::from_utf8(raw_label)     content between the ASCII `[` and `]` of a valid content, trimmed
     mod.rs:resolve_reference_link_definitions:content[seeked..]
                                                         every definition ends at the end of the content or after a
                                                         CR / LF (skip_line_end answered true), inside the content
     table.rs:try_inserting_table_header_paragraph:String::from_utf8(paragraph_content)
                                                         paragraph_offset is 0 or follows the match of the scanner
                                                         table_row_end (spaces and a line end: ASCII bytes)
     mod.rs:parse_reference_inline:String::from_utf8(clean_url)
                                                         the destination is cut after `:` and spaces / a line end, and
                                                         before `>`, `)`, a space or a control byte (ASCII); trim,
                                                         unescape_html and unescape keep valid UTF-8 valid
     mod.rs:parse_reference_inline:String::from_utf8(clean_title)
                                                         the title is a match of the scanner link_title, whose every
                                                         match ends with an ASCII byte (re_last_ascii: a quote or `)`);
                                                         it starts after the destination and spaces / a line end *)
From Coq Require Import List NArith Arith Bool Lia Strings.String.
From V Require Import Base.Bytes Base.Res Gen.StrLeafGen Gen.Nodes Gen.BlocksConst Gen.FeedConst Model.Ast Model.Strings Model.Entity Model.LinkUrl Model.ListMarker
  Model.AutolinkLeaf Model.Feed Model.FrontMatter Model.RefDef Model.Scan Model.Blocks Spec.EscapeSpec Spec.StrLeafSpec
  Proofs.StrLeafProofs Proofs.StrLeafEntity Proofs.StrLeafParse Proofs.FeedProofs Proofs.BlocksProofs Proofs.BlocksCursor Proofs.BlocksTotal
  Proofs.BlocksTotal2Safe Proofs.BlocksTotal3Cur Proofs.BlocksTotal4Safe Proofs.BlocksTotal4Frame Proofs.BlocksPos Proofs.BlocksTotal6Val
  Proofs.BlocksTotal7Cont.
From V Require Gen.ScannersRe Proofs.BlocksTotal4Row Proofs.BlocksTotal4Scan Proofs.BlocksTotal4Fuel Proofs.FrontMatterProofs Proofs.EscapeProofs.
Import ListNotations.
Local Open Scope string_scope.
Local Open Scope list_scope.

Definition cont_sites : list string :=
  [ "mod.rs:finalize_borrowed:String::from_utf8(tmp).unwrap()";
    "inlines.rs:link_label:str::from_utf8(raw_label).unwrap()";
    "mod.rs:resolve_reference_link_definitions:content[seeked..]";
    "table.rs:try_inserting_table_header_paragraph:String::from_utf8(paragraph_content).unwrap()";
    "mod.rs:parse_reference_inline:String::from_utf8(clean_url).unwrap()";
    "mod.rs:parse_reference_inline:String::from_utf8(clean_title).unwrap()" ].

(* ================================================================== where a reference definition ends *)
(* p is the end of s or follows an ASCII byte of s *)
Definition EB (s : bytes) (p : nat) : Prop :=
  p <= List.length s /\ (p = List.length s \/ exists j c, p = S j /\ nth_error s j = Some c /\ is_ascii c = true).

Lemma EB_valid s p : utf8_valid s = true -> EB s p -> utf8_valid (skipn p s) = true.
Proof.
  intros V [_ [E|[j [c [E [N A]]]]]]; apply skipn_utf8; try exact V; unfold at_boundary.
  - right. left. lia.
  - right. right. right. exists j, c. auto.
Qed.

Lemma peek_some s p c : peek s p = Ok (Some c) -> nth_error s p = Some c.
Proof. unfold peek. destruct (nth_error s p) as [x|]; [|discriminate]. destruct (beqb x x00); [discriminate|]. intro H. now inversion H. Qed.
Lemma peek_none s p : peek s p = Ok None -> List.length s <= p.
Proof. unfold peek. destruct (nth_error s p) as [x|] eqn:E; [destruct (beqb x x00); discriminate|]. intros _. now apply nth_error_None. Qed.

Lemma skip_spaces_le : forall s n, skip_spaces s = Ok n -> n <= List.length s.
Proof.
  induction s as [|c r IH]; intros n H; cbn [skip_spaces] in H; [inversion H; cbn; lia|].
  destruct (beqb c x00); [discriminate H|]. destruct (_ || _); [|inversion H; cbn; lia].
  destruct (skip_spaces r) as [m| |]; cbn [bind] in H; try discriminate H. inversion H; subst. specialize (IH _ eq_refl). cbn [List.length]. lia.
Qed.

Lemma skip_spaces_at s p n : p <= List.length s -> skip_spaces (skipn p s) = Ok n -> p + n <= List.length s.
Proof. intros L H. apply skip_spaces_le in H. rewrite skipn_length in H. lia. Qed.

Lemma skip_line_end_le s p p2 ok : skip_line_end s p = Ok (p2, ok) -> p <= List.length s -> p2 <= List.length s.
Proof.
  unfold skip_line_end. intros H L.
  destruct (peek s p) as [p1| |] eqn:P1; cbn [bind] in H; try discriminate H.
  match type of H with context [peek s ?q] => destruct (peek s q) as [q2| |] eqn:P2; cbn [bind] in H; try discriminate H end.
  inversion H; subst. clear H.
  destruct p1 as [c1|]; [apply BlocksTotal4Fuel.peek_some_lt in P1 | ];
  (destruct q2 as [c2|]; [apply BlocksTotal4Fuel.peek_some_lt in P2|]);
  repeat match goal with |- context [if ?b then _ else _] => destruct b end;
  repeat match goal with H : context [if ?b then _ else _] |- _ => destruct b end; lia.
Qed.

Lemma skip_line_end_EB s p p2 : skip_line_end s p = Ok (p2, true) -> p <= List.length s -> EB s p2.
Proof.
  intros H L. pose proof (skip_line_end_le _ _ _ _ H L) as L2. split; [exact L2|].
  unfold skip_line_end in H.
  destruct (peek s p) as [p1| |] eqn:P1; cbn [bind] in H; try discriminate H.
  match type of H with context [peek s ?q] => destruct (peek s q) as [q2| |] eqn:P2; cbn [bind] in H; try discriminate H end.
  injection H as E1 E2. apply orb_true_iff in E2. destruct E2 as [E2|E2].
  2: { apply Nat.leb_le in E2. left. lia. }
  apply Nat.ltb_lt in E2. right. subst p2.
  destruct q2 as [c2|].
  - apply peek_some in P2. destruct (beqb c2 x0a) eqn:B2.
    + apply beqb_eq in B2. subst c2. eexists _, x0a. repeat split; [exact P2].
    + destruct p1 as [c1|]; [|lia]. apply peek_some in P1. destruct (beqb c1 x0d) eqn:B1; [|lia].
      apply beqb_eq in B1. subst c1. eexists _, x0d. repeat split; [exact P1].
  - destruct p1 as [c1|]; [|lia]. apply peek_some in P1. destruct (beqb c1 x0d) eqn:B1; [|lia].
    apply beqb_eq in B1. subst c1. eexists _, x0d. repeat split; [exact P1].
Qed.

Lemma spnl_le s p q : spnl s p = Ok q -> p <= List.length s -> q <= List.length s.
Proof.
  unfold spnl. intros H L.
  destruct (skip_spaces (skipn p s)) as [n1| |] eqn:S1; cbn [bind] in H; try discriminate H.
  pose proof (skip_spaces_at _ _ _ L S1) as L1.
  destruct (skip_line_end s (p + n1)) as [[p2 ok]| |] eqn:SL; cbn [bind] in H; try discriminate H.
  pose proof (skip_line_end_le _ _ _ _ SL L1) as L2.
  destruct ok; [|inversion H; subst; exact L2].
  destruct (skip_spaces (skipn p2 s)) as [n3| |] eqn:S3; cbn [bind] in H; try discriminate H.
  inversion H; subst. eapply skip_spaces_at; eassumption.
Qed.

Lemma scan_link_title_le s m : scan_link_title s = Some m -> m <= List.length s.
Proof. intro H. eapply as_opt_usize_cursor_le; [|exact H]. vm_compute. reflexivity. Qed.

(* a reference definition ends at the end of the content or after a CR / LF, inside the content *)
Lemma pri_end fold m content pos m' : parse_reference_inline fold m content = Ok (Some (pos, m')) -> EB content pos.
Proof.
  unfold parse_reference_inline. intros H.
  destruct (link_label content) as [[[lab0 p0]|]| |]; cbn [bind] in H; try discriminate H.
  destruct lab0 as [|l0 lr]; [discriminate H|].
  destruct (peek content p0) as [[c|]| |] eqn:PK; cbn [bind] in H; try discriminate H.
  apply BlocksTotal4Fuel.peek_some_lt in PK.
  destruct (negb (beqb c x3a)); [discriminate H|].
  destruct (spnl content (S p0)) as [p1| |] eqn:SP1; cbn [bind] in H; try discriminate H.
  apply spnl_le in SP1; [|lia].
  destruct (manual_scan_link_url_total (skipn p1 content)) as [ur [EU BU]]. rewrite EU in H. cbn [bind] in H.
  destruct ur as [[url0 ml]|]; [|discriminate H]. rewrite skipn_length in BU.
  set (bt := p1 + ml) in *. assert (Lbt : bt <= List.length content) by (unfold bt; lia).
  destruct (spnl content bt) as [p3| |] eqn:SP3; cbn [bind] in H; try discriminate H.
  apply spnl_le in SP3; [|exact Lbt].
  destruct (if Nat.eqb p3 bt then None else scan_link_title (skipn p3 content)) as [tl|] eqn:TS.
  - assert (Ltl : p3 + tl <= List.length content).
    { destruct (Nat.eqb p3 bt); [discriminate TS|]. apply scan_link_title_le in TS. rewrite skipn_length in TS. lia. }
    destruct (skip_spaces (skipn (p3 + tl) content)) as [n1| |] eqn:S1; cbn [bind] in H; try discriminate H.
    pose proof (skip_spaces_at _ _ _ Ltl S1) as L1.
    destruct (skip_line_end content (p3 + tl + n1)) as [[p6 ok]| |] eqn:SL; cbn [bind] in H; try discriminate H.
    destruct ok.
    + apply skip_line_end_EB in SL; [|exact L1]. cbn [bind] in H.
      destruct (normalize_label fold (l0 :: lr) true) as [|b0 br]; [inversion H; subst; exact SL|].
      destruct (clean_url url0) as [cu| |]; cbn [bind] in H; try discriminate H.
      destruct (clean_title _) as [ct0| |]; cbn [bind] in H; try discriminate H.
      destruct (negb (utf8_valid cu)); [discriminate H|]. destruct (negb (utf8_valid ct0)); [discriminate H|].
      inversion H; subst. exact SL.
    + destruct (firstn tl (skipn p3 content)) eqn:FT; [discriminate H|].
      destruct (skip_spaces (skipn bt content)) as [n2| |] eqn:S2; cbn [bind] in H; try discriminate H.
      pose proof (skip_spaces_at _ _ _ Lbt S2) as L2.
      destruct (skip_line_end content (bt + n2)) as [[q2 ok2]| |] eqn:SL2; cbn [bind] in H; try discriminate H.
      destruct ok2; [|discriminate H]. apply skip_line_end_EB in SL2; [|exact L2]. cbn [bind] in H.
      destruct (normalize_label fold (l0 :: lr) true) as [|b0 br]; [inversion H; subst; exact SL2|].
      destruct (clean_url url0) as [cu| |]; cbn [bind] in H; try discriminate H.
      destruct (clean_title _) as [ct0| |]; cbn [bind] in H; try discriminate H.
      destruct (negb (utf8_valid cu)); [discriminate H|]. destruct (negb (utf8_valid ct0)); [discriminate H|].
      inversion H; subst. exact SL2.
  - destruct (skip_spaces (skipn bt content)) as [n1| |] eqn:S1; cbn [bind] in H; try discriminate H.
    pose proof (skip_spaces_at _ _ _ Lbt S1) as L1.
    destruct (skip_line_end content (bt + n1)) as [[p6 ok]| |] eqn:SL; cbn [bind] in H; try discriminate H.
    destruct ok; [|discriminate H]. apply skip_line_end_EB in SL; [|exact L1]. cbn [bind] in H.
    destruct (normalize_label fold (l0 :: lr) true) as [|b0 br]; [inversion H; subst; exact SL|].
    destruct (clean_url url0) as [cu| |]; cbn [bind] in H; try discriminate H.
    destruct (clean_title _) as [ct0| |]; cbn [bind] in H; try discriminate H.
    destruct (negb (utf8_valid cu)); [discriminate H|]. destruct (negb (utf8_valid ct0)); [discriminate H|].
    inversion H; subst. exact SL.
Qed.

(* ================================================================== the label between `[` and `]` *)
Lemma label_loop_close input : forall fuel pos len c pos' c',
  label_loop fuel input pos len c = Ok (Some (pos', c')) -> c <> x5d -> c' = x5d -> nth_error input pos' = Some x5d /\ pos <= pos'.
Proof.
  induction fuel as [|f IH]; intros pos len c pos' c' H Hc Hc'; [discriminate H|]. cbn [label_loop] in H.
  destruct (peek input pos) as [[d|]| |] eqn:PK; cbn [bind] in H; try discriminate H.
  - destruct (beqb d x5b || beqb d x5d) eqn:B.
    + inversion H; subst. apply peek_some in PK. split; [exact PK | lia].
    + apply orb_false_iff in B. destruct B as [_ B].
      match type of H with bind ?r _ = _ => destruct r as [[p1 l1]| |] eqn:R; cbn [bind] in H; try discriminate H end.
      destruct (Nat.ltb max_link_label_length l1); [discriminate H|].
      assert (pos <= p1).
      { destruct (beqb d x5c); [|inversion R; lia].
        destruct (peek input (S pos)) as [[e|]| |]; cbn [bind] in R; try discriminate R;
        [destruct (sl_ispunct e)|]; inversion R; lia. }
      destruct (IH _ _ _ _ _ H) as [N L]; [intro; subst d; rewrite beqb_refl in B; discriminate B | exact Hc' |]. split; [exact N | lia].
  - inversion H; subst. now elim Hc.
Qed.

Lemma link_label_valid_raw input pos :
  utf8_valid input = true -> nth_error input 0 = Some x5b -> nth_error input pos = Some x5d ->
  utf8_valid (trim_slice (firstn (pos - 1) (skipn 1 input))) = true.
Proof.
  intros V N0 N. apply trim_slice_valid. destruct input as [|b0 rest]; [discriminate N0|]. cbn [nth_error] in N0. inversion N0; subst b0.
  destruct pos as [|q]; [cbn in N; discriminate N|]. cbn [nth_error] in N. cbn [skipn]. replace (S q - 1) with q by lia.
  assert (Vr : utf8_valid rest = true).
  { unfold utf8_valid in *. change (x5b :: rest) with ([x5b] ++ rest) in V. now rewrite (EscapeProofs.utf8_run_ascii_prefix [x5b] rest eq_refl) in V. }
  pose proof (nth_error_split_at _ _ _ N) as E. rewrite E in Vr. unfold utf8_valid in Vr. apply utf8_run_ustate in Vr.
  destruct (ustate_before_ascii _ _ _ Vr eq_refl) as [S0 _]. now apply utf8_run_ustate.
Qed.

(* ================================================================== table.rs: paragraph_offset follows an ASCII byte *)
Lemma row_end_avoid_all : forall b,
  (is_ascii b || forallb (fun x => BlocksTotal4Scan.re_avoids b (BlocksTotal4Scan.rule_head x)) ScannersRe.rules_table_row_end) = true.
Proof. apply forall_bytes. vm_compute. reflexivity. Qed.

Lemma scan_table_row_end_ascii s m b : scan_table_row_end s = Some m -> In b (firstn m s) -> is_ascii b = true.
Proof.
  intros H Hb. pose proof (row_end_avoid_all b) as A. destruct (is_ascii b); [reflexivity|]. cbn [orb] in A.
  exfalso. revert Hb. eapply BlocksTotal4Scan.scan_avoids; [|exact A|exact H]. vm_compute. reflexivity.
Qed.

Lemma nth_error_firstn_in {A} : forall n (l : list A) i, i < n -> nth_error (firstn n l) i = nth_error l i.
Proof. induction n as [|n IH]; intros l i H; [lia|]. destruct l as [|x l]; [now destruct i|]. destruct i as [|i]; [reflexivity|]. cbn [firstn nth_error]. apply IH. lia. Qed.

(* po = 0 or po follows an ASCII byte of s *)
Definition PA (s : bytes) (po : nat) : Prop :=
  po = 0 \/ exists j c, po = S j /\ nth_error s j = Some c /\ is_ascii c = true.

Lemma PA_row_end s k : 0 < or0 (scan_table_row_end (skipn k s)) -> PA s (k + or0 (scan_table_row_end (skipn k s))).
Proof.
  destruct (scan_table_row_end (skipn k s)) as [m|] eqn:Sc; cbn [or0]; [|lia]. intro Hm.
  pose proof (scan_table_row_end_le _ _ Sc) as Le.
  destruct (nth_error (skipn k s) (m - 1)) as [c|] eqn:N; [|apply nth_error_None in N; lia].
  right. exists (k + (m - 1)), c. split; [lia|]. split.
  - rewrite <- BlocksTotal4Scan.nth_error_skipn_add. exact N.
  - eapply scan_table_row_end_ascii; [exact Sc|].
    assert (E : nth_error (firstn m (skipn k s)) (m - 1) = Some c) by (rewrite nth_error_firstn_in by lia; exact N).
    eapply nth_error_In; exact E.
Qed.

Lemma row_loop_po s sp : forall fuel off po cells off' po' cells' ab,
  row_loop fuel s sp off po cells = Ok (off', po', cells', ab) -> PA s po -> PA s po'.
Proof.
  induction fuel as [|f IH]; intros off po cells off' po' cells' ab H Hp; cbn [row_loop] in H; [discriminate H|].
  destruct (negb (Nat.ltb off (List.length s))); [inversion H; subst; exact Hp|].
  match type of H with bind ?r _ = _ => destruct r as [rest| |]; cbn [bind] in H; try discriminate H end.
  match type of H with bind ?r _ = _ => destruct r as [[cells1 abort]| |]; cbn [bind] in H; try discriminate H end.
  destruct abort; [inversion H; subst; exact Hp|].
  destruct (Nat.ltb 0 _) eqn:Pm in H; [eapply IH; eassumption|].
  match type of H with bind ?r _ = _ => destruct r as [rest2| |] eqn:R2; cbn [bind] in H; try discriminate H end.
  unfold slice_from in R2. destruct (Nat.ltb _ _) in R2; [discriminate R2|]. inversion R2; subst rest2. clear R2.
  destruct (Nat.ltb 0 _ && _) eqn:C2 in H; [|inversion H; subst; exact Hp].
  apply andb_true_iff in C2. destruct C2 as [C2 _]. apply Nat.ltb_lt in C2.
  match type of H with bind ?r _ = _ => destruct r as [rest3| |]; cbn [bind] in H; try discriminate H end.
  eapply IH; [exact H|]. now apply PA_row_end.
Qed.

Lemma row_po s sp po cells : row s sp = Ok (Some (po, cells)) -> PA s po.
Proof.
  unfold row. intro H.
  destruct (row_loop _ s sp _ 0 []) as [[[[off po1] cells1] ab]| |] eqn:R; cbn [bind] in H; try discriminate H.
  destruct (_ || _); [discriminate H|]. inversion H; subst.
  eapply row_loop_po; [exact R | now left].
Qed.

Lemma firstn_S_snoc (c : byte) : forall (s : bytes) j, nth_error s j = Some c -> firstn (S j) s = firstn j s ++ [c].
Proof.
  induction s as [|x r IH]; intros j H; [destruct j; discriminate H|].
  destruct j as [|j]; [cbn in H; inversion H; reflexivity|]. cbn [nth_error] in H. cbn [firstn app]. f_equal. exact (IH _ H).
Qed.

Lemma PA_prefix_valid s po : utf8_valid s = true -> PA s po -> utf8_valid (firstn po s) = true.
Proof.
  intros V [->|[j [c [-> [N A]]]]]; [reflexivity|].
  pose proof (nth_error_split_at _ _ _ N) as E. assert (V' := V). rewrite E in V'. unfold utf8_valid in V'. apply utf8_run_ustate in V'.
  destruct (ustate_before_ascii _ _ _ V' A) as [_ S1]. apply utf8_run_ustate.
  rewrite (firstn_S_snoc _ _ _ N). exact S1.
Qed.

Lemma unescape_pipes_valid : forall s st, utf8_run st s = true -> utf8_run st (unescape_pipes s) = true.
Proof.
  induction s as [|c r IH]; intros st V; [exact V|]. cbn [unescape_pipes].
  destruct (beqb c x5c && _) eqn:C.
  - apply andb_true_iff in C. destruct C as [C1 C2]. apply beqb_eq in C1. subst c.
    cbn [utf8_run] in V. destruct (ustep st x5c) as [st1|] eqn:E1; [|discriminate V].
    destruct (FrontMatterProofs.ustep_ascii st x5c st1 eq_refl E1) as [-> ->]. apply IH. exact V.
  - cbn [utf8_run] in *. destruct (ustep st c); [apply IH; exact V | discriminate V].
Qed.

(* ================================================================== the destination of a reference definition *)
Lemma valid_skip_ascii s p c : utf8_valid (skipn p s) = true -> nth_error s p = Some c -> is_ascii c = true -> utf8_valid (skipn (S p) s) = true.
Proof.
  intros V N A. rewrite (skipn_S_cons _ _ _ N) in V. unfold utf8_valid in *.
  change (c :: skipn (S p) s) with ([c] ++ skipn (S p) s) in V.
  rewrite (EscapeProofs.utf8_run_ascii_prefix [c]) in V; [exact V | cbn [forallb]; now rewrite A].
Qed.

Lemma prefix_before_ascii s j c : utf8_valid s = true -> nth_error s j = Some c -> is_ascii c = true -> utf8_valid (firstn j s) = true.
Proof.
  intros V N A. pose proof (nth_error_split_at _ _ _ N) as E. rewrite E in V. unfold utf8_valid in V. apply utf8_run_ustate in V.
  destruct (ustate_before_ascii _ _ _ V A) as [S0 _]. now apply utf8_run_ustate.
Qed.

Lemma skipn_plus {A} : forall a b (l : list A), skipn b (skipn a l) = skipn (a + b) l.
Proof. induction a as [|a IH]; intros b l; [reflexivity|]. destruct l as [|x l]; [now rewrite !skipn_nil | apply IH]. Qed.

Lemma skip_spaces_valid : forall s n, skip_spaces s = Ok n -> utf8_valid s = true -> utf8_valid (skipn n s) = true.
Proof.
  induction s as [|a s IH]; intros n H V; cbn [skip_spaces] in H; [inversion H; exact V|].
  destruct (beqb a x00); [discriminate H|]. destruct (beqb a x20 || beqb a x09) eqn:B; [|inversion H; exact V].
  destruct (skip_spaces s) as [m| |] eqn:E; cbn [bind] in H; try discriminate H. inversion H; subst. cbn [skipn].
  apply (IH m eq_refl).
  assert (A : is_ascii a = true) by (apply orb_true_iff in B; destruct B as [B|B]; apply beqb_eq in B; subst; reflexivity).
  apply (valid_skip_ascii (a :: s) 0 a V eq_refl A).
Qed.

Lemma skip_line_end_valid s p p2 ok : skip_line_end s p = Ok (p2, ok) -> utf8_valid (skipn p s) = true -> utf8_valid (skipn p2 s) = true.
Proof.
  unfold skip_line_end. intros H V.
  destruct (peek s p) as [p1| |] eqn:P1; cbn [bind] in H; try discriminate H.
  match type of H with context [peek s ?q] => set (q1 := q) in *; destruct (peek s q1) as [q2| |] eqn:P2; cbn [bind] in H; try discriminate H end.
  assert (V1 : utf8_valid (skipn q1 s) = true).
  { unfold q1. destruct p1 as [c1|]; [|exact V]. destruct (beqb c1 x0d) eqn:B; [|exact V].
    apply beqb_eq in B. subst c1. apply peek_some in P1. exact (valid_skip_ascii _ _ _ V P1 eq_refl). }
  injection H as E1 _. subst p2.
  destruct q2 as [c2|]; [|exact V1]. destruct (beqb c2 x0a) eqn:B; [|exact V1].
  apply beqb_eq in B. subst c2. apply peek_some in P2. exact (valid_skip_ascii _ _ _ V1 P2 eq_refl).
Qed.

Lemma spnl_valid s p q : spnl s p = Ok q -> utf8_valid (skipn p s) = true -> utf8_valid (skipn q s) = true.
Proof.
  unfold spnl. intros H V.
  destruct (skip_spaces (skipn p s)) as [n1| |] eqn:S1; cbn [bind] in H; try discriminate H.
  pose proof (skip_spaces_valid _ _ S1 V) as V1. rewrite skipn_plus in V1.
  destruct (skip_line_end s (p + n1)) as [[p2 ok]| |] eqn:SL; cbn [bind] in H; try discriminate H.
  pose proof (skip_line_end_valid _ _ _ _ SL V1) as V2.
  destruct ok; [|inversion H; subst; exact V2].
  destruct (skip_spaces (skipn p2 s)) as [n3| |] eqn:S3; cbn [bind] in H; try discriminate H.
  inversion H; subst. rewrite <- skipn_plus. exact (skip_spaces_valid _ _ S3 V2).
Qed.

Lemma ascii_control_ascii : forall b, (negb (is_ascii_control b) || is_ascii b) = true.
Proof. apply forall_bytes. vm_compute. reflexivity. Qed.

Lemma url2_loop_end : forall s skip i0 nb i, url2_loop s skip i0 nb = Some i ->
  i0 <= i /\ exists c, nth_error s (i - i0) = Some c /\ is_ascii c = true.
Proof.
  assert (St : forall (b : byte) r i0 i, (S i0 <= i /\ exists c, nth_error r (i - S i0) = Some c /\ is_ascii c = true) ->
               i0 <= i /\ exists c, nth_error (b :: r) (i - i0) = Some c /\ is_ascii c = true).
  { intros b r i0 i [L [c [N A]]]. split; [lia|]. exists c. replace (i - i0) with (S (i - S i0)) by lia. split; assumption. }
  induction s as [|b r IH]; intros skip i0 nb i H; cbn [url2_loop] in H; [discriminate H|].
  destruct skip as [|k]; [|apply St; eapply IH; exact H].
  destruct (beqb b x5c && _); [apply St; eapply IH; exact H|].
  destruct (beqb b x28); [destruct (Nat.ltb _ _); [discriminate H | apply St; eapply IH; exact H]|].
  destruct (beqb b x29) eqn:B9.
  { apply beqb_eq in B9. subst b. destruct nb; [|apply St; eapply IH; exact H].
    inversion H; subst. split; [lia|]. exists x29. rewrite Nat.sub_diag. split; reflexivity. }
  destruct (sl_isspace b || is_ascii_control b) eqn:Sp; [|apply St; eapply IH; exact H].
  destruct (Nat.eqb i0 0); [discriminate H|]. destruct (Nat.eqb nb 0); [|discriminate H].
  inversion H; subst. split; [lia|]. exists b. rewrite Nat.sub_diag. split; [reflexivity|].
  apply orb_true_iff in Sp. destruct Sp as [Sp|Sp].
  - pose proof (sl_isspace_ascii b) as A. rewrite Sp in A. exact A.
  - pose proof (ascii_control_ascii b) as A. rewrite Sp in A. exact A.
Qed.

Lemma angle_loop_end : forall s skip i0 i, angle_loop s skip i0 = Some i -> i0 < i /\ nth_error s (i - 1 - i0) = Some x3e.
Proof.
  assert (St : forall (b : byte) r i0 i, (S i0 < i /\ nth_error r (i - 1 - S i0) = Some x3e) -> i0 < i /\ nth_error (b :: r) (i - 1 - i0) = Some x3e).
  { intros b r i0 i [L N]. split; [lia|]. replace (i - 1 - i0) with (S (i - 1 - S i0)) by lia. exact N. }
  induction s as [|b r IH]; intros skip i0 i H; cbn [angle_loop] in H; [discriminate H|].
  destruct skip as [|k]; [|apply St; eapply IH; exact H].
  destruct (beqb b x3e) eqn:B.
  { apply beqb_eq in B. subst b. inversion H; subst. split; [lia|]. replace (S i0 - 1 - i0) with 0 by lia. reflexivity. }
  destruct (beqb b x5c); [apply St; eapply IH; exact H|].
  destruct (_ || _); [discriminate H|]. apply St; eapply IH; exact H.
Qed.

Lemma msl_valid input url ml : manual_scan_link_url input = Ok (Some (url, ml)) -> utf8_valid input = true -> utf8_valid url = true.
Proof.
  unfold manual_scan_link_url. intros H V.
  assert (H2 : manual_scan_link_url_2 input = Some (url, ml) -> utf8_valid url = true).
  { unfold manual_scan_link_url_2. destruct (url2_loop input 0 0 0) as [i|] eqn:L; [|discriminate]. intro E. inversion E; subst.
    destruct (url2_loop_end _ _ _ _ _ L) as [_ [c [N A]]]. rewrite Nat.sub_0_r in N. exact (prefix_before_ascii _ _ _ V N A). }
  destruct input as [|b r]; [inversion H; auto|].
  destruct (beqb b x3c) eqn:B; [|inversion H; auto].
  apply beqb_eq in B. subst b.
  destruct (angle_loop r 0 1) as [i|] eqn:L; [|discriminate H].
  destruct (Nat.leb _ _); [discriminate H|]. destruct (Nat.ltb _ _); [discriminate H|]. injection H as E1 E2. subst url ml. cbn [skipn].
  destruct (angle_loop_end _ _ _ _ L) as [Li N]. replace (i - 1 - 1) with (i - 2) in N by lia.
  assert (Vr : utf8_valid r = true) by exact (valid_skip_ascii (x3c :: r) 0 x3c V eq_refl eq_refl).
  exact (prefix_before_ascii _ _ _ Vr N eq_refl).
Qed.

(* ================================================================== the title of a reference definition *)
Fixpoint re_last_ascii (r : Regex.re) : bool :=
  match r with
  | Regex.Empty | Regex.Eps => true
  | Regex.Chr cs => forallb (fun b => negb (Regex.cs_mem cs b) || is_ascii b) all_bytes
  | Regex.Cat a c => re_last_ascii c && (re_last_ascii a || negb (Regex.nullable c))
  | Regex.Alt a c => re_last_ascii a && re_last_ascii c
  | Regex.Star a => re_last_ascii a
  end.

Lemma matches_nil_nullable r s : Regex.matches r s -> s = [] -> Regex.nullable r = true.
Proof.
  induction 1 as [|cs c Hc|a c s t _ IHa _ IHc|a c s _ IH|a c s _ IH| |a s t _ IHa _ IHs]; cbn [Regex.nullable]; intro E; try reflexivity.
  - discriminate E.
  - apply app_eq_nil in E. destruct E as [-> ->]. now rewrite IHa, IHc.
  - now rewrite IH.
  - rewrite IH by exact E. apply orb_true_r.
Qed.

Definition ends_ascii (s : bytes) : Prop := s = [] \/ exists p c, s = p ++ [c] /\ is_ascii c = true.

Lemma ends_ascii_app s t : ends_ascii t -> (t = [] -> ends_ascii s) -> ends_ascii (s ++ t).
Proof.
  intros [->|[p [c [-> A]]]] H; [rewrite app_nil_r; now apply H|].
  right. exists (s ++ p), c. split; [now rewrite app_assoc | exact A].
Qed.

Lemma matches_last r s : Regex.matches r s -> re_last_ascii r = true -> ends_ascii s.
Proof.
  induction 1 as [|cs c Hc|a c s t Ma IHa Mc IHc|a c s _ IH|a c s _ IH| |a s t _ IHa _ IHs]; cbn [re_last_ascii]; intro Hv.
  - now left.
  - right. exists [], c. split; [reflexivity|]. rewrite forallb_forall in Hv. specialize (Hv c (all_bytes_complete c)). rewrite Hc in Hv. exact Hv.
  - apply andb_true_iff in Hv. destruct Hv as [Vc Va]. apply ends_ascii_app; [now apply IHc|].
    intro Et. rewrite (matches_nil_nullable _ _ Mc Et) in Va. cbn [negb] in Va. rewrite orb_false_r in Va. now apply IHa.
  - apply andb_true_iff in Hv. now apply IH.
  - apply andb_true_iff in Hv. now apply IH.
  - now left.
  - apply ends_ascii_app; [now apply IHs | intros _; now apply IHa].
Qed.

Lemma link_title_last_ok : forallb (fun x => re_last_ascii (BlocksTotal4Scan.rule_head x)) ScannersRe.rules_link_title = true.
Proof. vm_compute. reflexivity. Qed.

Lemma scan_link_title_ends s m : scan_link_title s = Some m -> m <= List.length s /\ ends_ascii (firstn m s).
Proof.
  intro H. destruct (BlocksTotal4Scan.run_rules_cursor_head ScannersRe.rules_link_title s m) as (L & x & Hin & M); [vm_compute; reflexivity | exact H |].
  split; [exact L|]. pose proof link_title_last_ok as Hv. rewrite forallb_forall in Hv. exact (matches_last _ _ M (Hv _ Hin)).
Qed.

Lemma prefix_ends_ascii t m : utf8_valid t = true -> ends_ascii (firstn m t) -> utf8_valid (firstn m t) = true.
Proof.
  intros V [->|[p [c [E A]]]]; [reflexivity|].
  rewrite <- (firstn_skipn m t) in V. rewrite E in *. rewrite <- app_assoc in V. cbn [app] in V.
  unfold utf8_valid in V. apply utf8_run_ustate in V. destruct (ustate_before_ascii _ _ _ V A) as [_ S1]. now apply utf8_run_ustate.
Qed.

(* after the destination *)
Lemma msl_rest_valid input url ml : manual_scan_link_url input = Ok (Some (url, ml)) -> utf8_valid input = true -> utf8_valid (skipn ml input) = true.
Proof.
  unfold manual_scan_link_url. intros H V. apply skipn_utf8; [exact V|]. unfold at_boundary.
  assert (H2 : manual_scan_link_url_2 input = Some (url, ml) -> exists c, nth_error input ml = Some c /\ is_ascii c = true).
  { unfold manual_scan_link_url_2. destruct (url2_loop input 0 0 0) as [i|] eqn:L; [|discriminate]. intro E. injection E as E1 E2. subst url ml.
    destruct (url2_loop_end _ _ _ _ _ L) as [_ [c [N A]]]. rewrite Nat.sub_0_r in N. eauto. }
  destruct input as [|b r]; [inversion H; right; right; left; auto|].
  destruct (beqb b x3c) eqn:B; [|inversion H; right; right; left; auto].
  destruct (angle_loop r 0 1) as [i|] eqn:L; [|discriminate H].
  destruct (Nat.leb _ _); [discriminate H|]. destruct (Nat.ltb _ _); [discriminate H|]. injection H as E1 E2. subst url ml.
  destruct (angle_loop_end _ _ _ _ L) as [Li N].
  right. right. right. exists (i - 1), x3e. split; [lia|]. split; [|reflexivity].
  replace (i - 1) with (S (i - 1 - 1)) by lia. exact N.
Qed.

Lemma last_cons_ne (a : byte) l d : l <> [] -> last (a :: l) d = last l d.
Proof. destruct l; [intro H; now elim H | reflexivity]. Qed.

Lemma clean_title_valid title ct : clean_title title = Ok ct -> utf8_valid title = true -> utf8_valid ct = true.
Proof.
  unfold clean_title. intros H V. destruct title as [|a t]; [inversion H; reflexivity|]. cbv zeta in H.
  match type of H with bind ?r _ = _ => destruct r as [b| |] eqn:R; cbn [bind] in H; try discriminate H end.
  rewrite unescape_is_spec in H. inversion H; subst ct.
  apply (unescape_spec_valid (List.length b) _ U0 (le_n _)).
  destruct (_ || _) eqn:Q in R; [|exact (unescape_html_utf8 _ _ R V)].
  destruct (Nat.ltb _ _) eqn:Lt in R; [discriminate R|]. apply Nat.ltb_ge in Lt. cbn [List.length] in Lt.
  apply (unescape_html_utf8 _ _ R). cbn [skipn List.length].
  assert (Ha : is_ascii a = true /\ is_ascii (last (a :: t) x00) = true).
  { repeat (apply orb_true_iff in Q; destruct Q as [Q|Q]); apply andb_true_iff in Q; destruct Q as [Q1 Q2];
    apply beqb_eq in Q1; apply beqb_eq in Q2; rewrite Q2; subst a; split; reflexivity. }
  destruct Ha as [Ha Hl].
  assert (Vt : utf8_valid t = true) by exact (valid_skip_ascii (a :: t) 0 a V eq_refl Ha).
  assert (Ne : t <> []) by (destruct t; [cbn in Lt; lia | discriminate]).
  rewrite (last_cons_ne _ _ _ Ne) in Hl.
  rewrite (app_removelast_last x00 Ne) in Vt. rewrite removelast_firstn_len in Vt.
  replace (S (List.length t) - 2) with (pred (List.length t)) by lia.
  eapply utf8_drop_ascii_suffix; [|exact Vt]. cbn [forallb]. now rewrite Hl.
Qed.
Definition al7c : string -> bool := but cont_sites.
Notation ng7c := (ng al7c true).

Ltac allowed := vm_compute; reflexivity.

Create HintDb ng7c.

Ltac ngstep :=
  match goal with
  | |- ng _ _ (bind ?r _) => apply ng_bind; [ try solve [auto with ng7c] | intros ]
  | |- ng _ _ (Ok _) => exact I
  | |- ng _ _ OutOfFuel => reflexivity
  | |- ng _ _ (Panic _) => first [assumption | allowed]
  | |- ng _ _ no_node => allowed
  | |- ng _ _ (not_handled _ _) => exact I
  | |- ng _ _ (res_map _ _) => apply ng_res_map
  | |- ng _ _ (if ?b then _ else _) => destruct b
  | |- ng _ _ (match ?x with _ => _ end) => destruct x
  | |- ng _ _ (let (_, _) := ?x in _) => destruct x
  end.
Ltac nggo := repeat ngstep; auto with ng7c.

Lemma ng7c_idx site l i : al7c site = true -> ng7c (idx site l i).
Proof. intro H. apply ng_idx. now right. Qed.
Lemma ng7c_sub site a b : al7c site = true -> ng7c (sub site a b).
Proof. intro H. apply ng_sub. now right. Qed.
Lemma ng7c_slice_from site l i : al7c site = true -> ng7c (Blocks.slice_from site l i).
Proof. intro H. apply ng_slice_from. now right. Qed.
Lemma ng7c_from_utf8 site b : al7c site = true -> ng7c (from_utf8 site b).
Proof. intro H. apply ng_from_utf8. now right. Qed.
#[export] Hint Extern 1 (ng _ _ (idx _ _ _)) => (apply ng7c_idx; first [assumption | allowed]) : ng7c.
#[export] Hint Extern 1 (ng _ _ (sub _ _ _)) => (apply ng7c_sub; first [assumption | allowed]) : ng7c.
#[export] Hint Extern 1 (ng _ _ (Blocks.slice_from _ _ _)) => (apply ng7c_slice_from; first [assumption | allowed]) : ng7c.
#[export] Hint Extern 1 (ng _ _ (from_utf8 _ _)) => (apply ng7c_from_utf8; first [assumption | allowed]) : ng7c.

(* ---- leaf functions: total for all arguments *)
Lemma ng7c_trim s : ng7c (Strings.trim s). Proof. rewrite trim_ok. exact I. Qed.
Lemma ng7c_rtrim s : ng7c (Strings.rtrim s). Proof. rewrite rtrim_ok. exact I. Qed.
Lemma ng7c_unescape s : ng7c (Strings.unescape s). Proof. rewrite unescape_is_spec. exact I. Qed.
Lemma ng7c_unescape_html s : ng7c (unescape_html s). Proof. apply ng_ex. apply unescape_html_total. Qed.
Lemma ng7c_manual_scan_link_url s : ng7c (manual_scan_link_url s).
Proof. apply ng_ex. destruct (manual_scan_link_url_total s) as [r [E _]]. exists r. exact E. Qed.
Lemma ng7c_row s sp : ng7c (row s sp). Proof. apply ng_ex. apply BlocksTotal4Row.row_total. Qed.
Lemma ng7c_table_matches s sp : ng7c (table_matches s sp). Proof. apply ng_ex. apply BlocksTotal4Row.table_matches_total. Qed.
#[export] Hint Resolve ng7c_trim ng7c_rtrim ng7c_unescape ng7c_unescape_html ng7c_manual_scan_link_url ng7c_row ng7c_table_matches : ng7c.

(* ---- leaf functions with sites of their own *)
Lemma ng7c_remove_trailing_blank_lines s : ng7c (remove_trailing_blank_lines s).
Proof. unfold remove_trailing_blank_lines. nggo. Qed.
Lemma ng7c_chop_trailing_hashtags s : ng7c (chop_trailing_hashtags s).
Proof.
  unfold chop_trailing_hashtags. rewrite rtrim_ok. cbn [bind fst]. cbv zeta.
  destruct (rtrim_slice s) as [|x r] eqn:R; [allowed|]. rewrite <- R. clear R.
  destruct (Nat.leb _ _) eqn:Lb; [exact I|]. apply Nat.leb_gt in Lb.
  destruct (nth_error _ _) eqn:N; [|exfalso; apply nth_error_None in N; lia].
  destruct (_ && _); [rewrite rtrim_ok; exact I | exact I].
Qed.
Lemma ng7c_clean_url s : ng7c (clean_url s). Proof. unfold clean_url. nggo. Qed.
(* clean_title panics on a title of length 1 only (Props/StrLeaf.v); its one caller hands it a scan_link_title match *)
Lemma ng7c_clean_title s : List.length s <> 1 -> ng7c (clean_title s).
Proof. intro H. apply ng_ex. now apply clean_title_total. Qed.
#[export] Hint Resolve ng7c_remove_trailing_blank_lines ng7c_chop_trailing_hashtags ng7c_clean_url : ng7c.
Lemma scan_link_title_ge s m : scan_link_title s = Some m -> 2 <= m.
Proof. BlocksTotal4Scan.scan_ge. Qed.
(* line_at: bytes[end..] is inside the string as long as the start is; split_off_front_matter starts at 0 and goes on
   from the `next` of the line before *)
Lemma sg7c_fm_line_at s k : k <= List.length s -> sg al7c true (fun r => snd r <= List.length s) (fm_line_at s k).
Proof.
  intro H. unfold fm_line_at. pose proof (BlocksTotal4Fuel.scan_line_end_bounds (skipn k s) k) as B. rewrite skipn_length in B.
  set (e := scan_line_end (skipn k s) k) in *. unfold byte_slice_from.
  destruct (Nat.leb e (List.length s)) eqn:L; [|apply Nat.leb_gt in L; lia]. apply Nat.leb_le in L. cbn [bind].
  unfold fm_slice. destruct (_ && _ && _); [cbn [bind sg snd] | allowed].
  destruct (starts_with (skipn e s) fm_crlf) eqn:Sw.
  - apply starts_with_app in Sw. destruct Sw as [r Er]. apply (f_equal (@List.length byte)) in Er.
    rewrite skipn_length, app_length in Er. change (List.length fm_crlf) with 2 in Er. lia.
  - destruct (Nat.ltb e (List.length s)) eqn:Lt; [apply Nat.ltb_lt in Lt; lia | lia].
Qed.
Lemma sg7c_find_closing_line : forall fuel s d e, e <= List.length s ->
  sg al7c true (fun c => match c with Some e' => e' <= List.length s | None => True end) (find_closing_line fuel s d e).
Proof.
  induction fuel as [|f IH]; intros s d e H; cbn [find_closing_line]; [reflexivity|].
  destruct (Nat.eqb e (List.length s)); [exact I|].
  eapply sg_bind; [now apply sg7c_fm_line_at|]. intros ln _ Hn.
  destruct (bytes_eqb (fst ln) d); [exact Hn | now apply IH].
Qed.
Lemma ng7c_split_off_front_matter s d : ng7c (split_off_front_matter s d).
Proof.
  unfold split_off_front_matter, slice_to, FrontMatter.slice_from.
  eapply sg_bind; [apply sg7c_fm_line_at; lia|]. intros l0 _ H0.
  destruct (_ || _); [exact I|].
  eapply sg_bind; [now apply sg7c_find_closing_line|]. intros [e|] _ He; [|exact I].
  eapply sg_bind; [now apply sg7c_fm_line_at|]. intros l1 _ _. cbv zeta. match goal with |- sg ?a ?f _ ?r => change (ng a f r) end. nggo.
Qed.
#[export] Hint Resolve ng7c_split_off_front_matter : ng7c.
Lemma ng7c_peek s p : nonul s -> ng7c (peek s p).
Proof.
  intro N. unfold peek. destruct (nth_error s p) as [c|] eqn:E; [|exact I]. apply nth_error_In in E.
  destruct (beqb c x00) eqn:B; [apply beqb_eq in B; subst; now apply N in E | exact I].
Qed.
#[export] Hint Resolve nonul_skipn : ng7c.
#[export] Hint Resolve ng7c_peek : ng7c.
Lemma ng7c_skip_spaces : forall s, nonul s -> ng7c (skip_spaces s).
Proof.
  induction s as [|c r IH]; intro N; cbn [skip_spaces]; [exact I|].
  destruct (beqb c x00) eqn:B; [apply beqb_eq in B; subst; exfalso; apply (N x00); [now left | reflexivity]|].
  destruct (_ || _); [|exact I]. apply ng_bind; [|intros; exact I]. apply IH. intros b Hb. apply N. now right.
Qed.
#[export] Hint Resolve ng7c_skip_spaces : ng7c.
Lemma ng7c_skip_line_end s p : nonul s -> ng7c (skip_line_end s p). Proof. intro N. unfold skip_line_end. nggo. Qed.
#[export] Hint Resolve ng7c_skip_line_end : ng7c.
Lemma ng7c_spnl s p : nonul s -> ng7c (spnl s p). Proof. intro N. unfold spnl. nggo. Qed.
#[export] Hint Resolve ng7c_spnl : ng7c.
Lemma ng7c_label_loop : forall fuel s pos len c, nonul s -> ng7c (label_loop fuel s pos len c).
Proof. induction fuel as [|f IH]; intros s pos len c N; cbn [label_loop]; nggo. Qed.
#[export] Hint Resolve ng7c_label_loop : ng7c.
Lemma ng7c_link_label s : nonul s -> utf8_valid s = true -> ng7c (link_label s).
Proof.
  intros N V. unfold link_label.
  apply ng_bind; [auto with ng7c|]. intros [b|] PK; [|exact I].
  destruct (negb (beqb b x5b)) eqn:B; [exact I|]. apply negb_false_iff, beqb_eq in B. subst b. apply peek_some in PK.
  apply ng_bind; [auto with ng7c|]. intros [[pos c]|] LL; [|exact I].
  destruct (beqb c x5d) eqn:C; [|exact I]. apply beqb_eq in C.
  destruct (label_loop_close _ _ _ _ _ _ _ LL) as [Np _]; [discriminate | exact C |].
  rewrite (link_label_valid_raw _ _ V PK Np). exact I.
Qed.
#[export] Hint Resolve ng7c_link_label : ng7c.
Lemma sg7c_clean_url url : utf8_valid url = true -> sg al7c true (fun cu => utf8_valid cu = true) (clean_url url).
Proof.
  intro V. unfold clean_url. pose proof (trim_slice_valid _ V) as Vt.
  destruct (trim_slice url) eqn:T; [reflexivity|]. rewrite <- T in *.
  destruct (unescape_html_total (trim_slice url)) as [t0 H0]. rewrite H0. cbn [bind].
  pose proof (unescape_html_utf8 _ _ H0 Vt) as V0. rewrite unescape_is_spec. cbn [sg].
  exact (unescape_spec_valid (List.length t0) _ U0 (le_n _) V0).
Qed.
Lemma ng7c_parse_reference_inline fold m s : nonul s -> utf8_valid s = true -> ng7c (parse_reference_inline fold m s).
Proof.
  intros N V. unfold parse_reference_inline.
  apply ng_bind; [auto with ng7c|]. intros [[lab pos]|] _; [|exact I]. destruct lab as [|l0 lab]; [exact I|].
  apply ng_bind; [auto with ng7c|]. intros [c|] PK; [|exact I]. destruct (negb (beqb c x3a)) eqn:Bc; [exact I|]. cbv zeta.
  apply negb_false_iff, beqb_eq in Bc. subst c. apply peek_some in PK.
  assert (V1 : utf8_valid (skipn (S pos) s) = true) by (apply skipn_utf8; [exact V|]; right; right; right; exists pos, x3a; auto).
  apply ng_bind; [auto with ng7c|]. intros pos1 SP1. pose proof (spnl_valid _ _ _ SP1 V1) as V2.
  apply ng_bind; [auto with ng7c|]. intros [[url matchlen]|] MS; [|exact I]. pose proof (msl_valid _ _ _ MS V2) as Vu.
  pose proof (msl_rest_valid _ _ _ MS V2) as V3. rewrite skipn_plus in V3.
  apply ng_bind; [auto with ng7c|]. intros pos2 SP2. pose proof (spnl_valid _ _ _ SP2 V3) as V4.
  match goal with |- ng _ _ (let '(title, pos) := ?tp in _) =>
    assert (HT : List.length (fst tp) <> 1 /\ utf8_valid (fst tp) = true); [|destruct tp as [title pos3]; cbn [fst] in HT] end.
  { destruct (Nat.eqb pos2 (pos1 + matchlen)); [cbn; split; [lia | reflexivity]|].
    destruct (scan_link_title (skipn pos2 s)) as [ml|] eqn:Sc; [|cbn; split; [lia | reflexivity]].
    pose proof (scan_link_title_ge _ _ Sc). pose proof (scan_link_title_le _ _ Sc). cbn [fst]. split; [rewrite firstn_length; lia|].
    apply prefix_ends_ascii; [exact V4 | apply scan_link_title_ends; exact Sc]. }
  destruct HT as [HT VT].
  apply ng_bind; [auto with ng7c|]. intros n _.
  apply ng_bind; [auto with ng7c|]. intros [p1 ok] _.
  eapply sg_bind with (P := fun fin : option (nat * bytes) => match fin with Some (_, t) => List.length t <> 1 /\ utf8_valid t = true | None => True end).
  { destruct ok; [exact (conj HT VT)|]. destruct title; [exact I|].
    apply sgb; [auto with ng7c|]. intros n2 _. apply sgb; [auto with ng7c|]. intros [p2 ok2] _.
    destruct ok2; cbn [sg List.length]; [split; [lia | reflexivity] | exact I]. }
  intros [[posf t]|] _ Hf; [|exact I]. destruct Hf as [Hf Vf].
  destruct (normalize_label fold (l0 :: lab) true); [exact I|].
  eapply sg_bind; [apply sg7c_clean_url; exact Vu|]. intros cu _ Vcu.
  match goal with |- sg ?a ?f _ ?r => change (ng a f r) end.
  apply ng_bind; [now apply ng7c_clean_title|]. intros ct Ect. rewrite Vcu, (clean_title_valid _ _ Ect Vf). cbn [negb]. exact I.
Qed.
#[export] Hint Resolve ng7c_parse_reference_inline : ng7c.
Lemma valid_suffix_boundary s k : k <= List.length s -> utf8_valid (skipn k s) = true -> is_char_boundary s k = true.
Proof.
  intros L Vk.
  assert (E : is_char_boundary (firstn k s ++ skipn k s) (List.length (firstn k s)) = true)
    by (rewrite FrontMatterProofs.boundary_app; now apply FrontMatterProofs.bnd_valid).
  rewrite firstn_skipn, firstn_length, Nat.min_l in E by lia. exact E.
Qed.
Lemma skipn_add {A} : forall a b (l : list A), skipn b (skipn a l) = skipn (a + b) l.
Proof. induction a as [|a IH]; intros b l; [reflexivity|]. destruct l as [|x l]; [now rewrite !skipn_nil | apply IH]. Qed.
(* the loop of resolve_reference_link_definitions: seeked stays inside the content, at a place where the rest is valid *)
Lemma sg7c_resolve_loop fold content : utf8_valid content = true -> nonul content -> forall fuel m seek seeked,
  seek = skipn seeked content -> seeked <= List.length content -> utf8_valid seek = true ->
  sg al7c true (fun r => fst r <= List.length content /\ utf8_valid (skipn (fst r) content) = true) (resolve_loop fuel fold m seek seeked).
Proof.
  intros Vc Nc. induction fuel as [|f IH]; intros m seek seeked Es L V; cbn [resolve_loop]; [reflexivity|].
  subst seek. destruct (skipn seeked content) as [|b r] eqn:Sk.
  - cbn [sg fst]. split; [exact L | rewrite Sk; reflexivity].
  - destruct (beqb b x5b); [|cbn [sg fst]; split; [exact L | rewrite Sk; exact V]].
    rewrite <- Sk in *.
    apply sgb; [apply ng7c_parse_reference_inline; [apply nonul_skipn; exact Nc | exact V]|].
    intros [[pos m']|] E; [|cbn [sg fst]; split; [exact L | exact V]].
    pose proof (pri_end _ _ _ _ _ E) as EBp. pose proof (EB_valid _ _ V EBp) as Vp. destruct EBp as [Lp _]. rewrite skipn_length in Lp.
    apply IH; [apply skipn_add | lia | exact Vp].
Qed.
Lemma ng7c_resolve_refdefs fold m c : nonul c -> utf8_valid c = true -> ng7c (resolve_refdefs fold m c).
Proof.
  intros N V. unfold resolve_refdefs.
  eapply sg_bind; [apply (sg7c_resolve_loop fold c V N); [reflexivity | lia | exact V]|].
  intros [seeked m'] _ [L Vs]. cbn [fst] in *. cbv beta iota.
  match goal with |- sg ?a ?f _ ?r => change (ng a f r) end.
  apply ng_bind; [|intros; exact I].
  destruct (Nat.eqb seeked 0); [exact I|].
  rewrite (valid_suffix_boundary c seeked L Vs). exact I.
Qed.
#[export] Hint Resolve ng7c_resolve_refdefs : ng7c.
Lemma ng7c_copy_line_offsets : forall n lo k, k + n <= List.length lo -> ng7c (copy_line_offsets n lo k).
Proof.
  induction n as [|m IH]; intros lo k H; cbn [copy_line_offsets]; [exact I|].
  destruct (nth_error lo k) eqn:E; [|apply nth_error_None in E; lia].
  apply ng_bind; [apply IH; lia | intros; exact I].
Qed.
Lemma ng7c_header_cells : forall cells id ln sl sc po, ng7c (header_cells cells id ln sl sc po).
Proof. induction cells as [|c r IH]; intros; cbn [header_cells]; nggo. Qed.
Lemma ng7c_row_cells : forall n cells id ln sc lc, ng7c (row_cells n cells id ln sc lc).
Proof. induction n as [|m IH]; intros cells id ln sc lc; destruct cells; cbn [row_cells]; nggo. Qed.
#[export] Hint Resolve ng7c_copy_line_offsets ng7c_header_cells ng7c_row_cells : ng7c.
Lemma ng7c_parse_html_block_prefix st t : (N.leb 1 t && N.leb t 7)%bool = true -> ng7c (parse_html_block_prefix st t).
Proof.
  intro H. unfold parse_html_block_prefix. apply andb_true_iff in H. destruct H as [H1 H2]. apply N.leb_le in H1, H2.
  destruct (N.leb 1 t && N.leb t 5)%bool eqn:A; [exact I|]. destruct (N.eqb t 6 || N.eqb t 7)%bool eqn:B; [exact I|]. exfalso.
  apply orb_false_iff in B. destruct B as [B1 B2]. apply N.eqb_neq in B1, B2.
  apply andb_false_iff in A. destruct A as [A|A]; apply N.leb_gt in A; lia.
Qed.
#[export] Hint Resolve ng7c_parse_html_block_prefix : ng7c.
Lemma ng7c_after_spaces : forall s, ng7c (after_spaces s).
Proof. induction s as [|b r IH]; cbn [after_spaces]; nggo. Qed.
Lemma ng7c_digits_loop : forall left s start digits, ng7c (digits_loop left s start digits).
Proof.
  induction left as [|l IH]; intros s start digits; destruct s as [|d r]; cbn [digits_loop]; try allowed.
  - destruct (N.ltb _ _); [allowed | exact I].
  - destruct (N.ltb _ _); [allowed|]. destruct l; [exact I|]. destruct r as [|e r']; [allowed|].
    destruct (StrLeafGen.sl_isdigit e); [apply IH | exact I].
Qed.
#[export] Hint Resolve ng7c_after_spaces ng7c_digits_loop : ng7c.
Lemma ng7c_parse_list_marker line pos ip : ng7c (parse_list_marker line pos ip).
Proof. unfold parse_list_marker. nggo. Qed.
#[export] Hint Resolve ng7c_parse_list_marker : ng7c.
Lemma ng7c_alert_title_loop line : forall fuel pos fl, ng7c (alert_title_loop fuel line pos fl).
Proof. induction fuel as [|f IH]; intros pos fl; cbn [alert_title_loop]; nggo. Qed.
Lemma ng7c_count_hashes : forall s, ng7c (count_hashes s).
Proof. induction s as [|b r IH]; cbn [count_hashes]; nggo. Qed.
#[export] Hint Resolve ng7c_alert_title_loop ng7c_count_hashes : ng7c.

(* ---- the cursor *)
Lemma ng7c_find_first_nonspace c line : ng7c (find_first_nonspace c line).
Proof. unfold find_first_nonspace. destruct (if Nat.leb _ _ then _ else _) as [f fc]. nggo. Qed.
Lemma ng7c_advance_loop line columns : forall fuel off col pct count, ng7c (advance_loop fuel line off col pct count columns).
Proof. induction fuel as [|f IH]; intros off col pct count; destruct count; cbn [advance_loop]; nggo. Qed.
#[export] Hint Resolve ng7c_find_first_nonspace ng7c_advance_loop : ng7c.
Lemma ng7c_advance_offset c line count columns : ng7c (advance_offset c line count columns).
Proof. unfold advance_offset. nggo. Qed.
#[export] Hint Resolve ng7c_advance_offset : ng7c.
Lemma ng7c_adv st line n b : ng7c (adv st line n b). Proof. unfold adv. nggo. Qed.
Lemma ng7c_ffn st line : ng7c (ffn st line). Proof. unfold ffn. nggo. Qed.
#[export] Hint Resolve ng7c_adv ng7c_ffn : ng7c.
Lemma ng7c_skip_one_space st line site : al7c site = true -> ng7c (skip_one_space st line site).
Proof. intro H. unfold skip_one_space. nggo. Qed.
Lemma ng7c_skip_fence_offset line site : al7c site = true -> forall i st, ng7c (skip_fence_offset i st line site).
Proof. intro H. induction i as [|j IH]; intro st; cbn [skip_fence_offset]; nggo. Qed.
Lemma ng7c_list_spaces_loop line sc : forall fuel st, ng7c (list_spaces_loop fuel st line sc).
Proof. induction fuel as [|f IH]; intro st; cbn [list_spaces_loop]; nggo. Qed.
#[export] Hint Resolve ng7c_list_spaces_loop : ng7c.
#[export] Hint Extern 1 (ng _ _ (skip_one_space _ _ _)) => (apply ng7c_skip_one_space; first [assumption | allowed]) : ng7c.
#[export] Hint Extern 1 (ng _ _ (skip_fence_offset _ _ _ _)) => (apply ng7c_skip_fence_offset; first [assumption | allowed]) : ng7c.

(* ---- tree primitives *)
Lemma ng7c_get st x : ng7c (get st x).
Proof. unfold get. destruct (find_node x (ps_root st)); [exact I | allowed]. Qed.
Lemma ng7c_modify st x f : ng7c (modify st x f).
Proof. unfold modify. destruct (upd x f (ps_root st)); [exact I | allowed]. Qed.
Lemma ng7c_modify_info st x f : ng7c (modify_info st x f).
Proof. apply ng7c_modify. Qed.
Lemma ng7c_bdetach st x : ng7c (bdetach st x).
Proof. unfold bdetach. destruct (edit_kids _ _ _); exact I. Qed.
Lemma ng7c_retighten st p : ng7c (retighten st p).
Proof. apply ng_ex. apply retighten_total. Qed.
#[export] Hint Resolve ng7c_get ng7c_modify ng7c_modify_info ng7c_bdetach ng7c_retighten : ng7c.
Lemma ng7c_append_child st p c : ng7c (append_child st p c).
Proof. apply ng7c_modify. Qed.
Lemma ng7c_last_child st x : ng7c (last_child st x). Proof. unfold last_child. nggo. Qed.
#[export] Hint Resolve ng7c_append_child ng7c_last_child : ng7c.
Lemma ng7c_last_child_is_open st x : ng7c (last_child_is_open st x).
Proof. unfold last_child_is_open. nggo. Qed.
#[export] Hint Resolve ng7c_last_child_is_open : ng7c.

Lemma ng7c_clear_llb_up : forall fuel st id, ng7c (clear_llb_up fuel st id).
Proof. induction fuel as [|f IH]; intros st id; cbn [clear_llb_up]; nggo. Qed.
Lemma ng7c_reopen : forall fuel st id, ng7c (reopen_ast_nodes fuel st id).
Proof. induction fuel as [|f IH]; intros st id; cbn [reopen_ast_nodes]; nggo. Qed.
#[export] Hint Resolve ng7c_clear_llb_up ng7c_reopen : ng7c.
Lemma ng7c_add_line st id line : ng7c (add_line st id line).
Proof. unfold add_line. nggo. Qed.
#[export] Hint Resolve ng7c_add_line : ng7c.
Lemma ng7c_is_not_greentext o st line : ng7c (is_not_greentext o st line).
Proof. unfold is_not_greentext. nggo. Qed.
#[export] Hint Resolve ng7c_is_not_greentext : ng7c.
Lemma ng7c_pbq o st line : ng7c (parse_block_quote_prefix o st line).
Proof. unfold parse_block_quote_prefix. nggo. Qed.
Lemma ng7c_pfn st line : ng7c (parse_footnote_definition_block_prefix st line).
Proof. unfold parse_footnote_definition_block_prefix. nggo. Qed.
Lemma ng7c_pip st line c mo pad : ng7c (parse_item_prefix st line c mo pad).
Proof. unfold parse_item_prefix. nggo. Qed.
#[export] Hint Resolve ng7c_pbq ng7c_pfn ng7c_pip : ng7c.

Lemma ng7c_finalize o st id : QI st -> UI st -> ng7c (finalize o st id).
Proof.
  intros P U. unfold finalize.
  apply ng_bind; [auto with ng7c|]. intros n G. pose proof (get_qn _ _ _ P G) as [_ Qa]. pose proof (get_un _ _ _ U G) as [Ua Ub].
  destruct (negb _); [allowed|].
  apply ng_bind; [nggo|]. intros ends _. cbv zeta.
  destruct (bi_val (binf n)) eqn:Ev; try solve [nggo].
  - (* CodeBlock: the info string *)
    apply ng_bind; [|intros [info lit] _; nggo].
    match goal with |- context [cb_fenced ?cb] => destruct (negb (cb_fenced cb)) eqn:F; [nggo|]; apply negb_false_iff in F; destruct (Ub _ eq_refl F) as [Vc _] end.
    destruct (negb (Nat.ltb _ _)) eqn:Lt; [allowed|]. apply negb_false_iff, Nat.ltb_lt in Lt.
    destruct (first_line_end_nth _ Lt) as [b [Nb Lb]].
    set (content := bi_content (binf n)) in *. set (pos := first_line_end content) in *.
    assert (Vp : utf8_valid (firstn pos content) = true).
    { pose proof (nth_error_split_at _ _ _ Nb) as Es. assert (V' := Vc). rewrite Es in V'.
      unfold utf8_valid in V'. apply utf8_run_ustate in V'.
      destruct (ustate_before_ascii _ _ _ V' (line_end_ascii _ Lb)) as [S0 _]. now apply utf8_run_ustate. }
    apply ng_bind; [auto with ng7c|]. intros t0 H0. pose proof (unescape_html_utf8 _ _ H0 Vp) as V0.
    rewrite trim_ok. cbn [bind]. rewrite unescape_is_spec. cbn [bind].
    assert (V2 : utf8_valid (unescape_spec (trim_slice t0)) = true).
    { apply (unescape_spec_valid (List.length (trim_slice t0)) _ U0 (le_n _)). apply trim_slice_valid. exact V0. }
    apply ng_bind; [|intros info _; nggo].
    destruct (unescape_spec (trim_slice t0)) eqn:Eu; [exact I|]. rewrite <- Eu in *. unfold from_utf8. rewrite V2. exact I.
  - (* Paragraph *)
    apply ng_bind; [apply ng7c_resolve_refdefs; [apply (Qa eq_refl) | apply (Ua eq_refl)]|]. intros r _. nggo.
Qed.
#[export] Hint Resolve ng7c_finalize : ng7c.

Section Line.
Variables (o : bopts) (line : bytes).
Hypothesis HLine : LOK line.

Ltac sat :=
  monall; repeat match goal with p : (_ * _)%type |- _ => destruct p end; cbn [fst snd] in *;
  repeat match goal with
         | A : add_child_gen _ ?s _ _ _ (fun i => i) [?k] = Ok (_, ?s'), Alc : all_info Qn ?k, Ps : QI ?s |- _ =>
           lazymatch goal with
           | H : QI s' |- _ => fail
           | _ => assert (QI s') by (eapply add_child_gen_qi; [exact A | auto | reflexivity | constructor; [exact Alc | constructor] | exact Ps])
           end
         | A : add_child_gen _ ?s _ _ _ (fun i => i) [?k] = Ok (_, ?s'), Alc : all_info Un ?k, Ps : UI ?s |- _ =>
           lazymatch goal with
           | H : UI s' |- _ => fail
           | _ => assert (UI s') by (eapply add_child_gen_ui; [exact A | auto | reflexivity | constructor; [exact Alc | constructor] | exact Ps])
           end
         | s : pstate |- _ =>
           lazymatch goal with
           | H : QI s |- _ => fail
           | _ => assert (QI s) by (eauto 8 with qi)
           end
         | s : pstate |- _ =>
           lazymatch goal with
           | H : UI s |- _ => fail
           | _ => assert (UI s) by (eauto 8 with ui)
           end
         end.

Ltac pstep :=
  match goal with
  | |- ng _ _ (bind ?r _) => apply ng_bind; [ try solve [auto with ng7c] | intros; sat ]
  | |- ng _ _ (Ok _) => exact I
  | |- ng _ _ OutOfFuel => reflexivity
  | |- ng _ _ (Panic _) => first [assumption | allowed]
  | |- ng _ _ no_node => allowed
  | |- ng _ _ (not_handled _ _) => exact I
  | |- ng _ _ (res_map _ _) => apply ng_res_map
  | |- ng _ _ (if ?b then _ else _) => destruct b
  | |- ng _ _ (match ?x with _ => _ end) => destruct x
  | |- ng _ _ (let (_, _) := ?x in _) => destruct x
  end.
Ltac pgo := repeat pstep; auto with ng7c.

Hint Resolve clear_llb_up_qi add_line_qi add_child_loop_qi list_spaces_loop_qi finalize_up_to_qi : qi.
Hint Resolve clear_llb_up_ui add_line_ui add_child_loop_ui list_spaces_loop_ui finalize_up_to_ui : ui.
Hint Resolve QI_st_next QI_st_current QI_st_refmap QI_st_cur QI_st_curline QI_st_last_line_length QI_st_line_number : ng7c.
Hint Resolve UI_st_next UI_st_current UI_st_refmap UI_st_cur UI_st_curline UI_st_last_line_length UI_st_line_number : ng7c.

Lemma ng7c_unwrap_parent site st id : al7c site = true -> QI st -> UI st -> ng7c (unwrap_parent site (finalize o st id)).
Proof. intros H P U. unfold unwrap_parent. pgo. Qed.
Hint Extern 1 (ng _ _ (unwrap_parent _ _)) => (apply ng7c_unwrap_parent; [first [assumption | allowed] | assumption | assumption]) : ng7c.
Lemma ng7c_add_child_loop k : forall fuel st parent, QI st -> UI st -> ng7c (add_child_loop fuel o st parent k).
Proof. induction fuel as [|f IH]; intros st parent P U; cbn [add_child_loop]; pgo. Qed.
Hint Resolve ng7c_add_child_loop : ng7c.
Lemma ng7c_add_child_gen st parent v col post kids : QI st -> UI st -> ng7c (add_child_gen o st parent v col post kids).
Proof. intros P U. unfold add_child_gen. apply ng_bind; [auto with ng7c|]. intros [p1 s1] _. nggo. Qed.
Lemma ng7c_add_child st parent v col : QI st -> UI st -> ng7c (add_child o st parent v col).
Proof. apply ng7c_add_child_gen. Qed.
Hint Resolve ng7c_add_child_gen ng7c_add_child : ng7c.
Lemma ng7c_finalize_up_to target site : al7c site = true -> forall fuel st, QI st -> UI st -> ng7c (finalize_up_to fuel o st target site).
Proof. intro H. induction fuel as [|f IH]; intros st P U; cbn [finalize_up_to]; pgo. Qed.
Hint Extern 1 (ng _ _ (finalize_up_to _ _ _ _ _)) => (apply ng7c_finalize_up_to; [first [assumption | allowed] | assumption | assumption]) : ng7c.

Lemma ng7c_parse_desc_list_details st c m : QI st -> UI st -> ng7c (parse_desc_list_details o st c m).
Proof.
  intros P U. unfold parse_desc_list_details. cbv zeta.
  apply ng_bind; [auto with ng7c|]. intros cn G.
  apply ng_bind; [nggo|]. intros r R. destruct r as [[[tight c1] lc]|]; [|exact I].
  assert (Alc : all_info Qn lc /\ all_info Un lc).
  { monall;
    match goal with Hl : last_opt (bkids ?n) = Some lc, Hg : get st _ = Ok ?n |- _ =>
      exact (conj (last_kid_all _ _ _ (get_allq _ _ _ P Hg) Hl) (last_kid_all _ _ _ (get_allu _ _ _ U Hg) Hl)) end. }
  destruct Alc as [Alc Alu]. clear R. destruct (bval lc) eqn:Bl; try exact I; pgo.
Qed.
Hint Resolve ng7c_parse_desc_list_details : ng7c.

Lemma ng7c_pcbp st cid cb : QI st -> UI st -> ng7c (parse_code_block_prefix o st line cid cb).
Proof. intros P U. unfold parse_code_block_prefix. pgo. Qed.
Lemma ng7c_pmbq st cid fl fo : QI st -> UI st -> ng7c (parse_multiline_block_quote_prefix o st line cid fl fo).
Proof. intros P U. unfold parse_multiline_block_quote_prefix. pgo. Qed.
Hint Resolve ng7c_pcbp ng7c_pmbq : ng7c.
Lemma ng7c_check_container st c : QI st -> UI st -> Qn (binf c) -> ng7c (check_container o st line c).
Proof.
  intros P U [Qh _]. unfold check_container. unfold bval in *. destruct (bi_val (binf c)) eqn:Bv; pgo.
Qed.
Lemma ng7c_cobi : forall fuel st c, QI st -> UI st -> ng7c (check_open_blocks_inner fuel o st line c).
Proof.
  induction fuel as [|f IH]; intros st c P U; cbn [check_open_blocks_inner]; [reflexivity|].
  apply ng_bind; [auto with ng7c|]. intros [cid|] _; [|exact I].
  apply ng_bind; [auto with ng7c|]. intros st1 E1. assert (P1 : QI st1) by eauto with qi. assert (U1 : UI st1) by eauto with ui.
  apply ng_bind; [auto with ng7c|]. intros cn G.
  apply ng_bind; [apply ng7c_check_container; [exact P1 | exact U1 | exact (get_qn _ _ _ P1 G)]|]. intros [[m sc] st2] E2.
  destruct m; [|exact I]. apply IH; [eapply check_container_qi; eassumption | eapply check_container_ui; eassumption].
Qed.
Hint Resolve ng7c_cobi : ng7c.
Lemma ng7c_check_open_blocks st : QI st -> UI st -> ng7c (check_open_blocks o st line).
Proof. intros P U. unfold check_open_blocks. pgo. Qed.

(* ---- tables *)
Lemma ng7c_try_inserting st c po : QI st -> UI st -> (forall cn, get st c = Ok cn -> is_paragraph cn = true) ->
  (forall cn, get st c = Ok cn -> PA (bi_content (binf cn)) po) ->
  ng7c (try_inserting_table_header_paragraph st c po).
Proof.
  intros P U Hc Hpo. unfold try_inserting_table_header_paragraph.
  apply ng_bind; [auto with ng7c|]. intros cn G. pose proof (get_qn _ _ _ P G) as [_ Qc]. pose proof (get_un _ _ _ U G) as [Uc _].
  pose proof (is_paragraph_val _ (Hc _ G)) as Bv. unfold bval in Bv. destruct (Qc Bv) as [_ Q2]. specialize (Uc Bv). pose proof (Hpo _ G) as Pp.
  destruct (Nat.ltb _ _); [allowed|]. cbv zeta.
  apply ng_bind; [auto with ng7c|]. intros pc Epc. rewrite trim_ok in Epc. inversion Epc; subst pc. clear Epc.
  destruct (parent_of c (ps_root st)); [|exact I].
  apply ng_bind; [auto with ng7c|]. intros pn _. destruct (negb _); [exact I|].
  apply ng_bind; [auto with ng7c|]. intros el _.
  apply ng_bind.
  { apply ng7c_copy_line_offsets. cbn [Nat.add].
    eapply Nat.le_trans; [apply cnl_unescape_pipes|]. eapply Nat.le_trans; [apply cnl_firstn | exact Q2]. }
  intros lo _. cbv zeta.
  apply ng_bind; [|intros; nggo].
  unfold from_utf8. rewrite (trim_slice_valid _ (unescape_pipes_valid _ U0 (PA_prefix_valid _ _ Uc Pp))). exact I.
Qed.

Lemma ng7c_try_opening_header st c : QI st -> UI st -> (forall cn, get st c = Ok cn -> is_paragraph cn = true) -> ng7c (try_opening_header o st c line).
Proof.
  intros P U Hc. unfold try_opening_header.
  apply ng_bind; [auto with ng7c|]. intros cn G. destruct (bi_tv (binf cn)); [exact I|].
  apply ng_bind; [auto with ng7c|]. intros rest _. destruct (scan_table_start rest); [|exact I].
  apply ng_bind; [auto with ng7c|]. intros [[dpo dcells]|] _; [|exact I].
  apply ng_bind; [auto with ng7c|]. intros [[po hcells]|] Er; [|exact I].
  destruct (negb _); [exact I|].
  apply ng_bind; [destruct (Nat.ltb 0 po); [|exact I]|].
  { apply ng7c_try_inserting; [exact P | exact U | exact Hc|].
    intros cn' G'. rewrite G in G'. inversion G'; subst cn'. eapply row_po; exact Er. }
  intros st1 _. nggo.
Qed.

Lemma ng7c_try_opening_row st c t : ng7c (try_opening_row o st c t line).
Proof. unfold try_opening_row. nggo. Qed.

Lemma ng7c_try_opening_block st c : QI st -> UI st -> ng7c (try_opening_block o st c line).
Proof.
  intros P U. unfold try_opening_block. apply ng_bind; [auto with ng7c|]. intros cn G.
  destruct (bval cn) eqn:Bv; try exact I.
  - apply ng7c_try_opening_header; [exact P | exact U |].
    intros cn' G'. rewrite G in G'. inversion G'; subst. unfold is_paragraph. now rewrite Bv.
  - apply ng7c_try_opening_row.
Qed.

(* ---- the handlers *)
Lemma ng7c_handle_alert st c ind : QI st -> UI st -> ng7c (handle_alert o st c line ind).
Proof. intros P U. unfold handle_alert. pgo. Qed.
Lemma ng7c_handle_mbq st c ind : QI st -> UI st -> ng7c (handle_multiline_blockquote o st c line ind).
Proof. intros P U. unfold handle_multiline_blockquote, rest_at_fns. pgo. Qed.
Lemma ng7c_handle_blockquote st c ind : QI st -> UI st -> ng7c (handle_blockquote o st c line ind).
Proof. intros P U. unfold handle_blockquote. pgo. Qed.
Lemma ng7c_handle_atx st c ind : QI st -> UI st -> ng7c (handle_atx_heading o st c line ind).
Proof. intros P U. unfold handle_atx_heading, rest_at_fns. pgo. Qed.
Lemma ng7c_handle_code_fence st c ind : QI st -> UI st -> ng7c (handle_code_fence o st c line ind).
Proof. intros P U. unfold handle_code_fence, rest_at_fns. pgo. Qed.
Lemma ng7c_handle_html_block st c ind : QI st -> UI st -> ng7c (handle_html_block o st c line ind).
Proof. intros P U. unfold handle_html_block, rest_at_fns. pgo. Qed.
Lemma ng7c_handle_setext st c ind : QI st -> UI st -> ng7c (handle_setext_heading o st c line ind).
Proof.
  intros P U. unfold handle_setext_heading, rest_at_fns. destruct ind; [exact I|].
  apply ng_bind; [auto with ng7c|]. intros cn G. destruct (is_paragraph cn) eqn:Pa; cbn [negb]; [|exact I].
  pose proof (get_qn _ _ _ P G) as [_ Qc]. pose proof (get_un _ _ _ U G) as [Uc _]. apply is_paragraph_val in Pa. unfold bval in Pa. destruct (Qc Pa) as [Q1 _]. specialize (Uc Pa).
  apply ng_bind; [auto with ng7c|]. intros rest _. destruct (if bo_ignore_setext o then None else _); [|exact I].
  apply ng_bind; [now apply ng7c_resolve_refdefs|]. intros r _. nggo.
Qed.
Lemma ng7c_handle_thematic_break st c ind am : QI st -> UI st -> ng7c (handle_thematic_break o st c line ind am).
Proof. intros P U. unfold handle_thematic_break. pgo. Qed.
Lemma ng7c_handle_footnote st c ind d : QI st -> UI st -> ng7c (handle_footnote o st c line ind d).
Proof. intros P U. unfold handle_footnote, rest_at_fns. pgo. Qed.
Lemma ng7c_handle_description_list st c ind : QI st -> UI st -> ng7c (handle_description_list o st c line ind).
Proof. intros P U. unfold handle_description_list, rest_at_fns. pgo. Qed.
Lemma ng7c_handle_list st c ind d : QI st -> UI st -> ng7c (handle_list o st c line ind d).
Proof. intros P U. unfold handle_list. pgo. Qed.
Lemma ng7c_handle_code_block st c ind ml : QI st -> UI st -> ng7c (handle_code_block o st c line ind ml).
Proof. intros P U. unfold handle_code_block. pgo. Qed.

Definition HP (x : bool * nat * pstate) : Prop := QI (snd x) /\ UI (snd x).
Lemma sg7c_h st (r : hres) : QI st -> UI st -> (QI st -> UI st -> ng7c r) ->
  (forall b c s, r = Ok (b, c, s) -> QI st -> QI s) -> (forall b c s, r = Ok (b, c, s) -> UI st -> UI s) -> sg al7c true HP r.
Proof. intros P U H Hp Hu. eapply ng_sg; [now apply H|]. intros [[b c] s] E. unfold HP. cbn [snd]. split; [eapply Hp | eapply Hu]; eassumption. Qed.
Lemma sg7c_or_else (r : hres) k : sg al7c true HP r -> (forall c s, QI s -> UI s -> sg al7c true HP (k c s)) -> sg al7c true HP (or_else_h r k).
Proof. intros H K. unfold or_else_h. eapply sg_bind; [exact H|]. intros [[h c] s] E Hx. destruct h; [exact Hx|]. destruct Hx as [Hx Hy]. apply K; assumption. Qed.

Ltac hp X := intros ? ? ?; first [apply (X o line HLine) | apply (X o line)].

Lemma ng7c_step st c am ml d : QI st -> UI st -> ng7c (open_new_blocks_step o st c line am ml d).
Proof.
  intros P U. unfold open_new_blocks_step. apply ng_bind; [auto with ng7c|]. intros s0 F0.
  assert (P0 : QI s0) by eauto with qi. assert (U0 : UI s0) by eauto with ui.
  eapply sg_bind with (P := HP).
  { apply sg7c_or_else; [eapply sg7c_h; [exact P0 | exact U0 | apply ng7c_handle_alert | hp handle_alert_qi | hp handle_alert_ui]|]. intros c1 s1 P1 U1.
    apply sg7c_or_else; [eapply sg7c_h; [exact P1 | exact U1 | apply ng7c_handle_mbq | hp handle_mbq_qi | hp handle_mbq_ui]|]. clear c1 s1 P1 U1. intros c1 s1 P1 U1.
    apply sg7c_or_else; [eapply sg7c_h; [exact P1 | exact U1 | apply ng7c_handle_blockquote | hp handle_blockquote_qi | hp handle_blockquote_ui]|]. clear c1 s1 P1 U1. intros c1 s1 P1 U1.
    apply sg7c_or_else; [eapply sg7c_h; [exact P1 | exact U1 | apply ng7c_handle_atx | hp handle_atx_qi | hp handle_atx_ui]|]. clear c1 s1 P1 U1. intros c1 s1 P1 U1.
    apply sg7c_or_else; [eapply sg7c_h; [exact P1 | exact U1 | apply ng7c_handle_code_fence | hp handle_code_fence_qi | hp handle_code_fence_ui]|]. clear c1 s1 P1 U1. intros c1 s1 P1 U1.
    apply sg7c_or_else; [eapply sg7c_h; [exact P1 | exact U1 | apply ng7c_handle_html_block | hp handle_html_block_qi | hp handle_html_block_ui]|]. clear c1 s1 P1 U1. intros c1 s1 P1 U1.
    apply sg7c_or_else; [eapply sg7c_h; [exact P1 | exact U1 | apply ng7c_handle_setext | hp handle_setext_qi | hp handle_setext_ui]|]. clear c1 s1 P1 U1. intros c1 s1 P1 U1.
    apply sg7c_or_else; [eapply sg7c_h; [exact P1 | exact U1 | apply ng7c_handle_thematic_break | hp handle_thematic_break_qi | hp handle_thematic_break_ui]|]. clear c1 s1 P1 U1. intros c1 s1 P1 U1.
    apply sg7c_or_else; [eapply sg7c_h; [exact P1 | exact U1 | apply ng7c_handle_footnote | hp handle_footnote_qi | hp handle_footnote_ui]|]. clear c1 s1 P1 U1. intros c1 s1 P1 U1.
    apply sg7c_or_else; [eapply sg7c_h; [exact P1 | exact U1 | apply ng7c_handle_description_list | hp handle_description_list_qi | hp handle_description_list_ui]|]. clear c1 s1 P1 U1. intros c1 s1 P1 U1.
    apply sg7c_or_else; [eapply sg7c_h; [exact P1 | exact U1 | apply ng7c_handle_list | hp handle_list_qi | hp handle_list_ui]|]. clear c1 s1 P1 U1. intros c1 s1 P1 U1.
    eapply sg7c_h; [exact P1 | exact U1 | apply ng7c_handle_code_block | hp handle_code_block_qi | hp handle_code_block_ui]. }
  intros [[handled c1] s1] _ P1. unfold HP in P1. cbn [snd] in P1. destruct P1 as [P1 U1].
  match goal with |- sg ?a ?f _ ?r => change (ng a f r) end.
  apply ng_bind; [|intros [[go c2] s2] _; nggo].
  destruct handled; [exact I|].
  apply ng_bind; [|intros [[|mark|id] s2] _; nggo].
  destruct (negb _ && bo_table o); [|exact I]. now apply ng7c_try_opening_block.
Qed.

Lemma ng7c_loop am : forall fuel st c ml d, QI st -> UI st -> ng7c (open_new_blocks_loop fuel o st c line am ml d).
Proof.
  induction fuel as [|f IH]; intros st c ml d P U; cbn [open_new_blocks_loop]; [reflexivity|].
  apply ng_bind; [auto with ng7c|]. intros n _. destruct (is_code_or_html n); [exact I|].
  apply ng_bind; [now apply ng7c_step|]. intros [[go c1] s1] E. destruct go; [|exact I].
  apply IH; [eapply open_new_blocks_step_qi; eassumption | eapply open_new_blocks_step_ui; eassumption].
Qed.

Lemma ng7c_open_new_blocks st c am : QI st -> UI st -> ng7c (open_new_blocks o st c line am).
Proof. intros P U. unfold open_new_blocks. apply ng_bind; [auto with ng7c|]. intros n _. now apply ng7c_loop. Qed.

Lemma ng7c_add_text_to_container st c lmc : QI st -> UI st -> ng7c (add_text_to_container o st c lmc line).
Proof.
  intros P U. unfold add_text_to_container.
  apply ng_bind; [auto with ng7c|]. intros s0 E0. assert (P0 : QI s0) by eauto with qi. assert (U0 : UI s0) by eauto with ui.
  apply ng_bind; [auto with ng7c|]. intros cn _.
  apply ng_bind; [nggo|]. intros s1 E1.
  assert (P1 : QI s1 /\ UI s1) by (sat; (split; [eauto with qi | eauto with ui])). destruct P1 as [P1 U1].
  apply ng_bind; [auto with ng7c|]. intros s2 E2. assert (P2 : QI s2) by eauto with qi. assert (U2 : UI s2) by eauto with ui.
  apply ng_bind; [auto with ng7c|]. intros s3 E3. assert (P3 : QI s3) by eauto with qi. assert (U3 : UI s3) by eauto with ui.
  apply ng_bind; [nggo|]. intros lz _.
  destruct lz; [auto with ng7c|].
  apply ng_bind; [auto with ng7c|]. intros s4 E4. assert (P4 : QI s4) by eauto with qi. assert (U4 : UI s4) by eauto with ui.
  apply ng_bind; [auto with ng7c|]. intros c4 _.
  apply ng_bind; [|intros; exact I].
  destruct (bval c4); pgo.
Qed.
End Line.

(* ================================================================== process_line, run_lines, parse_blocks *)
Lemma ng7c_process_line o st line0 : LOK (norm_line line0) -> QI st -> UI st -> ng7c (process_line o st line0).
Proof.
  intros HL P U. unfold process_line. cbv zeta.
  match goal with |- context [check_open_blocks o ?s ?l] =>
    assert (P0 : QI s) by (apply QI_st_line_number, QI_st_cur, QI_st_curline; exact P);
    assert (U0 : UI s) by (apply UI_st_line_number, UI_st_cur, UI_st_curline; exact U) end.
  apply ng_bind; [first [now apply (ng7c_check_open_blocks o (norm_line line0) HL) | now apply (ng7c_check_open_blocks o (norm_line line0))]|]. intros [r s1] E.
  assert (P1 : QI s1) by (eapply check_open_blocks_qi; eassumption).
  assert (U1 : UI s1) by (eapply check_open_blocks_ui; eassumption).
  apply ng_bind; [|intros; exact I].
  destruct r as [[lm am]|]; [|exact I]. cbv zeta.
  apply ng_bind; [first [now apply (ng7c_open_new_blocks o (norm_line line0) HL) | now apply (ng7c_open_new_blocks o (norm_line line0))]|]. intros [c s2] E2.
  assert (P2 : QI s2) by (eapply open_new_blocks_qi; eassumption).
  assert (U2 : UI s2) by (eapply open_new_blocks_ui; eassumption).
  destruct (Nat.eqb (ps_current s1) (ps_current s2)); [first [now apply (ng7c_add_text_to_container o (norm_line line0) HL) | now apply (ng7c_add_text_to_container o (norm_line line0))] | exact I].
Qed.

Lemma ng7c_process_lines o : forall ls st, Forall (fun l => LOK (norm_line l)) ls -> QI st -> UI st -> ng7c (process_lines o st ls).
Proof.
  induction ls as [|l r IH]; intros st F P U; cbn [process_lines]; [exact I|]. inversion F; subst.
  apply ng_bind; [now apply ng7c_process_line|]. intros s1 E.
  apply IH; [assumption | eapply process_line_qi; eassumption | eapply process_line_ui; eassumption].
Qed.

Lemma ng7c_finalize_document o st : QI st -> UI st -> ng7c (finalize_document o st).
Proof.
  intros P U. unfold finalize_document.
  apply ng_bind; [apply ng7c_finalize_up_to; [allowed | exact P | exact U]|]. intros s1 E.
  apply ng_bind; [|intros; exact I].
  apply ng7c_finalize; [eapply finalize_up_to_qi; eassumption | eapply finalize_up_to_ui; eassumption].
Qed.

Lemma ng7c_front_matter_prologue o x : ng7c (front_matter_prologue o init_state x).
Proof.
  unfold front_matter_prologue. destruct (bo_front_matter_delimiter o) as [d|]; [|exact I].
  apply ng_bind; [auto with ng7c|]. intros [[fm rest]|] _; [|exact I].
  apply ng_bind; [auto with ng7c|]. intros stripped _. cbn. exact I.
Qed.

(* the block phase panics at none of cont_sites: EVERY input byte string (valid UTF-8 or not), every option set *)
Theorem parse_blocks_ng7c o x : ng7c (parse_blocks o x).
Proof.
  unfold parse_blocks. apply ng_bind; [apply ng7c_front_matter_prologue|]. intros [st rest] E.
  pose proof (front_matter_prologue_qi _ _ _ _ E) as P.
  pose proof (front_matter_prologue_ui _ _ _ _ E) as U.
  pose proof (lines_lok rest) as LK. unfold lines in LK. destruct (feed_lines rest) as [ls total]. cbn [fst] in LK.
  apply ng_bind; [|intros; exact I]. unfold run_lines.
  apply ng_bind; [now apply ng7c_process_lines|]. intros s1 E1.
  apply ng7c_finalize_document; [eapply process_lines_qi; eassumption | eapply process_lines_ui; eassumption].
Qed.

Theorem parse_blocks_no_cont_panic o x s : In s cont_sites -> parse_blocks o x <> Panic s.
Proof. intro H. eapply sg_no_panic; [apply parse_blocks_ng7c | exact H]. Qed.
