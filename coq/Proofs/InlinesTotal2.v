(* Proofs/InlinesTotal2.v — C01, inline phase: INVENTORY of the Panic sites of Model/Inlines.v, the corrected
   totality statement, and the model-level witnesses that show which premises the statement needs.

   ==================================================================================================================
   INVENTORY (every `Panic "..."` string of Model/Inlines.v that parse_inlines can reach, plus the sites of the leaf
   functions it calls).  Searched BEFORE proving: 2.8 million block contents run through the extracted model (driver op
   `inl`: arbitrary NUL-free right-trimmed byte strings over an adversarial token alphabet - multi-line spans,
   delimiter runs / unterminated links / entities / `<` at the end, bare CR, invalid UTF-8, 12 option sets, with and
   without a reference map) and 3.3 million documents through the compiled parser (`vh` op parse, debug build).
   Result: on what the block phase can hand over NO site of the inline phase was reached; four sites are reachable
   in the model on contents the stated premises of inlines_total_full_statement allow but the block phase never
   produces (R1..R4 below: the STATEMENT was too weak, see inlines_total_statement for the premises needed).
   Legend: PROVED = excluded by a theorem pinned in Props/Inlines.v (this wave or earlier);
           INV(x) = excluded by invariant x; REACHABLE = witness.
   STATUS at the end of this wave (Props/Inlines.v 1g, inlines_total_partial_unreachable, premises: right-trimmed
   content, first line not blank, line endings < |line_offsets|, rs0 <= maxref): every site marked INV(P), INV(L),
   INV(C), `local`, `premise`, (D) and the leaf-function sites are PROVED unreachable (60 sites); the sites marked
   INV(S) (13) and INV(T) (3) remain (inlines_remaining_sites_are).

   invariants:  (P) pos <= |input| and what the scanner of the arm just returned is <= the slice it was given
                (L) start_line <= line, and line - start_line + line endings still ahead < |line_offsets|
                (C) column_offset = -(start of the current line) <= 0, that start <= every column a node is made with
                (S) every delimiter / bracket on the stacks names a distinct Text sibling, in stack order, whose text
                    is d_len copies of d_char (quotes: the replaced quote), delimiters above a bracket lie after it
                (D) every stacked delimiter's byte is a delimiter byte under the options     [PROVED here: FInv]
                (T) the Text siblings at the end of the list spell the letters before pos (the scheme of a URL)

   parse_inline
     inlines.rs:parse_inline:line-start.line                         INV(L)
     inlines.rs:parse_inline:line_offsets[adjusted_line]             INV(L).  REACHABLE in the model under the OLD premise
                                                                     (which counts LF only): R2 = a CR b, one line offset
     inlines.rs:parse_inline:input[pos..endpos]                      INV(P) (find_special_char answers in [pos, len])
     inlines.rs:parse_inline:endpos-1                                REACHABLE in the model: R1 = TAB LF x (a content whose
                                                                     FIRST line is blank: right-trimming the text in front
                                                                     of the line end leaves endpos = 0).  The block phase
                                                                     never hands over such a content (a blank line ends the
                                                                     paragraph; heading and cell contents are trimmed);
                                                                     1.2 million whitespace-heavy documents: no panic.
   handle_newline
     inlines.rs:handle_newline:input[pos]                            INV(P) (the dispatcher saw a byte at pos)
     inlines.rs:handle_newline:input[pos] after CR                   premise: the content is right-trimmed (no CR at the end)
     inlines.rs:handle_newline:pos-1                                 INV(P) (pos moved by at least one)
   handle_backticks (5 sites: pos-1, endpos-openticks, buf, endpos-1, matchlen)     PROVED (backticks_local_sites_unreachable)
   handle_backslash: unreachable, pos-1                              INV(P), local
   handle_entity: input[pos..], pos-1-len, pos-1                     INV(P) + StrLeaf_entity_unescape_bounds
   handle_pointy_brace: input[pos..], uri, email, pos-1-matchlen (x2), contents, pos-matchlen-1, pos-1
                                                                     INV(P): scanner match <= rest (autolink_uri / email,
                                                                     html_comment, html_tag; the cdata / declaration / pi
                                                                     forms test `pos + m + k > len` themselves)
   make_autolink:end_column-1                                        INV(P), local (end column >= 1)
   handle_delim: pos-numdelims, contents, pos-1                      INV(P), local (count_eq stays inside the input)
   scan_to_closing_dollar / _code_dollar: pos-1, input[pos-1] (4)    INV(P), local (the scan starts after the opening run)
   handle_dollars: endpos-fence_length, buf, matchlen, pos-fence_length, pos-1
                                                                     INV(P) + the length test `endpos - startpos >= 2 fence + 1`
   adjust_node_newlines: pos-matchlen-extra, pos-extra, slice        INV(P), from the three callers' arguments
     inlines.rs:adjust_node_newlines:line-start.line                 the node was made on the current line (mk)
     inlines.rs:adjust_node_newlines:parent_line_offsets[adjusted_line]
                                                                     index = number of LF inside the node (NOT the line of
                                                                     the block: a position defect, not a panic) < |lo| by (L)
   parser/inlines.rs:make_inline:try_from.unwrap (Model/Spx.v), inlines.rs:end_column:try_from.unwrap      INV(C)
   insert_emph: opener.inl not among the siblings, opener.inl.next_sibling().unwrap(), text().unwrap(),
     opener text as_bytes()[0], opener_num_chars-use_delims, closer_num_chars-use_delims                   INV(S)
     closer end.column-closer_num_chars, opener end.column-use_delims                                      INV(S) + INV(C)
   process_emphasis
     inlines.rs:process_emphasis:unreachable                         PROVED under (D) (pe_loop_unreachable_site)
     closer / opener text_mut().unwrap()                             INV(S)
     [OutOfFuel branch of pe_loop: `neither branch moves the closer`]   PROVED impossible under (D) (inlines_fuel)
   brackets
     inlines.rs:brackets[brackets_len - 1]                           local (close_bracket_match is called with the stack
                                                                     handle_close_bracket just found non-empty)
     close_bracket_match / handle_close_bracket: bracket inl_text not among the children     INV(S)
     handle_close_bracket: input[endurl..], input[starttitle..], input[endtitle..], title    INV(P): StrLeaf_manual_scan_link_url_total
                                                                     (n < |input|), spacechars / link_title <= rest
     handle_close_bracket:label from bracket position                INV(S) (b_pos <= pos - 1)
     inlines.rs:RefMap::lookup:max_ref_size-ref_size                 invariant ref_size <= max_ref_size (kept by lookup).
                                                                     REACHABLE in the model without the premise rs0 <= maxref: R3
   wikilinks: handle_wikilink:startpos-1, label_backslash_escapes:start_column+offset-1 (x2)   local (both >= 1)
   autolink extension
     autolink.rs:www_match:i+link_end-1                              check_domain of `www.` answers >= 1 (check_domain_www)
     inlines.rs:handle_autolink_with:skip-need_reverse               local (skip = reverse + link length)
     handle_autolink_with: node.last_child().unwrap(), expected text node before autolink colon, end.column-reverse
                                                                     INV(T) (+ (C) for the column).  REACHABLE in the model on
                                                                     INVALID UTF-8: R4 = < ? C3 http://a.b (the processing-
                                                                     instruction arm takes `<?` + 3 bytes when its scanner
                                                                     stops at the bad byte and so eats the h of the scheme;
                                                                     on valid UTF-8 the scanner only stops in front of `?>`).
                                                                     So valid UTF-8 of the content IS needed for totality.
                                                                     1.2 million valid-UTF-8 contents: not reached.
   leaf functions (Props/StrLeaf.v): Entity.unescape, unescape_html, normalize_code, clean_autolink, clean_url,
     manual_scan_link_url, check_domain, rtrim, ltrim: total.  clean_title: total unless |title| = 1 (the slice is
     empty or a link_title match, >= 2 bytes).  autolink_delim: total when the data does not start with `;`
     (it starts with `:` or `w`).
   after the inline phase (NOT in parse_inlines): autolink.rs:email_match (2), process_email_autolinks:i-reverse,
     parser/mod.rs:process_tasklist:assert_eq, Spx::consume (4): REACHABLE, finding C01-a (pipeline_total_refuted).
     This search also met single-line members of that class (compiled parser, autolink + footnotes +
     relaxed_autolinks): an unresolved footnote reference whose name holds a backslash escape, an entity, a code
     span or a smart quote - its fallback Text has the span of the bracket but fewer / more bytes.  Reported.
   ================================================================================================================== *)
From Coq Require Import List NArith ZArith Bool Strings.String Lia.
From V Require Import Base.Bytes Base.Res Gen.StrLeafGen Model.Strings Model.Spx Model.Ast Model.Inlines
     Spec.EscapeSpec Proofs.InlinesProofs.
Import ListNotations.
Local Open Scope list_scope.

(* ------------------------------------------------------------------ the premises the statement needs *)
(* number of line endings (LF, CR LF, bare CR): what handle_newline / handle_backslash count *)
Fixpoint line_endings (l : bytes) : nat :=
  match l with
  | [] => 0
  | c :: r =>
    (if beqb c x0a then 1
     else if beqb c x0d then match r with c2 :: _ => if beqb c2 x0a then 0 else 1 | [] => 1 end
     else 0) + line_endings r
  end.

(* the first line is not blank *)
Definition first_line_not_blank (inp : bytes) : bool :=
  match drop_while (fun c => beqb c x20 || beqb c x09) inp with
  | c :: _ => negb (is_line_end_char c)
  | [] => true
  end.

(* the statement of Props/Inlines.v (inlines_total_full_statement), restated here to be refuted *)
Definition inlines_total_old_statement : Prop :=
  forall o u inp lo sl refmap maxref rs0,
    has_nul inp = false -> rtrim_slice inp = inp ->
    List.length (filter (beqb x0a) inp) < List.length lo ->
    exists ch rs, parse_inlines true o u inp lo sl refmap maxref rs0 = Ok (ch, rs).

(* the statement with the premises the witnesses below show to be necessary; this is what the block phase hands
   over (Model/Parse.v run_leaves: content, line offsets and start line of a Paragraph / Heading / TableCell; the
   reference budget starts at 0 and only ref_lookup adds to it) *)
Definition inlines_total_statement : Prop :=
  forall o u inp lo sl refmap maxref rs0,
    has_nul inp = false -> rtrim_slice inp = inp -> utf8_valid inp = true ->
    first_line_not_blank inp = true ->
    line_endings inp < List.length lo ->
    (rs0 <= maxref)%N ->
    exists ch rs, parse_inlines true o u inp lo sl refmap maxref rs0 = Ok (ch, rs).

(* ------------------------------------------------------------------ the four model-level witnesses *)
Definition io_autolink_only : iopts :=
  mkIO true false false false false false false false false false false false false false false false false.

(* R1: TAB LF x *)
Definition r1_input : bytes := [x09; x0a; x78].
Lemma r1_value :
  parse_inlines true io_default oracle_ascii r1_input [0%N; 0%N] 1%N [] 100000%N 0%N
  = Panic "inlines.rs:parse_inline:endpos-1".
Proof. vm_compute. reflexivity. Qed.

(* R2: a CR b with one line offset (the old premise counts LF only) *)
Definition r2_input : bytes := [x61; x0d; x62].
Lemma r2_value :
  parse_inlines true io_default oracle_ascii r2_input [0%N] 1%N [] 100000%N 0%N
  = Panic "inlines.rs:parse_inline:line_offsets[adjusted_line]".
Proof. vm_compute. reflexivity. Qed.

(* R3: [a] with a reference map and a budget already above the maximum *)
Definition r3_input : bytes := [x5b; x61; x5d].
Lemma r3_value :
  parse_inlines true io_default oracle_ascii r3_input [0%N] 1%N [([x61], ([x2f; x75], []))] 0%N 1%N
  = Panic "inlines.rs:RefMap::lookup:max_ref_size-ref_size".
Proof. vm_compute. reflexivity. Qed.

(* R4: < ? C3 h t t p : / / a . b   with the autolink extension: not valid UTF-8 *)
Definition r4_input : bytes := [x3c; x3f; xc3; x68; x74; x74; x70; x3a; x2f; x2f; x61; x2e; x62].
Lemma r4_value :
  parse_inlines true io_autolink_only oracle_ascii r4_input [0%N] 1%N [] 100000%N 0%N
  = Panic "inlines.rs:handle_autolink_with:expected text node before autolink colon"
  /\ utf8_valid r4_input = false.
Proof. split; vm_compute; reflexivity. Qed.

(* the same bytes with a valid two-byte character in front of the scheme are parsed *)
Lemma r4_valid_neighbour :
  exists ch rs,
    parse_inlines true io_autolink_only oracle_ascii
      [x3c; x3f; xc3; xa9; x68; x74; x74; x70; x3a; x2f; x2f; x61; x2e; x62] [0%N] 1%N [] 100000%N 0%N = Ok (ch, rs).
Proof. vm_compute. eexists. eexists. reflexivity. Qed.

Theorem inlines_total_old_statement_refuted : ~ inlines_total_old_statement.
Proof.
  intro H.
  destruct (H io_default oracle_ascii r1_input [0%N; 0%N] 1%N [] 100000%N 0%N) as (ch & rs & E).
  - vm_compute. reflexivity.
  - vm_compute. reflexivity.
  - vm_compute. lia.
  - rewrite r1_value in E. discriminate E.
Qed.

(* each added premise is needed: a witness that satisfies the old premises and all the new ones but one *)
Theorem inlines_total_premises_needed :
  (* first line not blank *)
  (has_nul r1_input = false /\ rtrim_slice r1_input = r1_input /\ utf8_valid r1_input = true
   /\ line_endings r1_input < 2 /\ first_line_not_blank r1_input = false)
  (* line endings, not LF *)
  /\ (has_nul r2_input = false /\ rtrim_slice r2_input = r2_input /\ utf8_valid r2_input = true
      /\ first_line_not_blank r2_input = true /\ List.length (filter (beqb x0a) r2_input) < 1 /\ line_endings r2_input = 1)
  (* valid UTF-8 *)
  /\ (has_nul r4_input = false /\ rtrim_slice r4_input = r4_input /\ first_line_not_blank r4_input = true
      /\ line_endings r4_input < 1 /\ utf8_valid r4_input = false).
Proof. vm_compute. repeat split; try reflexivity; lia. Qed.
