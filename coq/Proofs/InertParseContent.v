(* Proofs/InertParseContent.v -- property C13, step between the block phase and the inline phase: the CONTENT of every
   leaf block (Paragraph, Heading, TableCell: the blocks the inline parser is run on) consists of bytes of the
   document and of the bytes the block phase itself inserts:

     x20   add_line: the columns that remain of a partially consumed tab;
     x0a   process_line: the line end appended to a last line that has none (Feed.norm_line);
     U+FFFD (xef xbf xbd)   feed: the replacement of NUL (Feed.lines).

   Statement (parse_blocks_leaf_contents): for a byte predicate Q that holds for x20, x0a, the three bytes of U+FFFD
   and every byte of the document, Q holds for every byte of the content of every leaf of `br_root r`.  With
   Q b = `b is not the trigger byte t`: a document without t has leaf contents without t (leaf_contents_nob).

   Proof: the invariant CQ (every leaf-kind node of the tree has a Q content) through the block phase, in the shape of
   the invariant NT of Proofs/InertBlocks.v.  The content of a leaf is written by add_line (the rest of the line,
   after chop_trailing_hashtags for an ATX heading), finalize (reference definitions stripped from the front of a
   paragraph), handle_setext_heading (the same), table.rs (cells: row / unescape_pipes / trim of the paragraph content or
   of the line; try_inserting_table_header_paragraph: a prefix of the paragraph content).  Code blocks and HTML blocks
   swap content and literal when finalized; they are not leaves and the invariant says nothing about them. *)
From Coq Require Import List NArith Arith Bool Lia Strings.String.
From V Require Import Base.Bytes Base.Res Gen.StrLeafGen Gen.FeedConst Gen.Nodes Gen.BlocksConst Model.Ast Model.Strings
  Model.Scan Model.Feed Model.FrontMatter Spec.LineEndings Spec.FrontMatterSpec Proofs.FrontMatterProofs
  Model.AutolinkLeaf Model.RefDef Model.Blocks Model.Parse Proofs.BlocksProofs Proofs.FeedProofs Proofs.StrLeafProofs
  Proofs.InertRegex Proofs.InertBlocks Spec.EscapeSpec.
Import ListNotations.
Local Open Scope string_scope.
Local Open Scope list_scope.

(* ================================================================== lists of bytes *)
Lemma firstn_In' {A} (b : A) : forall n l, In b (firstn n l) -> In b l.
Proof. intros n l H. rewrite <- (firstn_skipn n l). apply in_or_app. left. exact H. Qed.

Lemma drop_while_In p b : forall s, In b (drop_while p s) -> In b s.
Proof.
  induction s as [|c r IH]; cbn [drop_while]; [exact (fun H => H) |].
  destruct (p c); [intro H; right; apply IH; exact H | exact (fun H => H)].
Qed.

Lemma take_while_In p b : forall s, In b (take_while p s) -> In b s.
Proof.
  induction s as [|c r IH]; cbn [take_while]; [exact (fun H => H) |].
  destruct (p c); [| intros []]. intros [H | H]; [left; exact H | right; apply IH; exact H].
Qed.

Lemma rtrim_slice_In b s : In b (rtrim_slice s) -> In b s.
Proof. unfold rtrim_slice. intro H. apply in_rev in H. apply drop_while_In in H. apply in_rev. exact H. Qed.

Lemma ltrim_slice_In b s : In b (ltrim_slice s) -> In b s.
Proof. apply drop_while_In. Qed.

Lemma trim_slice_In b s : In b (trim_slice s) -> In b s.
Proof. unfold trim_slice. intro H. apply ltrim_slice_In. apply rtrim_slice_In. exact H. Qed.

Lemma unescape_pipes_In b : forall s, In b (unescape_pipes s) -> In b s.
Proof.
  induction s as [|c r IH]; cbn [unescape_pipes]; [exact (fun H => H) |].
  destruct (beqb c x5c && _).
  - intro H. right. apply IH. exact H.
  - intros [H | H]; [left; exact H | right; apply IH; exact H].
Qed.

Section content.
Variable Q : byte -> bool.
Hypothesis Q_space : Q x20 = true.

Notation QL := (forallb Q).

Lemma QL_sub l l' : (forall b, In b l' -> In b l) -> QL l = true -> QL l' = true.
Proof. intros S H. rewrite forallb_forall in *. intros b Hb. apply H, S, Hb. Qed.

Lemma QL_app a b : QL (a ++ b) = true <-> QL a = true /\ QL b = true.
Proof. rewrite forallb_app. apply andb_true_iff. Qed.

Lemma QL_skipn n l : QL l = true -> QL (skipn n l) = true.
Proof. apply QL_sub. intro b. apply skipn_In. Qed.

Lemma QL_firstn n l : QL l = true -> QL (firstn n l) = true.
Proof. apply QL_sub. intro b. apply firstn_In'. Qed.

Lemma QL_spaces : forall n, QL (repeat_bytes n x20) = true.
Proof. induction n as [|n IH]; cbn [repeat_bytes forallb]; [reflexivity |]. rewrite Q_space, IH. reflexivity. Qed.

Lemma QL_trim s t : Strings.trim s = Ok t -> QL s = true -> QL t = true.
Proof. rewrite trim_ok. intro H. inversion H; subst. apply QL_sub. intro b. apply trim_slice_In. Qed.

Lemma QL_from_utf8 site s t : from_utf8 site s = Ok t -> t = s.
Proof. unfold from_utf8. destruct (utf8_valid s); intro H; inversion H; reflexivity. Qed.

Lemma QL_chop line line' : chop_trailing_hashtags line = Ok line' -> QL line = true -> QL line' = true.
Proof.
  unfold chop_trailing_hashtags. rewrite rtrim_ok. cbn [bind fst]. intros H HQ.
  assert (QL (rtrim_slice line) = true) as H0 by (revert HQ; apply QL_sub; intro b; apply rtrim_slice_In).
  destruct (rtrim_slice line) as [|c0 r0] eqn:Er; [discriminate H |]. rewrite <- Er in *. clear Er.
  destruct (Nat.leb _ _); [inversion H; subst; exact H0 |].
  destruct (nth_error _ _) as [c|]; [| discriminate H].
  destruct (negb _ && _).
  - rewrite rtrim_ok in H. cbn [bind fst] in H. inversion H; subst.
    revert H0. apply QL_sub. intros b Hb. apply rtrim_slice_In in Hb. apply firstn_In' in Hb. exact Hb.
  - inversion H; subst. exact H0.
Qed.

Lemma QL_resolve_refdefs fold m c c' h m' :
  resolve_refdefs fold m c = Ok (c', h, m') -> QL c = true -> QL c' = true.
Proof.
  unfold resolve_refdefs. intros H HQ.
  destruct (resolve_loop _ _ _ _ _) as [[seeked m1]| |]; cbn [bind] in H; try discriminate H.
  destruct (Nat.eqb seeked 0).
  - cbn [bind] in H. inversion H; subst. exact HQ.
  - destruct (is_char_boundary c seeked); cbn [bind] in H; [| discriminate H].
    inversion H; subst. apply QL_skipn. exact HQ.
Qed.

(* ================================================================== the invariant *)
Definition cq (i : binfo) : bool := negb (contains_inlines (bi_val i)) || QL (bi_content i).

Fixpoint allq (t : bnode) : bool :=
  match t with BNode i ch => cq i && forallb allq ch end.

Definition CQ (st : pstate) : Prop := allq (ps_root st) = true.

Lemma allq_node i ch : allq (BNode i ch) = true <-> cq i = true /\ forallb allq ch = true.
Proof. cbn [allq]. rewrite andb_true_iff. tauto. Qed.

Lemma cq_new id v l c : cq (new_info id v l c) = true.
Proof. unfold cq, new_info. cbn [bi_val bi_content forallb]. apply orb_true_r. Qed.

Lemma cq_nonleaf i : contains_inlines (bi_val i) = false -> cq i = true.
Proof. unfold cq. intros ->. reflexivity. Qed.

Lemma cq_leaf i : contains_inlines (bi_val i) = true -> cq i = true -> QL (bi_content i) = true.
Proof. unfold cq. intros -> H. exact H. Qed.

Lemma cq_content i : QL (bi_content i) = true -> cq i = true.
Proof. unfold cq. intros ->. apply orb_true_r. Qed.

Lemma find_node_q id t : forall n, allq t = true -> find_node id t = Some n -> allq n = true.
Proof.
  induction t as [i ch IH] using bnode_ind2. intros n V F. cbn [find_node] in F.
  destruct (Nat.eqb (bi_id i) id). { now inversion F; subst. }
  apply allq_node in V. destruct V as [_ V].
  induction ch as [|c r IHr]; [discriminate|].
  inversion IH; subst. cbn [forallb] in V. apply andb_true_iff in V. destruct V as [Vc Vr].
  destruct (find_node id c) eqn:E.
  - inversion F; subst. eauto.
  - eauto.
Qed.

Lemma upd_q id f t : forall t',
  allq t = true -> upd id f t = Some t' ->
  (forall n, find_node id t = Some n -> allq n = true -> allq (f n) = true) ->
  allq t' = true.
Proof.
  induction t as [i ch IH] using bnode_ind2. intros t' V U Hf. cbn [upd] in U. cbn [find_node] in Hf.
  destruct (Nat.eqb (bi_id i) id). { inversion U; subst. apply Hf; auto. }
  match type of U with match ?g with _ => _ end = _ => destruct g as [ch'|] eqn:G; [|discriminate] end.
  inversion U; subst. clear U.
  apply allq_node in V. destruct V as [Vi V]. apply allq_node. split; [exact Vi|].
  revert ch' G Hf. induction ch as [|c r IHr]; intros ch' G Hf; [discriminate|].
  inversion IH as [|? ? IHc IHrest]; subst.
  cbn [forallb] in V. apply andb_true_iff in V. destruct V as [Vc Vr].
  destruct (upd id f c) as [c'|] eqn:Uc.
  - inversion G; subst. cbn [forallb]. apply andb_true_iff. split; [|exact Vr].
    apply (IHc c' Vc eq_refl). intros n Fn. apply Hf. now rewrite Fn.
  - match type of G with match ?g with _ => _ end = _ => destruct g as [r'|] eqn:Gr; [|discriminate] end.
    inversion G; subst.
    assert (Fc : find_node id c = None) by (eapply upd_none_find; eassumption).
    cbn [forallb]. apply andb_true_iff. split; [exact Vc|].
    apply IHr; auto. intros n Fn. apply Hf. now rewrite Fc.
Qed.

Lemma edit_kids_q id g t : forall t',
  allq t = true -> edit_kids id g t = Some t' ->
  (forall pk pre c post, forallb allq (pre ++ c :: post) = true -> forallb allq (g pk pre c post) = true) ->
  allq t' = true.
Proof.
  induction t as [i ch IH] using bnode_ind2. intros t' V U Hg. cbn [edit_kids] in U.
  apply allq_node in V. destruct V as [Vi V].
  destruct (split_kid id ch) as [[[pre c] post]|] eqn:S.
  { inversion U; subst. apply allq_node. split; [exact Vi|]. apply Hg.
    now rewrite <- (split_kid_eq _ _ _ _ _ S). }
  clear S.
  match type of U with match ?gg with _ => _ end = _ => destruct gg as [ch'|] eqn:G; [|discriminate] end.
  inversion U; subst. clear U. apply allq_node. split; [exact Vi|].
  revert ch' G. induction ch as [|c r IHr]; intros ch' G; [discriminate|].
  inversion IH as [|? ? IHc IHrest]; subst.
  cbn [forallb] in V. apply andb_true_iff in V. destruct V as [Vc Vr].
  destruct (edit_kids id g c) as [c'|] eqn:Uc.
  - inversion G; subst. cbn [forallb]. apply andb_true_iff. split; [|exact Vr]. apply (IHc c' Vc eq_refl Hg).
  - match type of G with match ?gg with _ => _ end = _ => destruct gg as [r'|] eqn:Gr; [|discriminate] end.
    inversion G; subst. cbn [forallb]. apply andb_true_iff. split; [exact Vc|]. now apply IHr.
Qed.

Lemma CQ_st_next st n : CQ st -> CQ (st_next st n). Proof. exact (fun H => H). Qed.
Lemma CQ_st_current st n : CQ st -> CQ (st_current st n). Proof. exact (fun H => H). Qed.
Lemma CQ_st_refmap st m : CQ st -> CQ (st_refmap st m). Proof. exact (fun H => H). Qed.
Lemma CQ_st_line_number st n : CQ st -> CQ (st_line_number st n). Proof. exact (fun H => H). Qed.
Lemma CQ_st_cur st c : CQ st -> CQ (st_cur st c). Proof. exact (fun H => H). Qed.
Lemma CQ_st_curline st a b : CQ st -> CQ (st_curline st a b). Proof. exact (fun H => H). Qed.
Lemma CQ_st_last_line_length st n : CQ st -> CQ (st_last_line_length st n). Proof. exact (fun H => H). Qed.

Lemma get_q st id n : CQ st -> get st id = Ok n -> allq n = true.
Proof. intros V G. eapply find_node_q; [exact V | apply get_find; exact G]. Qed.

Lemma allq_cq n : allq n = true -> cq (binf n) = true.
Proof. destruct n as [i ch]. intro H. apply allq_node in H. apply H. Qed.

Lemma allq_kids n : allq n = true -> forallb allq (bkids n) = true.
Proof. destruct n as [i ch]. intro H. apply allq_node in H. apply H. Qed.

Lemma modify_q st id f st' :
  CQ st -> modify st id f = Ok st' ->
  (forall n, find_node id (ps_root st) = Some n -> allq n = true -> allq (f n) = true) ->
  CQ st'.
Proof.
  unfold modify, CQ. intros V M Hf. destruct (upd id f (ps_root st)) as [r|] eqn:U; [|discriminate].
  inversion M; subst. cbn. eapply upd_q; eassumption.
Qed.

Lemma modify_info_q st id f st' :
  CQ st -> modify_info st id f = Ok st' ->
  (forall n, find_node id (ps_root st) = Some n -> cq (f (binf n)) = true) ->
  CQ st'.
Proof.
  intros V M Hf. eapply modify_q; [exact V | exact M |].
  intros n Fn Vn. specialize (Hf n Fn). destruct n as [i ch]. cbn [on_info binf] in *.
  apply allq_node. apply allq_node in Vn. tauto.
Qed.

Lemma modify_info_mono_q st id f st' :
  modify_info st id f = Ok st' -> (forall i, cq i = true -> cq (f i) = true) -> CQ st -> CQ st'.
Proof.
  intros M Hf V. eapply modify_info_q; [exact V | exact M |]. intros n Fn. apply Hf.
  apply (allq_cq n). eapply find_node_q; eassumption.
Qed.

Lemma bdetach_q st id st' : bdetach st id = Ok st' -> CQ st -> CQ st'.
Proof.
  unfold bdetach, CQ. intros D V.
  destruct (edit_kids id (fun _ pre _ post => pre ++ post) (ps_root st)) as [r|] eqn:E.
  - inversion D; subst. cbn. eapply edit_kids_q; [exact V | exact E |].
    intros pk pre c post K. rewrite forallb_app in K. cbn [forallb] in K. cbv beta. rewrite forallb_app.
    apply andb_true_iff in K. destruct K as [K1 K2]. apply andb_true_iff in K2. destruct K2 as [K2 K3].
    apply andb_true_iff. split; assumption.
  - now inversion D; subst.
Qed.

Lemma append_child_q st pid c st' :
  CQ st -> append_child st pid c = Ok st' -> allq c = true -> CQ st'.
Proof.
  intros V A Vc. eapply modify_q; [exact V | exact A |].
  intros n Fn Vn. destruct n as [i ch].
  apply allq_node. apply allq_node in Vn. destruct Vn as [Vi Vk]. split; [exact Vi|].
  rewrite forallb_app. cbn [forallb]. rewrite Vk, Vc. reflexivity.
Qed.

Lemma retighten_q st p st' : retighten st p = Ok st' -> CQ st -> CQ st'.
Proof.
  unfold retighten. intros H V. destruct p as [item|]; [|inversion H; subst; exact V].
  destruct (parent_of item (ps_root st)) as [lid|]; [|inversion H; subst; exact V].
  destruct (get st lid) as [l| |] eqn:G; cbn [bind] in H; try discriminate H.
  destruct (bi_open (binf l)); [inversion H; subst; exact V|].
  destruct (bval l) eqn:Ev; try (inversion H; subst; exact V).
  eapply modify_info_q; [exact V | exact H |]. intros n Fn. reflexivity.
Qed.

Lemma finalize_q o st id p st' : finalize o st id = Ok (p, st') -> CQ st -> CQ st'.
Proof.
  intros F V. unfold finalize in F.
  mstep F. pose proof (allq_cq _ (get_q _ _ _ V E)) as Ka. apply get_find in E.
  mstep F; [discriminate F|].
  mstep F. clear E1.
  destruct (bi_val (binf a)) eqn:Ev; mon F;
  repeat first [ apply CQ_st_refmap
               | (eapply retighten_q; [eassumption|])
               | (eapply bdetach_q; [eassumption|])
               | (eapply modify_info_q; [exact V | eassumption |
                    intros n Fn; rewrite E in Fn; inversion Fn; subst;
                    first [ (apply cq_nonleaf; cbn; rewrite ?Ev; reflexivity)
                          | (apply cq_content; cbn [set_content set_end set_open bi_content];
                             first [ (eapply QL_resolve_refdefs; [eassumption |]) | idtac ];
                             apply cq_leaf; [rewrite Ev; reflexivity | exact Ka]) ]]) ].
Qed.

Lemma unwrap_parent_fin_q site o st id p st' :
  unwrap_parent site (finalize o st id) = Ok (p, st') -> CQ st -> CQ st'.
Proof.
  unfold unwrap_parent. intros H V.
  destruct (finalize o st id) as [[op s1]| |] eqn:E; cbn [bind fst snd] in H; try discriminate H.
  destruct op; inversion H; subst. eapply finalize_q; eassumption.
Qed.

Lemma add_child_loop_q o k : forall fuel st parent p' st',
  add_child_loop fuel o st parent k = Ok (p', st') -> CQ st -> CQ st'.
Proof.
  induction fuel as [|f IH]; intros st parent p' st' H V; [discriminate|].
  cbn [add_child_loop] in H.
  destruct (get st parent) as [pn| |] eqn:G; cbn [bind] in H; try discriminate H.
  destruct (can_contain (bkind pn) k) eqn:C.
  - inversion H; subst. exact V.
  - match type of H with bind ?r _ = _ => destruct r as [[q s1]| |] eqn:U; cbn [bind fst snd] in H; try discriminate H end.
    eapply IH; [exact H|]. eapply unwrap_parent_fin_q; eassumption.
Qed.

Lemma add_child_gen_q o st parent v col post kids id st' :
  add_child_gen o st parent v col post kids = Ok (id, st') -> CQ st ->
  (forall id l c, cq (post (new_info id v l c)) = true) ->
  forallb allq kids = true -> CQ st'.
Proof.
  unfold add_child_gen. intros H V Hp Hk.
  match type of H with bind ?r _ = _ => destruct r as [[p' s1]| |] eqn:E; cbn [bind] in H; try discriminate H end.
  pose proof (add_child_loop_q _ _ _ _ _ _ _ E V) as V1.
  mon H. eapply append_child_q; [apply CQ_st_next; exact V1 | eassumption |].
  apply allq_node. split; [apply Hp | exact Hk].
Qed.

Lemma add_child_q o st parent v col id st' :
  add_child o st parent v col = Ok (id, st') -> CQ st -> CQ st'.
Proof.
  unfold add_child. intros H V. eapply add_child_gen_q; [exact H | exact V | intros; apply cq_new | reflexivity].
Qed.

Lemma adv_q st line n b st' : adv st line n b = Ok st' -> CQ st -> CQ st'.
Proof. unfold adv. intros H V. mon H. exact V. Qed.
Lemma ffn_q st line st' : ffn st line = Ok st' -> CQ st -> CQ st'.
Proof. unfold ffn. intros H V. mon H. exact V. Qed.


Create HintDb cq.
#[local] Hint Resolve adv_q ffn_q add_child_q unwrap_parent_fin_q finalize_q bdetach_q
  CQ_st_next CQ_st_current CQ_st_refmap CQ_st_line_number CQ_st_cur CQ_st_curline CQ_st_last_line_length
  modify_info_mono_q : cq.
#[local] Hint Extern 1 (forall i : binfo, cq i = true -> cq _ = true) =>
  (let i := fresh "i" in let Hi := fresh "Hi" in intros i Hi;
   repeat match goal with |- context[if ?b then _ else _] => destruct b end; destruct i; exact Hi) : cq.

Ltac qgo H := mon H; monall; repeat match goal with p : (_ * _)%type |- _ => destruct p end; cbn [fst snd] in *; eauto 20 with cq.

Lemma skip_one_space_q st line site st' : skip_one_space st line site = Ok st' -> CQ st -> CQ st'.
Proof. unfold skip_one_space. intros H V. qgo H. Qed.
#[local] Hint Resolve skip_one_space_q : cq.

Lemma parse_block_quote_prefix_q o st line b st' : parse_block_quote_prefix o st line = Ok (b, st') -> CQ st -> CQ st'.
Proof. unfold parse_block_quote_prefix. intros H V. qgo H. Qed.
#[local] Hint Resolve parse_block_quote_prefix_q : cq.
Lemma parse_footnote_prefix_q st line b st' : parse_footnote_definition_block_prefix st line = Ok (b, st') -> CQ st -> CQ st'.
Proof. unfold parse_footnote_definition_block_prefix. intros H V. qgo H. Qed.
#[local] Hint Resolve parse_footnote_prefix_q : cq.
Lemma parse_item_prefix_q st line c mo pad b st' : parse_item_prefix st line c mo pad = Ok (b, st') -> CQ st -> CQ st'.
Proof. unfold parse_item_prefix. intros H V. qgo H. Qed.
#[local] Hint Resolve parse_item_prefix_q : cq.
Lemma skip_fence_offset_q line site : forall i st st', skip_fence_offset i st line site = Ok st' -> CQ st -> CQ st'.
Proof. induction i as [|j IH]; intros st st' H V; cbn [skip_fence_offset] in H; qgo H. Qed.
#[local] Hint Resolve skip_fence_offset_q : cq.
Lemma parse_code_block_prefix_q o st line c cb a b st' :
  parse_code_block_prefix o st line c cb = Ok (a, b, st') -> CQ st -> CQ st'.
Proof. unfold parse_code_block_prefix. intros H V. qgo H. Qed.
#[local] Hint Resolve parse_code_block_prefix_q : cq.
Lemma parse_mbq_prefix_q o st line c fl fo a b st' :
  parse_multiline_block_quote_prefix o st line c fl fo = Ok (a, b, st') -> CQ st -> CQ st'.
Proof. unfold parse_multiline_block_quote_prefix. intros H V. qgo H. Qed.
#[local] Hint Resolve parse_mbq_prefix_q : cq.
Lemma check_container_q o st line c a b st' : check_container o st line c = Ok (a, b, st') -> CQ st -> CQ st'.
Proof. unfold check_container. intros H V. destruct (bval c); qgo H. Qed.
#[local] Hint Resolve check_container_q : cq.
Lemma check_open_blocks_inner_q o line : forall fuel st container a c b st',
  check_open_blocks_inner fuel o st line container = Ok (a, c, b, st') -> CQ st -> CQ st'.
Proof. induction fuel as [|f IH]; intros st container a c b st' H V; cbn [check_open_blocks_inner] in H; qgo H. Qed.
#[local] Hint Resolve check_open_blocks_inner_q : cq.
Lemma check_open_blocks_q o st line r st' : check_open_blocks o st line = Ok (r, st') -> CQ st -> CQ st'.
Proof. unfold check_open_blocks. intros H V. qgo H. Qed.
#[local] Hint Resolve check_open_blocks_q : cq.


(* ================================================================== table.rs *)
Definition cellsq (cells : list tcell) : bool := forallb (fun c => QL (ce_content c)) cells.

Lemma cellsq_app a b : cellsq (a ++ b) = true <-> cellsq a = true /\ cellsq b = true.
Proof. unfold cellsq. rewrite forallb_app. apply andb_true_iff. Qed.

Lemma row_loop_q spoiler s : QL s = true -> forall fuel offset po cells off' po' cells' ab,
  row_loop fuel s spoiler offset po cells = Ok (off', po', cells', ab) -> cellsq cells = true -> cellsq cells' = true.
Proof.
  intros HQ. induction fuel as [|f IH]; intros offset po cells off' po' cells' ab H C; [discriminate H |].
  cbn [row_loop] in H. cbv zeta in H.
  destruct (negb (Nat.ltb offset (List.length s))). { inversion H; subst; exact C. }
  match type of H with bind ?r _ = _ => destruct r as [rest| |]; cbn [bind] in H; try discriminate H end.
  match type of H with bind ?r _ = _ => destruct r as [[cells1 abort]| |] eqn:R; cbn [bind] in H; try discriminate H end.
  assert (C1 : cellsq cells1 = true).
  { destruct (Nat.ltb 0 _ || Nat.ltb 0 _); [| inversion R; subst; exact C].
    match type of R with bind ?r _ = _ => destruct r as [c0| |] eqn:R0; cbn [bind] in R; try discriminate R end.
    match type of R with bind ?r _ = _ => destruct r as [c1| |] eqn:R1; cbn [bind] in R; try discriminate R end.
    match type of R with bind ?r _ = _ => destruct r as [so| |]; cbn [bind] in R; try discriminate R end.
    destruct (Nat.eqb _ _); [inversion R; subst; exact C |].
    match type of R with bind ?r _ = _ => destruct r as [e| |]; cbn [bind] in R; try discriminate R end.
    match type of R with bind ?r _ = _ => destruct r as [c2| |] eqn:R2; cbn [bind] in R; try discriminate R end.
    inversion R; subst. apply cellsq_app. split; [exact C |].
    unfold cellsq. cbn [forallb ce_content]. rewrite andb_true_r.
    apply QL_from_utf8 in R2. subst c2. apply (QL_trim _ _ R1).
    destruct (Nat.ltb _ _); [discriminate R0 |]. inversion R0; subst.
    revert HQ. apply QL_sub. intros b Hb. apply unescape_pipes_In in Hb. apply firstn_In' in Hb.
    eapply skipn_In. exact Hb. }
  destruct abort. { inversion H; subst; exact C1. }
  destruct (Nat.ltb 0 (or0 (scan_table_cell_end rest))). { eapply IH; eassumption. }
  match type of H with bind ?r _ = _ => destruct r as [rest2| |]; cbn [bind] in H; try discriminate H end.
  destruct (Nat.ltb 0 _ && _).
  - match type of H with bind ?r _ = _ => destruct r as [rest3| |]; cbn [bind] in H; try discriminate H end.
    eapply IH; [exact H | reflexivity].
  - inversion H; subst. exact C1.
Qed.

Lemma row_q s spoiler po cells : row s spoiler = Ok (Some (po, cells)) -> QL s = true -> cellsq cells = true.
Proof.
  unfold row. intros H HQ.
  match type of H with bind ?r _ = _ => destruct r as [[[[off po1] cells1] ab]| |] eqn:R; cbn [bind] in H; try discriminate H end.
  destruct (negb _ || _ || _); [discriminate H |]. inversion H; subst.
  eapply row_loop_q; [exact HQ | exact R | reflexivity].
Qed.

Lemma header_cells_q : forall cells id ln sl sc po out,
  header_cells cells id ln sl sc po = Ok out -> cellsq cells = true -> forallb allq out = true.
Proof.
  induction cells as [|c r IH]; intros id ln sl sc po out H C; cbn [header_cells] in H.
  - inversion H; subst. reflexivity.
  - unfold cellsq in C. cbn [forallb] in C. apply andb_true_iff in C. destruct C as [Cc Cr].
    mon H. cbn [forallb]. apply andb_true_iff. split; [| eapply IH; eassumption].
    apply allq_node. split; [| reflexivity]. apply cq_content. exact Cc.
Qed.
Lemma row_cells_q : forall n cells id ln sc lastc out lc,
  row_cells n cells id ln sc lastc = Ok (out, lc) -> cellsq cells = true -> forallb allq out = true.
Proof.
  induction n as [|n IH]; intros cells id ln sc lastc out lc H C; cbn [row_cells] in H.
  - inversion H; subst. reflexivity.
  - destruct cells as [|c r]; [inversion H; subst; reflexivity |].
    unfold cellsq in C. cbn [forallb] in C. apply andb_true_iff in C. destruct C as [Cc Cr].
    mon H. match goal with E : row_cells _ _ _ _ _ _ = Ok ?x |- _ => destruct x as [rest lc'] end. cbn [fst snd forallb]. apply andb_true_iff. split; [| eapply IH; eassumption].
    apply allq_node. split; [| reflexivity]. apply cq_content. exact Cc.
Qed.

Lemma filler_cells_q : forall n id ln lastc, forallb allq (filler_cells n id ln lastc) = true.
Proof.
  induction n as [|n IH]; intros; cbn [filler_cells forallb]; [reflexivity |].
  rewrite IH, andb_true_r. apply allq_node. split; [apply cq_new | reflexivity].
Qed.

Lemma try_inserting_q st container po st' c0 :
  try_inserting_table_header_paragraph st container po = Ok st' ->
  get st container = Ok c0 -> contains_inlines (bval c0) = true -> CQ st -> CQ st'.
Proof.
  unfold try_inserting_table_header_paragraph. intros H G L V. rewrite G in H. cbn [bind] in H.
  pose proof (cq_leaf _ L (allq_cq _ (get_q _ _ _ V G))) as HC.
  destruct (Nat.ltb _ po); [discriminate H |]. cbv zeta in H.
  match type of H with bind ?r _ = _ => destruct r as [pc| |] eqn:T; cbn [bind] in H; try discriminate H end.
  destruct (parent_of container (ps_root st)) as [pid|]; [| inversion H; subst; exact V].
  match type of H with bind ?r _ = _ => destruct r as [pn| |]; cbn [bind] in H; try discriminate H end.
  destruct (negb _); [inversion H; subst; exact V |].
  match type of H with bind ?r _ = _ => destruct r as [el| |]; cbn [bind] in H; try discriminate H end.
  match type of H with bind ?r _ = _ => destruct r as [lo| |]; cbn [bind] in H; try discriminate H end.
  match type of H with bind ?r _ = _ => destruct r as [content| |] eqn:U; cbn [bind] in H; try discriminate H end.
  match type of H with bind ?r _ = _ => destruct r as [st1| |] eqn:M; cbn [bind] in H; try discriminate H end.
  assert (V1 : CQ st1).
  { eapply modify_info_mono_q; [exact M | intros i Hi; destruct i; exact Hi | apply CQ_st_next; exact V]. }
  match type of H with match ?e with _ => _ end = _ => destruct e as [r|] eqn:E; [| discriminate H] end.
  inversion H; subst. unfold CQ. cbn [ps_root st_root].
  eapply edit_kids_q; [exact V1 | exact E |].
  intros pk pre x post K. cbv beta. destruct (can_contain pk KParagraph); [| exact K].
  rewrite forallb_app in K. apply andb_true_iff in K. destruct K as [K1 K2].
  rewrite forallb_app. rewrite K1. cbn [andb app forallb] in *. rewrite K2, andb_true_r.
  apply allq_node. split; [| reflexivity]. apply cq_content. cbn [set_lo set_content bi_content].
  apply QL_from_utf8 in U. subst content. apply (QL_trim _ _ T).
  revert HC. apply QL_sub. intros b Hb. apply unescape_pipes_In in Hb. apply firstn_In' in Hb. exact Hb.
Qed.

Lemma try_opening_header_q o st container line r st' c0 :
  try_opening_header o st container line = Ok (r, st') ->
  get st container = Ok c0 -> bval c0 = Paragraph -> CQ st -> CQ st'.
Proof.
  unfold try_opening_header. intros H G L V. rewrite G in H. cbn [bind] in H.
  assert (Lc : contains_inlines (bval c0) = true) by (rewrite L; reflexivity).
  pose proof (cq_leaf _ Lc (allq_cq _ (get_q _ _ _ V G))) as HC.
  destruct (bi_tv (binf c0)); [inversion H; subst; exact V |].
  match type of H with bind ?r _ = _ => destruct r as [rest| |]; cbn [bind] in H; try discriminate H end.
  destruct (scan_table_start rest); [| inversion H; subst; exact V].
  match type of H with bind ?r _ = _ => destruct r as [[[dpo dcells]|]| |]; cbn [bind] in H; try discriminate H end;
    [| inversion H; subst; exact V].
  match type of H with bind ?r _ = _ => destruct r as [[[po hcells]|]| |] eqn:HR; cbn [bind] in H; try discriminate H end;
    [| inversion H; subst; exact V].
  pose proof (row_q _ _ _ _ HR HC) as CH.
  destruct (negb (Nat.eqb _ _)); [inversion H; subst; exact V |].
  match type of H with bind ?r _ = _ => destruct r as [st1| |] eqn:TI; cbn [bind] in H; try discriminate H end.
  assert (V1 : CQ st1).
  { destruct (Nat.ltb 0 po); [eapply try_inserting_q; eassumption | inversion TI; subst; exact V]. }
  match type of H with bind ?r _ = _ => destruct r as [c1| |]; cbn [bind] in H; try discriminate H end.
  cbv zeta in H.
  destruct (Nat.eqb (bi_sc (binf c1)) 0); [discriminate H |].
  match type of H with bind ?r _ = _ => destruct r as [k0| |]; cbn [bind] in H; try discriminate H end.
  match type of H with bind ?r _ = _ => destruct r as [k| |]; cbn [bind] in H; try discriminate H end.
  match type of H with bind ?r _ = _ => destruct r as [cells| |] eqn:HCs; cbn [bind] in H; try discriminate H end.
  pose proof (header_cells_q _ _ _ _ _ _ _ HCs CH) as CC.
  match type of H with bind ?r _ = _ => destruct r as [k2| |]; cbn [bind] in H; try discriminate H end.
  destruct (Nat.eqb (List.length line) 0); [discriminate H |].
  match type of H with bind ?r _ = _ => destruct r as [st3| |] eqn:A; cbn [bind] in H; try discriminate H end.
  assert (V3 : CQ st3) by (eapply adv_q; [exact A | apply CQ_st_next; exact V1]).
  match type of H with match ?e with _ => _ end = _ => destruct e as [rt|] eqn:E; [| discriminate H] end.
  inversion H; subst. unfold CQ. cbn [ps_root st_root].
  eapply edit_kids_q; [exact V3 | exact E |].
  intros pk pre x post K. cbv beta. destruct (is_paragraph x); [| exact K].
  rewrite forallb_app in K. apply andb_true_iff in K. destruct K as [K1 K2].
  cbn [forallb] in K2. apply andb_true_iff in K2. destruct K2 as [_ K2].
  rewrite forallb_app, K1. cbn [andb app forallb]. rewrite K2, andb_true_r.
  apply allq_node. split; [apply cq_new |]. cbn [forallb]. rewrite andb_true_r.
  apply allq_node. split; [reflexivity | exact CC].
Qed.

Lemma try_opening_row_q o st container t line r st' :
  try_opening_row o st container t line = Ok (r, st') -> QL line = true -> CQ st -> CQ st'.
Proof.
  unfold try_opening_row. intros H HL V.
  destruct (blank st); [inversion H; subst; exact V |].
  destruct (N.ltb _ _); [inversion H; subst; exact V |].
  match type of H with bind ?r _ = _ => destruct r as [c| |]; cbn [bind] in H; try discriminate H end.
  match type of H with bind ?r _ = _ => destruct r as [rest| |] eqn:SF; cbn [bind] in H; try discriminate H end.
  assert (HR : QL rest = true).
  { unfold slice_from in SF. destruct (Nat.ltb _ _); [discriminate SF |]. inversion SF; subst. apply QL_skipn. exact HL. }
  match type of H with bind ?r _ = _ => destruct r as [[[po cells]|]| |] eqn:RW; cbn [bind] in H; try discriminate H end;
    [| inversion H; subst; exact V].
  pose proof (row_q _ _ _ _ RW HR) as CC.
  cbv zeta in H.
  destruct (Nat.eqb (bi_sc (binf c)) 0); [discriminate H |].
  match type of H with bind ?r _ = _ => destruct r as [[parsed lastc]| |] eqn:RC; cbn [bind] in H; try discriminate H end.
  assert (CP : forallb allq parsed = true).
  { eapply row_cells_q; [exact RC |]. exact CC. }
  destruct (Nat.ltb _ _ && Nat.eqb lastc 0); [discriminate H |].
  match type of H with bind ?r _ = _ => destruct r as [st1| |] eqn:M; cbn [bind] in H; try discriminate H end.
  assert (V1 : CQ st1).
  { eapply modify_q; [apply CQ_st_next; exact V | exact M |].
    intros n Fn Vn. destruct n as [i ch]. apply allq_node in Vn. destruct Vn as [_ Vk].
    apply allq_node. split; [apply cq_nonleaf; reflexivity |].
    rewrite forallb_app, Vk. cbn [andb forallb]. rewrite andb_true_r.
    apply allq_node. split; [reflexivity |]. rewrite forallb_app, CP, filler_cells_q. reflexivity. }
  destruct (Nat.eqb (List.length line) 0); [discriminate H |].
  match type of H with bind ?r _ = _ => destruct r as [k| |]; cbn [bind] in H; try discriminate H end.
  match type of H with bind ?r _ = _ => destruct r as [st2| |] eqn:A; cbn [bind] in H; try discriminate H end.
  inversion H; subst. eapply adv_q; eassumption.
Qed.

Lemma try_opening_block_q o st c line r st' :
  try_opening_block o st c line = Ok (r, st') -> QL line = true -> CQ st -> CQ st'.
Proof.
  unfold try_opening_block. intros H HL V.
  destruct (get st c) as [cn| |] eqn:G; cbn [bind] in H; try discriminate H.
  destruct (bval cn) eqn:Ev; try (inversion H; subst; exact V).
  - eapply try_opening_header_q; eassumption.
  - eapply try_opening_row_q; eassumption.
Qed.
#[local] Hint Resolve try_opening_block_q : cq.


(* ================================================================== the openers *)
Lemma reopen_q : forall fuel st id st', reopen_ast_nodes fuel st id = Ok st' -> CQ st -> CQ st'.
Proof. induction fuel as [|f IH]; intros st id st' H V; cbn [reopen_ast_nodes] in H; qgo H. Qed.
#[local] Hint Resolve reopen_q : cq.

Lemma last_kid_q c lc : allq c = true -> last_opt (bkids c) = Some lc -> allq lc = true.
Proof.
  destruct c as [i ch]. intros V L. apply allq_node in V. destruct V as [_ V].
  cbn [bkids] in L. apply last_opt_in in L. rewrite forallb_forall in V. now apply V.
Qed.

Lemma parse_desc_list_details_q o st c m b c' st' :
  parse_desc_list_details o st c m = Ok (b, c', st') -> CQ st -> CQ st'.
Proof.
  unfold parse_desc_list_details. intros H V.
  destruct (get st c) as [cn| |] eqn:G; cbn [bind] in H; try discriminate H.
  match type of H with bind ?r _ = _ => destruct r as [[[[tight c1] lc]|]| |] eqn:R; cbn [bind] in H; try discriminate H end;
    [|inversion H; subst; exact V].
  assert (Vlc : allq lc = true).
  { pose proof (get_q _ _ _ V G) as Vc.
    destruct (last_opt (bkids cn)) eqn:L.
    - inversion R; subst. eapply last_kid_q; eassumption.
    - mon R. eapply last_kid_q; [eapply get_q; [exact V | eassumption] | eassumption]. }
  clear R.
  destruct (bval lc) eqn:Bl; try (inversion H; subst; exact V).
  - (* DescriptionItem *) qgo H.
  - (* Paragraph *)
    mon H; monall; repeat match goal with p : (_ * _)%type |- _ => destruct p end; cbn [fst snd] in *;
    match goal with A : add_child_gen _ ?s _ DescriptionTerm _ _ _ = Ok (_, ?s') |- _ =>
      assert (CQ s -> CQ s') by
        (intro; eapply add_child_gen_q; [exact A | assumption | intros; apply cq_new |
           cbn [forallb]; rewrite Vlc; reflexivity])
    end; eauto 20 with cq.
Qed.
#[local] Hint Resolve parse_desc_list_details_q : cq.

Lemma handle_alert_q o st c line ind b c' st' : handle_alert o st c line ind = Ok (b, c', st') -> CQ st -> CQ st'.
Proof. unfold handle_alert. intros H V. qgo H. Qed.
Lemma handle_mbq_q o st c line ind b c' st' : handle_multiline_blockquote o st c line ind = Ok (b, c', st') -> CQ st -> CQ st'.
Proof. unfold handle_multiline_blockquote, rest_at_fns. intros H V. qgo H. Qed.
Lemma handle_blockquote_q o st c line ind b c' st' : handle_blockquote o st c line ind = Ok (b, c', st') -> CQ st -> CQ st'.
Proof. unfold handle_blockquote. intros H V. qgo H. Qed.
Lemma handle_atx_q o st c line ind b c' st' : handle_atx_heading o st c line ind = Ok (b, c', st') -> CQ st -> CQ st'.
Proof.
  unfold handle_atx_heading, rest_at_fns. intros H V. mon H; monall; repeat match goal with p : (_ * _)%type |- _ => destruct p end; cbn [fst snd] in *; eauto with cq.
  eapply add_child_gen_q; [eassumption | eauto with cq | intros; apply cq_content; reflexivity | reflexivity].
Qed.
Lemma handle_code_fence_q o st c line ind b c' st' : handle_code_fence o st c line ind = Ok (b, c', st') -> CQ st -> CQ st'.
Proof. unfold handle_code_fence, rest_at_fns. intros H V. qgo H. Qed.
Lemma handle_html_block_q o st c line ind b c' st' : handle_html_block o st c line ind = Ok (b, c', st') -> CQ st -> CQ st'.
Proof. unfold handle_html_block, rest_at_fns. intros H V. qgo H. Qed.
Lemma handle_thematic_break_q o st c line ind am b c' st' : handle_thematic_break o st c line ind am = Ok (b, c', st') -> CQ st -> CQ st'.
Proof. unfold handle_thematic_break. intros H V. qgo H. Qed.
Lemma handle_footnote_q o st c line ind d b c' st' : handle_footnote o st c line ind d = Ok (b, c', st') -> CQ st -> CQ st'.
Proof. unfold handle_footnote, rest_at_fns. intros H V. qgo H. Qed.
Lemma handle_description_list_q o st c line ind b c' st' : handle_description_list o st c line ind = Ok (b, c', st') -> CQ st -> CQ st'.
Proof. unfold handle_description_list, rest_at_fns. intros H V. qgo H. Qed.
Lemma list_spaces_loop_q line sc : forall fuel st st', list_spaces_loop fuel st line sc = Ok st' -> CQ st -> CQ st'.
Proof. induction fuel as [|f IH]; intros st st' H V; cbn [list_spaces_loop] in H; qgo H. Qed.
#[local] Hint Resolve list_spaces_loop_q : cq.
Lemma handle_list_q o st c line ind d b c' st' : handle_list o st c line ind d = Ok (b, c', st') -> CQ st -> CQ st'.
Proof. unfold handle_list. intros H V. qgo H. Qed.
Lemma handle_code_block_q o st c line ind ml b c' st' : handle_code_block o st c line ind ml = Ok (b, c', st') -> CQ st -> CQ st'.
Proof. unfold handle_code_block. intros H V. qgo H. Qed.

(* the setext underline turns the paragraph into a heading whose content is the paragraph's, reference definitions
   stripped *)
Lemma handle_setext_q o st c line ind b c' st' : handle_setext_heading o st c line ind = Ok (b, c', st') -> CQ st -> CQ st'.
Proof.
  unfold handle_setext_heading, rest_at_fns. intros H V.
  destruct ind; [inversion H; subst; exact V |].
  destruct (get st c) as [cn| |] eqn:G; cbn [bind] in H; try discriminate H.
  destruct (is_paragraph cn) eqn:P; cbn [negb] in H; [| inversion H; subst; exact V].
  match type of H with bind ?r _ = _ => destruct r as [rest| |]; cbn [bind] in H; try discriminate H end.
  match type of H with match ?e with _ => _ end = _ => destruct e as [sc|]; [| inversion H; subst; exact V] end.
  match type of H with bind ?r _ = _ => destruct r as [[[content' hc] m']| |] eqn:R; cbn [bind] in H; try discriminate H end.
  match type of H with bind ?r _ = _ => destruct r as [st1| |] eqn:M; cbn [bind] in H; try discriminate H end.
  assert (Lc : contains_inlines (bval cn) = true).
  { unfold is_paragraph in P. destruct (bval cn); try discriminate P. reflexivity. }
  pose proof (QL_resolve_refdefs _ _ _ _ _ _ R (cq_leaf _ Lc (allq_cq _ (get_q _ _ _ V G)))) as HC.
  assert (V1 : CQ st1).
  { eapply modify_info_q; [apply CQ_st_refmap; exact V | exact M |].
    intros n Fn. apply cq_content. destruct hc; destruct (binf n); exact HC. }
  destruct hc; qgo H.
Qed.
#[local] Hint Resolve handle_alert_q handle_mbq_q handle_blockquote_q handle_atx_q handle_code_fence_q
  handle_html_block_q handle_setext_q handle_thematic_break_q handle_footnote_q
  handle_description_list_q handle_list_q handle_code_block_q : cq.

Lemma or_else_h_q (r : hres) k b c st st' :
  or_else_h r k = Ok (b, c, st') -> CQ st ->
  (forall b1 c1 s1, r = Ok (b1, c1, s1) -> CQ st -> CQ s1) ->
  (forall c1 s1 b2 c2 s2, k c1 s1 = Ok (b2, c2, s2) -> CQ s1 -> CQ s2) ->
  CQ st'.
Proof.
  unfold or_else_h. intros H V Hr Hk.
  destruct r as [[[b1 c1] s1]| |]; cbn [bind] in H; try discriminate H.
  destruct b1.
  - inversion H; subst. eapply Hr; [reflexivity | exact V].
  - eapply Hk; [exact H|]. eapply Hr; [reflexivity | exact V].
Qed.

Ltac chain_q :=
  match goal with
  | R : or_else_h _ _ = Ok _ |- CQ _ =>
    eapply (or_else_h_q _ _ _ _ _ _ R); clear R;
    [ eassumption | intros ? ? ? ? ?; eauto with cq | intros ? ? ? ? ? R ?; cbv beta in R; chain_q ]
  | |- CQ _ => eauto with cq
  end.

Lemma open_new_blocks_step_q o st c line am ml d g c' st' :
  open_new_blocks_step o st c line am ml d = Ok (g, c', st') -> QL line = true -> CQ st -> CQ st'.
Proof.
  unfold open_new_blocks_step. intros H Hl V.
  destruct (ffn st line) as [s0| |] eqn:F0; cbn [bind] in H; try discriminate H.
  assert (V0 : CQ s0) by eauto with cq.
  match type of H with bind ?r _ = _ => destruct r as [[[hd c1] s1]| |] eqn:R; cbn [bind] in H; try discriminate H end.
  assert (V1 : CQ s1) by chain_q.
  clear R. qgo H.
Qed.
#[local] Hint Resolve open_new_blocks_step_q : cq.
Lemma open_new_blocks_loop_q o line am : QL line = true -> forall fuel st c ml d c' st',
  open_new_blocks_loop fuel o st c line am ml d = Ok (c', st') -> CQ st -> CQ st'.
Proof. intro Hl. induction fuel as [|f IH]; intros st c ml d c' st' H V; cbn [open_new_blocks_loop] in H; qgo H. Qed.
Lemma open_new_blocks_q o st c line am c' st' :
  open_new_blocks o st c line am = Ok (c', st') -> QL line = true -> CQ st -> CQ st'.
Proof. unfold open_new_blocks. intros H Hl V. mon H. eapply open_new_blocks_loop_q; eassumption. Qed.
#[local] Hint Resolve open_new_blocks_q : cq.

(* ================================================================== add_text_to_container *)
Lemma clear_llb_up_q : forall fuel st id st', clear_llb_up fuel st id = Ok st' -> CQ st -> CQ st'.
Proof. induction fuel as [|f IH]; intros st id st' H V; cbn [clear_llb_up] in H; qgo H. Qed.
#[local] Hint Resolve clear_llb_up_q : cq.
Lemma finalize_up_to_q o target site : forall fuel st st', finalize_up_to fuel o st target site = Ok st' -> CQ st -> CQ st'.
Proof. induction fuel as [|f IH]; intros st st' H V; cbn [finalize_up_to] in H; qgo H. Qed.
#[local] Hint Resolve finalize_up_to_q : cq.

(* add_line: the only place where bytes of the line (and the spaces of a partially consumed tab) enter a content *)
Lemma add_line_q st id line st' : add_line st id line = Ok st' -> QL line = true -> CQ st -> CQ st'.
Proof.
  unfold add_line. intros H Hl V.
  destruct (get st id) as [n| |] eqn:G; cbn [bind] in H; try discriminate H.
  pose proof (allq_cq _ (get_q _ _ _ V G)) as Ka.
  destruct (negb (bi_open (binf n))); [discriminate H |].
  match type of H with (let '(c1, pad) := ?e in _) = _ => destruct e as [c1 pad] eqn:CP end.
  assert (HP : QL pad = true).
  { destruct (c_pct (ps_cur st)); inversion CP; subst; [apply QL_spaces | reflexivity]. }
  clear CP.
  match type of H with bind ?r _ = _ => destruct r as [i2| |] eqn:I2; cbn [bind] in H; try discriminate H end.
  match type of H with bind ?r _ = _ => destruct r as [st1| |] eqn:M; cbn [bind] in H; try discriminate H end.
  inversion H; subst. apply CQ_st_cur.
  eapply modify_info_q; [exact V | exact M |]. intros nn Fn. clear M H.
  unfold cq in *. destruct (contains_inlines (bi_val (binf n))) eqn:L; cbn [negb orb] in Ka.
  - destruct (Nat.ltb _ (List.length line)).
    + match type of I2 with bind ?r _ = _ => destruct r as [s| |] eqn:U; cbn [bind] in I2; try discriminate I2 end.
      apply QL_from_utf8 in U. subst s. inversion I2; subst. cbn [set_lo set_content bi_val bi_content].
      rewrite L. cbn [negb orb]. rewrite !forallb_app, Ka, HP. cbn [andb]. apply QL_skipn. exact Hl.
    + inversion I2; subst. cbn [set_content bi_val bi_content]. rewrite L. cbn [negb orb].
      rewrite forallb_app, Ka, HP. reflexivity.
  - destruct (Nat.ltb _ (List.length line)).
    + match type of I2 with bind ?r _ = _ => destruct r as [s| |] eqn:U; cbn [bind] in I2; try discriminate I2 end.
      inversion I2; subst. cbn [set_lo set_content bi_val]. rewrite L. reflexivity.
    + inversion I2; subst. cbn [set_content bi_val]. rewrite L. reflexivity.
Qed.
#[local] Hint Resolve add_line_q : cq.

Lemma add_text_to_container_q o st c lm line st' :
  add_text_to_container o st c lm line = Ok st' -> QL line = true -> CQ st -> CQ st'.
Proof.
  unfold add_text_to_container. intros H Hl V.
  assert (Hc : forall l1, chop_trailing_hashtags line = Ok l1 -> QL l1 = true) by (intros l1 E; eapply QL_chop; eassumption).
  match type of H with bind ?r _ = _ => destruct r as [s1| |] eqn:E1; cbn [bind] in H; try discriminate H end.
  assert (V1 : CQ s1) by eauto with cq.
  match type of H with bind ?r _ = _ => destruct r as [cn| |] eqn:E2; cbn [bind] in H; try discriminate H end.
  match type of H with bind ?r _ = _ => destruct r as [s2| |] eqn:E3; cbn [bind] in H; try discriminate H end.
  assert (V2 : CQ s2) by (clear H; qgo E3).
  match type of H with bind ?r _ = _ => destruct r as [s3| |] eqn:E4; cbn [bind] in H; try discriminate H end.
  assert (V3 : CQ s3) by eauto with cq.
  match type of H with bind ?r _ = _ => destruct r as [s4| |] eqn:E5; cbn [bind] in H; try discriminate H end.
  assert (V4 : CQ s4) by eauto with cq.
  match type of H with bind ?r _ = _ => destruct r as [lz| |] eqn:E6; cbn [bind] in H; try discriminate H end.
  clear E1 E3 E4 E5 E6 V V1 V2 V3.
  destruct lz; [eauto with cq |].
  match type of H with bind ?r _ = _ => destruct r as [s5| |] eqn:E7; cbn [bind] in H; try discriminate H end.
  assert (V5 : CQ s5) by eauto with cq.
  match type of H with bind ?r _ = _ => destruct r as [c5| |] eqn:E8; cbn [bind] in H; try discriminate H end.
  match type of H with bind ?r _ = _ => destruct r as [[rid s6]| |] eqn:R; cbn [bind] in H; try discriminate H end.
  inversion H; subst. apply CQ_st_current. cbn [snd]. clear H E7 E8 V4.
  destruct (bval c5); mon R; monall; repeat match goal with p : (_ * _)%type |- _ => destruct p end; cbn [fst snd] in *;
    eauto 8 with cq.
Qed.
#[local] Hint Resolve add_text_to_container_q : cq.

Lemma process_line_q o st line st' :
  process_line o st line = Ok st' -> QL (norm_line line) = true -> CQ st -> CQ st'.
Proof. unfold process_line. intros H Hl V. qgo H. Qed.

Lemma process_lines_q o : forall ls st st',
  process_lines o st ls = Ok st' -> (forall l, In l ls -> QL (norm_line l) = true) -> CQ st -> CQ st'.
Proof.
  induction ls as [|l ls IH]; intros st st' H Hl V; cbn [process_lines] in H.
  - inversion H; subst. exact V.
  - destruct (process_line o st l) as [st1| |] eqn:P; cbn [bind] in H; try discriminate H.
    eapply IH; [exact H | intros l' Hl'; apply Hl; right; exact Hl' |].
    eapply process_line_q; [exact P | apply Hl; left; reflexivity | exact V].
Qed.

Lemma finalize_document_q o st st' : finalize_document o st = Ok st' -> CQ st -> CQ st'.
Proof. unfold finalize_document. intros H V. qgo H. Qed.

Lemma front_matter_prologue_q o st s st' rest : front_matter_prologue o st s = Ok (st', rest) -> CQ st -> CQ st'.
Proof. unfold front_matter_prologue. intros H V. qgo H. Qed.

Lemma CQ_init : CQ init_state.
Proof. reflexivity. Qed.

End content.

(* ================================================================== from the document to the leaves *)
Lemma forallb_Forall_Q (Q : byte -> bool) l : forallb Q l = true <-> Forall (fun b => Q b = true) l.
Proof. rewrite forallb_forall, Forall_forall. tauto. Qed.

Lemma lines_q (Q : byte -> bool) x : forallb Q fffd = true -> forallb Q x = true ->
  forall l, In l (Feed.lines x) -> forallb Q l = true.
Proof.
  intros Hf Hx l Hl. rewrite lines_spec in Hl. unfold spec_lines in Hl.
  apply forallb_Forall_Q. apply forallb_Forall_Q in Hf. apply forallb_Forall_Q in Hx.
  pose proof (lines_from_Forall _ Hf (List.length x) x [] (le_n _) (Forall_nil _) Hx) as H.
  rewrite Forall_forall in H. apply H. exact Hl.
Qed.

Lemma norm_line_q (Q : byte -> bool) l : Q x0a = true -> forallb Q l = true -> forallb Q (norm_line l) = true.
Proof.
  intros Ht Hl. assert (forallb Q (l ++ [x0a]) = true) as Ha.
  { rewrite forallb_app, Hl. cbn [forallb andb]. rewrite Ht. reflexivity. }
  unfold norm_line. destruct (last_byte l) as [b|]; [match goal with |- context[if ?c then _ else _] => destruct c end |]; assumption.
Qed.

(* the bytes the block phase may add to a content *)
Definition inserted_ok (Q : byte -> bool) : Prop := Q x20 = true /\ Q x0a = true /\ forallb Q fffd = true.

Theorem parse_blocks_allq (Q : byte -> bool) o x r :
  inserted_ok Q -> forallb Q x = true -> parse_blocks o x = Ok r -> allq Q (br_root r) = true.
Proof.
  intros (Hsp & Hlf & Hfd) Hx H. unfold parse_blocks in H.
  destruct (front_matter_prologue o init_state x) as [[st rest]| |] eqn:E; cbn [bind] in H; try discriminate H.
  assert (Hr : forallb Q rest = true).
  { rewrite forallb_forall in *. intros b Hb. apply Hx. eapply front_matter_prologue_rest; eassumption. }
  pose proof (lines_q Q rest Hfd Hr) as HL. unfold Feed.lines in HL.
  destruct (feed_lines rest) as [ls total]. cbn [fst] in HL.
  destruct (run_lines o st ls) as [st1| |] eqn:R; cbn [bind] in H; try discriminate H.
  inversion H; subst. cbn [br_root].
  unfold run_lines in R.
  destruct (process_lines o st ls) as [st2| |] eqn:P; cbn [bind] in R; try discriminate R.
  eapply (finalize_document_q Q); [exact R |].
  eapply (process_lines_q Q Hsp); [exact P | |].
  - intros l Hl. apply norm_line_q; [exact Hlf | apply HL; exact Hl].
  - eapply front_matter_prologue_q; [exact E | apply CQ_init].
Qed.

(* the leaves process_inlines visits *)
Lemma bleaves_q (Q : byte -> bool) : forall t path p i,
  allq Q t = true -> In (p, i) (bleaves path t) -> forallb Q (bi_content i) = true.
Proof.
  induction t as [i0 ch IH] using bnode_ind2. intros path p i V Hin. cbn [bleaves] in Hin.
  apply allq_node in V. destruct V as [Vi Vk].
  destruct (contains_inlines (bi_val i0)) eqn:L.
  - destruct Hin as [Hin | []]. inversion Hin; subst. apply (cq_leaf Q); assumption.
  - clear Vi L. revert Hin. generalize 0 as k.
    induction ch as [|c r IHr]; intros k Hin; [destruct Hin |].
    inversion IH as [|? ? IHc IHrest]; subst.
    cbn [forallb] in Vk. apply andb_true_iff in Vk. destruct Vk as [Vc Vr].
    apply in_app_or in Hin. destruct Hin as [Hin | Hin].
    + eapply IHc; eassumption.
    + eapply IHr; eassumption.
Qed.

Theorem parse_blocks_leaf_contents (Q : byte -> bool) o x r p i :
  inserted_ok Q -> forallb Q x = true -> parse_blocks o x = Ok r ->
  In (p, i) (bleaves [] (br_root r)) -> forallb Q (bi_content i) = true.
Proof. intros HQ Hx H Hin. eapply bleaves_q; [eapply parse_blocks_allq; eassumption | exact Hin]. Qed.

(* the nob form of Proofs/InertBlocks.v: a byte that is none of the inserted ones and does not occur in the document
   does not occur in any leaf content *)
Theorem leaf_contents_nob t o x r p i :
  beqb x20 t = false -> plain_trigger t -> nob t x -> parse_blocks o x = Ok r ->
  In (p, i) (bleaves [] (br_root r)) -> nob t (bi_content i).
Proof.
  intros Hsp [Hlf Hfd] Hx H Hin.
  assert (forallb (fun b => negb (beqb b t)) (bi_content i) = true) as K.
  { eapply (parse_blocks_leaf_contents (fun b => negb (beqb b t))); try eassumption.
    - split; [rewrite Hsp; reflexivity |]. split; [rewrite Hlf; reflexivity |].
      apply forallb_forall. intros b Hb. rewrite (Hfd b Hb). reflexivity.
    - apply forallb_forall. intros b Hb. rewrite (Hx b Hb). reflexivity. }
  apply nob_dec_true. exact K.
Qed.

(* non-vacuity: inserted bytes do reach a leaf content -- NUL becomes U+FFFD and a last line without line end gets
   its LF (the spaces of add_line come from a partially consumed tab, which the callers of add_line produce for code
   blocks; the theorem allows them for every block) *)
Example inserted_bytes_real :
  exists r, parse_blocks o_plain [x61; x00] = Ok r /\
            map (fun e => bi_content (snd e)) (bleaves [] (br_root r)) = [[x61; xef; xbf; xbd; x0a]].
Proof. eexists. split; vm_compute; reflexivity. Qed.
