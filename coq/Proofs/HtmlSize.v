(* Proofs/HtmlSize.v — C06: the HTML serialiser expands document payload at most six-fold; every
   other output byte is markup written by the renderer for an event (tag, attribute name, quote,
   constant, decimal).  A bound per EVENT LIST, for every tree; the bound of the number and size of
   the events by the tree is the open part (html_output_bound_full_statement in Props/C06.v). *)
From Coq Require Import List NArith PeanoNat Bool Lia Strings.String.
From V Require Import Base.Bytes Base.Res Model.Ast Spec.EscapeSpec Model.Html Proofs.CapsProofs.
Import ListNotations.
Local Open Scope list_scope.
Local Open Scope nat_scope.

Definition sum_map {A} (f : A -> nat) (l : list A) : nat := fold_right (fun a acc => f a + acc) 0 l.

(* bytes that come from the document (escaped or passed through) *)
Definition part_payload (p : part) : nat :=
  match p with PEsc b | PHref b | PPre b => List.length b | PConst _ => 0 end.
Definition part_overhead (p : part) : nat :=
  match p with PConst b => List.length b | _ => 0 end.

Definition attr_payload (a : attr) : nat :=
  match a with Attr _ v => sum_map part_payload v | _ => 0 end.
Definition attr_overhead (a : attr) : nat :=
  match a with
  | Attr n v => 4 + List.length n + sum_map part_overhead v
  | BAttr n => 1 + List.length n
  | SpAttr sp => 4 + List.length sp_name + List.length (ser_sp sp)
  end.

Definition ev_payload (e : ev) : nat :=
  match e with
  | Open _ a | Void _ a => sum_map attr_payload a
  | Txt b | RawHtml b => List.length b
  | _ => 0
  end.
Definition ev_overhead (e : ev) : nat :=
  match e with
  | Open t a => 2 + List.length t + sum_map attr_overhead a
  | Close t => 3 + List.length t
  | Void t a => 4 + List.length t + sum_map attr_overhead a
  | Lit b => List.length b
  | Cmt => List.length omitted
  | Cr => 1
  | _ => 0
  end.

Lemma ser_part_le p : List.length (ser_part p) <= 6 * part_payload p + part_overhead p.
Proof.
  destruct p; cbn [ser_part part_payload part_overhead].
  - pose proof (escape_expansion b). lia.
  - pose proof (escape_href_expansion b). lia.
  - lia.
  - lia.
Qed.

Lemma parts_le v : List.length (flat_map ser_part v) <= 6 * sum_map part_payload v + sum_map part_overhead v.
Proof.
  induction v as [|p v IH]; cbn [flat_map sum_map fold_right]; [cbn; lia|].
  rewrite app_length. pose proof (ser_part_le p). unfold sum_map in *. lia.
Qed.

Lemma ser_attr_le a : List.length (ser_attr a) <= 6 * attr_payload a + attr_overhead a.
Proof.
  destruct a; cbn [ser_attr attr_payload attr_overhead]; repeat rewrite app_length; cbn [List.length].
  - pose proof (parts_le v). lia.
  - lia.
  - lia.
Qed.

Lemma attrs_le a : List.length (flat_map ser_attr a) <= 6 * sum_map attr_payload a + sum_map attr_overhead a.
Proof.
  induction a as [|x a IH]; cbn [flat_map sum_map fold_right]; [cbn; lia|].
  rewrite app_length. pose proof (ser_attr_le x). unfold sum_map in *. lia.
Qed.

Lemma ser_ev_le e : List.length (ser_ev e) <= 6 * ev_payload e + ev_overhead e.
Proof.
  destruct e; cbn [ser_ev ev_payload ev_overhead]; repeat rewrite app_length; cbn [List.length];
    try (pose proof (attrs_le a)); try (pose proof (escape_expansion b)); lia.
Qed.

Lemma ser_chunks_le : forall evs lf,
  List.length (List.concat (ser_chunks lf evs)) <= 6 * sum_map ev_payload evs + sum_map ev_overhead evs.
Proof.
  induction evs as [|e evs IH]; intros lf; [cbn; lia|].
  assert (G : forall c lf', List.length c <= 6 * ev_payload e + ev_overhead e ->
              List.length (List.concat (c :: ser_chunks lf' evs)) <=
              6 * sum_map ev_payload (e :: evs) + sum_map ev_overhead (e :: evs)).
  { intros c lf' H. cbn [List.concat sum_map fold_right]. rewrite app_length. specialize (IH lf').
    unfold sum_map in *. lia. }
  destruct e; cbn [ser_chunks]; try (apply G; apply ser_ev_le).
  destruct lf.
  - specialize (IH true). cbn [sum_map fold_right ev_payload ev_overhead]. unfold sum_map in *. lia.
  - apply G. cbn. lia.
Qed.

Theorem ser_size evs :
  List.length (ser evs) <= 6 * sum_map ev_payload evs + sum_map ev_overhead evs.
Proof. unfold ser. apply ser_chunks_le. Qed.

Theorem html_size_by_events slug o t out : html slug o t = Ok out ->
  exists evs, events slug o t = Ok evs /\
    List.length out <= 6 * sum_map ev_payload evs + sum_map ev_overhead evs.
Proof.
  unfold html. destruct (events slug o t) as [evs| |]; cbn [bind]; try discriminate.
  intros E. inversion E; subst. exists evs. split; [reflexivity|apply ser_size].
Qed.
