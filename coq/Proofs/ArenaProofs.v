(* Proofs/ArenaProofs.v — C04 (links): local link consistency of the arena_tree heap is preserved by
   every operation, hence holds after every admissible history. *)
From Coq Require Import List Arith Bool Lia Strings.String.
From V Require Import Base.Res Model.Arena.
Import ListNotations.

(* ------------------------------------------------------------------ get / set *)
Ltac gs_tac := intros; unfold parent, prev, next, first, last, set_parent, set_prev, set_next, set_first, set_last, upd;
               match goal with |- context[Nat.eqb ?j ?i] => destruct (Nat.eqb_spec j i) end; subst; reflexivity.

Lemma parent_set_parent h i v j : parent (set_parent h i v) j = if Nat.eqb j i then v else parent h j. Proof. gs_tac. Qed.
Lemma parent_set_prev h i v j : parent (set_prev h i v) j = parent h j. Proof. gs_tac. Qed.
Lemma parent_set_next h i v j : parent (set_next h i v) j = parent h j. Proof. gs_tac. Qed.
Lemma parent_set_first h i v j : parent (set_first h i v) j = parent h j. Proof. gs_tac. Qed.
Lemma parent_set_last h i v j : parent (set_last h i v) j = parent h j. Proof. gs_tac. Qed.
Lemma prev_set_parent h i v j : prev (set_parent h i v) j = prev h j. Proof. gs_tac. Qed.
Lemma prev_set_prev h i v j : prev (set_prev h i v) j = if Nat.eqb j i then v else prev h j. Proof. gs_tac. Qed.
Lemma prev_set_next h i v j : prev (set_next h i v) j = prev h j. Proof. gs_tac. Qed.
Lemma prev_set_first h i v j : prev (set_first h i v) j = prev h j. Proof. gs_tac. Qed.
Lemma prev_set_last h i v j : prev (set_last h i v) j = prev h j. Proof. gs_tac. Qed.
Lemma next_set_parent h i v j : next (set_parent h i v) j = next h j. Proof. gs_tac. Qed.
Lemma next_set_prev h i v j : next (set_prev h i v) j = next h j. Proof. gs_tac. Qed.
Lemma next_set_next h i v j : next (set_next h i v) j = if Nat.eqb j i then v else next h j. Proof. gs_tac. Qed.
Lemma next_set_first h i v j : next (set_first h i v) j = next h j. Proof. gs_tac. Qed.
Lemma next_set_last h i v j : next (set_last h i v) j = next h j. Proof. gs_tac. Qed.
Lemma first_set_parent h i v j : first (set_parent h i v) j = first h j. Proof. gs_tac. Qed.
Lemma first_set_prev h i v j : first (set_prev h i v) j = first h j. Proof. gs_tac. Qed.
Lemma first_set_next h i v j : first (set_next h i v) j = first h j. Proof. gs_tac. Qed.
Lemma first_set_first h i v j : first (set_first h i v) j = if Nat.eqb j i then v else first h j. Proof. gs_tac. Qed.
Lemma first_set_last h i v j : first (set_last h i v) j = first h j. Proof. gs_tac. Qed.
Lemma last_set_parent h i v j : last (set_parent h i v) j = last h j. Proof. gs_tac. Qed.
Lemma last_set_prev h i v j : last (set_prev h i v) j = last h j. Proof. gs_tac. Qed.
Lemma last_set_next h i v j : last (set_next h i v) j = last h j. Proof. gs_tac. Qed.
Lemma last_set_first h i v j : last (set_first h i v) j = last h j. Proof. gs_tac. Qed.
Lemma last_set_last h i v j : last (set_last h i v) j = if Nat.eqb j i then v else last h j. Proof. gs_tac. Qed.

#[export] Hint Rewrite parent_set_parent parent_set_prev parent_set_next parent_set_first parent_set_last
  prev_set_parent prev_set_prev prev_set_next prev_set_first prev_set_last
  next_set_parent next_set_prev next_set_next next_set_first next_set_last
  first_set_parent first_set_prev first_set_next first_set_first first_set_last
  last_set_parent last_set_prev last_set_next last_set_first last_set_last : gs.

Arguments parent : simpl never.
Arguments prev : simpl never.
Arguments next : simpl never.
Arguments first : simpl never.
Arguments last : simpl never.
Arguments set_parent : simpl never.
Arguments set_prev : simpl never.
Arguments set_next : simpl never.
Arguments set_first : simpl never.
Arguments set_last : simpl never.

(* case analysis on every id comparison in sight *)
Ltac deq :=
  repeat (match goal with
          | |- context[Nat.eqb ?x ?y] => destruct (Nat.eqb_spec x y)
          | H : context[Nat.eqb ?x ?y] |- _ => destruct (Nat.eqb_spec x y)
          end; try subst; simpl in *; try congruence).

(* ------------------------------------------------------------------ chains *)
(* the chain of nx-successors from n ends (reaches a node without successor) *)
Inductive ends (nx : id -> option id) : id -> Prop :=
| ends_nil n : nx n = None -> ends nx n
| ends_cons n m : nx n = Some m -> ends nx m -> ends nx n.

Lemma ends_not_self nx n : ends nx n -> nx n <> Some n.
Proof.
  induction 1 as [n E | n m E _ IH]; intro K.
  - congruence.
  - assert (m = n) by congruence. subst. auto.
Qed.

Lemma ends_ext nx nx' : (forall x, nx x = nx' x) -> forall n, ends nx n -> ends nx' n.
Proof.
  intros E n H. induction H as [n K | n m K _ IH].
  - apply ends_nil. rewrite <- E. exact K.
  - apply ends_cons with m; auto. rewrite <- E. exact K.
Qed.

(* removing a from its chain: its predecessor now points to its successor *)
Lemma ends_remove nx nx' a :
  nx' a = None ->
  (forall x, x <> a -> nx' x = nx x \/ (nx x = Some a /\ nx' x = nx a)) ->
  forall x, ends nx x -> ends nx' x.
Proof.
  intros Ha Hx.
  assert (Q : forall x, ends nx x -> ends nx' x /\ (x = a -> forall m, nx a = Some m -> ends nx' m)).
  { induction 1 as [x E | x m E _ [IH1 IH2]].
    - split.
      + destruct (Nat.eq_dec x a) as [->|N]; [apply ends_nil; auto|].
        destruct (Hx x N) as [K | [K _]]; [apply ends_nil; congruence | congruence].
      + intros -> m K. congruence.
    - split.
      + destruct (Nat.eq_dec x a) as [->|N]; [apply ends_nil; auto|].
        destruct (Hx x N) as [K | [K K']].
        * apply ends_cons with m; [congruence | auto].
        * assert (m = a) by congruence. subst m.
          destruct (nx a) as [m'|] eqn:Na.
          -- apply ends_cons with m'; [congruence | eapply IH2; eauto].
          -- apply ends_nil. congruence.
      + intros -> m0 K. assert (m0 = m) by congruence. subst. auto. }
  intros x H. apply Q. exact H.
Qed.

(* inserting a fresh node n between l and its successor r *)
Lemma ends_insert nx nx' n l r :
  nx n = None -> (forall x, nx x <> Some n) ->
  l <> Some n -> r <> Some n ->
  (forall x, l = Some x -> nx x = r) ->
  nx' n = r ->
  (forall x, x <> n -> nx' x = if opt_is l x then Some n else nx x) ->
  (forall x, ends nx x) -> forall x, ends nx' x.
Proof.
  intros Hn Hfresh Hl Hr Hadj Hn' Hx Hall.
  assert (Hn'' : forall x, l = Some x -> nx' n = nx x).
  { intros x K. rewrite Hn'. symmetry. auto. }
  assert (S1 : forall x, ends nx x -> x <> n -> ends nx' x).
  { induction 1 as [x E | x m E _ IH]; intro N.
    - specialize (Hx x N). destruct (opt_is l x) eqn:O.
      + assert (l = Some x) by (destruct l; simpl in O; [apply Nat.eqb_eq in O; congruence | discriminate]).
        apply ends_cons with n; [exact Hx|]. apply ends_nil. rewrite (Hn'' x); auto.
      + apply ends_nil. congruence.
    - assert (M : m <> n) by (intro; subst; eapply Hfresh; eauto).
      specialize (Hx x N). destruct (opt_is l x) eqn:O.
      + assert (l = Some x) by (destruct l; simpl in O; [apply Nat.eqb_eq in O; congruence | discriminate]).
        apply ends_cons with n; [exact Hx|]. apply ends_cons with m; [|auto].
        rewrite (Hn'' x); auto.
      + apply ends_cons with m; [congruence | auto]. }
  intro x. destruct (Nat.eq_dec x n) as [->|N]; [|apply S1; auto].
  destruct r as [y|] eqn:Er.
  - apply ends_cons with y; [exact Hn'|]. apply S1; [apply Hall|]. intro; subst; congruence.
  - apply ends_nil. auto.
Qed.

(* ------------------------------------------------------------------ the invariant *)
Record wf (h : heap) : Prop := mkwf {
  (* n.next = m  <->  m.previous = n *)
  wf_np : forall n m, next h n = Some m <-> prev h m = Some n;
  (* the first child is a child and has no previous sibling; likewise the last *)
  wf_first : forall p c, first h p = Some c -> parent h c = Some p /\ prev h c = None;
  wf_last : forall p c, last h p = Some c -> parent h c = Some p /\ next h c = None;
  (* siblings share their parent *)
  wf_sib : forall n m, next h n = Some m -> parent h n = parent h m;
  (* a child without previous sibling is the first child; without next sibling, the last *)
  wf_head : forall c p, parent h c = Some p -> prev h c = None -> first h p = Some c;
  wf_tail : forall c p, parent h c = Some p -> next h c = None -> last h p = Some c;
  (* no first child iff no last child *)
  wf_fl : forall p, first h p = None <-> last h p = None;
  (* every next-chain ends (in particular: no sibling ring) *)
  wf_ends : forall n, ends (next h) n
}.

Definition detached (h : heap) (n : id) : Prop := parent h n = None /\ prev h n = None /\ next h n = None.

(* forward chaining with the clauses of wf *)
Ltac fwd1 h W :=
  match goal with
  | H : next h ?x = Some ?y |- _ =>
    lazymatch goal with _ : prev h y = Some x |- _ => fail | _ => pose proof (proj1 (wf_np h W x y) H) end
  | H : prev h ?y = Some ?x |- _ =>
    lazymatch goal with _ : next h x = Some y |- _ => fail | _ => pose proof (proj2 (wf_np h W x y) H) end
  | H : next h ?x = Some ?y |- _ =>
    lazymatch goal with _ : parent h x = parent h y |- _ => fail | _ => pose proof (wf_sib h W x y H) end
  | H : first h ?p = Some ?c |- _ =>
    lazymatch goal with _ : parent h c = Some p |- _ => fail | _ => pose proof (proj1 (wf_first h W p c H)) end
  | H : first h ?p = Some ?c |- _ =>
    lazymatch goal with _ : prev h c = None |- _ => fail | _ => pose proof (proj2 (wf_first h W p c H)) end
  | H : last h ?p = Some ?c |- _ =>
    lazymatch goal with _ : parent h c = Some p |- _ => fail | _ => pose proof (proj1 (wf_last h W p c H)) end
  | H : last h ?p = Some ?c |- _ =>
    lazymatch goal with _ : next h c = None |- _ => fail | _ => pose proof (proj2 (wf_last h W p c H)) end
  | H : parent h ?c = Some ?p, H2 : prev h ?c = None |- _ =>
    lazymatch goal with _ : first h p = Some c |- _ => fail | _ => pose proof (wf_head h W c p H H2) end
  | H : parent h ?c = Some ?p, H2 : next h ?c = None |- _ =>
    lazymatch goal with _ : last h p = Some c |- _ => fail | _ => pose proof (wf_tail h W c p H H2) end
  | H : first h ?p = None |- _ =>
    lazymatch goal with _ : last h p = None |- _ => fail | _ => pose proof (proj1 (wf_fl h W p) H) end
  | H : last h ?p = None |- _ =>
    lazymatch goal with _ : first h p = None |- _ => fail | _ => pose proof (proj2 (wf_fl h W p) H) end
  | H : parent h ?x = parent h ?y, H1 : parent h ?y = ?v |- _ =>
    lazymatch goal with _ : parent h x = v |- _ => fail | _ => assert (parent h x = v) by congruence end
  | H : parent h ?x = parent h ?y, H1 : parent h ?x = ?v |- _ =>
    lazymatch goal with _ : parent h y = v |- _ => fail | _ => assert (parent h y = v) by congruence end
  end.
Ltac fwd h W := repeat (fwd1 h W).

Lemma wf_next_not_self h n : wf h -> next h n <> Some n.
Proof. intro W. apply ends_not_self. apply (wf_ends h W). Qed.

Lemma wf_prev_not_self h n : wf h -> prev h n <> Some n.
Proof. intros W K. apply (wf_next_not_self h n W). apply (wf_np h W). exact K. Qed.

Lemma wf_init : wf init.
Proof.
  constructor; unfold init, next, prev, parent, first, last; simpl; intros; try (split; congruence); try congruence.
  apply ends_nil. reflexivity.
Qed.

(* ------------------------------------------------------------------ detach *)
(* field-wise description of the heap after a.detach() *)
Definition unlinked (h h' : heap) (a : id) : Prop :=
  (forall x, parent h' x = if Nat.eqb x a then None else parent h x) /\
  (forall x, prev h' x = if Nat.eqb x a then None else if opt_is (next h a) x then prev h a else prev h x) /\
  (forall x, next h' x = if Nat.eqb x a then None else if opt_is (prev h a) x then next h a else next h x) /\
  (forall x, first h' x = if opt_is (parent h a) x && negb (is_some (prev h a)) then next h a else first h x) /\
  (forall x, last h' x = if opt_is (parent h a) x && negb (is_some (next h a)) then prev h a else last h x).

Lemma detach_unlinked h a : next h a <> Some a -> prev h a <> Some a -> unlinked h (detach h a) a.
Proof.
  intros N1 N2. unfold unlinked, detach. autorewrite with gs. rewrite ?Nat.eqb_refl.
  destruct (parent h a) as [p|], (prev h a) as [ps|], (next h a) as [ns|];
    repeat split; intros; autorewrite with gs; simpl; deq; reflexivity.
Qed.

Ltac wf_case h W := deq; fwd h W; try congruence; try (split; congruence).

Lemma unlinked_wf h h' a : wf h -> unlinked h h' a -> wf h' /\ detached h' a.
Proof.
  intros W (Up & Upv & Unx & Uf & Ul).
  pose proof (wf_next_not_self h a W) as NS. pose proof (wf_prev_not_self h a W) as PS.
  split.
  2:{ unfold detached. rewrite Up, Upv, Unx, Nat.eqb_refl. auto. }
  constructor.
  8:{ intro n. apply (ends_remove (next h) (next h') a).
      - rewrite Unx, Nat.eqb_refl. reflexivity.
      - intros x N. rewrite Unx. destruct (Nat.eqb_spec x a); [congruence|].
        destruct (prev h a) as [q|] eqn:E; simpl; [|auto].
        destruct (Nat.eqb_spec q x); [subst; right; split; auto; apply (wf_np h W); auto | auto].
      - apply (wf_ends h W). }
  all: destruct (parent h a) as [p0|] eqn:EP, (prev h a) as [ps|] eqn:EPv, (next h a) as [ns|] eqn:ENx;
    simpl in *; intros; try split; intros;
    rewrite ?Up, ?Upv, ?Unx, ?Uf, ?Ul in *; clear Up Upv Unx Uf Ul; simpl in *.
  all: solve [wf_case h W].
Qed.

Theorem detach_wf h a : wf h -> wf (detach h a) /\ detached (detach h a) a.
Proof.
  intro W. apply (unlinked_wf h _ a W). apply detach_unlinked.
  - apply wf_next_not_self; auto.
  - apply wf_prev_not_self; auto.
Qed.

(* nobody refers to a detached node *)
Lemma detached_fresh h n : wf h -> detached h n ->
  (forall x, next h x <> Some n) /\ (forall x, prev h x <> Some n) /\
  (forall x, first h x <> Some n) /\ (forall x, last h x <> Some n).
Proof.
  intros W (D1 & D2 & D3). repeat split; intros x K; fwd h W; congruence.
Qed.

(* ------------------------------------------------------------------ linking a detached node *)
(* field-wise description of the heap after the detached node n was put under parent p between
   l (its new previous sibling) and r (its new next sibling) *)
Definition linked (h h' : heap) (n : id) (p l r : option id) : Prop :=
  (forall x, parent h' x = if Nat.eqb x n then p else parent h x) /\
  (forall x, prev h' x = if Nat.eqb x n then l else if opt_is r x then Some n else prev h x) /\
  (forall x, next h' x = if Nat.eqb x n then r else if opt_is l x then Some n else next h x) /\
  (forall x, first h' x = if opt_is p x && negb (is_some l) then Some n else first h x) /\
  (forall x, last h' x = if opt_is p x && negb (is_some r) then Some n else last h x).

(* l and r are adjacent children of p (or ends of its child list) *)
Definition adjacent (h : heap) (n : id) (p l r : option id) : Prop :=
  match l with
  | Some x => next h x = r /\ parent h x = p /\ x <> n
  | None => match p with Some q => first h q = r | None => True end
  end /\
  match r with
  | Some y => prev h y = l /\ parent h y = p /\ y <> n
  | None => match p with Some q => last h q = l | None => True end
  end.

Lemma linked_wf h h' n p l r :
  wf h -> detached h n -> adjacent h n p l r -> linked h h' n p l r -> wf h'.
Proof.
  intros W D (AL & AR) (Up & Upv & Unx & Uf & Ul).
  destruct (detached_fresh h n W D) as (F1 & F2 & F3 & F4).
  destruct D as (D1 & D2 & D3).
  constructor.
  8:{ apply (ends_insert (next h) (next h') n l r); auto.
      - destruct l; [|congruence]. intro K. inversion K. subst. tauto.
      - destruct r; [|congruence]. intro K. inversion K. subst. tauto.
      - intros x ->. tauto.
      - rewrite Unx, Nat.eqb_refl. reflexivity.
      - intros x N. rewrite Unx. destruct (Nat.eqb_spec x n); [congruence|reflexivity].
      - apply (wf_ends h W). }
  all: destruct p as [p0|], l as [l0|], r as [r0|]; simpl in *; intros; try split; intros;
    rewrite ?Up, ?Upv, ?Unx, ?Uf, ?Ul in *; clear Up Upv Unx Uf Ul; simpl in *;
    repeat match goal with H : _ /\ _ |- _ => destruct H end.
  all: solve [wf_case h W; try solve [exfalso; eauto]].
Qed.

(* ------------------------------------------------------------------ the four insertions *)
Ltac contra := exfalso; first [congruence | match goal with F : forall x, _ <> _ |- _ => solve [eapply F; eassumption] end].

Ltac link_fields h W :=
  unfold linked; repeat split; intros; autorewrite with gs; simpl; rewrite ?andb_false_r, ?andb_true_r; deq; fwd h W;
  try congruence; try reflexivity; try solve [contra].

Ltac start_ins h0 n W0 h W D :=
  destruct (detach_wf h0 n W0) as [W D]; cbv zeta;
  set (h := detach h0 n) in *; clearbody h; clear W0;
  let D' := fresh "D" in pose proof D as D';
  destruct (detached_fresh h n W D) as (?F & ?F & ?F & ?F); destruct D' as (?D & ?D & ?D);
  autorewrite with gs.

Ltac adj_tac := unfold adjacent; repeat split; auto; try congruence; try solve [intro; subst; contra].

Lemma append_linked dbg h0 s n : wf h0 ->
  exists h', append dbg h0 s n = Ok h' /\
             adjacent (detach h0 n) n (Some s) (last (detach h0 n) s) None /\
             linked (detach h0 n) h' n (Some s) (last (detach h0 n) s) None.
Proof.
  intro W0. unfold append. start_ins h0 n W0 h W D.
  destruct (last h s) as [l|] eqn:EL; autorewrite with gs.
  - fwd h W. replace (next h l) with (@None id) by congruence. simpl. rewrite andb_false_r. simpl.
    eexists; split; [reflexivity|]. split; [adj_tac | link_fields h W].
  - fwd h W. replace (first h s) with (@None id) by congruence. simpl. rewrite andb_false_r. simpl.
    eexists; split; [reflexivity|]. split; [adj_tac | link_fields h W].
Qed.

Theorem append_ok dbg h0 s n : wf h0 -> exists h', append dbg h0 s n = Ok h' /\ wf h'.
Proof.
  intro W0. destruct (append_linked dbg h0 s n W0) as (h' & E & A & L).
  exists h'. split; [exact E|]. destruct (detach_wf h0 n W0) as [W D].
  eapply linked_wf; eauto.
Qed.

Theorem prepend_ok dbg h0 s n : wf h0 -> exists h', prepend dbg h0 s n = Ok h' /\ wf h'.
Proof.
  intro W0. unfold prepend. start_ins h0 n W0 h W D.
  destruct (first h s) as [f|] eqn:EF; autorewrite with gs; rewrite ?Nat.eqb_refl.
  - fwd h W. replace (prev h f) with (@None id) by congruence. simpl. rewrite andb_false_r. simpl.
    eexists; split; [reflexivity|].
    apply (linked_wf h _ n (Some s) None (Some f) W D); [adj_tac | link_fields h W].
  - fwd h W. simpl. rewrite andb_false_r. simpl.
    eexists; split; [reflexivity|].
    apply (linked_wf h _ n (Some s) None None W D); [adj_tac | link_fields h W].
Qed.

Theorem insert_after_ok dbg h0 s n : wf h0 -> s <> n -> exists h', insert_after dbg h0 s n = Ok h' /\ wf h'.
Proof.
  intros W0 NE. unfold insert_after. start_ins h0 n W0 h W D.
  assert (E1 : Nat.eqb s n = false) by (apply Nat.eqb_neq; auto).
  rewrite ?E1.
  destruct (next h s) as [y|] eqn:EN; autorewrite with gs; rewrite ?E1.
  - fwd h W. assert (E2 : Nat.eqb y n = false) by (apply Nat.eqb_neq; intro; subst; contra).
    rewrite ?E2. replace (prev h y) with (Some s) by congruence. rewrite Nat.eqb_refl.
    destruct dbg; simpl;
    (eexists; split; [reflexivity|];
     apply (linked_wf h _ n (parent h s) (Some s) (Some y) W D); [adj_tac | link_fields h W]).
  - destruct (parent h s) as [p|] eqn:EP; autorewrite with gs.
    + fwd h W. replace (last h p) with (Some s) by congruence. rewrite Nat.eqb_refl.
      destruct dbg; simpl;
      (eexists; split; [reflexivity|];
       apply (linked_wf h _ n (Some p) (Some s) None W D); [adj_tac | link_fields h W]).
    + simpl. eexists; split; [reflexivity|].
      apply (linked_wf h _ n None (Some s) None W D); [adj_tac | link_fields h W].
Qed.

Theorem insert_before_ok dbg h0 s n : wf h0 -> s <> n -> exists h', insert_before dbg h0 s n = Ok h' /\ wf h'.
Proof.
  intros W0 NE. unfold insert_before. start_ins h0 n W0 h W D.
  assert (E1 : Nat.eqb s n = false) by (apply Nat.eqb_neq; auto).
  rewrite ?E1.
  destruct (prev h s) as [y|] eqn:EN; autorewrite with gs; rewrite ?E1.
  - fwd h W. assert (E2 : Nat.eqb y n = false) by (apply Nat.eqb_neq; intro; subst; contra).
    rewrite ?E2. replace (next h y) with (Some s) by congruence. rewrite Nat.eqb_refl.
    destruct dbg; simpl;
    (eexists; split; [reflexivity|];
     apply (linked_wf h _ n (parent h s) (Some y) (Some s) W D); [adj_tac | link_fields h W]).
  - destruct (parent h s) as [p|] eqn:EP; autorewrite with gs.
    + fwd h W. replace (first h p) with (Some s) by congruence. rewrite Nat.eqb_refl.
      destruct dbg; simpl;
      (eexists; split; [reflexivity|];
       apply (linked_wf h _ n (Some p) None (Some s) W D); [adj_tac | link_fields h W]).
    + simpl. eexists; split; [reflexivity|].
      apply (linked_wf h _ n None None (Some s) W D); [adj_tac | link_fields h W].
Qed.

(* ------------------------------------------------------------------ histories *)
Definition op_ok (o : op) : Prop :=
  match o with
  | InsertAfter i j | InsertBefore i j => i <> j
  | _ => True
  end.
Definition admissible (ops : list op) : Prop := Forall op_ok ops.

Lemma apply_wf dbg h o : wf h -> op_ok o -> exists h', apply dbg h o = Ok h' /\ wf h'.
Proof.
  intros W K. destruct o; simpl in *.
  - eexists; split; [reflexivity|]. apply detach_wf; auto.
  - apply append_ok; auto.
  - apply prepend_ok; auto.
  - apply insert_after_ok; auto.
  - apply insert_before_ok; auto.
Qed.

Lemma fold_wf dbg ops : admissible ops -> forall h0, wf h0 ->
  exists h, fold_left (step dbg) ops (Ok h0) = Ok h /\ wf h.
Proof.
  induction 1 as [|o ops K _ IH]; intros h0 W; simpl.
  - eauto.
  - destruct (apply_wf dbg h0 o W K) as (h1 & E & W1). rewrite E. apply IH; auto.
Qed.

Theorem history_wf dbg ops : admissible ops -> exists h, run dbg ops = Ok h /\ wf h.
Proof. intro A. apply fold_wf; auto. apply wf_init. Qed.

(* the heap after EVERY step of an admissible history is consistent, and no step panics *)
Theorem trace_wf dbg ops : admissible ops -> forall h0, wf h0 ->
  snd (trace dbg h0 ops) = None /\ Forall wf (fst (trace dbg h0 ops)) /\ List.length (fst (trace dbg h0 ops)) = List.length ops.
Proof.
  induction 1 as [|o ops K _ IH]; intros h0 W; simpl.
  - auto.
  - destruct (apply_wf dbg h0 o W K) as (h1 & E & W1). rewrite E.
    destruct (IH h1 W1) as (A & B & C). destruct (trace dbg h1 ops) as [t e]. simpl in *. auto.
Qed.

(* ------------------------------------------------------------------ what the side condition excludes *)
Definition insert_after_wf_full_statement : Prop :=
  forall dbg h s n, wf h -> exists h', insert_after dbg h s n = Ok h' /\ wf h'.
Definition insert_before_wf_full_statement : Prop :=
  forall dbg h s n, wf h -> exists h', insert_before dbg h s n = Ok h' /\ wf h'.

(* x.insert_after(x) / x.insert_before(x) on a fresh node: no panic, the node becomes its own next
   and previous sibling *)
Lemma insert_after_self dbg : exists h', insert_after dbg init 0 0 = Ok h' /\ next h' 0 = Some 0 /\ prev h' 0 = Some 0.
Proof. eexists. split; [reflexivity|]. split; reflexivity. Qed.

Lemma insert_before_self dbg : exists h', insert_before dbg init 0 0 = Ok h' /\ next h' 0 = Some 0 /\ prev h' 0 = Some 0.
Proof. eexists. split; [reflexivity|]. split; reflexivity. Qed.

Theorem insert_after_wf_refuted : ~ insert_after_wf_full_statement.
Proof.
  intro F. destruct (F true init 0 0 wf_init) as (h' & E & W).
  destruct (insert_after_self true) as (h2 & E2 & N & _).
  assert (h' = h2) by congruence. subst. exact (wf_next_not_self _ _ W N).
Qed.

Theorem insert_before_wf_refuted : ~ insert_before_wf_full_statement.
Proof.
  intro F. destruct (F true init 0 0 wf_init) as (h' & E & W).
  destruct (insert_before_self true) as (h2 & E2 & N & _).
  assert (h' = h2) by congruence. subst. exact (wf_next_not_self _ _ W N).
Qed.

(* local consistency does not exclude parent cycles: appending an ancestor under its own descendant
   (or a node under itself) is accepted by the Rust code, keeps wf, and creates a cycle *)
Theorem append_ancestor_wf_cycle dbg :
  exists h, run dbg [Append 0 1; Append 1 0] = Ok h /\ wf h /\ parent h 0 = Some 1 /\ parent h 1 = Some 0.
Proof.
  destruct (history_wf dbg [Append 0 1; Append 1 0]) as (h & E & W).
  { repeat constructor. }
  exists h. split; [exact E|]. split; [exact W|].
  destruct dbg; vm_compute in E; inversion E; subst; split; reflexivity.
Qed.

Theorem append_self_wf_cycle dbg :
  exists h, run dbg [Append 0 0] = Ok h /\ wf h /\ parent h 0 = Some 0 /\ first h 0 = Some 0.
Proof.
  destruct (history_wf dbg [Append 0 0]) as (h & E & W).
  { repeat constructor. }
  exists h. split; [exact E|]. split; [exact W|].
  destruct dbg; vm_compute in E; inversion E; subst; split; reflexivity.
Qed.

(* ------------------------------------------------------------------ consequences of wf *)
Inductive reach (nx : id -> option id) : id -> id -> Prop :=
| reach_refl x : reach nx x x
| reach_step x y z : nx x = Some y -> reach nx y z -> reach nx x z.

(* the sibling chain from the first child reaches the last child *)
Theorem wf_first_reaches_last h p f : wf h -> first h p = Some f ->
  exists l, last h p = Some l /\ reach (next h) f l.
Proof.
  intros W F. assert (P : parent h f = Some p) by (apply (wf_first h W); auto).
  clear F. pose proof (wf_ends h W f) as E. induction E as [x K | x m K _ IH].
  - exists x. split; [apply (wf_tail h W); auto | constructor].
  - destruct IH as (l & L & R).
    + rewrite <- (wf_sib h W x m K). exact P.
    + exists l. split; auto. econstructor; eauto.
Qed.

(* every node on the child chain of p has parent p *)
Theorem wf_children_parent h p f c : wf h -> first h p = Some f -> reach (next h) f c -> parent h c = Some p.
Proof.
  intros W F R. assert (P : parent h f = Some p) by (apply (wf_first h W); auto).
  clear F. induction R as [x | x y z K _ IH]; auto.
  apply IH. rewrite <- (wf_sib h W x y K). exact P.
Qed.

Lemma wf_meaning h : wf h <->
  (forall n m, next h n = Some m <-> prev h m = Some n) /\
  (forall p c, first h p = Some c -> parent h c = Some p /\ prev h c = None) /\
  (forall p c, last h p = Some c -> parent h c = Some p /\ next h c = None) /\
  (forall n m, next h n = Some m -> parent h n = parent h m) /\
  (forall c p, parent h c = Some p -> prev h c = None -> first h p = Some c) /\
  (forall c p, parent h c = Some p -> next h c = None -> last h p = Some c) /\
  (forall p, first h p = None <-> last h p = None) /\
  (forall n, ends (next h) n).
Proof.
  split.
  - intro W. split; [exact (wf_np h W)|]. split; [exact (wf_first h W)|]. split; [exact (wf_last h W)|].
    split; [exact (wf_sib h W)|]. split; [exact (wf_head h W)|]. split; [exact (wf_tail h W)|].
    split; [exact (wf_fl h W) | exact (wf_ends h W)].
  - intros (A & B & C & D & E & F & G & H). constructor; auto.
Qed.

(* ------------------------------------------------------------------ abstraction to children lists *)
(* the list of nodes met from o along nx *)
Inductive chain (nx : id -> option id) : option id -> list id -> Prop :=
| chain_nil : chain nx None []
| chain_cons x l : chain nx (nx x) l -> chain nx (Some x) (x :: l).

Definition kids (h : heap) (p : id) (l : list id) : Prop := chain (next h) (first h p) l.

Lemma chain_fun nx o l1 : chain nx o l1 -> forall l2, chain nx o l2 -> l1 = l2.
Proof.
  induction 1; intros l2 C; inversion C; subst; auto. f_equal. auto.
Qed.

Lemma chain_of_ends nx x : ends nx x -> exists l, chain nx (Some x) l.
Proof.
  induction 1 as [x E | x m E _ (l & IH)].
  - exists [x]. constructor. rewrite E. constructor.
  - exists (x :: l). constructor. rewrite E. exact IH.
Qed.

Lemma kids_exists h p : wf h -> exists l, kids h p l.
Proof.
  intro W. unfold kids. destruct (first h p) as [f|].
  - apply chain_of_ends. apply (wf_ends h W).
  - exists []. constructor.
Qed.

Lemma chain_parent h p : wf h -> forall o l, chain (next h) o l ->
  (forall x, o = Some x -> parent h x = Some p) -> forall x, In x l -> parent h x = Some p.
Proof.
  intros W o l C. induction C as [|x l C IH]; intros P y I.
  - destruct I.
  - destruct I as [<-|I]; [auto|]. apply IH; auto.
    intros z E. rewrite <- (wf_sib h W x z E). auto.
Qed.

Lemma kids_parent h p l : wf h -> kids h p l -> forall x, In x l -> parent h x = Some p.
Proof.
  intros W K. eapply chain_parent; eauto. intros x E. apply (wf_first h W); auto.
Qed.

Lemma chain_last_none nx o l : chain nx o l -> forall x, In x l -> nx x = None -> exists l0, l = l0 ++ [x].
Proof.
  induction 1 as [|y l C IH]; intros x I E.
  - destruct I.
  - destruct I as [<-|I].
    + rewrite E in C. inversion C. exists []. reflexivity.
    + destruct (IH x I E) as (l0 & ->). exists (y :: l0). reflexivity.
Qed.

(* removing a *)
Lemma chain_remove nx nx' a :
  nx a <> Some a ->
  (forall x, x <> a -> nx' x = if opt_is (nx x) a then nx a else nx x) ->
  forall o l, chain nx o l ->
  chain nx' (if opt_is o a then nx a else o) (filter (fun x => negb (Nat.eqb x a)) l).
Proof.
  intros NS H o l C. induction C as [|x l C IH]; simpl.
  - constructor.
  - destruct (Nat.eqb_spec x a) as [->|N]; simpl.
    + assert (E : opt_is (nx a) a = false).
      { destruct (nx a) as [y|]; simpl; auto. apply Nat.eqb_neq. congruence. }
      rewrite E in IH. exact IH.
    + constructor. rewrite (H x N). exact IH.
Qed.

(* appending the fresh node n after the last element t *)
Lemma chain_snoc nx nx' n t :
  nx' n = None -> nx t = None -> t <> n ->
  (forall x, x <> n -> nx' x = if Nat.eqb x t then Some n else nx x) ->
  forall o l, chain nx o l -> ~ In n l -> In t l -> chain nx' o (l ++ [n]).
Proof.
  intros Hn Ht TN H o l C. induction C as [|x l C IH]; intros NI IT.
  - destruct IT.
  - simpl. constructor. assert (x <> n) by (intro; subst; apply NI; left; auto).
    rewrite (H x); auto. destruct (Nat.eqb_spec x t) as [->|N].
    + rewrite Ht in C. inversion C. simpl. constructor. rewrite Hn. constructor.
    + apply IH.
      * intro. apply NI. right. auto.
      * destruct IT; [congruence | auto].
Qed.

Lemma chain_frame nx nx' o l : chain nx o l -> (forall x, In x l -> nx' x = nx x) -> chain nx' o l.
Proof.
  induction 1 as [|x l C IH]; intro H.
  - constructor.
  - constructor. rewrite H by (left; auto). apply IH. intros; apply H; right; auto.
Qed.

Definition remove_id (a : id) (l : list id) : list id := filter (fun x => negb (Nat.eqb x a)) l.

Theorem kids_unlinked h h' a p l : wf h -> unlinked h h' a -> kids h p l -> kids h' p (remove_id a l).
Proof.
  intros W (Up & Upv & Unx & Uf & Ul) K. unfold kids in *.
  pose proof (chain_remove (next h) (next h') a (wf_next_not_self h a W)) as R.
  assert (H : forall x, x <> a -> next h' x = if opt_is (next h x) a then next h a else next h x).
  { intros x N. rewrite Unx. destruct (Nat.eqb_spec x a); [congruence|].
    destruct (prev h a) as [q|] eqn:EP; simpl.
    - destruct (Nat.eqb_spec q x).
      + subst. fwd h W. replace (next h x) with (Some a) by congruence. simpl. rewrite Nat.eqb_refl. auto.
      + destruct (next h x) as [y|] eqn:EN; simpl; auto. destruct (Nat.eqb_spec y a); auto.
        subst. fwd h W. congruence.
    - destruct (next h x) as [y|] eqn:EN; simpl; auto. destruct (Nat.eqb_spec y a); auto.
      subst. fwd h W. congruence. }
  specialize (R H _ _ K).
  replace (first h' p) with (if opt_is (first h p) a then next h a else first h p); [exact R|].
  rewrite Uf. destruct (first h p) as [f|] eqn:EF; simpl.
  - destruct (Nat.eqb_spec f a).
    + subst. fwd h W. replace (parent h a) with (Some p) by congruence.
      replace (prev h a) with (@None id) by congruence. simpl. rewrite Nat.eqb_refl. auto.
    + destruct (parent h a) as [q|] eqn:EPa; simpl; auto. destruct (Nat.eqb_spec q p); simpl; auto.
      destruct (prev h a) eqn:EPv; simpl; auto. subst. fwd h W. congruence.
  - destruct (parent h a) as [q|] eqn:EPa; simpl; auto. destruct (Nat.eqb_spec q p); simpl; auto.
    destruct (prev h a) eqn:EPv; simpl; auto. subst. fwd h W. congruence.
Qed.

Lemma chain_snoc' nx nx' n t :
  nx' n = None -> nx t = None -> t <> n ->
  (forall x, x <> n -> nx' x = if Nat.eqb t x then Some n else nx x) ->
  forall o l, chain nx o l -> ~ In n l -> In t l -> chain nx' o (l ++ [n]).
Proof.
  intros Hn Ht TN H. apply (chain_snoc nx nx' n t); auto.
  intros x N. rewrite (H x N). rewrite (Nat.eqb_sym t x). reflexivity.
Qed.

Lemma reach_in_chain nx f t : reach nx f t -> forall l, chain nx (Some f) l -> In t l.
Proof.
  induction 1 as [x | x y z E _ IH]; intros l C; inversion C; subst.
  - left; auto.
  - right. apply IH. rewrite <- E. assumption.
Qed.

Theorem kids_linked_append h h' n s l :
  wf h -> detached h n -> linked h h' n (Some s) (last h s) None -> kids h s l ->
  kids h' s (l ++ [n]) /\ (forall p l', p <> s -> kids h p l' -> kids h' p l').
Proof.
  intros W D (Up & Upv & Unx & Uf & Ul) K.
  destruct D as (D1 & D2 & D3).
  assert (NI : forall p l', kids h p l' -> ~ In n l').
  { intros p l' K' I. pose proof (kids_parent h p l' W K' n I). congruence. }
  unfold kids in *. destruct (last h s) as [t|] eqn:EL; simpl in *.
  - assert (TN : t <> n) by (intro; subst; fwd h W; congruence).
    split.
    + rewrite Uf. rewrite andb_false_r.
      destruct (first h s) as [f|] eqn:EF; [|fwd h W; congruence].
      destruct (wf_first_reaches_last h s f W EF) as (t' & L' & R).
      assert (t' = t) by congruence. subst t'.
      apply (chain_snoc' (next h) (next h') n t); auto.
      * rewrite Unx, Nat.eqb_refl. reflexivity.
      * apply (wf_last h W s t EL).
      * intros x N. rewrite Unx. destruct (Nat.eqb_spec x n); [congruence | reflexivity].
      * apply (NI s). unfold kids. rewrite EF. exact K.
      * eapply reach_in_chain; eauto.
    + intros p l' N K'. rewrite Uf. rewrite andb_false_r.
      apply (chain_frame (next h)); auto. intros x I. rewrite Unx.
      assert (x <> n) by (intro; subst; eapply NI; eauto).
      destruct (Nat.eqb_spec x n); [congruence|].
      destruct (Nat.eqb_spec t x); auto. subst.
      pose proof (kids_parent h p l' W K' x I). fwd h W. congruence.
  - split.
    + assert (EF : first h s = None) by (apply (wf_fl h W); auto).
      rewrite EF in K. inversion K. subst. rewrite Uf. rewrite Nat.eqb_refl. simpl.
      constructor. rewrite Unx, Nat.eqb_refl. constructor.
    + intros p l' N K'. rewrite Uf. destruct (Nat.eqb_spec s p); [congruence|]. simpl.
      apply (chain_frame (next h)); auto. intros x I. rewrite Unx.
      assert (x <> n) by (intro; subst; eapply NI; eauto).
      destruct (Nat.eqb_spec x n); [congruence | reflexivity].
Qed.

(* a.detach() removes a from every children list (it is in at most one) *)
Theorem arena_abs_detach h a p l : wf h -> kids h p l -> kids (detach h a) p (remove_id a l).
Proof.
  intros W K. apply (kids_unlinked h _ a p l W); auto. apply detach_unlinked.
  - apply wf_next_not_self; auto.
  - apply wf_prev_not_self; auto.
Qed.

(* s.append(n): n leaves the children list it was in and becomes the last child of s *)
Theorem arena_abs_append dbg h s n : wf h ->
  exists h', append dbg h s n = Ok h' /\
    (forall l, kids h s l -> kids h' s (remove_id n l ++ [n])) /\
    (forall p l, p <> s -> kids h p l -> kids h' p (remove_id n l)).
Proof.
  intro W. destruct (append_linked dbg h s n W) as (h' & E & A & L).
  destruct (detach_wf h n W) as [W1 D1].
  exists h'. split; [exact E|]. split.
  - intros l K. refine (proj1 (kids_linked_append (detach h n) h' n s (remove_id n l) W1 D1 L _)).
    apply arena_abs_detach; auto.
  - intros p l N K.
    destruct (kids_exists (detach h n) s W1) as (ls & Ks).
    apply (proj2 (kids_linked_append (detach h n) h' n s ls W1 D1 L Ks) p _ N).
    apply arena_abs_detach; auto.
Qed.

(* the children list of every node exists and is unique *)
Theorem kids_functional h p : wf h -> exists l, kids h p l /\ forall l', kids h p l' -> l' = l.
Proof.
  intro W. destruct (kids_exists h p W) as (l & K). exists l. split; auto.
  intros l' K'. eapply chain_fun; eauto.
Qed.

(* ------------------------------------------------------------------ the executable checker wf_b *)
Lemma opt_is_true o x : opt_is o x = true <-> o = Some x.
Proof.
  destruct o as [y|]; simpl; split; intro H; try discriminate.
  - apply Nat.eqb_eq in H. congruence.
  - inversion H. apply Nat.eqb_refl.
Qed.

Lemma in_range_some n o x : in_range n o = true -> o = Some x -> x < n.
Proof. intros H ->. simpl in H. apply Nat.ltb_lt. exact H. Qed.

Lemma ends_b_sound f h x : ends_b f h x = true -> ends (next h) x.
Proof.
  revert x. induction f as [|f IH]; intros x H; simpl in H; [discriminate|].
  destruct (next h x) as [y|] eqn:E.
  - apply ends_cons with y; auto.
  - apply ends_nil; auto.
Qed.

Definition supported (n : nat) (h : heap) : Prop := forall i, n <= i -> h i = new_cell.

Theorem wf_b_sound n h : supported n h -> wf_b n h = true -> wf h.
Proof.
  intros S B. unfold wf_b in B. rewrite forallb_forall in B.
  assert (N : forall x, x < n -> wf_node_b n h x = true).
  { intros x L. apply B. apply in_seq. lia. }
  clear B.
  assert (OUT : forall x, n <= x -> parent h x = None /\ prev h x = None /\ next h x = None /\ first h x = None /\ last h x = None).
  { intros x L. unfold parent, prev, next, first, last. rewrite (S x L). simpl. auto. }
  assert (IN : forall x, x < n ->
     (in_range n (parent h x) = true /\ in_range n (prev h x) = true /\ in_range n (next h x) = true /\
      in_range n (first h x) = true /\ in_range n (last h x) = true) /\
     (forall m, m < n -> Bool.eqb (opt_is (next h x) m) (opt_is (prev h m) x) = true) /\
     (forall c, first h x = Some c -> parent h c = Some x /\ prev h c = None) /\
     (forall c, last h x = Some c -> parent h c = Some x /\ next h c = None) /\
     (forall m, next h x = Some m -> parent h x = parent h m) /\
     (forall p, parent h x = Some p -> (prev h x = None -> first h p = Some x) /\ (next h x = None -> last h p = Some x)) /\
     (first h x = None <-> last h x = None) /\
     ends (next h) x).
  { intros x L. specialize (N x L). unfold wf_node_b in N.
    apply andb_prop in N; destruct N as [N EN].
    apply andb_prop in N; destruct N as [N FL].
    apply andb_prop in N; destruct N as [N HT].
    apply andb_prop in N; destruct N as [N SIB].
    apply andb_prop in N; destruct N as [N LA].
    apply andb_prop in N; destruct N as [N FI].
    apply andb_prop in N; destruct N as [N NP].
    apply andb_prop in N; destruct N as [N R5].
    apply andb_prop in N; destruct N as [N R4].
    apply andb_prop in N; destruct N as [N R3].
    apply andb_prop in N; destruct N as [R1 R2].
    split; [auto|].
    split. { intros m Lm. rewrite forallb_forall in NP. apply NP. apply in_seq. lia. }
    split. { intros c E. rewrite E in FI. apply andb_prop in FI. destruct FI as [A B].
             apply opt_is_true in A. split; auto. destruct (prev h c); [discriminate | reflexivity]. }
    split. { intros c E. rewrite E in LA. apply andb_prop in LA. destruct LA as [A B].
             apply opt_is_true in A. split; auto. destruct (next h c); [discriminate | reflexivity]. }
    split. { intros m E. rewrite E in SIB. destruct (parent h x), (parent h m); simpl in SIB; try discriminate; auto.
             apply Nat.eqb_eq in SIB. congruence. }
    split. { intros p E. rewrite E in HT. apply andb_prop in HT. destruct HT as [A B]. split; intro K.
             - rewrite K in A. simpl in A. apply opt_is_true in A. exact A.
             - rewrite K in B. simpl in B. apply opt_is_true in B. exact B. }
    split. { split; intro E; rewrite E in FL; simpl in FL.
             - destruct (last h x); [discriminate | reflexivity].
             - destruct (first h x); [discriminate | reflexivity]. }
    eapply ends_b_sound; eauto. }
  assert (DEC : forall x, x < n \/ n <= x) by (intro; lia).
  constructor.
  - intros a m. split; intro E.
    + destruct (DEC a) as [La|La]; [|destruct (OUT a La) as (_ & _ & K & _); congruence].
      destruct (IN a La) as ((_ & _ & R & _) & NP & _).
      pose proof (in_range_some _ _ _ R E) as Lm. specialize (NP m Lm).
      rewrite E in NP. simpl in NP. rewrite Nat.eqb_refl in NP. apply eqb_prop in NP. symmetry in NP.
      apply opt_is_true in NP. exact NP.
    + destruct (DEC m) as [Lm|Lm]; [|destruct (OUT m Lm) as (_ & K & _); congruence].
      destruct (IN m Lm) as ((_ & R & _) & _).
      pose proof (in_range_some _ _ _ R E) as La.
      destruct (IN a La) as (_ & NP & _). specialize (NP m Lm).
      rewrite E in NP. simpl in NP. rewrite Nat.eqb_refl in NP. apply eqb_prop in NP.
      apply opt_is_true in NP. exact NP.
  - intros p c E. destruct (DEC p) as [L|L]; [|destruct (OUT p L) as (_ & _ & _ & K & _); congruence].
    destruct (IN p L) as (_ & _ & F & _). auto.
  - intros p c E. destruct (DEC p) as [L|L]; [|destruct (OUT p L) as (_ & _ & _ & _ & K); congruence].
    destruct (IN p L) as (_ & _ & _ & F & _). auto.
  - intros a m E. destruct (DEC a) as [L|L]; [|destruct (OUT a L) as (_ & _ & K & _); congruence].
    destruct (IN a L) as (_ & _ & _ & _ & F & _). auto.
  - intros c p E1 E2. destruct (DEC c) as [L|L]; [|destruct (OUT c L) as (K & _); congruence].
    destruct (IN c L) as (_ & _ & _ & _ & _ & F & _). apply (F p E1); auto.
  - intros c p E1 E2. destruct (DEC c) as [L|L]; [|destruct (OUT c L) as (K & _); congruence].
    destruct (IN c L) as (_ & _ & _ & _ & _ & F & _). apply (F p E1); auto.
  - intro p. destruct (DEC p) as [L|L].
    + destruct (IN p L) as (_ & _ & _ & _ & _ & _ & F & _). exact F.
    + destruct (OUT p L) as (_ & _ & _ & K1 & K2). rewrite K1, K2. tauto.
  - intro x. destruct (DEC x) as [L|L].
    + destruct (IN x L) as (_ & _ & _ & _ & _ & _ & _ & F). exact F.
    + apply ends_nil. destruct (OUT x L) as (_ & _ & K & _). exact K.
Qed.

Lemma heap_of_dump_supported d : supported (List.length d) (heap_of_dump d).
Proof.
  intros i L. unfold heap_of_dump. rewrite nth_overflow by exact L. reflexivity.
Qed.

(* a dump accepted by wf_b denotes a consistent heap *)
Theorem wf_b_dump_sound d : wf_b (List.length d) (heap_of_dump d) = true -> wf (heap_of_dump d).
Proof. apply wf_b_sound. apply heap_of_dump_supported. Qed.
