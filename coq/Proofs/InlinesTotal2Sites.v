(* Proofs/InlinesTotal2Sites.v — which Panic sites the arms of parse_inline can answer, under the position
   invariant CInv (column_offset = -(start of the current line), that start <= pos, the byte in front of it is a
   line end) and the line invariant LInv (line - start_line + line endings still ahead < |line_offsets|).

   For every handler two lemmas: `<h>_sites`: a Panic it answers is one of the REMAINING sites (`remaining` below:
   the sites not proved unreachable); `<h>_post`: what an Ok answer does to pos / line / column_offset.
   No axioms. *)
From Coq Require Import List NArith ZArith Arith Bool Strings.String Lia.
From V Require Import Base.Bytes Base.Res Gen.StrLeafGen Gen.Consts Gen.Special Model.Special
     Model.Scan Model.Strings Model.Entity Model.LinkUrl Model.AutolinkLeaf Model.Spx Model.Ast Model.Inlines
     Proofs.StrLeafProofs Proofs.StrLeafEntity Proofs.StrLeafParse
     Proofs.InlinesProofs Proofs.InlinesMemo Proofs.InlinesTotalAutolink Proofs.InlinesTotalFuel Proofs.InlinesTotal
     Proofs.InertInlines Proofs.InlinesTotal2 Proofs.InlinesTotal2Pe Proofs.InlinesTotal2Fuel Proofs.InlinesTotal2Inv
     Proofs.InlinesTotal2Scan.
Import ListNotations.
Local Open Scope string_scope.
Local Open Scope list_scope.

(* ------------------------------------------------------------------ the sites NOT proved unreachable *)
Definition remaining : list string :=
  [ (* (S) the delimiter / bracket stacks name Text siblings, in order *)
    "inlines.rs:insert_emph:opener.inl not among the siblings";
    "inlines.rs:insert_emph:opener.inl.next_sibling().unwrap()";
    "inlines.rs:insert_emph:text().unwrap()";
    "inlines.rs:insert_emph:opener text as_bytes()[0]";
    "inlines.rs:insert_emph:opener_num_chars-use_delims";
    "inlines.rs:insert_emph:closer_num_chars-use_delims";
    "inlines.rs:insert_emph:closer end.column-closer_num_chars";
    "inlines.rs:insert_emph:opener end.column-use_delims";
    "inlines.rs:process_emphasis:closer text_mut().unwrap()";
    "inlines.rs:process_emphasis:opener text_mut().unwrap()";
    "inlines.rs:close_bracket_match:bracket inl_text not among the children";
    "inlines.rs:handle_close_bracket:bracket inl_text not among the children";
    "inlines.rs:handle_close_bracket:label from bracket position";
    (* (T) the Text siblings in front of an autolink spell the scheme *)
    "inlines.rs:handle_autolink_with:node.last_child().unwrap()";
    "inlines.rs:handle_autolink_with:expected text node before autolink colon";
    "inlines.rs:handle_autolink_with:end.column-reverse" ].

Definition allowed (site : string) : bool := existsb (String.eqb site) remaining.

(* ------------------------------------------------------------------ leaves never panic *)
Lemma entity_unescape_nopanic t site : Entity.unescape t <> Panic site.
Proof. destruct (entity_unescape_total t) as [r [E _]]. rewrite E. discriminate. Qed.
Lemma unescape_html_nopanic t site : Entity.unescape_html t <> Panic site.
Proof. destruct (unescape_html_total t) as [r E]. rewrite E. discriminate. Qed.
Lemma normalize_code_nopanic t site : normalize_code t <> Panic site.
Proof. rewrite normalize_code_is_spec. discriminate. Qed.
Lemma clean_autolink_nopanic t e site : clean_autolink t e <> Panic site.
Proof. destruct (clean_autolink_total t e) as [r E]. rewrite E. discriminate. Qed.
Lemma clean_url_nopanic t site : clean_url t <> Panic site.
Proof. destruct (clean_url_spec t) as [h [_ E]]. rewrite E. discriminate. Qed.
Lemma manual_scan_nopanic t site : manual_scan_link_url t <> Panic site.
Proof. destruct (manual_scan_link_url_total t) as [r [E _]]. rewrite E. discriminate. Qed.
Lemma rtrim_nopanic t site : rtrim t <> Panic site.
Proof. rewrite rtrim_ok. discriminate. Qed.
Lemma ltrim_nopanic t site : ltrim t <> Panic site.
Proof. rewrite ltrim_ok. discriminate. Qed.

(* ------------------------------------------------------------------ make_inline *)
Lemma mk_panic s v sc ec site : mk s v sc ec = Panic site ->
  site = site_make_inline /\
  ((Z.of_nat sc + 1 + coloff s + Z.of_N (lineoff s) < 0)%Z \/ (Z.of_nat ec + 1 + coloff s + Z.of_N (lineoff s) < 0)%Z).
Proof.
  unfold mk, make_inline_cols, to_usize. rewrite !nat_N_Z.
  destruct (_ <? 0)%Z eqn:E1; cbn [bind].
  - intro H. inversion H. split; [reflexivity|]. left. apply Z.ltb_lt in E1. exact E1.
  - match goal with |- context [if ?b then _ else _] => destruct b eqn:E2 end; cbn [bind]; [|intro H; discriminate H].
    intro H. inversion H. split; [reflexivity|]. right. apply Z.ltb_lt in E2. exact E2.
Qed.

Lemma mk_shape s v sc ec n : mk s v sc ec = Ok n ->
  exists c1 c2, n = Node v (mkSp (line s) c1 (line s) c2) [].
Proof.
  unfold mk. destruct (make_inline_cols _ _ _ _) as [[c1 c2]|?|]; cbn [bind]; try discriminate.
  intro H. inversion H. eauto.
Qed.

Lemma end_col_panic s site : end_col s = Panic site ->
  (Z.of_nat (pos s) + coloff s + Z.of_N (lineoff s) < 0)%Z.
Proof. unfold end_col, to_usize. destruct (_ <? 0)%Z eqn:E; [|discriminate]. intros _. apply Z.ltb_lt in E. exact E. Qed.

(* ------------------------------------------------------------------ checked arithmetic, as facts *)
Lemma usub_ok site a b x : usub site a b = Ok x -> b <= a /\ x + b = a.
Proof. unfold usub. destruct (Nat.ltb a b) eqn:E; [discriminate|]. intro H. inversion H. apply Nat.ltb_ge in E. lia. Qed.
Lemma usub_panic site a b site' : usub site a b = Panic site' -> site' = site /\ a < b.
Proof. unfold usub. destruct (Nat.ltb a b) eqn:E; [|discriminate]. intro H. inversion H. apply Nat.ltb_lt in E. auto. Qed.
Lemma slice_ok inp site a b t : slice inp site a b = Ok t ->
  a <= b /\ b <= List.length inp /\ t = firstn (b - a) (skipn a inp).
Proof.
  unfold slice, len. destruct (_ || _) eqn:E; [discriminate|]. intro H. inversion H.
  apply orb_false_iff in E. destruct E as [E1 E2]. apply Nat.ltb_ge in E1. apply Nat.ltb_ge in E2. auto.
Qed.
Lemma slice_panic inp site a b site' : slice inp site a b = Panic site' -> site' = site /\ (b < a \/ List.length inp < b).
Proof.
  unfold slice, len. destruct (_ || _) eqn:E; [|discriminate]. intro H. inversion H. split; [reflexivity|].
  apply orb_true_iff in E. destruct E as [E|E]; apply Nat.ltb_lt in E; auto.
Qed.

(* ------------------------------------------------------------------ inversion of `= Panic site` *)
Ltac leafp H :=
  first [ exfalso; revert H; apply entity_unescape_nopanic
        | exfalso; revert H; apply unescape_html_nopanic
        | exfalso; revert H; apply normalize_code_nopanic
        | exfalso; revert H; apply clean_autolink_nopanic
        | exfalso; revert H; apply clean_url_nopanic
        | exfalso; revert H; apply manual_scan_nopanic
        | exfalso; revert H; apply rtrim_nopanic
        | exfalso; revert H; apply ltrim_nopanic ].

Ltac invp1 :=
  match goal with
  | H : Ok _ = Panic _ |- _ => discriminate H
  | H : OutOfFuel = Panic _ |- _ => discriminate H
  | H : Panic _ = Panic _ |- _ => inversion H; subst; clear H
  | H : mk _ _ _ _ = Panic _ |- _ => apply mk_panic in H; destruct H as [-> H]
  | H : usub _ _ _ = Ok _ |- _ => apply usub_ok in H; destruct H
  | H : usub _ _ _ = Panic _ |- _ => apply usub_panic in H; destruct H as [-> H]
  | H : slice _ _ _ _ = Ok _ |- _ => apply slice_ok in H; destruct H as (? & ? & ?)
  | H : slice _ _ _ _ = Panic _ |- _ => apply slice_panic in H; destruct H as [-> H]
  | H : end_col _ = Panic _ |- _ => apply end_col_panic in H
  | H : Entity.unescape _ = Panic _ |- _ => leafp H
  | H : Entity.unescape_html _ = Panic _ |- _ => leafp H
  | H : normalize_code _ = Panic _ |- _ => leafp H
  | H : clean_autolink _ _ = Panic _ |- _ => leafp H
  | H : clean_url _ = Panic _ |- _ => leafp H
  | H : manual_scan_link_url _ = Panic _ |- _ => leafp H
  | H : rtrim _ = Panic _ |- _ => leafp H
  | H : ltrim _ = Panic _ |- _ => leafp H
  | H : bind ?r _ = Panic _ |- _ => let E := fresh "E" in destruct r eqn:E; cbn [bind] in H
  | H : (let (_, _) := ?x in _) = Panic _ |- _ => let E := fresh "E" in destruct x eqn:E
  | H : (if ?b then _ else _) = Panic _ |- _ => let E := fresh "E" in destruct b eqn:E
  | H : match ?x with _ => _ end = Panic _ |- _ => let E := fresh "E" in destruct x eqn:E
  | H : _ = Panic _ |- _ => progress cbv zeta in H
  end.
Ltac invp := repeat first [invp1 | inv1].

(* boolean tests to propositions *)
Ltac bools :=
  repeat match goal with
         | H : Nat.ltb _ _ = true |- _ => apply Nat.ltb_lt in H
         | H : Nat.ltb _ _ = false |- _ => apply Nat.ltb_ge in H
         | H : Nat.leb _ _ = true |- _ => apply Nat.leb_le in H
         | H : Nat.leb _ _ = false |- _ => apply Nat.leb_gt in H
         | H : Nat.eqb _ _ = true |- _ => apply Nat.eqb_eq in H
         | H : Nat.eqb _ _ = false |- _ => apply Nat.eqb_neq in H
         | H : (_ <? _)%N = true |- _ => apply N.ltb_lt in H
         | H : (_ <? _)%N = false |- _ => apply N.ltb_ge in H
         | H : (_ <? _)%Z = true |- _ => apply Z.ltb_lt in H
         | H : (_ <? _)%Z = false |- _ => apply Z.ltb_ge in H
         | H : _ || _ = false |- _ => apply orb_false_iff in H; destruct H
         | H : _ || _ = true |- _ => apply orb_true_iff in H; destruct H
         | H : _ && _ = false |- _ => apply andb_false_iff in H; destruct H
         | H : _ && _ = true |- _ => apply andb_true_iff in H; destruct H
         | H : negb _ = true |- _ => apply negb_true_iff in H
         | H : negb _ = false |- _ => apply negb_false_iff in H
         end.

(* a goal `allowed "<site>" = true`: the site is a remaining one, or the branch is impossible *)
Ltac simp_st :=
  cbn [pos line coloff lineoff refsize delims brackets within nid sibs scanned bt nlo f_cdata f_decl f_pi f_comment
       set_pos set_linecol set_lineoff set_flags set_refsize set_delims set_brackets set_within set_bt set_nlo set_sibs
       fst snd] in *.
Ltac site_or_absurd :=
  first [ reflexivity
        | exfalso; simp_st;
          repeat match goal with
                 | H : context [if ?b then _ else _] |- _ =>
                   match b with context [if _ then _ else _] => fail 1 | _ => destruct b eqn:? end
                 end;
          bools; unfold len in *;
          first [ lia
                | match goal with
                  | E : peek_is _ ?p _ = true, E0 : peek _ ?p = None |- _ => unfold peek_is in E; rewrite E0 in E; discriminate E
                  end ] ].

(* ------------------------------------------------------------------ what the scanners answer *)
Lemma opt0_spacechars_le x : opt0 (scan_spacechars x) <= List.length x.
Proof. destruct (scan_spacechars x) as [m|] eqn:E; cbn [opt0]; [apply scan_spacechars_bound in E|]; lia. Qed.
Lemma opt0_link_title_le x :
  opt0 (scan_link_title x) <= List.length x /\ (opt0 (scan_link_title x) = 0 \/ 2 <= opt0 (scan_link_title x)).
Proof. destruct (scan_link_title x) as [m|] eqn:E; cbn [opt0]; [apply scan_link_title_bound in E|]; lia. Qed.
Lemma manual_scan_lt x url n : manual_scan_link_url x = Ok (Some (url, n)) -> n < List.length x.
Proof. intro H. destruct (manual_scan_link_url_total x) as [r [E B]]. rewrite E in H. inversion H; subst. exact B. Qed.

Lemma some_inj {A} (a b : A) : Some a = Some b -> a = b.
Proof. intro H. inversion H. reflexivity. Qed.

Ltac scanfacts :=
  repeat match goal with
         | H : scan_html_comment _ = Some _ |- _ => apply scan_html_comment_bound in H; destruct H
         | H : scan_html_tag _ = Some _ |- _ => apply scan_html_tag_bound in H; destruct H
         | H : scan_autolink_uri _ = Some _ |- _ => apply scan_autolink_uri_bound in H; destruct H
         | H : scan_autolink_email _ = Some _ |- _ => apply scan_autolink_email_bound in H; destruct H
         | H : manual_scan_link_url _ = Ok (Some (_, _)) |- _ => apply manual_scan_lt in H
         | H : context [opt0 (scan_spacechars ?x)] |- _ =>
           lazymatch goal with
           | K : opt0 (scan_spacechars x) <= _ |- _ => fail
           | _ => pose proof (opt0_spacechars_le x)
           end
         | H : context [opt0 (scan_link_title ?x)] |- _ =>
           lazymatch goal with
           | K : opt0 (scan_link_title x) <= _ /\ _ |- _ => fail
           | _ => pose proof (opt0_link_title_le x)
           end
         end;
  rewrite ?skipn_length in *.

(* ------------------------------------------------------------------ the invariants *)
Section Inv.
Variable inp : bytes.
Variable lo : list N.
Variable start_line : N.

Definition CInv (s : st) : Prop :=
  (coloff s <= 0)%Z /\ (- coloff s <= Z.of_nat (pos s))%Z /\
  (coloff s = 0%Z \/ exists c, nth_error inp (Z.to_nat (- coloff s) - 1) = Some c /\ is_line_end_char c = true).

Definition LInv (s : st) : Prop :=
  (start_line <= line s)%N /\
  N.to_nat (line s - start_line) + line_endings (skipn (pos s) inp) < List.length lo.

(* ---- peek ---- *)
Lemma peek_is_some p f : peek_is inp p f = true -> exists c, nth_error inp p = Some c /\ f c = true.
Proof. unfold peek_is, peek. destruct (nth_error inp p) as [c|]; [eauto|discriminate]. Qed.

Lemma peek_eq_some p c : peek_eq inp p c = true -> nth_error inp p = Some c.
Proof.
  unfold peek_eq. intro H. apply peek_is_some in H. destruct H as [c' [E H]]. apply beqb_eq in H. congruence.
Qed.

Lemma nth_lt p c : nth_error inp p = Some c -> p < List.length inp.
Proof. intro H. apply nth_error_Some. congruence. Qed.

(* ---- line endings ---- *)
Lemma skipn_at p c : nth_error inp p = Some c -> skipn p inp = c :: skipn (S p) inp.
Proof. apply skipn_nth2. Qed.

Lemma le_drop (l : bytes) : forall k, line_endings (skipn k l) <= line_endings l.
Proof.
  induction l as [|c r IH]; intros [|k]; cbn [skipn]; try lia.
  specialize (IH k). cbn [line_endings]. lia.
Qed.

Lemma le_mono_gen : forall (l : bytes) p q, p <= q -> line_endings (skipn q l) <= line_endings (skipn p l).
Proof.
  induction l as [|c r IH]; intros p q H.
  - rewrite !skipn_nil. lia.
  - destruct p as [|p]; [apply le_drop|]. destruct q as [|q]; [lia|]. cbn [skipn]. apply IH. lia.
Qed.

Lemma le_mono p q : p <= q -> line_endings (skipn q inp) <= line_endings (skipn p inp).
Proof. apply le_mono_gen. Qed.

Lemma le_step_lf p : nth_error inp p = Some x0a ->
  line_endings (skipn p inp) = 1 + line_endings (skipn (S p) inp).
Proof. intro H. rewrite (skipn_at p _ H). reflexivity. Qed.

Lemma le_step_crlf p : nth_error inp p = Some x0d -> nth_error inp (S p) = Some x0a ->
  line_endings (skipn p inp) = 1 + line_endings (skipn (S (S p)) inp).
Proof. intros H1 H2. rewrite (skipn_at p _ H1), (skipn_at (S p) _ H2). reflexivity. Qed.

Lemma le_step_cr p : nth_error inp p = Some x0d -> peek_eq inp (S p) x0a = false ->
  line_endings (skipn p inp) = 1 + line_endings (skipn (S p) inp).
Proof.
  intros H1 H2. rewrite (skipn_at p _ H1). cbn [line_endings]. change (beqb x0d x0a) with false. change (beqb x0d x0d) with true.
  cbv iota. unfold peek_eq, peek_is, peek in H2.
  destruct (nth_error inp (S p)) as [c2|] eqn:E2.
  - rewrite (skipn_at (S p) _ E2). rewrite beqb_sym in H2. rewrite H2. reflexivity.
  - assert (skipn (S p) inp = []) as ->; [|reflexivity].
    apply nth_error_None in E2. apply skipn_all2. exact E2.
Qed.

Fixpoint count_lf (l : bytes) : nat :=
  match l with [] => 0 | c :: r => (if beqb c x0a then 1 else 0) + count_lf r end.

Lemma le_app_lf (l1 l2 : bytes) : count_lf l1 + line_endings l2 <= line_endings (l1 ++ l2).
Proof.
  induction l1 as [|c r IH]; cbn [app count_lf line_endings]; [lia|].
  destruct (beqb c x0a); lia.
Qed.

Lemma count_newlines_spec (sl : bytes) : forall n k,
  fst (count_newlines sl n k) = n + count_lf sl
  /\ (count_lf sl = 0 -> snd (count_newlines sl n k) = k + List.length sl)
  /\ (0 < count_lf sl -> snd (count_newlines sl n k) < List.length sl
                         /\ nth_error sl (List.length sl - snd (count_newlines sl n k) - 1) = Some x0a).
Proof.
  induction sl as [|c r IH]; intros n k; cbn [count_newlines count_lf List.length].
  - cbn [fst snd]. repeat split; try lia.
  - destruct (beqb c x0a) eqn:E.
    + destruct (IH (S n) 0) as (A & B & C). split; [lia|]. split; [lia|]. intros _.
      destruct (Nat.eq_dec (count_lf r) 0) as [Z|NZ].
      * rewrite (B Z). split; [lia|]. replace (S (List.length r) - (0 + List.length r) - 1) with 0 by lia.
        apply beqb_eq in E. subst c. reflexivity.
      * destruct (C ltac:(lia)) as [C1 C2]. split; [lia|].
        replace (S (List.length r) - snd (count_newlines r (S n) 0) - 1)
          with (S (List.length r - snd (count_newlines r (S n) 0) - 1)) by lia.
        exact C2.
    + destruct (IH n (S k)) as (A & B & C). split; [lia|]. split; [intro Z; rewrite (B ltac:(lia)); lia|].
      intro P. destruct (C ltac:(lia)) as [C1 C2]. split; [lia|].
      replace (S (List.length r) - snd (count_newlines r n (S k)) - 1)
        with (S (List.length r - snd (count_newlines r n (S k)) - 1)) by lia.
      exact C2.
Qed.

(* ---- transitions of the invariants ---- *)
Definition RInv (maxref : N) (s : st) : Prop := (refsize s <= maxref)%N.

Lemma CInv_stay s s' : CInv s -> coloff s' = coloff s -> pos s <= pos s' -> CInv s'.
Proof. intros (A & B & C) E P. unfold CInv. rewrite E. split; [exact A|]. split; [lia|exact C]. Qed.

Lemma LInv_stay s s' : LInv s -> line s' = line s -> pos s <= pos s' -> LInv s'.
Proof.
  intros (A & B) E P. unfold LInv. rewrite E. split; [exact A|].
  pose proof (le_mono (pos s) (pos s') P). lia.
Qed.

(* a line ending was consumed: line + 1, column_offset = -(p2) *)
Lemma CInv_nl s' p2 c :
  coloff s' = (- Z.of_nat p2)%Z -> p2 <= pos s' -> 1 <= p2 ->
  nth_error inp (p2 - 1) = Some c -> is_line_end_char c = true -> CInv s'.
Proof.
  intros E P P1 Hc Hl. unfold CInv. rewrite E. split; [lia|]. split; [lia|]. right. exists c.
  replace (Z.to_nat (- - Z.of_nat p2)) with p2 by lia. split; assumption.
Qed.

Lemma LInv_nl s s' p2 :
  LInv s -> line s' = (line s + 1)%N -> p2 <= pos s' ->
  1 + line_endings (skipn p2 inp) <= line_endings (skipn (pos s) inp) -> LInv s'.
Proof.
  intros (A & B) E P H. unfold LInv. rewrite E. split; [lia|].
  pose proof (le_mono p2 (pos s') P). lia.
Qed.

(* ------------------------------------------------------------------ handle_backslash *)
Lemma handle_backslash_sites o s site :
  CInv s -> handle_backslash o inp s = Panic site -> allowed site = true.
Proof.
  intros (C1 & C2 & _) H. unfold handle_backslash, skip_line_end, usub in H.
  invp; try site_or_absurd.
Qed.

(* the content is right-trimmed: its last byte is not white space *)
Lemma drop_while_len f (l : bytes) : List.length (drop_while f l) <= List.length l.
Proof. induction l as [|x l IH]; cbn [drop_while List.length]; [lia|]. destruct (f x); cbn [List.length]; lia. Qed.

Lemma drop_while_fix f (l : bytes) : drop_while f l = l -> match l with [] => True | x :: _ => f x = false end.
Proof.
  destruct l as [|x l]; [trivial|]. cbn [drop_while]. destruct (f x) eqn:E; [|reflexivity].
  intro H. pose proof (drop_while_len f l) as K. rewrite H in K. cbn [List.length] in K. lia.
Qed.

Lemma rtrim_last p c :
  rtrim_slice inp = inp -> nth_error inp p = Some c -> nth_error inp (S p) = None -> sl_isspace c = false.
Proof.
  unfold rtrim_slice. intros H Hc Hn.
  assert (drop_while sl_isspace (rev inp) = rev inp) as H'.
  { rewrite <- H at 2. rewrite rev_involutive. reflexivity. }
  apply drop_while_fix in H'.
  assert (List.length inp = S p) as Hl.
  { apply nth_error_None in Hn. pose proof (nth_lt _ _ Hc). lia. }
  assert (exists l', inp = l' ++ [c]) as [l' El].
  { exists (firstn p inp). rewrite <- (firstn_skipn p inp) at 1. f_equal.
    rewrite (skipn_at p c Hc). f_equal. apply skipn_all2. lia. }
  rewrite El, rev_app_distr in H'. exact H'.
Qed.

Lemma skip_line_end_moved p p2 :
  skip_line_end inp p = (p2, true) -> eof inp p = false ->
  p < p2 /\ (exists c, nth_error inp (p2 - 1) = Some c /\ is_line_end_char c = true)
  /\ 1 + line_endings (skipn p2 inp) <= line_endings (skipn p inp).
Proof.
  unfold skip_line_end. intros H He.
  destruct (peek_eq inp p x0d) eqn:E1.
  - apply peek_eq_some in E1.
    destruct (peek_eq inp (S p) x0a) eqn:E2.
    + pose proof (peek_eq_some _ _ E2) as E2'. injection H as Hp Hok; subst p2. split; [lia|]. split.
      * exists x0a. replace (S (S p) - 1) with (S p) by lia. split; [exact E2'|reflexivity].
      * rewrite (le_step_crlf p E1 E2'). lia.
    + injection H as Hp Hok; subst p2. split; [lia|]. split.
      * exists x0d. replace (S p - 1) with p by lia. split; [exact E1|reflexivity].
      * rewrite (le_step_cr p E1 E2). lia.
  - destruct (peek_eq inp p x0a) eqn:E2.
    + apply peek_eq_some in E2. injection H as Hp Hok; subst p2. split; [lia|]. split.
      * exists x0a. replace (S p - 1) with p by lia. split; [exact E2|reflexivity].
      * rewrite (le_step_lf p E2). lia.
    + injection H as Hp Hok. rewrite Nat.ltb_irrefl, He in Hok. discriminate Hok.
Qed.

Lemma skip_spaces_ge' p : p <= skip_spaces inp p.
Proof. unfold skip_spaces. lia. Qed.

Lemma handle_backslash_post o s s' n :
  CInv s -> LInv s -> handle_backslash o inp s = Ok (s', n) ->
  CInv s' /\ LInv s' /\ refsize s' = refsize s.
Proof.
  intros C Li H. unfold handle_backslash in H.
  destruct (peek_is inp (S (pos s)) sl_ispunct).
  { inv; simp_st; (split; [eapply CInv_stay; [exact C|reflexivity|simp_st; lia]|]);
      (split; [eapply LInv_stay; [exact Li|reflexivity|simp_st; lia]|reflexivity]). }
  destruct (skip_line_end inp (S (pos s))) as [p2 ok] eqn:Es.
  destruct (negb (eof inp (S (pos s))) && ok) eqn:Eb.
  - apply andb_true_iff in Eb. destruct Eb as [Ee ->]. apply negb_true_iff in Ee.
    destruct (skip_line_end_moved _ _ Es Ee) as (Hlt & (c & Hc & Hl) & Hle).
    inv. simp_st. pose proof (skip_spaces_ge' p2).
    split; [|split; [|reflexivity]].
    + eapply (CInv_nl _ p2 c); simp_st; try assumption; try lia. unfold newline_offset. lia.
    + eapply (LInv_nl s _ p2); simp_st; try assumption; try reflexivity.
      pose proof (le_mono (pos s) (S (pos s)) ltac:(lia)). lia.
  - inv; simp_st; (split; [eapply CInv_stay; [exact C|reflexivity|simp_st; lia]|]);
      (split; [eapply LInv_stay; [exact Li|reflexivity|simp_st; lia]|reflexivity]).
Qed.

(* ------------------------------------------------------------------ handle_newline *)
Lemma handle_newline_sites s c site :
  rtrim_slice inp = inp -> CInv s -> nth_error inp (pos s) = Some c -> beqb c x0d || beqb c x0a = true ->
  handle_newline inp s = Panic site -> allowed site = true.
Proof.
  intros Hrt (C1 & C2 & C3) Ec Hc H. unfold handle_newline in H. rewrite Ec in H.
  assert (forall sc ec v st0, coloff st0 = coloff s -> pos s <= sc -> pos s <= ec ->
            mk st0 v sc ec = Panic site -> False) as Hmk.
  { intros sc ec v st0 E0 A B Hm. apply mk_panic in Hm. rewrite E0 in Hm. destruct Hm as [_ Hm]. lia. }
  set (p1 := if beqb c x0d then S (pos s) else pos s) in *.
  destruct (nth_error inp p1) as [c1|] eqn:Ec1.
  2:{ (* after CR: the CR would be the last byte *)
      exfalso. unfold p1 in Ec1. destruct (beqb c x0d) eqn:Ecr; [|congruence].
      pose proof (rtrim_last _ _ Hrt Ec Ec1) as Hs. apply beqb_eq in Ecr. subst c. discriminate Hs. }
  set (p2 := if beqb c1 x0a then S p1 else p1) in *.
  assert (pos s < p2) as Hp2.
  { unfold p2, p1 in *. destruct (beqb c x0d) eqn:Ecr; [destruct (beqb c1 x0a); lia|].
    cbn [orb] in Hc. rewrite Ec in Ec1. inversion Ec1; subst c1. rewrite Hc. lia. }
  unfold usub in H. destruct (Nat.ltb p2 1) eqn:El; [apply Nat.ltb_lt in El; lia|]. cbn [bind] in H.
  match type of H with bind ?r _ = _ => destruct r as [nd0|site0|] eqn:Em; cbn [bind] in H; try discriminate H end.
  inversion H; subst site0. clear H. exfalso.
  destruct (Nat.ltb 1 (pos s) && peek_eq inp (pos s - 1) x20 && peek_eq inp (pos s - 2) x20) eqn:Eb.
  - apply andb_true_iff in Eb. destruct Eb as [Eb E2]. apply andb_true_iff in Eb. destruct Eb as [E0 E1].
    apply Nat.ltb_lt in E0. apply peek_eq_some in E1. apply peek_eq_some in E2.
    apply mk_panic in Em. destruct Em as [_ Em].
    destruct C3 as [Z|(cl & Hcl & Hle)]; [rewrite Z in Em; lia|].
    (* the start of the line is at most pos - 1, or the byte in front of pos would be a line end *)
    assert (Z.to_nat (- coloff s) <= pos s - 1) as Hl.
    { destruct (Nat.eq_dec (Z.to_nat (- coloff s)) (pos s)) as [Heq|Hne]; [|lia].
      rewrite Heq in Hcl. rewrite Hcl in E1. inversion E1; subst cl. discriminate Hle. }
    lia.
  - eapply (Hmk (pos s) (p2 - 1)); [reflexivity|lia|lia|exact Em].
Qed.

Lemma handle_newline_post s s' n c :
  CInv s -> LInv s -> nth_error inp (pos s) = Some c -> beqb c x0d || beqb c x0a = true ->
  handle_newline inp s = Ok (s', n) ->
  CInv s' /\ LInv s' /\ refsize s' = refsize s.
Proof.
  intros C Li Ec Hc H. unfold handle_newline in H. rewrite Ec in H.
  set (p1 := if beqb c x0d then S (pos s) else pos s) in *.
  destruct (nth_error inp p1) as [c1|] eqn:Ec1; [|discriminate].
  set (p2 := if beqb c1 x0a then S p1 else p1) in *.
  assert (pos s < p2 /\ (exists cl, nth_error inp (p2 - 1) = Some cl /\ is_line_end_char cl = true)
          /\ 1 + line_endings (skipn p2 inp) <= line_endings (skipn (pos s) inp)) as (Hp2 & (cl & Hcl & Hle) & HLE).
  { unfold p2, p1 in *. destruct (beqb c x0d) eqn:Ecr.
    - apply beqb_eq in Ecr. subst c. destruct (beqb c1 x0a) eqn:Elf.
      + apply beqb_eq in Elf. subst c1. split; [lia|]. split.
        * exists x0a. replace (S (S (pos s)) - 1) with (S (pos s)) by lia. split; [exact Ec1|reflexivity].
        * rewrite (le_step_crlf _ Ec Ec1). lia.
      + split; [lia|]. split.
        * exists x0d. replace (S (pos s) - 1) with (pos s) by lia. split; [exact Ec|reflexivity].
        * rewrite (le_step_cr _ Ec); [lia|]. unfold peek_eq, peek_is, peek. rewrite Ec1. rewrite beqb_sym. exact Elf.
    - cbn [orb] in Hc. rewrite Ec in Ec1. inversion Ec1; subst c1. rewrite Hc.
      apply beqb_eq in Hc. subst c. split; [lia|]. split.
      * exists x0a. replace (S (pos s) - 1) with (pos s) by lia. split; [exact Ec|reflexivity].
      * rewrite (le_step_lf _ Ec). lia. }
  inv; simp_st; pose proof (skip_spaces_ge' p2);
    (split; [eapply (CInv_nl _ p2 cl); simp_st; try assumption; try lia; unfold newline_offset; lia|]);
    (split; [eapply (LInv_nl s _ p2); simp_st; try assumption; try reflexivity|reflexivity]).
Qed.

(* ------------------------------------------------------------------ the arms that stay on the line *)
Definition stay (s s' : st) : Prop :=
  line s' = line s /\ coloff s' = coloff s /\ refsize s' = refsize s /\ pos s <= pos s'.

Lemma stay_inv maxref s s' : stay s s' -> CInv s -> LInv s -> RInv maxref s -> CInv s' /\ LInv s' /\ RInv maxref s'.
Proof.
  intros (A & B & C & D) H1 H2 H3. split; [eapply CInv_stay; eassumption|]. split; [eapply LInv_stay; eassumption|].
  unfold RInv in *. rewrite C. exact H3.
Qed.

Lemma handle_entity_sites s c site :
  CInv s -> nth_error inp (pos s) = Some c -> handle_entity inp s = Panic site -> allowed site = true.
Proof.
  intros (C1 & C2 & _) Ec H. pose proof (nth_lt _ _ Ec). unfold handle_entity, from, usub in H.
  invp; try site_or_absurd.
Qed.

Lemma handle_entity_stay s s' n : handle_entity inp s = Ok (s', n) -> stay s s'.
Proof. unfold handle_entity. intro H. inv; unfold stay; simp_st; repeat split; lia. Qed.

Lemma handle_hyphen_sites o s site : CInv s -> handle_hyphen o inp s = Panic site -> allowed site = true.
Proof. intros (C1 & C2 & _) H. unfold handle_hyphen in H. invp; try site_or_absurd. Qed.

Lemma handle_hyphen_stay o s s' n : handle_hyphen o inp s = Ok (s', n) -> stay s s'.
Proof. unfold handle_hyphen. intro H. inv; unfold stay; simp_st; repeat split; lia. Qed.

Lemma handle_period_sites o s site : CInv s -> handle_period o inp s = Panic site -> allowed site = true.
Proof. intros (C1 & C2 & _) H. unfold handle_period in H. invp; try site_or_absurd. Qed.

Lemma handle_period_stay o s s' n : handle_period o inp s = Ok (s', n) -> stay s s'.
Proof. unfold handle_period. intro H. inv; unfold stay; simp_st; repeat split; lia. Qed.

(* ------------------------------------------------------------------ adjust_node_newlines *)
Lemma nth_error_slice a b k : b <= List.length inp -> k < b - a ->
  nth_error (firstn (b - a) (skipn a inp)) k = nth_error inp (a + k).
Proof. intros Hb Hk. rewrite nth_error_firstn_lt' by exact Hk. apply nth_error_skipn. Qed.

Lemma lf_in_range a b : a <= b -> b <= List.length inp ->
  count_lf (firstn (b - a) (skipn a inp)) + line_endings (skipn b inp) <= line_endings (skipn a inp).
Proof.
  intros Hab Hb.
  assert (skipn a inp = firstn (b - a) (skipn a inp) ++ skipn b inp) as E.
  { rewrite <- (firstn_skipn (b - a) (skipn a inp)) at 1. f_equal.
    clear Hb. revert a b Hab. induction inp as [|x l IH]; intros a b Hab.
    - rewrite !skipn_nil. reflexivity.
    - destruct a as [|a].
      + cbn [skipn]. rewrite Nat.sub_0_r. reflexivity.
      + destruct b as [|b]; [lia|]. cbn [skipn Nat.sub]. apply IH. lia. }
  rewrite E at 2. apply le_app_lf.
Qed.

Lemma adjust_sites s n ml ex site :
  ml + ex <= pos s -> pos s - ex <= List.length inp -> sl (nsp n) = line s ->
  count_lf (firstn (pos s - ex - (pos s - (ml + ex))) (skipn (pos s - (ml + ex)) inp)) < List.length lo ->
  adjust_node_newlines inp lo s n ml ex = Panic site -> allowed site = true.
Proof.
  intros Hml Hb Hsl Hlo H. unfold adjust_node_newlines, usub, nsub, slice in H.
  destruct (Nat.ltb (pos s) (ml + ex)) eqn:E1; [apply Nat.ltb_lt in E1; lia|]. cbn [bind] in H.
  destruct (Nat.ltb (pos s) ex) eqn:E2; [apply Nat.ltb_lt in E2; lia|]. cbn [bind] in H.
  match type of H with bind (if ?b then _ else _) _ = _ => destruct b eqn:E0; cbn [bind] in H end.
  { exfalso. apply orb_true_iff in E0. unfold len in E0. destruct E0 as [E0|E0]; apply Nat.ltb_lt in E0; lia. }
  pose proof (count_newlines_spec (firstn (pos s - ex - (pos s - (ml + ex))) (skipn (pos s - (ml + ex)) inp)) 0 0) as (A & _ & _).
  destruct (count_newlines _ 0 0) as [newlines since]. cbn [fst] in A.
  destruct newlines as [|k]; [discriminate|].
  rewrite Hsl in H.
  destruct ((line s + N.of_nat (S k) <? line s)%N) eqn:E3; [apply N.ltb_lt in E3; lia|]. cbn [bind] in H.
  replace (N.to_nat (line s + N.of_nat (S k) - line s)) with (S k) in H by lia.
  destruct (nth_error lo (S k)) eqn:E4; [discriminate|].
  apply nth_error_None in E4. exfalso. lia.
Qed.

Lemma adjust_inv s0 s n ml ex s' n' :
  CInv s0 -> LInv s0 -> line s = line s0 -> coloff s = coloff s0 -> refsize s = refsize s0 ->
  pos s0 + ml + ex <= pos s ->
  adjust_node_newlines inp lo s n ml ex = Ok (s', n') ->
  CInv s' /\ LInv s' /\ refsize s' = refsize s0 /\ pos s' = pos s.
Proof.
  intros C Li El Ec Er Hp H. unfold adjust_node_newlines, usub, nsub, slice in H.
  destruct (Nat.ltb (pos s) (ml + ex)) eqn:E1; [discriminate|]. cbn [bind] in H.
  destruct (Nat.ltb (pos s) ex) eqn:E2; [discriminate|]. cbn [bind] in H.
  match type of H with bind (if ?b then _ else _) _ = _ => destruct b eqn:E3; cbn [bind] in H end; [discriminate|].
  apply orb_false_iff in E3. destruct E3 as [E3 E4]. apply Nat.ltb_ge in E3. apply Nat.ltb_ge in E4. unfold len in E4.
  set (a := pos s - (ml + ex)) in *. set (b := pos s - ex) in *.
  pose proof (count_newlines_spec (firstn (b - a) (skipn a inp)) 0 0) as (A & Bz & Cp).
  pose proof (lf_in_range a b E3 E4) as Hlf.
  assert (List.length (firstn (b - a) (skipn a inp)) = b - a) as Hlen.
  { rewrite firstn_length, skipn_length. lia. }
  destruct (count_newlines _ 0 0) as [newlines since]. cbn [fst snd] in *.
  destruct newlines as [|k].
  - inversion H; subst s' n'. split; [eapply CInv_stay; [exact C|exact Ec|lia]|].
    split; [eapply LInv_stay; [exact Li|exact El|lia]|]. split; [exact Er|reflexivity].
  - destruct ((_ <? _)%N); cbn [bind] in H; [discriminate|].
    destruct (nth_error lo _); [|discriminate]. inversion H; subst s' n'. clear H. simp_st.
    destruct (Cp ltac:(lia)) as [C1 C2]. rewrite Hlen in C1, C2.
    rewrite nth_error_slice in C2 by lia.
    split; [|split; [|split; [exact Er|reflexivity]]].
    + eapply (CInv_nl _ (b - since) x0a); simp_st.
      * unfold adjust_offset. unfold b. lia.
      * unfold b. lia.
      * lia.
      * replace (b - since - 1) with (a + (b - a - since - 1)) by lia. exact C2.
      * reflexivity.
    + destruct Li as [L1 L2]. unfold LInv. simp_st. rewrite El. split; [lia|].
      pose proof (le_mono (pos s0) a ltac:(unfold a; lia)).
      pose proof (le_mono b (pos s) ltac:(unfold b; lia)). lia.
Qed.

(* scan_to_closing_backtick touches the memo table only *)
Lemma stcb_fields memo s otl r s2 :
  scan_to_closing_backtick memo inp s otl = (r, s2) ->
  line s2 = line s /\ coloff s2 = coloff s /\ lineoff s2 = lineoff s /\ refsize s2 = refsize s /\ pos s2 = pos s.
Proof.
  unfold scan_to_closing_backtick. intro H.
  repeat match type of H with
         | (if ?b then _ else _) = _ => destruct b
         | (let '(_, _) := ?x in _) = _ => destruct x as [[? ?] ?]
         end; inversion H; subst; simp_st; auto.
Qed.

(* ------------------------------------------------------------------ handle_backticks *)
Lemma handle_backticks_sites memo s c site :
  CInv s -> LInv s -> nth_error inp (pos s) = Some c -> beqb c x60 = true ->
  handle_backticks memo inp lo s = Panic site -> allowed site = true.
Proof.
  intros (C1 & C2 & _) [L1 L2] Ec Hc H. unfold handle_backticks in H.
  pose proof (count_eq_pos inp x60 (pos s) c Ec Hc) as Hn.
  pose proof (nth_lt _ _ Ec) as Hlt.
  pose proof (count_eq_le inp x60 (pos s)) as Hle.
  set (otl := count_eq inp x60 (pos s)) in *.
  destruct (scan_to_closing_backtick memo inp (set_pos s (pos s + otl)) otl) as [e s2] eqn:Es.
  pose proof (stcb_fields _ _ _ _ _ Es) as (F1 & F2 & F3 & F4 & F5). simp_st.
  destruct e as [endpos|].
  - apply backticks_closer_bounds in Es; [|simp_st; apply count_eq_stop; reflexivity|simp_st; lia].
    simp_st. destruct Es as [B1 B2].
    unfold usub, slice in H. invp; simp_st; try site_or_absurd.
    all: try (rewrite ?F2, ?F3 in *; site_or_absurd).
    match goal with Ha : adjust_node_newlines _ _ _ _ _ _ = Panic _ |- _ => eapply adjust_sites in Ha; [exact Ha| | | |] end.
    + simp_st. lia.
    + simp_st. lia.
    + match goal with Em : mk _ _ _ _ = Ok ?n |- _ => apply mk_shape in Em; destruct Em as (c1 & c2 & ->) end. reflexivity.
    + simp_st.
      replace (endpos - otl - (endpos - (endpos - pos s - otl + otl))) with (endpos - otl - pos s) by lia.
      replace (endpos - (endpos - pos s - otl + otl)) with (pos s) by lia.
      pose proof (lf_in_range (pos s) (endpos - otl) ltac:(lia) ltac:(lia)). lia.
  - unfold usub in H. invp; simp_st; try site_or_absurd.
    all: try (rewrite ?F2, ?F3 in *; site_or_absurd).
Qed.

Lemma handle_backticks_post memo s s' n c :
  CInv s -> LInv s -> nth_error inp (pos s) = Some c -> beqb c x60 = true ->
  handle_backticks memo inp lo s = Ok (s', n) ->
  CInv s' /\ LInv s' /\ refsize s' = refsize s.
Proof.
  intros C Li Ec Hc H. unfold handle_backticks in H.
  pose proof (count_eq_pos inp x60 (pos s) c Ec Hc) as Hn.
  pose proof (nth_lt _ _ Ec) as Hlt.
  pose proof (count_eq_le inp x60 (pos s)) as Hle.
  set (otl := count_eq inp x60 (pos s)) in *.
  destruct (scan_to_closing_backtick memo inp (set_pos s (pos s + otl)) otl) as [e s2] eqn:Es.
  pose proof (stcb_fields _ _ _ _ _ Es) as (F1 & F2 & F3 & F4 & F5). simp_st.
  destruct e as [endpos|].
  - apply backticks_closer_bounds in Es; [|simp_st; apply count_eq_stop; reflexivity|simp_st; lia].
    simp_st. destruct Es as [B1 B2].
    unfold usub in H. inv.
    match goal with Ha : adjust_node_newlines _ _ _ _ _ _ = Ok _ |- _ =>
      eapply (adjust_inv s) in Ha; simp_st; try eassumption; try lia end.
    destruct H as (A1 & A2 & A3 & _). auto.
  - inv. simp_st. split; [eapply CInv_stay; [exact C|simp_st; exact F2|simp_st; lia]|].
    split; [eapply LInv_stay; [exact Li|simp_st; exact F1|simp_st; lia]|exact F4].
Qed.

(* ------------------------------------------------------------------ handle_delim *)
Lemma handle_delim_sites o u s c site :
  CInv s -> nth_error inp (pos s) = Some c ->
  handle_delim o u inp s c = Panic site -> allowed site = true.
Proof.
  intros (C1 & C2 & _) Ec H. unfold handle_delim in H.
  pose proof (scan_delims_fst o inp u (pos s) c) as Hsd. cbv zeta in Hsd.
  destruct (scan_delims o u inp (pos s) c) as [[[p' nd] co] cc]. cbn [fst snd] in Hsd. destruct Hsd as [Hp' Hnd].
  pose proof (nth_lt _ _ Ec) as Hlt.
  assert (1 <= nd /\ p' <= List.length inp) as [Hnd1 Hp'l].
  { subst nd p'. destruct (beqb c x27 || beqb c x22); [lia|].
    pose proof (count_eq_pos inp c (pos s) c Ec) as A. unfold beqb in A. rewrite N.eqb_refl in A. specialize (A eq_refl).
    pose proof (count_eq_le inp c (pos s)). lia. }
  unfold usub, slice in H. invp; simp_st; try site_or_absurd.
Qed.

Lemma handle_delim_stay o u s c s' n d : handle_delim o u inp s c = Ok (s', n, d) -> stay s s'.
Proof.
  unfold handle_delim. intro H.
  pose proof (scan_delims_fst o inp u (pos s) c) as Hsd. cbv zeta in Hsd.
  destruct (scan_delims o u inp (pos s) c) as [[[p' nd] co] cc]. cbn [fst snd] in Hsd. destruct Hsd as [Hp' Hnd].
  inv; unfold stay; simp_st; repeat split; lia.
Qed.

(* ------------------------------------------------------------------ handle_dollars *)
Lemma stcd_loop_bound odl : forall fuel p e, stcd_loop inp fuel p odl = Ok (Some e) -> p <= e /\ e <= List.length inp.
Proof.
  induction fuel as [|f IH]; intros p e H; [discriminate|]. cbn [stcd_loop] in H.
  set (p1 := p + count_while_b (fun c => negb (beqb c x24)) (skipn p inp)) in *.
  destruct (Nat.leb (len inp) p1) eqn:El; [discriminate|]. apply Nat.leb_gt in El. unfold len in El.
  unfold usub in H. destruct (Nat.ltb p1 1); cbn [bind] in H; [discriminate|].
  destruct (nth_error inp (p1 - 1)) as [c|]; [|discriminate].
  destruct (Nat.eqb odl 1 && sl_isspace c); [discriminate|].
  destruct (Nat.eqb odl 1 && beqb c x5c).
  { apply IH in H. unfold p1 in *. lia. }
  unfold count_eq_limit in H.
  pose proof (count_eq_le inp x24 p1) as Hc.
  destruct (Nat.eqb odl 1 && peek_is inp _ sl_isdigit); [discriminate|].
  destruct (Nat.eqb (Nat.min odl (count_eq inp x24 p1)) odl).
  - inversion H; subst e. unfold p1 in *. lia.
  - apply IH in H. unfold p1 in *. lia.
Qed.

Lemma stccd_loop_bound : forall fuel p e, stccd_loop inp fuel p = Ok (Some e) -> p <= e /\ e <= List.length inp.
Proof.
  induction fuel as [|f IH]; intros p e H; [discriminate|]. cbn [stccd_loop] in H.
  set (p1 := p + count_while_b (fun c => negb (beqb c x24)) (skipn p inp)) in *.
  destruct (Nat.leb (len inp) p1) eqn:El; [discriminate|]. apply Nat.leb_gt in El. unfold len in El.
  unfold usub in H. destruct (Nat.ltb p1 1); cbn [bind] in H; [discriminate|].
  destruct (nth_error inp (p1 - 1)) as [c|]; [|discriminate].
  destruct (beqb c x60).
  - inversion H; subst e. unfold p1 in *. lia.
  - apply IH in H. unfold p1 in *. lia.
Qed.

Lemma stcd_loop_sites odl : forall fuel p site, 1 <= p -> stcd_loop inp fuel p odl = Panic site -> False.
Proof.
  induction fuel as [|f IH]; intros p site Hp H; [discriminate|]. cbn [stcd_loop] in H.
  set (p1 := p + count_while_b (fun c => negb (beqb c x24)) (skipn p inp)) in *.
  destruct (Nat.leb (len inp) p1) eqn:El; [discriminate|]. apply Nat.leb_gt in El. unfold len in El.
  unfold usub in H. destruct (Nat.ltb p1 1) eqn:E1; cbn [bind] in H; [apply Nat.ltb_lt in E1; unfold p1 in E1; lia|].
  destruct (nth_error inp (p1 - 1)) as [c|] eqn:En; [|apply nth_error_None in En; lia].
  destruct (Nat.eqb odl 1 && sl_isspace c); [discriminate|].
  destruct (Nat.eqb odl 1 && beqb c x5c); [eapply IH; [|exact H]; lia|].
  destruct (Nat.eqb odl 1 && peek_is inp _ sl_isdigit); [discriminate|].
  destruct (Nat.eqb _ odl); [discriminate|]. eapply IH; [|exact H]. unfold p1. lia.
Qed.

Lemma stccd_loop_sites : forall fuel p site, 1 <= p -> stccd_loop inp fuel p = Panic site -> False.
Proof.
  induction fuel as [|f IH]; intros p site Hp H; [discriminate|]. cbn [stccd_loop] in H.
  set (p1 := p + count_while_b (fun c => negb (beqb c x24)) (skipn p inp)) in *.
  destruct (Nat.leb (len inp) p1) eqn:El; [discriminate|]. apply Nat.leb_gt in El. unfold len in El.
  unfold usub in H. destruct (Nat.ltb p1 1) eqn:E1; cbn [bind] in H; [apply Nat.ltb_lt in E1; unfold p1 in E1; lia|].
  destruct (nth_error inp (p1 - 1)) as [c|] eqn:En; [|apply nth_error_None in En; lia].
  destruct (beqb c x60); [discriminate|]. eapply IH; [|exact H]. lia.
Qed.

Lemma dollars_scan o s e0 :
  let od := count_eq inp x24 (pos s) in
  let cm := Nat.eqb od 1 && io_math_code o && peek_eq inp (pos s + od) x60 in
  let p2 := if cm then S (pos s + od) else pos s + od in
  1 <= od ->
  (if cm then stccd_loop inp (S (len inp)) p2 else scan_to_closing_dollar o inp p2 od) = e0 ->
  match e0 with
  | Ok (Some ep) => p2 <= ep /\ ep <= List.length inp
  | Ok None => True
  | Panic _ => False
  | OutOfFuel => True
  end.
Proof.
  intros od cm p2 Hod H. subst e0. destruct cm.
  - destruct (stccd_loop inp (S (len inp)) p2) as [[ep|]|site|] eqn:E; try exact I.
    + eapply stccd_loop_bound; exact E.
    + eapply stccd_loop_sites; [|exact E]. unfold p2. lia.
  - unfold scan_to_closing_dollar.
    destruct (negb (io_math_dollars o) || Nat.ltb maxdollars od); [exact I|].
    destruct (Nat.eqb od 1 && peek_is inp p2 sl_isspace); [exact I|].
    destruct (stcd_loop inp (S (len inp)) p2 od) as [[ep|]|site|] eqn:E; try exact I.
    + eapply stcd_loop_bound; exact E.
    + eapply stcd_loop_sites; [|exact E]. unfold p2. lia.
Qed.

Lemma handle_dollars_sites o s c site :
  CInv s -> LInv s -> nth_error inp (pos s) = Some c -> beqb c x24 = true ->
  handle_dollars o inp lo s = Panic site -> allowed site = true.
Proof.
  intros (C1 & C2 & _) [L1 L2] Ec Hc H. unfold handle_dollars in H.
  pose proof (count_eq_pos inp x24 (pos s) c Ec Hc) as Hn.
  pose proof (nth_lt _ _ Ec) as Hlt.
  pose proof (count_eq_le inp x24 (pos s)) as Hle.
  destruct (negb (io_math_dollars o || io_math_code o)).
  { invp; try site_or_absurd. }
  cbv zeta in H.
  pose proof (dollars_scan o s) as Hscan. cbv zeta in Hscan.
  set (od := count_eq inp x24 (pos s)) in *.
  set (cm := Nat.eqb od 1 && io_math_code o && peek_eq inp (pos s + od) x60) in *.
  match type of H with bind ?r _ = _ => specialize (Hscan r Hn eq_refl); destruct r as [e0|site0|] eqn:E0; cbn [bind] in H end;
    [|destruct Hscan|discriminate].
  assert (od = 1 -> cm = true -> True) as _ by trivial.
  destruct e0 as [ep|].
  2:{ unfold usub in H. destruct cm; invp; simp_st; try site_or_absurd. }
  destruct Hscan as [Hs1 Hs2].
  match type of H with match (if ?b then _ else _) with _ => _ end = _ => destruct b eqn:Eb end.
  2:{ unfold usub in H. destruct cm; invp; simp_st; try site_or_absurd. }
  apply Nat.leb_le in Eb.
  assert (od = 1 \/ cm = false) as Hcm.
  { unfold cm. destruct (Nat.eqb od 1) eqn:E1; [left; apply Nat.eqb_eq; exact E1|right; reflexivity]. }
  unfold usub, slice in H.
  destruct cm eqn:Ecm.
  - destruct Hcm as [Hod|Hx]; [|discriminate Hx].
    invp; simp_st; try site_or_absurd.
    match goal with Ha : adjust_node_newlines _ _ _ _ _ _ = Panic _ |- _ => eapply adjust_sites in Ha; [exact Ha| | | |] end.
    + simp_st. lia.
    + simp_st. lia.
    + match goal with Em : mk _ _ _ _ = Ok ?n |- _ => apply mk_shape in Em; destruct Em as (c1 & c2 & ->) end. reflexivity.
    + simp_st.
      replace (ep - 2 - (ep - (ep - pos s - 2 + 2))) with (ep - 2 - pos s) by lia.
      replace (ep - (ep - pos s - 2 + 2)) with (pos s) by lia.
      pose proof (lf_in_range (pos s) (ep - 2) ltac:(lia) ltac:(lia)). lia.
  - invp; simp_st; try site_or_absurd.
    all: match goal with Ha : adjust_node_newlines _ _ _ _ _ _ = Panic _ |- _ => eapply adjust_sites in Ha; [exact Ha| | | |] end.
    all: try (simp_st; lia).
    all: try (match goal with Em : mk _ _ _ _ = Ok ?n |- _ => apply mk_shape in Em; destruct Em as (c1 & c2 & ->) end; reflexivity).
    all: simp_st.
    all: replace (ep - od - (ep - (ep - pos s - od + od))) with (ep - od - pos s) by lia.
    all: replace (ep - (ep - pos s - od + od)) with (pos s) by lia.
    all: pose proof (lf_in_range (pos s) (ep - od) ltac:(lia) ltac:(lia)); lia.
Qed.

Lemma handle_dollars_post o s s' n c :
  CInv s -> LInv s -> nth_error inp (pos s) = Some c -> beqb c x24 = true ->
  handle_dollars o inp lo s = Ok (s', n) ->
  CInv s' /\ LInv s' /\ refsize s' = refsize s.
Proof.
  intros C Li Ec Hc H.
  pose proof (adv_dollars o inp lo s s' n c Ec Hc H) as Hadv.
  unfold handle_dollars in H.
  pose proof (count_eq_pos inp x24 (pos s) c Ec Hc) as Hn.
  assert (forall s1, stay s s1 -> CInv s1 /\ LInv s1 /\ refsize s1 = refsize s) as Hstay.
  { intros s1 (A & B & D & E). split; [eapply CInv_stay; eassumption|]. split; [eapply LInv_stay; eassumption|exact D]. }
  destruct (negb (io_math_dollars o || io_math_code o)).
  { inv. apply Hstay. unfold stay. simp_st. repeat split; lia. }
  cbv zeta in H.
  match type of H with bind ?r _ = _ => destruct r as [e0|site0|] eqn:E0; cbn [bind] in H; try discriminate H end.
  match type of H with match ?e with _ => _ end = _ => destruct e as [endpos|] eqn:Ee end.
  - unfold usub in H. inv; bools;
      match goal with Ha : adjust_node_newlines _ _ _ _ _ _ = Ok _ |- _ =>
        eapply (adjust_inv s) in Ha; simp_st; try eassumption; try reflexivity; try lia end;
      match goal with Ha : _ /\ _ /\ _ /\ _ |- _ => destruct Ha as (A1 & A2 & A3 & _); auto end.
  - inv; apply Hstay; unfold stay; simp_st; repeat split; lia.
Qed.

(* ------------------------------------------------------------------ handle_pointy_brace *)
Lemma make_autolink_sites s url e sc ec site :
  CInv s -> pos s <= sc -> pos s <= ec -> 1 <= ec ->
  make_autolink s url e sc ec = Panic site -> allowed site = true.
Proof.
  intros (C1 & C2 & _) A B B1 H. unfold make_autolink in H. invp; simp_st; try site_or_absurd.
Qed.

Lemma handle_pointy_brace_sites s c site :
  CInv s -> LInv s -> nth_error inp (pos s) = Some c ->
  handle_pointy_brace inp lo s = Panic site -> allowed site = true.
Proof.
  intros C [L1 L2] Ec H. pose proof C as (C1 & C2 & C3). pose proof (nth_lt _ _ Ec) as Hlt.
  unfold handle_pointy_brace in H. unfold from in H.
  destruct (Nat.ltb (len inp) (S (pos s))) eqn:E0; [apply Nat.ltb_lt in E0; unfold len in E0; lia|]. cbn [bind] in H.
  destruct (scan_autolink_uri (skipn (S (pos s)) inp)) as [m|] eqn:Euri.
  { apply scan_autolink_uri_bound in Euri. rewrite skipn_length in Euri. destruct Euri as [Em1 Em2].
    invp; simp_st; try site_or_absurd.
    all: match goal with Hm : make_autolink _ _ _ _ _ = Panic _ |- _ =>
           eapply make_autolink_sites in Hm; [exact Hm|exact C|simp_st; lia|simp_st; lia|simp_st; lia] end. }
  destruct (scan_autolink_email (skipn (S (pos s)) inp)) as [m|] eqn:Eem.
  { apply scan_autolink_email_bound in Eem. rewrite skipn_length in Eem. destruct Eem as [Em1 Em2].
    invp; simp_st; try site_or_absurd.
    all: match goal with Hm : make_autolink _ _ _ _ _ = Panic _ |- _ =>
           eapply make_autolink_sites in Hm; [exact Hm|exact C|simp_st; lia|simp_st; lia|simp_st; lia] end. }
  match type of H with (let '(_, _) := ?x in _) = _ => destruct x as [ml [[[fc fd] fp] fm]] eqn:Ebig end.
  assert (forall m, ml = Some m -> S (pos s) + m <= List.length inp) as Hml.
  { intros m ->. clear H. revert Ebig.
    repeat match goal with
           | |- (if ?b then _ else _) = _ -> _ => let E := fresh "E" in destruct b eqn:E
           | |- match ?x with _ => _ end = _ -> _ => let E := fresh "E" in destruct x eqn:E
           end; intro Ebig; try discriminate Ebig; apply (f_equal fst) in Ebig; cbn [fst] in Ebig;
      try (apply some_inj in Ebig; subst m); bools;
      repeat match goal with
             | K : peek_eq inp _ _ = true |- _ => apply peek_eq_some in K; apply nth_lt in K
             end; scanfacts; unfold len in *; lia. }
  destruct ml as [m|]; [specialize (Hml m eq_refl)|clear Hml].
  - invp; simp_st; try site_or_absurd.
    match goal with Ha : adjust_node_newlines _ _ _ _ _ _ = Panic _ |- _ => eapply adjust_sites in Ha; [exact Ha| | | |] end.
    + simp_st. lia.
    + simp_st. lia.
    + match goal with Em : mk _ _ _ _ = Ok ?n |- _ => apply mk_shape in Em; destruct Em as (c1 & c2 & ->) end. reflexivity.
    + simp_st. bools. unfold len in *.
      replace (S (pos s) + m - 1 - (S (pos s) + m - (m + 1))) with (pos s + m - pos s) by lia.
      replace (S (pos s) + m - (m + 1)) with (pos s) by lia.
      pose proof (lf_in_range (pos s) (pos s + m) ltac:(lia) ltac:(lia)). lia.
  - invp; simp_st; try site_or_absurd.
Qed.

Lemma handle_pointy_brace_post s s' n :
  CInv s -> LInv s -> handle_pointy_brace inp lo s = Ok (s', n) ->
  CInv s' /\ LInv s' /\ refsize s' = refsize s.
Proof.
  intros C Li H.
  assert (forall s1, stay s s1 -> CInv s1 /\ LInv s1 /\ refsize s1 = refsize s) as Hstay.
  { intros s1 (A & B & D & E). split; [eapply CInv_stay; eassumption|]. split; [eapply LInv_stay; eassumption|exact D]. }
  unfold handle_pointy_brace in H.
  match type of H with bind ?r _ = _ => destruct r as [rest|?|]; cbn [bind] in H; try discriminate H end.
  destruct (scan_autolink_uri rest) as [m|].
  { inv. apply Hstay. unfold stay. simp_st. repeat split; lia. }
  destruct (scan_autolink_email rest) as [m|].
  { inv. apply Hstay. unfold stay. simp_st. repeat split; lia. }
  match type of H with (let '(_, _) := ?x in _) = _ => destruct x as [ml [[[fc fd] fp] fm]] end.
  destruct ml as [m|].
  - unfold usub in H. inv; bools.
    match goal with Ha : adjust_node_newlines _ _ _ _ _ _ = Ok _ |- _ =>
      eapply (adjust_inv s) in Ha; simp_st; try eassumption; try reflexivity; try lia end.
    destruct H as (A1 & A2 & A3 & _). auto.
  - inv. apply Hstay. unfold stay. simp_st. repeat split; lia.
Qed.

(* ------------------------------------------------------------------ wikilinks *)
Lemma wull_gt o p url ll p' :
  wikilink_url_link_label o inp p = Some (url, ll, p') ->
  p < p' /\ forall label c, ll = Some (label, c) -> p < c.
Proof.
  unfold wikilink_url_link_label. intro E.
  destruct (negb _); [discriminate|].
  destruct (wikilink_component inp p) as [p1|] eqn:E1; [|discriminate].
  apply wikilink_component_ge in E1.
  destruct (_ && _); [inversion E; subst; split; [lia|intros; discriminate]|].
  destruct (negb _); [discriminate|].
  destruct (wikilink_component inp p1) as [p2|] eqn:E2; [|discriminate].
  apply wikilink_component_ge in E2.
  destruct (_ && _); [|discriminate].
  destruct (wikilinks_mode o) as [[|]|]; inversion E; subst; (split; [lia|]); intros label c Hc; inversion Hc; lia.
Qed.

Lemma lbe_loop_sites o s sc0 : (- coloff s <= Z.of_nat sc0)%Z -> 1 <= sc0 ->
  forall k rest, List.length rest <= k -> forall offset startpos cur acc site,
  lbe_loop o s sc0 rest offset startpos cur acc = Panic site -> allowed site = true.
Proof.
  intros C Hsc. induction k as [|k IH]; intros rest Hk offset startpos cur acc site H.
  - destruct rest as [|c r]; [|cbn [List.length] in Hk; lia]. cbn [lbe_loop] in H. invp; try site_or_absurd.
  - destruct rest as [|c r]; [cbn [lbe_loop] in H; invp; try site_or_absurd|].
    cbn [List.length] in Hk. cbn [lbe_loop] in H.
    destruct r as [|c2 r2]; [eapply IH; [|exact H]; cbn [List.length]; lia|]. cbn [List.length] in Hk.
    destruct (beqb c x5c && sl_ispunct c2); [|eapply IH; [|exact H]; cbn [List.length]; lia].
    repeat match type of H with
           | bind ?r _ = Panic _ =>
             let E := fresh "E" in destruct r eqn:E; cbn [bind] in H;
             [ | inversion H; subst; clear H; invp; try site_or_absurd | discriminate H ]
           end.
    eapply IH; [|exact H]. lia.
Qed.

Lemma handle_wikilink_sites o s site :
  (- coloff s <= Z.of_nat (pos s) - 1)%Z -> 1 <= pos s ->
  handle_wikilink o inp s = Panic site -> allowed site = true.
Proof.
  intros C Hp H. unfold handle_wikilink in H.
  destruct (wikilink_url_link_label o inp (pos s)) as [[[url ll] p']|] eqn:Ew; [|discriminate].
  apply wull_gt in Ew. destruct Ew as [Hlt Hll].
  cbv zeta in H.
  match type of H with bind ?r _ = _ => destruct r as [cu|?|] eqn:E1; cbn [bind] in H; [|leafp E1|discriminate H] end.
  match type of H with bind ?r _ = _ => destruct r as [[lab c]|?|] eqn:E2; cbn [bind] in H; [| |discriminate H] end.
  2:{ destruct ll as [[label c]|]; invp. }
  assert (pos s < c) as Hc.
  { destruct ll as [[label c0]|]; inv; [eapply Hll; reflexivity|simp_st; lia]. }
  match type of H with bind ?r _ = _ => destruct r as [a|?|] eqn:E3; cbn [bind] in H; [| |discriminate H] end.
  2:{ invp; try site_or_absurd. }
  match type of H with bind ?r _ = _ => destruct r as [n|?|] eqn:E4; cbn [bind] in H; [| |discriminate H] end.
  2:{ invp; simp_st; try site_or_absurd. }
  match type of H with bind ?r _ = _ => destruct r as [kids|?|] eqn:E5; cbn [bind] in H; [discriminate H| |discriminate H] end.
  inversion H; subst. eapply (lbe_loop_sites o (set_pos s p') c); [cbn [coloff set_pos]; lia|lia|apply Nat.le_refl|exact E5].
Qed.

Lemma handle_wikilink_stay o s s' n : handle_wikilink o inp s = Ok (Some (s', n)) -> stay s s'.
Proof.
  intro H. unfold handle_wikilink in H.
  destruct (wikilink_url_link_label o inp (pos s)) as [[[url ll] p']|] eqn:Ew; [|discriminate].
  apply wull_gt in Ew. destruct Ew as [Hlt _].
  inv; unfold stay; simp_st; repeat split; lia.
Qed.

(* ------------------------------------------------------------------ the autolink extension *)
Lemma ext_loop_le o : forall rest prev le le1, ext_loop o rest prev le = Some le1 -> le1 <= le + List.length rest.
Proof.
  induction rest as [|c r IH]; intros prev le le1 H; cbn [ext_loop List.length] in *; [inversion H; lia|].
  destruct (sl_isspace c); [inversion H; lia|].
  destruct (_ && _ && _); [discriminate|]. apply IH in H. lia.
Qed.

Lemma autolink_delim_nopanic i c le relaxed site :
  nth_error inp i = Some c -> c <> x3b -> le <= List.length inp - i ->
  autolink_delim (skipn i inp) le relaxed = Panic site -> False.
Proof.
  intros Ec Hc Hle H.
  destruct (autolink_delim_total (skipn i inp) le relaxed) as [n [E _]].
  - rewrite skipn_length. exact Hle.
  - rewrite (skipn_at i c Ec). exact Hc.
  - congruence.
Qed.

Lemma url_match_result o u i r :
  nth_error inp i = Some x3a -> url_match o u inp i = r ->
  match r with
  | Ok (Some (_, _, rv, sk)) => rv <= sk
  | Ok None => True
  | Panic _ => False
  | OutOfFuel => True
  end.
Proof.
  intros Ec H. subst r. unfold url_match.
  destruct (_ || _ || _); [exact I|].
  destruct (_ && _); [exact I|].
  destruct (check_domain_total (hostchar_oracle u) (skipn (i + 3) inp) true) as [d [Ed Hd]]. rewrite Ed. cbn [bind].
  destruct d as [le0|]; [|exact I]. rewrite skipn_length in Hd.
  destruct (ext_loop o (skipn (i + le0) inp) _ le0) as [le1|] eqn:Ee; [|exact I].
  apply ext_loop_le in Ee. rewrite skipn_length in Ee.
  destruct (autolink_delim (skipn i inp) le1 (io_relaxed_autolinks o)) as [le2|site|] eqn:Ea; cbn [bind]; [lia| |exact I].
  eapply autolink_delim_nopanic; [exact Ec|discriminate| |exact Ea]. pose proof (nth_lt _ _ Ec). lia.
Qed.

Lemma www_match_result o u i r :
  www_match o u inp i = r ->
  match r with
  | Ok (Some (_, _, rv, sk)) => rv <= sk
  | Ok None => True
  | Panic _ => False
  | OutOfFuel => True
  end.
Proof.
  intro H. subst r. unfold www_match.
  destruct (_ && _ && _); [exact I|].
  destruct (negb (starts_with (skipn i inp) [x77; x77; x77; x2e])) eqn:Esw; [exact I|].
  apply negb_false_iff in Esw. apply starts_with_app in Esw. destruct Esw as [rr Err].
  destruct (check_domain_total (hostchar_oracle u) (skipn i inp) false) as [d [Ed Hd]]. rewrite Ed. cbn [bind].
  destruct d as [le0|]; [|exact I]. rewrite skipn_length in Hd.
  assert (1 <= le0) as Hle0 by (rewrite Err in Ed; eapply check_domain_www; exact Ed).
  unfold usub. destruct (Nat.ltb (i + le0) 1) eqn:E1; [apply Nat.ltb_lt in E1; lia|]. cbn [bind].
  destruct (ext_loop o (skipn (i + le0) inp) _ le0) as [le1|] eqn:Ee; [|exact I].
  apply ext_loop_le in Ee. rewrite skipn_length in Ee.
  assert (nth_error inp i = Some x77) as Ec.
  { rewrite <- (Nat.add_0_r i). rewrite <- nth_error_skipn. rewrite Err. reflexivity. }
  destruct (autolink_delim (skipn i inp) le1 (io_relaxed_autolinks o)) as [le2|site|] eqn:Ea; cbn [bind]; [lia| |exact I].
  eapply autolink_delim_nopanic; [exact Ec|discriminate| |exact Ea]. pose proof (nth_lt _ _ Ec). lia.
Qed.

Lemma rewind_loop_sites : forall fuel reverse l site, rewind_loop fuel reverse l = Panic site -> allowed site = true.
Proof.
  induction fuel as [|f IH]; intros reverse l site H.
  - destruct reverse; discriminate.
  - cbn [rewind_loop] in H. destruct reverse as [|k]; [discriminate|].
    destruct l as [|[id n] r]; [inversion H; reflexivity|].
    destruct (text_of n) as [prev|]; [|inversion H; reflexivity].
    destruct (Nat.ltb (S k) (List.length prev)); [|eapply IH; exact H].
    unfold nsub in H. destruct (_ <? _)%N; cbn [bind] in H; [inversion H; reflexivity|discriminate].
Qed.

Lemma haw_sites o s m site :
  (forall r, m (pos s) = r ->
     match r with Ok (Some (_, _, rv, sk)) => rv <= sk | Ok None => True | Panic _ => False | OutOfFuel => True end) ->
  handle_autolink_with o s m = Panic site -> allowed site = true.
Proof.
  intros Hm H. unfold handle_autolink_with in H.
  destruct (negb (io_relaxed_autolinks o) && within s); [discriminate|].
  cbv zeta in H. specialize (Hm _ eq_refl).
  destruct (m (pos s)) as [[[[[url text] nr] skip]|]|?|]; cbn [bind] in H; try discriminate; [|destruct Hm].
  unfold usub in H. destruct (Nat.ltb skip nr) eqn:E; [apply Nat.ltb_lt in E; lia|]. cbn [bind] in H.
  destruct (rewind_loop _ _ _) as [l'|?|] eqn:Er; cbn [bind] in H; try discriminate.
  inversion H; subst. eapply rewind_loop_sites; exact Er.
Qed.

Lemma haw_stay o s m s' n : handle_autolink_with o s m = Ok (Some (s', n)) -> stay s s'.
Proof.
  unfold handle_autolink_with. intro H.
  destruct (negb (io_relaxed_autolinks o) && within s); [discriminate|].
  cbv zeta in H.
  destruct (m (pos s)) as [[[[[url text] nr] skip]|]|?|]; cbn [bind] in H; try discriminate.
  destruct (usub _ _ _) as [adv|?|]; cbn [bind] in H; try discriminate.
  destruct (rewind_loop _ _ _) as [l'|?|]; cbn [bind] in H; try discriminate.
  inversion H; subst. unfold stay. simp_st. repeat split; lia.
Qed.

(* ------------------------------------------------------------------ process_emphasis *)
Lemma insert_emph_sites o s n0 items op cl site :
  (- coloff s <= Z.of_nat (pos s))%Z ->
  insert_emph o s n0 items op cl = Panic site -> allowed site = true.
Proof.
  intro C. unfold insert_emph.
  destruct (split_at_id (d_id op) items) as [[[pre opi] rest1]|]; [|intro H; inversion H; reflexivity].
  destruct (split_at_id (d_id cl) rest1) as [[[mid cli] post]|]; [|intro H; inversion H; reflexivity].
  destruct (text_of (snd opi)) as [ot|]; [|intro H; inversion H; reflexivity].
  destruct (text_of (snd cli)) as [ct|]; [|intro H; inversion H; reflexivity].
  destruct ot as [|oc ot']; [intro H; inversion H; reflexivity|].
  cbv zeta. unfold usub, nsub.
  repeat match goal with
         | |- context [mk ?s ?v ?a ?b] =>
           let E := fresh "E" in destruct (mk s v a b) eqn:E; cbn [bind];
           [| apply mk_panic in E; exfalso; lia | intro H; discriminate H]
         | |- Ok _ = _ -> _ => intro H; discriminate H
         | |- Panic _ = _ -> _ => intro H; inversion H; reflexivity
         | |- context [if ?b then _ else _] => destruct b; cbn [bind]
         end.
Qed.

Lemma pe_loop_sites o : forall fuel s n0 items ob below cs site,
  (- coloff s <= Z.of_nat (pos s))%Z ->
  Forall (fun d => dchar_ok o (d_char d) = true) cs ->
  pe_loop o fuel s n0 items ob below (hd_error cs) (tl cs) = Panic site -> allowed site = true.
Proof.
  induction fuel as [|f IH]; intros s n0 items ob below cs site C Hok H; [discriminate|].
  cbn [pe_loop] in H. destruct cs as [|c above]; cbn [hd_error tl] in H; [discriminate|].
  destruct (hd_tl_next above) as [E1 E2]. rewrite E1, E2 in H. clear E1 E2.
  inversion Hok as [|? ? Hc Hab]; subst.
  destruct (d_close c); [|eapply IH; [exact C|exact Hab|exact H]].
  destruct (ob_index_ok o c Hc) as [ix Eix]. rewrite Eix in H. cbn [bind] in H.
  destruct (find_opener c (nth ix ob 0) below [] false) as [found mod3].
  destruct (is_emph_char o (d_char c)) eqn:Eem.
  - destruct found as [[[between op] rest]|]; [|eapply IH; [exact C|exact Hab|exact H]].
    destruct (insert_emph o s n0 items op c) as [[[[[items' ko] kc] n1]|]| |] eqn:Ei; cbn [bind] in H; try discriminate H.
    + destruct kc; [eapply (IH _ _ _ _ _ (c :: above)); [exact C|exact Hok|exact H]|eapply IH; [exact C|exact Hab|exact H]].
    + inversion H; subst. eapply insert_emph_sites; [exact C|exact Ei].
  - unfold dchar_ok in Hc. rewrite Eem in Hc. cbn [orb] in Hc. unfold quote in Hc. rewrite Hc in H.
    match type of H with bind ?r _ = _ => destruct r as [items1| |] eqn:Er1; cbn [bind] in H; try discriminate H end.
    2:{ inversion H; subst. apply replace_item_text_site in Er1. subst. reflexivity. }
    destruct found as [[[between op] rest]|]; [|eapply IH; [exact C|exact Hab|exact H]].
    match type of H with bind ?r _ = _ => destruct r as [items2| |] eqn:Er2; cbn [bind] in H; try discriminate H end.
    2:{ inversion H; subst. apply replace_item_text_site in Er2. subst. reflexivity. }
    eapply IH; [exact C|exact Hab|exact H].
Qed.

Lemma process_emphasis_sites o s n0 items ds bottom site :
  (- coloff s <= Z.of_nat (pos s))%Z ->
  Forall (fun d => dchar_ok o (d_char d) = true) ds ->
  process_emphasis o inp s n0 items ds bottom = Panic site -> allowed site = true.
Proof.
  intros C Hok H. unfold process_emphasis in H. destruct ds as [|c above]; [discriminate|].
  eapply (pe_loop_sites o _ s n0 items _ [] (c :: above)); eassumption.
Qed.

(* ------------------------------------------------------------------ brackets *)
Lemma clean_title_panic_len t site : clean_title t = Panic site -> List.length t = 1.
Proof.
  unfold clean_title. destruct t as [|a t]; [discriminate|]. cbv zeta. intro H.
  match type of H with bind ?r _ = _ => destruct r as [b|?|] eqn:E; cbn [bind] in H end.
  - rewrite unescape_is_spec in H. discriminate H.
  - revert E. repeat match goal with |- (if ?c then _ else _) = _ -> _ => let E0 := fresh "Q" in destruct c eqn:E0 end; intro E.
    + bools; cbn [List.length] in *; lia.
    + exfalso. revert E. apply unescape_html_nopanic.
    + exfalso. revert E. apply unescape_html_nopanic.
  - discriminate H.
Qed.

Lemma cbm_sites o s img url title site :
  (- coloff s <= Z.of_nat (pos s))%Z -> (forall d, In d (delims s) -> dchar_ok o (d_char d) = true) ->
  brackets s <> [] ->
  close_bracket_match o inp s img url title = Panic site -> allowed site = true.
Proof.
  intros C Hd Hb H. unfold close_bracket_match, top_bracket in H.
  destruct (brackets s) as [|b br]; [congruence|]. cbn [bind] in H.
  match type of H with bind ?r _ = _ => destruct r as [tmp|?|] eqn:Etmp; cbn [bind] in H; [| |discriminate H] end.
  2:{ inversion H; subst. apply mk_panic in Etmp. exfalso. lia. }
  destruct (split_at_id (b_id b) (sibs s)) as [[[after_rev bi] before_rev]|]; [|inversion H; reflexivity].
  match type of H with bind ?r _ = _ => destruct r as [ecol|?|] eqn:Ee; cbn [bind] in H; [| |discriminate H] end.
  2:{ apply end_col_panic in Ee. exfalso. lia. }
  cbv zeta in H. unfold fresh_id in H. cbn [fst nid set_sibs delims] in H.
  match type of H with bind ?r _ = _ => destruct r as [[kids n1]|?|] eqn:Ep; cbn [bind] in H; [| |discriminate H] end.
  { destruct img; discriminate H. }
  inversion H; subst. eapply process_emphasis_sites; [|
    |exact Ep].
  - simp_st. exact C.
  - apply Forall_forall. intros d Hin. unfold delims_from in Hin. apply filter_In in Hin. apply Hd, Hin.
Qed.

Lemma cbm_fields o s img url title s' :
  close_bracket_match o inp s img url title = Ok s' ->
  line s' = line s /\ coloff s' = coloff s /\ refsize s' = refsize s /\ pos s' = pos s.
Proof.
  unfold close_bracket_match, top_bracket, pop_bracket, fresh_id. intro H. inv; destruct img; simp_st; auto.
Qed.

Lemma ref_lookup_fields refmap maxref s lab s' r :
  ref_lookup refmap maxref s lab = Ok (s', r) ->
  line s' = line s /\ coloff s' = coloff s /\ pos s' = pos s /\ brackets s' = brackets s
  /\ ((refsize s <= maxref)%N -> (refsize s' <= maxref)%N).
Proof.
  unfold ref_lookup, nsub. intro H. inv; simp_st; repeat split; auto.
  intro Hr. apply N.ltb_ge in E2. lia.
Qed.

Lemma ref_lookup_sites refmap maxref s lab site :
  (refsize s <= maxref)%N -> ref_lookup refmap maxref s lab = Panic site -> False.
Proof.
  unfold ref_lookup, nsub. intros Hr H.
  destruct (assoc_ref lab refmap) as [[url title]|]; [|discriminate].
  destruct (maxref <? refsize s)%N eqn:E; cbn [bind] in H; [apply N.ltb_lt in E; lia|].
  match type of H with (if ?b then _ else _) = _ => destruct b end; discriminate H.
Qed.

Lemma close_text_sites s site :
  (- coloff s <= Z.of_nat (pos s) - 1)%Z ->
  (do n <- mk s (Text [x5d]) (pos s - 1) (pos s - 1); Ok (s, Some n)) = Panic site -> allowed site = true.
Proof. intros C H. invp. exfalso. lia. Qed.

Lemma hcb_sites o u refmap maxref s0 site :
  CInv s0 -> RInv maxref s0 -> (forall d, In d (delims s0) -> dchar_ok o (d_char d) = true) ->
  handle_close_bracket o u inp refmap maxref s0 = Panic site -> allowed site = true.
Proof.
  intros (C1 & C2 & _) R Hd H. unfold handle_close_bracket in H. unfold RInv in R.
  set (s := set_pos s0 (S (pos s0))) in *.
  assert ((- coloff s <= Z.of_nat (pos s) - 1)%Z) as C by (unfold s; simp_st; lia).
  assert (forall d, In d (delims s) -> dchar_ok o (d_char d) = true) as Hd' by exact Hd.
  assert ((refsize s <= maxref)%N) as R' by exact R.
  clearbody s. clear Hd R C1 C2.
  destruct (brackets s) as [|b br] eqn:Eb; [eapply close_text_sites; eassumption|].
  cbv zeta in H.
  destruct (negb (b_image b) && nlo s); [eapply (close_text_sites (pop_bracket s)); [exact C|exact H]|].
  destruct (split_at_id (b_id b) (sibs s)) as [[[after_rev bi] before_rev]|] eqn:Es; [|inversion H; reflexivity].
  match type of H with (if ?c then _ else _) = _ => destruct c end;
    [eapply (close_text_sites (pop_bracket s)); [exact C|exact H]|].
  match type of H with bind ?r _ = _ => destruct r as [il|?|] eqn:Eil; cbn [bind] in H; [| |discriminate H] end.
  2:{ inversion H; subst. clear H. unfold from in Eil.
      repeat first [ invp1 | inv1 ]; subst;
      try match goal with
          | E : clean_title _ = Panic _ |- _ => apply clean_title_panic_len in E; rewrite firstn_length, skipn_length in E
          end;
      scanfacts; try site_or_absurd. }
  destruct il as [[[p' cu] ct]|].
  - match type of H with bind ?r _ = _ => destruct r as [s1|?|] eqn:Ec; cbn [bind] in H; [discriminate H| |discriminate H] end.
    inversion H; subst. eapply cbm_sites; [| | |exact Ec].
    + assert (pos s <= p') as Hp'.
      { unfold from in Eil. clear -Eil. inv; repeat match goal with |- context [if ?b then _ else _] => destruct b end; lia. }
      simp_st. lia.
    + exact Hd'.
    + simp_st. rewrite Eb. discriminate.
  - match type of H with (match ?x with _ => _ end) = _ => destruct x as [[lab0 found0] p1] eqn:Ell end.
    assert (pos s <= p1) as Hp1.
    { destruct (link_label inp (pos s)) as [[l q]|] eqn:El.
      - apply link_label_gt in El. inversion Ell; subst. lia.
      - inversion Ell; subst. lia. }
    match type of H with bind ?r _ = _ => destruct r as [[lab fl]|?|] eqn:Elab; cbn [bind] in H; [| |discriminate H] end.
    2:{ inversion H; subst. clear H. invp; try site_or_absurd. }
    match type of H with bind ?r _ = _ => destruct r as [[s2 reff]|?|] eqn:Elk; cbn [bind] in H; [| |discriminate H] end.
    2:{ exfalso. destruct fl; [|discriminate Elk]. eapply ref_lookup_sites; [|exact Elk]. simp_st. exact R'. }
    assert (line s2 = line s /\ coloff s2 = coloff s /\ pos s2 = p1 /\ brackets s2 = brackets s /\ delims s2 = delims s)
      as (F1 & F2 & F3 & F4 & F5).
    { destruct fl.
      - pose proof (ref_lookup_frame _ _ _ _ _ _ Elk) as (G1 & G2 & _).
        apply ref_lookup_fields in Elk. simp_st. destruct Elk as (A & B & D & E & _). auto.
      - inversion Elk; subst. simp_st. auto. }
    destruct reff as [[url title]|].
    + match type of H with bind ?r _ = _ => destruct r as [s1|?|] eqn:Ec; cbn [bind] in H; [discriminate H| |discriminate H] end.
      inversion H; subst. eapply cbm_sites; [| | |exact Ec].
      * rewrite F2. lia.
      * rewrite F5. exact Hd'.
      * rewrite F4, Eb. discriminate.
    + match type of H with (if ?c then _ else _) = _ => destruct c end.
      * invp; simp_st; try site_or_absurd.
        all: exfalso; rewrite ?F2 in *; lia.
      * eapply (close_text_sites (set_pos (pop_bracket s2) (pos s))); [|exact H].
        unfold pop_bracket. simp_st. rewrite F2. exact C.
Qed.

Lemma hcb_fields o u refmap maxref s0 s' n :
  handle_close_bracket o u inp refmap maxref s0 = Ok (s', n) ->
  line s' = line s0 /\ coloff s' = coloff s0 /\ ((refsize s0 <= maxref)%N -> (refsize s' <= maxref)%N).
Proof.
  intro H. unfold handle_close_bracket in H.
  set (s := set_pos s0 (S (pos s0))) in *.
  assert (line s = line s0 /\ coloff s = coloff s0 /\ refsize s = refsize s0) as (A1 & A2 & A3) by (unfold s; simp_st; auto).
  rewrite <- A1, <- A2, <- A3. clearbody s. clear A1 A2 A3.
  destruct (brackets s) as [|b br] eqn:Eb; [inv; auto|].
  cbv zeta in H.
  destruct (negb (b_image b) && nlo s); [inv; unfold pop_bracket; simp_st; auto|].
  destruct (split_at_id (b_id b) (sibs s)) as [[[after_rev bi] before_rev]|] eqn:Es; [|discriminate].
  match type of H with (if ?c then _ else _) = _ => destruct c end; [inv; unfold pop_bracket; simp_st; auto|].
  match type of H with bind ?r _ = _ => destruct r as [il|?|]; cbn [bind] in H; try discriminate H end.
  destruct il as [[[p' cu] ct]|].
  - match type of H with bind ?r _ = _ => destruct r as [s1|?|] eqn:Ec; cbn [bind] in H; try discriminate H end.
    inversion H; subst. apply cbm_fields in Ec. simp_st. destruct Ec as (B1 & B2 & B3 & _). rewrite B1, B2, B3. auto.
  - match type of H with (match ?x with _ => _ end) = _ => destruct x as [[lab0 found0] p1] end.
    match type of H with bind ?r _ = _ => destruct r as [[lab fl]|?|]; cbn [bind] in H; try discriminate H end.
    match type of H with bind ?r _ = _ => destruct r as [[s2 reff]|?|] eqn:Elk; cbn [bind] in H; try discriminate H end.
    assert (line s2 = line s /\ coloff s2 = coloff s /\ ((refsize s <= maxref)%N -> (refsize s2 <= maxref)%N)) as (F1 & F2 & F3).
    { destruct fl.
      - apply ref_lookup_fields in Elk. simp_st. destruct Elk as (A & B & D & E & F). auto.
      - inversion Elk; subst. simp_st. auto. }
    destruct reff as [[url title]|].
    + match type of H with bind ?r _ = _ => destruct r as [s1|?|] eqn:Ec; cbn [bind] in H; try discriminate H end.
      inversion H; subst. apply cbm_fields in Ec. destruct Ec as (B1 & B2 & B3 & _). rewrite B1, B2, B3. auto.
    + match type of H with (if ?c then _ else _) = _ => destruct c end.
      * unfold fresh_id, pop_bracket in H. inv; simp_st; auto.
      * unfold pop_bracket in H. clear Elk. inv; simp_st; auto.
Qed.

End Inv.
