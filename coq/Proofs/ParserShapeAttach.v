(* Proofs/ParserShapeAttach.v — the inline phase and the text post-pass, seen from the tree, as two explicit tree
   functions, and the shape clauses they preserve.

     attach inl path t     every node that holds inline content (NodeValue::contains_inlines: Paragraph, Heading,
                           TableCell) receives the children `inl p`, p = its position (child indices from the
                           root); nothing else changes.  Parser::process_inlines is `attach` with inl p = the result
                           of Model/Inlines.parse_inlines on the content of the leaf at p; postprocess_text_nodes
                           rewrites the same child lists once more (Model/Inlines.postprocess_block).
     taskify act path t    the effect of process_tasklist on the ancestors of a paragraph: at the positions chosen
                           by `act`, an Item becomes a TaskItem, a List gets its is_task_list flag, and a
                           Paragraph child of the item is removed (the emptied paragraph).

   Hypothesis on `inl` in every lemma: the lists are inline trees (ParserShapeInl.inl_tree7), which is what
   inl_parse_inlines_tree7 / inl_postprocess_tree7 prove of the inline-phase model. *)
From Coq Require Import List NArith Arith Bool Lia.
From V Require Import Base.Bytes Model.Ast Spec.Shape Spec.HtmlSpec Proofs.ParserShapeInl Proofs.ParserShapeFn.
Import ListNotations.
Local Open Scope list_scope.

Definition inline_leaf (v : node_value) : bool :=
  match v with Paragraph | Heading _ _ | TableCell => true | _ => false end.

Fixpoint attach (inl : list nat -> list node) (path : list nat) (n : node) : node :=
  match n with
  | Node v sp ch =>
    if inline_leaf v then Node v sp (inl path)
    else Node v sp ((fix go (i : nat) (l : list node) : list node :=
                       match l with
                       | [] => []
                       | c :: r => attach inl (path ++ [i]) c :: go (S i) r
                       end) 0 ch)
  end.

Fixpoint attach_kids (inl : list nat -> list node) (path : list nat) (i : nat) (l : list node) : list node :=
  match l with
  | [] => []
  | c :: r => attach inl (path ++ [i]) c :: attach_kids inl path (S i) r
  end.

Lemma attach_node inl path v sp ch :
  attach inl path (Node v sp ch) =
  if inline_leaf v then Node v sp (inl path) else Node v sp (attach_kids inl path 0 ch).
Proof.
  cbn [attach]. destruct (inline_leaf v); [reflexivity|]. f_equal.
  generalize 0. induction ch as [|c r IH]; intro i; [reflexivity|]. cbn [attach_kids]. now rewrite IH.
Qed.

Lemma attach_val inl path n : nval (attach inl path n) = nval n.
Proof. destruct n as [v sp ch]. rewrite attach_node. destruct (inline_leaf v); reflexivity. Qed.

Lemma attach_kids_length inl path : forall l i, List.length (attach_kids inl path i l) = List.length l.
Proof. induction l as [|c r IH]; intro i; cbn [attach_kids List.length]; [reflexivity|]. now rewrite IH. Qed.

Lemma attach_kids_vals inl path : forall l i, map nval (attach_kids inl path i l) = map nval l.
Proof. induction l as [|c r IH]; intro i; cbn [attach_kids map]; [reflexivity|]. now rewrite attach_val, IH. Qed.

(* a predicate that holds of every child after attach, given that attach carries it child by child *)
Lemma attach_kids_forallb inl path (Q Q' : node -> bool) : forall l i,
  Forall (fun c => forall p, Q c = true -> Q' (attach inl p c) = true) l ->
  forallb Q l = true -> forallb Q' (attach_kids inl path i l) = true.
Proof.
  induction l as [|c r IH]; intros i F H; [reflexivity|]. cbn [attach_kids forallb] in *.
  apply andb_true_iff in H. destruct H as [Hc Hr]. inversion F as [|? ? Fc Fr]; subst.
  apply andb_true_iff. split; [now apply Fc | now apply IH].
Qed.

(* a predicate on values that reads only the value (is_row_of, is_cell, is_fndef ..) *)
Lemma attach_kids_val_pred inl path (f : node -> bool) :
  (forall a b, nval a = nval b -> f a = f b) ->
  forall l i, forallb f (attach_kids inl path i l) = forallb f l.
Proof.
  intros Hf. induction l as [|c r IH]; intro i; [reflexivity|]. cbn [attach_kids forallb].
  rewrite IH. f_equal. apply Hf. apply attach_val.
Qed.

Section Attach.
  Variable inl : list nat -> list node.
  Hypothesis inl_ok : forall p, forallb inl_tree7 (inl p) = true.

  Lemma inl_all (Q : node -> bool) : (forall n, inl_tree7 n = true -> Q n = true) -> forall p, forallb Q (inl p) = true.
  Proof.
    intros HQ p. specialize (inl_ok p). apply forallb_forall. intros n Hn. apply HQ.
    rewrite forallb_forall in inl_ok. now apply inl_ok.
  Qed.

  Lemma attach_s2 path t : s2 t = true -> s2 (attach inl path t) = true.
  Proof. unfold s2. now rewrite attach_val. Qed.

  Lemma attach_s4 : forall t path, s4 t = true -> s4 (attach inl path t) = true.
  Proof.
    induction t as [v sp ch IH] using node_ind2. intros path H. rewrite attach_node.
    cbn [s4] in H. apply andb_true_iff in H. destruct H as [Hv Hc].
    destruct (inline_leaf v); cbn [s4]; rewrite Hv; cbn [andb].
    - apply inl_all. apply inl_tree7_s4.
    - eapply attach_kids_forallb; [|exact Hc]. eapply Forall_impl; [|exact IH]. intros c Hc' p. apply Hc'.
  Qed.

  Lemma attach_s7 : forall t path, s7 t = true -> s7 (attach inl path t) = true.
  Proof.
    induction t as [v sp ch IH] using node_ind2. intros path H. rewrite attach_node.
    cbn [s7] in H. apply andb_true_iff in H. destruct H as [Hv Hc].
    destruct (inline_leaf v); cbn [s7]; rewrite Hv; cbn [andb].
    - apply inl_all. apply inl_tree7_s7.
    - eapply attach_kids_forallb; [|exact Hc]. eapply Forall_impl; [|exact IH]. intros c Hc' p. apply Hc'.
  Qed.

  Lemma attach_nofn : forall t path, nofn t = true -> nofn (attach inl path t) = true.
  Proof.
    induction t as [v sp ch IH] using node_ind2. intros path H. rewrite attach_node.
    cbn [nofn] in H. apply andb_true_iff in H. destruct H as [Hv Hc].
    destruct (inline_leaf v); cbn [nofn]; rewrite Hv; cbn [andb].
    - apply inl_all. apply inl_tree7_nofn.
    - eapply attach_kids_forallb; [|exact Hc]. eapply Forall_impl; [|exact IH]. intros c Hc' p. apply Hc'.
  Qed.

  Lemma nofn_s6w_list : forall l, forallb nofn l = true -> s6w_list l = true.
  Proof.
    induction l as [|x r IH]; intro H; [reflexivity|]. cbn [forallb] in H. apply andb_true_iff in H. destruct H as [Hx Hr].
    cbn [s6w_list]. destruct (is_fndef (nval x)); [reflexivity|]. rewrite Hx. cbn [andb]. now apply IH.
  Qed.

  Lemma attach_s6w_list path : forall l i, s6w_list l = true -> s6w_list (attach_kids inl path i l) = true.
  Proof.
    induction l as [|x r IH]; intros i H; [reflexivity|]. cbn [attach_kids s6w_list] in *. rewrite attach_val.
    destruct (is_fndef (nval x)); [reflexivity|]. apply andb_true_iff in H. destruct H as [Hx Hr].
    rewrite (attach_nofn _ _ Hx). cbn [andb]. now apply IH.
  Qed.

  Lemma attach_s6w path t : s6w t = true -> s6w (attach inl path t) = true.
  Proof.
    destruct t as [v sp ch]. unfold s6w. rewrite attach_node. destruct (inline_leaf v); cbn [nch].
    - intros _. apply nofn_s6w_list. apply inl_all. apply inl_tree7_nofn.
    - apply attach_s6w_list.
  Qed.

  Lemma attach_fn_leaf path x : fn_leaf x = true -> fn_leaf (attach inl path x) = true.
  Proof.
    unfold fn_leaf. rewrite attach_val. intro H. apply andb_true_iff in H. destruct H as [Hd Hn]. rewrite Hd. cbn [andb].
    destruct x as [v sp ch]. cbn [nval nch] in *. rewrite attach_node.
    destruct (inline_leaf v) eqn:L; [destruct v; discriminate|]. cbn [nch].
    eapply attach_kids_forallb; [|exact Hn]. apply Forall_forall. intros c _ p. apply attach_nofn.
  Qed.

  Lemma attach_s6_list path : forall l i, s6_list l = true -> s6_list (attach_kids inl path i l) = true.
  Proof.
    induction l as [|x r IH]; intros i H; [reflexivity|].
    cbn [s6_list] in H. change (attach_kids inl path i (x :: r)) with (attach inl (path ++ [i]) x :: attach_kids inl path (S i) r).
    cbn [s6_list]. rewrite attach_val. destruct (is_fndef (nval x)).
    - change (attach inl (path ++ [i]) x :: attach_kids inl path (S i) r) with (attach_kids inl path i (x :: r)).
      eapply attach_kids_forallb; [|exact H]. apply Forall_forall. intros c _ p. apply attach_fn_leaf.
    - apply andb_true_iff in H. destruct H as [Hx Hr]. rewrite (attach_nofn _ _ Hx). cbn [andb]. now apply IH.
  Qed.

  Lemma attach_s6 path t : s2 t = true -> s6 t = true -> s6 (attach inl path t) = true.
  Proof.
    destruct t as [v sp ch]. unfold s6, s2. cbn [nval nch]. intros D H. rewrite attach_node.
    destruct (inline_leaf v) eqn:L; [destruct v; discriminate|]. cbn [nval nch].
    apply andb_true_iff in H. destruct H as [Hv Hl]. rewrite Hv. cbn [andb]. now apply attach_s6_list.
  Qed.

  (* the table clause: the leaves whose children change are no tables / rows, and the new children hold no
     table, row or cell *)
  Lemma attach_s3_go : forall t path pv gv, s3_go pv gv t = true -> s3_go pv gv (attach inl path t) = true.
  Proof.
    induction t as [v sp ch IH] using node_ind2. intros path pv gv H. rewrite attach_node.
    cbn [s3_go] in H. apply andb_true_iff in H. destruct H as [Hv Hc].
    destruct (inline_leaf v) eqn:L.
    - cbn [s3_go]. apply andb_true_iff. split.
      + destruct v; try discriminate L; try reflexivity. exact Hv.
      + apply forallb_forall. intros c Hin. apply inl_tree7_s3_go.
        specialize (inl_ok path). rewrite forallb_forall in inl_ok. now apply inl_ok.
    - cbn [s3_go]. apply andb_true_iff. split.
      + destruct v; try exact Hv; try reflexivity.
        * (* Table *)
          destruct ch as [|h rs]; [discriminate Hv|]. cbn [attach_kids table_children_ok] in *.
          apply andb_true_iff in Hv. destruct Hv as [Hh Hrs]. apply andb_true_iff. split.
          -- unfold is_row_of in *. now rewrite attach_val.
          -- rewrite attach_kids_val_pred; [exact Hrs|]. intros a b E. unfold is_row_of. now rewrite E.
        * (* TableRow *)
          destruct pv as [[]|]; try exact Hv. apply andb_true_iff in Hv. destruct Hv as [H1 H2].
          rewrite attach_kids_length, H2, andb_true_r.
          rewrite attach_kids_val_pred; [exact H1|]. intros a b E. unfold is_cell. now rewrite E.
      + eapply attach_kids_forallb; [|exact Hc]. eapply Forall_impl; [|exact IH]. intros c Hc' p. apply Hc'.
  Qed.

  Lemma attach_s3 path t : s3 t = true -> s3 (attach inl path t) = true.
  Proof. apply attach_s3_go. Qed.
End Attach.

(* ================================================================== process_tasklist's effect on the ancestors *)
Record tl_act := mkAct { ta_symbol : option (option bytes); ta_drop : bool }.

Definition set_task (l : node_list) : node_list :=
  mkList (l_type l) (l_marker_offset l) (l_padding l) (l_start l) (l_delim l) (l_bullet l) (l_tight l) true.

Definition taskify_val (a : tl_act) (v : node_value) : node_value :=
  match ta_symbol a, v with
  | Some s, Item _ => TaskItem s
  | Some _, NList l => NList (set_task l)
  | _, _ => v
  end.

Definition is_par (n : node) : bool := match nval n with Paragraph => true | _ => false end.

Fixpoint taskify (act : list nat -> tl_act) (path : list nat) (n : node) : node :=
  match n with
  | Node v sp ch =>
    Node (taskify_val (act path) v) sp
         ((fix go (i : nat) (l : list node) : list node :=
             match l with
             | [] => []
             | c :: r =>
               if is_par c && ta_drop (act (path ++ [i])) then go (S i) r
               else taskify act (path ++ [i]) c :: go (S i) r
             end) 0 ch)
  end.

Fixpoint taskify_kids (act : list nat -> tl_act) (path : list nat) (i : nat) (l : list node) : list node :=
  match l with
  | [] => []
  | c :: r =>
    if is_par c && ta_drop (act (path ++ [i])) then taskify_kids act path (S i) r
    else taskify act (path ++ [i]) c :: taskify_kids act path (S i) r
  end.

Lemma taskify_node act path v sp ch :
  taskify act path (Node v sp ch) = Node (taskify_val (act path) v) sp (taskify_kids act path 0 ch).
Proof.
  cbn [taskify]. f_equal. generalize 0. induction ch as [|c r IH]; intro i; [reflexivity|]. cbn [taskify_kids].
  destruct (is_par c && ta_drop (act (path ++ [i]))); now rewrite IH.
Qed.

(* value classes that the shape clauses look at are kept: only Item -> TaskItem and List -> List happen *)
Definition vclass_eq (v v' : node_value) : Prop :=
  v' = v \/ (exists l s, v = Item l /\ v' = TaskItem s) \/ (exists l l', v = NList l /\ v' = NList l').

Lemma taskify_val_class a v : vclass_eq v (taskify_val a v).
Proof.
  unfold taskify_val. destruct (ta_symbol a) as [s|]; [|left; reflexivity].
  destruct v; try (left; reflexivity); right; [right | left]; eauto.
Qed.

Lemma taskify_nval act path n : vclass_eq (nval n) (nval (taskify act path n)).
Proof. destruct n as [v sp ch]. rewrite taskify_node. apply taskify_val_class. Qed.

Lemma taskify_kids_forallb act path (Q Q' : node -> bool) : forall l i,
  Forall (fun c => forall p, Q c = true -> Q' (taskify act p c) = true) l ->
  forallb Q l = true -> forallb Q' (taskify_kids act path i l) = true.
Proof.
  induction l as [|c r IH]; intros i F H; [reflexivity|]. cbn [taskify_kids forallb] in *.
  apply andb_true_iff in H. destruct H as [Hc Hr]. inversion F as [|? ? Fc Fr]; subst.
  destruct (is_par c && ta_drop (act (path ++ [i]))); [now apply IH|].
  cbn [forallb]. apply andb_true_iff. split; [now apply Fc | now apply IH].
Qed.

Lemma taskify_s2 act path t : s2 t = true -> s2 (taskify act path t) = true.
Proof.
  destruct t as [v sp ch]. rewrite taskify_node. unfold s2. cbn [nval]. destruct v; try discriminate. intros _.
  unfold taskify_val. destruct (ta_symbol (act path)); reflexivity.
Qed.

Lemma taskify_s4 act : forall t path, s4 t = true -> s4 (taskify act path t) = true.
Proof.
  induction t as [v sp ch IH] using node_ind2. intros path H. rewrite taskify_node.
  cbn [s4] in H |- *. apply andb_true_iff in H. destruct H as [Hv Hc]. apply andb_true_iff. split.
  - destruct (taskify_val_class (act path) v) as [->|[(l & s & -> & ->)|(l & l' & -> & ->)]]; [exact Hv | reflexivity | reflexivity].
  - eapply taskify_kids_forallb; [|exact Hc]. eapply Forall_impl; [|exact IH]. intros c Hc' p. apply Hc'.
Qed.

Lemma taskify_s7 act : forall t path, s7 t = true -> s7 (taskify act path t) = true.
Proof.
  induction t as [v sp ch IH] using node_ind2. intros path H. rewrite taskify_node.
  cbn [s7] in H |- *. apply andb_true_iff in H. destruct H as [Hv Hc]. apply andb_true_iff. split.
  - destruct (taskify_val_class (act path) v) as [->|[(l & s & -> & ->)|(l & l' & -> & ->)]]; [exact Hv | reflexivity | reflexivity].
  - eapply taskify_kids_forallb; [|exact Hc]. eapply Forall_impl; [|exact IH]. intros c Hc' p. apply Hc'.
Qed.

Lemma taskify_is_fndef act path n : is_fndef (nval (taskify act path n)) = is_fndef (nval n).
Proof.
  destruct (taskify_nval act path n) as [->|[(l & s & -> & ->)|(l & l' & -> & ->)]]; reflexivity.
Qed.

Lemma taskify_nofn act : forall t path, nofn t = true -> nofn (taskify act path t) = true.
Proof.
  induction t as [v sp ch IH] using node_ind2. intros path H. rewrite taskify_node.
  cbn [nofn] in H |- *. apply andb_true_iff in H. destruct H as [Hv Hc]. apply andb_true_iff. split.
  - destruct (taskify_val_class (act path) v) as [->|[(l & s & -> & ->)|(l & l' & -> & ->)]]; [exact Hv | reflexivity | reflexivity].
  - eapply taskify_kids_forallb; [|exact Hc]. eapply Forall_impl; [|exact IH]. intros c Hc' p. apply Hc'.
Qed.

Lemma is_par_not_fndef c : is_par c = true -> is_fndef (nval c) = false.
Proof. unfold is_par. destruct (nval c); try discriminate; reflexivity. Qed.

Lemma taskify_s6w_list act path : forall l i, s6w_list l = true -> s6w_list (taskify_kids act path i l) = true.
Proof.
  induction l as [|x r IH]; intros i H; [reflexivity|]. cbn [taskify_kids s6w_list] in *.
  destruct (is_par x && ta_drop (act (path ++ [i]))) eqn:D.
  - apply andb_true_iff in D. destruct D as [P _]. rewrite (is_par_not_fndef _ P) in H.
    apply andb_true_iff in H. destruct H as [_ Hr]. now apply IH.
  - cbn [s6w_list]. rewrite taskify_is_fndef. destruct (is_fndef (nval x)); [reflexivity|].
    apply andb_true_iff in H. destruct H as [Hx Hr]. rewrite (taskify_nofn _ _ _ Hx). cbn [andb]. now apply IH.
Qed.

Lemma taskify_s6w act path t : s6w t = true -> s6w (taskify act path t) = true.
Proof. destruct t as [v sp ch]. unfold s6w. rewrite taskify_node. cbn [nch]. apply taskify_s6w_list. Qed.

(* the table clause: no value moves into or out of the classes Table / TableRow / TableCell, and only Paragraph
   children are removed (a Table has rows, a row has cells) *)
Lemma taskify_is_row act p h c : is_row_of h (taskify act p c) = is_row_of h c.
Proof.
  destruct c as [v sp ch]. rewrite taskify_node. unfold is_row_of. cbn [nval]. unfold taskify_val.
  destruct (ta_symbol (act p)); [destruct v; reflexivity | reflexivity].
Qed.

Lemma taskify_is_cell act p c : is_cell (taskify act p c) = is_cell c.
Proof.
  destruct c as [v sp ch]. rewrite taskify_node. unfold is_cell. cbn [nval]. unfold taskify_val.
  destruct (ta_symbol (act p)); [destruct v; reflexivity | reflexivity].
Qed.

Lemma taskify_kids_nopar act path (f : node -> bool) :
  (forall c p, f (taskify act p c) = f c) -> (forall c, f c = true -> is_par c = false) ->
  forall l i, forallb f l = true ->
    forallb f (taskify_kids act path i l) = true /\ List.length (taskify_kids act path i l) = List.length l.
Proof.
  intros Hf Hp. induction l as [|c r IH]; intros i H; [split; reflexivity|]. cbn [forallb] in H.
  apply andb_true_iff in H. destruct H as [Hc Hr]. cbn [taskify_kids]. rewrite (Hp c Hc). cbn [andb forallb List.length].
  destruct (IH (S i) Hr) as [A B]. rewrite Hf, Hc, A, B. split; reflexivity.
Qed.

Lemma row_not_par h c : is_row_of h c = true -> is_par c = false.
Proof. unfold is_row_of, is_par. destruct (nval c); try discriminate; reflexivity. Qed.
Lemma cell_not_par c : is_cell c = true -> is_par c = false.
Proof. unfold is_cell, is_par. destruct (nval c); try discriminate; reflexivity. Qed.

Lemma taskify_val_pkind a v : fnp_pkind (Some (taskify_val a v)) = fnp_pkind (Some v).
Proof. unfold taskify_val. destruct (ta_symbol a); [destruct v; reflexivity | reflexivity]. Qed.

Lemma taskify_s3_go act : forall t path pv gv, s3_go pv gv t = true -> s3_go pv gv (taskify act path t) = true.
Proof.
  induction t as [v sp ch IH] using node_ind2. intros path pv gv H. rewrite taskify_node.
  cbn [s3_go] in H. apply andb_true_iff in H. destruct H as [Hv Hc].
  cbn [s3_go]. apply andb_true_iff. split.
  - destruct v; try (unfold taskify_val; destruct (ta_symbol (act path)); exact Hv).
    + (* Table *)
      assert (E : taskify_val (act path) (Table t) = Table t) by (unfold taskify_val; destruct (ta_symbol (act path)); reflexivity).
      rewrite E. destruct ch as [|h rs]; [discriminate Hv|]. cbn [table_children_ok] in Hv.
      apply andb_true_iff in Hv. destruct Hv as [Hh Hrs].
      cbn [taskify_kids]. rewrite (row_not_par _ _ Hh). cbn [andb table_children_ok]. rewrite taskify_is_row, Hh. cbn [andb].
      apply (taskify_kids_nopar act path (is_row_of false)); [intros; apply taskify_is_row | apply row_not_par | exact Hrs].
    + (* TableRow *)
      assert (E : taskify_val (act path) (TableRow header) = TableRow header) by (unfold taskify_val; destruct (ta_symbol (act path)); reflexivity).
      rewrite E. destruct pv as [[]|]; try discriminate Hv. apply andb_true_iff in Hv. destruct Hv as [H1 H2].
      destruct (taskify_kids_nopar act path is_cell (fun c p => taskify_is_cell act p c) cell_not_par ch 0 H1) as [A B].
      rewrite A, B, H2. reflexivity.
  - eapply taskify_kids_forallb; [|exact Hc]. eapply Forall_impl; [|exact IH].
    intros c Hc' p Hs. cbv beta in Hc'.
    rewrite (fnp_s3_ctx _ _ _ (Some v) pv (taskify_val_pkind _ _) eq_refl). now apply Hc'.
Qed.

Lemma taskify_s3 act path t : s3 t = true -> s3 (taskify act path t) = true.
Proof. apply taskify_s3_go. Qed.
