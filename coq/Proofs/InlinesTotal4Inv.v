(* Proofs/InlinesTotal4Inv.v — C01, inline phase, fourth wave: the state invariant J that gives (T) at the colon.

     J s :=  when the bytes at pos are [ASCII letters] colon slash slash (colon_ahead), the trailing Text siblings spell
             the letters immediately in front of pos (InlinesTotal3Step.spelled (sibs s) (alpha_back (pos s)))
   J holds initially, gives THc (the hypothesis of InlinesTotal4Walk) and is kept by every arm of parse_inline:
     - the arms whose last consumed byte is no letter (InlinesTotal4Last.LB): alpha_back = 0;
     - the two autolink arms: colon_ahead is false behind the link (InlinesTotal4Auto);
     - the default text arm and the Text `w`: the appended Text holds the consumed bytes (left-trimmed of white space
       after a hard break), its end column is >= its length; when all of them are letters, J of the state before.
   The raw-HTML forms of handle_pointy_brace that take `scanner match + k` bytes (CDATA, declaration, processing
   instruction) enter through the hypothesis `hardok` (what they consume ends in no letter), discharged in
   InlinesTotal4Main.v: vacuously for contents without these forms, and from valid UTF-8 without NUL (InlinesTotal4Utf8.v).
   No axioms. *)
From Coq Require Import List NArith ZArith Arith Bool Strings.String Lia.
From V Require Import Base.Bytes Base.Res Gen.StrLeafGen Gen.Consts Gen.Special Model.Special
     Model.Scan Model.Strings Model.Entity Model.LinkUrl Model.AutolinkLeaf Model.Spx Model.Ast Model.Inlines
     Proofs.StrLeafProofs Proofs.StrLeafEntity Proofs.StrLeafParse
     Proofs.InlinesProofs Proofs.InlinesMemo Proofs.InlinesTotalAutolink Proofs.InlinesTotalFuel Proofs.InlinesTotal
     Proofs.InertInlines Proofs.InlinesTotal2 Proofs.InlinesTotal2Pe Proofs.InlinesTotal2Fuel Proofs.InlinesTotal2Inv
     Proofs.InlinesTotal2Main Proofs.InlinesTotal2Scan Proofs.InlinesTotal2Sites Proofs.InlinesTotal2Walk
     Proofs.InlinesTotal3Emb Proofs.InlinesTotal3Pe Proofs.InlinesTotal3Step Proofs.InlinesTotal3Enum Proofs.InlinesTotal3Walk
     Proofs.InlinesTotal4Walk Proofs.InlinesTotal4Re Proofs.InlinesTotal4Last Proofs.InlinesTotal4Auto.
Import ListNotations.
Local Open Scope list_scope.

(* ------------------------------------------------------------------ counting *)
Lemma cw_app f : forall (a b : bytes),
  count_while_b f (a ++ b) =
  if Nat.eqb (count_while_b f a) (List.length a) then List.length a + count_while_b f b else count_while_b f a.
Proof.
  induction a as [|x a IH]; intro b; cbn [app count_while_b List.length]; [reflexivity|].
  destruct (f x); [|reflexivity]. rewrite IH. cbn [Nat.eqb]. destruct (Nat.eqb _ _); reflexivity.
Qed.

Lemma cw_firstn f : forall (l : bytes), forallb f (firstn (count_while_b f l) l) = true.
Proof. induction l as [|x l IH]; cbn [count_while_b]; [reflexivity|]. destruct (f x) eqn:E; [|reflexivity]. cbn [firstn forallb]. rewrite E. exact IH. Qed.

Lemma cw_all f : forall (l : bytes), count_while_b f l = List.length l -> forallb f l = true.
Proof. intros l H. pose proof (cw_firstn f l) as K. rewrite H, firstn_all in K. exact K. Qed.

Lemma cw_forall f : forall (l : bytes), forallb f l = true -> count_while_b f l = List.length l.
Proof. induction l as [|x l IH]; cbn; [reflexivity|]. intro H. apply andb_true_iff in H. destruct H as [H1 H2]. rewrite H1, IH by exact H2. reflexivity. Qed.

Lemma forallb_rev' f : forall (l : bytes), forallb f (rev l) = forallb f l.
Proof.
  induction l as [|x l IH]; [reflexivity|]. cbn [rev forallb]. rewrite forallb_app, IH. cbn [forallb].
  rewrite andb_true_r. apply andb_comm.
Qed.

Lemma firstn_plus_skipn {A} (l : list A) : forall p n, firstn (p + n) l = firstn p l ++ firstn n (skipn p l).
Proof.
  induction l as [|x l IH]; intros [|p] n; cbn [plus firstn skipn app]; try reflexivity.
  - destruct n; reflexivity.
  - f_equal. apply IH.
Qed.

Section Inv.
Variable memo : bool.
Variable o : iopts.
Variable u : oracle.
Variable inp : bytes.
Variable lo : list N.
Variable start_line : N.
Variable refmap : list (bytes * (bytes * bytes)).
Variable maxref : N.
Hypothesis Hrt : rtrim_slice inp = inp.
Hypothesis Hflb : first_line_not_blank inp = true.

Notation TInv := (TInv o inp lo start_line maxref).
Notation PI := (parse_inline memo o u inp lo start_line refmap maxref).
Notation alpha_back := (alpha_back inp).
Notation colon_ahead := (colon_ahead inp).
Notation LB := (LB inp).

(* the forms of handle_pointy_brace that take `scanner match + k` bytes: what is needed of them *)
Definition hardok : Prop := forall p, nth_error inp p = Some x3c -> pointy_hard_ok inp (S p).
Hypothesis Hhard : hardok.

Definition J (s : st) : Prop := colon_ahead (pos s) = true -> spelled (sibs s) (alpha_back (pos s)).

Lemma J_init rs0 : J (init_st start_line rs0).
Proof. intros _. cbn [pos Inlines.init_st]. unfold InlinesTotal4Last.alpha_back. cbn. exact I. Qed.

Lemma J_LB s : LB (pos s) -> J s.
Proof. intros L _. rewrite (LB_alpha_back _ _ L). apply spelled_0. Qed.

Lemma J_nocolon s : colon_ahead (pos s) = false -> J s.
Proof. intros E K. rewrite E in K. discriminate K. Qed.

(* J gives (T) at the colon *)
Lemma J_THc s : J s -> THc o u inp s.
Proof.
  intros Js Ec Eau url text nr skip H. unfold url_match in H.
  match type of H with (if ?b then _ else _) = _ => destruct b eqn:E0; [discriminate|] end.
  apply orb_false_iff in E0. destruct E0 as [E0 E2]. apply orb_false_iff in E0. destruct E0 as [_ E1].
  apply negb_false_iff in E1, E2.
  cbv zeta in H.
  match type of H with (if ?b then _ else _) = _ => destruct b; [discriminate|] end.
  inv1. destruct a as [le0|]; [|discriminate].
  match type of H with match ?e with _ => _ end = _ => destruct e as [le1|]; [|discriminate] end.
  inv1. inversion H; subst. clear H.
  apply Js. unfold InlinesTotal4Auto.colon_ahead.
  destruct (skipn_nth inp (pos s) x3a Ec) as [r Hr]. rewrite Hr. cbn [count_while_b sl_isalpha]. rewrite Nat.add_0_r.
  rewrite E1, E2. unfold peek_eq, peek_is, peek. rewrite Ec. reflexivity.
Qed.

(* ------------------------------------------------------------------ a Text that holds the consumed bytes *)
Lemma colon_ahead_shift p p' :
  p <= p' -> p' <= List.length inp -> forallb sl_isalpha (firstn (p' - p) (skipn p inp)) = true ->
  colon_ahead p' = true -> colon_ahead p = true.
Proof.
  intros Hle Hl Ha K. unfold InlinesTotal4Auto.colon_ahead in *.
  assert (skipn p inp = firstn (p' - p) (skipn p inp) ++ skipn p' inp) as E.
  { rewrite <- (firstn_skipn (p' - p) (skipn p inp)) at 1. f_equal.
    rewrite InlinesTotal4Auto.skipn_skipn. f_equal. lia. }
  rewrite E, cw_app, (cw_forall _ _ Ha), Nat.eqb_refl.
  rewrite firstn_length, skipn_length.
  replace (p + (Nat.min (p' - p) (List.length inp - p) + count_while_b sl_isalpha (skipn p' inp)))
    with (p' + count_while_b sl_isalpha (skipn p' inp)) by lia.
  exact K.
Qed.

Lemma J_text sibs0 p p' id nd t pre :
  p <= p' -> p' <= List.length inp ->
  firstn (p' - p) (skipn p inp) = pre ++ t ->
  forallb sl_isspace pre = true ->
  text_of nd = Some t ->
  (N.of_nat (List.length t) <= ec (nsp nd))%N ->
  (colon_ahead p = true -> spelled sibs0 (alpha_back p)) ->
  colon_ahead p' = true -> spelled ((id, nd) :: sibs0) (alpha_back p').
Proof.
  intros Hle Hl Ec Hpre Et Hec Js K.
  assert (alpha_back p' = count_while_b sl_isalpha (rev t ++ rev pre ++ rev (firstn p inp))) as Ek.
  { unfold InlinesTotal4Last.alpha_back. replace p' with (p + (p' - p)) at 1 by lia.
    rewrite firstn_plus_skipn, Ec, !rev_app_distr, <- app_assoc. reflexivity. }
  rewrite cw_app, rev_length in Ek.
  destruct (Nat.eqb (count_while_b sl_isalpha (rev t)) (List.length t)) eqn:Eall.
  - apply Nat.eqb_eq in Eall. rewrite Ek. clear Ek.
    assert (forallb sl_isalpha (rev t) = true) as Hall by (apply cw_all; rewrite rev_length; exact Eall).
    set (k2 := count_while_b sl_isalpha (rev pre ++ rev (firstn p inp))) in *.
    assert (spelled sibs0 k2) as Hs.
    { destruct pre as [|x pre'] using rev_ind.
      - unfold k2. cbn [rev app]. apply Js. eapply colon_ahead_shift; [exact Hle|exact Hl| |exact K].
        rewrite Ec. cbn [app]. rewrite <- forallb_rev'. exact Hall.
      - unfold k2. rewrite rev_app_distr. cbn [rev app count_while_b].
        rewrite forallb_app in Hpre. apply andb_true_iff in Hpre. destruct Hpre as [_ Hx]. cbn [forallb] in Hx.
        rewrite andb_true_r in Hx. destruct (InlinesTotal4Auto.space_stop _ Hx) as [Hx1 _]. rewrite Hx1. apply spelled_0. }
    destruct (List.length t + k2) as [|k'] eqn:Ek'; [exact I|].
    cbn [spelled snd]. exists t. split; [exact Et|]. rewrite <- Ek'. split.
    + rewrite firstn_all2 by (rewrite rev_length; lia). exact Hall.
    + destruct (Nat.ltb (List.length t + k2) (List.length t)) eqn:El; [apply Nat.ltb_lt in El; lia|].
      replace (List.length t + k2 - List.length t) with k2 by lia. exact Hs.
  - apply Nat.eqb_neq in Eall. pose proof (count_while_b_le sl_isalpha (rev t)) as Hcl. rewrite rev_length in Hcl.
    rewrite Ek. clear Ek.
    pose proof (cw_firstn sl_isalpha (rev t)) as Hf.
    destruct (count_while_b sl_isalpha (rev t)) as [|k] eqn:Ekk; [exact I|].
    cbn [spelled snd]. exists t. split; [exact Et|]. split; [exact Hf|].
    destruct (Nat.ltb (S k) (List.length t)) eqn:El; [|apply Nat.ltb_ge in El; lia].
    apply Nat.ltb_lt in El. lia.
Qed.

Lemma lineend_nocolon p : peek_is inp p is_line_end_char = true -> colon_ahead p = false.
Proof.
  unfold peek_is, peek. intro H. apply ok_after_colon.
  destruct (nth_error inp p) as [c|] eqn:E; [|discriminate].
  destruct (skipn_nth inp p c E) as [r Hr]. rewrite Hr. cbn [ok_after].
  assert (sl_isalpha c = false /\ c <> x3a) as [A B].
  { destruct c; try discriminate H; split; try reflexivity; intro K; discriminate K. }
  split; [exact A|]. intro K. contradiction.
Qed.

Lemma alpha_tests : forall c, sl_isalpha c = true ->
  beqb c x2a = false /\ beqb c x5f = false /\ beqb c x27 = false /\ beqb c x22 = false /\ beqb c x7e = false
  /\ beqb c x5e = false /\ beqb c x7c = false.
Proof.
  intros c H.
  pose proof (forall_bytes (fun b => implb (sl_isalpha b)
     (negb (beqb b x2a) && negb (beqb b x5f) && negb (beqb b x27) && negb (beqb b x22) && negb (beqb b x7e)
      && negb (beqb b x5e) && negb (beqb b x7c))) eq_refl c) as K.
  cbv beta in K. rewrite H in K. cbn [implb] in K.
  repeat (apply andb_true_iff in K; destruct K as [K ?]).
  repeat match goal with Hn : negb _ = true |- _ => apply negb_true_iff in Hn end. auto 10.
Qed.

(* ------------------------------------------------------------------ J after one step *)
Ltac armLB L :=
  match goal with
  | H : append ?r = Ok (Some _) |- _ =>
    let Eh := fresh "Eh" in
    unfold append in H; destruct r as [[? ?]|?|] eqn:Eh; cbn [bind] in H; [|discriminate H|discriminate H];
    inversion H; subst; apply J_LB; cbn [push_item fst pos set_sibs]; eapply L; eassumption
  end.

Lemma step4_J s s' : TInv s -> J s -> PI s = Ok (Some s') -> J s'.
Proof.
  intros TI Js H.
  destruct TI as [(C & Li & R) F]. unfold parse_inline in H.
  destruct (peek inp (pos s)) as [c|] eqn:Ec; [|discriminate]. unfold peek in Ec.
  pose proof (nth_lt inp _ _ Ec) as Hlt.
  destruct (nsub _ _ _) as [adj|?|]; cbn [bind] in H; try discriminate.
  destruct (nth_error lo (N.to_nat adj)) as [off|]; [|discriminate].
  set (s1 := set_lineoff s off) in *.
  assert (CInv inp s1) as C1 by exact C.
  assert (J s1) as Js1 by exact Js.
  assert (pos s1 = pos s) as Hp1 by reflexivity. rewrite <- Hp1 in Ec, Hlt. clear Hp1.
  clearbody s1. clear Js C Li R F.
  destruct (beqb c x00); [discriminate|].
  destruct (beqb c x0d || beqb c x0a) eqn:Enl; [armLB last_newline|].
  destruct (beqb c x60) eqn:E60; [apply beqb_eq in E60; subst c; armLB last_backticks|].
  destruct (beqb c x5c) eqn:E5c; [apply beqb_eq in E5c; subst c; armLB last_backslash|].
  destruct (beqb c x26) eqn:E26; [apply beqb_eq in E26; subst c; armLB last_entity|].
  destruct (beqb c x3c) eqn:E3c.
  { apply beqb_eq in E3c; subst c. pose proof (Hhard _ Ec) as Hx. armLB last_pointy. }
  assert (forall b, sl_isalpha b = false -> nth_error inp (pos s1) = Some b -> text1 s1 b = Ok (Some s') -> J s') as Htext.
  { intros b Hb Eb Ht. unfold text1, append in Ht.
    destruct (mk (set_pos s1 (S (pos s1))) (Text [b]) (pos s1) (pos s1)) as [n| |]; cbn [bind] in Ht; try discriminate. inversion Ht; subst.
    apply J_LB. cbn [push_item fst pos set_sibs set_pos]. exact (LB_S _ _ _ Eb Hb). }
  destruct (beqb c x3a) eqn:Ecolon.
  { apply beqb_eq in Ecolon. subst c.
    match type of H with bind ?r _ = _ => destruct r as [[[s2 n]|]|?|] eqn:Er end; cbn [bind] in H; try discriminate.
    - inversion H; subst. destruct (io_autolink o); [|discriminate].
      apply J_nocolon. cbn [push_item fst pos set_sibs].
      eapply haw_after; [|exact Er]. intros. eapply url_match_after; eassumption.
    - eapply Htext; [|exact Ec|exact H]. reflexivity. }
  destruct (beqb c x77 && io_autolink o) eqn:Ew.
  { apply andb_true_iff in Ew. destruct Ew as [Ew _]. apply beqb_eq in Ew. subst c.
    match type of H with bind ?r _ = _ => destruct r as [[[s2 n]|]|?|] eqn:Er end; cbn [bind] in H; try discriminate.
    - inversion H; subst. apply J_nocolon. cbn [push_item fst pos set_sibs].
      eapply haw_after; [|exact Er]. intros. eapply www_match_after; eassumption.
    - unfold text1, append in H.
      destruct (mk _ _ _ _) as [n| |] eqn:Em; cbn [bind] in H; try discriminate. inversion H; subst. clear H.
      apply mk_ec in Em. destruct Em as [Et Hec]. cbn [coloff lineoff set_pos] in Hec.
      unfold J. cbn [push_item fst pos set_sibs set_pos sibs].
      destruct C1 as (_ & C2 & _).
      apply (J_text (sibs s1) (pos s1) (S (pos s1)) (nid s1) n [x77] []); try assumption; try lia.
      + replace (S (pos s1) - pos s1) with 1 by lia.
        destruct (skipn_nth inp (pos s1) x77 Ec) as [r Hr]. rewrite Hr. reflexivity.
      + reflexivity.
      + cbn [List.length]. lia. }
  match type of H with (if ?b then _ else _) = _ => destruct b eqn:Etest end.
  { destruct (handle_delim o u inp s1 c) as [[[s2 n] d]|?|] eqn:Ed; cbn [bind] in H; try discriminate.
    destruct (push_item s2 n) as [s3 i3] eqn:Ep. inversion H; subst s'. clear H.
    assert (sl_isalpha c = false) as Hna.
    { destruct (sl_isalpha c) eqn:Ea; [|reflexivity]. exfalso.
      destruct (alpha_tests c Ea) as (A1 & A2 & A3 & A4 & A5 & A6 & A7).
      rewrite A1, A2, A3, A4, A5, A6, A7 in Etest. discriminate Etest. }
    pose proof (last_delim o u inp s1 c s2 n d Ec Hna Ed) as L.
    unfold push_item in Ep. inversion Ep; subst s3.
    apply J_LB. destruct d; cbn [pos set_delims set_sibs]; exact L. }
  destruct (beqb c x2d) eqn:E2d; [apply beqb_eq in E2d; subst c; armLB last_hyphen|].
  destruct (beqb c x2e) eqn:E2e; [apply beqb_eq in E2e; subst c; armLB last_period|].
  destruct (beqb c x5b) eqn:E5b.
  { apply beqb_eq in E5b. subst c. cbv zeta in H.
    match type of H with bind ?r _ = _ => destruct r as [[[s2 n]|]|?|] eqn:Er end; cbn [bind] in H; try discriminate.
    - inversion H; subst. match type of Er with (if ?b then _ else _) = _ => destruct b end; [|discriminate].
      apply J_LB. cbn [push_item fst pos set_sibs]. eapply last_wikilink. exact Er.
    - match type of H with bind ?r _ = _ => destruct r as [n|?|] eqn:Em end; cbn [bind] in H; try discriminate.
      inversion H; subst s'. apply J_LB. cbn [push_item push_bracket fst pos set_sibs set_pos set_within set_brackets].
      unfold push_bracket. cbn [pos set_sibs set_pos set_within set_brackets].
      exact (LB_S _ _ _ Ec eq_refl). }
  destruct (beqb c x5d) eqn:E5d.
  { apply beqb_eq in E5d. subst c.
    destruct (handle_close_bracket _ _ _ _ _ _) as [[s2 n]|?|] eqn:Eh; cbn [bind] in H; try discriminate.
    apply last_close_bracket in Eh; [|exact Ec].
    inversion H; subst. apply J_LB. destruct n; cbn [push_item fst pos set_sibs]; exact Eh. }
  destruct (beqb c x21) eqn:E21.
  { apply beqb_eq in E21. subst c. cbv zeta in H.
    destruct (peek_eq inp (S (pos s1)) x5b && negb (peek_eq inp (S (S (pos s1))) x5e)) eqn:Eb.
    - apply andb_true_iff in Eb. destruct Eb as [Eb _].
      match type of H with bind ?r _ = _ => destruct r as [n|?|] eqn:Em end; cbn [bind] in H; try discriminate.
      inversion H; subst s'. apply J_LB. unfold push_bracket.
      cbn [push_item fst pos set_sibs set_pos set_within set_brackets].
      exact (peek_eq_LB _ _ _ Eb eq_refl).
    - unfold append in H.
      match type of H with bind ?r _ = _ => destruct r as [[s2 n]|?|] eqn:Em end; cbn [bind] in H; try discriminate.
      inversion H; subst s'.
      destruct (mk _ _ _ _) as [n'| |]; cbn [bind] in Em; try discriminate. inversion Em; subst.
      apply J_LB. cbn [push_item fst pos set_sibs set_pos]. exact (LB_S _ _ _ Ec eq_refl). }
  destruct (beqb c x24) eqn:E24; [apply beqb_eq in E24; subst c; armLB last_dollars|].
  (* the default text arm *)
  cbv zeta in H.
  set (endpos := N.to_nat (find_special_char (io_fn o) (within s1) inp (pos s1))) in *.
  destruct (slice inp _ (pos s1) endpos) as [contents|?|] eqn:Esl; cbn [bind] in H; try discriminate.
  apply slice_ok in Esl. destruct Esl as (Hle & Hl & Econt).
  destruct (peek_is inp endpos is_line_end_char) eqn:Ele.
  - enough (pos s' = endpos) as Hp.
    { apply J_nocolon. rewrite Hp. apply lineend_nocolon. exact Ele. }
    rewrite rtrim_ok in H. cbn [bind fst snd] in H.
    destruct (last_child_is_linebreak _); [rewrite ltrim_ok in H|]; cbn [bind fst snd] in H.
    all: match type of H with bind ?r _ = _ => destruct r as [e|?|] end; cbn [bind] in H; try discriminate.
    all: unfold append in H.
    all: match type of H with bind ?r _ = _ => destruct r as [[s2 n]|?|] eqn:Em end; cbn [bind] in H; try discriminate.
    all: destruct (mk _ _ _ _) as [n'| |]; cbn [bind] in Em; try discriminate; inversion Em; subst.
    all: inversion H; reflexivity.
  - cbn [bind] in H.
    assert (forall t pre e n, contents = pre ++ t -> forallb sl_isspace pre = true ->
              usub "inlines.rs:parse_inline:endpos-1" endpos 1 = Ok e ->
              mk (set_pos s1 endpos) (Text t) (pos s1 + List.length pre) e = Ok n ->
              J (fst (push_item (set_pos s1 endpos) n))) as Hgen.
    { intros t pre e n Ect Hpre Ee Em.
      apply usub_ok in Ee. destruct Ee as [Hge Ee].
      apply mk_ec in Em. destruct Em as [Et Hec]. cbn [coloff lineoff set_pos] in Hec.
      unfold J. cbn [push_item fst pos set_sibs set_pos sibs].
      destruct C1 as (_ & C2 & _).
      assert (List.length contents = endpos - pos s1) as Hlc.
      { rewrite Econt, firstn_length, skipn_length. lia. }
      assert (List.length t <= endpos - pos s1) as Hlt2.
      { rewrite <- Hlc, Ect, app_length. lia. }
      apply (J_text (sibs s1) (pos s1) endpos (nid s1) n t pre); try assumption.
      + rewrite <- Econt. exact Ect.
      + lia. }
    destruct (last_child_is_linebreak (set_pos s1 endpos)) eqn:Elb.
    + rewrite ltrim_ok in H. cbn [bind fst snd] in H.
      destruct (ltrim_slice_spec contents) as (pre & Epre & Hpre & _).
      match type of H with bind ?r _ = _ => destruct r as [e|?|] eqn:Ee end; cbn [bind] in H; try discriminate.
      unfold append in H.
      match type of H with bind ?r _ = _ => destruct r as [[s2 n]|?|] eqn:Em end; cbn [bind] in H; try discriminate.
      destruct (mk _ _ _ _) as [n'| |] eqn:Em2; cbn [bind] in Em; try discriminate. inversion Em; subst s2 n'.
      inversion H; subst s'.
      apply (Hgen (ltrim_slice contents) pre e n Epre Hpre eq_refl).
      assert (count_while sl_isspace contents = List.length pre) as Hcnt.
      { clear - Epre Hpre. pose proof (ltrim_ok contents) as K. unfold ltrim_slice in *.
        assert (List.length contents = List.length pre + List.length (drop_while sl_isspace contents)) as Hlen
          by (rewrite Epre at 1; rewrite app_length; reflexivity).
        pose proof (take_drop sl_isspace contents) as TD.
        assert (List.length (take_while sl_isspace contents) = count_while sl_isspace contents) as Htl.
        { clear. induction contents as [|x l IH]; cbn; [reflexivity|]. destruct (sl_isspace x); cbn; [rewrite IH; reflexivity|reflexivity]. }
        assert (List.length (take_while sl_isspace contents) + List.length (drop_while sl_isspace contents) = List.length contents) as Hl2
          by (rewrite <- app_length, TD; reflexivity).
        lia. }
      rewrite <- Hcnt. exact Em2.
    + cbn [bind] in H.
      match type of H with bind ?r _ = _ => destruct r as [e|?|] eqn:Ee end; cbn [bind] in H; try discriminate.
      unfold append in H.
      match type of H with bind ?r _ = _ => destruct r as [[s2 n]|?|] eqn:Em end; cbn [bind] in H; try discriminate.
      destruct (mk _ _ _ _) as [n'| |] eqn:Em2; cbn [bind] in Em; try discriminate. inversion Em; subst s2 n'.
      inversion H; subst s'.
      apply (Hgen contents [] e n eq_refl eq_refl eq_refl). cbn [List.length]. rewrite Nat.add_0_r. exact Em2.
Qed.

(* ------------------------------------------------------------------ totality *)
Theorem inlines_total_hardok rs0 :
  line_endings inp < List.length lo -> (rs0 <= maxref)%N ->
  exists ch rs, parse_inlines memo o u inp lo start_line refmap maxref rs0 = Ok (ch, rs).
Proof.
  intros Hlo Hr.
  apply (InlinesTotal4Walk.inlines_total_section memo o u inp lo start_line refmap maxref Hrt Hflb J).
  - intros s _ _ Js. apply J_THc. exact Js.
  - intros s s' TI _ Js E. eapply step4_J; eassumption.
  - exact Hlo.
  - exact Hr.
  - apply J_init.
Qed.

End Inv.
