(* Proofs/BlocksTotal6ValWalk.v — totality of the block phase, sixth round, walk 2: the sites excluded by the
   stored-value invariant of Proofs/BlocksTotal6Val.v (QI: every HtmlBlock has block type 1..7, every Paragraph has a
   NUL-free content and at least as many line_offsets as its content has LF bytes), and one local site.

   al6 = but val_sites.  As in Proofs/BlocksTotal6Pos.v the invariant comes from the Ok-path lemmas (`sat`).
     mod.rs:parse_html_block_prefix:unreachable!()      block type 1..7
     inlines.rs:peek_char_n (the assert c > 0)           the reference-definition parser runs on the content of a Paragraph
     table.rs:try_inserting_..:container_ast.line_offsets[n]   newlines of the preface <= LF bytes of the content
     strings.rs:chop_trailing_hashtags:line[n]           LOCAL: n = |line| - 1 - hashes with hashes < |line| *)
From Coq Require Import List NArith Arith Bool Lia Strings.String.
From V Require Import Base.Bytes Base.Res Gen.Nodes Gen.BlocksConst Gen.FeedConst Model.Ast Model.Strings Model.Entity Model.LinkUrl Model.ListMarker
  Model.AutolinkLeaf Model.Feed Model.FrontMatter Model.RefDef Model.Scan Model.Blocks Spec.EscapeSpec
  Proofs.StrLeafProofs Proofs.StrLeafEntity Proofs.StrLeafParse Proofs.FeedProofs Proofs.BlocksProofs Proofs.BlocksCursor Proofs.BlocksTotal
  Proofs.BlocksTotal2Safe Proofs.BlocksTotal3Cur Proofs.BlocksTotal4Safe Proofs.BlocksTotal4Frame Proofs.BlocksPos Proofs.BlocksTotal6Val.
From V Require Proofs.BlocksTotal4Row Proofs.BlocksTotal4Scan Proofs.BlocksTotal4Fuel.
Import ListNotations.
Local Open Scope string_scope.
Local Open Scope list_scope.

Definition val_sites : list string :=
  [ "mod.rs:parse_html_block_prefix:unreachable!()";
    "inlines.rs:peek_char_n:assert!(*c > 0)";
    "table.rs:try_inserting_table_header_paragraph:container_ast.line_offsets[n]";
    "strings.rs:chop_trailing_hashtags:line[n]" ].

Definition al6 : string -> bool := but val_sites.
Notation ng6 := (ng al6 true).

Ltac allowed := vm_compute; reflexivity.

Create HintDb ng6.

Ltac ngstep :=
  match goal with
  | |- ng _ _ (bind ?r _) => apply ng_bind; [ try solve [auto with ng6] | intros ]
  | |- ng _ _ (Ok _) => exact I
  | |- ng _ _ OutOfFuel => reflexivity
  | |- ng _ _ (Panic _) => first [assumption | allowed]
  | |- ng _ _ no_node => allowed
  | |- ng _ _ (not_handled _ _) => exact I
  | |- ng _ _ (res_map _ _) => apply ng_res_map
  | |- ng _ _ (if ?b then _ else _) => destruct b
  | |- ng _ _ (match ?x with _ => _ end) => destruct x
  | |- ng _ _ (let (_, _) := ?x in _) => destruct x
  end.
Ltac nggo := repeat ngstep; auto with ng6.

Lemma ng6_idx site l i : al6 site = true -> ng6 (idx site l i).
Proof. intro H. apply ng_idx. now right. Qed.
Lemma ng6_sub site a b : al6 site = true -> ng6 (sub site a b).
Proof. intro H. apply ng_sub. now right. Qed.
Lemma ng6_slice_from site l i : al6 site = true -> ng6 (Blocks.slice_from site l i).
Proof. intro H. apply ng_slice_from. now right. Qed.
Lemma ng6_from_utf8 site b : al6 site = true -> ng6 (from_utf8 site b).
Proof. intro H. apply ng_from_utf8. now right. Qed.
#[export] Hint Extern 1 (ng _ _ (idx _ _ _)) => (apply ng6_idx; first [assumption | allowed]) : ng6.
#[export] Hint Extern 1 (ng _ _ (sub _ _ _)) => (apply ng6_sub; first [assumption | allowed]) : ng6.
#[export] Hint Extern 1 (ng _ _ (Blocks.slice_from _ _ _)) => (apply ng6_slice_from; first [assumption | allowed]) : ng6.
#[export] Hint Extern 1 (ng _ _ (from_utf8 _ _)) => (apply ng6_from_utf8; first [assumption | allowed]) : ng6.

(* ---- leaf functions: total for all arguments *)
Lemma ng6_trim s : ng6 (Strings.trim s). Proof. rewrite trim_ok. exact I. Qed.
Lemma ng6_rtrim s : ng6 (Strings.rtrim s). Proof. rewrite rtrim_ok. exact I. Qed.
Lemma ng6_unescape s : ng6 (Strings.unescape s). Proof. rewrite unescape_is_spec. exact I. Qed.
Lemma ng6_unescape_html s : ng6 (unescape_html s). Proof. apply ng_ex. apply unescape_html_total. Qed.
Lemma ng6_manual_scan_link_url s : ng6 (manual_scan_link_url s).
Proof. apply ng_ex. destruct (manual_scan_link_url_total s) as [r [E _]]. exists r. exact E. Qed.
Lemma ng6_row s sp : ng6 (row s sp). Proof. apply ng_ex. apply BlocksTotal4Row.row_total. Qed.
Lemma ng6_table_matches s sp : ng6 (table_matches s sp). Proof. apply ng_ex. apply BlocksTotal4Row.table_matches_total. Qed.
#[export] Hint Resolve ng6_trim ng6_rtrim ng6_unescape ng6_unescape_html ng6_manual_scan_link_url ng6_row ng6_table_matches : ng6.

(* ---- leaf functions with sites of their own *)
Lemma ng6_remove_trailing_blank_lines s : ng6 (remove_trailing_blank_lines s).
Proof. unfold remove_trailing_blank_lines. nggo. Qed.
Lemma ng6_chop_trailing_hashtags s : ng6 (chop_trailing_hashtags s).
Proof.
  unfold chop_trailing_hashtags. rewrite rtrim_ok. cbn [bind fst]. cbv zeta.
  destruct (rtrim_slice s) as [|x r] eqn:R; [allowed|]. rewrite <- R. clear R.
  destruct (Nat.leb _ _) eqn:Lb; [exact I|]. apply Nat.leb_gt in Lb.
  destruct (nth_error _ _) eqn:N; [|exfalso; apply nth_error_None in N; lia].
  destruct (_ && _); [rewrite rtrim_ok; exact I | exact I].
Qed.
Lemma ng6_clean_url s : ng6 (clean_url s). Proof. unfold clean_url. nggo. Qed.
(* clean_title panics on a title of length 1 only (Props/StrLeaf.v); its one caller hands it a scan_link_title match *)
Lemma ng6_clean_title s : List.length s <> 1 -> ng6 (clean_title s).
Proof. intro H. apply ng_ex. now apply clean_title_total. Qed.
#[export] Hint Resolve ng6_remove_trailing_blank_lines ng6_chop_trailing_hashtags ng6_clean_url : ng6.
Lemma scan_link_title_ge s m : scan_link_title s = Some m -> 2 <= m.
Proof. BlocksTotal4Scan.scan_ge. Qed.
Lemma scan_link_title_le s m : scan_link_title s = Some m -> m <= List.length s.
Proof. intro H. eapply as_opt_usize_cursor_le; [|exact H]. vm_compute. reflexivity. Qed.
(* line_at: bytes[end..] is inside the string as long as the start is; split_off_front_matter starts at 0 and goes on
   from the `next` of the line before *)
Lemma sg6_fm_line_at s k : k <= List.length s -> sg al6 true (fun r => snd r <= List.length s) (fm_line_at s k).
Proof.
  intro H. unfold fm_line_at. pose proof (BlocksTotal4Fuel.scan_line_end_bounds (skipn k s) k) as B. rewrite skipn_length in B.
  set (e := scan_line_end (skipn k s) k) in *. unfold byte_slice_from.
  destruct (Nat.leb e (List.length s)) eqn:L; [|apply Nat.leb_gt in L; lia]. apply Nat.leb_le in L. cbn [bind].
  unfold fm_slice. destruct (_ && _ && _); [cbn [bind sg snd] | allowed].
  destruct (starts_with (skipn e s) fm_crlf) eqn:Sw.
  - apply starts_with_app in Sw. destruct Sw as [r Er]. apply (f_equal (@List.length byte)) in Er.
    rewrite skipn_length, app_length in Er. change (List.length fm_crlf) with 2 in Er. lia.
  - destruct (Nat.ltb e (List.length s)) eqn:Lt; [apply Nat.ltb_lt in Lt; lia | lia].
Qed.
Lemma sg6_find_closing_line : forall fuel s d e, e <= List.length s ->
  sg al6 true (fun c => match c with Some e' => e' <= List.length s | None => True end) (find_closing_line fuel s d e).
Proof.
  induction fuel as [|f IH]; intros s d e H; cbn [find_closing_line]; [reflexivity|].
  destruct (Nat.eqb e (List.length s)); [exact I|].
  eapply sg_bind; [now apply sg6_fm_line_at|]. intros ln _ Hn.
  destruct (bytes_eqb (fst ln) d); [exact Hn | now apply IH].
Qed.
Lemma ng6_split_off_front_matter s d : ng6 (split_off_front_matter s d).
Proof.
  unfold split_off_front_matter, slice_to, FrontMatter.slice_from.
  eapply sg_bind; [apply sg6_fm_line_at; lia|]. intros l0 _ H0.
  destruct (_ || _); [exact I|].
  eapply sg_bind; [now apply sg6_find_closing_line|]. intros [e|] _ He; [|exact I].
  eapply sg_bind; [now apply sg6_fm_line_at|]. intros l1 _ _. cbv zeta. match goal with |- sg ?a ?f _ ?r => change (ng a f r) end. nggo.
Qed.
#[export] Hint Resolve ng6_split_off_front_matter : ng6.
Lemma ng6_peek s p : nonul s -> ng6 (peek s p).
Proof.
  intro N. unfold peek. destruct (nth_error s p) as [c|] eqn:E; [|exact I]. apply nth_error_In in E.
  destruct (beqb c x00) eqn:B; [apply beqb_eq in B; subst; now apply N in E | exact I].
Qed.
#[export] Hint Resolve nonul_skipn : ng6.
#[export] Hint Resolve ng6_peek : ng6.
Lemma ng6_skip_spaces : forall s, nonul s -> ng6 (skip_spaces s).
Proof.
  induction s as [|c r IH]; intro N; cbn [skip_spaces]; [exact I|].
  destruct (beqb c x00) eqn:B; [apply beqb_eq in B; subst; exfalso; apply (N x00); [now left | reflexivity]|].
  destruct (_ || _); [|exact I]. apply ng_bind; [|intros; exact I]. apply IH. intros b Hb. apply N. now right.
Qed.
#[export] Hint Resolve ng6_skip_spaces : ng6.
Lemma ng6_skip_line_end s p : nonul s -> ng6 (skip_line_end s p). Proof. intro N. unfold skip_line_end. nggo. Qed.
#[export] Hint Resolve ng6_skip_line_end : ng6.
Lemma ng6_spnl s p : nonul s -> ng6 (spnl s p). Proof. intro N. unfold spnl. nggo. Qed.
#[export] Hint Resolve ng6_spnl : ng6.
Lemma ng6_label_loop : forall fuel s pos len c, nonul s -> ng6 (label_loop fuel s pos len c).
Proof. induction fuel as [|f IH]; intros s pos len c N; cbn [label_loop]; nggo. Qed.
#[export] Hint Resolve ng6_label_loop : ng6.
Lemma ng6_link_label s : nonul s -> ng6 (link_label s). Proof. intro N. unfold link_label. nggo. Qed.
#[export] Hint Resolve ng6_link_label : ng6.
Lemma ng6_parse_reference_inline fold m s : nonul s -> ng6 (parse_reference_inline fold m s).
Proof.
  intro N. unfold parse_reference_inline.
  apply ng_bind; [auto with ng6|]. intros [[lab pos]|] _; [|exact I]. destruct lab as [|l0 lab]; [exact I|].
  apply ng_bind; [auto with ng6|]. intros [c|] _; [|exact I]. destruct (negb (beqb c x3a)); [exact I|]. cbv zeta.
  apply ng_bind; [auto with ng6|]. intros pos1 _.
  apply ng_bind; [auto with ng6|]. intros [[url matchlen]|] _; [|exact I].
  apply ng_bind; [auto with ng6|]. intros pos2 _.
  match goal with |- ng _ _ (let '(title, pos) := ?tp in _) =>
    assert (HT : List.length (fst tp) <> 1); [|destruct tp as [title pos3]; cbn [fst] in HT] end.
  { destruct (Nat.eqb pos2 (pos1 + matchlen)); [cbn; lia|].
    destruct (scan_link_title (skipn pos2 s)) as [ml|] eqn:Sc; [|cbn; lia].
    pose proof (scan_link_title_ge _ _ Sc). pose proof (scan_link_title_le _ _ Sc). cbn [fst]. rewrite firstn_length. lia. }
  apply ng_bind; [auto with ng6|]. intros n _.
  apply ng_bind; [auto with ng6|]. intros [p1 ok] _.
  eapply sg_bind with (P := fun fin : option (nat * bytes) => match fin with Some (_, t) => List.length t <> 1 | None => True end).
  { destruct ok; [exact HT|]. destruct title; [exact I|].
    apply sgb; [auto with ng6|]. intros n2 _. apply sgb; [auto with ng6|]. intros [p2 ok2] _.
    destruct ok2; cbn [sg List.length]; [lia | exact I]. }
  intros [[posf t]|] _ Hf; [|exact I].
  destruct (normalize_label fold (l0 :: lab) true); [exact I|].
  apply ng_bind; [auto with ng6|]. intros cu _.
  apply ng_bind; [now apply ng6_clean_title|]. intros ct _. nggo.
Qed.
#[export] Hint Resolve ng6_parse_reference_inline : ng6.
Lemma ng6_resolve_loop fold : forall fuel m seek seeked, nonul seek -> ng6 (resolve_loop fuel fold m seek seeked).
Proof. induction fuel as [|f IH]; intros m seek seeked N; cbn [resolve_loop]; nggo. Qed.
#[export] Hint Resolve ng6_resolve_loop : ng6.
Lemma ng6_resolve_refdefs fold m c : nonul c -> ng6 (resolve_refdefs fold m c).
Proof. intro N. unfold resolve_refdefs. nggo. Qed.
#[export] Hint Resolve ng6_resolve_refdefs : ng6.
Lemma ng6_copy_line_offsets : forall n lo k, k + n <= List.length lo -> ng6 (copy_line_offsets n lo k).
Proof.
  induction n as [|m IH]; intros lo k H; cbn [copy_line_offsets]; [exact I|].
  destruct (nth_error lo k) eqn:E; [|apply nth_error_None in E; lia].
  apply ng_bind; [apply IH; lia | intros; exact I].
Qed.
Lemma ng6_header_cells : forall cells id ln sl sc po, ng6 (header_cells cells id ln sl sc po).
Proof. induction cells as [|c r IH]; intros; cbn [header_cells]; nggo. Qed.
Lemma ng6_row_cells : forall n cells id ln sc lc, ng6 (row_cells n cells id ln sc lc).
Proof. induction n as [|m IH]; intros cells id ln sc lc; destruct cells; cbn [row_cells]; nggo. Qed.
#[export] Hint Resolve ng6_copy_line_offsets ng6_header_cells ng6_row_cells : ng6.
Lemma ng6_parse_html_block_prefix st t : (N.leb 1 t && N.leb t 7)%bool = true -> ng6 (parse_html_block_prefix st t).
Proof.
  intro H. unfold parse_html_block_prefix. apply andb_true_iff in H. destruct H as [H1 H2]. apply N.leb_le in H1, H2.
  destruct (N.leb 1 t && N.leb t 5)%bool eqn:A; [exact I|]. destruct (N.eqb t 6 || N.eqb t 7)%bool eqn:B; [exact I|]. exfalso.
  apply orb_false_iff in B. destruct B as [B1 B2]. apply N.eqb_neq in B1, B2.
  apply andb_false_iff in A. destruct A as [A|A]; apply N.leb_gt in A; lia.
Qed.
#[export] Hint Resolve ng6_parse_html_block_prefix : ng6.
Lemma ng6_after_spaces : forall s, ng6 (after_spaces s).
Proof. induction s as [|b r IH]; cbn [after_spaces]; nggo. Qed.
Lemma ng6_digits_loop : forall left s start digits, ng6 (digits_loop left s start digits).
Proof.
  induction left as [|l IH]; intros s start digits; destruct s as [|d r]; cbn [digits_loop]; try allowed.
  - destruct (N.ltb _ _); [allowed | exact I].
  - destruct (N.ltb _ _); [allowed|]. destruct l; [exact I|]. destruct r as [|e r']; [allowed|].
    destruct (StrLeafGen.sl_isdigit e); [apply IH | exact I].
Qed.
#[export] Hint Resolve ng6_after_spaces ng6_digits_loop : ng6.
Lemma ng6_parse_list_marker line pos ip : ng6 (parse_list_marker line pos ip).
Proof. unfold parse_list_marker. nggo. Qed.
#[export] Hint Resolve ng6_parse_list_marker : ng6.
Lemma ng6_alert_title_loop line : forall fuel pos fl, ng6 (alert_title_loop fuel line pos fl).
Proof. induction fuel as [|f IH]; intros pos fl; cbn [alert_title_loop]; nggo. Qed.
Lemma ng6_count_hashes : forall s, ng6 (count_hashes s).
Proof. induction s as [|b r IH]; cbn [count_hashes]; nggo. Qed.
#[export] Hint Resolve ng6_alert_title_loop ng6_count_hashes : ng6.

(* ---- the cursor *)
Lemma ng6_find_first_nonspace c line : ng6 (find_first_nonspace c line).
Proof. unfold find_first_nonspace. destruct (if Nat.leb _ _ then _ else _) as [f fc]. nggo. Qed.
Lemma ng6_advance_loop line columns : forall fuel off col pct count, ng6 (advance_loop fuel line off col pct count columns).
Proof. induction fuel as [|f IH]; intros off col pct count; destruct count; cbn [advance_loop]; nggo. Qed.
#[export] Hint Resolve ng6_find_first_nonspace ng6_advance_loop : ng6.
Lemma ng6_advance_offset c line count columns : ng6 (advance_offset c line count columns).
Proof. unfold advance_offset. nggo. Qed.
#[export] Hint Resolve ng6_advance_offset : ng6.
Lemma ng6_adv st line n b : ng6 (adv st line n b). Proof. unfold adv. nggo. Qed.
Lemma ng6_ffn st line : ng6 (ffn st line). Proof. unfold ffn. nggo. Qed.
#[export] Hint Resolve ng6_adv ng6_ffn : ng6.
Lemma ng6_skip_one_space st line site : al6 site = true -> ng6 (skip_one_space st line site).
Proof. intro H. unfold skip_one_space. nggo. Qed.
Lemma ng6_skip_fence_offset line site : al6 site = true -> forall i st, ng6 (skip_fence_offset i st line site).
Proof. intro H. induction i as [|j IH]; intro st; cbn [skip_fence_offset]; nggo. Qed.
Lemma ng6_list_spaces_loop line sc : forall fuel st, ng6 (list_spaces_loop fuel st line sc).
Proof. induction fuel as [|f IH]; intro st; cbn [list_spaces_loop]; nggo. Qed.
#[export] Hint Resolve ng6_list_spaces_loop : ng6.
#[export] Hint Extern 1 (ng _ _ (skip_one_space _ _ _)) => (apply ng6_skip_one_space; first [assumption | allowed]) : ng6.
#[export] Hint Extern 1 (ng _ _ (skip_fence_offset _ _ _ _)) => (apply ng6_skip_fence_offset; first [assumption | allowed]) : ng6.

(* ---- tree primitives *)
Lemma ng6_get st x : ng6 (get st x).
Proof. unfold get. destruct (find_node x (ps_root st)); [exact I | allowed]. Qed.
Lemma ng6_modify st x f : ng6 (modify st x f).
Proof. unfold modify. destruct (upd x f (ps_root st)); [exact I | allowed]. Qed.
Lemma ng6_modify_info st x f : ng6 (modify_info st x f).
Proof. apply ng6_modify. Qed.
Lemma ng6_bdetach st x : ng6 (bdetach st x).
Proof. unfold bdetach. destruct (edit_kids _ _ _); exact I. Qed.
Lemma ng6_retighten st p : ng6 (retighten st p).
Proof. apply ng_ex. apply retighten_total. Qed.
#[export] Hint Resolve ng6_get ng6_modify ng6_modify_info ng6_bdetach ng6_retighten : ng6.
Lemma ng6_append_child st p c : ng6 (append_child st p c).
Proof. apply ng6_modify. Qed.
Lemma ng6_last_child st x : ng6 (last_child st x). Proof. unfold last_child. nggo. Qed.
#[export] Hint Resolve ng6_append_child ng6_last_child : ng6.
Lemma ng6_last_child_is_open st x : ng6 (last_child_is_open st x).
Proof. unfold last_child_is_open. nggo. Qed.
#[export] Hint Resolve ng6_last_child_is_open : ng6.

Lemma ng6_clear_llb_up : forall fuel st id, ng6 (clear_llb_up fuel st id).
Proof. induction fuel as [|f IH]; intros st id; cbn [clear_llb_up]; nggo. Qed.
Lemma ng6_reopen : forall fuel st id, ng6 (reopen_ast_nodes fuel st id).
Proof. induction fuel as [|f IH]; intros st id; cbn [reopen_ast_nodes]; nggo. Qed.
#[export] Hint Resolve ng6_clear_llb_up ng6_reopen : ng6.
Lemma ng6_add_line st id line : ng6 (add_line st id line).
Proof. unfold add_line. nggo. Qed.
#[export] Hint Resolve ng6_add_line : ng6.
Lemma ng6_is_not_greentext o st line : ng6 (is_not_greentext o st line).
Proof. unfold is_not_greentext. nggo. Qed.
#[export] Hint Resolve ng6_is_not_greentext : ng6.
Lemma ng6_pbq o st line : ng6 (parse_block_quote_prefix o st line).
Proof. unfold parse_block_quote_prefix. nggo. Qed.
Lemma ng6_pfn st line : ng6 (parse_footnote_definition_block_prefix st line).
Proof. unfold parse_footnote_definition_block_prefix. nggo. Qed.
Lemma ng6_pip st line c mo pad : ng6 (parse_item_prefix st line c mo pad).
Proof. unfold parse_item_prefix. nggo. Qed.
#[export] Hint Resolve ng6_pbq ng6_pfn ng6_pip : ng6.

Lemma ng6_finalize o st id : QI st -> ng6 (finalize o st id).
Proof.
  intro P. unfold finalize.
  apply ng_bind; [auto with ng6|]. intros n G. pose proof (get_qn _ _ _ P G) as [_ Qa].
  destruct (negb _); [allowed|].
  apply ng_bind; [nggo|]. intros ends _. cbv zeta.
  destruct (bi_val (binf n)) eqn:Ev; try solve [nggo].
  apply ng_bind; [apply ng6_resolve_refdefs; apply (Qa eq_refl)|]. intros r _. nggo.
Qed.
#[export] Hint Resolve ng6_finalize : ng6.

Section Line.
Variables (o : bopts) (line : bytes).
Hypothesis HLine : LOK line.

Ltac sat :=
  monall; repeat match goal with p : (_ * _)%type |- _ => destruct p end; cbn [fst snd] in *;
  repeat match goal with
         | A : add_child_gen _ ?s _ _ _ (fun i => i) [?k] = Ok (_, ?s'), Alc : all_info _ ?k, Ps : QI ?s |- _ =>
           lazymatch goal with
           | H : QI s' |- _ => fail
           | _ => assert (QI s') by (eapply add_child_gen_qi; [exact A | auto | reflexivity | constructor; [exact Alc | constructor] | exact Ps])
           end
         | s : pstate |- _ =>
           lazymatch goal with
           | H : QI s |- _ => fail
           | _ => assert (QI s) by (eauto 8 with qi)
           end
         end.

Ltac pstep :=
  match goal with
  | |- ng _ _ (bind ?r _) => apply ng_bind; [ try solve [auto with ng6] | intros; sat ]
  | |- ng _ _ (Ok _) => exact I
  | |- ng _ _ OutOfFuel => reflexivity
  | |- ng _ _ (Panic _) => first [assumption | allowed]
  | |- ng _ _ no_node => allowed
  | |- ng _ _ (not_handled _ _) => exact I
  | |- ng _ _ (res_map _ _) => apply ng_res_map
  | |- ng _ _ (if ?b then _ else _) => destruct b
  | |- ng _ _ (match ?x with _ => _ end) => destruct x
  | |- ng _ _ (let (_, _) := ?x in _) => destruct x
  end.
Ltac pgo := repeat pstep; auto with ng6.

Hint Resolve clear_llb_up_qi add_line_qi add_child_loop_qi list_spaces_loop_qi finalize_up_to_qi : qi.
Hint Resolve QI_st_next QI_st_current QI_st_refmap QI_st_cur QI_st_curline QI_st_last_line_length QI_st_line_number : ng6.

Lemma ng6_unwrap_parent site st id : al6 site = true -> QI st -> ng6 (unwrap_parent site (finalize o st id)).
Proof. intros H P. unfold unwrap_parent. pgo. Qed.
Hint Extern 1 (ng _ _ (unwrap_parent _ _)) => (apply ng6_unwrap_parent; [first [assumption | allowed] | assumption]) : ng6.
Lemma ng6_add_child_loop k : forall fuel st parent, QI st -> ng6 (add_child_loop fuel o st parent k).
Proof. induction fuel as [|f IH]; intros st parent P; cbn [add_child_loop]; pgo. Qed.
Hint Resolve ng6_add_child_loop : ng6.
Lemma ng6_add_child_gen st parent v col post kids : QI st -> ng6 (add_child_gen o st parent v col post kids).
Proof. intro P. unfold add_child_gen. apply ng_bind; [auto with ng6|]. intros [p1 s1] _. nggo. Qed.
Lemma ng6_add_child st parent v col : QI st -> ng6 (add_child o st parent v col).
Proof. apply ng6_add_child_gen. Qed.
Hint Resolve ng6_add_child_gen ng6_add_child : ng6.
Lemma ng6_finalize_up_to target site : al6 site = true -> forall fuel st, QI st -> ng6 (finalize_up_to fuel o st target site).
Proof. intro H. induction fuel as [|f IH]; intros st P; cbn [finalize_up_to]; pgo. Qed.
Hint Extern 1 (ng _ _ (finalize_up_to _ _ _ _ _)) => (apply ng6_finalize_up_to; [first [assumption | allowed] | assumption]) : ng6.

Lemma ng6_parse_desc_list_details st c m : QI st -> ng6 (parse_desc_list_details o st c m).
Proof.
  intro P. unfold parse_desc_list_details. cbv zeta.
  apply ng_bind; [auto with ng6|]. intros cn G.
  apply ng_bind; [nggo|]. intros r R. destruct r as [[[tight c1] lc]|]; [|exact I].
  assert (Alc : all_info Qn lc).
  { monall;
    match goal with Hl : last_opt (bkids ?n) = Some lc, Hg : get st _ = Ok ?n |- _ =>
      exact (last_kid_all _ _ _ (get_allq _ _ _ P Hg) Hl) end. }
  clear R. destruct (bval lc) eqn:Bl; try exact I; pgo.
Qed.
Hint Resolve ng6_parse_desc_list_details : ng6.

Lemma ng6_pcbp st cid cb : QI st -> ng6 (parse_code_block_prefix o st line cid cb).
Proof. intro P. unfold parse_code_block_prefix. pgo. Qed.
Lemma ng6_pmbq st cid fl fo : QI st -> ng6 (parse_multiline_block_quote_prefix o st line cid fl fo).
Proof. intro P. unfold parse_multiline_block_quote_prefix. pgo. Qed.
Hint Resolve ng6_pcbp ng6_pmbq : ng6.
Lemma ng6_check_container st c : QI st -> Qn (binf c) -> ng6 (check_container o st line c).
Proof.
  intros P [Qh _]. unfold check_container. unfold bval in *. destruct (bi_val (binf c)) eqn:Bv; pgo.
Qed.
Lemma ng6_cobi : forall fuel st c, QI st -> ng6 (check_open_blocks_inner fuel o st line c).
Proof.
  induction fuel as [|f IH]; intros st c P; cbn [check_open_blocks_inner]; [reflexivity|].
  apply ng_bind; [auto with ng6|]. intros [cid|] _; [|exact I].
  apply ng_bind; [auto with ng6|]. intros st1 E1. assert (P1 : QI st1) by eauto with qi.
  apply ng_bind; [auto with ng6|]. intros cn G.
  apply ng_bind; [apply ng6_check_container; [exact P1 | exact (get_qn _ _ _ P1 G)]|]. intros [[m sc] st2] E2.
  destruct m; [|exact I]. apply IH. eapply check_container_qi; eassumption.
Qed.
Hint Resolve ng6_cobi : ng6.
Lemma ng6_check_open_blocks st : QI st -> ng6 (check_open_blocks o st line).
Proof. intro P. unfold check_open_blocks. pgo. Qed.

(* ---- tables *)
Lemma ng6_try_inserting st c po : QI st -> (forall cn, get st c = Ok cn -> is_paragraph cn = true) ->
  ng6 (try_inserting_table_header_paragraph st c po).
Proof.
  intros P Hc. unfold try_inserting_table_header_paragraph.
  apply ng_bind; [auto with ng6|]. intros cn G. pose proof (get_qn _ _ _ P G) as [_ Qc].
  pose proof (is_paragraph_val _ (Hc _ G)) as Bv. unfold bval in Bv. destruct (Qc Bv) as [_ Q2].
  destruct (Nat.ltb _ _); [allowed|]. cbv zeta.
  apply ng_bind; [auto with ng6|]. intros pc _.
  destruct (parent_of c (ps_root st)); [|exact I].
  apply ng_bind; [auto with ng6|]. intros pn _. destruct (negb _); [exact I|].
  apply ng_bind; [auto with ng6|]. intros el _.
  apply ng_bind; [|intros; nggo].
  apply ng6_copy_line_offsets. cbn [Nat.add].
  eapply Nat.le_trans; [apply cnl_unescape_pipes|]. eapply Nat.le_trans; [apply cnl_firstn | exact Q2].
Qed.

Lemma ng6_try_opening_header st c : QI st -> (forall cn, get st c = Ok cn -> is_paragraph cn = true) -> ng6 (try_opening_header o st c line).
Proof.
  intros P Hc. unfold try_opening_header.
  apply ng_bind; [auto with ng6|]. intros cn G. destruct (bi_tv (binf cn)); [exact I|].
  apply ng_bind; [auto with ng6|]. intros rest _. destruct (scan_table_start rest); [|exact I].
  apply ng_bind; [auto with ng6|]. intros [[dpo dcells]|] _; [|exact I].
  apply ng_bind; [auto with ng6|]. intros [[po hcells]|] _; [|exact I].
  destruct (negb _); [exact I|].
  apply ng_bind; [destruct (Nat.ltb 0 po); [now apply ng6_try_inserting | exact I]|].
  intros st1 _. nggo.
Qed.

Lemma ng6_try_opening_row st c t : ng6 (try_opening_row o st c t line).
Proof. unfold try_opening_row. nggo. Qed.

Lemma ng6_try_opening_block st c : QI st -> ng6 (try_opening_block o st c line).
Proof.
  intro P. unfold try_opening_block. apply ng_bind; [auto with ng6|]. intros cn G.
  destruct (bval cn) eqn:Bv; try exact I.
  - apply ng6_try_opening_header; [exact P|].
    intros cn' G'. rewrite G in G'. inversion G'; subst. unfold is_paragraph. now rewrite Bv.
  - apply ng6_try_opening_row.
Qed.

(* ---- the handlers *)
Lemma ng6_handle_alert st c ind : QI st -> ng6 (handle_alert o st c line ind).
Proof. intro P. unfold handle_alert. pgo. Qed.
Lemma ng6_handle_mbq st c ind : QI st -> ng6 (handle_multiline_blockquote o st c line ind).
Proof. intro P. unfold handle_multiline_blockquote, rest_at_fns. pgo. Qed.
Lemma ng6_handle_blockquote st c ind : QI st -> ng6 (handle_blockquote o st c line ind).
Proof. intro P. unfold handle_blockquote. pgo. Qed.
Lemma ng6_handle_atx st c ind : QI st -> ng6 (handle_atx_heading o st c line ind).
Proof. intro P. unfold handle_atx_heading, rest_at_fns. pgo. Qed.
Lemma ng6_handle_code_fence st c ind : QI st -> ng6 (handle_code_fence o st c line ind).
Proof. intro P. unfold handle_code_fence, rest_at_fns. pgo. Qed.
Lemma ng6_handle_html_block st c ind : QI st -> ng6 (handle_html_block o st c line ind).
Proof. intro P. unfold handle_html_block, rest_at_fns. pgo. Qed.
Lemma ng6_handle_setext st c ind : QI st -> ng6 (handle_setext_heading o st c line ind).
Proof.
  intro P. unfold handle_setext_heading, rest_at_fns. destruct ind; [exact I|].
  apply ng_bind; [auto with ng6|]. intros cn G. destruct (is_paragraph cn) eqn:Pa; cbn [negb]; [|exact I].
  pose proof (get_qn _ _ _ P G) as [_ Qc]. apply is_paragraph_val in Pa. unfold bval in Pa. destruct (Qc Pa) as [Q1 _].
  apply ng_bind; [auto with ng6|]. intros rest _. destruct (if bo_ignore_setext o then None else _); [|exact I].
  apply ng_bind; [now apply ng6_resolve_refdefs|]. intros r _. nggo.
Qed.
Lemma ng6_handle_thematic_break st c ind am : QI st -> ng6 (handle_thematic_break o st c line ind am).
Proof. intro P. unfold handle_thematic_break. pgo. Qed.
Lemma ng6_handle_footnote st c ind d : QI st -> ng6 (handle_footnote o st c line ind d).
Proof. intro P. unfold handle_footnote, rest_at_fns. pgo. Qed.
Lemma ng6_handle_description_list st c ind : QI st -> ng6 (handle_description_list o st c line ind).
Proof. intro P. unfold handle_description_list, rest_at_fns. pgo. Qed.
Lemma ng6_handle_list st c ind d : QI st -> ng6 (handle_list o st c line ind d).
Proof. intro P. unfold handle_list. pgo. Qed.
Lemma ng6_handle_code_block st c ind ml : QI st -> ng6 (handle_code_block o st c line ind ml).
Proof. intro P. unfold handle_code_block. pgo. Qed.

Definition HP (x : bool * nat * pstate) : Prop := QI (snd x).
Lemma sg6_h st (r : hres) : QI st -> (QI st -> ng6 r) ->
  (forall b c s, r = Ok (b, c, s) -> QI st -> QI s) -> sg al6 true HP r.
Proof. intros P H Hp. eapply ng_sg; [now apply H|]. intros [[b c] s] E. unfold HP. cbn [snd]. eapply Hp; eassumption. Qed.
Lemma sg6_or_else (r : hres) k : sg al6 true HP r -> (forall c s, QI s -> sg al6 true HP (k c s)) -> sg al6 true HP (or_else_h r k).
Proof. intros H K. unfold or_else_h. eapply sg_bind; [exact H|]. intros [[h c] s] E Hx. destruct h; [exact Hx|]. apply K. exact Hx. Qed.

Ltac hp X := intros ? ? ?; first [apply (X o line HLine) | apply (X o line)].

Lemma ng6_step st c am ml d : QI st -> ng6 (open_new_blocks_step o st c line am ml d).
Proof.
  intro P. unfold open_new_blocks_step. apply ng_bind; [auto with ng6|]. intros s0 F0.
  assert (P0 : QI s0) by eauto with qi.
  eapply sg_bind with (P := HP).
  { apply sg6_or_else; [eapply sg6_h; [exact P0 | apply ng6_handle_alert | hp handle_alert_qi]|]. intros c1 s1 P1.
    apply sg6_or_else; [eapply sg6_h; [exact P1 | apply ng6_handle_mbq | hp handle_mbq_qi]|]. clear c1 s1 P1. intros c1 s1 P1.
    apply sg6_or_else; [eapply sg6_h; [exact P1 | apply ng6_handle_blockquote | hp handle_blockquote_qi]|]. clear c1 s1 P1. intros c1 s1 P1.
    apply sg6_or_else; [eapply sg6_h; [exact P1 | apply ng6_handle_atx | hp handle_atx_qi]|]. clear c1 s1 P1. intros c1 s1 P1.
    apply sg6_or_else; [eapply sg6_h; [exact P1 | apply ng6_handle_code_fence | hp handle_code_fence_qi]|]. clear c1 s1 P1. intros c1 s1 P1.
    apply sg6_or_else; [eapply sg6_h; [exact P1 | apply ng6_handle_html_block | hp handle_html_block_qi]|]. clear c1 s1 P1. intros c1 s1 P1.
    apply sg6_or_else; [eapply sg6_h; [exact P1 | apply ng6_handle_setext | hp handle_setext_qi]|]. clear c1 s1 P1. intros c1 s1 P1.
    apply sg6_or_else; [eapply sg6_h; [exact P1 | apply ng6_handle_thematic_break | hp handle_thematic_break_qi]|]. clear c1 s1 P1. intros c1 s1 P1.
    apply sg6_or_else; [eapply sg6_h; [exact P1 | apply ng6_handle_footnote | hp handle_footnote_qi]|]. clear c1 s1 P1. intros c1 s1 P1.
    apply sg6_or_else; [eapply sg6_h; [exact P1 | apply ng6_handle_description_list | hp handle_description_list_qi]|]. clear c1 s1 P1. intros c1 s1 P1.
    apply sg6_or_else; [eapply sg6_h; [exact P1 | apply ng6_handle_list | hp handle_list_qi]|]. clear c1 s1 P1. intros c1 s1 P1.
    eapply sg6_h; [exact P1 | apply ng6_handle_code_block | hp handle_code_block_qi]. }
  intros [[handled c1] s1] _ P1. unfold HP in P1. cbn [snd] in P1.
  match goal with |- sg ?a ?f _ ?r => change (ng a f r) end.
  apply ng_bind; [|intros [[go c2] s2] _; nggo].
  destruct handled; [exact I|].
  apply ng_bind; [|intros [[|mark|id] s2] _; nggo].
  destruct (negb _ && bo_table o); [|exact I]. now apply ng6_try_opening_block.
Qed.

Lemma ng6_loop am : forall fuel st c ml d, QI st -> ng6 (open_new_blocks_loop fuel o st c line am ml d).
Proof.
  induction fuel as [|f IH]; intros st c ml d P; cbn [open_new_blocks_loop]; [reflexivity|].
  apply ng_bind; [auto with ng6|]. intros n _. destruct (is_code_or_html n); [exact I|].
  apply ng_bind; [now apply ng6_step|]. intros [[go c1] s1] E. destruct go; [|exact I].
  apply IH. eapply open_new_blocks_step_qi; eassumption.
Qed.

Lemma ng6_open_new_blocks st c am : QI st -> ng6 (open_new_blocks o st c line am).
Proof. intro P. unfold open_new_blocks. apply ng_bind; [auto with ng6|]. intros n _. now apply ng6_loop. Qed.

Lemma ng6_add_text_to_container st c lmc : QI st -> ng6 (add_text_to_container o st c lmc line).
Proof.
  intro P. unfold add_text_to_container.
  apply ng_bind; [auto with ng6|]. intros s0 E0. assert (P0 : QI s0) by eauto with qi.
  apply ng_bind; [auto with ng6|]. intros cn _.
  apply ng_bind; [nggo|]. intros s1 E1.
  assert (P1 : QI s1) by (sat; eauto with qi).
  apply ng_bind; [auto with ng6|]. intros s2 E2. assert (P2 : QI s2) by eauto with qi.
  apply ng_bind; [auto with ng6|]. intros s3 E3. assert (P3 : QI s3) by eauto with qi.
  apply ng_bind; [nggo|]. intros lz _.
  destruct lz; [auto with ng6|].
  apply ng_bind; [auto with ng6|]. intros s4 E4. assert (P4 : QI s4) by eauto with qi.
  apply ng_bind; [auto with ng6|]. intros c4 _.
  apply ng_bind; [|intros; exact I].
  destruct (bval c4); pgo.
Qed.
End Line.

(* ================================================================== process_line, run_lines, parse_blocks *)
Lemma ng6_process_line o st line0 : LOK (norm_line line0) -> QI st -> ng6 (process_line o st line0).
Proof.
  intros HL P. unfold process_line. cbv zeta.
  match goal with |- context [check_open_blocks o ?s ?l] => assert (P0 : QI s) by (apply QI_st_line_number, QI_st_cur, QI_st_curline; exact P) end.
  apply ng_bind; [first [now apply (ng6_check_open_blocks o (norm_line line0) HL) | now apply (ng6_check_open_blocks o (norm_line line0))]|]. intros [r s1] E.
  assert (P1 : QI s1) by (eapply check_open_blocks_qi; eassumption).
  apply ng_bind; [|intros; exact I].
  destruct r as [[lm am]|]; [|exact I]. cbv zeta.
  apply ng_bind; [first [now apply (ng6_open_new_blocks o (norm_line line0) HL) | now apply (ng6_open_new_blocks o (norm_line line0))]|]. intros [c s2] E2.
  assert (P2 : QI s2) by (eapply open_new_blocks_qi; eassumption).
  destruct (Nat.eqb (ps_current s1) (ps_current s2)); [first [now apply (ng6_add_text_to_container o (norm_line line0) HL) | now apply (ng6_add_text_to_container o (norm_line line0))] | exact I].
Qed.

Lemma ng6_process_lines o : forall ls st, Forall (fun l => LOK (norm_line l)) ls -> QI st -> ng6 (process_lines o st ls).
Proof.
  induction ls as [|l r IH]; intros st F P; cbn [process_lines]; [exact I|]. inversion F; subst.
  apply ng_bind; [now apply ng6_process_line|]. intros s1 E. apply IH; [assumption|]. eapply process_line_qi; eassumption.
Qed.

Lemma ng6_finalize_document o st : QI st -> ng6 (finalize_document o st).
Proof.
  intro P. unfold finalize_document.
  apply ng_bind; [apply ng6_finalize_up_to; [allowed | exact P]|]. intros s1 E.
  apply ng_bind; [|intros; exact I]. apply ng6_finalize. eapply finalize_up_to_qi; eassumption.
Qed.

Lemma ng6_front_matter_prologue o x : ng6 (front_matter_prologue o init_state x).
Proof.
  unfold front_matter_prologue. destruct (bo_front_matter_delimiter o) as [d|]; [|exact I].
  apply ng_bind; [auto with ng6|]. intros [[fm rest]|] _; [|exact I].
  apply ng_bind; [auto with ng6|]. intros stripped _. cbn. exact I.
Qed.

Theorem parse_blocks_ng6 o x : ng6 (parse_blocks o x).
Proof.
  unfold parse_blocks. apply ng_bind; [apply ng6_front_matter_prologue|]. intros [st rest] E.
  pose proof (front_matter_prologue_qi _ _ _ _ E) as P.
  pose proof (lines_lok rest) as LK. unfold lines in LK. destruct (feed_lines rest) as [ls total]. cbn [fst] in LK.
  apply ng_bind; [|intros; exact I]. unfold run_lines.
  apply ng_bind; [now apply ng6_process_lines|]. intros s1 E1.
  apply ng6_finalize_document. eapply process_lines_qi; eassumption.
Qed.

Theorem parse_blocks_no_val_panic o x s : In s val_sites -> parse_blocks o x <> Panic s.
Proof. intro H. eapply sg_no_panic; [apply parse_blocks_ng6 | exact H]. Qed.
