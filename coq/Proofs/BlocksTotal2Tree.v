(* Proofs/BlocksTotal2Tree.v — totality of the block phase, step 1 (tree side): no tree-lookup Panic site is
   reachable (Proofs/BlocksTotal2Safe.v: tree_sites), for EVERY input byte string.

   The invariant of a state:   W o st := TI o [] st (identifiers pairwise distinct and below ps_next, block values,
   table shape: Proofs/ParserShapeTabPrim.v) /\ SV st (containment: Proofs/BlocksProofs.v) /\ R0 o st (the root has
   identifier 0: Proofs/BlocksTotal2Root.v).  Those three are carried by the existing `if it answers Ok` lemmas; what
   is added here is PRESENCE: `has st x` (x is the identifier of a node of the tree) for every identifier that is
   looked up, function by function, in the form

        pre  ->  safe (fun result => post) (f ..)          (safe: Ok -> post, Panic s -> s is no tree site)

   Identifiers leave the tree in one way only (finalize of a paragraph that held only reference definitions, which
   is a leaf), so every spec says which identifier may be lost: the one handed to finalize / add_child when it is a
   paragraph (`ispara`).  A parent of a node is never a paragraph, so the closing loops lose at most their first
   node. *)
From Coq Require Import List NArith Arith Bool Lia Strings.String.
From V Require Import Base.Bytes Base.Res Gen.Nodes Model.Ast Model.Strings Model.Feed Model.FrontMatter Model.RefDef
  Model.Scan Model.Blocks Spec.Shape Spec.Valid Proofs.BlocksProofs Proofs.BlocksCursor Proofs.BlocksTight
  Proofs.ParserShapeBlocks Proofs.ParserShapeTree Proofs.ParserShapeTabPrim Proofs.ParserShapeTables
  Proofs.BlocksTotal Proofs.BlocksTotal2Safe Proofs.BlocksTotal2Root.
Import ListNotations.
Local Open Scope string_scope.
Local Open Scope list_scope.

(* ================================================================== presence *)
Definition has (st : pstate) (x : nat) : Prop := In x (ids (ps_root st)).

Definition ispara (st : pstate) (y : nat) : bool :=
  match find_node y (ps_root st) with Some n => is_paragraph n | None => false end.

Definition W (o : bopts) (st : pstate) : Prop := TI o [] st /\ SV st /\ R0 o st.

Lemma in_ids_find : forall t id, In id (ids t) -> exists n, find_node id t = Some n.
Proof.
  induction t as [i ch IH] using bnode_ind2. intros id H. cbn [find_node].
  destruct (Nat.eqb (bi_id i) id) eqn:E; [eauto|].
  cbn [ids] in H. destruct H as [H|H]; [apply Nat.eqb_neq in E; contradiction|].
  induction ch as [|c r IHr]; [destruct H|].
  inversion IH as [|? ? IHc IHrest]; subst.
  destruct (find_node id c) eqn:F; [eauto|].
  cbn [flat_map] in H. apply in_app_or in H. destruct H as [H|H].
  - destruct (IHc _ H) as [n Fn]. congruence.
  - apply IHr; assumption.
Qed.

Lemma has_get st x : has st x -> exists n, get st x = Ok n.
Proof. intro H. destruct (in_ids_find _ _ H) as [n F]. exists n. unfold get. now rewrite F. Qed.

Lemma get_has st x n : get st x = Ok n -> has st x.
Proof. intro G. apply get_find in G. apply cnt_in. eapply find_node_cnt; exact G. Qed.

Lemma has_cnt st x : has st x <-> 1 <= cnt x (ids (ps_root st)).
Proof. unfold has. symmetry. apply cnt_in. Qed.

Lemma W_TI o st : W o st -> TI o [] st. Proof. intros [A _]. exact A. Qed.
Lemma W_SV o st : W o st -> SV st. Proof. intros [_ [A _]]. exact A. Qed.
Lemma W_R0 o st : W o st -> R0 o st. Proof. intros [_ [_ A]]. exact A. Qed.
Lemma W_uq o st : W o st -> forall x, cnt x (ids (ps_root st)) <= 1.
Proof. intros H. eapply TI_distinct. apply W_TI. exact H. Qed.

Lemma has_lt o st x : W o st -> has st x -> x < ps_next st.
Proof. intros [[_ [U _]] _] H. apply has_cnt in H. destruct (U x) as [_ B]. apply B. cbn. lia. Qed.

Lemma has_root o st : W o st -> has st root_id.
Proof. intros [_ [_ R]]. unfold has, R0 in *. destruct (ps_root st) as [i ch]. cbn in *. left. exact R. Qed.

Lemma get_unique o st c : W o st -> In c (bsub (ps_root st)) -> get st (bid c) = Ok c.
Proof. intros V H. unfold get. now rewrite (find_node_unique _ c (W_uq _ _ V) H). Qed.

(* ---- children and parents *)
Lemma kid_cnt : forall t p c, In p (bsub t) -> In c (bkids p) -> 1 <= cnt (bid c) (fids (bkids t)).
Proof.
  intros [i ch] p c Hp Hc. cbn [bkids]. cbn [bsub] in Hp. destruct Hp as [<-|Hp].
  - cbn [bkids] in Hc. pose proof (bsub_cnt c c (bsub_self c)) as B.
    apply in_split in Hc. destruct Hc as [l1 [l2 ->]]. cnt_norm. lia.
  - apply in_flat_map in Hp. destruct Hp as [x [Hx Hp]].
    assert (Hs : In c (bsub x)) by (eapply bsub_kid_of; eassumption).
    pose proof (bsub_cnt _ _ Hs) as B. apply in_split in Hx. destruct Hx as [l1 [l2 ->]]. cnt_norm. lia.
Qed.

Lemma kid_has st p pn c : get st p = Ok pn -> In c (bkids pn) -> has st (bid c).
Proof.
  intros G Hc. apply has_cnt. apply bsub_cnt. eapply bsub_kid_of; [eapply get_sub; exact G | exact Hc].
Qed.

Lemma kid_not_root o st p pn c : W o st -> get st p = Ok pn -> In c (bkids pn) -> bid c <> bid (ps_root st).
Proof.
  intros V G Hc E. pose proof (kid_cnt _ _ _ (get_sub _ _ _ G) Hc) as K.
  pose proof (W_uq _ _ V (bid c)) as U. destruct (ps_root st) as [i ch]. cbn [bkids] in K. cnt_norm.
  unfold bid in E at 2. cbn [binf] in E. rewrite E in U, K. rewrite one_same in U. lia.
Qed.

Lemma parent_of_kid x : forall t p, parent_of x t = Some p ->
  exists pn c, In pn (bsub t) /\ bid pn = p /\ In c (bkids pn) /\ bid c = x.
Proof.
  induction t as [i ch IH] using bnode_ind2. intros p H. cbn [parent_of] in H.
  destruct (split_kid x ch) as [[[pre c] post]|] eqn:S.
  - inversion H; subst. exists (BNode i ch), c. split; [apply bsub_self|]. split; [reflexivity|].
    split; [|eapply split_kid_bid; exact S]. cbn [bkids]. rewrite (split_kid_eq _ _ _ _ _ S). apply in_or_app. right. now left.
  - clear S.
    assert (K : exists d, In d ch /\ parent_of x d = Some p).
    { clear IH. induction ch as [|d r IHr]; [discriminate H|].
      destruct (parent_of x d) as [q|] eqn:Pd.
      - inversion H; subst. exists d. split; [now left | exact Pd].
      - destruct (IHr H) as [d' [I P]]. exists d'. split; [now right | exact P]. }
    destruct K as [d [I P]]. rewrite Forall_forall in IH. destruct (IH d I _ P) as (pn & c & A & B & C & D).
    exists pn, c. split; [eapply bsub_kid; eassumption | auto].
Qed.

Lemma parent_some : forall t x, In x (ids t) -> x <> bid t -> parent_of x t <> None.
Proof.
  induction t as [i ch IH] using bnode_ind2. intros x H N. cbn [parent_of].
  destruct (split_kid x ch) as [[[pre c] post]|] eqn:S; [discriminate|].
  unfold bid in N. cbn [binf] in N.
  cbn [ids] in H. destruct H as [H|H]; [congruence|].
  apply (proj1 (split_kid_none_iff x ch)) in S.
  induction ch as [|d r IHr]; [destruct H|].
  inversion IH as [|? ? IHd IHrest]; subst.
  cbn [map existsb] in S. apply orb_false_iff in S. destruct S as [S1 S2].
  destruct (parent_of x d) eqn:Pd; [discriminate|].
  cbn [flat_map] in H. apply in_app_or in H. destruct H as [H|H].
  - exfalso. apply (IHd x H); [|exact Pd]. apply Nat.eqb_neq in S1. congruence.
  - apply IHr; assumption.
Qed.

Lemma parent_some_st o st x : W o st -> has st x -> x <> root_id -> exists p, parent_of x (ps_root st) = Some p.
Proof.
  intros V H N. destruct (parent_of x (ps_root st)) eqn:P; [eauto|]. exfalso.
  apply (parent_some _ _ H); [|exact P]. rewrite (W_R0 _ _ V). exact N.
Qed.

Lemma parent_has st x p : parent_of x (ps_root st) = Some p -> has st p.
Proof. intro P. destruct (find_of_parent _ _ _ P) as [n F]. apply has_cnt. eapply find_node_cnt; exact F. Qed.

(* a parent has a child, is not that child, and is no paragraph *)
Definition is_pv (v : node_value) : bool := match v with Paragraph => true | _ => false end.
Lemma is_paragraph_pv t : is_paragraph t = is_pv (bval t). Proof. reflexivity. Qed.

Lemma bvok_not_in_para o v : bvok o v = true -> can_contain KParagraph (kind_of v) = false.
Proof. destruct v; intro H; try discriminate H; reflexivity. Qed.

Lemma para_leaf o st x n : W o st -> get st x = Ok n -> is_paragraph n = true -> bkids n = [].
Proof.
  intros V G P. pose proof (get_valid _ _ _ (W_SV _ _ V) G) as Tv. pose proof (get_ball _ _ _ _ (TI_NI _ _ _ (W_TI _ _ V)) G) as Bv.
  destruct n as [i [|c r]]; [reflexivity|]. exfalso.
  apply tvalid_node in Tv. apply kids_ok_cons in Tv. destruct Tv as [[A _] _].
  apply ball_node in Bv. destruct Bv as [_ Bk]. apply forallb_cons in Bk. destruct Bk as [Bc _].
  destruct c as [j k]. apply ball_node in Bc. destruct Bc as [Bj _].
  unfold is_paragraph, bval in P. cbn [binf] in P. destruct (bi_val i); try discriminate P.
  unfold allowed, bkind, bval in A. cbn [binf kind_of] in A. rewrite (bvok_not_in_para _ _ Bj) in A. discriminate A.
Qed.

Lemma parent_facts o st x p : W o st -> parent_of x (ps_root st) = Some p ->
  has st p /\ has st x /\ p <> x /\ ispara st p = false.
Proof.
  intros V P. destruct (parent_of_kid _ _ _ P) as (pn & c & A & B & C & D).
  pose proof (get_unique _ _ _ V A) as G. rewrite B in G.
  split; [eapply get_has; exact G|]. split; [rewrite <- D; eapply kid_has; eassumption|]. split.
  - intro E. assert (Hc : In c (bsub (ps_root st))) by (eapply bsub_kid_of; eassumption).
    pose proof (get_unique _ _ _ V Hc) as Gc. rewrite D, <- E, G in Gc. inversion Gc; subst c.
    apply in_split in C. destruct C as [l1 [l2 C]].
    assert (I : ids pn = bid pn :: fids (bkids pn)) by (destruct pn; reflexivity).
    pose proof (f_equal (cnt p) I) as Q. rewrite C in Q. rewrite cnt_cons, fids_app, fids_cons, !cnt_app, B, one_same in Q. lia.
  - unfold ispara. apply get_find in G. rewrite G.
    destruct (is_paragraph pn) eqn:Pp; [|reflexivity]. exfalso.
    assert (G' : get st p = Ok pn) by (unfold get; now rewrite G).
    rewrite (para_leaf _ _ _ _ V G' Pp) in C. destruct C.
Qed.

(* ================================================================== states with the same nodes *)
Record same (st st' : pstate) : Prop := {
  sm_cnt : forall x, cnt x (ids (ps_root st')) = cnt x (ids (ps_root st));
  sm_next : ps_next st' = ps_next st;
  sm_cur : ps_current st' = ps_current st;
  sm_para : forall y, ispara st' y = ispara st y }.

Lemma same_refl st : same st st. Proof. split; reflexivity. Qed.
Lemma same_trans a b c : same a b -> same b c -> same a c.
Proof.
  intros [A1 A2 A3 A4] [B1 B2 B3 B4]. split; intros; try congruence.
Qed.
Lemma same_has a b x : same a b -> (has b x <-> has a x).
Proof. intros [A _ _ _]. rewrite !has_cnt, A. tauto. Qed.

Lemma upd_other id f y : y <> id -> forall t t', upd id f t = Some t' ->
  (forall n, find_node id t = Some n -> bid (f n) = bid n /\ bkids (f n) = bkids n) ->
  option_map binf (find_node y t') = option_map binf (find_node y t).
Proof.
  intro Ny. induction t as [i ch IH] using bnode_ind2. intros t' U Hf. cbn [upd] in U. cbn [find_node] in Hf.
  destruct (Nat.eqb (bi_id i) id) eqn:E.
  - inversion U; subst. destruct (Hf _ eq_refl) as [A B]. destruct (f (BNode i ch)) as [j k].
    unfold bid in A. cbn [binf bkids] in A, B. subst k. cbn [find_node]. rewrite A.
    apply Nat.eqb_eq in E. rewrite E. destruct (Nat.eqb id y) eqn:E2; [apply Nat.eqb_eq in E2; congruence|]. reflexivity.
  - match type of U with match ?gg with _ => _ end = _ => destruct gg as [ch'|] eqn:G; [|discriminate] end.
    inversion U; subst. clear U. cbn [find_node].
    destruct (Nat.eqb (bi_id i) y); [reflexivity|].
    revert ch' G Hf. induction ch as [|c r IHr]; intros ch' G Hf; [discriminate|].
    inversion IH as [|? ? IHc IHrest]; subst.
    destruct (upd id f c) as [c'|] eqn:Uc.
    + inversion G; subst.
      assert (Hc : option_map binf (find_node y c') = option_map binf (find_node y c)).
      { apply IHc; [reflexivity|]. intros n Fn. apply Hf. now rewrite Fn. }
      destruct (find_node y c') eqn:F1; destruct (find_node y c) eqn:F2; cbn [option_map] in Hc; try discriminate Hc.
      * exact Hc.
      * reflexivity.
    + match type of G with match ?gg with _ => _ end = _ => destruct gg as [r'|] eqn:Gr; [|discriminate] end.
      inversion G; subst.
      assert (Fc : find_node id c = None) by (eapply upd_none_find; eassumption).
      destruct (find_node y c); [reflexivity|]. apply IHr; [assumption | reflexivity |].
      intros n Fn. apply Hf. now rewrite Fc.
Qed.

Lemma para_binf n n' : binf n' = binf n -> is_paragraph n' = is_paragraph n.
Proof. intro E. unfold is_paragraph, bval. now rewrite E. Qed.

Lemma modify_same st id f st' :
  modify st id f = Ok st' ->
  (forall n, find_node id (ps_root st) = Some n -> bid (f n) = bid n /\ bkids (f n) = bkids n /\ is_paragraph (f n) = is_paragraph n) ->
  same st st'.
Proof.
  unfold modify. intros M Hf. destruct (upd id f (ps_root st)) as [r|] eqn:U; [|discriminate M]. inversion M; subst. clear M.
  split; cbn [ps_root ps_next ps_current st_root]; try reflexivity.
  - intro x. rewrite (upd_cnt _ _ _ _ (fun _ => 0) U); [lia|].
    intros n Fn y. destruct (Hf n Fn) as (A & B & _). destruct (f n) as [j k]. destruct n as [i ch].
    unfold bid in A. cbn [binf bkids] in A, B. subst k. cnt_norm. rewrite A. lia.
  - intro y. unfold ispara. cbn [ps_root st_root]. destruct (Nat.eq_dec y id) as [->|Ny].
    + destruct (find_node id (ps_root st)) as [n|] eqn:F.
      * destruct (Hf n eq_refl) as (A & _ & C). destruct (find_node_sub _ _ _ F) as [Bn _].
        rewrite (upd_find _ _ _ _ _ U F); [exact C|]. rewrite A, Bn. apply Nat.eqb_refl.
      * destruct (find_node id r) eqn:F'; [|reflexivity]. exfalso.
        pose proof (find_none_upd _ f _ F). congruence.
    + assert (O := upd_other id f y Ny _ _ U (fun n Fn => let (A, BC) := Hf n Fn in conj A (proj1 BC))).
      destruct (find_node y r) eqn:F1; destruct (find_node y (ps_root st)) eqn:F2; cbn [option_map] in O; try discriminate O; [|reflexivity].
      apply para_binf. now inversion O.
Qed.

Lemma modify_info_same st id g st' :
  modify_info st id g = Ok st' ->
  (forall n, find_node id (ps_root st) = Some n ->
     bi_id (g (binf n)) = bi_id (binf n) /\ is_pv (bi_val (g (binf n))) = is_pv (bi_val (binf n))) ->
  same st st'.
Proof.
  intros M Hg. eapply modify_same; [exact M|]. intros n Fn. destruct (Hg n Fn) as [A B]. destruct n as [i ch].
  cbn [on_info binf] in *. split; [exact A|]. split; [reflexivity | exact B].
Qed.

Lemma modify_info_set_same st id g st' :
  modify_info st id g = Ok st' -> (forall i, bi_id (g i) = bi_id i /\ bi_val (g i) = bi_val i) -> same st st'.
Proof. intros M Hg. eapply modify_info_same; [exact M|]. intros n _. destruct (Hg (binf n)) as [A B]. now rewrite A, B. Qed.

Lemma modify_ok st id f : has st id -> exists st', modify st id f = Ok st'.
Proof. intro H. destruct (has_get _ _ H) as [n G]. eapply modify_total; exact G. Qed.

(* ================================================================== detach of a leaf *)
Record lose (X : nat) (st st' : pstate) : Prop := {
  ls_cnt : forall x, x <> X -> cnt x (ids (ps_root st')) = cnt x (ids (ps_root st));
  ls_le : forall x, cnt x (ids (ps_root st')) <= cnt x (ids (ps_root st));
  ls_next : ps_next st' = ps_next st;
  ls_cur : ps_current st' = ps_current st;
  ls_para : forall y, y <> X -> ispara st' y = ispara st y }.

Lemma same_lose X a b : same a b -> lose X a b.
Proof. intros [A1 A2 A3 A4]. split; intros; auto. rewrite A1. lia. Qed.
Lemma lose_same X a b c : lose X a b -> same b c -> lose X a c.
Proof.
  intros [A1 A0 A2 A3 A4] [B1 B2 B3 B4]. split; intros; try congruence.
  all: first [ rewrite B1; first [now apply A1 | apply A0] | rewrite B4; now apply A4 ].
Qed.
Lemma same_then_lose X a b c : same a b -> lose X b c -> lose X a c.
Proof.
  intros [B1 B2 B3 B4] [A1 A0 A2 A3 A4]. split; intros; try congruence.
  all: first [ rewrite A1 by assumption; apply B1 | rewrite <- B1; apply A0 | rewrite A4 by assumption; apply B4 ].
Qed.

Lemma edit_kids_detach_bsub id : forall t t',
  edit_kids id (fun _ pre _ post => pre ++ post) t = Some t' ->
  forall n', In n' (bsub t') -> exists n0, In n0 (bsub t) /\ binf n0 = binf n'.
Proof.
  induction t as [i ch IH] using bnode_ind2. intros t' U n' Hn. cbn [edit_kids] in U.
  destruct (split_kid id ch) as [[[pre c] post]|] eqn:S.
  - inversion U; subst. cbn [bsub] in Hn. destruct Hn as [<-|Hn].
    + exists (BNode i ch). split; [apply bsub_self | reflexivity].
    + exists n'. split; [|reflexivity]. cbn [bsub]. right. rewrite (split_kid_eq _ _ _ _ _ S).
      rewrite flat_map_app in Hn |- *. apply in_app_or in Hn. apply in_or_app. destruct Hn as [Hn|Hn]; [now left|].
      right. cbn [flat_map]. apply in_or_app. now right.
  - clear S.
    match type of U with match ?gg with _ => _ end = _ => destruct gg as [ch'|] eqn:G; [|discriminate] end.
    inversion U; subst. clear U. cbn [bsub] in Hn. destruct Hn as [<-|Hn].
    { exists (BNode i ch). split; [apply bsub_self | reflexivity]. }
    apply in_flat_map in Hn. destruct Hn as [d' [Hd Hn]].
    assert (K : In d' ch \/ exists d, In d ch /\ edit_kids id (fun _ pre _ post => pre ++ post) d = Some d').
    { clear - G Hd. revert ch' G Hd. induction ch as [|a r IHr]; intros ch' G Hd; [discriminate|].
      destruct (edit_kids id (fun _ pre _ post => pre ++ post) a) as [a'|] eqn:Ea.
      - inversion G; subst. destruct Hd as [<-|Hd]; [right; exists a; split; [now left | exact Ea] | left; now right].
      - match type of G with match ?gg with _ => _ end = _ => destruct gg as [r'|] eqn:Gr; [|discriminate] end.
        inversion G; subst. destruct Hd as [<-|Hd]; [left; now left|].
        destruct (IHr _ eq_refl Hd) as [K|[d [I E]]]; [left; now right | right; exists d; split; [now right | exact E]]. }
    destruct K as [K|[d [I E]]].
    + exists n'. split; [eapply bsub_kid; eassumption | reflexivity].
    + rewrite Forall_forall in IH. destruct (IH d I d' E n' Hn) as [n0 [A B]].
      exists n0. split; [eapply bsub_kid; eassumption | exact B].
Qed.

Lemma bdetach_lose o st X n st' :
  W o st -> W o st' -> get st X = Ok n -> bkids n = [] -> bdetach st X = Ok st' -> lose X st st'.
Proof.
  intros V V' G K D. unfold bdetach in D.
  destruct (edit_kids X (fun _ pre _ post => pre ++ post) (ps_root st)) as [r|] eqn:E;
    [|inversion D; subst; apply same_lose, same_refl].
  inversion D; subst. clear D.
  destruct (edit_kids_cnt _ _ _ _ E) as (pk & pre & c & post & Hb & Hc & C).
  pose proof (get_unique _ _ _ V Hc) as Gc. rewrite Hb, G in Gc. inversion Gc; subst c. clear Gc.
  assert (CN : forall x, cnt x (ids r) + one X x = cnt x (ids (ps_root st))).
  { intro x. specialize (C x). cbv beta in C. destruct n as [j k]. cbn [bkids] in K. subst k.
    unfold bid in Hb. cbn [binf] in Hb. cnt_norm. rewrite Hb in C. lia. }
  assert (CX : forall x, x <> X -> cnt x (ids r) = cnt x (ids (ps_root st))).
  { intros x Nx. specialize (CN x). unfold one in CN. destruct (Nat.eq_dec X x); [congruence | lia]. }
  split; cbn [ps_root ps_next ps_current st_root]; try reflexivity.
  - exact CX.
  - intro x. specialize (CN x). lia.
  - intros y Ny. unfold ispara. cbn [ps_root st_root].
    destruct (find_node y r) as [n'|] eqn:F1.
    + destruct (find_node_sub _ _ _ F1) as [By Hs].
      destruct (edit_kids_detach_bsub _ _ _ E _ Hs) as [n0 [A B]].
      pose proof (find_node_unique _ n0 (W_uq _ _ V) A) as F0.
      assert (Ey : y = bid n0) by (unfold bid in *; rewrite B; symmetry; exact By). rewrite Ey, F0. symmetry. now apply para_binf.
    + destruct (find_node y (ps_root st)) eqn:F2; [|reflexivity]. exfalso.
      pose proof (find_node_cnt _ _ _ F2) as C2. rewrite <- (CX y Ny) in C2. apply cnt_in in C2.
      destruct (in_ids_find _ _ C2) as [m Fm]. congruence.
Qed.

Lemma retighten_same st p st' : retighten st p = Ok st' -> same st st'.
Proof.
  unfold retighten. intro H. destruct p as [item|]; [|inversion H; subst; apply same_refl].
  destruct (parent_of item (ps_root st)) as [lid|]; [|inversion H; subst; apply same_refl].
  destruct (get st lid) as [l| |] eqn:G; cbn [bind] in H; try discriminate H.
  destruct (bi_open (binf l)); [inversion H; subst; apply same_refl|].
  destruct (bval l) eqn:Bv; try (inversion H; subst; apply same_refl).
  eapply modify_info_same; [exact H|]. intros n Fn. rewrite (get_find _ _ _ G) in Fn. inversion Fn; subst.
  unfold bval in Bv. cbn. rewrite Bv. split; reflexivity.
Qed.

(* ================================================================== W from the existing walks *)
Ltac Wgo V := let Vt := fresh "Vt" in let Vs := fresh "Vs" in let Vr := fresh "Vr" in
  pose proof (W_TI _ _ V) as Vt; pose proof (W_SV _ _ V) as Vs; pose proof (W_R0 _ _ V) as Vr;
  split; [eauto 10 with ti | split; [eauto 10 with sv | eauto 10 with r0]].

Definition eqtree (st st' : pstate) : Prop :=
  ps_root st' = ps_root st /\ ps_next st' = ps_next st /\ ps_current st' = ps_current st.

Lemma eqtree_refl st : eqtree st st. Proof. repeat split. Qed.
Lemma eqtree_trans a b c : eqtree a b -> eqtree b c -> eqtree a c.
Proof. intros (A1 & A2 & A3) (B1 & B2 & B3). repeat split; congruence. Qed.
Lemma eqtree_same a b : eqtree a b -> same a b.
Proof. intros (A1 & A2 & A3). split; try assumption; intros; unfold ispara; now rewrite A1. Qed.
Lemma W_eqtree o a b : eqtree a b -> W o a -> W o b.
Proof.
  intros (A1 & A2 & A3) ((N & U & B) & S & R). unfold W, TI, NI, UQ, SV, R0 in *. rewrite A1, A2. tauto.
Qed.
Lemma has_eqtree a b x : eqtree a b -> has a x -> has b x.
Proof. intros (A1 & _) H. unfold has in *. now rewrite A1. Qed.

Lemma adv_eqtree st line n b st' : adv st line n b = Ok st' -> eqtree st st'.
Proof. unfold adv. intro H. mon H. repeat split. Qed.
Lemma ffn_eqtree st line st' : ffn st line = Ok st' -> eqtree st st'.
Proof. unfold ffn. intro H. mon H. repeat split. Qed.
Lemma skip_one_space_eqtree st line site st' : skip_one_space st line site = Ok st' -> eqtree st st'.
Proof. unfold skip_one_space. intro H. mon H; [eapply adv_eqtree; eassumption | apply eqtree_refl]. Qed.
Lemma skip_fence_offset_eqtree line site : forall i st st', skip_fence_offset i st line site = Ok st' -> eqtree st st'.
Proof.
  induction i as [|j IH]; intros st st' H; cbn [skip_fence_offset] in H; mon H; try apply eqtree_refl.
  eapply eqtree_trans; [eapply adv_eqtree; eassumption | eapply IH; eassumption].
Qed.
Lemma list_spaces_loop_eqtree line sc : forall fuel st st', list_spaces_loop fuel st line sc = Ok st' -> eqtree st st'.
Proof.
  induction fuel as [|f IH]; intros st st' H; cbn [list_spaces_loop] in H; mon H; try apply eqtree_refl.
  eapply eqtree_trans; [eapply adv_eqtree; eassumption | eapply IH; eassumption].
Qed.

(* nb of the cursor functions on states *)
Lemma nb_adv st line n b : nb (adv st line n b).
Proof. unfold adv. nbgo. Qed.
Lemma nb_ffn st line : nb (ffn st line).
Proof. unfold ffn. nbgo. Qed.
#[export] Hint Resolve nb_adv nb_ffn : nb.
Lemma nb_skip_one_space st line site : bad site = false -> nb (skip_one_space st line site).
Proof. intro B. unfold skip_one_space. nbgo. Qed.
#[export] Hint Extern 1 (nb (skip_one_space _ _ _)) => (apply nb_skip_one_space; vm_compute; reflexivity) : nb.
Lemma nb_skip_fence_offset line site : bad site = false -> forall i st, nb (skip_fence_offset i st line site).
Proof. intro B. induction i as [|j IH]; intro st; cbn [skip_fence_offset]; nbgo. Qed.
#[export] Hint Extern 1 (nb (skip_fence_offset _ _ _ _)) => (apply nb_skip_fence_offset; vm_compute; reflexivity) : nb.
Lemma nb_list_spaces_loop line sc : forall fuel st, nb (list_spaces_loop fuel st line sc).
Proof. induction fuel as [|f IH]; intro st; cbn [list_spaces_loop]; nbgo. Qed.
#[export] Hint Resolve nb_list_spaces_loop : nb.

(* nb of the tree primitives under presence *)
Lemma nb_get st x : has st x -> nb (get st x).
Proof. intro H. apply nb_ex. now apply has_get. Qed.
Lemma nb_modify st x f : has st x -> nb (modify st x f).
Proof. intro H. apply nb_ex. now apply modify_ok. Qed.
Lemma nb_modify_info st x f : has st x -> nb (modify_info st x f).
Proof. apply nb_modify. Qed.
Lemma nb_bdetach st x : nb (bdetach st x).
Proof. apply nb_ex. apply bdetach_total. Qed.
Lemma nb_retighten st p : nb (retighten st p).
Proof. apply nb_ex. apply retighten_total. Qed.
#[export] Hint Resolve nb_get nb_modify nb_modify_info nb_bdetach nb_retighten : nb.

Lemma nb_bind_eq {A B} (r : res A) (k : A -> res B) : nb r -> (forall a, r = Ok a -> nb (k a)) -> nb (bind r k).
Proof. intros H K. eapply safe_bind; [exact H | intros a E _; now apply K]. Qed.

(* ================================================================== finalize *)
Definition FIN (st : pstate) (id : nat) (po : option nat) (st' : pstate) : Prop :=
  po = parent_of id (ps_root st) /\ lose id st st' /\ (ispara st id = false -> same st st').

Lemma mi_const_same st id n j st' :
  get st id = Ok n -> modify_info st id (fun _ => j) = Ok st' ->
  bi_id j = bi_id (binf n) -> is_pv (bi_val j) = is_pv (bi_val (binf n)) -> same st st'.
Proof.
  intros G M A B. eapply modify_info_same; [exact M|]. intros m Fm. rewrite (get_find _ _ _ G) in Fm. inversion Fm; subst. auto.
Qed.

Lemma same_refmap a b m : same a b -> same a (st_refmap b m).
Proof. intros [A1 A2 A3 A4]. split; auto. Qed.

Lemma ispara_get st x n : get st x = Ok n -> ispara st x = is_paragraph n.
Proof. intro G. unfold ispara. now rewrite (get_find _ _ _ G). Qed.

Lemma finalize_nb o st id : has st id -> nb (finalize o st id).
Proof. intro H. unfold finalize. nbgo. Qed.

Lemma finalize_post o st id po st' : finalize o st id = Ok (po, st') -> W o st -> W o st' /\ FIN st id po st'.
Proof.
  intros F V. split; [Wgo V|]. unfold finalize in F.
  mstep F. rename E into G. mstep F; [discriminate F|]. mstep F. clear E0.
  pose proof (ispara_get _ _ _ G) as IP. unfold is_paragraph, bval in IP.
  destruct (bi_val (binf a)) eqn:Ev; mon F;
  try (match goal with M : modify_info st id (fun _ => ?j) = Ok ?s1 |- FIN _ _ _ ?s1 =>
         assert (S : same st s1) by (eapply (mi_const_same st id a j s1 G M); [reflexivity | cbn; rewrite ?Ev; reflexivity]);
         split; [reflexivity | split; [apply same_lose; exact S | intros _; exact S]] end).
  - (* a paragraph with content left *)
    match goal with M : modify_info st id (fun _ => ?j) = Ok ?s1 |- _ =>
      assert (S : same st s1) by (eapply (mi_const_same st id a j s1 G M); [reflexivity | cbn; rewrite ?Ev; reflexivity]) end.
    split; [reflexivity|]. split; [apply same_lose | intros _]; apply same_refmap; exact S.
  - (* a paragraph that is removed *)
    match goal with M : modify_info st id (fun _ => ?j) = Ok ?s1, D : bdetach (st_refmap ?s1 ?m) _ = Ok ?s3, R : retighten ?s3 _ = Ok ?s4 |- _ =>
      assert (S : same st s1) by (eapply (mi_const_same st id a j s1 G M); [reflexivity | cbn; rewrite ?Ev; reflexivity]);
      assert (V1 : W o (st_refmap s1 m));
      [ destruct V as ((N & U & B) & Sv & R0v); split; [|split];
        [ apply TI_st_refmap; eapply modify_info_TI; [exact (conj N (conj U B)) | exact M |];
          intros n Fn; rewrite (get_find _ _ _ G) in Fn; inversion Fn; subst; cbn; rewrite Ev;
          (split; [reflexivity|]); (split; [reflexivity|]); (split; [intro HD; discriminate HD | left; reflexivity])
        | apply SV_st_refmap; eapply modify_info_valid; [exact Sv | exact M |];
          intros n Fn; rewrite (get_find _ _ _ G) in Fn; inversion Fn; subst; cbn; rewrite Ev; reflexivity
        | apply R0_st_refmap; eapply modify_info_R0; [exact R0v | exact M |];
          intros n Fn; rewrite (get_find _ _ _ G) in Fn; inversion Fn; subst; reflexivity ]
      | ];
      assert (S1 : same st (st_refmap s1 m)) by (apply same_refmap; exact S);
      assert (H1 : has (st_refmap s1 m) id) by (apply (same_has _ _ _ S1); eapply get_has; exact G);
      destruct (has_get _ _ H1) as [n1 G1];
      assert (P1 : is_paragraph n1 = true)
        by (rewrite <- (ispara_get _ _ _ G1), (sm_para _ _ S1), IP; reflexivity);
      pose proof (para_leaf _ _ _ _ V1 G1 P1) as K1;
      assert (V3 : W o s3);
      [ destruct V1 as (T1 & Sv1 & R1); split; [|split];
        [ eapply bdetach_TI; [exact D | exact T1 |]; intros n Fn; rewrite (get_find _ _ _ G1) in Fn; inversion Fn; subst;
          unfold is_paragraph in P1; destruct (bval n); try discriminate P1; reflexivity
        | eapply bdetach_valid'; eassumption
        | eapply bdetach_R0; eassumption ]
      | ];
      pose proof (bdetach_lose _ _ _ _ _ V1 V3 G1 K1 D) as L3;
      pose proof (retighten_same _ _ _ R) as S4
    end.
    split; [reflexivity|]. split.
    + eapply lose_same; [|exact S4]. eapply same_then_lose; eassumption.
    + intro C. rewrite IP in C. discriminate C.
Qed.

Lemma finalize_keeps_parent o st id p st' :
  finalize o st id = Ok (Some p, st') -> W o st -> has st' p /\ ispara st' p = false /\ p <> id.
Proof.
  intros F V. destruct (finalize_post _ _ _ _ _ F V) as [V' (E & L & _)].
  symmetry in E. destruct (parent_facts _ _ _ _ V E) as (Hp & _ & Np & Pp).
  split; [|split; [|exact Np]].
  - apply has_cnt. rewrite (ls_cnt _ _ _ L p Np). now apply has_cnt.
  - rewrite (ls_para _ _ _ L p Np). exact Pp.
Qed.

(* ================================================================== add_child *)
Lemma add_child_loop_nb o k : forall fuel st parent, W o st -> has st parent -> nb (add_child_loop fuel o st parent k).
Proof.
  induction fuel as [|f IH]; intros st parent V H; cbn [add_child_loop]; [exact I|].
  apply nb_bind; [now apply nb_get | intro pn]. destruct (can_contain (bkind pn) k); [exact I|].
  unfold unwrap_parent.
  destruct (finalize o st parent) as [[po s1]| |] eqn:F; cbn [bind fst snd].
  - destruct po as [q|]; cbn [bind fst snd]; [|vm_compute; reflexivity].
    destruct (finalize_post _ _ _ _ _ F V) as [V1 _]. destruct (finalize_keeps_parent _ _ _ _ _ F V) as (Hq & _).
    now apply IH.
  - pose proof (finalize_nb o st parent H) as N. rewrite F in N. exact N.
  - exact I.
Qed.

Lemma add_child_loop_post o k : forall fuel st parent p' st',
  add_child_loop fuel o st parent k = Ok (p', st') -> W o st -> has st parent ->
  W o st' /\ has st' p' /\ lose parent st st' /\ (ispara st parent = false -> same st st').
Proof.
  induction fuel as [|f IH]; intros st parent p' st' H V Hp; [discriminate|].
  cbn [add_child_loop] in H.
  destruct (get st parent) as [pn| |] eqn:G; cbn [bind] in H; try discriminate H.
  destruct (can_contain (bkind pn) k) eqn:C.
  - inversion H; subst. split; [exact V|]. split; [exact Hp|]. split; [apply same_lose, same_refl | intros _; apply same_refl].
  - unfold unwrap_parent in H.
    destruct (finalize o st parent) as [[po s1]| |] eqn:F; cbn [bind fst snd] in H; try discriminate H.
    destruct po as [q|]; cbn [bind fst snd] in H; [|discriminate H].
    destruct (finalize_post _ _ _ _ _ F V) as [V1 (_ & L & Sm)].
    destruct (finalize_keeps_parent _ _ _ _ _ F V) as (Hq & Pq & _).
    destruct (IH _ _ _ _ H V1 Hq) as (V' & Hp' & _ & S2). specialize (S2 Pq).
    split; [exact V'|]. split; [exact Hp'|]. split.
    + eapply lose_same; eassumption.
    + intro Pp. eapply same_trans; [apply Sm; exact Pp | exact S2].
Qed.

Lemma add_child_gen_nb o st parent v col post kids : W o st -> has st parent -> nb (add_child_gen o st parent v col post kids).
Proof.
  intros V H. unfold add_child_gen. apply nb_bind_eq; [now apply add_child_loop_nb|]. intros [p' s1] E.
  destruct (add_child_loop_post _ _ _ _ _ _ _ E V H) as (V1 & H1 & _).
  destruct (Nat.eqb col 0); [vm_compute; reflexivity|].
  apply nb_bind; [|intros; exact I]. apply nb_modify. exact H1.
Qed.

(* the new node is in the tree, everything else stays except possibly a paragraph handed over as parent *)
Definition GREW (parent : nat) (st : pstate) (id : nat) (st' : pstate) : Prop :=
  has st' id /\ ps_current st' = ps_current st /\
  (forall x, has st x -> (x = parent /\ ispara st parent = true) \/ has st' x) /\
  (forall x, has st x -> x <> id).

Lemma add_child_gen_post o st parent v col post id st' :
  add_child_gen o st parent v col post [] = Ok (id, st') -> W o st -> W o st' -> has st parent ->
  (forall i, bi_id (post i) = bi_id i) ->
  GREW parent st id st' /\ ispara st' id = is_pv (bi_val (post (new_info id v (ps_line_number st') col))).
Proof.
  unfold add_child_gen. intros H V V' Hp Hpost.
  match type of H with bind ?r _ = _ => destruct r as [[p' s1]| |] eqn:E; cbn [bind] in H; try discriminate H end.
  destruct (add_child_loop_post _ _ _ _ _ _ _ E V Hp) as (V1 & H1 & L & Sm).
  mon H. rename E1 into A. unfold append_child, modify in A.
  match type of A with match upd ?a ?b ?c with _ => _ end = _ => destruct (upd a b c) as [r|] eqn:U; [|discriminate A] end.
  inversion A; subst. clear A. cbn [ps_root ps_next ps_current ps_line_number st_root st_next] in *.
  set (nd := BNode (post (new_info (ps_next s1) v (ps_line_number s1) col)) []) in *.
  assert (CN : forall x, cnt x (ids r) = cnt x (ids (ps_root s1)) + cnt x (ids nd)).
  { intro x. apply (upd_cnt _ _ _ _ (fun y => cnt y (ids nd)) U). intros n Fn y. destruct n as [i ch]. cnt_norm. lia. }
  destruct (has_get _ _ H1) as [pn Gp]. apply get_find in Gp.
  match type of U with upd _ ?ff _ = _ => set (f := ff) in * end.
  assert (Fp : find_node p' r = Some (f pn)).
  { eapply upd_find; [exact U | exact Gp |]. destruct (find_node_sub _ _ _ Gp) as [Bp _]. destruct pn as [i ch].
    unfold bid in *. cbn [f binf] in *. rewrite Bp. apply Nat.eqb_refl. }
  assert (Hn : In nd (bsub r)).
  { destruct (find_node_sub _ _ _ Fp) as [_ Hs]. eapply bsub_kid_of; [exact Hs|]. destruct pn as [i ch]. cbn [f bkids].
    apply in_or_app. right. now left. }
  assert (Bn : bid nd = ps_next s1) by (unfold bid, nd; cbn [binf]; rewrite Hpost; reflexivity).
  split.
  - unfold GREW. cbn [ps_root ps_next ps_current ps_line_number st_root st_next]. split; [|split; [|split]].
    + unfold has. cbn [ps_root st_root]. apply cnt_in. rewrite CN. rewrite <- Bn.
      assert (1 <= cnt (bid nd) (ids nd)) by (apply bsub_cnt, bsub_self). lia.
    + now rewrite (ls_cur _ _ _ L).
    + intros x Hx. apply has_cnt in Hx. destruct (Nat.eq_dec x parent) as [->|Nx].
      * destruct (ispara st parent) eqn:Pp; [left; auto|]. right. apply has_cnt. cbn [ps_root st_root].
        rewrite CN, (sm_cnt _ _ (Sm eq_refl)). lia.
      * right. apply has_cnt. cbn [ps_root st_root]. rewrite CN, (ls_cnt _ _ _ L x Nx). lia.
    + intros x Hx Ex. subst x. pose proof (has_lt _ _ _ V Hx) as Lt. rewrite (ls_next _ _ _ L) in Lt. lia.
  - assert (Fn : find_node (ps_next s1) r = Some nd).
    { rewrite <- Bn. apply find_node_unique; [|exact Hn]. exact (W_uq _ _ V'). }
    unfold ispara. cbn [ps_root st_root]. rewrite Fn. reflexivity.
Qed.

(* ================================================================== pinned forms *)
Theorem finalize_tree_safe o st id : W o st -> has st id ->
  safe (fun r => W o (snd r) /\ FIN st id (fst r) (snd r)) (finalize o st id).
Proof.
  intros V H. eapply nb_safe; [now apply finalize_nb|]. intros [po st'] F. cbn [fst snd]. now apply finalize_post.
Qed.

Theorem add_child_loop_tree_safe o k fuel st parent : W o st -> has st parent ->
  safe (fun r => W o (snd r) /\ has (snd r) (fst r) /\ lose parent st (snd r) /\ (ispara st parent = false -> same st (snd r)))
       (add_child_loop fuel o st parent k).
Proof.
  intros V H. eapply nb_safe; [now apply add_child_loop_nb|]. intros [p' st'] F. cbn [fst snd].
  eapply add_child_loop_post; eassumption.
Qed.

Theorem parse_blocks_root_id o x r : parse_blocks o x = Ok r -> bid (br_root r) = root_id.
Proof.
  unfold parse_blocks. intro H. pose proof (R0_init o) as V.
  mon H; monall. cbn [br_root]. change (R0 o a). eauto with r0.
Qed.

Lemma W_init o : W o init_state.
Proof.
  split; [|split; [exact SV_init | apply R0_init]].
  split; [apply NI_init|]. split; [|reflexivity].
  intro x. unfold init_state. cbn [ps_root ps_next]. cnt_norm. cbn [bi_id]. unfold root_id, one. destruct (Nat.eq_dec 0 x); lia.
Qed.
