(* Proofs/BlocksTotal6Val.v — totality of the block phase, sixth round: a per-node invariant on STORED VALUES, along the
   Ok path of every function of the block phase (same scheme as Proofs/BlocksPos.v, whose generic lemmas about
   all_info are reused).  For every node of the tree (Qn):

     an HtmlBlock has block type 1..7                       (scan_html_block_start answers 1..6, .._start_7 answers 7;
                                                             finalize keeps the type)
     the content of a Paragraph contains no NUL byte        (lines are NUL-free: feed replaces NUL; content is built from
                                                             line suffixes, spaces, suffixes / trimmed prefixes of content)
     a Paragraph has at least as many line_offsets as its content has LF bytes
                                                            (add_line pushes one offset per line suffix, a line has one LF)

   The lines handed to process_line are `LOK`: no NUL, at most one LF (FeedProofs.lines_clean). *)
From Coq Require Import List NArith Arith Bool Lia Strings.String.
From V Require Import Base.Bytes Base.Res Gen.StrLeafGen Gen.FeedConst Gen.Nodes Gen.BlocksConst Model.Ast Model.Strings
  Model.AutolinkLeaf Model.Scan Spec.EscapeSpec Model.Feed Model.FrontMatter Model.RefDef Model.Blocks Spec.LineEndings Proofs.FeedProofs Proofs.StrLeafProofs
  Proofs.BlocksProofs Proofs.BlocksPos.
Import ListNotations.
Local Open Scope string_scope.
Local Open Scope list_scope.

(* ================================================================== byte strings: no NUL, number of LF *)
Definition nonul (s : bytes) : Prop := forall b, In b s -> b <> x00.
Notation cnl := count_byte_nl.

Lemma nonul_nil : nonul []. Proof. intros b []. Qed.
Lemma nonul_app a b : nonul a -> nonul b -> nonul (a ++ b).
Proof. intros Ha Hb x Hx. apply in_app_or in Hx. destruct Hx; auto. Qed.
Lemma in_skipn {A} (x : A) : forall k l, In x (skipn k l) -> In x l.
Proof. induction k as [|k IH]; intros l H; [exact H|]. destruct l; [exact H|]. right. now apply IH. Qed.
Lemma in_firstn {A} (x : A) : forall k l, In x (firstn k l) -> In x l.
Proof. induction k as [|k IH]; intros l H; [destruct H|]. destruct l; [destruct H|]. destruct H as [H|H]; [now left | right; now apply IH]. Qed.
Lemma nonul_skipn k s : nonul s -> nonul (skipn k s).
Proof. intros H b Hb. apply H. eapply in_skipn; exact Hb. Qed.
Lemma nonul_firstn k s : nonul s -> nonul (firstn k s).
Proof. intros H b Hb. apply H. eapply in_firstn; exact Hb. Qed.
Lemma in_drop_while p x : forall s, In x (drop_while p s) -> In x s.
Proof. induction s as [|b r IH]; intro H; [exact H|]. cbn [drop_while] in H. destruct (p b); [right; now apply IH | exact H]. Qed.
Lemma nonul_trim s : nonul s -> nonul (trim_slice s).
Proof.
  intros H b Hb. apply H. unfold trim_slice, rtrim_slice, ltrim_slice in Hb.
  apply in_rev in Hb. apply in_drop_while in Hb. apply in_rev in Hb. now apply in_drop_while in Hb.
Qed.
Lemma in_unescape_pipes x : forall s, In x (unescape_pipes s) -> In x s.
Proof.
  induction s as [|c r IH]; intro H; [exact H|]. cbn [unescape_pipes] in H.
  destruct (_ && _); [right; now apply IH|]. destruct H as [H|H]; [now left | right; now apply IH].
Qed.
Lemma nonul_unescape_pipes s : nonul s -> nonul (unescape_pipes s).
Proof. intros H b Hb. apply H. now apply in_unescape_pipes. Qed.
Lemma nonul_repeat n : nonul (repeat_bytes n x20).
Proof. induction n as [|n IH]; intros b Hb; [destruct Hb|]. destruct Hb as [<-|Hb]; [discriminate | now apply IH]. Qed.

Lemma cnl_app a b : cnl (a ++ b) = cnl a + cnl b.
Proof. unfold count_byte_nl. now rewrite filter_app, app_length. Qed.
Lemma cnl_skipn k s : cnl (skipn k s) <= cnl s.
Proof. rewrite <- (firstn_skipn k s) at 2. rewrite cnl_app. lia. Qed.
Lemma cnl_firstn k s : cnl (firstn k s) <= cnl s.
Proof. rewrite <- (firstn_skipn k s) at 2. rewrite cnl_app. lia. Qed.
Lemma cnl_rev s : cnl (rev s) = cnl s.
Proof. induction s as [|b r IH]; [reflexivity|]. cbn [rev]. rewrite cnl_app, IH. unfold count_byte_nl. cbn [filter]. destruct (beqb b x0a); cbn [List.length]; lia. Qed.
Lemma cnl_drop_while p : forall s, cnl (drop_while p s) <= cnl s.
Proof.
  induction s as [|b r IH]; [apply le_n|]. cbn [drop_while]. destruct (p b); [|apply le_n].
  change (b :: r) with ([b] ++ r). rewrite cnl_app. lia.
Qed.
Lemma cnl_trim s : cnl (trim_slice s) <= cnl s.
Proof.
  unfold trim_slice, rtrim_slice, ltrim_slice. rewrite cnl_rev.
  eapply Nat.le_trans; [apply cnl_drop_while|]. rewrite cnl_rev. apply cnl_drop_while.
Qed.
Lemma cnl_unescape_pipes : forall s, cnl (unescape_pipes s) <= cnl s.
Proof.
  induction s as [|c r IH]; [apply le_n|]. cbn [unescape_pipes]. change (c :: r) with ([c] ++ r). rewrite cnl_app.
  destruct (_ && _); [lia|]. change (c :: unescape_pipes r) with ([c] ++ unescape_pipes r). rewrite cnl_app. lia.
Qed.
Lemma cnl_repeat n : cnl (repeat_bytes n x20) = 0.
Proof. induction n as [|n IH]; [reflexivity|]. cbn [repeat_bytes]. change (x20 :: repeat_bytes n x20) with ([x20] ++ repeat_bytes n x20). now rewrite cnl_app, IH. Qed.

(* the lines *)
Definition LOK (line : bytes) : Prop := nonul line /\ cnl line <= 1.

Lemma clean_line_lok l : clean_line l = true -> LOK (norm_line l).
Proof.
  intro C. rewrite (norm_line_clean l C). unfold clean_line in C. rewrite forallb_forall in C. split.
  - apply nonul_app; [|intros b [<-|[]]; discriminate].
    intros b Hb E. subst b. specialize (C _ Hb). vm_compute in C. discriminate C.
  - rewrite cnl_app. change (cnl [LF]) with 1.
    assert (cnl l = 0); [|lia]. unfold count_byte_nl.
    induction l as [|b r IH]; [reflexivity|]. cbn [filter].
    assert (Hb : clean_byte b = true) by (apply C; now left).
    destruct (beqb b x0a) eqn:E; [apply beqb_eq in E; subst b; vm_compute in Hb; discriminate Hb|].
    apply IH. intros x Hx. apply C. now right.
Qed.

(* ================================================================== the per-node invariant *)
Definition hb_ok (v : node_value) : bool :=
  match v with HtmlBlock bt _ => (N.leb 1 bt && N.leb bt 7)%bool | _ => true end.

Definition Qn (i : binfo) : Prop :=
  hb_ok (bi_val i) = true /\
  (bi_val i = Paragraph -> nonul (bi_content i) /\ cnl (bi_content i) <= List.length (bi_lo i)).

Inductive QI (st : pstate) : Prop := QI_intro : all_info Qn (ps_root st) -> QI st.
Lemma QI_all st : QI st -> all_info Qn (ps_root st). Proof. now intros [H]. Qed.

Lemma QI_st_next st n : QI st -> QI (st_next st n). Proof. intros [H]. constructor. exact H. Qed.
Lemma QI_st_current st n : QI st -> QI (st_current st n). Proof. intros [H]. constructor. exact H. Qed.
Lemma QI_st_refmap st m : QI st -> QI (st_refmap st m). Proof. intros [H]. constructor. exact H. Qed.
Lemma QI_st_cur st c : QI st -> QI (st_cur st c). Proof. intros [H]. constructor. exact H. Qed.
Lemma QI_st_curline st a b : QI st -> QI (st_curline st a b). Proof. intros [H]. constructor. exact H. Qed.
Lemma QI_st_last_line_length st n : QI st -> QI (st_last_line_length st n). Proof. intros [H]. constructor. exact H. Qed.
Lemma QI_st_line_number st n : QI st -> QI (st_line_number st n). Proof. intros [H]. constructor. exact H. Qed.

Lemma get_allq st id n : QI st -> get st id = Ok n -> all_info Qn n.
Proof. intros [A] G. apply get_find in G. exact (find_node_all _ _ _ _ A G). Qed.
Lemma get_qn st id n : QI st -> get st id = Ok n -> Qn (binf n).
Proof. intros P G. apply all_info_binf. eapply get_allq; eassumption. Qed.

Lemma modify_qi st id f st' :
  QI st -> modify st id f = Ok st' ->
  (forall n, find_node id (ps_root st) = Some n -> all_info Qn n -> all_info Qn (f n)) -> QI st'.
Proof.
  unfold modify. intros [A] M Hf. destruct (upd id f (ps_root st)) as [r|] eqn:U; [|discriminate].
  inversion M; subst. constructor. cbn. exact (upd_all _ _ _ _ _ A U Hf).
Qed.

Lemma modify_info_qi st id f st' :
  modify_info st id f = Ok st' -> (forall i, Qn i -> Qn (f i)) -> QI st -> QI st'.
Proof.
  intros M Hf P. eapply modify_qi; [exact P | exact M |].
  intros n _ An. destruct n as [i ch]. cbn [on_info]. apply all_info_node in An. apply all_info_node.
  split; [apply Hf; apply An | apply An].
Qed.

Lemma modify_info_const_qi st id n i' st' :
  modify_info st id (fun _ => i') = Ok st' -> get st id = Ok n -> (Qn (binf n) -> Qn i') -> QI st -> QI st'.
Proof.
  intros M G Hf P. eapply modify_qi; [exact P | exact M |].
  intros m Fm Am. apply get_find in G. rewrite G in Fm. inversion Fm; subst m.
  destruct n as [i ch]. cbn [on_info binf] in *. apply all_info_node in Am. apply all_info_node.
  split; [apply Hf; apply Am | apply Am].
Qed.

(* modify_info with a function of the info found under the identifier *)
Lemma modify_info_get_qi st id n f st' :
  modify_info st id f = Ok st' -> get st id = Ok n -> (Qn (binf n) -> Qn (f (binf n))) -> QI st -> QI st'.
Proof.
  intros M G Hf P. eapply modify_qi; [exact P | exact M |].
  intros m Fm Am. apply get_find in G. rewrite G in Fm. inversion Fm; subst m.
  destruct n as [i ch]. cbn [on_info binf] in *. apply all_info_node in Am. apply all_info_node.
  split; [apply Hf; apply Am | apply Am].
Qed.

Lemma edit_root_qi st id g r :
  edit_kids id g (ps_root st) = Some r -> QI st ->
  (forall pk pre c post, Forall (all_info Qn) (pre ++ c :: post) -> Forall (all_info Qn) (g pk pre c post)) ->
  QI (st_root st r).
Proof. intros E [A] Hg. constructor. cbn. eapply edit_kids_all; eassumption. Qed.

Lemma bdetach_qi st id st' : bdetach st id = Ok st' -> QI st -> QI st'.
Proof.
  unfold bdetach. intros D P.
  destruct (edit_kids id (fun _ pre _ post => pre ++ post) (ps_root st)) as [r|] eqn:E.
  - inversion D; subst. eapply edit_root_qi; [exact E | exact P |].
    intros pk pre c post K. apply Forall_app in K. destruct K as [K1 K2]. inversion K2; subst.
    apply Forall_app. split; assumption.
  - now inversion D; subst.
Qed.

Lemma append_child_qi st pid c st' : append_child st pid c = Ok st' -> all_info Qn c -> QI st -> QI st'.
Proof.
  intros A Ac P. eapply modify_qi; [exact P | exact A |].
  intros n _ An. destruct n as [i ch]. apply all_info_node in An. apply all_info_node. split; [apply An|].
  apply Forall_app. split; [apply An|]. constructor; [exact Ac | constructor].
Qed.

(* setters that touch neither the value, the content nor line_offsets *)
Ltac qn_side :=
  let i := fresh "i" in let H := fresh "H" in
  intros i H; destruct i; unfold Qn in *; cbn in *; try exact H.

Create HintDb qi.
#[export] Hint Resolve QI_st_next QI_st_current QI_st_refmap QI_st_cur QI_st_curline QI_st_last_line_length QI_st_line_number
  bdetach_qi modify_info_qi : qi.
#[export] Hint Extern 1 (forall i : binfo, Qn i -> Qn _) => qn_side : qi.

Ltac qigo H := mon H; monall; repeat match goal with p : (_ * _)%type |- _ => destruct p end; cbn [fst snd] in *; eauto 20 with qi.

Lemma adv_qi st line n b st' : adv st line n b = Ok st' -> QI st -> QI st'.
Proof. unfold adv. intros H P. mon H. now apply QI_st_cur. Qed.
Lemma ffn_qi st line st' : ffn st line = Ok st' -> QI st -> QI st'.
Proof. unfold ffn. intros H P. mon H. now apply QI_st_cur. Qed.
#[export] Hint Resolve adv_qi ffn_qi : qi.

(* ================================================================== finalize *)
Lemma retighten_qi st p st' : retighten st p = Ok st' -> QI st -> QI st'.
Proof.
  unfold retighten. intros H P. destruct p as [item|]; [|inversion H; subst; exact P].
  destruct (parent_of item (ps_root st)) as [lid|]; [|inversion H; subst; exact P].
  destruct (get st lid) as [l| |] eqn:G; cbn [bind] in H; try discriminate H.
  destruct (bi_open (binf l)); [inversion H; subst; exact P|].
  destruct (bval l) eqn:Bv; try (inversion H; subst; exact P).
  eapply modify_info_get_qi; [exact H | exact G | | exact P].
  intros _. unfold Qn. cbn. split; [reflexivity | discriminate].
Qed.
#[export] Hint Resolve retighten_qi : qi.

Lemma resolve_refdefs_suffix fold m c c' hc m' : resolve_refdefs fold m c = Ok (c', hc, m') -> exists k, c' = skipn k c.
Proof.
  unfold resolve_refdefs. intro H. mstep H. destruct a as [seeked m1]. mstep H. mstep H.
  destruct (Nat.eqb seeked 0); [inversion E0; subst; now exists 0|].
  destruct (is_char_boundary c seeked); [inversion E0; subst; now exists seeked | discriminate E0].
Qed.

Lemma Qn_para_suffix i k i' : Qn i -> bi_val i = Paragraph -> bi_val i' = Paragraph ->
  bi_content i' = skipn k (bi_content i) -> bi_lo i' = bi_lo i -> Qn i'.
Proof.
  intros [_ Q] Ev Ev' Ec El. unfold Qn. rewrite Ev', Ec, El. split; [reflexivity|]. intros _.
  destruct (Q Ev) as [Q1 Q2]. split; [now apply nonul_skipn|]. eapply Nat.le_trans; [apply cnl_skipn | exact Q2].
Qed.

Lemma finalize_qi o st id p st' : finalize o st id = Ok (p, st') -> QI st -> QI st'.
Proof.
  intros F P. unfold finalize in F.
  mstep F. pose proof (get_qn _ _ _ P E) as Qa.
  mstep F; [discriminate F|]. mstep F. clear E1.
  destruct (bi_val (binf a)) eqn:Ev; mon F;
  try match goal with R : resolve_refdefs _ _ _ = Ok _ |- _ => destruct (resolve_refdefs_suffix _ _ _ _ _ _ R) as [kk Ek] end;
  repeat first [ match goal with |- QI (st_refmap _ _) => apply QI_st_refmap end
               | (eapply retighten_qi; [eassumption|])
               | (eapply bdetach_qi; [eassumption|])
               | (eapply modify_info_const_qi; [eassumption | exact E | | exact P]; intros _) ];
  destruct a as [ia cha]; destruct ia; unfold Qn in *; cbn in *; subst; cbn in *;
  first [ exact Qa
        | split; [first [reflexivity | apply Qa] | discriminate]
        | (split; [reflexivity|]; intros _; destruct Qa as [_ Qa]; destruct (Qa eq_refl) as [Q1 Q2];
           split; [now apply nonul_skipn | eapply Nat.le_trans; [apply cnl_skipn | exact Q2]]) ].
Qed.
#[export] Hint Resolve finalize_qi : qi.

Lemma unwrap_parent_fin_qi site o st id p st' : unwrap_parent site (finalize o st id) = Ok (p, st') -> QI st -> QI st'.
Proof.
  unfold unwrap_parent. intros H P.
  destruct (finalize o st id) as [[op s1]| |] eqn:E; cbn [bind fst snd] in H; try discriminate H.
  destruct op; inversion H; subst. eapply finalize_qi; eassumption.
Qed.
#[export] Hint Resolve unwrap_parent_fin_qi : qi.

(* ================================================================== add_child *)
Lemma add_child_loop_qi o k : forall fuel st parent p' st',
  add_child_loop fuel o st parent k = Ok (p', st') -> QI st -> QI st'.
Proof.
  induction fuel as [|f IH]; intros st parent p' st' H P; [discriminate|].
  cbn [add_child_loop] in H.
  destruct (get st parent) as [pn| |] eqn:G; cbn [bind] in H; try discriminate H.
  destruct (can_contain (bkind pn) k).
  - inversion H; subst. exact P.
  - match type of H with bind ?r _ = _ => destruct r as [[q s1]| |] eqn:U; cbn [bind fst snd] in H; try discriminate H end.
    eapply IH; [exact H|]. eapply unwrap_parent_fin_qi; eassumption.
Qed.

Lemma Qn_new id v l c : hb_ok v = true -> Qn (new_info id v l c).
Proof. intro H. unfold Qn. cbn. split; [exact H|]. intros _. split; [apply nonul_nil | apply le_n]. Qed.

Lemma add_child_gen_qi o st parent v col post kids id st' :
  add_child_gen o st parent v col post kids = Ok (id, st') ->
  (forall i, bi_val i = v -> Qn i -> Qn (post i)) -> hb_ok v = true -> Forall (all_info Qn) kids ->
  QI st -> QI st'.
Proof.
  unfold add_child_gen. intros H Hp Hv Hk P.
  match type of H with bind ?r _ = _ => destruct r as [[p' s1]| |] eqn:E; cbn [bind] in H; try discriminate H end.
  pose proof (add_child_loop_qi _ _ _ _ _ _ _ E P) as P1.
  mon H. eapply append_child_qi; [eassumption | | apply QI_st_next; exact P1].
  apply all_info_node. split; [|exact Hk]. apply Hp; [reflexivity|]. now apply Qn_new.
Qed.

Lemma add_child_qi o st parent v col id st' : add_child o st parent v col = Ok (id, st') -> hb_ok v = true -> QI st -> QI st'.
Proof.
  unfold add_child. intros H Hv P. eapply add_child_gen_qi; [exact H | auto | exact Hv | constructor | exact P].
Qed.
#[export] Hint Resolve add_child_qi : qi.
#[export] Hint Extern 1 (hb_ok _ = true) => reflexivity : qi.

(* ================================================================== the html block scanners answer 1..7 *)
Lemma pick_rule_in : forall rules w best n x, Re2c.pick_rule rules w best = Some (n, x) -> In x rules \/ best = Some (n, x).
Proof.
  induction rules as [|a r IH]; intros w best n x H; cbn [Re2c.pick_rule] in H; [now right|].
  apply IH in H. destruct H as [H|H]; [left; now right|].
  destruct (Regex.longest_match (Re2c.rule_re a) w) as [k|]; [|now right].
  destruct best as [[m y]|]; [destruct (Nat.ltb m k)|]; try (now right); inversion H; subst; left; now left.
Qed.

Lemma run_rules_act rules d pad s : In (Re2c.o_act (Re2c.run_rules rules d pad s)) (d :: map Re2c.rule_act rules).
Proof.
  unfold Re2c.run_rules. cbv zeta. destruct (Re2c.pick_rule rules _ None) as [[L x]|] eqn:E; [|now left].
  apply pick_rule_in in E. destruct E as [E|E]; [|discriminate E]. right.
  assert (In (Re2c.rule_act x) (map Re2c.rule_act rules)) as H by (now apply in_map).
  destruct x; [exact H | destruct (Re2c.split_go _ _ _ _); exact H | destruct (Re2c.split_go _ _ _ _); exact H].
Qed.

Lemma scan_html_block_start_range s m : scan_html_block_start s = Some m -> 1 <= m <= 6.
Proof.
  unfold scan_html_block_start, as_opt_usize.
  pose proof (run_rules_act ScannersRe.rules_html_block_start ScannersRe.default_html_block_start ScannersRe.pad_html_block_start s) as H.
  revert H. generalize (Re2c.run_rules ScannersRe.rules_html_block_start ScannersRe.default_html_block_start ScannersRe.pad_html_block_start s) as oc.
  intros oc H E.
  unfold ScannersRe.rules_html_block_start, ScannersRe.default_html_block_start in H. cbn [map Re2c.rule_act In] in H. repeat (destruct H as [H|H]; [rewrite <- H in E; first [discriminate E | inversion E; lia]|]). destruct H.
Qed.

Lemma scan_html_block_start_7_range s m : scan_html_block_start_7 s = Some m -> m = 7.
Proof.
  unfold scan_html_block_start_7, as_opt_usize.
  pose proof (run_rules_act ScannersRe.rules_html_block_start_7 ScannersRe.default_html_block_start_7 ScannersRe.pad_html_block_start_7 s) as H.
  revert H. generalize (Re2c.run_rules ScannersRe.rules_html_block_start_7 ScannersRe.default_html_block_start_7 ScannersRe.pad_html_block_start_7 s) as oc.
  intros oc H E.
  unfold ScannersRe.rules_html_block_start_7, ScannersRe.default_html_block_start_7 in H. cbn [map Re2c.rule_act In] in H. repeat (destruct H as [H|H]; [rewrite <- H in E; first [discriminate E | inversion E; reflexivity]|]). destruct H.
Qed.

Lemma hb_ok_range m : 1 <= m <= 7 -> hb_ok (HtmlBlock (N.of_nat (m mod 256)) []) = true.
Proof. intro H. assert (m = 1 \/ m = 2 \/ m = 3 \/ m = 4 \/ m = 5 \/ m = 6 \/ m = 7) as C by lia. repeat (destruct C as [->|C]; [reflexivity|]). subst. reflexivity. Qed.

(* ================================================================== check_open_blocks *)
Lemma skip_one_space_qi st line site st' : skip_one_space st line site = Ok st' -> QI st -> QI st'.
Proof. unfold skip_one_space. intros H P. qigo H. Qed.
#[export] Hint Resolve skip_one_space_qi : qi.
Lemma parse_block_quote_prefix_qi o st line b st' : parse_block_quote_prefix o st line = Ok (b, st') -> QI st -> QI st'.
Proof. unfold parse_block_quote_prefix. intros H P. qigo H. Qed.
#[export] Hint Resolve parse_block_quote_prefix_qi : qi.
Lemma parse_footnote_prefix_qi st line b st' : parse_footnote_definition_block_prefix st line = Ok (b, st') -> QI st -> QI st'.
Proof. unfold parse_footnote_definition_block_prefix. intros H P. qigo H. Qed.
#[export] Hint Resolve parse_footnote_prefix_qi : qi.
Lemma parse_item_prefix_qi st line c mo pad b st' : parse_item_prefix st line c mo pad = Ok (b, st') -> QI st -> QI st'.
Proof. unfold parse_item_prefix. intros H P. qigo H. Qed.
#[export] Hint Resolve parse_item_prefix_qi : qi.
Lemma skip_fence_offset_qi line site : forall i st st', skip_fence_offset i st line site = Ok st' -> QI st -> QI st'.
Proof. induction i as [|j IH]; intros st st' H P; cbn [skip_fence_offset] in H; qigo H. Qed.
#[export] Hint Resolve skip_fence_offset_qi : qi.
Lemma parse_code_block_prefix_qi o st line c cb a b st' : parse_code_block_prefix o st line c cb = Ok (a, b, st') -> QI st -> QI st'.
Proof. unfold parse_code_block_prefix. intros H P. qigo H. Qed.
#[export] Hint Resolve parse_code_block_prefix_qi : qi.
Lemma parse_mbq_prefix_qi o st line c fl fo a b st' : parse_multiline_block_quote_prefix o st line c fl fo = Ok (a, b, st') -> QI st -> QI st'.
Proof. unfold parse_multiline_block_quote_prefix. intros H P. qigo H. Qed.
#[export] Hint Resolve parse_mbq_prefix_qi : qi.
Lemma check_container_qi o st line c a b st' : check_container o st line c = Ok (a, b, st') -> QI st -> QI st'.
Proof. unfold check_container. intros H P. destruct (bval c); qigo H. Qed.
#[export] Hint Resolve check_container_qi : qi.
Lemma check_open_blocks_inner_qi o line : forall fuel st container a c b st',
  check_open_blocks_inner fuel o st line container = Ok (a, c, b, st') -> QI st -> QI st'.
Proof. induction fuel as [|f IH]; intros st container a c b st' H P; cbn [check_open_blocks_inner] in H; qigo H. Qed.
#[export] Hint Resolve check_open_blocks_inner_qi : qi.
Lemma check_open_blocks_qi o st line r st' : check_open_blocks o st line = Ok (r, st') -> QI st -> QI st'.
Proof. unfold check_open_blocks. intros H P. qigo H. Qed.
#[export] Hint Resolve check_open_blocks_qi : qi.

(* ================================================================== tables *)
Lemma is_paragraph_val c : is_paragraph c = true -> bval c = Paragraph.
Proof. unfold is_paragraph. destruct (bval c); try discriminate; reflexivity. Qed.

Lemma copy_line_offsets_length : forall n lo k r, copy_line_offsets n lo k = Ok r -> List.length r = n.
Proof.
  induction n as [|m IH]; intros lo k r H; cbn [copy_line_offsets] in H; [now inversion H|].
  destruct (nth_error lo k); [|discriminate H]. mstep H. inversion H; subst. cbn. f_equal. eapply IH; eassumption.
Qed.

Definition trivial_val (v : node_value) : bool := match v with HtmlBlock _ _ | Paragraph => false | _ => true end.
Lemma Qn_trivial i : trivial_val (bi_val i) = true -> Qn i.
Proof. unfold Qn. destruct (bi_val i); try discriminate; intros _; (split; [reflexivity | discriminate]). Qed.

Lemma try_inserting_qi st c po st' :
  try_inserting_table_header_paragraph st c po = Ok st' ->
  (forall cn, get st c = Ok cn -> is_paragraph cn = true) -> QI st -> QI st'.
Proof.
  unfold try_inserting_table_header_paragraph. intros H Hc P.
  destruct (get st c) as [cn| |] eqn:G; cbn [bind] in H; try discriminate H.
  pose proof (is_paragraph_val _ (Hc _ eq_refl)) as Bv. pose proof (get_qn _ _ _ P G) as [_ Qc].
  unfold bval in Bv. destruct (Qc Bv) as [Q1 Q2].
  mstep H; [discriminate H|]. cbv zeta in H. rewrite trim_ok in H. cbn [bind] in H.
  mon H; monall; try exact P.
  match goal with M : modify_info _ _ _ = Ok ?s |- _ => assert (P1 : QI s) end.
  { eapply modify_info_qi; [eassumption | | apply QI_st_next; exact P]. qn_side. }
  eapply edit_root_qi; [eassumption | exact P1 |].
  intros pk pre x post K. cbv beta. destruct (can_contain pk KParagraph); [|exact K].
  apply Forall_app in K. destruct K as [K1 K2]. apply Forall_app. split; [exact K1|].
  cbn [app]. constructor; [|exact K2]. apply all_info_node. split; [|constructor].
  unfold Qn. cbn. split; [reflexivity|]. intros _.
  match goal with U : Blocks.from_utf8 _ _ = Ok _ |- _ => unfold Blocks.from_utf8 in U; match type of U with (if ?bb then _ else _) = _ => destruct bb; [|discriminate U] end; inversion U; subst end.
  match goal with C : copy_line_offsets _ _ _ = Ok _ |- _ => rewrite (copy_line_offsets_length _ _ _ _ C) end.
  split.
  - apply nonul_trim, nonul_unescape_pipes, nonul_firstn. exact Q1.
  - apply cnl_trim.
Qed.

Lemma header_cells_qn : forall cells id ln sl sc po l, header_cells cells id ln sl sc po = Ok l -> Forall (all_info Qn) l.
Proof.
  induction cells as [|c r IH]; intros id ln sl sc po l H; cbn [header_cells] in H.
  - inversion H. constructor.
  - mon H. constructor; [|eapply IH; eassumption].
    apply all_info_node. split; [|constructor]. apply Qn_trivial. reflexivity.
Qed.

Lemma try_opening_header_qi o st c line r st' :
  try_opening_header o st c line = Ok (r, st') ->
  (forall cn, get st c = Ok cn -> is_paragraph cn = true) -> QI st -> QI st'.
Proof.
  unfold try_opening_header. intros H Hc P.
  destruct (get st c) as [cn0| |] eqn:G0; cbn [bind] in H; try discriminate H.
  pose proof (Hc _ eq_refl) as Hp. clear Hc.
  mon H; monall; try exact P;
  match goal with
  | I : try_inserting_table_header_paragraph _ _ _ = Ok ?s |- _ =>
    assert (P1 : QI s)
      by (eapply try_inserting_qi; [exact I | intros cn' G'; rewrite G0 in G'; inversion G'; subst; exact Hp | exact P])
  | _ => pose proof P as P1
  end;
  (eapply edit_root_qi; [eassumption | eauto 10 with qi |]);
  intros pk pre x post K; cbv beta; (destruct (is_paragraph x); [|exact K]);
  apply Forall_app in K; destruct K as [K1 K2]; inversion K2; subst;
  apply Forall_app; (split; [exact K1|]); cbn [app]; (constructor; [|assumption]);
  apply all_info_node; (split; [apply Qn_trivial; reflexivity|]);
  (constructor; [|constructor]); apply all_info_node;
  (split; [apply Qn_trivial; reflexivity|]);
  eapply header_cells_qn; eassumption.
Qed.

Lemma row_cells_qn : forall n cells id ln sc lc l lc', row_cells n cells id ln sc lc = Ok (l, lc') -> Forall (all_info Qn) l.
Proof.
  induction n as [|m IH]; intros cells id ln sc lc l lc' H; cbn [row_cells] in H.
  - destruct cells; inversion H; subst; constructor.
  - destruct cells as [|c r]; [inversion H; subst; constructor|].
    mon H. repeat match goal with p : (_ * _)%type |- _ => destruct p end. cbn [fst snd] in *.
    constructor; [|eapply IH; eassumption]. apply all_info_node. split; [|constructor]. apply Qn_trivial. reflexivity.
Qed.

Lemma filler_cells_qn : forall n id ln lc, Forall (all_info Qn) (filler_cells n id ln lc).
Proof.
  induction n as [|m IH]; intros id ln lc; cbn [filler_cells]; constructor; [|apply IH].
  apply all_info_node. split; [|constructor]. apply Qn_trivial. reflexivity.
Qed.

Lemma try_opening_row_qi o st c t line r st' : try_opening_row o st c t line = Ok (r, st') -> QI st -> QI st'.
Proof.
  unfold try_opening_row. intros H P.
  mon H; monall; try exact P.
  match goal with M : modify _ _ _ = Ok ?s |- _ => assert (QI s) end.
  { eapply modify_qi; [apply QI_st_next; exact P | eassumption |].
    intros nn Fn An. destruct nn as [i ch]. apply all_info_node in An. destruct An as [Ai Ak].
    apply all_info_node. split; [apply Qn_trivial; reflexivity|].
    apply Forall_app. split; [exact Ak|]. constructor; [|constructor].
    apply all_info_node. split; [apply Qn_trivial; reflexivity|].
    apply Forall_app. split; [eapply row_cells_qn; eassumption | apply filler_cells_qn]. }
  eauto 10 with qi.
Qed.

Lemma try_opening_block_qi o st c line r st' : try_opening_block o st c line = Ok (r, st') -> QI st -> QI st'.
Proof.
  unfold try_opening_block. intros H P.
  destruct (get st c) as [cn| |] eqn:G; cbn [bind] in H; try discriminate H.
  destruct (bval cn) eqn:Bv; try (inversion H; subst; exact P).
  - eapply try_opening_header_qi; [exact H | | exact P].
    intros cn' G'. rewrite G in G'. inversion G'; subst. unfold is_paragraph. now rewrite Bv.
  - eapply try_opening_row_qi; [exact H | exact P].
Qed.

(* ================================================================== description lists *)
Lemma reopen_qi : forall fuel st id st', reopen_ast_nodes fuel st id = Ok st' -> QI st -> QI st'.
Proof. induction fuel as [|f IH]; intros st id st' H P; cbn [reopen_ast_nodes] in H; qigo H. Qed.
#[export] Hint Resolve reopen_qi : qi.

Lemma parse_desc_list_details_qi o st c m b c' st' : parse_desc_list_details o st c m = Ok (b, c', st') -> QI st -> QI st'.
Proof.
  unfold parse_desc_list_details. intros H P.
  destruct (get st c) as [cn| |] eqn:G; cbn [bind] in H; try discriminate H.
  match type of H with bind ?r _ = _ => destruct r as [[[[tight c1] lc]|]| |] eqn:R; cbn [bind] in H; try discriminate H end;
    [|inversion H; subst; exact P].
  assert (Alc : all_info Qn lc).
  { pose proof (get_allq _ _ _ P G) as Ac.
    destruct (last_opt (bkids cn)) eqn:Lk.
    - inversion R; subst. eapply last_kid_all; eassumption.
    - mon R. eapply last_kid_all; [eapply get_allq; [exact P | eassumption] | eassumption]. }
  clear R.
  destruct (bval lc) eqn:Bl; try (inversion H; subst; exact P).
  - (* DescriptionItem *) qigo H.
  - (* Paragraph *)
    mon H; monall; repeat match goal with p : (_ * _)%type |- _ => destruct p end; cbn [fst snd] in *;
    match goal with A : add_child_gen _ ?s _ DescriptionTerm _ _ _ = Ok (_, ?s') |- _ =>
      assert (QI s -> QI s') by
        (intro; eapply add_child_gen_qi; [exact A | auto | reflexivity | constructor; [exact Alc | constructor] | assumption])
    end; eauto 20 with qi.
Qed.

(* ================================================================== the handlers of open_new_blocks *)
Section handlers.
Variables (o : bopts) (line : bytes).
Hypothesis HLine : LOK line.

Lemma handle_alert_qi st c ind b c' st' : handle_alert o st c line ind = Ok (b, c', st') -> QI st -> QI st'.
Proof. unfold handle_alert. intros H P. qigo H. Qed.
Lemma handle_mbq_qi st c ind b c' st' : handle_multiline_blockquote o st c line ind = Ok (b, c', st') -> QI st -> QI st'.
Proof. unfold handle_multiline_blockquote, rest_at_fns. intros H P. qigo H. Qed.
Lemma handle_blockquote_qi st c ind b c' st' : handle_blockquote o st c line ind = Ok (b, c', st') -> QI st -> QI st'.
Proof. unfold handle_blockquote. intros H P. qigo H. Qed.
Lemma handle_atx_qi st c ind b c' st' : handle_atx_heading o st c line ind = Ok (b, c', st') -> QI st -> QI st'.
Proof.
  unfold handle_atx_heading, rest_at_fns. intros H P. mon H; monall; repeat match goal with p : (_ * _)%type |- _ => destruct p end; cbn [fst snd] in *; eauto with qi.
  eapply add_child_gen_qi; [eassumption | | reflexivity | constructor | eauto with qi].
  intros i Ev Hi. apply Qn_trivial. destruct i; reflexivity.
Qed.
Lemma handle_code_fence_qi st c ind b c' st' : handle_code_fence o st c line ind = Ok (b, c', st') -> QI st -> QI st'.
Proof. unfold handle_code_fence, rest_at_fns. intros H P. qigo H. Qed.
Lemma handle_html_block_qi st c ind b c' st' : handle_html_block o st c line ind = Ok (b, c', st') -> QI st -> QI st'.
Proof.
  unfold handle_html_block, rest_at_fns. intros H P.
  mstep H; [inversion H; subst; exact P|]. mstep H. mstep H. cbv zeta in H.
  match type of H with match ?m with _ => _ end = _ => destruct m as [matched|] eqn:M; [|inversion H; subst; exact P] end.
  assert (R : 1 <= matched <= 7).
  { destruct (scan_html_block_start a) as [m1|] eqn:S1.
    - inversion M; subst. pose proof (scan_html_block_start_range _ _ S1). lia.
    - destruct (negb (is_paragraph a0)); [|discriminate M]. pose proof (scan_html_block_start_7_range _ _ M). lia. }
  mon H. repeat match goal with p : (_ * _)%type |- _ => destruct p end. cbn [fst snd] in *.
  eapply add_child_qi; [eassumption | now apply hb_ok_range | exact P].
Qed.
Lemma handle_footnote_qi st c ind d b c' st' : handle_footnote o st c line ind d = Ok (b, c', st') -> QI st -> QI st'.
Proof. unfold handle_footnote, rest_at_fns. intros H P. qigo H. Qed.
Lemma list_spaces_loop_qi sc : forall fuel st st', list_spaces_loop fuel st line sc = Ok st' -> QI st -> QI st'.
Proof. induction fuel as [|f IH]; intros st st' H P; cbn [list_spaces_loop] in H; qigo H. Qed.
Hint Resolve list_spaces_loop_qi : qi.
Lemma handle_list_qi st c ind d b c' st' : handle_list o st c line ind d = Ok (b, c', st') -> QI st -> QI st'.
Proof. unfold handle_list. intros H P. qigo H. Qed.
Lemma handle_code_block_qi st c ind ml b c' st' : handle_code_block o st c line ind ml = Ok (b, c', st') -> QI st -> QI st'.
Proof. unfold handle_code_block. intros H P. qigo H. Qed.

Lemma handle_setext_qi st c ind b c' st' : handle_setext_heading o st c line ind = Ok (b, c', st') -> QI st -> QI st'.
Proof.
  unfold handle_setext_heading, rest_at_fns. intros H P.
  mstep H; [inversion H; subst; exact P|].
  destruct (get st c) as [cn| |] eqn:G; cbn [bind] in H; try discriminate H.
  destruct (is_paragraph cn) eqn:Pa; cbn [negb] in H; [|inversion H; subst; exact P].
  apply is_paragraph_val in Pa. pose proof (get_qn _ _ _ P G) as Qc.
  mon H; monall; repeat match goal with p : (_ * _)%type |- _ => destruct p end; cbn [fst snd] in *; eauto 10 with qi;
  match goal with R : resolve_refdefs _ _ _ = Ok _ |- _ => destruct (resolve_refdefs_suffix _ _ _ _ _ _ R) as [kk Ek] end;
  match goal with M1 : modify_info (st_refmap st _) _ _ = Ok ?s1 |- _ => assert (P1 : QI s1) end;
  try (eapply modify_info_get_qi; [eassumption | exact G | | apply QI_st_refmap; exact P]; intros _;
       destruct cn as [i ch]; destruct i; unfold bval, Qn in *; cbn in *; subst; cbn in *;
       first [ split; [reflexivity | discriminate]
             | (split; [reflexivity|]; intros _; destruct Qc as [_ Qc]; destruct (Qc eq_refl) as [Q1 Q2];
                split; [now apply nonul_skipn | eapply Nat.le_trans; [apply cnl_skipn | exact Q2]]) ]);
  eauto 10 with qi.
Qed.

Lemma handle_thematic_break_qi st c ind am b c' st' : handle_thematic_break o st c line ind am = Ok (b, c', st') -> QI st -> QI st'.
Proof. unfold handle_thematic_break. intros H P. qigo H. Qed.

Lemma handle_description_list_qi st c ind b c' st' : handle_description_list o st c line ind = Ok (b, c', st') -> QI st -> QI st'.
Proof.
  unfold handle_description_list, rest_at_fns. intros H P.
  mon H; monall; repeat match goal with p : (_ * _)%type |- _ => destruct p end; cbn [fst snd] in *; try exact P;
  match goal with D : parse_desc_list_details _ _ _ _ = Ok (_, _, ?s) |- _ =>
    assert (QI s) by (eapply parse_desc_list_details_qi; eassumption) end; eauto with qi.
Qed.

Hint Resolve handle_alert_qi handle_mbq_qi handle_blockquote_qi handle_atx_qi handle_code_fence_qi
  handle_html_block_qi handle_setext_qi handle_thematic_break_qi handle_footnote_qi
  handle_description_list_qi handle_list_qi handle_code_block_qi : qi.

Lemma or_else_h_qi (r : hres) k b c st st' :
  or_else_h r k = Ok (b, c, st') -> QI st ->
  (forall b1 c1 s1, r = Ok (b1, c1, s1) -> QI st -> QI s1) ->
  (forall c1 s1 b2 c2 s2, k c1 s1 = Ok (b2, c2, s2) -> QI s1 -> QI s2) ->
  QI st'.
Proof.
  unfold or_else_h. intros H P Hr Hk.
  destruct r as [[[b1 c1] s1]| |]; cbn [bind] in H; try discriminate H.
  destruct b1.
  - inversion H; subst. eapply Hr; [reflexivity | exact P].
  - eapply Hk; [exact H|]. eapply Hr; [reflexivity | exact P].
Qed.

Ltac chain_q :=
  match goal with
  | R : or_else_h _ _ = Ok _ |- QI _ =>
    eapply (or_else_h_qi _ _ _ _ _ _ R); clear R;
    [ eassumption | intros ? ? ? ? ?; eauto with qi | intros ? ? ? ? ? R ?; cbv beta in R; chain_q ]
  | |- QI _ => eauto with qi
  end.

(* the state after the chain of handlers *)
Lemma handlers_chain_qi st ind am ml d c hd c1 s1 :
  or_else_h (handle_alert o st c line ind) (fun container st =>
          or_else_h (handle_multiline_blockquote o st container line ind) (fun container st =>
          or_else_h (handle_blockquote o st container line ind) (fun container st =>
          or_else_h (handle_atx_heading o st container line ind) (fun container st =>
          or_else_h (handle_code_fence o st container line ind) (fun container st =>
          or_else_h (handle_html_block o st container line ind) (fun container st =>
          or_else_h (handle_setext_heading o st container line ind) (fun container st =>
          or_else_h (handle_thematic_break o st container line ind am) (fun container st =>
          or_else_h (handle_footnote o st container line ind d) (fun container st =>
          or_else_h (handle_description_list o st container line ind) (fun container st =>
          or_else_h (handle_list o st container line ind d) (fun container st =>
          handle_code_block o st container line ind ml))))))))))) = Ok (hd, c1, s1) -> QI st -> QI s1.
Proof. intros R P. chain_q. Qed.

Lemma open_new_blocks_step_qi st c am ml d g c' st' :
  open_new_blocks_step o st c line am ml d = Ok (g, c', st') -> QI st -> QI st'.
Proof.
  unfold open_new_blocks_step. intros H P.
  destruct (ffn st line) as [s0| |] eqn:F0; cbn [bind] in H; try discriminate H.
  assert (P0 : QI s0) by eauto with qi.
  match type of H with bind ?r _ = _ => destruct r as [[[hd c1] s1]| |] eqn:R; cbn [bind] in H; try discriminate H end.
  assert (P1 : QI s1) by (eapply handlers_chain_qi; eassumption).
  clear R.
  destruct hd.
  - qigo H.
  - destruct (negb (Nat.leb code_indent (indent s0)) && bo_table o) eqn:Tb.
    + destruct (try_opening_block o s1 c1 line) as [[tr s2]| |] eqn:TO; cbn [bind] in H; try discriminate H.
      assert (P2 : QI s2) by (eapply try_opening_block_qi; eassumption).
      destruct tr; qigo H.
    + qigo H.
Qed.
Hint Resolve open_new_blocks_step_qi : qi.

Lemma open_new_blocks_loop_qi am : forall fuel st c ml d c' st',
  open_new_blocks_loop fuel o st c line am ml d = Ok (c', st') -> QI st -> QI st'.
Proof. induction fuel as [|f IH]; intros st c ml d c' st' H P; cbn [open_new_blocks_loop] in H; qigo H. Qed.
Hint Resolve open_new_blocks_loop_qi : qi.

Lemma open_new_blocks_qi st c am c' st' : open_new_blocks o st c line am = Ok (c', st') -> QI st -> QI st'.
Proof. unfold open_new_blocks. intros H P. qigo H. Qed.

Lemma clear_llb_up_qi : forall fuel st id st', clear_llb_up fuel st id = Ok st' -> QI st -> QI st'.
Proof. induction fuel as [|f IH]; intros st id st' H P; cbn [clear_llb_up] in H; qigo H. Qed.

Lemma finalize_up_to_qi target site : forall fuel st st', finalize_up_to fuel o st target site = Ok st' -> QI st -> QI st'.
Proof. induction fuel as [|f IH]; intros st st' H P; cbn [finalize_up_to] in H; qigo H. Qed.

(* add_line with any LOK line (chop_trailing_hashtags hands it a prefix of the line) *)
Lemma from_utf8_ok site b a : Blocks.from_utf8 site b = Ok a -> a = b.
Proof. unfold Blocks.from_utf8. destruct (EscapeSpec.utf8_valid b); intro H; now inversion H. Qed.

Lemma Qn_add_line i pad s off : Qn i -> nonul pad -> cnl pad = 0 -> nonul s -> cnl s <= 1 ->
  Qn (set_lo (bi_lo i ++ [off]) (set_content ((bi_content i ++ pad) ++ s) i)).
Proof.
  destruct i as [f1 f2 f3 f4 f5 f6 f7 f8 f9 f10 f11 f12]. unfold Qn. cbn [bi_val bi_content bi_lo set_lo set_content]. intros [A B] P1 P2 S1 S2. split; [exact A|].
  intro Ev. destruct (B Ev) as [Q1 Q2]. split; [repeat apply nonul_app; assumption|].
  rewrite !cnl_app, app_length. cbn [List.length]. lia.
Qed.
Lemma Qn_add_pad i pad : Qn i -> nonul pad -> cnl pad = 0 -> Qn (set_content (bi_content i ++ pad) i).
Proof.
  destruct i as [f1 f2 f3 f4 f5 f6 f7 f8 f9 f10 f11 f12]. unfold Qn. cbn [bi_val bi_content bi_lo set_lo set_content]. intros [A B] P1 P2. split; [exact A|].
  intro Ev. destruct (B Ev) as [Q1 Q2]. split; [repeat apply nonul_app; assumption|].
  rewrite !cnl_app. lia.
Qed.

Lemma add_line_qi_gen l st id st' : LOK l -> add_line st id l = Ok st' -> QI st -> QI st'.
Proof.
  unfold add_line. intros [L1 L2] H P.
  destruct (get st id) as [n| |] eqn:G; cbn [bind] in H; try discriminate H.
  pose proof (get_qn _ _ _ P G) as Qc.
  destruct (negb (bi_open (binf n))); [discriminate H|]. cbv zeta in H.
  destruct (c_pct (ps_cur st)); cbv iota beta in H;
  (mstep H; mon E; try match goal with U : Blocks.from_utf8 _ _ = Ok _ |- _ => apply from_utf8_ok in U; subst end; mon H; apply QI_st_cur;
   (eapply modify_info_const_qi; [eassumption | exact G | | exact P]); intros _;
   first [ apply Qn_add_line; [exact Qc | first [apply nonul_repeat | apply nonul_nil] | first [apply cnl_repeat | reflexivity]
                              | now apply nonul_skipn | eapply Nat.le_trans; [apply cnl_skipn | exact L2]]
         | apply Qn_add_pad; [exact Qc | first [apply nonul_repeat | apply nonul_nil] | first [apply cnl_repeat | reflexivity]] ]).
Qed.
End handlers.

(* ================================================================== add_text_to_container, process_line, parse_blocks *)
Lemma nonul_rtrim s : nonul s -> nonul (rtrim_slice s).
Proof. intros H b Hb. apply H. unfold rtrim_slice in Hb. apply in_rev in Hb. apply in_drop_while in Hb. now apply in_rev in Hb. Qed.
Lemma cnl_rtrim s : cnl (rtrim_slice s) <= cnl s.
Proof. unfold rtrim_slice. rewrite cnl_rev. eapply Nat.le_trans; [apply cnl_drop_while|]. now rewrite cnl_rev. Qed.

Lemma chop_lok l l1 : chop_trailing_hashtags l = Ok l1 -> LOK l -> LOK l1.
Proof.
  unfold chop_trailing_hashtags. rewrite rtrim_ok. cbn [bind fst]. intros H [L1 L2].
  assert (B : LOK (rtrim_slice l)) by (split; [now apply nonul_rtrim | eapply Nat.le_trans; [apply cnl_rtrim | exact L2]]).
  destruct (rtrim_slice l) as [|x r] eqn:R; [discriminate H|]. rewrite <- R in *. clear R.
  destruct (Nat.leb _ _); [inversion H; subst; exact B|].
  destruct (nth_error _ _); [|discriminate H].
  destruct (_ && _); [|inversion H; subst; exact B].
  rewrite rtrim_ok in H. cbn [bind fst] in H. inversion H; subst. destruct B as [B1 B2]. split.
  - apply nonul_rtrim, nonul_firstn. exact B1.
  - eapply Nat.le_trans; [apply cnl_rtrim|]. eapply Nat.le_trans; [apply cnl_firstn | exact B2].
Qed.

Section text.
Variables (o : bopts) (line : bytes).
Hypothesis HLine : LOK line.

Lemma add_line_qi st id st' : add_line st id line = Ok st' -> QI st -> QI st'.
Proof. now apply add_line_qi_gen. Qed.
Hint Resolve add_line_qi clear_llb_up_qi finalize_up_to_qi : qi.

Lemma add_text_to_container_qi st c lm st' : add_text_to_container o st c lm line = Ok st' -> QI st -> QI st'.
Proof.
  unfold add_text_to_container. intros H P.
  destruct (ffn st line) as [s0| |] eqn:E0; cbn [bind] in H; try discriminate H. assert (P0 : QI s0) by eauto with qi.
  destruct (get s0 c) as [cn| |] eqn:G0; cbn [bind] in H; try discriminate H.
  match type of H with bind ?r _ = _ => destruct r as [s1| |] eqn:E1; cbn [bind] in H; try discriminate H end.
  assert (P1 : QI s1) by (mon E1; eauto with qi).
  match type of H with bind ?r _ = _ => destruct r as [s2| |] eqn:E2; cbn [bind] in H; try discriminate H end.
  assert (P2 : QI s2) by eauto with qi.
  match type of H with bind ?r _ = _ => destruct r as [s3| |] eqn:E3; cbn [bind] in H; try discriminate H end.
  assert (P3 : QI s3) by eauto with qi.
  match type of H with bind ?r _ = _ => destruct r as [lz| |] eqn:E4; cbn [bind] in H; try discriminate H end.
  destruct lz; [eauto with qi|].
  match type of H with bind ?r _ = _ => destruct r as [s4| |] eqn:E5; cbn [bind] in H; try discriminate H end.
  assert (P4 : QI s4) by eauto with qi.
  destruct (get s4 c) as [c4| |] eqn:G4; cbn [bind] in H; try discriminate H.
  match type of H with bind ?r _ = _ => destruct r as [[rc rs]| |] eqn:E6; cbn [bind fst snd] in H; try discriminate H end.
  inversion H; subst. apply QI_st_current. clear H E1 E2 E3 E4 E5.
  destruct (bval c4); mon E6; repeat match goal with p : (_ * _)%type |- _ => destruct p end; cbn [fst snd] in *;
  try match goal with E2 : (if negb _ then chop_trailing_hashtags line else Ok line) = Ok _ |- _ => mon E2 end;
  repeat match goal with E2 : Ok _ = Ok _ |- _ => inversion E2; subst; clear E2 end;
  first [ solve [eauto 10 with qi]
        | (eapply add_line_qi_gen; [ | eassumption | ]; [first [exact HLine | eapply chop_lok; [eassumption | exact HLine]] | eauto with qi]) ].
Qed.
End text.

Lemma process_line_qi o st line0 st' : LOK (norm_line line0) -> process_line o st line0 = Ok st' -> QI st -> QI st'.
Proof.
  unfold process_line. intros HL H P.
  match type of H with context [check_open_blocks o ?s ?l] => assert (P0 : QI s) by (apply QI_st_line_number, QI_st_cur, QI_st_curline; exact P) end.
  mon H; monall; repeat match goal with p : (_ * _)%type |- _ => destruct p end; cbn [fst snd] in *;
  apply QI_st_curline; apply QI_st_last_line_length;
  repeat match goal with
         | C : check_open_blocks _ _ _ = Ok (_, ?s) |- _ =>
           assert (QI s) by (eapply check_open_blocks_qi; eassumption); clear C
         | C : open_new_blocks _ _ _ _ _ = Ok (_, ?s) |- _ =>
           assert (QI s) by (eapply open_new_blocks_qi; eassumption); clear C
         | C : add_text_to_container _ _ _ _ _ = Ok ?s |- _ =>
           assert (QI s) by (eapply add_text_to_container_qi; eassumption); clear C
         end; assumption.
Qed.

Lemma process_lines_qi o : forall ls st st', Forall (fun l => LOK (norm_line l)) ls -> process_lines o st ls = Ok st' -> QI st -> QI st'.
Proof.
  induction ls as [|l r IH]; intros st st' F H P; cbn [process_lines] in H.
  - now inversion H; subst.
  - inversion F; subst. destruct (process_line o st l) as [s1| |] eqn:E; cbn [bind] in H; try discriminate H.
    eapply IH; [assumption | exact H|]. eapply process_line_qi; eassumption.
Qed.

Lemma QI_init : QI init_state.
Proof. constructor. cbn [ps_root init_state all_info]. split; [|exact I]. apply Qn_trivial. reflexivity. Qed.

Lemma front_matter_prologue_qi o x st rest : front_matter_prologue o init_state x = Ok (st, rest) -> QI st.
Proof.
  unfold front_matter_prologue. intro H.
  destruct (bo_front_matter_delimiter o) as [d|]; [|inversion H; subst; apply QI_init].
  mon H; monall; repeat match goal with p : (_ * _)%type |- _ => destruct p end; cbn [fst snd] in *; try apply QI_init.
  apply QI_st_line_number.
  eapply modify_info_qi; [eassumption | qn_side |].
  eapply unwrap_parent_fin_qi; [eassumption|]. eapply add_child_qi; [eassumption | reflexivity | apply QI_init].
Qed.

Lemma lines_lok x : Forall (fun l => LOK (norm_line l)) (lines x).
Proof. pose proof (lines_clean x) as C. induction C; constructor; [now apply clean_line_lok | assumption]. Qed.

Lemma finalize_document_qi o st st' : finalize_document o st = Ok st' -> QI st -> QI st'.
Proof.
  unfold finalize_document. intros H P. mon H; monall. repeat match goal with p : (_ * _)%type |- _ => destruct p end. cbn [fst snd] in *.
  eapply finalize_qi; [eassumption|]. eapply finalize_up_to_qi; eassumption.
Qed.

(* the stored-value invariant holds of the tree the block phase answers: every input, every option set *)
Theorem parse_blocks_val o x r : parse_blocks o x = Ok r -> all_info Qn (br_root r).
Proof.
  unfold parse_blocks. intro H.
  destruct (front_matter_prologue o init_state x) as [[st rest]| |] eqn:E; cbn [bind] in H; try discriminate H.
  pose proof (front_matter_prologue_qi _ _ _ _ E) as P.
  pose proof (lines_lok rest) as LK. unfold lines in LK. destruct (feed_lines rest) as [ls total]. cbn [fst] in LK.
  unfold run_lines in H.
  destruct (process_lines o st ls) as [s1| |] eqn:R; cbn [bind] in H; try discriminate H.
  destruct (finalize_document o s1) as [s2| |] eqn:F; cbn [bind] in H; try discriminate H.
  inversion H; subst. cbn [br_root]. apply QI_all.
  eapply finalize_document_qi; [exact F|]. eapply process_lines_qi; eassumption.
Qed.
