(* Proofs/LeafPremMain.v — C01, the premises of the inline phase, part 4: from the per-node clause of the block phase
   (LeafPremWalk.parse_blocks_leaves) to the leaves the inline phase visits (Parse.bleaves), and the inline phase.

   PROVED for every leaf of the tree parse_blocks answers (every input, every option set; no premise on the input: on the
   Ok path every from_utf8 of the block phase succeeded), with c = rtrim_slice content:
       c = [] \/ (has_nul c = false /\ utf8_valid c = true /\ line_endings c < |line_offsets|)
   and for a TableCell also first_line_not_blank c (the cell is `trim`med and holds no line end).
   The clause first_line_not_blank for Paragraph / Heading leaves is Proofs/LeafPremFirst.v (assembled in
   Proofs/LeafPremFirstMain.v); here it is still the premise of inline_phase_total_blocks. *)
From Coq Require Import List NArith Arith Bool Lia Strings.String.
From V Require Import Base.Bytes Base.Res Gen.StrLeafGen Model.Ast Model.Strings Spec.EscapeSpec Model.RefDef Model.Blocks Model.Inlines Model.Parse
  Spec.ParseValidSpec Proofs.StrLeafProofs Proofs.BlocksProofs Proofs.BlocksPos Proofs.BlocksTotal Proofs.BlocksTotal6Val Proofs.InlinesTotal2
  Proofs.InertParseContent Proofs.ParseCellsWalk Proofs.InlinesTotal4Leaves Proofs.LeafPremBytes Proofs.LeafPremRow Proofs.LeafPremWalk.
Import ListNotations.
Local Open Scope list_scope.

Lemma leafv_contains v : leafv v = contains_inlines v. Proof. reflexivity. Qed.

Lemma bleaves_P (P : binfo -> Prop) : forall t path p i,
  all_info (fun j => contains_inlines (bi_val j) = true -> P j) t -> In (p, i) (bleaves path t) -> P i.
Proof.
  induction t as [i0 ch IH] using bnode_ind2. intros path p i V Hin. cbn [bleaves] in Hin.
  apply all_info_node in V. destruct V as [Vi Vk].
  destruct (contains_inlines (bi_val i0)) eqn:L.
  - destruct Hin as [Hin | []]. inversion Hin; subst. apply Vi. reflexivity.
  - clear Vi L. revert Hin. generalize 0 as k.
    induction ch as [|c r IHr]; intros k Hin; [destruct Hin |].
    inversion IH as [|? ? IHc IHrest]; subst. inversion Vk; subst.
    apply in_app_or in Hin. destruct Hin as [Hin | Hin].
    + eapply IHc; eassumption.
    + eapply IHr; eassumption.
Qed.

(* every leaf the inline phase visits satisfies LP *)
Theorem parse_blocks_leaf_LP o x r p i :
  parse_blocks o x = Ok r -> In (p, i) (bleaves [] (br_root r)) -> LP (bi_content i) (bi_lo i).
Proof.
  intros H Hin. eapply (bleaves_P (fun j => LP (bi_content j) (bi_lo j))); [|exact Hin].
  exact (parse_blocks_leaves _ _ _ H).
Qed.

(* ------------------------------------------------------------------ LP in the terms of the inline phase *)
Lemma rtrim_split s : exists q, s = rtrim_slice s ++ q /\ allws q = true.
Proof.
  induction s as [|b r IH] using rev_ind; [exists []; split; reflexivity|].
  destruct (sl_isspace b) eqn:E.
  - rewrite rtrim_app_ws by (cbn; now rewrite E). destruct IH as (q & Eq & Wq).
    exists (q ++ [b]). split; [rewrite app_assoc, <- Eq; reflexivity|]. unfold allws in *. rewrite forallb_app, Wq. cbn. now rewrite E.
  - rewrite rtrim_app_nws by (cbn; now rewrite E). unfold rtrim_slice at 1. cbn [rev app drop_while]. rewrite E. cbn [rev app].
    exists []. split; [now rewrite app_nil_r | reflexivity].
Qed.

Lemma allws_ascii q : allws q = true -> forallb is_ascii q = true.
Proof.
  unfold allws. intro H. apply forallb_forall. intros b Hb. rewrite forallb_forall in H. specialize (H b Hb).
  destruct b; try discriminate H; reflexivity.
Qed.

Lemma rtrim_valid s : utf8_valid s = true -> utf8_valid (rtrim_slice s) = true.
Proof.
  intro V. destruct (rtrim_split s) as (q & E & W). rewrite E in V.
  eapply utf8_drop_ascii_suffix; [apply allws_ascii; exact W | exact V].
Qed.

Lemma cln_has_nul s : cln s -> has_nul s = false.
Proof.
  intro C. unfold has_nul. destruct (existsb (beqb x00) s) eqn:E; [|reflexivity]. exfalso.
  apply existsb_exists in E. destruct E as (b & Hb & Eb). apply beqb_eq in Eb. subst b. exact (proj1 (C _ Hb) eq_refl).
Qed.

Lemma LP_inline c lo : LP c lo ->
  rtrim_slice c = [] \/
  (has_nul (rtrim_slice c) = false /\ utf8_valid (rtrim_slice c) = true /\ line_endings (rtrim_slice c) < List.length lo).
Proof.
  intros (C1 & C2 & C3 & [C4|C4]); [now left | right].
  assert (Cr : cln (rtrim_slice c)) by (intros b Hb; apply C1; now apply in_rtrim).
  split; [now apply cln_has_nul|]. split; [now apply rtrim_valid|].
  rewrite line_endings_cnl; [exact C4 | intros b Hb; exact (proj2 (Cr b Hb))].
Qed.

(* the three clauses, for every leaf, every input, every option set *)
Theorem parse_blocks_leaf_clauses o x r p i :
  parse_blocks o x = Ok r -> In (p, i) (bleaves [] (br_root r)) ->
  let c := rtrim_slice (bi_content i) in
  c = [] \/ (has_nul c = false /\ utf8_valid c = true /\ line_endings c < List.length (bi_lo i)).
Proof. intros H Hin. apply LP_inline. eapply parse_blocks_leaf_LP; eassumption. Qed.

(* the inline phase after the block phase: total as soon as no Paragraph / Heading / TableCell starts with a blank line *)
Theorem inline_phase_total_blocks o u x r :
  parse_blocks (bopts_of o u) x = Ok r ->
  (forall p i, In (p, i) (bleaves [] (br_root r)) ->
     rtrim_slice (bi_content i) = [] \/ first_line_not_blank (rtrim_slice (bi_content i)) = true) ->
  exists t, inline_phase o u (br_root r) (br_refmap r) (br_max_ref_size r) = Ok t.
Proof.
  intros H Hf. apply inline_phase_total. intros p i Hin. unfold leaf_ok. cbv zeta.
  destruct (parse_blocks_leaf_clauses _ _ _ _ _ H Hin) as [E|(A & B & C)]; [now left|].
  destruct (Hf p i Hin) as [E|F]; [now left | right]. auto.
Qed.

(* and parse_document_model up to the text post-pass *)
Theorem parse_document_inline_phase o u x r :
  parse_blocks (bopts_of o u) x = Ok r ->
  (forall p i, In (p, i) (bleaves [] (br_root r)) ->
     rtrim_slice (bi_content i) = [] \/ first_line_not_blank (rtrim_slice (bi_content i)) = true) ->
  exists t1, inline_phase o u (br_root r) (br_refmap r) (br_max_ref_size r) = Ok t1 /\
             parse_document_model o u x = post_phase o (footnote_phase o u t1).
Proof.
  intros H Hf. destruct (inline_phase_total_blocks _ _ _ _ H Hf) as [t E]. exists t. split; [exact E|].
  unfold parse_document_model, after_blocks. rewrite H. cbn [bind]. rewrite E. reflexivity.
Qed.
