(* Proofs/ScanProofs.v — facts about the rule-block semantics (Base/Re2c.v) and about individual scanners
   (Model/Scan.v over the regenerated Gen/ScannersRe.v). *)
From Coq Require Import Strings.String.
From Coq Require Import List NArith Bool Lia.
From V Require Import Base.Bytes Base.Res Base.Regex Base.Re2c Proofs.RegexProofs.
From V Require Import Model.Ast Gen.ScannersRe Model.Scan.
From V Require Gen.Scanners.
Import ListNotations.
Local Open Scope list_scope.

(* ---------------------------------------------------------------- rule selection *)
Lemma pick_rule_sound rules w : forall best L x,
  pick_rule rules w best = Some (L, x) ->
  best = Some (L, x) \/ (In x rules /\ longest_match (rule_re x) w = Some L).
Proof.
  induction rules as [|y rules IH]; intros best L x H; simpl in H; [left; exact H |].
  apply IH in H. destruct H as [H | [H1 H2]]; [| right; split; [right; exact H1 | exact H2]].
  destruct (longest_match (rule_re y) w) as [n|] eqn:E; [| left; exact H].
  destruct best as [[m z]|].
  - destruct (Nat.ltb m n).
    + inversion H; subst. right. split; [left; reflexivity | exact E].
    + left. exact H.
  - inversion H; subst. right. split; [left; reflexivity | exact E].
Qed.

Lemma pick_rule_none rules w : forall best,
  pick_rule rules w best = None ->
  best = None /\ forall x, In x rules -> longest_match (rule_re x) w = None.
Proof.
  induction rules as [|y rules IH]; intros best H; simpl in H.
  - split; [exact H | intros x []].
  - apply IH in H. destruct H as [H1 H2].
    destruct (longest_match (rule_re y) w) as [n|] eqn:E.
    + destruct best as [[m z]|]; [destruct (Nat.ltb m n) |]; discriminate H1.
    + split; [exact H1 |]. intros x [<- | Hx]; [exact E | apply H2; exact Hx].
Qed.

(* the winner is a longest match among all rules *)
Lemma pick_rule_max rules w : forall best L x,
  pick_rule rules w best = Some (L, x) ->
  (forall m z, best = Some (m, z) -> m <= L) /\
  (forall y n, In y rules -> longest_match (rule_re y) w = Some n -> n <= L).
Proof.
  induction rules as [|y rules IH]; intros best L x H; simpl in H.
  - subst. split; [intros m z E; inversion E; lia | intros y n []].
  - apply IH in H. destruct H as [H1 H2]. split.
    + intros m z ->. destruct (longest_match (rule_re y) w) as [n|].
      * destruct (Nat.ltb m n) eqn:Lt.
        -- apply PeanoNat.Nat.ltb_lt in Lt. specialize (H1 n y eq_refl). lia.
        -- apply (H1 m z eq_refl).
      * apply (H1 m z eq_refl).
    + intros y' n [<- | Hy] E; [| eapply H2; eassumption].
      rewrite E in H1. destruct best as [[m z]|].
      * destruct (Nat.ltb m n) eqn:Lt.
        -- apply (H1 n y eq_refl).
        -- apply PeanoNat.Nat.ltb_ge in Lt. specialize (H1 m z eq_refl). lia.
      * apply (H1 n y eq_refl).
Qed.

Definition is_plain (x : rule) : bool := match x with RPlain _ _ => true | _ => false end.

(* a block of plain rules, no NUL padding: either no rule matches any prefix and the default action runs,
   or the action of a rule runs with the cursor at the end of that rule's longest match, which is the
   longest over all rules *)
Lemma run_rules_plain rules d s :
  forallb is_plain rules = true ->
  (run_rules rules d 0 s = mkOutcome d 1 0 /\
   forall x, In x rules -> longest_match (rule_re x) s = None) \/
  (exists r a L, In (RPlain r a) rules /\ longest_match r s = Some L /\
                 run_rules rules d 0 s = mkOutcome a L 0 /\
                 forall y n, In y rules -> longest_match (rule_re y) s = Some n -> n <= L).
Proof.
  intro Hp. unfold run_rules. simpl repeat. rewrite app_nil_r.
  destruct (pick_rule rules s None) as [[L x]|] eqn:E.
  - right. pose proof (pick_rule_max _ _ _ _ _ E) as [_ Hmax].
    apply pick_rule_sound in E. destruct E as [E | [Hin Hl]]; [discriminate E |].
    rewrite forallb_forall in Hp. pose proof (Hp _ Hin) as Hx. destruct x as [r a| |]; try discriminate Hx.
    exists r, a, L. repeat split; try assumption.
  - left. apply pick_rule_none in E. destruct E as [_ E]. split; [reflexivity | exact E].
Qed.

(* ---------------------------------------------------------------- byte classes used below *)
Lemma forall_bytes_impl (P Q : byte -> bool) :
  forallb (fun b => implb (P b) (Q b)) all_bytes = true -> forall b, P b = true -> Q b = true.
Proof.
  intros H b Hb. pose proof (forall_bytes _ H b) as G. simpl in G. rewrite Hb in G. exact G.
Qed.

Lemma cs_single n c b :
  Byte.to_N c = n -> cs_mem [(n, n)] b = true -> b = c.
Proof.
  intros <- H. simpl in H. rewrite orb_false_r in H. unfold in_range in H.
  apply andb_true_iff in H. destruct H as [H1 H2]. apply N.leb_le in H1. apply N.leb_le in H2.
  apply to_N_inj. unfold bN in *. lia.
Qed.

Lemma Forall_eq_repeat (c : byte) l : Forall (fun b => b = c) l -> l = repeat c (length l).
Proof. induction 1 as [|x l Hx _ IH]; simpl; [reflexivity | subst; f_equal; exact IH]. Qed.

Definition is_sp_tab (b : byte) : Prop := b = x20 \/ b = x09.
Definition is_cr_lf (b : byte) : Prop := b = x0d \/ b = x0a.

Lemma cs_sp_tab b : cs_mem [(9, 9)%N; (32, 32)%N] b = true -> is_sp_tab b.
Proof.
  intro H. cbn [cs_mem] in H. rewrite orb_false_r in H. apply orb_true_iff in H. destruct H as [H | H].
  - right. eapply cs_single with (n := 9%N); [reflexivity |]. simpl. rewrite H. reflexivity.
  - left. eapply cs_single with (n := 32%N); [reflexivity |]. simpl. rewrite H. reflexivity.
Qed.

Lemma cs_cr_lf b : cs_mem [(10, 10)%N; (13, 13)%N] b = true -> is_cr_lf b.
Proof.
  intro H. cbn [cs_mem] in H. rewrite orb_false_r in H. apply orb_true_iff in H. destruct H as [H | H].
  - right. eapply cs_single with (n := 10%N); [reflexivity |]. simpl. rewrite H. reflexivity.
  - left. eapply cs_single with (n := 13%N); [reflexivity |]. simpl. rewrite H. reflexivity.
Qed.

Lemma Forall_impl' {A} (P Q : A -> Prop) l : (forall a, P a -> Q a) -> Forall P l -> Forall Q l.
Proof. intros H F. eapply Forall_impl; eassumption. Qed.

Lemma firstn_split_app {A} n (s p : list A) : firstn n s = p -> s = p ++ skipn n s.
Proof. intros <-. symmetry. apply firstn_skipn. Qed.

(* ---------------------------------------------------------------- atx_heading_start *)
(* the rule list as regenerated from scanners.re:  [#]{1,6} ([ \t]+|[\r\n])  { return Some(cursor); } *)
Lemma rules_atx_shape :
  rules_atx_heading_start =
  [RPlain (Cat (Repeat 1 6 (Chr [(35, 35)%N]))
               (Alt (Plus (Chr [(9, 9)%N; (32, 32)%N])) (Chr [(10, 10)%N; (13, 13)%N]))) ActCursor]
  /\ default_atx_heading_start = ActNone /\ pad_atx_heading_start = 0.
Proof. repeat split. Qed.

(* shape of a line accepted by atx_heading_start: k hashes (1..6), then a run of spaces/tabs or one line end *)
Definition atx_shape (s : bytes) (n : nat) : Prop :=
  exists k ws rest,
    s = repeat x23 k ++ ws ++ rest /\ 1 <= k <= 6 /\ n = k + length ws /\
    ((ws <> [] /\ Forall is_sp_tab ws) \/ (exists c, ws = [c] /\ is_cr_lf c)).

Lemma atx_level_1_6 s n : scan_atx_heading_start s = Some n -> atx_shape s n.
Proof.
  unfold scan_atx_heading_start. destruct rules_atx_shape as (-> & -> & ->).
  match goal with |- context [run_rules ?rs _ _ _] => destruct (run_rules_plain rs ActNone s eq_refl)
    as [[E _] | (r & a & L & Hin & Hl & E & _)] end; rewrite E; unfold as_opt_usize; simpl; [discriminate |].
  destruct Hin as [Hin | []]. inversion Hin; subst r a. clear Hin E. intro H. inversion H; subst L. clear H.
  apply longest_match_spec in Hl. destruct Hl as (Hn & Hm & _).
  apply matches_Cat in Hm. destruct Hm as (s1 & s2 & E & H1 & H2).
  apply matches_Repeat_Chr in H1; [| lia]. destruct H1 as [Hk H1].
  apply (Forall_impl' _ (fun b => b = x23)) in H1; [| intro b; apply cs_single; reflexivity].
  apply Forall_eq_repeat in H1.
  exists (length s1), s2, (skipn n s). split; [| split; [exact Hk | split]].
  - rewrite <- H1, app_assoc, <- E. symmetry. apply firstn_skipn.
  - assert (length (firstn n s) = n) by (apply firstn_length_le; exact Hn).
    rewrite E, app_length in H. lia.
  - apply matches_Alt in H2. destruct H2 as [H2 | H2].
    + left. apply matches_Plus_Chr in H2. destruct H2 as [Hl H2]. split.
      * intros ->. simpl in Hl. lia.
      * eapply Forall_impl'; [apply cs_sp_tab | exact H2].
    + right. apply matches_Chr in H2. destruct H2 as (c & -> & Hc). exists c. split; [reflexivity | apply cs_cr_lf; exact Hc].
Qed.

(* and conversely every line of that shape is accepted (with some length) *)
Lemma atx_shape_accepted s n : atx_shape s n -> exists m, scan_atx_heading_start s = Some m.
Proof.
  intros (k & ws & rest & -> & Hk & -> & Hws).
  unfold scan_atx_heading_start. destruct rules_atx_shape as (-> & -> & ->).
  match goal with |- context [run_rules ?rs _ _ ?s] => destruct (run_rules_plain rs ActNone s eq_refl)
    as [[_ Hno] | (r & a & L & Hin & Hl & E & _)] end.
  - exfalso. specialize (Hno _ (or_introl eq_refl)). cbn [rule_re] in Hno.
    eapply longest_match_none with (m := k + length ws) in Hno.
    + apply Hno. rewrite app_assoc, firstn_app.
      replace (k + length ws - length (repeat x23 k ++ ws)) with 0 by (rewrite app_length, repeat_length; lia).
      rewrite firstn_all2 by (rewrite app_length, repeat_length; lia). simpl. rewrite app_nil_r.
      constructor.
      * apply matches_Repeat_Chr; [lia |]. rewrite repeat_length. split; [exact Hk |].
        apply Forall_forall. intros b Hb. apply repeat_spec in Hb. subst. reflexivity.
      * destruct Hws as [[Hne Hf] | (c & -> & Hc)].
        -- apply MAltL. apply matches_Plus_Chr. split; [destruct ws; [congruence | simpl; lia] |].
           eapply Forall_impl'; [| exact Hf]. intros b [-> | ->]; reflexivity.
        -- apply MAltR. constructor. destruct Hc as [-> | ->]; reflexivity.
    + rewrite !app_length, repeat_length. lia.
  - destruct Hin as [Hin | []]. inversion Hin; subst. rewrite E. exists L. reflexivity.
Qed.

(* ---------------------------------------------------------------- setext_heading_line *)
Lemma rules_setext_shape :
  rules_setext_heading_line =
  [RPlain (Cat (Plus (Chr [(61, 61)%N])) (Cat (Star (Chr [(9, 9)%N; (32, 32)%N])) (Chr [(10, 10)%N; (13, 13)%N])))
          (ActVariant "SetextChar::Equals"%string);
   RPlain (Cat (Plus (Chr [(45, 45)%N])) (Cat (Star (Chr [(9, 9)%N; (32, 32)%N])) (Chr [(10, 10)%N; (13, 13)%N])))
          (ActVariant "SetextChar::Hyphen"%string)]
  /\ default_setext_heading_line = ActNone /\ pad_setext_heading_line = 0.
Proof. repeat split. Qed.

Definition setext_byte (c : setext_char) : byte :=
  match c with SetextEquals => x3d | SetextHyphen => x2d end.

(* a run (>= 1) of the marker, optional spaces/tabs, one line end *)
Definition setext_shape (s : bytes) (ch : byte) : Prop :=
  exists k ws e rest,
    s = repeat ch k ++ ws ++ e :: rest /\ 1 <= k /\ Forall is_sp_tab ws /\ is_cr_lf e.

Lemma setext_rule_shape n c s L :
  Byte.to_N c = n ->
  longest_match (Cat (Plus (Chr [(n, n)])) (Cat (Star (Chr [(9, 9)%N; (32, 32)%N])) (Chr [(10, 10)%N; (13, 13)%N]))) s = Some L ->
  setext_shape s c.
Proof.
  intros Hc Hl. apply longest_match_spec in Hl. destruct Hl as (Hn & Hm & _).
  apply matches_Cat in Hm. destruct Hm as (s1 & s2 & E & H1 & H2).
  apply matches_Cat in H2. destruct H2 as (s3 & s4 & -> & H3 & H4).
  apply matches_Plus_Chr in H1. destruct H1 as [Hk H1].
  apply (Forall_impl' _ (fun b => b = c)) in H1; [| intro b; apply cs_single; exact Hc].
  apply Forall_eq_repeat in H1.
  apply matches_Star_Chr in H3. apply matches_Chr in H4. destruct H4 as (e & -> & He).
  exists (length s1), s3, e, (skipn L s). repeat split.
  - rewrite <- H1. apply firstn_split_app in E. rewrite E at 1. rewrite <- !app_assoc. reflexivity.
  - exact Hk.
  - eapply Forall_impl'; [apply cs_sp_tab | exact H3].
  - apply cs_cr_lf. exact He.
Qed.

Lemma setext_line_shape s c : scan_setext_heading_line s = Some c -> setext_shape s (setext_byte c).
Proof.
  unfold scan_setext_heading_line. destruct rules_setext_shape as (-> & -> & ->).
  match goal with |- context [run_rules ?rs _ _ _] => destruct (run_rules_plain rs ActNone s eq_refl)
    as [[E _] | (r & a & L & Hin & Hl & E & _)] end; rewrite E; unfold as_opt_setext; simpl; [discriminate |].
  destruct Hin as [Hin | [Hin | []]]; inversion Hin; subst r a; clear Hin E; simpl; intro H; inversion H; subst c; simpl.
  - eapply setext_rule_shape with (n := 61%N); [reflexivity | exact Hl].
  - eapply setext_rule_shape with (n := 45%N); [reflexivity | exact Hl].
Qed.

(* ---------------------------------------------------------------- prefixes and longest_match *)
Definition is_some {A} (o : option A) : bool := match o with Some _ => true | None => false end.

Lemma lm_some_prefix r s :
  is_some (longest_match r s) = true <-> exists p q, s = p ++ q /\ matches r p.
Proof.
  split.
  - destruct (longest_match r s) as [n|] eqn:E; [intros _ | discriminate].
    apply longest_match_spec in E. destruct E as (_ & Hm & _).
    exists (firstn n s), (skipn n s). split; [symmetry; apply firstn_skipn | exact Hm].
  - intros (p & q & -> & Hm). destruct (longest_match r (p ++ q)) eqn:E; [reflexivity |].
    exfalso. eapply longest_match_none with (m := length p) in E.
    + apply E. rewrite firstn_app, PeanoNat.Nat.sub_diag, firstn_all. simpl. rewrite app_nil_r. exact Hm.
    + rewrite app_length. lia.
Qed.

Lemma lm_some_length r s n :
  longest_match r s = Some n -> exists p q, s = p ++ q /\ matches r p /\ length p = n.
Proof.
  intro E. apply longest_match_spec in E. destruct E as (Hn & Hm & _).
  exists (firstn n s), (skipn n s). repeat split; [symmetry; apply firstn_skipn | exact Hm | apply firstn_length_le; exact Hn].
Qed.

(* ---------------------------------------------------------------- literals *)
Lemma chr_ci_Chr b : exists cs, chr_ci b = Chr cs.
Proof. unfold chr_ci. destruct (is_upper b); [eauto |]. destruct (is_lower b); eauto. Qed.

Lemma chr_ci_byte : forall b c,
  implb (negb (is_upper b)) (Bool.eqb (matchb (chr_ci b) [c]) (beqb (to_lower_ascii c) b)) = true.
Proof. apply forall_bytes2. vm_compute. reflexivity. Qed.

Lemma matches_chr_ci b p :
  is_upper b = false -> (matches (chr_ci b) p <-> exists c, p = [c] /\ to_lower_ascii c = b).
Proof.
  intro Hb.
  assert (G : forall c, matchb (chr_ci b) [c] = beqb (to_lower_ascii c) b).
  { intro c. pose proof (chr_ci_byte b c) as G. rewrite Hb in G. cbn [negb implb] in G.
    apply eqb_prop in G. exact G. }
  split.
  - intro H. destruct (chr_ci_Chr b) as [cs E]. pose proof H as H'. rewrite E in H'.
    apply matches_Chr in H'. destruct H' as (c & -> & _). exists c. split; [reflexivity |].
    apply matchb_spec in H. rewrite G in H. apply beqb_eq. exact H.
  - intros (c & -> & E). apply matchb_spec. rewrite G. apply beqb_eq. exact E.
Qed.

Lemma matches_lit_ci_cons b l p :
  matches (lit_ci (b :: l)) p <->
  exists p1 p2, p = p1 ++ p2 /\ matches (chr_ci b) p1 /\ matches (lit_ci l) p2.
Proof.
  destruct l as [|b' l].
  - simpl. split.
    + intro H. exists p, []. rewrite app_nil_r. repeat split; [exact H | constructor].
    + intros (p1 & p2 & -> & H1 & H2). apply matches_Eps in H2. subst. rewrite app_nil_r. exact H1.
  - change (lit_ci (b :: b' :: l)) with (Cat (chr_ci b) (lit_ci (b' :: l))). apply matches_Cat.
Qed.

Lemma lit_ci_length l : forall p, matches (lit_ci l) p -> length p = length l.
Proof.
  induction l as [|b l IH]; intros p H.
  - apply matches_Eps in H. subst. reflexivity.
  - apply matches_lit_ci_cons in H. destruct H as (p1 & p2 & -> & H1 & H2).
    destruct (chr_ci_Chr b) as [cs E]. rewrite E in H1. apply matches_Chr in H1. destruct H1 as (c & -> & _).
    simpl. f_equal. apply IH. exact H2.
Qed.

Lemma matches_lit_ci_app a b p :
  matches (lit_ci (a ++ b)) p <-> exists p1 p2, p = p1 ++ p2 /\ matches (lit_ci a) p1 /\ matches (lit_ci b) p2.
Proof.
  revert p. induction a as [|x a IH]; intro p.
  - simpl. split.
    + intro H. exists [], p. repeat split; [constructor | exact H].
    + intros (p1 & p2 & -> & H1 & H2). apply matches_Eps in H1. subst. exact H2.
  - change ((x :: a) ++ b) with (x :: (a ++ b)). rewrite matches_lit_ci_cons. split.
    + intros (p1 & p2 & -> & H1 & H2). apply IH in H2. destruct H2 as (p3 & p4 & -> & H3 & H4).
      exists (p1 ++ p3), p4. rewrite app_assoc. repeat split; [| exact H4].
      apply matches_lit_ci_cons. exists p1, p3. auto.
    + intros (q1 & q2 & -> & H1 & H2). apply matches_lit_ci_cons in H1.
      destruct H1 as (p1 & p3 & -> & H1 & H3). exists p1, (p3 ++ q2). rewrite app_assoc.
      repeat split; [exact H1 |]. apply IH. exists p3, q2. auto.
Qed.

Definition no_upper (l : bytes) : bool := forallb (fun b => negb (is_upper b)) l.

(* the literal-prefix test of Gen/Scanners.v is prefix matching of the case-insensitive literal *)
Lemma ci_prefix_lit l : no_upper l = true ->
  forall s, Scanners.ci_prefix s l = true <-> exists p q, s = p ++ q /\ matches (lit_ci l) p.
Proof.
  induction l as [|b l IH]; intros Hl s.
  - simpl. split; [intros _; exists [], s; split; [reflexivity | constructor] | reflexivity].
  - simpl in Hl. apply andb_true_iff in Hl. destruct Hl as [Hb Hl]. apply negb_true_iff in Hb.
    destruct s as [|x s]; cbn [Scanners.ci_prefix].
    + split; [discriminate |]. intros (p & q & E & H). symmetry in E. apply app_eq_nil in E. destruct E; subst.
      apply lit_ci_length in H. simpl in H. discriminate H.
    + rewrite andb_true_iff, beqb_eq, (IH Hl). split.
      * intros [Hx (p & q & -> & H)]. exists (x :: p), q. split; [reflexivity |].
        apply matches_lit_ci_cons. exists [x], p. repeat split; [| exact H].
        apply matches_chr_ci; [exact Hb | eauto].
      * intros (p & q & E & H). apply matches_lit_ci_cons in H. destruct H as (p1 & p2 & -> & H1 & H2).
        apply matches_chr_ci in H1; [| exact Hb]. destruct H1 as (c & -> & Hc).
        simpl in E. inversion E; subst. split; [reflexivity | eauto].
Qed.

Lemma matches_AltL rs p : matches (AltL rs) p <-> exists r, In r rs /\ matches r p.
Proof.
  induction rs as [|r rs IH].
  - simpl. split; [intro H; destruct (matches_Empty _ H) | intros (r & [] & _)].
  - destruct rs as [|r' rs].
    + simpl. split; [intro H; exists r; auto | intros (x & [<- | []] & H); exact H].
    + change (AltL (r :: r' :: rs)) with (Alt r (AltL (r' :: rs))). rewrite matches_Alt, IH. split.
      * intros [H | (x & Hx & H)]; [exists r; split; [left; reflexivity | exact H] | exists x; split; [right; exact Hx | exact H]].
      * intros (x & [<- | Hx] & H); [left; exact H | right; eauto].
Qed.

(* prefix matching of an alternative of literals = existsb ci_prefix *)
Lemma existsb_ci_prefix ls s :
  forallb no_upper ls = true ->
  (existsb (Scanners.ci_prefix s) ls = true <-> exists p q, s = p ++ q /\ matches (AltL (map lit_ci ls)) p).
Proof.
  intro Hls. rewrite forallb_forall in Hls. rewrite existsb_exists. split.
  - intros (l & Hl & H). apply ci_prefix_lit in H; [| apply Hls; exact Hl].
    destruct H as (p & q & -> & H). exists p, q. split; [reflexivity |].
    apply matches_AltL. exists (lit_ci l). split; [apply in_map; exact Hl | exact H].
  - intros (p & q & -> & H). apply matches_AltL in H. destruct H as (r & Hr & H).
    apply in_map_iff in Hr. destruct Hr as (l & <- & Hl). exists l. split; [exact Hl |].
    apply ci_prefix_lit; [apply Hls; exact Hl | eauto].
Qed.

(* ---------------------------------------------------------------- dangerous_url *)
Definition du_pre : bytes := [x64; x61; x74; x61; x3a; x69; x6d; x61; x67; x65; x2f].
Definition du_sufs : list bytes := [[x70; x6e; x67]; [x67; x69; x66]; [x6a; x70; x65; x67]; [x77; x65; x62; x70]].

(* the regenerated rules, against the regenerated literal lists of Gen/Scanners.v (the older, literal-prefix
   rendering of the same three rules) *)
Lemma rules_dangerous_shape :
  rules_dangerous_url =
  [RPlain (Cat (lit_ci du_pre) (AltL (map lit_ci du_sufs))) ActNone;
   RPlain (AltL (map lit_ci Scanners.dangerous_literals)) ActCursor]
  /\ default_dangerous_url = ActNone /\ pad_dangerous_url = 0
  /\ Scanners.dangerous_safe_literals = map (app du_pre) du_sufs.
Proof. repeat split. Qed.

Lemma du_rule1_as_lits p :
  matches (Cat (lit_ci du_pre) (AltL (map lit_ci du_sufs))) p <->
  matches (AltL (map lit_ci (map (app du_pre) du_sufs))) p.
Proof.
  rewrite matches_Cat, matches_AltL. split.
  - intros (p1 & p2 & -> & H1 & H2). apply matches_AltL in H2. destruct H2 as (r & Hr & H2).
    apply in_map_iff in Hr. destruct Hr as (suf & <- & Hs).
    exists (lit_ci (du_pre ++ suf)). split; [apply in_map, in_map; exact Hs |].
    apply matches_lit_ci_app. eauto.
  - intros (r & Hr & H). apply in_map_iff in Hr. destruct Hr as (l & <- & Hl).
    apply in_map_iff in Hl. destruct Hl as (suf & <- & Hs).
    apply matches_lit_ci_app in H. destruct H as (p1 & p2 & -> & H1 & H2). exists p1, p2.
    repeat split; [exact H1 |]. apply matches_AltL. exists (lit_ci suf). split; [apply in_map; exact Hs | exact H2].
Qed.

Lemma AltL_lits_length ls p :
  matches (AltL (map lit_ci ls)) p -> exists l, In l ls /\ length p = length l.
Proof.
  intro H. apply matches_AltL in H. destruct H as (r & Hr & H). apply in_map_iff in Hr.
  destruct Hr as (l & <- & Hl). exists l. split; [exact Hl | apply lit_ci_length; exact H].
Qed.

Theorem dangerous_url_agrees s :
  is_some (scan_dangerous_url s) = Scanners.dangerous_url s.
Proof.
  unfold scan_dangerous_url, Scanners.dangerous_url.
  destruct rules_dangerous_shape as (-> & -> & -> & ->).
  set (R1 := Cat (lit_ci du_pre) (AltL (map lit_ci du_sufs))).
  set (R2 := AltL (map lit_ci Scanners.dangerous_literals)).
  assert (S1 : existsb (Scanners.ci_prefix s) (map (app du_pre) du_sufs) = is_some (longest_match R1 s)).
  { apply eq_true_iff_eq. rewrite lm_some_prefix, existsb_ci_prefix by reflexivity.
    split; intros (p & q & E & H); exists p, q; (split; [exact E | apply du_rule1_as_lits; exact H]). }
  assert (S2 : existsb (Scanners.ci_prefix s) Scanners.dangerous_literals = is_some (longest_match R2 s)).
  { apply eq_true_iff_eq. rewrite lm_some_prefix, existsb_ci_prefix by reflexivity. tauto. }
  rewrite S1, S2.
  destruct (run_rules_plain [RPlain R1 ActNone; RPlain R2 ActCursor] ActNone s eq_refl)
    as [[E Hno] | (r & a & L & Hin & Hl & E & Hmax)]; rewrite E; unfold as_opt_usize; simpl.
  - pose proof (Hno (RPlain R1 ActNone) (or_introl eq_refl)) as N1.
    pose proof (Hno (RPlain R2 ActCursor) (or_intror (or_introl eq_refl))) as N2.
    cbn [rule_re] in N1, N2. rewrite N1, N2. reflexivity.
  - destruct Hin as [Hin | [Hin | []]]; inversion Hin; subst r a; clear Hin; simpl.
    + rewrite Hl. reflexivity.
    + rewrite Hl. simpl. destruct (longest_match R1 s) as [n1|] eqn:E1; [exfalso | reflexivity].
      assert (n1 <= L) by (apply (Hmax (RPlain R1 ActNone)); [left; reflexivity | exact E1]).
      apply lm_some_length in E1. destruct E1 as (p1 & q1 & _ & M1 & <-).
      apply lm_some_length in Hl. destruct Hl as (p2 & q2 & _ & M2 & <-).
      apply du_rule1_as_lits, AltL_lits_length in M1. apply AltL_lits_length in M2.
      destruct M1 as (l1 & In1 & Len1). destruct M2 as (l2 & In2 & Len2).
      assert (14 <= length l1).
      { revert In1. clear. intro H. repeat (destruct H as [<- | H]; [simpl; lia |]). destruct H. }
      assert (length l2 <= 11).
      { revert In2. clear. intro H. repeat (destruct H as [<- | H]; [simpl; lia |]). destruct H. }
      lia.
Qed.

(* ---------------------------------------------------------------- scheme *)
From V Require Import Gen.CmGen Model.Cm.

Lemma rules_scheme_shape :
  rules_scheme =
  [RPlain (Cat (Cat (Chr [(65, 90)%N; (97, 122)%N])
                    (Repeat 1 31 (Chr [(43, 43)%N; (45, 46)%N; (48, 57)%N; (65, 90)%N; (97, 122)%N])))
               (Chr [(58, 58)%N])) ActCursor]
  /\ default_scheme = ActNone /\ pad_scheme = 0
  /\ scheme_rest_min = 1 /\ scheme_rest_max = 31.
Proof. repeat split. Qed.

Lemma scheme_first_cs : forall b, Bool.eqb (scheme_first b) (cs_mem [(65, 90)%N; (97, 122)%N] b) = true.
Proof. apply forall_bytes. vm_compute. reflexivity. Qed.

Lemma scheme_rest_cs : forall b,
  Bool.eqb (scheme_rest b) (cs_mem [(43, 43)%N; (45, 46)%N; (48, 57)%N; (65, 90)%N; (97, 122)%N] b) = true.
Proof. apply forall_bytes. vm_compute. reflexivity. Qed.

Lemma scheme_tail_spec r : forall n,
  scheme_tail r n = true <->
  exists m q, r = m ++ x3a :: q /\ Forall (fun b => scheme_rest b = true) m /\
              scheme_rest_min <= n + length m <= scheme_rest_max.
Proof.
  induction r as [|c r IH]; intro n; cbn [scheme_tail].
  - split; [discriminate |]. intros (m & q & E & _). destruct m; discriminate E.
  - destruct (scheme_rest c) eqn:Hc.
    + rewrite IH. split.
      * intros (m & q & -> & Hm & Hn). exists (c :: m), q. repeat split; [constructor; assumption | simpl; lia | simpl; lia].
      * intros (m & q & E & Hm & Hn). destruct m as [|c' m].
        -- simpl in E. inversion E; subst. vm_compute in Hc. discriminate Hc.
        -- simpl in E. inversion E; subst. inversion Hm; subst. exists m, q. simpl in Hn. repeat split; [assumption | lia | lia].
    + rewrite !andb_true_iff, beqb_eq, !PeanoNat.Nat.leb_le. split.
      * intros [[-> H1] H2]. exists [], r. simpl. repeat split; [constructor | lia | lia].
      * intros (m & q & E & Hm & Hn). destruct m as [|c' m].
        -- simpl in E. inversion E; subst. simpl in Hn. repeat split; lia.
        -- simpl in E. inversion E; subst. inversion Hm; subst. congruence.
Qed.

Theorem scheme_agrees s : scheme_matches s = is_some (scan_scheme s).
Proof.
  unfold scan_scheme. destruct rules_scheme_shape as (-> & -> & -> & Hmin & Hmax).
  match goal with |- context [run_rules [RPlain ?R _] _ _ _] => set (R0 := R) end.
  assert (E : is_some (as_opt_usize (run_rules [RPlain R0 ActCursor] ActNone 0 s)) = is_some (longest_match R0 s)).
  { destruct (run_rules_plain [RPlain R0 ActCursor] ActNone s eq_refl)
      as [[E Hno] | (r & a & L & Hin & Hl & E & _)]; rewrite E; unfold as_opt_usize; simpl.
    - pose proof (Hno (RPlain R0 ActCursor) (or_introl eq_refl)) as N1. cbn [rule_re] in N1.
      rewrite N1. reflexivity.
    - destruct Hin as [Hin | []]. inversion Hin; subst. rewrite Hl. reflexivity. }
  rewrite E. apply eq_true_iff_eq. rewrite lm_some_prefix. unfold scheme_matches. split.
  - destruct s as [|c r]; [discriminate |]. rewrite andb_true_iff, scheme_tail_spec.
    intros [Hc (m & q & -> & Hm & Hn)]. exists (c :: m ++ [x3a]), q. split.
    + simpl. rewrite <- app_assoc. reflexivity.
    + unfold R0. apply matches_Cat. exists (c :: m), [x3a]. split; [reflexivity | split].
      * apply matches_Cat. exists [c], m. split; [reflexivity | split].
        -- constructor. pose proof (scheme_first_cs c) as G. rewrite Hc in G. apply eqb_prop in G. symmetry. exact G.
        -- apply matches_Repeat_Chr; [lia |]. split; [lia |].
           eapply Forall_impl'; [| exact Hm]. intros b Hb. pose proof (scheme_rest_cs b) as G. rewrite Hb in G.
           apply eqb_prop in G. symmetry. exact G.
      * constructor. reflexivity.
  - intros (p & q & -> & H). unfold R0 in H. apply matches_Cat in H. destruct H as (p1 & p3 & -> & H1 & H3).
    apply matches_Cat in H1. destruct H1 as (p0 & p2 & -> & H0 & H2).
    apply matches_Chr in H0. destruct H0 as (c & -> & Hc). apply matches_Chr in H3. destruct H3 as (e & -> & He).
    apply matches_Repeat_Chr in H2; [| lia]. destruct H2 as [Hlen Hm].
    simpl. rewrite andb_true_iff. split.
    + pose proof (scheme_first_cs c) as G. rewrite Hc in G. apply eqb_prop in G. exact G.
    + apply scheme_tail_spec. exists p2, q. repeat split.
      * rewrite <- app_assoc. simpl. f_equal. f_equal. eapply cs_single with (n := 58%N); [reflexivity | exact He].
      * eapply Forall_impl'; [| exact Hm]. intros b Hb. pose proof (scheme_rest_cs b) as G. rewrite Hb in G.
        apply eqb_prop in G. exact G.
      * lia.
      * lia.
Qed.

(* ---------------------------------------------------------------- tags / trailing context *)
Lemma split_go_sound r1 r2 w : forall k k',
  split_go r1 r2 w k = Some k' ->
  k' <= k /\ matches r1 (firstn k' w) /\ matches r2 (skipn k' w).
Proof.
  induction k as [|k IH]; intros k' H; cbn [split_go] in H;
    destruct (matchb r1 (firstn _ w) && matchb r2 (skipn _ w)) eqn:E.
  - inversion H; subst. apply andb_true_iff in E. destruct E as [E1 E2].
    apply matchb_spec in E1. apply matchb_spec in E2. auto.
  - discriminate H.
  - inversion H; subst. apply andb_true_iff in E. destruct E as [E1 E2].
    apply matchb_spec in E1. apply matchb_spec in E2. auto.
  - apply IH in H. destruct H as (H1 & H2 & H3). auto.
Qed.

Lemma split_go_complete r1 r2 w : forall k k',
  k' <= k -> matches r1 (firstn k' w) -> matches r2 (skipn k' w) -> split_go r1 r2 w k <> None.
Proof.
  induction k as [|k IH]; intros k' Hle H1 H2; cbn [split_go];
    destruct (matchb r1 (firstn _ w) && matchb r2 (skipn _ w)) eqn:E; try discriminate.
  - assert (k' = 0) by lia. subst. apply matchb_spec in H1. apply matchb_spec in H2.
    rewrite H1, H2 in E. discriminate E.
  - destruct (PeanoNat.Nat.eq_dec k' (S k)) as [-> | Hne].
    + apply matchb_spec in H1. apply matchb_spec in H2. rewrite H1, H2 in E. discriminate E.
    + apply (IH k'); [lia | assumption | assumption].
Qed.

(* a block with one tagged rule r1 @t r2: default action, or the action with the cursor L at the end of the
   longest match of r1 r2 in the padded input and the tag k at an admissible start of r2 *)
Lemma run_rules_tag r1 r2 a d pad s :
  run_rules [RTag r1 r2 a] d pad s = mkOutcome d 1 0 \/
  exists L k, run_rules [RTag r1 r2 a] d pad s = mkOutcome a L k /\
              L <= length s + pad /\ k <= L /\
              matches r2 (skipn k (firstn L (s ++ repeat x00 pad))).
Proof.
  unfold run_rules. cbn [pick_rule rule_re].
  destruct (longest_match (Cat r1 r2) (s ++ repeat x00 pad)) as [L|] eqn:E; [right | left; reflexivity].
  apply longest_match_spec in E. destruct E as (HL & Hm & _).
  rewrite app_length, repeat_length in HL.
  apply matches_Cat in Hm. destruct Hm as (p1 & p2 & E & H1 & H2).
  set (w := firstn L (s ++ repeat x00 pad)) in *.
  assert (Hlen : length w = L) by (apply firstn_length_le; rewrite app_length, repeat_length; exact HL).
  assert (Hk : length p1 <= L) by (rewrite <- Hlen, E, app_length; lia).
  assert (F : firstn (length p1) w = p1) by (rewrite E, firstn_app, PeanoNat.Nat.sub_diag, firstn_all; simpl; apply app_nil_r).
  assert (S' : skipn (length p1) w = p2) by (rewrite E, skipn_app, PeanoNat.Nat.sub_diag, skipn_all; reflexivity).
  destruct (split_go r1 r2 w L) as [k|] eqn:Es.
  - apply split_go_sound in Es. destruct Es as (Hle & _ & M2). exists L, k. auto.
  - exfalso. apply (split_go_complete r1 r2 w L (length p1)); [exact Hk | rewrite F; exact H1 | rewrite S'; exact H2 | exact Es].
Qed.

(* tasklist: the index s[t1] is always in bounds *)
Lemma rules_tasklist_shape :
  exists r1 r2, rules_tasklist = [RTag r1 r2 ActTasklist] /\ default_tasklist = ActNone /\ pad_tasklist = 1
                /\ min_len r2 = 3.
Proof. eexists. eexists. repeat split. Qed.

Theorem tasklist_no_panic s : exists r, scan_tasklist s = Ok r.
Proof.
  unfold scan_tasklist. destruct rules_tasklist_shape as (r1 & r2 & -> & -> & -> & Hmin).
  destruct (run_rules_tag r1 r2 ActTasklist ActNone 1 s) as [E | (L & k & E & HL & Hk & M)]; rewrite E;
    unfold as_tasklist; cbn [o_act o_cursor o_tag]; [eauto |].
  apply min_len_le in M. rewrite Hmin, skipn_length, firstn_length_le in M
    by (rewrite app_length; simpl; lia).
  destruct (nth_error s k) eqn:En; [eauto |]. apply nth_error_None in En. lia.
Qed.
