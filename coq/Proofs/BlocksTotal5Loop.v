(* Proofs/BlocksTotal5Loop.v — totality of the block phase, fifth round, step 1, part 4: the loop of open_new_blocks
   never runs out of its fuel 2 |L| + 8, hence process_line and the whole parse never answer OutOfFuel.

   Three walks of the same computation are combined (Proofs/BlocksTotal4Safe.v): the tree walk (safe HJ: the invariant
   J of the handlers, Proofs/BlocksTotal2Walk.v / 3Tab.v), the cursor walk (sg (but cur_sites): F1 / C1,
   Proofs/BlocksTotal4Open.v / Line.v) and the fuel walk of this round, sgf = sg (every site allowed) (no fuel):

     STEPQ   an iteration of open_new_blocks that goes on moved the offset forward by at least one byte, or did not move
             it back and handed on a code / html block (the loop stops at once: the html opener)
     measure 2 (|L| - offset) + 2 <= fuel, or + 1 when the container is a code / html block

   The table case Some((container, false, _)) never goes on: the container is a paragraph, which accepts lines.
   Result: parse_blocks_no_fuel — parse_blocks o x <> OutOfFuel for every input byte string and every option set. *)
From Coq Require Import List NArith Arith Bool Lia Strings.String.
From V Require Import Base.Bytes Base.Res Gen.Nodes Gen.BlocksConst Gen.FeedConst Model.Ast Model.Strings Model.Entity Model.LinkUrl Model.ListMarker
  Model.Feed Model.FrontMatter Model.RefDef Model.Scan Model.Blocks Spec.EscapeSpec
  Proofs.FeedProofs Proofs.StrLeafProofs Proofs.StrLeafEntity Proofs.BlocksProofs Proofs.BlocksCursor Proofs.BlocksTight Proofs.BlocksTotal
  Proofs.BlocksTotal2Safe Proofs.BlocksTotal2Root Proofs.BlocksTotal2Tree Proofs.BlocksTotal2Walk Proofs.BlocksTotal3Tab
  Proofs.BlocksTotal3Cur Proofs.BlocksTotal4Safe Proofs.BlocksTotal4Cur Proofs.BlocksTotal4Frame
  Proofs.BlocksTotal4Walk Proofs.BlocksTotal4Open Proofs.BlocksTotal4Atx Proofs.BlocksTotal4Line
  Proofs.BlocksTotal4Fuel Proofs.BlocksTotal4FuelTree Proofs.BlocksTotal4FuelFin Proofs.BlocksTotal4FuelText
  Proofs.BlocksTotal5Fuel Proofs.BlocksTotal5FuelDesc Proofs.BlocksTotal5Adv.
Import ListNotations.
Local Open Scope string_scope.
Local Open Scope list_scope.

Definition allt : string -> bool := fun _ => true.
Notation sgf := (sg allt false).

Lemma sgf_of {A} (Q : A -> Prop) (r : res A) : nf r -> (forall a, r = Ok a -> Q a) -> sgf Q r.
Proof. destruct r as [a|s|]; cbn [nf sg]; intros N K; [now apply K | reflexivity | destruct N]. Qed.
Lemma sgf_nf {A} (Q : A -> Prop) (r : res A) : sgf Q r -> nf r.
Proof. destruct r; cbn [nf sg]; intro H; [exact I | exact I | discriminate H]. Qed.

Lemma ffn_blank_eq c line c' : find_first_nonspace c line = Ok c' ->
  c_blank c' = match nth_error line (c_fns c') with Some b => is_line_end_char b | None => false end.
Proof.
  unfold find_first_nonspace. intro H.
  destruct (if Nat.leb (c_fns c) (c_offset c) then _ else _) as [f fc].
  destruct (sub _ fc (c_column c)); cbn [bind] in H; try discriminate H. inversion H; subst. reflexivity.
Qed.

Section Line.
Variables (o : bopts) (lmc cur0 : nat) (line : bytes).
Hypothesis LN : lf_terminated line.
Notation Jx := (J o lmc cur0).
Notation HJx := (HJ o lmc cur0).

Definition T3 (s0 : pstate) (r : hres) : Prop := safe HJx r /\ sgc (HRc line s0) r /\ sgf (ADV s0) r.

Lemma or_else_3 s0 (r : hres) k : T3 s0 r ->
  (forall c s, Jx s c -> F1 line s -> c_indent (ps_cur s) = c_indent (ps_cur s0) -> NH s0 s -> T3 s0 (k c s)) ->
  T3 s0 (or_else_h r k).
Proof.
  intros (S1 & S2 & S3) K. unfold T3, or_else_h. destruct r as [[[h c] s]| |]; cbn [bind safe sg] in *.
  - destruct h; cbv beta iota; [split; [exact S1 | split; [exact S2 | exact S3]]|].
    cbn [HRc ADV] in S2, S3. destruct S2 as [A B]. apply K; assumption.
  - repeat split; assumption.
  - discriminate S3.
Qed.

(* a handler: its three walks from the state the previous handlers left *)
Lemma h3 s0 s (r : hres) : safe HJx r -> sgc (HRc line s) r -> nf r -> (forall x, r = Ok x -> ADV s x) ->
  c_indent (ps_cur s) = c_indent (ps_cur s0) -> NH s0 s -> T3 s0 r.
Proof.
  intros S1 S2 N A I1 Nh. split; [exact S1|]. split; [eapply sgc_indent; [exact I1 | exact S2]|].
  apply sgf_of; [exact N|]. intros x E. eapply ADV_trans; [exact Nh | now apply A].
Qed.

Definition STEPQ (st : pstate) (r : bool * nat * pstate) : Prop :=
  let '(go, c1, s1) := r in
  go = true -> c_offset (ps_cur st) < c_offset (ps_cur s1)
               \/ (c_offset (ps_cur st) <= c_offset (ps_cur s1) /\ forall n, get s1 c1 = Ok n -> is_code_or_html n = true).

Lemma try_opening_block_adv st c r : F1 line st ->
  c_blank (ps_cur st) = match nth_error line (c_fns (ps_cur st)) with Some b => is_line_end_char b | None => false end ->
  try_opening_block o st c line = Ok r -> TADV st c r.
Proof.
  intros F Bk H. unfold try_opening_block in H.
  destruct (get st c) as [cn| |] eqn:G; cbn [bind] in H; try discriminate H.
  destruct (bval cn) eqn:Bv; try (inversion H; subst; exact I).
  - eapply try_opening_header_adv; [exact LN | exact F | exact G | unfold is_paragraph; now rewrite Bv | exact H].
  - pose proof (try_opening_row_adv o line LN st c _ r F Bk H) as T. unfold TADV. destruct (fst r); [exact I | destruct T | exact T].
Qed.

(* the tail of an iteration: the container handed on does not accept lines *)
Lemma tail_adv st (r : bool * nat * pstate) :
  (let '(g, c, s) := r in g = true -> c_offset (ps_cur st) < c_offset (ps_cur s) \/ (c_offset (ps_cur st) <= c_offset (ps_cur s) /\ STOP c s)) ->
  sgf (STEPQ st) (let '(go_on, container, st0) := r in
           if negb go_on then Ok (false, container, st0) else
           do c <- get st0 container;
           if accepts_lines (bkind c) then Ok (false, container, st0) else Ok (true, container, st0)).
Proof.
  destruct r as [[g c] s]. intro K. destruct g; cbn [negb]; [|cbn [sg STEPQ]; discriminate].
  destruct (get s c) as [n| |] eqn:G; cbn [bind sg]; [|reflexivity | discriminate G || (unfold get in G; destruct (find_node c (ps_root s)); discriminate G)].
  destruct (accepts_lines (bkind n)) eqn:A; cbn [sg STEPQ]; [discriminate|]. intros _.
  destruct (K eq_refl) as [L|[L St]]; [now left | right]. split; [exact L|].
  intros n' G'. rewrite G in G'. inversion G'; subst n'. destruct (St _ G) as [X|X]; [congruence | exact X].
Qed.

Lemma step_adv st c am ml d : Jx st c -> C1 line st -> sgf (STEPQ st) (open_new_blocks_step o st c line am ml d).
Proof.
  intros Jc C. unfold open_new_blocks_step.
  pose proof (ffn_cur line st (proj1 C)) as Fc.
  destruct (ffn st line) as [s0| |] eqn:E0; cbn [bind]; [|reflexivity | exfalso; exact (proj1 (nf_ne _) (nf_ffn st line) E0)].
  cbn [sg] in Fc. destruct Fc as (F0' & Eo & _).
  assert (F : F1 line s0) by (split; [exact F0' | rewrite Eo; exact (proj2 C)]).
  assert (J0 : Jx s0 c) by (eapply J_eqtree; [eapply ffn_eqtree; exact E0 | exact Jc]).
  assert (Bk0 : c_blank (ps_cur s0) = match nth_error line (c_fns (ps_cur s0)) with Some b => is_line_end_char b | None => false end).
  { unfold ffn in E0. destruct (find_first_nonspace (ps_cur st) line) as [c'| |] eqn:Ef; cbn [bind] in E0; try discriminate E0.
    inversion E0; subst. cbn [ps_cur st_cur]. eapply ffn_blank_eq; exact Ef. }
  match goal with |- sg _ _ _ (bind ?r _) => assert (S : T3 s0 r) end.
  { assert (Hw : forall c1 s1, Jx s1 c1 -> W o s1) by (intros c1 s1 J1; apply J1).
    apply or_else_3.
    { apply (h3 s0 s0); [now apply handle_alert_spec | now apply handle_alert_cur | apply nf_handle_alert; eapply Hw; exact J0
                | intros x E; eapply handle_alert_adv; eassumption | reflexivity | apply NH_refl]. }
    intros c1 s1 J1 F1' I1 N1. apply or_else_3.
    { apply (h3 s0 s1); [now apply handle_mbq_spec | now apply handle_mbq_cur | apply nf_handle_mbq; eapply Hw; exact J1
                | intros x E; eapply handle_mbq_adv; eassumption | exact I1 | exact N1]. }
    clear c1 s1 J1 F1' I1 N1. intros c1 s1 J1 F1' I1 N1. apply or_else_3.
    { apply (h3 s0 s1); [now apply handle_blockquote_spec | now apply handle_blockquote_cur | apply nf_handle_blockquote; eapply Hw; exact J1
                | intros x E; eapply handle_blockquote_adv; eassumption | exact I1 | exact N1]. }
    clear c1 s1 J1 F1' I1 N1. intros c1 s1 J1 F1' I1 N1. apply or_else_3.
    { apply (h3 s0 s1); [now apply handle_atx_spec | now apply (handle_atx_HR o lmc cur0 line LN) | apply nf_handle_atx; eapply Hw; exact J1
                | intros x E; eapply handle_atx_adv; eassumption | exact I1 | exact N1]. }
    clear c1 s1 J1 F1' I1 N1. intros c1 s1 J1 F1' I1 N1. apply or_else_3.
    { apply (h3 s0 s1); [now apply handle_code_fence_spec | now apply handle_code_fence_cur | apply nf_handle_code_fence; eapply Hw; exact J1
                | intros x E; eapply handle_code_fence_adv; eassumption | exact I1 | exact N1]. }
    clear c1 s1 J1 F1' I1 N1. intros c1 s1 J1 F1' I1 N1. apply or_else_3.
    { apply (h3 s0 s1); [now apply handle_html_block_spec | now apply handle_html_block_cur | apply nf_handle_html_block; eapply Hw; exact J1
                | intros x E; eapply handle_html_block_adv; [exact LN | eapply Hw; exact J1 | eapply J_has; exact J1 | exact F1' | exact E]
                | exact I1 | exact N1]. }
    clear c1 s1 J1 F1' I1 N1. intros c1 s1 J1 F1' I1 N1. apply or_else_3.
    { apply (h3 s0 s1); [now apply handle_setext_spec | now apply handle_setext_cur | apply nf_handle_setext
                | intros x E; eapply handle_setext_adv; eassumption | exact I1 | exact N1]. }
    clear c1 s1 J1 F1' I1 N1. intros c1 s1 J1 F1' I1 N1. apply or_else_3.
    { apply (h3 s0 s1); [now apply handle_thematic_break_spec | now apply handle_thematic_break_cur | apply nf_handle_thematic_break; eapply Hw; exact J1
                | intros x E; eapply handle_thematic_break_adv; eassumption | exact I1 | exact N1]. }
    clear c1 s1 J1 F1' I1 N1. intros c1 s1 J1 F1' I1 N1. apply or_else_3.
    { apply (h3 s0 s1); [now apply handle_footnote_spec | now apply handle_footnote_cur | apply nf_handle_footnote; eapply Hw; exact J1
                | intros x E; eapply handle_footnote_adv; eassumption | exact I1 | exact N1]. }
    clear c1 s1 J1 F1' I1 N1. intros c1 s1 J1 F1' I1 N1. apply or_else_3.
    { apply (h3 s0 s1); [now apply handle_description_list_spec' | now apply handle_description_list_cur
                | eapply nf_handle_description_list; exact J1
                | intros x E; eapply handle_description_list_adv; eassumption | exact I1 | exact N1]. }
    clear c1 s1 J1 F1' I1 N1. intros c1 s1 J1 F1' I1 N1. apply or_else_3.
    { apply (h3 s0 s1); [now apply handle_list_spec | now apply handle_list_cur | apply nf_handle_list; eapply Hw; exact J1
                | intros x E; eapply handle_list_adv; eassumption | exact I1 | exact N1]. }
    clear c1 s1 J1 F1' I1 N1. intros c1 s1 J1 F1' I1 N1.
    apply (h3 s0 s1); [now apply handle_code_block_spec | apply handle_code_block_cur; [exact LN | exact F1' | unfold indent; now rewrite I1]
              | apply nf_handle_code_block; eapply Hw; exact J1
              | intros x E; eapply handle_code_block_adv; [exact LN | eapply Hw; exact J1 | eapply J_has; exact J1 | exact F1' | exact E]
              | exact I1 | exact N1]. }
  destruct S as (S1 & S2 & S3).
  match goal with |- sg _ _ _ (bind ?r _) => destruct r as [[[handled c1] s1]| |] eqn:Er; cbn [bind]; [|reflexivity | discriminate S3] end.
  cbn [safe sg HJ HRc ADV fst snd] in S1, S2, S3.
  eapply sg_bind with (P := fun r : bool * nat * pstate => let '(g, c, s) := r in g = true ->
      c_offset (ps_cur st) < c_offset (ps_cur s) \/ (c_offset (ps_cur st) <= c_offset (ps_cur s) /\ STOP c s));
    [|intros r _ G; now apply tail_adv].
  destruct handled.
  { cbn [sg]. intros _. rewrite <- Eo. exact S3. }
  destruct S2 as [F1s _]. destruct S3 as (N1 & N2 & N3).
  destruct (negb (Nat.leb code_indent (indent s0)) && bo_table o); [|cbn [bind sg]; discriminate].
  pose proof (nf_try_opening_block o s1 c1 line) as Nt.
  destruct (try_opening_block o s1 c1 line) as [[t s2]| |] eqn:Et; cbn [bind]; [|reflexivity | destruct Nt].
  assert (Bk1 : c_blank (ps_cur s1) = match nth_error line (c_fns (ps_cur s1)) with Some b => is_line_end_char b | None => false end)
    by (rewrite N2, N3; exact Bk0).
  pose proof (try_opening_block_adv _ _ _ F1s Bk1 Et) as T. unfold TADV in T. cbn [fst snd] in T.
  destruct t as [|mk|id].
  - cbn [sg]. discriminate.
  - destruct T as [-> (cn & G & P)].
    assert (Acc : forall f s3, (forall i, bi_id (f i) = bi_id i /\ bi_val (f i) = bi_val i) ->
              (s3 = s1 \/ modify_info s1 c1 f = Ok s3) -> STOP c1 s3).
    { intros f s3 Hf [->|M] n Gn; left.
      - rewrite G in Gn. inversion Gn; subst n. unfold is_paragraph in P. unfold bkind. destruct (bval cn); try discriminate P. reflexivity.
      - destruct (modify_info_get _ _ f _ (fun i => proj1 (Hf i)) M _ Gn) as (l0 & G0 & ->).
        rewrite G in G0. inversion G0; subst l0. destruct cn as [i ch]. unfold bkind, bval. cbn [on_info binf]. rewrite (proj2 (Hf i)).
        unfold is_paragraph, bval in P. cbn [binf] in P. destruct (bi_val i); try discriminate P. reflexivity. }
    destruct mk.
    + destruct (modify_info s1 c1 (set_tv true)) as [s3| |] eqn:M; cbn [bind sg]; [|reflexivity | exfalso; exact (proj1 (nf_ne _) (nf_modify_info _ _ _) M)].
      intros _. right. pose proof (modify_info_cur _ _ _ _ M) as [K _]. split; [lia|].
      apply (Acc (set_tv true)); [intro; split; reflexivity | now right].
    + cbn [bind sg]. intros _. right. split; [lia|]. apply (Acc (fun i => i)); [intro; split; reflexivity | now left].
  - cbn [sg]. intros _. left. lia.
Qed.

Lemma loop_nf am : forall fuel st c ml d, Jx st c -> C1 line st ->
  (2 * (List.length line - c_offset (ps_cur st)) + 2 <= fuel
   \/ (2 * (List.length line - c_offset (ps_cur st)) + 1 <= fuel /\ forall n, get st c = Ok n -> is_code_or_html n = true)) ->
  nf (open_new_blocks_loop fuel o st c line am ml d).
Proof.
  induction fuel as [|f IH]; intros st c ml d Jc C M; [exfalso; lia|]. cbn [open_new_blocks_loop].
  apply nf_bind; [auto with fuel|]. intros n G.
  destruct (is_code_or_html n) eqn:Ch; [exact I|].
  assert (M1 : 2 * (List.length line - c_offset (ps_cur st)) + 2 <= S f).
  { destruct M as [M|[_ M]]; [exact M | rewrite (M _ G) in Ch; discriminate Ch]. }
  pose proof (open_new_blocks_step_spec' o lmc cur0 st c line am ml (S d) Jc) as S1.
  pose proof (step_cur o lmc cur0 line LN st c am ml (S d) Jc C) as S2.
  pose proof (step_adv st c am ml (S d) Jc C) as S3.
  destruct (open_new_blocks_step o st c line am ml (S d)) as [[[go c1] s1]| |]; cbn [bind]; [|exact I | discriminate S3].
  cbn [safe sg HJ STc STEPQ fst snd] in S1, S2, S3.
  destruct go; [|exact I]. pose proof (proj2 C) as Lt. apply IH; [exact S1 | exact S2 |].
  destruct (S3 eq_refl) as [L|[L H]]; [left; lia | right; split; [lia | exact H]].
Qed.
End Line.

Lemma open_new_blocks_nf o line st c am : lf_terminated line ->
  W o st -> has st c -> has st (ps_current st) -> C1 line st -> nf (open_new_blocks o st c line am).
Proof.
  intros LN V Hc Hcur C. unfold open_new_blocks. apply nf_bind; [auto with fuel|]. intros n _.
  apply (loop_nf o c (ps_current st) line LN); [|exact C | left; lia].
  split; [exact V|]. split; [exact Hc|]. split; [reflexivity|]. split; [reflexivity | now right].
Qed.

Lemma process_line_nf o st line0 : lf_terminated (norm_line line0) -> LI o st -> nf (process_line o st line0).
Proof.
  intros LN L0. unfold process_line. cbv zeta.
  match goal with |- nf (bind (check_open_blocks o ?sa ?lx) _) =>
    assert (La : LI o sa) by (eapply LI_eqtree; [|exact L0]; repeat split); set (s_a := sa) in *; set (ln := lx) in * end.
  assert (Ca : C1 ln s_a).
  { unfold s_a, C1, C0. cbn [ps_cur st_cur st_line_number st_curline ps_curline_len c_offset].
    match goal with |- context [if ?b then 3 else 0] => destruct b eqn:Bm end.
    - apply andb_true_iff in Bm. destruct Bm as [Bm1 Bm2]. pose proof (bom_inside _ LN Bm2) as B3. fold ln in B3.
      split; [split; [apply CI_start; lia | reflexivity] | lia].
    - destruct (lf_last _ LN) as [_ L1]. fold ln in L1. split; [split; [apply CI_start; lia | reflexivity] | lia]. }
  destruct La as [Va Ha].
  pose proof (check_open_blocks_spec o s_a ln Va) as S1.
  pose proof (check_open_blocks_cur ln LN o s_a Ca) as S2.
  apply nf_bind; [apply nf_of; now apply check_open_blocks_fuel|]. intros [r s1] E.
  rewrite E in S1, S2. cbn [safe sg fst snd] in S1, S2.
  apply nf_bind; [|intros; exact I].
  destruct r as [[lm am]|]; [|exact I]. cbn in S1. destruct S1 as [T Hl]. pose proof (W_eqtree _ _ _ T Va) as V1.
  assert (H1 : has s1 (ps_current s1)) by (destruct T as (T1 & T2 & T3); unfold has in *; now rewrite T1, T3).
  cbv zeta.
  pose proof (open_new_blocks_spec' o s1 lm ln am V1 Hl H1) as S3.
  apply nf_bind; [now apply open_new_blocks_nf|]. intros [c s2] E2. rewrite E2 in S3. cbn [safe fst snd] in S3.
  destruct (Nat.eqb (ps_current s1) (ps_current s2)); [|exact I].
  apply nf_of. apply add_text_to_container_fuel. apply S3.
Qed.

Lemma process_lines_nf o : forall ls st, Forall (fun l => lf_terminated (norm_line l)) ls -> LI o st -> nf (process_lines o st ls).
Proof.
  induction ls as [|l r IH]; intros st Fa L0; cbn [process_lines]; [exact I|].
  inversion Fa as [|? ? Hl Hr]; subst.
  pose proof (process_line_spec' o st l L0) as S.
  apply nf_bind; [now apply process_line_nf|]. intros s1 E. rewrite E in S. apply IH; [exact Hr | exact S].
Qed.

Lemma run_lines_nf o st ls : Forall (fun l => lf_terminated (norm_line l)) ls -> LI o st -> nf (run_lines o st ls).
Proof.
  intros Fa L0. unfold run_lines.
  pose proof (process_lines_spec' o ls st L0) as S.
  apply nf_bind; [now apply process_lines_nf|]. intros s1 E. rewrite E in S.
  apply nf_of. apply finalize_document_fuel. apply S.
Qed.

Theorem parse_blocks_nf o x : nf (parse_blocks o x).
Proof.
  unfold parse_blocks.
  pose proof (front_matter_prologue_spec o init_state x (LI_init o)) as S.
  apply nf_bind; [apply nf_of; apply front_matter_prologue_fuel; apply (LI_init o)|]. intros [st rest] E.
  rewrite E in S. cbn [safe fst] in S.
  pose proof (lines_lf rest) as Fa.
  unfold lines in Fa. destruct (feed_lines rest) as [lines total]. cbn [fst] in Fa.
  apply nf_bind; [now apply run_lines_nf | intros; exact I].
Qed.

(* the block phase never runs out of fuel: every input byte string, every option set *)
Theorem parse_blocks_no_fuel o x : parse_blocks o x <> OutOfFuel.
Proof. apply nf_ne. apply parse_blocks_nf. Qed.

Theorem process_line_no_fuel o st line0 : lf_terminated (norm_line line0) -> LI o st -> process_line o st line0 <> OutOfFuel.
Proof. intros L H. apply nf_ne. now apply process_line_nf. Qed.

Theorem open_new_blocks_no_fuel o line st c am : lf_terminated line ->
  W o st -> has st c -> has st (ps_current st) -> C1 line st -> open_new_blocks o st c line am <> OutOfFuel.
Proof. intros. apply nf_ne. now apply open_new_blocks_nf. Qed.
