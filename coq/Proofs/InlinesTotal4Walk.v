(* Proofs/InlinesTotal4Walk.v — C01, inline phase, fourth wave: the dispatcher walk of InlinesTotal3Walk.v with the
   hypothesis (T) asked ONLY in states whose next byte is the colon (THc): InlinesTotal3Walk.TH is asked in every state,
   but url_match does not test the byte at its position, so TH is FALSE in reachable states (after an autolink that ends
   in letters and is followed by SPACE slash slash: see InlinesTotal4Main.TH_false_witness).  The proofs are those of
   InlinesTotal3Walk.v (step3_nopanic / step3_SInv / loop3 / inlines_total_section) with the one use of TH guarded.
   No axioms. *)
From Coq Require Import List NArith ZArith Arith Bool Strings.String Lia.
From V Require Import Base.Bytes Base.Res Gen.StrLeafGen Gen.Consts Gen.Special Model.Special
     Model.Scan Model.Strings Model.Entity Model.LinkUrl Model.AutolinkLeaf Model.Spx Model.Ast Model.Inlines
     Proofs.StrLeafProofs Proofs.StrLeafEntity Proofs.StrLeafParse
     Proofs.InlinesProofs Proofs.InlinesMemo Proofs.InlinesTotalAutolink Proofs.InlinesTotalFuel Proofs.InlinesTotal
     Proofs.InertInlines Proofs.InlinesTotal2 Proofs.InlinesTotal2Pe Proofs.InlinesTotal2Fuel Proofs.InlinesTotal2Inv
     Proofs.InlinesTotal2Main Proofs.InlinesTotal2Scan Proofs.InlinesTotal2Sites Proofs.InlinesTotal2Walk
     Proofs.InlinesTotal3Emb Proofs.InlinesTotal3Pe Proofs.InlinesTotal3Step Proofs.InlinesTotal3Enum Proofs.InlinesTotal3Walk.
Import ListNotations.
Local Open Scope list_scope.

Section Walk4.
Variable memo : bool.
Variable o : iopts.
Variable u : oracle.
Variable inp : bytes.
Variable lo : list N.
Variable start_line : N.
Variable refmap : list (bytes * (bytes * bytes)).
Variable maxref : N.
Hypothesis Hrt : rtrim_slice inp = inp.
Hypothesis Hflb : first_line_not_blank inp = true.

Notation TInv := (TInv o inp lo start_line maxref).
Notation SInv := (SInv).
Notation PI := (parse_inline memo o u inp lo start_line refmap maxref).

(* (T) at the colon only *)
Definition THc (s : st) : Prop :=
  nth_error inp (pos s) = Some x3a -> io_autolink o = true -> forall url text nr skip,
    url_match o u inp (pos s) = Ok (Some (url, text, nr, skip)) -> spelled (sibs s) nr.

Lemma TInv_NF s : TInv s -> NF s.
Proof. intros [_ [F _]]. eapply FIN_NF. exact F. Qed.

Lemma TInv_dok s : TInv s -> forall d, In d (delims s) -> dchar_ok o (d_char d) = true.
Proof. intros [_ [[[G _] _] _]] d Hd. apply (G d Hd). Qed.

Ltac contra A := exfalso; vm_compute in A; discriminate A.

(* ------------------------------------------------------------------ no arm panics *)
Lemma step3_nopanic s site : TInv s -> SInv s -> THc s -> PI s = Panic site -> False.
Proof.
  intros TI SI Th H.
  pose proof (step_sites memo o u inp lo start_line refmap maxref Hrt Hflb s site TI H) as A.
  pose proof (TInv_NF s TI) as Hnf. pose proof (TInv_dok s TI) as Hdok.
  destruct TI as [(C & Li & R) F]. unfold parse_inline in H.
  destruct (peek inp (pos s)) as [c|] eqn:Ec; [|discriminate]. unfold peek in Ec.
  pose proof (nth_lt inp _ _ Ec) as Hlt.
  destruct (nsub _ _ _) as [adj|site0|] eqn:En; cbn [bind] in H; [| |discriminate H].
  2:{ unfold nsub in En. destruct (_ <? _)%N; inversion En; subst. inversion H; subst. contra A. }
  destruct (nth_error lo (N.to_nat adj)) as [off|]; [|inversion H; subst; contra A].
  set (s1 := set_lineoff s off) in *.
  assert (CInv inp s1) as C1 by exact C.
  assert (RInv maxref s1) as R1 by exact R.
  assert (forall d, In d (delims s1) -> dchar_ok o (d_char d) = true) as Hd by exact Hdok.
  assert (SInv s1) as SI1.
  { destruct SI as [es I]. exists es. eapply SI_same; [exact I| | | |]; unfold s1; simp_st; auto. }
  assert (NF s1) as Hnf1 by exact Hnf.
  assert (THc s1) as Th1 by exact Th.
  assert (pos s1 = pos s) as Hp1 by reflexivity. rewrite <- Hp1 in Ec, Hlt. clear Hp1.
  clearbody s1.
  destruct (beqb c x00); [discriminate|].
  destruct (beqb c x0d || beqb c x0a).
  { apply append_panic in H. apply handle_newline_enum in H. congruence. }
  destruct (beqb c x60).
  { apply append_panic in H. apply handle_backticks_enum in H. congruence. }
  destruct (beqb c x5c).
  { apply append_panic in H. apply handle_backslash_enum in H. congruence. }
  destruct (beqb c x26).
  { apply append_panic in H. apply handle_entity_enum in H. congruence. }
  destruct (beqb c x3c).
  { apply append_panic in H. apply handle_pointy_brace_enum in H. congruence. }
  destruct (beqb c x3a) eqn:Ecolon.
  { apply beqb_eq in Ecolon. subst c.
    match type of H with bind ?r _ = _ => destruct r as [[[s2 n]|]|site0|] eqn:Er end; cbn [bind] in H; try discriminate.
    - apply text1_enum in H. congruence.
    - destruct (io_autolink o) eqn:Eau; [|discriminate Er].
      destruct (haw_S o s1 (url_match o u inp)) as [P _]; [| exact Hd | exact SI1 | eapply P; exact Er].
      intros r Hr. pose proof (url_match_result inp o u (pos s1) r Ec Hr) as K.
      destruct r as [[[[[url text] rv] sk]|]|?|]; auto. split; [exact K|]. eapply Th1; [exact Ec|exact Eau|exact Hr]. }
  destruct (beqb c x77 && io_autolink o).
  { match type of H with bind ?r _ = _ => destruct r as [[[s2 n]|]|site0|] eqn:Er end; cbn [bind] in H; try discriminate.
    - apply text1_enum in H. congruence.
    - destruct (haw_S o s1 (www_match o u inp)) as [P _]; [| exact Hd | exact SI1 | eapply P; exact Er].
      intros r Hr. pose proof (www_match_result inp o u (pos s1) r Hr) as K.
      destruct r as [[[[[url text] rv] sk]|]|?|]; auto. split; [exact K|].
      apply www_match_rv0 in Hr. subst rv. apply spelled_0. }
  match type of H with (if ?b then _ else _) = _ => destruct b end.
  { destruct (handle_delim o u inp s1 c) as [[[s2 n] d]|?|] eqn:Ed; cbn [bind] in H.
    - destruct (push_item s2 n). discriminate H.
    - inversion H; subst. apply handle_delim_enum in Ed. congruence.
    - discriminate H. }
  destruct (beqb c x2d).
  { apply append_panic in H. apply handle_hyphen_enum in H. congruence. }
  destruct (beqb c x2e).
  { apply append_panic in H. apply handle_period_enum in H. congruence. }
  destruct (beqb c x5b).
  { cbv zeta in H.
    match type of H with bind ?r _ = _ => destruct r as [[[s2 n]|]|site0|] eqn:Er end; cbn [bind] in H; try discriminate.
    - match type of H with bind ?r _ = _ => destruct r as [n|?|] eqn:Em; cbn [bind] in H end.
      + destruct (push_item _ n). discriminate H.
      + inversion H; subst. apply mk_panic in Em. destruct Em as [-> _]. contra A.
      + discriminate H.
    - inversion H; subst. match type of Er with (if ?b then _ else _) = _ => destruct b end; [|discriminate].
      apply handle_wikilink_enum in Er. congruence. }
  destruct (beqb c x5d).
  { destruct (handle_close_bracket _ _ _ _ _ _) as [[s2 n]|site0|] eqn:Eh; cbn [bind] in H; try discriminate.
    destruct (hcb_S o u inp refmap maxref (set_within s1 false)) as [P _]; [exact C1|exact R1|exact Hd|exact Hlt| |exact Hnf1|eapply P; exact Eh].
    destruct SI1 as [es I]. exists es. eapply SI_same; [exact I| | | |]; simp_st; auto. }
  destruct (beqb c x21).
  { cbv zeta in H. destruct (peek_eq inp (S (pos s1)) x5b && negb (peek_eq inp (S (S (pos s1))) x5e)).
    - match type of H with bind ?r _ = _ => destruct r as [n|?|] eqn:Em; cbn [bind] in H end.
      + destruct (push_item _ n). discriminate H.
      + inversion H; subst. apply mk_panic in Em. destruct Em as [-> _]. contra A.
      + discriminate H.
    - apply append_panic in H.
      match type of H with bind ?r _ = _ => destruct r as [n|?|] eqn:Em; cbn [bind] in H; try discriminate H end.
      inversion H; subst. apply mk_panic in Em. destruct Em as [-> _]. contra A. }
  destruct (beqb c x24).
  { apply append_panic in H. apply handle_dollars_enum in H. congruence. }
  cbv zeta in H. unfold append, slice, usub in H. invp; contra A.
Qed.

(* ------------------------------------------------------------------ (S) after one step *)
Ltac arm3 P I1 N1 :=
  match goal with
  | H : append ?r = Ok (Some _) |- _ =>
    let Eh := fresh "Eh" in
    unfold append in H; destruct r as [[? ?]|?|] eqn:Eh; cbn [bind] in H; [|discriminate H|discriminate H];
    inversion H; subst; cbn [push_item fst pos set_sibs] in P;
    eapply SInv_frame_push;
      [exact I1
      | exact N1
      | first [eapply newline_frame; exact Eh | eapply backticks_frame; exact Eh | eapply backslash_frame; exact Eh
              | eapply entity_frame; exact Eh | eapply pointy_frame; exact Eh | eapply hyphen_frame; exact Eh
              | eapply period_frame; exact Eh | eapply dollars_frame; exact Eh]
      | lia]
  end.

Lemma step3_SInv s s' : TInv s -> SInv s -> THc s -> PI s = Ok (Some s') -> SInv s'.
Proof.
  intros TI SI Th H.
  pose proof (parse_inline_advances_all _ _ _ _ _ _ _ _ _ _ H) as P.
  pose proof (TInv_NF s TI) as Hnf. pose proof (TInv_dok s TI) as Hdok.
  destruct TI as [(C & Li & R) F]. unfold parse_inline in H.
  destruct (peek inp (pos s)) as [c|] eqn:Ec; [|discriminate]. unfold peek in Ec.
  pose proof (nth_lt inp _ _ Ec) as Hlt.
  destruct (nsub _ _ _) as [adj|?|]; cbn [bind] in H; try discriminate.
  destruct (nth_error lo (N.to_nat adj)) as [off|]; [|discriminate].
  set (s1 := set_lineoff s off) in *.
  assert (CInv inp s1) as C1 by exact C.
  assert (RInv maxref s1) as R1 by exact R.
  assert (FIN o inp s1) as F1.
  { apply (FIN_fr3 o inp s); [unfold fr3, s1; cbn [delims sibs nid set_lineoff]; auto|apply F]. }
  assert (forall d, In d (delims s1) -> dchar_ok o (d_char d) = true) as Hd by exact Hdok.
  assert (SInv s1) as SI1.
  { destruct SI as [es I]. exists es. eapply SI_same; [exact I| | | |]; unfold s1; simp_st; auto. }
  assert (NF s1) as Hnf1 by exact Hnf.
  assert (THc s1) as Th1 by exact Th.
  assert (pos s1 = pos s) as Hp1 by reflexivity. rewrite <- Hp1 in Ec, Hlt, P. clear Hp1.
  clearbody s1. clear SI Hnf Hdok Th.
  destruct (beqb c x00); [discriminate|].
  destruct (beqb c x0d || beqb c x0a); [arm3 P SI1 Hnf1|].
  destruct (beqb c x60); [arm3 P SI1 Hnf1|].
  destruct (beqb c x5c); [arm3 P SI1 Hnf1|].
  destruct (beqb c x26); [arm3 P SI1 Hnf1|].
  destruct (beqb c x3c); [arm3 P SI1 Hnf1|].
  assert (forall b, text1 s1 b = Ok (Some s') -> SInv s') as Htext.
  { intros b Hb. unfold text1 in Hb. apply append_mk_inv in Hb. destruct Hb as [n ->].
    eapply SInv_frame_push; [exact SI1|exact Hnf1|apply frame_set_pos|cbn [pos set_pos]; lia]. }
  assert (forall m s2 n, handle_autolink_with o s1 m = Ok (Some (s2, n)) ->
            (forall r, m (pos s1) = r ->
               match r with Ok (Some (_, _, rv, sk)) => rv <= sk /\ spelled (sibs s1) rv | Ok None => True
                          | Panic _ => False | OutOfFuel => True end) ->
            SInv (fst (push_item s2 n))) as Haw.
  { intros m s2 n Er Hm. destruct (haw_S o s1 m Hm Hd SI1) as [_ Q]. destruct (Q _ _ Er) as ([es I2] & Hid & Hn).
    exists es. apply SI_push; [exact I2|]. unfold NF. rewrite Hn. intros k Hk. specialize (Hnf1 k Hk). specialize (Hid k). lia. }
  destruct (beqb c x3a) eqn:Ecolon.
  { apply beqb_eq in Ecolon. subst c.
    match type of H with bind ?r _ = _ => destruct r as [[[s2 n]|]|?|] eqn:Er end; cbn [bind] in H; try discriminate.
    - inversion H; subst. destruct (io_autolink o) eqn:Eau; [|discriminate].
      eapply Haw; [exact Er|]. intros r Hr. pose proof (url_match_result inp o u (pos s1) r Ec Hr) as K.
      destruct r as [[[[[url text] rv] sk]|]|?|]; auto. split; [exact K|]. eapply Th1; [exact Ec|exact Eau|exact Hr].
    - eapply Htext; eauto. }
  destruct (beqb c x77 && io_autolink o).
  { match type of H with bind ?r _ = _ => destruct r as [[[s2 n]|]|?|] eqn:Er end; cbn [bind] in H; try discriminate.
    - inversion H; subst. eapply Haw; [exact Er|].
      intros r Hr. pose proof (www_match_result inp o u (pos s1) r Hr) as K.
      destruct r as [[[[[url text] rv] sk]|]|?|]; auto. split; [exact K|].
      apply www_match_rv0 in Hr. subst rv. apply spelled_0.
    - eapply Htext; eauto. }
  match type of H with (if ?b then _ else _) = _ => destruct b eqn:Etest end.
  { destruct (handle_delim o u inp s1 c) as [[[s2 n] d]|?|] eqn:Ed; cbn [bind] in H; try discriminate.
    destruct (push_item s2 n) as [s3 i3] eqn:Ep. inversion H; subst s'. clear H.
    assert (s3 = fst (push_item s2 n)) as -> by (rewrite Ep; reflexivity).
    pose proof (handle_delim_frame _ _ _ _ _ _ _ _ Ed) as Fr.
    cbn [push_item fst pos set_sibs set_delims] in P.
    destruct d as [d'|].
    - destruct (handle_delim_S o u inp s1 c s2 n d' C1 Ec Ed) as (_ & Hlt2 & Hid & Hpos & _ & Ht).
      eapply SInv_push_delim; try eassumption.
    - eapply SInv_frame_push; [exact SI1|exact Hnf1|exact Fr|].
      cbn [push_item fst pos set_sibs set_delims] in P. lia. }
  destruct (beqb c x2d); [arm3 P SI1 Hnf1|].
  destruct (beqb c x2e); [arm3 P SI1 Hnf1|].
  destruct (beqb c x5b).
  { cbv zeta in H.
    match type of H with bind ?r _ = _ => destruct r as [[[s2 n]|]|?|] eqn:Er end; cbn [bind] in H; try discriminate.
    - inversion H; subst. match type of Er with (if ?b then _ else _) = _ => destruct b end; [|discriminate].
      pose proof (adv_wikilink _ _ _ _ _ Er) as Hadv. cbn [pos set_pos] in Hadv.
      apply wikilink_frame in Er. eapply SInv_frame_push; [exact SI1|exact Hnf1| |lia].
      eapply frame_trans; [apply frame_set_pos|exact Er].
    - match type of H with bind ?r _ = _ => destruct r as [n|?|] eqn:Em end; cbn [bind] in H; try discriminate.
      apply mk_ec in Em. destruct Em as [Ht _].
      inversion H; subst s'. clear H.
      apply (SInv_push_bracket s1 (set_pos s1 (S (pos s1))) n false); [exact SI1|exact Hnf1|apply frame_set_pos|cbn [pos set_pos]; lia|exact Ht]. }
  destruct (beqb c x5d).
  { destruct (handle_close_bracket _ _ _ _ _ _) as [[s2 n]|?|] eqn:Eh; cbn [bind] in H; try discriminate.
    destruct (hcb_S o u inp refmap maxref (set_within s1 false)) as [_ Q]; [exact C1|exact R1|exact Hd|exact Hlt| |exact Hnf1|].
    { destruct SI1 as [es I]. exists es. eapply SI_same; [exact I| | | |]; simp_st; auto. }
    pose proof (Q _ _ Eh) as [es I2].
    apply (hcb_FIN o inp) in Eh; [|apply (FIN_fr3 o inp s1); [unfold fr3; cbn [delims sibs nid set_within]; auto | exact F1]].
    destruct Eh as [A _].
    inversion H; subst. destruct n; [|exists es; exact I2].
    exists es. apply SI_push; [exact I2|eapply FIN_NF; exact A]. }
  destruct (beqb c x21).
  { cbv zeta in H. destruct (peek_eq inp (S (pos s1)) x5b && negb (peek_eq inp (S (S (pos s1))) x5e)).
    - match type of H with bind ?r _ = _ => destruct r as [n|?|] eqn:Em end; cbn [bind] in H; try discriminate.
      apply mk_ec in Em. destruct Em as [Ht _].
      inversion H; subst s'. clear H.
      apply (SInv_push_bracket s1 (set_pos s1 (S (S (pos s1)))) n true); [exact SI1|exact Hnf1|apply frame_set_pos|cbn [pos set_pos]; lia|exact Ht].
    - apply append_mk_inv in H. destruct H as [n ->].
      eapply SInv_frame_push; [exact SI1|exact Hnf1|apply frame_set_pos|cbn [pos set_pos]; lia]. }
  destruct (beqb c x24); [arm3 P SI1 Hnf1|].
  cbv zeta in H.
  match type of H with bind ?r _ = _ => destruct r as [contents|?|] end; cbn [bind] in H; try discriminate.
  match type of H with bind ?r _ = _ => destruct r as [[c1 e1]|?|] end; cbn [bind] in H; try discriminate.
  match type of H with bind ?r _ = _ => destruct r as [[c2 sp2]|?|] end; cbn [bind] in H; try discriminate.
  match type of H with bind ?r _ = _ => destruct r as [e|?|] end; cbn [bind] in H; try discriminate.
  apply append_mk_inv in H. destruct H as [n ->]. cbn [push_item fst pos set_sibs set_pos] in P.
  eapply SInv_frame_push; [exact SI1|exact Hnf1|apply frame_set_pos|cbn [pos set_pos]; lia].
Qed.

(* ------------------------------------------------------------------ the loop, for an invariant J that gives TH *)
Section Loop.
Variable J : st -> Prop.
Hypothesis J_TH : forall s, TInv s -> SInv s -> J s -> THc s.
Hypothesis J_step : forall s s', TInv s -> SInv s -> J s -> PI s = Ok (Some s') -> J s'.

Lemma loop3 : forall fuel s, TInv s -> SInv s -> J s ->
  (forall site, inline_loop memo o u inp lo start_line refmap maxref fuel s <> Panic site)
  /\ (forall s', inline_loop memo o u inp lo start_line refmap maxref fuel s = Ok s' -> TInv s' /\ SInv s').
Proof.
  induction fuel as [|f IH]; intros s TI SI Js; cbn [inline_loop]; [split; intros; discriminate|].
  destruct (PI s) as [[s1|]|site0|] eqn:E; cbn [bind].
  - apply IH.
    + eapply step_TInv; eassumption.
    + eapply step3_SInv; [exact TI|exact SI|apply J_TH; assumption|exact E].
    + eapply J_step; eassumption.
  - split; [intros; discriminate|]. intros s' H. inversion H; subst. auto.
  - exfalso. eapply step3_nopanic; [exact TI|exact SI|apply J_TH; assumption|exact E].
  - split; intros; discriminate.
Qed.

Lemma SInv_init rs0 : SInv (init_st start_line rs0).
Proof.
  exists []. unfold SI. cbn [dels brs delims brackets sibs pos Inlines.init_st rev map].
  split; [reflexivity|]. split; [reflexivity|]. split; [constructor|]. split; [apply emb_nil|].
  split; [intro j; cbn [idc]; lia|intros e []].
Qed.

Theorem inlines_total_section rs0 :
  line_endings inp < List.length lo -> (rs0 <= maxref)%N -> J (init_st start_line rs0) ->
  exists ch rs, parse_inlines memo o u inp lo start_line refmap maxref rs0 = Ok (ch, rs).
Proof.
  intros Hlo Hr J0.
  pose proof (inlines_fuel memo o u inp lo start_line refmap maxref rs0) as NF0.
  unfold parse_inlines in *.
  destruct (loop3 (S (len inp)) (init_st start_line rs0) (TInv_init o inp lo start_line maxref rs0 Hlo Hr)
                  (SInv_init rs0) J0) as [A B].
  destruct (inline_loop memo o u inp lo start_line refmap maxref (S (len inp)) (init_st start_line rs0)) as [s|site0|] eqn:E;
    cbn [bind] in *; [|exfalso; eapply A; reflexivity|congruence].
  destruct (B s eq_refl) as [TI [es (HA & HB & HC & HD & HE & HF)]].
  pose proof (TInv_NF s TI) as Hnf. pose proof (TInv_dok s TI) as Hd.
  destruct TI as [((_ & C2 & _) & _) _].
  destruct (process_emphasis o inp s (nid s) (rev (sibs s)) (delims s) 0) as [r|site0|] eqn:Ep; cbn [bind] in *.
  - eexists. eexists. reflexivity.
  - exfalso. eapply (process_emphasis_S o inp s (nid s) (rev (sibs s)) (delims s)); [exact C2| | | | |exact Ep].
    + apply Forall_forall. exact Hd.
    + rewrite <- HA, <- filter_is_ed. apply emb_filter. exact HD.
    + intro j. rewrite idc_rev. apply HE.
    + intros k Hk. rewrite idc_rev. apply Hnf, Hk.
  - congruence.
Qed.

End Loop.
End Walk4.
