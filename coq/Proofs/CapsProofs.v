(* Proofs/CapsProofs.v — invariants of the caps of Model/Caps.v over every history (C06). *)
From Coq Require Import List NArith PeanoNat Bool Lia Strings.String.
From V Require Import Base.Bytes Base.Res Gen.Consts Model.Caps Spec.EscapeSpec.
Import ListNotations.
Local Open Scope list_scope.
Local Open Scope N_scope.

(* ------------------------------------------------------------------ reference budget *)
Definition ref_inv (r : refmap) : Prop := rm_size r <= rm_max r.

Definition answer_size (a : option refentry) : N := match a with Some e => entry_size e | None => 0 end.

Lemma lookup_step r lab : ref_inv r ->
  exists a r', lookup r lab = Ok (a, r') /\ ref_inv r' /\ rm_max r' = rm_max r /\ rm_map r' = rm_map r /\
               rm_size r' = rm_size r + answer_size a.
Proof.
  unfold ref_inv, lookup. intros H.
  destruct (map_get (rm_map r) lab) as [e|].
  - destruct (N.ltb_spec (rm_max r) (rm_size r)); [lia|].
    destruct (N.ltb_spec (rm_max r - rm_size r) (entry_size e)).
    + exists None, r. cbn [answer_size]. repeat split; try reflexivity; lia.
    + eexists (Some e), _. split; [reflexivity|]. cbn [rm_size rm_max rm_map answer_size]. repeat split; lia.
  - exists None, r. cbn [answer_size]. repeat split; try reflexivity; lia.
Qed.

(* a lookup whose url+title size exceeds the remaining budget answers None and does not add *)
Lemma lookup_refuses r lab e : ref_inv r -> map_get (rm_map r) lab = Some e ->
  rm_max r - rm_size r < entry_size e -> lookup r lab = Ok (None, r).
Proof.
  unfold ref_inv, lookup. intros H G L. rewrite G.
  destruct (N.ltb_spec (rm_max r) (rm_size r)); [lia|].
  destruct (N.ltb_spec (rm_max r - rm_size r) (entry_size e)); [reflexivity|lia].
Qed.

Lemma lookup_grants r lab e : ref_inv r -> map_get (rm_map r) lab = Some e ->
  entry_size e <= rm_max r - rm_size r ->
  lookup r lab = Ok (Some e, mkRefMap (rm_map r) (rm_max r) (rm_size r + entry_size e)).
Proof.
  unfold ref_inv, lookup. intros H G L. rewrite G.
  destruct (N.ltb_spec (rm_max r) (rm_size r)); [lia|].
  destruct (N.ltb_spec (rm_max r - rm_size r) (entry_size e)); [lia|reflexivity].
Qed.

Lemma lookups_inv : forall labs r, ref_inv r ->
  exists answers r', lookups r labs = Ok (answers, r') /\ ref_inv r' /\ rm_max r' = rm_max r /\
                     rm_size r' = rm_size r + expanded answers /\ List.length answers = List.length labs.
Proof.
  induction labs as [|l rest IH]; intros r H.
  - exists [], r. cbn. repeat split; try reflexivity; try assumption; lia.
  - destruct (lookup_step r l H) as (a & r1 & E1 & I1 & M1 & _ & S1).
    destruct (IH r1 I1) as (ans & r2 & E2 & I2 & M2 & S2 & L2).
    exists (a :: ans), r2. cbn [lookups]. rewrite E1. cbn [bind]. rewrite E2. cbn [bind].
    split; [reflexivity|]. split; [assumption|]. split; [congruence|]. split.
    + rewrite S2, S1. destruct a; cbn [expanded answer_size]; lia.
    + cbn [List.length]. congruence.
Qed.

Lemma set_budget_max r total : rm_max (set_budget r total) = N.max ref_floor total.
Proof. unfold set_budget. cbn [rm_max]. destruct (N.ltb_spec ref_floor total); lia. Qed.

(* never a panic, the invariant ref_size <= max_ref_size holds after EVERY sequence of lookups, and
   the reference text handed out is at most max(100000, input size) *)
Theorem ref_budget m total labs :
  exists answers r, document_lookups m total labs = Ok (answers, r) /\
    rm_size r <= rm_max r /\ rm_max r = N.max ref_floor total /\
    expanded answers = rm_size r /\ expanded answers <= N.max ref_floor total /\
    List.length answers = List.length labs.
Proof.
  unfold document_lookups.
  assert (I0 : ref_inv (set_budget (refmap_new m 18446744073709551615) total)).
  { unfold ref_inv. rewrite set_budget_max. cbn [set_budget refmap_new rm_size]. lia. }
  destruct (lookups_inv labs _ I0) as (ans & r & E & I & M & S & L).
  exists ans, r. rewrite set_budget_max in M. cbn [set_budget refmap_new rm_size] in S.
  unfold ref_inv in I. repeat split; try assumption; lia.
Qed.

(* ------------------------------------------------------------------ table auto-completion *)
Definition tbl_inv (t : tbl) : Prop := tb_nonempty t <= tb_cols t * tb_rows t.

Lemma autocompleted_exact t : tbl_inv t ->
  get_num_autocompleted_cells t = tb_cols t * tb_rows t - tb_nonempty t.
Proof.
  unfold tbl_inv, get_num_autocompleted_cells. intros H.
  destruct (N.ltb_spec (tb_cols t * tb_rows t) (tb_nonempty t)); lia.
Qed.

Lemma open_header_inv n : tbl_inv (open_header n) /\ get_num_autocompleted_cells (open_header n) = 0 /\
                          tb_cols (open_header n) = n.
Proof.
  assert (I : tbl_inv (open_header n)).
  { unfold tbl_inv, open_header, incr_table_row_count. cbn [tb_cols tb_rows tb_nonempty]. lia. }
  split; [exact I|]. split; [|reflexivity]. rewrite (autocompleted_exact _ I).
  unfold open_header, incr_table_row_count. cbn [tb_cols tb_rows tb_nonempty]. lia.
Qed.

Lemma try_row_step t n t1 c : tbl_inv t -> try_opening_row t n = Some (t1, c) ->
  tbl_inv t1 /\ tb_cols t1 = tb_cols t /\
  get_num_autocompleted_cells t <= max_autocompleted_cells /\
  get_num_autocompleted_cells t1 = get_num_autocompleted_cells t + c /\ c <= tb_cols t.
Proof.
  unfold try_opening_row. intros I.
  destruct (N.ltb_spec max_autocompleted_cells (get_num_autocompleted_cells t)); [discriminate|].
  intros E. inversion E; subst; clear E.
  assert (I1 : tbl_inv (incr_table_row_count t (N.min (tb_cols t) n))).
  { unfold tbl_inv, incr_table_row_count in *. cbn [tb_cols tb_rows tb_nonempty]. nia. }
  split; [exact I1|]. split; [reflexivity|]. split; [assumption|].
  rewrite (autocompleted_exact _ I1), (autocompleted_exact _ I).
  unfold tbl_inv, incr_table_row_count in *. cbn [tb_cols tb_rows tb_nonempty]. split; nia.
Qed.

Lemma feed_rows_inv : forall rows t created, tbl_inv t ->
  created = get_num_autocompleted_cells t -> created <= max_autocompleted_cells + tb_cols t ->
  let '(t', created') := feed_rows t rows created in
  tbl_inv t' /\ tb_cols t' = tb_cols t /\ created' = get_num_autocompleted_cells t' /\
  created' <= max_autocompleted_cells + tb_cols t.
Proof.
  induction rows as [|n rest IH]; intros t created I C B; cbn [feed_rows].
  - repeat split; assumption.
  - destruct (try_opening_row t n) as [[t1 c]|] eqn:E.
    + destruct (try_row_step _ _ _ _ I E) as (I1 & K1 & G & A1 & Cc).
      specialize (IH t1 (created + c) I1).
      destruct (feed_rows t1 rest (created + c)) as [t' created'].
      rewrite K1 in IH. apply IH; lia.
    + repeat split; assumption.
Qed.

(* for every header width and every sequence of body rows: the number of auto-completed cell nodes
   created equals the counter and never exceeds the cap plus one row *)
Theorem autocomplete_cap ncols rows :
  let '(t, created) := feed_rows (open_header ncols) rows 0 in
  created = get_num_autocompleted_cells t /\ created <= max_autocompleted_cells + ncols.
Proof.
  destruct (open_header_inv ncols) as (I & Z & K).
  pose proof (feed_rows_inv rows (open_header ncols) 0 I) as H.
  destruct (feed_rows (open_header ncols) rows 0) as [t created].
  rewrite K in H. destruct H as (_ & _ & A & B); [symmetry; exact Z|lia|]. split; assumption.
Qed.

(* once the counter is above the cap no further row is accepted *)
Lemma row_refused_above_cap t n : max_autocompleted_cells < get_num_autocompleted_cells t ->
  try_opening_row t n = None.
Proof.
  unfold try_opening_row. intros H.
  destruct (N.ltb_spec max_autocompleted_cells (get_num_autocompleted_cells t)); [reflexivity|lia].
Qed.

(* ------------------------------------------------------------------ column cap *)
Lemma row_cells_gen {A} : forall (cells acc : list A) v, row_cells cells acc = Some v ->
  v = rev acc ++ cells /\ (N.of_nat (List.length acc) <= max_columns -> N.of_nat (List.length v) <= max_columns).
Proof.
  induction cells as [|c rest IH]; intros acc v; cbn [row_cells].
  - intros E. inversion E; subst. rewrite app_nil_r. split; [reflexivity|]. rewrite rev_length. auto.
  - destruct (N.eqb_spec (N.of_nat (List.length acc)) max_columns) as [e|ne]; [discriminate|].
    intros E. destruct (IH _ _ E) as (V & L). split.
    + rewrite V. cbn [rev]. rewrite <- app_assoc. reflexivity.
    + intros B. apply L. cbn [List.length]. lia.
Qed.

Theorem columns_cap {A} (cells v : list A) : row_cells cells [] = Some v ->
  v = cells /\ N.of_nat (List.length v) <= max_columns.
Proof.
  intros E. destruct (row_cells_gen _ _ _ E) as (V & L). split; [exact V|].
  apply L. cbn. unfold max_columns. lia.
Qed.

Theorem columns_cap_rejects {A} (cells : list A) : max_columns < N.of_nat (List.length cells) ->
  row_cells cells [] = None.
Proof.
  intros H. destruct (row_cells cells []) as [v|] eqn:E; [|reflexivity].
  destruct (columns_cap _ _ E) as (V & L). subst. lia.
Qed.

(* ------------------------------------------------------------------ escaping expands a byte to at most six *)
Local Open Scope nat_scope.

Lemma flat_map_len_le {A} (f : A -> bytes) k : (forall a, List.length (f a) <= k) ->
  forall s, List.length (flat_map f s) <= k * List.length s.
Proof.
  intros H. induction s as [|a s IH]; cbn [flat_map List.length]; [lia|].
  rewrite app_length. specialize (H a). lia.
Qed.

Definition esc1_le6 (b : byte) : bool := Nat.leb (List.length (esc1_spec b)) 6.
Lemma esc1_le6_all : forall b, esc1_le6 b = true.
Proof. apply forall_bytes. vm_compute. reflexivity. Qed.

Definition href1_le6 (b : byte) : bool := Nat.leb (List.length (href1_spec b)) 6.
Lemma href1_le6_all : forall b, href1_le6 b = true.
Proof. apply forall_bytes. vm_compute. reflexivity. Qed.

Theorem escape_expansion s : List.length (escape_spec s) <= 6 * List.length s.
Proof.
  unfold escape_spec. apply flat_map_len_le. intros b. apply Nat.leb_le. exact (esc1_le6_all b).
Qed.

Theorem escape_href_expansion s : List.length (escape_href_spec s) <= 6 * List.length s.
Proof.
  unfold escape_href_spec. apply flat_map_len_le. intros b. apply Nat.leb_le. exact (href1_le6_all b).
Qed.
