(* Proofs/StrLeafProofs.v — lemmas about the leaf models (Model/Strings.v, Entity.v, LinkUrl.v,
   AutolinkLeaf.v, ListMarker.v); the pinned statements are in Props/StrLeaf.v. *)
From Coq Require Import List NArith Bool Lia Arith.
From Coq Require Import Strings.String.
From V Require Import Base.Bytes Base.Res Gen.Ctype Gen.StrLeafGen Gen.Entities Spec.EscapeSpec Proofs.EscapeProofs Model.Ast.
From V Require Import Model.Entity Model.Strings Model.LinkUrl Model.AutolinkLeaf Model.ListMarker.
Import ListNotations.
Local Open Scope string_scope.
Local Open Scope list_scope.

(* ------------------------------------------------------------------ ctype: generated matches = table *)
Lemma sl_isspace_ok : forall b, Bool.eqb (sl_isspace b) (isspace b) = true.
Proof. apply forall_bytes. vm_compute. reflexivity. Qed.
Lemma sl_ispunct_ok : forall b, Bool.eqb (sl_ispunct b) (ispunct b) = true.
Proof. apply forall_bytes. vm_compute. reflexivity. Qed.
Lemma sl_isdigit_ok : forall b, Bool.eqb (sl_isdigit b) (isdigit b) = true.
Proof. apply forall_bytes. vm_compute. reflexivity. Qed.
Lemma sl_isalpha_ok : forall b, Bool.eqb (sl_isalpha b) (isalpha b) = true.
Proof. apply forall_bytes. vm_compute. reflexivity. Qed.
Lemma sl_isalnum_ok : forall b, Bool.eqb (sl_isalnum b) (isalnum b) = true.
Proof. apply forall_bytes. vm_compute. reflexivity. Qed.

Lemma ctype_fast_is_table : forall b,
  sl_isspace b = isspace b /\ sl_ispunct b = ispunct b /\ sl_isdigit b = isdigit b /\
  sl_isalpha b = isalpha b /\ sl_isalnum b = isalnum b.
Proof.
  intro b. repeat split; apply eqb_prop;
    [apply sl_isspace_ok | apply sl_ispunct_ok | apply sl_isdigit_ok | apply sl_isalpha_ok | apply sl_isalnum_ok].
Qed.

(* ------------------------------------------------------------------ generic list facts *)
Lemma count_while_le p s : count_while p s <= List.length s.
Proof. induction s as [|b r IH]; simpl; [lia|]. destruct (p b); simpl; lia. Qed.

Lemma count_drop p s : skipn (count_while p s) s = drop_while p s.
Proof. induction s as [|b r IH]; simpl; [reflexivity|]. destruct (p b); simpl; [exact IH|reflexivity]. Qed.

Lemma count_take p s : firstn (count_while p s) s = take_while p s.
Proof. induction s as [|b r IH]; simpl; [reflexivity|]. destruct (p b); simpl; [f_equal; exact IH|reflexivity]. Qed.

Lemma take_drop p s : take_while p s ++ drop_while p s = s.
Proof. induction s as [|b r IH]; simpl; [reflexivity|]. destruct (p b); simpl; [f_equal; exact IH|reflexivity]. Qed.

Lemma take_while_all p s : forallb p (take_while p s) = true.
Proof. induction s as [|b r IH]; simpl; [reflexivity|]. destruct (p b) eqn:E; simpl; [rewrite E; exact IH|reflexivity]. Qed.

Lemma drop_while_head p s : match drop_while p s with b :: _ => p b = false | [] => True end.
Proof. induction s as [|b r IH]; simpl; [exact I|]. destruct (p b) eqn:E; [exact IH|exact E]. Qed.

Lemma firstn_rev_skipn {A} (l : list A) n : n <= List.length l ->
  firstn (List.length l - n) l = rev (skipn n (rev l)).
Proof.
  intro H. rewrite skipn_rev, rev_involutive. reflexivity.
Qed.

(* ------------------------------------------------------------------ shift_buf_left *)
Lemma shift_buf_left_ok buf n : n <= List.length buf -> shift_buf_left buf n = Ok (skipn n buf ++ skipn (List.length buf - n) buf).
Proof.
  intro H. unfold shift_buf_left. destruct n as [|n].
  - simpl. rewrite Nat.sub_0_r, skipn_all, app_nil_r. reflexivity.
  - apply Nat.leb_le in H as H'. rewrite H'. f_equal. f_equal.
    apply firstn_all2. rewrite skipn_length. lia.
Qed.

Lemma shift_buf_left_refuted : shift_buf_left [] 1 = Panic "strings.rs:shift_buf_left:assert n <= buf.len()".
Proof. reflexivity. Qed.

(* ------------------------------------------------------------------ trim family *)
Lemma rtrim_ok line : rtrim line = Ok (rtrim_slice line, count_while sl_isspace (rev line)).
Proof.
  unfold rtrim, rtrim_slice.
  pose proof (count_while_le sl_isspace (rev line)) as H. rewrite rev_length in H.
  destruct (Nat.ltb (List.length line) (count_while sl_isspace (rev line))) eqn:E.
  - apply Nat.ltb_lt in E. lia.
  - rewrite firstn_rev_skipn by exact H. rewrite count_drop. reflexivity.
Qed.

Lemma ltrim_ok line : ltrim line = Ok (ltrim_slice line, count_while sl_isspace line).
Proof.
  unfold ltrim, ltrim_slice.
  pose proof (count_while_le sl_isspace line) as H.
  rewrite shift_buf_left_ok by exact H. cbn [bind].
  destruct (Nat.ltb (List.length line) (count_while sl_isspace line)) eqn:E.
  - apply Nat.ltb_lt in E. lia.
  - rewrite firstn_app. rewrite skipn_length.
    rewrite Nat.sub_diag. cbn [firstn]. rewrite app_nil_r.
    rewrite firstn_all2 by (rewrite skipn_length; lia).
    rewrite count_drop. reflexivity.
Qed.

Lemma trim_ok line : trim line = Ok (trim_slice line).
Proof. unfold trim, trim_slice. rewrite ltrim_ok. cbn [bind fst]. rewrite rtrim_ok. reflexivity. Qed.

(* the obvious specification on lists *)
Definition trimmed_of (p : byte -> bool) (s t : bytes) : Prop :=
  exists pre post, s = pre ++ t ++ post /\ forallb p pre = true /\ forallb p post = true /\
    (match t with b :: _ => p b = false | [] => True end) /\
    (match rev t with b :: _ => p b = false | [] => True end).

Lemma ltrim_slice_spec s : exists pre, s = pre ++ ltrim_slice s /\ forallb sl_isspace pre = true /\
  match ltrim_slice s with b :: _ => sl_isspace b = false | [] => True end.
Proof.
  exists (take_while sl_isspace s). unfold ltrim_slice. split; [symmetry; apply take_drop|].
  split; [apply take_while_all | apply drop_while_head].
Qed.

Lemma rtrim_slice_spec s : exists post, s = rtrim_slice s ++ post /\ forallb sl_isspace post = true /\
  match rev (rtrim_slice s) with b :: _ => sl_isspace b = false | [] => True end.
Proof.
  exists (rev (take_while sl_isspace (rev s))). unfold rtrim_slice. split.
  - rewrite <- rev_app_distr, take_drop, rev_involutive. reflexivity.
  - split.
    + rewrite forallb_forall. intros x Hx. apply in_rev in Hx.
      pose proof (take_while_all sl_isspace (rev s)) as H. rewrite forallb_forall in H. apply H, Hx.
    + rewrite rev_involutive. apply drop_while_head.
Qed.

Lemma drop_while_rev_head p s : (match s with b :: _ => p b = false | [] => True end) ->
  match rev (drop_while p (rev s)) with b :: _ => p b = false | [] => True end.
Proof.
  intro H. destruct s as [|b r]; [exact I|].
  pose proof (take_drop p (rev (b :: r))) as E.
  assert (b :: r = rev (drop_while p (rev (b :: r))) ++ rev (take_while p (rev (b :: r)))) as E2.
  { rewrite <- rev_app_distr, E, rev_involutive. reflexivity. }
  destruct (rev (drop_while p (rev (b :: r)))) as [|x t] eqn:D.
  - exact I.
  - cbn [app] in E2. inversion E2; subst. exact H.
Qed.

Lemma trim_slice_spec s : trimmed_of sl_isspace s (trim_slice s).
Proof.
  destruct (ltrim_slice_spec s) as [pre [E1 [Hpre Hh]]].
  destruct (rtrim_slice_spec (ltrim_slice s)) as [post [E2 [Hpost Hl]]].
  exists pre, post. unfold trim_slice. split; [rewrite <- E2; exact E1|].
  split; [exact Hpre|]. split; [exact Hpost|]. split; [|exact Hl].
  (* head: rtrim_slice keeps the head of a list whose head is not a space *)
  unfold rtrim_slice.
  destruct (rev (drop_while sl_isspace (rev (ltrim_slice s)))) as [|x t] eqn:D; [exact I|].
  destruct (ltrim_slice s) as [|y r] eqn:L; [simpl in D; discriminate|].
  pose proof (take_drop sl_isspace (rev (y :: r))) as E.
  assert (y :: r = rev (drop_while sl_isspace (rev (y :: r))) ++ rev (take_while sl_isspace (rev (y :: r)))) as E3.
  { rewrite <- rev_app_distr, E, rev_involutive. reflexivity. }
  rewrite D in E3. cbn [app] in E3. inversion E3; subst. exact Hh.
Qed.

(* ------------------------------------------------------------------ unescape *)
From V Require Import Spec.StrLeafSpec.

Lemma ispunct_fast b : sl_ispunct b = ispunct b.
Proof. apply (ctype_fast_is_table b). Qed.
Lemma isspace_fast b : sl_isspace b = isspace b.
Proof. apply (ctype_fast_is_table b). Qed.

Definition unescape_inv (r : nat) (prev : option nat) (found : nat) : Prop :=
  match prev with None => found = 0 | Some p => p < r /\ 1 <= found /\ found <= p + 1 end.

Lemma unescape_window_ok prev found r r' len :
  unescape_inv r prev found -> r <= r' -> r' <= len -> unescape_window prev found r' len = Ok tt.
Proof.
  unfold unescape_inv, unescape_window. destruct prev as [p|]; [|reflexivity].
  intros [H1 [H2 H3]] Hr Hl.
  destruct (Nat.ltb (p + 1) found) eqn:E1; [apply Nat.ltb_lt in E1; lia|].
  destruct (Nat.ltb r' (p + 1 - found)) eqn:E2; [apply Nat.ltb_lt in E2; lia|].
  destruct (Nat.ltb len r') eqn:E3; [apply Nat.ltb_lt in E3; lia|].
  cbn [orb].
  destruct (Nat.ltb (r' - (p + 1 - found)) found) eqn:E4; [apply Nat.ltb_lt in E4; lia|].
  reflexivity.
Qed.

Lemma unescape_loop_spec : forall n s r prev found len,
  List.length s <= n -> len = r + List.length s -> unescape_inv r prev found ->
  unescape_loop len s r prev found = Ok (unescape_spec s).
Proof.
  induction n as [|n IH]; intros s r prev found len Hn Hlen Hinv.
  - destruct s; [|simpl in Hn; lia]. cbn [unescape_loop unescape_spec].
    rewrite (unescape_window_ok prev found r r len Hinv) by (simpl in Hlen; lia). cbn [bind].
    assert (found <= len) as Hf.
    { unfold unescape_inv in Hinv. destruct prev as [p|]; simpl in Hlen; lia. }
    destruct (Nat.ltb len found) eqn:E; [apply Nat.ltb_lt in E; lia|reflexivity].
  - destruct s as [|c s1].
    + cbn [unescape_loop unescape_spec].
      rewrite (unescape_window_ok prev found r r len Hinv) by (simpl in Hlen; lia). cbn [bind].
      assert (found <= len) as Hf.
      { unfold unescape_inv in Hinv. destruct prev as [p|]; simpl in Hlen; lia. }
      destruct (Nat.ltb len found) eqn:E; [apply Nat.ltb_lt in E; lia|reflexivity].
    + cbn [List.length] in Hn, Hlen.
      assert (forall prev' found', unescape_inv (S r) prev' found' ->
                unescape_loop len s1 (S r) prev' found' = Ok (unescape_spec s1)) as IH1.
      { intros. apply IH; [lia|lia|assumption]. }
      assert (unescape_inv (S r) prev found) as Hinv'.
      { unfold unescape_inv in *. destruct prev; lia. }
      cbn [unescape_loop unescape_spec].
      destruct (beqb c x5c) eqn:Ec; cbn [andb].
      * destruct s1 as [|d s2].
        -- rewrite IH1 by exact Hinv'. reflexivity.
        -- rewrite ispunct_fast. destruct (ispunct d) eqn:Ep.
           ++ cbn [List.length] in Hn, Hlen.
              destruct (beqb d x5c) eqn:Ed.
              ** rewrite (unescape_window_ok prev found r (S r) len Hinv) by lia. cbn [bind].
                 rewrite (IH s2 (S (S r)) (Some (S r)) (S found) len); [| lia | lia |].
                 --- cbn [res_map]. apply beqb_eq in Ec. apply beqb_eq in Ed. subst. reflexivity.
                 --- unfold unescape_inv in *. destruct prev; lia.
              ** rewrite (unescape_window_ok prev found r r len Hinv) by lia. cbn [bind].
                 rewrite (IH1 (Some r) (S found)).
                 --- f_equal. cbn [unescape_spec]. rewrite Ed. cbn [andb].
                     destruct s2; reflexivity.
                 --- unfold unescape_inv in *. destruct prev; lia.
           ++ rewrite IH1 by exact Hinv'. reflexivity.
      * rewrite IH1 by exact Hinv'. cbn [res_map]. destruct s1; reflexivity.
Qed.

Theorem unescape_is_spec v : Strings.unescape v = Ok (unescape_spec v).
Proof.
  unfold Strings.unescape. apply (unescape_loop_spec (List.length v)); [lia | lia | reflexivity].
Qed.

Definition bs3 : bytes := Eval compute in [x5c; x5c; x5c; x21].
Lemma unescape_not_idempotent : exists v, unescape_spec (unescape_spec v) <> unescape_spec v.
Proof. exists bs3. vm_compute. discriminate. Qed.

(* where it is idempotent: an output without backslash *)
Lemma unescape_spec_no_backslash s : existsb (fun b => beqb b x5c) s = false -> unescape_spec s = s.
Proof.
  induction s as [|c s1 IH]; [reflexivity|]. cbn [existsb]. intro H. apply orb_false_iff in H. destruct H as [Hc Hs].
  cbn [unescape_spec]. rewrite Hc. cbn [andb]. destruct s1; [reflexivity|]. rewrite IH by exact Hs. reflexivity.
Qed.

(* nothing else changes: the result is the input with some backslashes, each followed by punctuation, removed *)
Inductive del_escapes : bytes -> bytes -> Prop :=
| de_nil : del_escapes [] []
| de_keep c s t : del_escapes s t -> del_escapes (c :: s) (c :: t)
| de_esc d s t : ispunct d = true -> del_escapes s t -> del_escapes (x5c :: d :: s) (d :: t).

Lemma unescape_spec_deletes : forall n s, List.length s <= n -> del_escapes s (unescape_spec s).
Proof.
  induction n as [|n IH]; intros s Hn.
  - destruct s; [constructor | simpl in Hn; lia].
  - destruct s as [|c s1]; [constructor|]. cbn [unescape_spec]. cbn [List.length] in Hn.
    destruct s1 as [|d s2]; [repeat constructor|].
    destruct (beqb c x5c && ispunct d) eqn:E.
    + apply andb_true_iff in E. destruct E as [Ec Ep]. apply beqb_eq in Ec. subst c.
      constructor; [exact Ep|]. apply IH. cbn [List.length] in Hn. lia.
    + constructor. apply IH. lia.
Qed.

(* and no removable backslash is left behind at the front: a backslash before punctuation in the
   input is always taken (greedy, left to right) *)
Lemma unescape_spec_greedy d s : ispunct d = true -> unescape_spec (x5c :: d :: s) = d :: unescape_spec s.
Proof. intro H. cbn [unescape_spec]. rewrite H. reflexivity. Qed.

(* ------------------------------------------------------------------ normalize_code *)
Definition nonspace_in (v : bytes) : bool :=
  existsb (fun c => negb (beqb c x20 || beqb c x0d || beqb c x0a)) v.

Lemma normalize_code_loop_spec : forall n v, List.length v <= n ->
  normalize_code_loop v = (line_endings_to_spaces v, nonspace_in v).
Proof.
  induction n as [|n IH]; intros v Hn.
  - destruct v; [reflexivity | simpl in Hn; lia].
  - destruct v as [|c v1]; [reflexivity|]. cbn [List.length] in Hn.
    cbn [normalize_code_loop]. rewrite (IH v1) by lia.
    cbn [line_endings_to_spaces nonspace_in existsb].
    destruct (beqb c x0d) eqn:Ecr.
    + destruct v1 as [|d r2]; [reflexivity|].
      destruct (beqb d x0a) eqn:Elf; [|reflexivity].
      cbn [line_endings_to_spaces]. rewrite Elf.
      assert (beqb d x0d = false) as Ed.
      { apply beqb_eq in Elf. subst d. reflexivity. }
      rewrite Ed. reflexivity.
    + destruct (beqb c x0a); reflexivity.
Qed.

Lemma les_all_spaces v : all_spaces (line_endings_to_spaces v) = negb (nonspace_in v).
Proof.
  assert (forall n v, List.length v <= n -> all_spaces (line_endings_to_spaces v) = negb (nonspace_in v)) as H.
  { induction n as [|n IH]; intros w Hn.
    - destruct w; [reflexivity | simpl in Hn; lia].
    - destruct w as [|c w1]; [reflexivity|]. cbn [List.length] in Hn.
      cbn [line_endings_to_spaces nonspace_in existsb].
      destruct (beqb c x0d) eqn:Ecr.
      + rewrite orb_true_r. cbn [negb orb].
        destruct w1 as [|d r2]; [reflexivity|].
        destruct (beqb d x0a) eqn:Elf.
        * unfold all_spaces. cbn [forallb]. fold (all_spaces (line_endings_to_spaces r2)).
          rewrite IH by (cbn [List.length] in Hn; lia).
          cbn [nonspace_in existsb]. rewrite Elf. rewrite !orb_true_r. reflexivity.
        * unfold all_spaces. cbn [forallb]. fold (all_spaces (line_endings_to_spaces (d :: r2))).
          rewrite IH by lia. reflexivity.
      + destruct (beqb c x0a) eqn:Elf.
        * rewrite orb_true_r. cbn [negb orb]. unfold all_spaces. cbn [forallb].
          fold (all_spaces (line_endings_to_spaces w1)). rewrite IH by lia. reflexivity.
        * unfold all_spaces. cbn [forallb]. fold (all_spaces (line_endings_to_spaces w1)).
          rewrite IH by lia. rewrite !orb_false_r.
          destruct (beqb c x20); reflexivity. }
  apply (H (List.length v)). lia.
Qed.

Theorem normalize_code_is_spec v : normalize_code v = Ok (code_span_spec v).
Proof.
  unfold normalize_code, code_span_spec.
  rewrite (normalize_code_loop_spec (List.length v)) by lia.
  rewrite les_all_spaces.
  destruct (line_endings_to_spaces v) as [|x r] eqn:E.
  - rewrite andb_false_r. reflexivity.
  - rewrite negb_involutive. cbn [negb]. rewrite andb_true_r.
    destruct (nonspace_in v); cbn [andb negb].
    + destruct (beqb x x20 && beqb (last (x :: r) x00) x20); reflexivity.
    + rewrite andb_false_r. reflexivity.
Qed.

(* ------------------------------------------------------------------ remove_trailing_blank_lines, chop_trailing_hashtags *)
Theorem remove_trailing_blank_lines_total line : line <> [] -> exists o, remove_trailing_blank_lines line = Ok o.
Proof.
  intro H. unfold remove_trailing_blank_lines. destruct line; [contradiction|].
  destruct (Nat.leb _ _); eexists; reflexivity.
Qed.

Lemma remove_trailing_blank_lines_refuted :
  remove_trailing_blank_lines [] = Panic "strings.rs:remove_trailing_blank_lines:line.len() - 1".
Proof. reflexivity. Qed.

Lemma rtrim_slice_nonempty line : existsb (fun b => negb (sl_isspace b)) line = true -> rtrim_slice line <> [].
Proof.
  intros H E. destruct (rtrim_slice_spec line) as [post [E1 [Hp _]]]. rewrite E in E1. cbn [app] in E1. subst post.
  rewrite existsb_exists in H. destruct H as [x [Hx Hn]]. rewrite forallb_forall in Hp. rewrite (Hp x Hx) in Hn. discriminate.
Qed.

Theorem chop_trailing_hashtags_total line :
  existsb (fun b => negb (sl_isspace b)) line = true -> exists o, chop_trailing_hashtags line = Ok o.
Proof.
  intro H. unfold chop_trailing_hashtags. rewrite rtrim_ok. cbn [bind fst].
  pose proof (rtrim_slice_nonempty line H) as Hne.
  destruct (rtrim_slice line) as [|x l] eqn:E; [contradiction|].
  set (L := x :: l). set (hashes := count_while (fun c => beqb c x23) (rev L)).
  destruct (Nat.leb (List.length L) hashes) eqn:El; [eexists; reflexivity|].
  apply Nat.leb_gt in El.
  destruct (nth_error L (List.length L - 1 - hashes)) eqn:En.
  - destruct (negb (Nat.eqb hashes 0) && is_space_or_tab b).
    + rewrite rtrim_ok. cbn [bind fst]. eexists; reflexivity.
    + eexists; reflexivity.
  - apply nth_error_None in En. lia.
Qed.

Lemma chop_trailing_hashtags_refuted :
  chop_trailing_hashtags [x20] = Panic "strings.rs:chop_trailing_hashtags:line.len() - 1".
Proof. reflexivity. Qed.
