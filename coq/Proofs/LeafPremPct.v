(* Proofs/LeafPremPct.v — C01, the premises of the inline phase, part 6 (brick for the clause `first line not blank`):
   along the Ok path of check_open_blocks and open_new_blocks, whenever partially_consumed_tab is set the byte at the
   offset is a TAB (PCT).  advance_offset sets the flag only when it stops inside a tab; find_first_nonspace and the tree
   operations keep offset and flag (frame lemmas KC of Proofs/BlocksTotal4Frame.v); handle_list restores a saved
   offset / flag pair.  add_line (offset += 1 with the flag kept) is the last cursor action of a line and not covered. *)
From Coq Require Import List NArith Arith Bool Lia Strings.String.
From V Require Import Base.Bytes Base.Res Gen.StrLeafGen Gen.FeedConst Gen.Nodes Gen.BlocksConst Model.Ast Model.Strings
  Model.AutolinkLeaf Model.Scan Spec.EscapeSpec Model.Feed Model.FrontMatter Model.RefDef Model.Blocks
  Proofs.StrLeafProofs Proofs.BlocksProofs Proofs.BlocksPos Proofs.BlocksTotal4Frame.
Import ListNotations.
Local Open Scope string_scope.
Local Open Scope list_scope.

Section Pct.
Variable line : bytes.

Definition PCT (c : cursor) : Prop := c_pct c = true -> nth_error line (c_offset c) = Some x09.
Inductive PI (st : pstate) : Prop := PI_intro : PCT (ps_cur st) -> PI st.

Lemma PI_st_next st n : PI st -> PI (st_next st n). Proof. intros [H]. constructor. exact H. Qed.
Lemma PI_st_current st n : PI st -> PI (st_current st n). Proof. intros [H]. constructor. exact H. Qed.
Lemma PI_st_refmap st m : PI st -> PI (st_refmap st m). Proof. intros [H]. constructor. exact H. Qed.
Lemma PI_st_root st r : PI st -> PI (st_root st r). Proof. intros [H]. constructor. exact H. Qed.
Lemma PI_st_curline st a b : PI st -> PI (st_curline st a b). Proof. intros [H]. constructor. exact H. Qed.
Lemma PI_st_last_line_length st n : PI st -> PI (st_last_line_length st n). Proof. intros [H]. constructor. exact H. Qed.
Lemma PI_st_line_number st n : PI st -> PI (st_line_number st n). Proof. intros [H]. constructor. exact H. Qed.
Lemma PI_tbkp st k : PI st -> PI (st_cur st (cur_set_tbkp (ps_cur st) k)). Proof. intros [H]. constructor. exact H. Qed.

Lemma PI_KC st st' : KC (ps_cur st) (ps_curline_len st) st' -> PI st -> PI st'.
Proof. intros [K _] [H]. constructor. rewrite K. exact H. Qed.

Lemma modify_pi st id f st' : modify st id f = Ok st' -> PI st -> PI st'.
Proof. intros M. apply PI_KC. eapply modify_KC; [exact M | apply KC_self]. Qed.
Lemma modify_info_pi st id f st' : modify_info st id f = Ok st' -> PI st -> PI st'.
Proof. apply modify_pi. Qed.
Lemma bdetach_pi st id st' : bdetach st id = Ok st' -> PI st -> PI st'.
Proof. intros M. apply PI_KC. eapply bdetach_KC; [exact M | apply KC_self]. Qed.
Lemma finalize_pi o st id p st' : finalize o st id = Ok (p, st') -> PI st -> PI st'.
Proof. intros M. apply PI_KC. eapply finalize_KC; [exact M | apply KC_self]. Qed.
Lemma unwrap_parent_fin_pi site o st id p st' : unwrap_parent site (finalize o st id) = Ok (p, st') -> PI st -> PI st'.
Proof. intros M. apply PI_KC. eapply unwrap_parent_KC; [exact M | apply KC_self]. Qed.
Lemma add_child_gen_pi o st parent v col post kids id st' : add_child_gen o st parent v col post kids = Ok (id, st') -> PI st -> PI st'.
Proof. intros M. apply PI_KC. eapply add_child_gen_KC; [exact M | apply KC_self]. Qed.
Lemma add_child_pi o st parent v col id st' : add_child o st parent v col = Ok (id, st') -> PI st -> PI st'.
Proof. intros M. apply PI_KC. eapply add_child_KC; [exact M | apply KC_self]. Qed.
Lemma parse_desc_list_details_pi o st c m b c' st' : parse_desc_list_details o st c m = Ok (b, c', st') -> PI st -> PI st'.
Proof. intros M. apply PI_KC. eapply parse_desc_list_details_KC; [exact M | apply KC_self]. Qed.
Lemma try_inserting_pi st c po st' : try_inserting_table_header_paragraph st c po = Ok st' -> PI st -> PI st'.
Proof. intros M. apply PI_KC. eapply try_inserting_KC; [exact M | apply KC_self]. Qed.

(* advance_offset *)
Lemma advance_loop_pct columns : forall fuel off col pct count off' col' pct',
  advance_loop fuel line off col pct count columns = Ok (off', col', pct') ->
  (pct = true -> nth_error line off = Some x09) -> (pct' = true -> nth_error line off' = Some x09).
Proof.
  induction fuel as [|f IH]; intros off col pct count off' col' pct' H P; destruct count as [|k]; cbn [advance_loop] in H;
    try (inversion H; subst; exact P); try discriminate H.
  unfold idx in H. destruct (nth_error line off) as [b|] eqn:N; cbn [bind] in H; [|discriminate H].
  destruct (beqb b x09) eqn:B.
  - apply beqb_eq in B. subst b. destruct columns.
    + eapply IH; [exact H|]. destruct (Nat.ltb (S k) (tab_stop - col mod tab_stop)); [intros _; exact N | discriminate].
    + eapply IH; [exact H | discriminate].
  - eapply IH; [exact H | discriminate].
Qed.

Lemma adv_pi st n b st' : adv st line n b = Ok st' -> PI st -> PI st'.
Proof.
  unfold adv, advance_offset. intros H [P].
  destruct (advance_loop n line (c_offset (ps_cur st)) (c_column (ps_cur st)) (c_pct (ps_cur st)) n b) as [[[off col] pct]| |] eqn:E;
    cbn [bind] in H; try discriminate H.
  inversion H; subst. constructor. unfold PCT. cbn. eapply advance_loop_pct; [exact E | exact P].
Qed.

Lemma ffn_pi st st' : ffn st line = Ok st' -> PI st -> PI st'.
Proof.
  unfold ffn, find_first_nonspace. intros H [P].
  destruct (if Nat.leb (c_fns (ps_cur st)) (c_offset (ps_cur st)) then _ else _) as [f fc].
  destruct (sub _ fc (c_column (ps_cur st))) as [ind| |]; cbn [bind] in H; try discriminate H.
  inversion H; subst. constructor. exact P.
Qed.

Create HintDb pi.
Hint Resolve PI_st_next PI_st_current PI_st_refmap PI_st_root PI_st_curline PI_st_last_line_length PI_st_line_number PI_tbkp
  modify_pi modify_info_pi bdetach_pi finalize_pi unwrap_parent_fin_pi add_child_gen_pi add_child_pi parse_desc_list_details_pi
  try_inserting_pi adv_pi ffn_pi : pi.

Ltac pigo H := mon H; monall; repeat match goal with p : (_ * _)%type |- _ => destruct p end; cbn [fst snd] in *; eauto 20 with pi.

Lemma skip_one_space_pi st site st' : skip_one_space st line site = Ok st' -> PI st -> PI st'.
Proof. unfold skip_one_space. intros H P. pigo H. Qed.
Hint Resolve skip_one_space_pi : pi.
Lemma parse_block_quote_prefix_pi o st b st' : parse_block_quote_prefix o st line = Ok (b, st') -> PI st -> PI st'.
Proof. unfold parse_block_quote_prefix. intros H P. pigo H. Qed.
Hint Resolve parse_block_quote_prefix_pi : pi.
Lemma parse_footnote_prefix_pi st b st' : parse_footnote_definition_block_prefix st line = Ok (b, st') -> PI st -> PI st'.
Proof. unfold parse_footnote_definition_block_prefix. intros H P. pigo H. Qed.
Hint Resolve parse_footnote_prefix_pi : pi.
Lemma parse_item_prefix_pi st c mo pad b st' : parse_item_prefix st line c mo pad = Ok (b, st') -> PI st -> PI st'.
Proof. unfold parse_item_prefix. intros H P. pigo H. Qed.
Hint Resolve parse_item_prefix_pi : pi.
Lemma skip_fence_offset_pi site : forall i st st', skip_fence_offset i st line site = Ok st' -> PI st -> PI st'.
Proof. induction i as [|j IH]; intros st st' H P; cbn [skip_fence_offset] in H; pigo H. Qed.
Hint Resolve skip_fence_offset_pi : pi.
Lemma parse_code_block_prefix_pi o st c cb a b st' : parse_code_block_prefix o st line c cb = Ok (a, b, st') -> PI st -> PI st'.
Proof. unfold parse_code_block_prefix. intros H P. pigo H. Qed.
Hint Resolve parse_code_block_prefix_pi : pi.
Lemma parse_mbq_prefix_pi o st c fl fo a b st' : parse_multiline_block_quote_prefix o st line c fl fo = Ok (a, b, st') -> PI st -> PI st'.
Proof. unfold parse_multiline_block_quote_prefix. intros H P. pigo H. Qed.
Hint Resolve parse_mbq_prefix_pi : pi.
Lemma check_container_pi o st c a b st' : check_container o st line c = Ok (a, b, st') -> PI st -> PI st'.
Proof. unfold check_container. intros H P. destruct (bval c); pigo H. Qed.
Hint Resolve check_container_pi : pi.
Lemma check_open_blocks_inner_pi o : forall fuel st container a c b st',
  check_open_blocks_inner fuel o st line container = Ok (a, c, b, st') -> PI st -> PI st'.
Proof. induction fuel as [|f IH]; intros st container a c b st' H P; cbn [check_open_blocks_inner] in H; pigo H. Qed.
Hint Resolve check_open_blocks_inner_pi : pi.
Lemma check_open_blocks_pi o st r st' : check_open_blocks o st line = Ok (r, st') -> PI st -> PI st'.
Proof. unfold check_open_blocks. intros H P. pigo H. Qed.
Hint Resolve check_open_blocks_pi : pi.


(* tables *)
Lemma try_opening_header_pi o st c r st' : try_opening_header o st c line = Ok (r, st') -> PI st -> PI st'.
Proof. unfold try_opening_header. intros H P. pigo H. Qed.
Lemma try_opening_row_pi o st c t r st' : try_opening_row o st c t line = Ok (r, st') -> PI st -> PI st'.
Proof. unfold try_opening_row. intros H P. pigo H. Qed.
Lemma try_opening_block_pi o st c r st' : try_opening_block o st c line = Ok (r, st') -> PI st -> PI st'.
Proof.
  unfold try_opening_block. intros H P.
  destruct (get st c) as [cn| |] eqn:G; cbn [bind] in H; try discriminate H.
  destruct (bval cn) eqn:Bv; try (inversion H; subst; exact P).
  - eapply try_opening_header_pi; eassumption.
  - eapply try_opening_row_pi; eassumption.
Qed.
Hint Resolve try_opening_block_pi : pi.

Lemma reopen_pi : forall fuel st id st', reopen_ast_nodes fuel st id = Ok st' -> PI st -> PI st'.
Proof. induction fuel as [|f IH]; intros st id st' H P; cbn [reopen_ast_nodes] in H; pigo H. Qed.
Hint Resolve reopen_pi : pi.

Hint Resolve reopen_pi : pi.

Section handlers.
Variable o : bopts.

Lemma handle_alert_pi st c ind b c' st' : handle_alert o st c line ind = Ok (b, c', st') -> PI st -> PI st'.
Proof. unfold handle_alert. intros H P. pigo H. Qed.
Lemma handle_mbq_pi st c ind b c' st' : handle_multiline_blockquote o st c line ind = Ok (b, c', st') -> PI st -> PI st'.
Proof. unfold handle_multiline_blockquote, rest_at_fns. intros H P. pigo H. Qed.
Lemma handle_blockquote_pi st c ind b c' st' : handle_blockquote o st c line ind = Ok (b, c', st') -> PI st -> PI st'.
Proof. unfold handle_blockquote. intros H P. pigo H. Qed.
Lemma handle_atx_pi st c ind b c' st' : handle_atx_heading o st c line ind = Ok (b, c', st') -> PI st -> PI st'.
Proof. unfold handle_atx_heading, rest_at_fns. intros H P. pigo H. Qed.
Lemma handle_code_fence_pi st c ind b c' st' : handle_code_fence o st c line ind = Ok (b, c', st') -> PI st -> PI st'.
Proof. unfold handle_code_fence, rest_at_fns. intros H P. pigo H. Qed.
Lemma handle_html_block_pi st c ind b c' st' : handle_html_block o st c line ind = Ok (b, c', st') -> PI st -> PI st'.
Proof. unfold handle_html_block, rest_at_fns. intros H P. pigo H. Qed.
Lemma handle_footnote_pi st c ind d b c' st' : handle_footnote o st c line ind d = Ok (b, c', st') -> PI st -> PI st'.
Proof. unfold handle_footnote, rest_at_fns. intros H P. pigo H. Qed.
Lemma list_spaces_loop_pi sc : forall fuel st st', list_spaces_loop fuel st line sc = Ok st' -> PI st -> PI st'.
Proof. induction fuel as [|f IH]; intros st st' H P; cbn [list_spaces_loop] in H; pigo H. Qed.
Hint Resolve list_spaces_loop_pi : pi.
Lemma handle_list_pi st c ind d b c' st' : handle_list o st c line ind d = Ok (b, c', st') -> PI st -> PI st'.
Proof.
  unfold handle_list. intros H P.
  mon H; monall; repeat match goal with p : (_ * _)%type |- _ => destruct p end; cbn [fst snd] in *; eauto 20 with pi;
  match goal with A : adv st line _ false = Ok ?s1 |- _ => assert (P1 : PI s1) by eauto with pi end;
  match goal with L : list_spaces_loop _ ?s1 line _ = Ok ?s2 |- _ =>
    assert (P3 : PI (st_cur s2 (cur_set_oc (ps_cur s2) (c_offset (ps_cur s1)) (c_column (ps_cur s1)) (c_pct (ps_cur s1)))))
      by (destruct P1 as [P1]; constructor; exact P1) end;
  eauto 20 with pi.
Qed.
Lemma handle_code_block_pi st c ind ml b c' st' : handle_code_block o st c line ind ml = Ok (b, c', st') -> PI st -> PI st'.
Proof. unfold handle_code_block. intros H P. pigo H. Qed.

Lemma handle_setext_pi st c ind b c' st' : handle_setext_heading o st c line ind = Ok (b, c', st') -> PI st -> PI st'.
Proof. unfold handle_setext_heading, rest_at_fns. intros H P. pigo H. Qed.

Lemma handle_thematic_break_pi st c ind am b c' st' : handle_thematic_break o st c line ind am = Ok (b, c', st') -> PI st -> PI st'.
Proof. unfold handle_thematic_break. intros H P. pigo H. Qed.

Lemma handle_description_list_pi st c ind b c' st' : handle_description_list o st c line ind = Ok (b, c', st') -> PI st -> PI st'.
Proof. unfold handle_description_list, rest_at_fns. intros H P. pigo H. Qed.

Hint Resolve handle_alert_pi handle_mbq_pi handle_blockquote_pi handle_atx_pi handle_code_fence_pi
  handle_html_block_pi handle_setext_pi handle_thematic_break_pi handle_footnote_pi
  handle_description_list_pi handle_list_pi handle_code_block_pi : pi.

Lemma or_else_h_pi (r : hres) k b c st st' :
  or_else_h r k = Ok (b, c, st') -> PI st ->
  (forall b1 c1 s1, r = Ok (b1, c1, s1) -> PI st -> PI s1) ->
  (forall c1 s1 b2 c2 s2, k c1 s1 = Ok (b2, c2, s2) -> PI s1 -> PI s2) ->
  PI st'.
Proof.
  unfold or_else_h. intros H P Hr Hk.
  destruct r as [[[b1 c1] s1]| |]; cbn [bind] in H; try discriminate H.
  destruct b1.
  - inversion H; subst. eapply Hr; [reflexivity | exact P].
  - eapply Hk; [exact H|]. eapply Hr; [reflexivity | exact P].
Qed.

Ltac chain_p :=
  match goal with
  | R : or_else_h _ _ = Ok _ |- PI _ =>
    eapply (or_else_h_pi _ _ _ _ _ _ R); clear R;
    [ eassumption | intros ? ? ? ? ?; eauto with pi | intros ? ? ? ? ? R ?; cbv beta in R; chain_p ]
  | |- PI _ => eauto with pi
  end.

(* the state after the chain of handlers *)
Lemma handlers_chain_pi st ind am ml d c hd c1 s1 :
  or_else_h (handle_alert o st c line ind) (fun container st =>
          or_else_h (handle_multiline_blockquote o st container line ind) (fun container st =>
          or_else_h (handle_blockquote o st container line ind) (fun container st =>
          or_else_h (handle_atx_heading o st container line ind) (fun container st =>
          or_else_h (handle_code_fence o st container line ind) (fun container st =>
          or_else_h (handle_html_block o st container line ind) (fun container st =>
          or_else_h (handle_setext_heading o st container line ind) (fun container st =>
          or_else_h (handle_thematic_break o st container line ind am) (fun container st =>
          or_else_h (handle_footnote o st container line ind d) (fun container st =>
          or_else_h (handle_description_list o st container line ind) (fun container st =>
          or_else_h (handle_list o st container line ind d) (fun container st =>
          handle_code_block o st container line ind ml))))))))))) = Ok (hd, c1, s1) -> PI st -> PI s1.
Proof. intros R P. chain_p. Qed.

Lemma open_new_blocks_step_pi st c am ml d g c' st' :
  open_new_blocks_step o st c line am ml d = Ok (g, c', st') -> PI st -> PI st'.
Proof.
  unfold open_new_blocks_step. intros H P.
  destruct (ffn st line) as [s0| |] eqn:F0; cbn [bind] in H; try discriminate H.
  assert (P0 : PI s0) by eauto with pi.
  match type of H with bind ?r _ = _ => destruct r as [[[hd c1] s1]| |] eqn:R; cbn [bind] in H; try discriminate H end.
  assert (P1 : PI s1) by (eapply handlers_chain_pi; eassumption).
  clear R.
  destruct hd.
  - pigo H.
  - destruct (negb (Nat.leb code_indent (indent s0)) && bo_table o) eqn:Tb.
    + destruct (try_opening_block o s1 c1 line) as [[tr s2]| |] eqn:TO; cbn [bind] in H; try discriminate H.
      assert (P2 : PI s2) by (eapply try_opening_block_pi; eassumption).
      destruct tr; pigo H.
    + pigo H.
Qed.
Hint Resolve open_new_blocks_step_pi : pi.

Lemma open_new_blocks_loop_pi am : forall fuel st c ml d c' st',
  open_new_blocks_loop fuel o st c line am ml d = Ok (c', st') -> PI st -> PI st'.
Proof. induction fuel as [|f IH]; intros st c ml d c' st' H P; cbn [open_new_blocks_loop] in H; pigo H. Qed.
Hint Resolve open_new_blocks_loop_pi : pi.

Lemma open_new_blocks_pi st c am c' st' : open_new_blocks o st c line am = Ok (c', st') -> PI st -> PI st'.
Proof. unfold open_new_blocks. intros H P. pigo H. Qed.

End handlers.
End Pct.
