(* Proofs/BlocksTotal5FuelDesc.v — totality of the block phase, fifth round, step 1, part 2: parse_desc_list_details
   and handle_description_list never run out of fuel under the invariant J of the handlers.  The walk is the one of
   Proofs/BlocksTotal3Tab.v (pdld_paragraph: the paragraph leaves the tree, invariant DX = TI with its identifiers
   excluded; every intermediate state satisfies W: DX_W), with the no-fuel half added: each add_child / reopen_ast_nodes
   starts from a state with W, so its fuel S (ps_next st) is enough (Proofs/BlocksTotal4FuelFin.v, FuelTree.v). *)
From Coq Require Import List NArith Arith Bool Lia Strings.String.
From V Require Import Base.Bytes Base.Res Gen.Nodes Model.Ast Model.Strings Model.Feed Model.FrontMatter Model.RefDef
  Model.Scan Model.Blocks Spec.Shape Spec.Valid Proofs.BlocksProofs Proofs.BlocksCursor Proofs.BlocksTight
  Proofs.ParserShapeBlocks Proofs.ParserShapeTree Proofs.ParserShapeTabPrim Proofs.ParserShapeTables
  Proofs.BlocksTotal Proofs.BlocksTotal2Safe Proofs.BlocksTotal2Root Proofs.BlocksTotal2Tree Proofs.BlocksTotal2Walk
  Proofs.BlocksTotal3Tab Proofs.BlocksTotal3Cur Proofs.BlocksTotal4Fuel Proofs.BlocksTotal4FuelTree Proofs.BlocksTotal4FuelFin
  Proofs.BlocksTotal4FuelText Proofs.BlocksTotal5Fuel.
From V Require Proofs.BlocksNestTab.
Import ListNotations.
Local Open Scope string_scope.
Local Open Scope list_scope.

Section DescList.
Variables (o : bopts) (lmc cur0 : nat).
Notation Jx := (J o lmc cur0).

Lemma nf_pdld_paragraph st c1 c1n lc tight matched col :
  Jx st c1 -> ispara st c1 = false -> get st c1 = Ok c1n -> In lc (bkids c1n) -> bval lc = Paragraph ->
  nf
    (do st1 <- bdetach st (bid lc);
     let lsl := bi_sl (binf lc) in let lsc := bi_sc (binf lc) in
     do c1' <- get st1 c1;
     do lr <- (match last_opt (bkids c1') with
               | Some l2 =>
                 match bval l2 with
                 | DescriptionList => do s <- reopen_ast_nodes (S (ps_next st1)) st1 (bid l2); Ok (bid l2, s)
                 | _ => do a <- add_child o st1 c1 DescriptionList col;
                        do s <- modify_info (snd a) (fst a) (set_start lsl lsc); Ok (fst a, s)
                 end
               | None => do a <- add_child o st1 c1 DescriptionList col;
                         do s <- modify_info (snd a) (fst a) (set_start lsl lsc); Ok (fst a, s)
               end);
     let '(list, st2) := lr in
     do a <- add_child o st2 list (DescriptionItem (N.of_nat (indent st2)) (N.of_nat matched) tight) col;
     let '(item, st3) := a in
     do st4 <- modify_info st3 item (set_start lsl lsc);
     do a <- add_child_gen o st4 item DescriptionTerm col (fun i => i) [lc];
     let '(term, st5) := a in
     do a <- add_child o st5 item DescriptionDetails col;
     let '(details, st6) := a in
     Ok (true, details, st6)).
Proof.
  intros Jc NP1 G1 Hl Bl. pose proof Jc as (V & Hc1 & _ & Cc & Kc).
  assert (Hs : In lc (bsub (ps_root st))) by (eapply bsub_kid_of; [eapply get_sub; exact G1 | exact Hl]).
  pose proof (get_unique _ _ _ V Hs) as Gl.
  assert (Pl : is_paragraph lc = true) by (unfold is_paragraph; now rewrite Bl).
  pose proof (para_leaf _ _ _ _ V Gl Pl) as Kl.
  pose proof (kid_ne _ _ _ _ _ V G1 Hl) as Ne.
  pose proof (get_ball _ _ _ _ (TI_NI _ _ _ (W_TI _ _ V)) Gl) as Ball.
  pose proof (get_btab _ _ _ _ _ (W_TI _ _ V) Gl) as Btl.
  pose proof (get_valid _ _ _ (W_SV _ _ V) Gl) as Tvl.
  set (P := fun y => has st y /\ y <> bid lc).
  cbv zeta.
  apply nf_bind; [auto with fuel|]. intros st1 D.
  assert (T1 : TI o (ids lc ++ []) st1).
  { eapply bdetach_TI_keep; [exact D | exact (W_TI _ _ V) | eapply get_sub; exact G1 | exact Hl | rewrite Bl; reflexivity]. }
  assert (S1 : SV st1) by (eapply bdetach_valid'; [exact D | exact (W_SV _ _ V)]).
  assert (R1 : R0 o st1) by (eapply bdetach_R0; [exact D | exact (W_R0 _ _ V)]).
  assert (V1 : W o st1) by (split; [eapply TI_weaken; exact T1 | split; assumption]).
  pose proof (bdetach_lose _ _ _ _ _ V V1 Gl Kl D) as L.
  assert (D1 : DX o (ids lc ++ []) cur0 P st1).
  { split; [exact T1|]. split; [exact S1|]. split; [exact R1|]. split; [rewrite (ls_cur _ _ _ L); exact Cc|].
    intros y [Hy Ny]. apply has_cnt. rewrite (ls_cnt _ _ _ L y Ny). now apply has_cnt. }
  assert (Hc1' : has st1 c1) by (apply D1; split; [exact Hc1 | congruence]).
  assert (NP1' : ispara st1 c1 = false) by (rewrite (ls_para _ _ _ L); [exact NP1 | congruence]).
  apply nf_bind; [auto with fuel|]. intros c1' G1'.
  (* the list *)
  match goal with |- nf (bind ?r _) => assert (SL : nf r /\ safe (DN o (ids lc ++ []) cur0 P) r) end.
  { assert (SB : nf (do a <- add_child o st1 c1 DescriptionList col;
                     do s <- modify_info (snd a) (fst a) (set_start (bi_sl (binf lc)) (bi_sc (binf lc))); Ok (fst a, s))
                 /\ safe (DN o (ids lc ++ []) cur0 P)
                   (do a <- add_child o st1 c1 DescriptionList col;
                    do s <- modify_info (snd a) (fst a) (set_start (bi_sl (binf lc)) (bi_sc (binf lc))); Ok (fst a, s))).
    { split; [apply nf_bind; [now apply nf_add_child_W|]; intros; fgo|].
      pose proof (DX_add_child _ _ _ _ _ c1 DescriptionList col D1 Hc1' NP1' eq_refl eq_refl eq_refl eq_refl) as S.
      apply sbind; [eapply safe_nb; exact S|]. intros [a sa] Ea. destruct (safe_ok _ _ _ S Ea) as [(Da & Ha & Pa) _].
      cbn [fst snd] in *.
      pose proof (DX_set_start _ _ _ _ _ a (bi_sl (binf lc)) (bi_sc (binf lc)) Da Ha) as S2.
      apply sbind; [eapply safe_nb; exact S2|]. intros sb Eb. destruct (safe_ok _ _ _ S2 Eb) as [Db Sm].
      split; [exact Db|]. cbn [fst snd]. split; [apply (same_has _ _ _ Sm); exact Ha | rewrite (sm_para _ _ Sm); exact Pa]. }
    destruct (last_opt (bkids c1')) as [l2|] eqn:L2; [|exact SB].
    destruct (bval l2) eqn:B2; try exact SB.
    apply last_opt_in in L2.
    pose proof (kid_has _ _ _ _ G1' L2) as H2.
    assert (Hs2 : In l2 (bsub (ps_root st1))) by (eapply bsub_kid_of; [eapply get_sub; exact G1' | exact L2]).
    split; [apply nf_bind; [now apply (nf_reopen_W o) | intros; exact I]|].
    pose proof (reopen_spec o (ids lc ++ []) (S (ps_next st1)) st1 (bid l2) T1 S1 R1 H2) as S.
    apply sbind; [eapply safe_nb; exact S|]. intros s2 E2. destruct (safe_ok _ _ _ S E2) as (T2 & S2 & R2 & Sm).
    split; [eapply DX_same; eassumption|]. cbn [fst snd].
    split; [apply (same_has _ _ _ Sm); exact H2|].
    rewrite (sm_para _ _ Sm), (in_bsub_para _ _ _ V1 Hs2). unfold is_paragraph. now rewrite B2. }
  destruct SL as [NL SL].
  apply nf_bind; [exact NL|]. intros [list st2] E2. destruct (safe_ok _ _ _ SL E2) as (D2 & H2 & P2).
  cbn [fst snd] in D2, H2, P2. clear SL NL.
  (* the item *)
  match goal with |- nf (bind (add_child o st2 list ?vv col) _) =>
    pose proof (DX_add_child _ _ _ _ _ list vv col D2 H2 P2 eq_refl eq_refl eq_refl eq_refl) as S3 end.
  apply nf_bind; [apply nf_add_child_W; eapply DX_W; exact D2|]. intros [item st3] E3. destruct (safe_ok _ _ _ S3 E3) as [(D3 & H3 & P3) _].
  cbn [fst snd] in D3, H3, P3. clear S3.
  pose proof (DX_set_start _ _ _ _ _ item (bi_sl (binf lc)) (bi_sc (binf lc)) D3 H3) as S4.
  apply nf_bind; [auto with fuel|]. intros st4 E4. destruct (safe_ok _ _ _ S4 E4) as [D4 Sm4]. clear S4.
  assert (H4 : has st4 item) by (apply (same_has _ _ _ Sm4); exact H3).
  assert (P4 : ispara st4 item = false) by (rewrite (sm_para _ _ Sm4); exact P3).
  pose proof (DX_W _ _ _ _ _ D4) as V4.
  (* the term takes the paragraph back *)
  apply nf_bind; [now apply nf_add_child_gen_W|]. intros [term st5] E5.
  assert (V5 : W o st5).
  { destruct D4 as (T4 & S4 & R4 & _). split; [|split].
    - eapply add_child_gen_TI; [exact E5 | eapply TI_ex_ext; [|exact T4]; intro x; cnt_norm; lia | | reflexivity | |].
      + intros; cbn [new_info bi_val bi_id map]. repeat split; try reflexivity.
        rewrite kshape_plain by reflexivity. cbn [forallb]. rewrite tsig_free by (rewrite Bl; reflexivity). reflexivity.
      + apply forallb_cons. split; [exact Ball | reflexivity].
      + apply forallb_cons. split; [exact Btl | reflexivity].
    - eapply add_child_gen_valid; [exact E5 | exact S4 | intros; reflexivity |].
      apply kids_ok_cons. split; [split; [unfold allowed, bkind; rewrite Bl; reflexivity | exact Tvl] | apply kids_ok_nil].
    - eapply add_child_gen_R0; eassumption. }
  (* the details *)
  apply nf_bind; [now apply nf_add_child_W | intros [details st6] _; exact I].
Qed.

Lemma nf_parse_desc_list_details st c matched : Jx st c -> nf (parse_desc_list_details o st c matched).
Proof.
  intro Jc. pose proof Jc as (V & Hc & Pc & Cc & Kc). unfold parse_desc_list_details.
  apply nf_bind; [auto with fuel|]. intros cn G.
  match goal with |- nf (bind ?r _) =>
    assert (SR : nf r /\ safe (fun x => match x with
                               | None => True
                               | Some (tight, c1, lc) => Jx st c1 /\ ispara st c1 = false /\ exists c1n, get st c1 = Ok c1n /\ In lc (bkids c1n)
                               end) r) end.
  { split; [fgo|]. destruct (last_opt (bkids cn)) as [lc|] eqn:L.
    - apply last_opt_in in L. cbn [safe].
      assert (NP : ispara st c = false).
      { rewrite (ispara_get _ _ _ G). destruct (is_paragraph cn) eqn:Pp; [|reflexivity].
        rewrite (para_leaf _ _ _ _ V G Pp) in L. destruct L. }
      split; [exact Jc|]. split; [exact NP | eauto].
    - destruct (negb (is_paragraph cn)); [exact I|].
      destruct (parent_of c (ps_root st)) as [p|] eqn:Pp; [|exact I].
      destruct (parent_facts _ _ _ _ V Pp) as (Hp & _ & _ & NPp).
      eapply sb_get; [exact Hp|]. intros pn Gp.
      destruct (last_opt (bkids pn)) as [lc|] eqn:L2.
      + apply last_opt_in in L2. cbn [safe]. split; [|split; [exact NPp | eauto]].
        split; [exact V|]. split; [exact Hp|]. split; [rewrite NPp; discriminate|]. split; assumption.
      + exfalso. apply last_opt_none in L2.
        destruct (parent_of_kid _ _ _ Pp) as (pn' & k & A & B & C & _).
        pose proof (get_unique _ _ _ V A) as Gu. rewrite B, Gp in Gu. inversion Gu; subst pn'. rewrite L2 in C. destruct C. }
  destruct SR as [NR SR].
  apply nf_bind; [exact NR|]. intros r Er. pose proof (safe_ok _ _ _ SR Er) as K. clear SR Er NR.
  destruct r as [[[tight c1] lc]|]; [|exact I].
  destruct K as (J1 & NP1 & c1n & G1 & Hl).
  destruct (bval lc) eqn:Bl; try exact I.
  - (* DescriptionItem *)
    destruct (parent_of (bid lc) (ps_root st)) as [parent|]; [|exact I].
    apply nf_bind; [now apply nf_add_child_W|]. intros [item s1] E1.
    apply nf_bind; [apply nf_add_child_W; Wgo V | intros [details s2] _; exact I].
  - (* Paragraph *)
    eapply nf_pdld_paragraph; eassumption.
Qed.

Lemma nf_handle_description_list st c line ind : Jx st c -> nf (handle_description_list o st c line ind).
Proof.
  intro Jc. unfold handle_description_list, rest_at_fns.
  destruct (ind || negb (bo_description_lists o)); [exact I|].
  apply nf_bind; [auto with fuel|]. intros rest _.
  destruct (scan_description_item_start rest) as [matched|]; [|exact I].
  apply nf_bind; [now apply nf_parse_desc_list_details|]. intros [[ok c1] s1] _.
  destruct (negb ok); [exact I|]. fgo.
Qed.
End DescList.
