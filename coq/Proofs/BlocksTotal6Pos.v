(* Proofs/BlocksTotal6Pos.v — totality of the block phase, sixth round, walk 1: the sites excluded by the per-node
   position invariant of Proofs/BlocksPos.v (PIL o L st: the line counter is L and every node of the tree has
   1 <= start line and 1 <= start column).

   al6 = but pos_sites: the walk proves the sites of pos_sites unreachable and allows every other one.  The invariant
   is NOT re-proved here: BlocksPos.v / BlocksPosRun.v prove it along the Ok path of every function
   (`f .. = Ok (.., st') -> PIL o L st -> PIL o L st'`); this walk only redoes the no-panic half and takes PIL of every
   intermediate state from those lemmas (tactic `sat`).

     finalize_borrowed: self.line_number - 1      evaluated only when curline_len <> 0, i.e. inside process_line, where
                                                   the line counter is at least 1 (process_line adds 1 first); in the
                                                   prologue and in finalize_document curline_len = 0 (frame lemmas KC)
     try_inserting_..: start.line + newlines - 1   1 <= start line of the paragraph
     try_opening_header / try_opening_row: start.column + cell.start_offset - 1     1 <= start column of the container
     add_child: assert!(start_column > 0)          every caller passes S _ or 1, or a column computed from the start
                                                   column of a node of the tree (>= 1) and the offsets of a cell
     try_inserting_..: content[..paragraph_offset]; try_opening_header: the three `- header_row.paragraph_offset`
                                                   what `row` answers (Proofs/BlocksTotal6Row.v): paragraph_offset <= |s|,
                                                   paragraph_offset <= start_offset, end_offset of every cell *)
From Coq Require Import List NArith Arith Bool Lia Strings.String.
From V Require Import Base.Bytes Base.Res Gen.Nodes Gen.BlocksConst Gen.FeedConst Model.Ast Model.Strings Model.Entity Model.LinkUrl Model.ListMarker
  Model.Feed Model.FrontMatter Model.RefDef Model.Scan Model.Blocks Spec.EscapeSpec
  Proofs.StrLeafProofs Proofs.StrLeafEntity Proofs.StrLeafParse Proofs.BlocksProofs Proofs.BlocksCursor Proofs.BlocksTotal
  Proofs.BlocksTotal2Safe Proofs.BlocksTotal3Cur Proofs.BlocksTotal4Safe Proofs.BlocksTotal4Frame Proofs.BlocksPos Proofs.BlocksPosRun.
From V Require Proofs.BlocksTotal4Row Proofs.BlocksTotal4Scan Proofs.BlocksTotal4Fuel.
From V Require Import Proofs.BlocksTotal6Row.
Import ListNotations.
Local Open Scope string_scope.
Local Open Scope list_scope.

(* the Panic sites this walk excludes *)
Definition pos_sites : list string :=
  [ "mod.rs:finalize_borrowed:self.line_number - 1";
    "table.rs:try_inserting_table_header_paragraph:start.line + newlines - 1";
    "table.rs:try_opening_header:start.column + cell.start_offset - 1";
    "table.rs:try_opening_row:sourcepos.start.column + cell.start_offset - 1";
    "mod.rs:add_child:assert!(start_column > 0)";
    "table.rs:try_inserting_table_header_paragraph:content[..paragraph_offset]";
    "table.rs:try_opening_header:start.column + cell.start_offset - header_row.paragraph_offset";
    "table.rs:try_opening_header:cell.end_offset - header_row.paragraph_offset";
    "table.rs:try_opening_header:.. + cell.internal_offset - header_row.paragraph_offset" ].

Definition al6 : string -> bool := but pos_sites.
Notation ng6 := (ng al6 true).

Ltac allowed := vm_compute; reflexivity.

Create HintDb ng6.

Ltac ngstep :=
  match goal with
  | |- ng _ _ (bind ?r _) => apply ng_bind; [ try solve [auto with ng6] | intros ]
  | |- ng _ _ (Ok _) => exact I
  | |- ng _ _ OutOfFuel => reflexivity
  | |- ng _ _ (Panic _) => first [assumption | allowed]
  | |- ng _ _ no_node => allowed
  | |- ng _ _ (not_handled _ _) => exact I
  | |- ng _ _ (res_map _ _) => apply ng_res_map
  | |- ng _ _ (if ?b then _ else _) => destruct b
  | |- ng _ _ (match ?x with _ => _ end) => destruct x
  | |- ng _ _ (let (_, _) := ?x in _) => destruct x
  end.
Ltac nggo := repeat ngstep; auto with ng6.

Lemma ng6_idx site l i : al6 site = true -> ng6 (idx site l i).
Proof. intro H. apply ng_idx. now right. Qed.
Lemma ng6_sub site a b : al6 site = true -> ng6 (sub site a b).
Proof. intro H. apply ng_sub. now right. Qed.
Lemma ng6_slice_from site l i : al6 site = true -> ng6 (Blocks.slice_from site l i).
Proof. intro H. apply ng_slice_from. now right. Qed.
Lemma ng6_from_utf8 site b : al6 site = true -> ng6 (from_utf8 site b).
Proof. intro H. apply ng_from_utf8. now right. Qed.
#[export] Hint Extern 1 (ng _ _ (idx _ _ _)) => (apply ng6_idx; first [assumption | allowed]) : ng6.
#[export] Hint Extern 1 (ng _ _ (sub _ _ _)) => (apply ng6_sub; first [assumption | allowed]) : ng6.
#[export] Hint Extern 1 (ng _ _ (Blocks.slice_from _ _ _)) => (apply ng6_slice_from; first [assumption | allowed]) : ng6.
#[export] Hint Extern 1 (ng _ _ (from_utf8 _ _)) => (apply ng6_from_utf8; first [assumption | allowed]) : ng6.
#[export] Hint Extern 2 (ng _ _ (sub _ _ _)) => (apply ng_sub; left; cbn; lia) : ng6.

(* ---- leaf functions: total for all arguments *)
Lemma ng6_trim s : ng6 (Strings.trim s). Proof. rewrite trim_ok. exact I. Qed.
Lemma ng6_rtrim s : ng6 (Strings.rtrim s). Proof. rewrite rtrim_ok. exact I. Qed.
Lemma ng6_unescape s : ng6 (Strings.unescape s). Proof. rewrite unescape_is_spec. exact I. Qed.
Lemma ng6_unescape_html s : ng6 (unescape_html s). Proof. apply ng_ex. apply unescape_html_total. Qed.
Lemma ng6_manual_scan_link_url s : ng6 (manual_scan_link_url s).
Proof. apply ng_ex. destruct (manual_scan_link_url_total s) as [r [E _]]. exists r. exact E. Qed.
Lemma ng6_row s sp : ng6 (row s sp). Proof. apply ng_ex. apply BlocksTotal4Row.row_total. Qed.
Lemma ng6_table_matches s sp : ng6 (table_matches s sp). Proof. apply ng_ex. apply BlocksTotal4Row.table_matches_total. Qed.
#[export] Hint Resolve ng6_trim ng6_rtrim ng6_unescape ng6_unescape_html ng6_manual_scan_link_url ng6_row ng6_table_matches : ng6.

(* ---- leaf functions with sites of their own *)
Lemma ng6_remove_trailing_blank_lines s : ng6 (remove_trailing_blank_lines s).
Proof. unfold remove_trailing_blank_lines. nggo. Qed.
Lemma ng6_chop_trailing_hashtags s : ng6 (chop_trailing_hashtags s).
Proof. unfold chop_trailing_hashtags. nggo. Qed.
Lemma ng6_clean_url s : ng6 (clean_url s). Proof. unfold clean_url. nggo. Qed.
(* clean_title panics on a title of length 1 only (Props/StrLeaf.v); its one caller hands it a scan_link_title match *)
Lemma ng6_clean_title s : List.length s <> 1 -> ng6 (clean_title s).
Proof. intro H. apply ng_ex. now apply clean_title_total. Qed.
#[export] Hint Resolve ng6_remove_trailing_blank_lines ng6_chop_trailing_hashtags ng6_clean_url : ng6.
Lemma scan_link_title_ge s m : scan_link_title s = Some m -> 2 <= m.
Proof. BlocksTotal4Scan.scan_ge. Qed.
Lemma scan_link_title_le s m : scan_link_title s = Some m -> m <= List.length s.
Proof. intro H. eapply as_opt_usize_cursor_le; [|exact H]. vm_compute. reflexivity. Qed.
(* line_at: bytes[end..] is inside the string as long as the start is; split_off_front_matter starts at 0 and goes on
   from the `next` of the line before *)
Lemma sg6_fm_line_at s k : k <= List.length s -> sg al6 true (fun r => snd r <= List.length s) (fm_line_at s k).
Proof.
  intro H. unfold fm_line_at. pose proof (BlocksTotal4Fuel.scan_line_end_bounds (skipn k s) k) as B. rewrite skipn_length in B.
  set (e := scan_line_end (skipn k s) k) in *. unfold byte_slice_from.
  destruct (Nat.leb e (List.length s)) eqn:L; [|apply Nat.leb_gt in L; lia]. apply Nat.leb_le in L. cbn [bind].
  unfold fm_slice. destruct (_ && _ && _); [cbn [bind sg snd] | allowed].
  destruct (starts_with (skipn e s) fm_crlf) eqn:Sw.
  - apply starts_with_app in Sw. destruct Sw as [r Er]. apply (f_equal (@List.length byte)) in Er.
    rewrite skipn_length, app_length in Er. change (List.length fm_crlf) with 2 in Er. lia.
  - destruct (Nat.ltb e (List.length s)) eqn:Lt; [apply Nat.ltb_lt in Lt; lia | lia].
Qed.
Lemma sg6_find_closing_line : forall fuel s d e, e <= List.length s ->
  sg al6 true (fun c => match c with Some e' => e' <= List.length s | None => True end) (find_closing_line fuel s d e).
Proof.
  induction fuel as [|f IH]; intros s d e H; cbn [find_closing_line]; [reflexivity|].
  destruct (Nat.eqb e (List.length s)); [exact I|].
  eapply sg_bind; [now apply sg6_fm_line_at|]. intros ln _ Hn.
  destruct (bytes_eqb (fst ln) d); [exact Hn | now apply IH].
Qed.
Lemma ng6_split_off_front_matter s d : ng6 (split_off_front_matter s d).
Proof.
  unfold split_off_front_matter, slice_to, FrontMatter.slice_from.
  eapply sg_bind; [apply sg6_fm_line_at; lia|]. intros l0 _ H0.
  destruct (_ || _); [exact I|].
  eapply sg_bind; [now apply sg6_find_closing_line|]. intros [e|] _ He; [|exact I].
  eapply sg_bind; [now apply sg6_fm_line_at|]. intros l1 _ _. cbv zeta. match goal with |- sg ?a ?f _ ?r => change (ng a f r) end. nggo.
Qed.
#[export] Hint Resolve ng6_split_off_front_matter : ng6.
Lemma ng6_peek s p : ng6 (peek s p). Proof. unfold peek. nggo. Qed.
#[export] Hint Resolve ng6_peek : ng6.
Lemma ng6_skip_spaces : forall s, ng6 (skip_spaces s).
Proof. induction s as [|c r IH]; cbn [skip_spaces]; nggo. Qed.
#[export] Hint Resolve ng6_skip_spaces : ng6.
Lemma ng6_skip_line_end s p : ng6 (skip_line_end s p). Proof. unfold skip_line_end. nggo. Qed.
#[export] Hint Resolve ng6_skip_line_end : ng6.
Lemma ng6_spnl s p : ng6 (spnl s p). Proof. unfold spnl. nggo. Qed.
#[export] Hint Resolve ng6_spnl : ng6.
Lemma ng6_label_loop : forall fuel s pos len c, ng6 (label_loop fuel s pos len c).
Proof. induction fuel as [|f IH]; intros s pos len c; cbn [label_loop]; nggo. Qed.
#[export] Hint Resolve ng6_label_loop : ng6.
Lemma ng6_link_label s : ng6 (link_label s). Proof. unfold link_label. nggo. Qed.
#[export] Hint Resolve ng6_link_label : ng6.
Lemma ng6_parse_reference_inline fold m s : ng6 (parse_reference_inline fold m s).
Proof.
  unfold parse_reference_inline.
  apply ng_bind; [auto with ng6|]. intros [[lab pos]|] _; [|exact I]. destruct lab as [|l0 lab]; [exact I|].
  apply ng_bind; [auto with ng6|]. intros [c|] _; [|exact I]. destruct (negb (beqb c x3a)); [exact I|]. cbv zeta.
  apply ng_bind; [auto with ng6|]. intros pos1 _.
  apply ng_bind; [auto with ng6|]. intros [[url matchlen]|] _; [|exact I].
  apply ng_bind; [auto with ng6|]. intros pos2 _.
  match goal with |- ng _ _ (let '(title, pos) := ?tp in _) =>
    assert (HT : List.length (fst tp) <> 1); [|destruct tp as [title pos3]; cbn [fst] in HT] end.
  { destruct (Nat.eqb pos2 (pos1 + matchlen)); [cbn; lia|].
    destruct (scan_link_title (skipn pos2 s)) as [ml|] eqn:Sc; [|cbn; lia].
    pose proof (scan_link_title_ge _ _ Sc). pose proof (scan_link_title_le _ _ Sc). cbn [fst]. rewrite firstn_length. lia. }
  apply ng_bind; [auto with ng6|]. intros n _.
  apply ng_bind; [auto with ng6|]. intros [p1 ok] _.
  eapply sg_bind with (P := fun fin : option (nat * bytes) => match fin with Some (_, t) => List.length t <> 1 | None => True end).
  { destruct ok; [exact HT|]. destruct title; [exact I|].
    apply sgb; [auto with ng6|]. intros n2 _. apply sgb; [auto with ng6|]. intros [p2 ok2] _.
    destruct ok2; cbn [sg List.length]; [lia | exact I]. }
  intros [[posf t]|] _ Hf; [|exact I].
  destruct (normalize_label fold (l0 :: lab) true); [exact I|].
  apply ng_bind; [auto with ng6|]. intros cu _.
  apply ng_bind; [now apply ng6_clean_title|]. intros ct _. nggo.
Qed.
#[export] Hint Resolve ng6_parse_reference_inline : ng6.
Lemma ng6_resolve_loop fold : forall fuel m seek seeked, ng6 (resolve_loop fuel fold m seek seeked).
Proof. induction fuel as [|f IH]; intros m seek seeked; cbn [resolve_loop]; nggo. Qed.
#[export] Hint Resolve ng6_resolve_loop : ng6.
Lemma ng6_resolve_refdefs fold m c : ng6 (resolve_refdefs fold m c).
Proof. unfold resolve_refdefs. nggo. Qed.
#[export] Hint Resolve ng6_resolve_refdefs : ng6.
Lemma ng6_copy_line_offsets : forall n lo k, ng6 (copy_line_offsets n lo k).
Proof. induction n as [|m IH]; intros lo k; cbn [copy_line_offsets]; nggo. Qed.
Lemma ng6_header_cells : forall cells id ln sl sc po, 1 <= sc -> Forall (cell_ok po) cells -> ng6 (header_cells cells id ln sl sc po).
Proof.
  induction cells as [|c r IH]; intros id ln sl sc po H F; cbn [header_cells]; [exact I|].
  inversion F as [|? ? [C1 C2] Fr]; subst.
  eapply sg_bind; [apply sg_sub; left; lia|]. intros col _ [-> _].
  destruct (Nat.eqb _ 0) eqn:E; [apply Nat.eqb_eq in E; lia|].
  eapply sg_bind; [apply sg_sub; left; lia|]. intros e _ _.
  eapply sg_bind; [apply sg_sub; left; lia|]. intros l0 _ [-> _].
  eapply sg_bind; [apply sg_sub; left; lia|]. intros l1 _ _.
  cbv zeta. eapply sg_bind; [now apply IH|]. intros; exact I.
Qed.
Lemma sg6_row_cells : forall n cells id ln sc lc, 1 <= sc -> 1 <= lc ->
  sg al6 true (fun r => 1 <= snd r) (row_cells n cells id ln sc lc).
Proof.
  induction n as [|m IH]; intros cells id ln sc lc H Hl; destruct cells as [|c r]; cbn [row_cells]; try exact Hl.
  cbv zeta. destruct (Nat.eqb _ 0) eqn:E; [apply Nat.eqb_eq in E; lia|].
  eapply sg_bind; [apply sg_sub; left; lia|]. intros l0 _ _.
  eapply sg_bind; [apply IH; [exact H | lia]|]. intros rest _ Hr. exact Hr.
Qed.
#[export] Hint Resolve ng6_copy_line_offsets : ng6.
#[export] Hint Extern 1 (1 <= _) => lia : ng6.
Lemma ng6_parse_html_block_prefix st t : ng6 (parse_html_block_prefix st t).
Proof. unfold parse_html_block_prefix. nggo. Qed.
#[export] Hint Resolve ng6_parse_html_block_prefix : ng6.
Lemma ng6_after_spaces : forall s, ng6 (after_spaces s).
Proof. induction s as [|b r IH]; cbn [after_spaces]; nggo. Qed.
Lemma ng6_digits_loop : forall left s start digits, ng6 (digits_loop left s start digits).
Proof.
  induction left as [|l IH]; intros s start digits; destruct s as [|d r]; cbn [digits_loop]; try allowed.
  - destruct (N.ltb _ _); [allowed | exact I].
  - destruct (N.ltb _ _); [allowed|]. destruct l; [exact I|]. destruct r as [|e r']; [allowed|].
    destruct (StrLeafGen.sl_isdigit e); [apply IH | exact I].
Qed.
#[export] Hint Resolve ng6_after_spaces ng6_digits_loop : ng6.
Lemma ng6_parse_list_marker line pos ip : ng6 (parse_list_marker line pos ip).
Proof. unfold parse_list_marker. nggo. Qed.
#[export] Hint Resolve ng6_parse_list_marker : ng6.
Lemma ng6_alert_title_loop line : forall fuel pos fl, ng6 (alert_title_loop fuel line pos fl).
Proof. induction fuel as [|f IH]; intros pos fl; cbn [alert_title_loop]; nggo. Qed.
Lemma ng6_count_hashes : forall s, ng6 (count_hashes s).
Proof. induction s as [|b r IH]; cbn [count_hashes]; nggo. Qed.
#[export] Hint Resolve ng6_alert_title_loop ng6_count_hashes : ng6.

(* ---- the cursor *)
Lemma ng6_find_first_nonspace c line : ng6 (find_first_nonspace c line).
Proof. unfold find_first_nonspace. destruct (if Nat.leb _ _ then _ else _) as [f fc]. nggo. Qed.
Lemma ng6_advance_loop line columns : forall fuel off col pct count, ng6 (advance_loop fuel line off col pct count columns).
Proof. induction fuel as [|f IH]; intros off col pct count; destruct count; cbn [advance_loop]; nggo. Qed.
#[export] Hint Resolve ng6_find_first_nonspace ng6_advance_loop : ng6.
Lemma ng6_advance_offset c line count columns : ng6 (advance_offset c line count columns).
Proof. unfold advance_offset. nggo. Qed.
#[export] Hint Resolve ng6_advance_offset : ng6.
Lemma ng6_adv st line n b : ng6 (adv st line n b). Proof. unfold adv. nggo. Qed.
Lemma ng6_ffn st line : ng6 (ffn st line). Proof. unfold ffn. nggo. Qed.
#[export] Hint Resolve ng6_adv ng6_ffn : ng6.
Lemma ng6_skip_one_space st line site : al6 site = true -> ng6 (skip_one_space st line site).
Proof. intro H. unfold skip_one_space. nggo. Qed.
Lemma ng6_skip_fence_offset line site : al6 site = true -> forall i st, ng6 (skip_fence_offset i st line site).
Proof. intro H. induction i as [|j IH]; intro st; cbn [skip_fence_offset]; nggo. Qed.
Lemma ng6_list_spaces_loop line sc : forall fuel st, ng6 (list_spaces_loop fuel st line sc).
Proof. induction fuel as [|f IH]; intro st; cbn [list_spaces_loop]; nggo. Qed.
#[export] Hint Resolve ng6_list_spaces_loop : ng6.
#[export] Hint Extern 1 (ng _ _ (skip_one_space _ _ _)) => (apply ng6_skip_one_space; first [assumption | allowed]) : ng6.
#[export] Hint Extern 1 (ng _ _ (skip_fence_offset _ _ _ _)) => (apply ng6_skip_fence_offset; first [assumption | allowed]) : ng6.

(* ---- tree primitives *)
Lemma ng6_get st x : ng6 (get st x).
Proof. unfold get. destruct (find_node x (ps_root st)); [exact I | allowed]. Qed.
Lemma ng6_modify st x f : ng6 (modify st x f).
Proof. unfold modify. destruct (upd x f (ps_root st)); [exact I | allowed]. Qed.
Lemma ng6_modify_info st x f : ng6 (modify_info st x f).
Proof. apply ng6_modify. Qed.
Lemma ng6_bdetach st x : ng6 (bdetach st x).
Proof. unfold bdetach. destruct (edit_kids _ _ _); exact I. Qed.
Lemma ng6_retighten st p : ng6 (retighten st p).
Proof. apply ng_ex. apply retighten_total. Qed.
#[export] Hint Resolve ng6_get ng6_modify ng6_modify_info ng6_bdetach ng6_retighten : ng6.
Lemma ng6_append_child st p c : ng6 (append_child st p c).
Proof. apply ng6_modify. Qed.
Lemma ng6_last_child st x : ng6 (last_child st x). Proof. unfold last_child. nggo. Qed.
#[export] Hint Resolve ng6_append_child ng6_last_child : ng6.
Lemma ng6_last_child_is_open st x : ng6 (last_child_is_open st x).
Proof. unfold last_child_is_open. nggo. Qed.
#[export] Hint Resolve ng6_last_child_is_open : ng6.

(* ---- finalize: the subtraction needs 1 <= line_number or curline_len = 0 *)
Lemma ng6_finalize_gen o st id : 1 <= ps_line_number st \/ ps_curline_len st = 0 -> ng6 (finalize o st id).
Proof.
  intro H. unfold finalize.
  apply ng_bind; [auto with ng6|]. intros n _. destruct (negb _); [allowed|].
  apply ng_bind.
  { destruct (Nat.eqb (ps_curline_len st) 0) eqn:E; [exact I|]. apply Nat.eqb_neq in E.
    destruct (ends_fenced_like _); [exact I|]. destruct (bi_val (binf n)); try exact I; nggo. }
  intros ends _. nggo.
Qed.

Lemma ng6_clear_llb_up : forall fuel st id, ng6 (clear_llb_up fuel st id).
Proof. induction fuel as [|f IH]; intros st id; cbn [clear_llb_up]; nggo. Qed.
Lemma ng6_reopen : forall fuel st id, ng6 (reopen_ast_nodes fuel st id).
Proof. induction fuel as [|f IH]; intros st id; cbn [reopen_ast_nodes]; nggo. Qed.
#[export] Hint Resolve ng6_clear_llb_up ng6_reopen : ng6.
Lemma ng6_add_line st id line : ng6 (add_line st id line).
Proof. unfold add_line. nggo. Qed.
#[export] Hint Resolve ng6_add_line : ng6.
Lemma ng6_is_not_greentext o st line : ng6 (is_not_greentext o st line).
Proof. unfold is_not_greentext. nggo. Qed.
#[export] Hint Resolve ng6_is_not_greentext : ng6.
Lemma ng6_pbq o st line : ng6 (parse_block_quote_prefix o st line).
Proof. unfold parse_block_quote_prefix. nggo. Qed.
Lemma ng6_pfn st line : ng6 (parse_footnote_definition_block_prefix st line).
Proof. unfold parse_footnote_definition_block_prefix. nggo. Qed.
Lemma ng6_pip st line c mo pad : ng6 (parse_item_prefix st line c mo pad).
Proof. unfold parse_item_prefix. nggo. Qed.
#[export] Hint Resolve ng6_pbq ng6_pfn ng6_pip : ng6.

(* with curline_len = 0 (prologue, finalize_document) *)
Lemma ng6_finalize_up_to0 o target site : al6 site = true -> forall fuel st, ps_curline_len st = 0 -> ng6 (finalize_up_to fuel o st target site).
Proof.
  intro H. induction fuel as [|f IH]; intros st Z; cbn [finalize_up_to]; [reflexivity|].
  destruct (Nat.eqb _ _); [exact I|].
  apply ng_bind.
  { unfold unwrap_parent. apply ng_bind; [apply ng6_finalize_gen; now right|]. intros x _. destruct (fst x); [exact I | exact H]. }
  intros [p s1] E. cbn [fst snd]. apply IH.
  destruct (unwrap_parent_KC (ps_cur st) 0 _ _ _ _ _ _ E (conj eq_refl Z)) as [_ K]. exact K.
Qed.

Lemma ng6_finalize_document0 o st : ps_curline_len st = 0 -> ng6 (finalize_document o st).
Proof.
  intro Z. unfold finalize_document. apply ng_bind; [apply ng6_finalize_up_to0; [allowed | exact Z]|]. intros s1 E.
  apply ng_bind; [|intros; exact I]. apply ng6_finalize_gen. right.
  destruct (finalize_up_to_KC (ps_cur st) 0 _ _ _ _ _ _ E (conj eq_refl Z)) as [_ K]. exact K.
Qed.

(* ================================================================== inside process_line: 1 <= L *)
Section Line.
Variables (o : bopts) (L : nat).
Hypothesis HL : 1 <= L.

(* PIL of every state in the context that does not have it yet, from the Ok-path lemmas of BlocksPos.v *)
Ltac sat :=
  monall; repeat match goal with p : (_ * _)%type |- _ => destruct p end; cbn [fst snd] in *;
  repeat match goal with
         | A : add_child_gen _ ?s _ _ _ (fun i => i) [?k] = Ok (_, ?s'), Alc : all_info _ ?k, Ps : PIL _ _ ?s |- _ =>
           lazymatch goal with
           | H : PIL _ _ s' |- _ => fail
           | _ => assert (PIL o L s') by (eapply add_child_gen_pil; [exact A | exact HL | auto | constructor; [exact Alc | constructor] | exact Ps])
           end
         | s : pstate |- _ =>
           lazymatch goal with
           | H : PIL _ _ s |- _ => fail
           | _ => assert (PIL o L s) by (eauto 8 with pil)
           end
         end.

Ltac pstep :=
  match goal with
  | |- ng _ _ (bind ?r _) => apply ng_bind; [ try solve [auto with ng6] | intros; sat ]
  | |- ng _ _ (Ok _) => exact I
  | |- ng _ _ OutOfFuel => reflexivity
  | |- ng _ _ (Panic _) => first [assumption | allowed]
  | |- ng _ _ no_node => allowed
  | |- ng _ _ (not_handled _ _) => exact I
  | |- ng _ _ (res_map _ _) => apply ng_res_map
  | |- ng _ _ (if ?b then _ else _) => destruct b
  | |- ng _ _ (match ?x with _ => _ end) => destruct x
  | |- ng _ _ (let (_, _) := ?x in _) => destruct x
  end.
Ltac pgo := repeat pstep; auto with ng6.

Hint Resolve clear_llb_up_pil add_line_pil add_child_loop_pil list_spaces_loop_pil : pil.

Lemma ng6_finalize st id : PIL o L st -> ng6 (finalize o st id).
Proof. intros [E _]. apply ng6_finalize_gen. left. lia. Qed.
Hint Resolve ng6_finalize : ng6.
Lemma ng6_unwrap_parent site st id : al6 site = true -> PIL o L st -> ng6 (unwrap_parent site (finalize o st id)).
Proof. intros H P. unfold unwrap_parent. pgo. Qed.
Hint Extern 1 (ng _ _ (unwrap_parent _ _)) => (apply ng6_unwrap_parent; [first [assumption | allowed] | assumption]) : ng6.
Lemma ng6_add_child_loop k : forall fuel st parent, PIL o L st -> ng6 (add_child_loop fuel o st parent k).
Proof. induction fuel as [|f IH]; intros st parent P; cbn [add_child_loop]; pgo. Qed.
Hint Resolve ng6_add_child_loop : ng6.
Lemma ng6_add_child_gen st parent v col post kids : 1 <= col -> PIL o L st -> ng6 (add_child_gen o st parent v col post kids).
Proof.
  intros Hc P. unfold add_child_gen. apply ng_bind; [auto with ng6|]. intros [p1 s1] _.
  destruct (Nat.eqb col 0) eqn:E; [apply Nat.eqb_eq in E; lia|]. nggo.
Qed.
Lemma ng6_add_child st parent v col : 1 <= col -> PIL o L st -> ng6 (add_child o st parent v col).
Proof. apply ng6_add_child_gen. Qed.
Hint Resolve ng6_add_child_gen ng6_add_child : ng6.
Lemma finalize_up_to_pil6 target site : forall fuel st st', finalize_up_to fuel o st target site = Ok st' -> PIL o L st -> PIL o L st'.
Proof. exact (finalize_up_to_pil0 o L target site). Qed.
Hint Resolve finalize_up_to_pil6 : pil.
Lemma ng6_finalize_up_to target site : al6 site = true -> forall fuel st, PIL o L st -> ng6 (finalize_up_to fuel o st target site).
Proof. intro H. induction fuel as [|f IH]; intros st P; cbn [finalize_up_to]; pgo. Qed.
Hint Extern 1 (ng _ _ (finalize_up_to _ _ _ _ _)) => (apply ng6_finalize_up_to; [first [assumption | allowed] | assumption]) : ng6.


Lemma ng6_parse_desc_list_details st c m : bo_description_lists o = true -> PIL o L st -> ng6 (parse_desc_list_details o st c m).
Proof.
  intros D P. unfold parse_desc_list_details. cbv zeta.
  apply ng_bind; [auto with ng6|]. intros cn G.
  apply ng_bind; [nggo|]. intros r R. destruct r as [[[tight c1] lc]|]; [|exact I].
  assert (Alc : all_info (Pn o L) lc).
  { monall;
    match goal with Hl : last_opt (bkids ?n) = Some lc, Hg : get st _ = Ok ?n |- _ =>
      exact (last_kid_all _ _ _ (get_all _ _ _ _ _ P Hg) Hl) end. }
  clear R. pose proof (all_info_binf _ _ Alc) as Plc. unfold Pn in Plc.
  destruct (bval lc) eqn:Bl; try exact I.
  - (* DescriptionItem *) pgo.
  - (* Paragraph *)
    unfold bval in Bl. rewrite Bl in Plc. pose proof (set_start_dl o L _ _ _ D Plc) as SS.
    pgo.
Qed.
Hint Resolve ng6_parse_desc_list_details : ng6.

Lemma ng6_pcbp st line cid cb : PIL o L st -> ng6 (parse_code_block_prefix o st line cid cb).
Proof. intro P. unfold parse_code_block_prefix. pgo. Qed.
Lemma ng6_pmbq st line cid fl fo : PIL o L st -> ng6 (parse_multiline_block_quote_prefix o st line cid fl fo).
Proof. intro P. unfold parse_multiline_block_quote_prefix. pgo. Qed.
Hint Resolve ng6_pcbp ng6_pmbq : ng6.
Lemma ng6_check_container st line c : PIL o L st -> ng6 (check_container o st line c).
Proof. intro P. unfold check_container. destruct (bval c); pgo. Qed.
Hint Resolve ng6_check_container : ng6.
Lemma ng6_cobi line : forall fuel st c, PIL o L st -> ng6 (check_open_blocks_inner fuel o st line c).
Proof. induction fuel as [|f IH]; intros st c P; cbn [check_open_blocks_inner]; pgo. Qed.
Hint Resolve ng6_cobi : ng6.
Lemma ng6_check_open_blocks st line : PIL o L st -> ng6 (check_open_blocks o st line).
Proof. intro P. unfold check_open_blocks. pgo. Qed.

(* ---- tables *)
Lemma ng6_try_inserting st c po : PIL o L st ->
  (forall cn, get st c = Ok cn -> po <= List.length (bi_content (binf cn))) ->
  ng6 (try_inserting_table_header_paragraph st c po).
Proof.
  intros P Hpo. unfold try_inserting_table_header_paragraph.
  apply ng_bind; [auto with ng6|]. intros cn G. pose proof (get_pn _ _ _ _ _ P G) as (A & B & _ & _).
  specialize (Hpo cn G).
  destruct (Nat.ltb _ _) eqn:Lp; [apply Nat.ltb_lt in Lp; lia|]. cbv zeta.
  apply ng_bind; [auto with ng6|]. intros pc _.
  destruct (parent_of c (ps_root st)); [|exact I].
  apply ng_bind; [auto with ng6|]. intros pn _. destruct (negb _); [exact I|].
  apply ng_bind; [apply ng_sub; left; lia|]. intros el _. nggo.
Qed.

Lemma ng6_try_opening_header st c line : bo_table o = true -> PIL o L st ->
  (forall cn, get st c = Ok cn -> is_paragraph cn = true) -> ng6 (try_opening_header o st c line).
Proof.
  intros T P Hc. unfold try_opening_header.
  apply ng_bind; [auto with ng6|]. intros cn G. destruct (bi_tv (binf cn)); [exact I|].
  apply ng_bind; [auto with ng6|]. intros rest _. destruct (scan_table_start rest); [|exact I].
  apply ng_bind; [auto with ng6|]. intros [[dpo dcells]|] _; [|exact I].
  apply ng_bind; [auto with ng6|]. intros [[po hcells]|] Rh; [|exact I].
  destruct (row_facts _ _ _ _ Rh) as [Hpo Fh].
  destruct (negb _); [exact I|].
  apply ng_bind.
  { destruct (Nat.ltb 0 po); [|exact I]. apply ng6_try_inserting; [exact P|].
    intros cn' G'. rewrite G in G'. inversion G'; subst. exact Hpo. }
  intros st1 E1.
  assert (P1 : PIL o L st1).
  { destruct (Nat.ltb 0 po); [|inversion E1; subst; exact P].
    eapply try_inserting_pil; [exact E1 | exact T | exact Hc | exact P]. }
  apply ng_bind; [auto with ng6|]. intros c1 G1. pose proof (get_pn _ _ _ _ _ P1 G1) as (A & B & _ & _).
  cbv zeta. destruct (Nat.eqb _ 0) eqn:Ez; [apply Nat.eqb_eq in Ez; lia|].
  apply ng_bind; [auto with ng6|]. intros k0 _.
  apply ng_bind; [auto with ng6|]. intros k _.
  apply ng_bind; [apply ng6_header_cells; [exact B | exact Fh]|]. intros cells _.
  nggo.
Qed.

Lemma ng6_try_opening_row st c t line : PIL o L st -> ng6 (try_opening_row o st c t line).
Proof.
  intro P. unfold try_opening_row. destruct (blank st); [exact I|]. destruct (N.ltb _ _); [exact I|].
  apply ng_bind; [auto with ng6|]. intros cn G. pose proof (get_pn _ _ _ _ _ P G) as (A & B & _ & _).
  cbv zeta.
  apply ng_bind; [auto with ng6|]. intros rest _.
  apply ng_bind; [auto with ng6|]. intros [[po cells]|] _; [|exact I].
  destruct (Nat.eqb _ 0) eqn:Ez; [apply Nat.eqb_eq in Ez; lia|].
  eapply sg_bind; [apply sg6_row_cells; [exact B | exact B]|]. intros [parsed lc] _ Hl. cbn [snd] in Hl.
  match goal with |- sg ?a ?f _ ?r => change (ng a f r) end.
  destruct (_ && Nat.eqb lc 0) eqn:Ea; [apply andb_true_iff in Ea; destruct Ea as [_ Ea]; apply Nat.eqb_eq in Ea; lia|].
  nggo.
Qed.

Lemma ng6_try_opening_block st c line : bo_table o = true -> PIL o L st -> ng6 (try_opening_block o st c line).
Proof.
  intros T P. unfold try_opening_block. apply ng_bind; [auto with ng6|]. intros cn G.
  destruct (bval cn) eqn:Bv; try exact I.
  - apply ng6_try_opening_header; [exact T | exact P |].
    intros cn' G'. rewrite G in G'. inversion G'; subst. unfold is_paragraph. now rewrite Bv.
  - apply ng6_try_opening_row. exact P.
Qed.

(* ---- the handlers *)
Variable line : bytes.
Lemma ng6_handle_alert st c ind : PIL o L st -> ng6 (handle_alert o st c line ind).
Proof. intro P. unfold handle_alert. pgo. Qed.
Lemma ng6_handle_mbq st c ind : PIL o L st -> ng6 (handle_multiline_blockquote o st c line ind).
Proof. intro P. unfold handle_multiline_blockquote, rest_at_fns. pgo. Qed.
Lemma ng6_handle_blockquote st c ind : PIL o L st -> ng6 (handle_blockquote o st c line ind).
Proof. intro P. unfold handle_blockquote. pgo. Qed.
Lemma ng6_handle_atx st c ind : PIL o L st -> ng6 (handle_atx_heading o st c line ind).
Proof. intro P. unfold handle_atx_heading, rest_at_fns. pgo. Qed.
Lemma ng6_handle_code_fence st c ind : PIL o L st -> ng6 (handle_code_fence o st c line ind).
Proof. intro P. unfold handle_code_fence, rest_at_fns. pgo. Qed.
Lemma ng6_handle_html_block st c ind : PIL o L st -> ng6 (handle_html_block o st c line ind).
Proof. intro P. unfold handle_html_block, rest_at_fns. pgo. Qed.
Lemma ng6_handle_setext st c ind : PIL o L st -> ng6 (handle_setext_heading o st c line ind).
Proof. intro P. unfold handle_setext_heading, rest_at_fns. nggo. Qed.
Lemma ng6_handle_thematic_break st c ind am : PIL o L st -> ng6 (handle_thematic_break o st c line ind am).
Proof. intro P. unfold handle_thematic_break. pgo. Qed.
Lemma ng6_handle_footnote st c ind d : PIL o L st -> ng6 (handle_footnote o st c line ind d).
Proof. intro P. unfold handle_footnote, rest_at_fns. pgo. Qed.
Lemma ng6_handle_description_list st c ind : PIL o L st -> ng6 (handle_description_list o st c line ind).
Proof.
  intro P. unfold handle_description_list, rest_at_fns.
  destruct (ind || negb (bo_description_lists o)) eqn:E; [exact I|].
  apply orb_false_iff in E. destruct E as [_ E]. apply negb_false_iff in E.
  apply ng_bind; [auto with ng6|]. intros rest _. destruct (scan_description_item_start rest); [|exact I].
  apply ng_bind; [now apply ng6_parse_desc_list_details|]. intros [[ok c1] s1] _. nggo.
Qed.
Lemma ng6_handle_list st c ind d : PIL o L st -> ng6 (handle_list o st c line ind d).
Proof. intro P. unfold handle_list. pgo. Qed.
Lemma ng6_handle_code_block st c ind ml : PIL o L st -> ng6 (handle_code_block o st c line ind ml).
Proof. intro P. unfold handle_code_block. pgo. Qed.


Definition HP (x : bool * nat * pstate) : Prop := PIL o L (snd x).
Lemma sg6_h st (r : hres) : PIL o L st -> (PIL o L st -> ng6 r) ->
  (forall b c s, r = Ok (b, c, s) -> PIL o L st -> PIL o L s) -> sg al6 true HP r.
Proof. intros P H Hp. eapply ng_sg; [now apply H|]. intros [[b c] s] E. unfold HP. cbn [snd]. eapply Hp; eassumption. Qed.
Lemma sg6_or_else (r : hres) k : sg al6 true HP r -> (forall c s, PIL o L s -> sg al6 true HP (k c s)) -> sg al6 true HP (or_else_h r k).
Proof. intros H K. unfold or_else_h. eapply sg_bind; [exact H|]. intros [[h c] s] E Hx. destruct h; [exact Hx|]. apply K. exact Hx. Qed.

Ltac hp X := intros ? ? ?; first [apply (X o L HL) | apply (X o L)].

Lemma ng6_step st c am ml d : PIL o L st -> ng6 (open_new_blocks_step o st c line am ml d).
Proof.
  intro P. unfold open_new_blocks_step. apply ng_bind; [auto with ng6|]. intros s0 F0.
  assert (P0 : PIL o L s0) by eauto with pil.
  eapply sg_bind with (P := HP).
  { apply sg6_or_else; [eapply sg6_h; [exact P0 | apply ng6_handle_alert | hp handle_alert_pil]|]. intros c1 s1 P1.
    apply sg6_or_else; [eapply sg6_h; [exact P1 | apply ng6_handle_mbq | hp handle_mbq_pil]|]. clear c1 s1 P1. intros c1 s1 P1.
    apply sg6_or_else; [eapply sg6_h; [exact P1 | apply ng6_handle_blockquote | hp handle_blockquote_pil]|]. clear c1 s1 P1. intros c1 s1 P1.
    apply sg6_or_else; [eapply sg6_h; [exact P1 | apply ng6_handle_atx | hp handle_atx_pil]|]. clear c1 s1 P1. intros c1 s1 P1.
    apply sg6_or_else; [eapply sg6_h; [exact P1 | apply ng6_handle_code_fence | hp handle_code_fence_pil]|]. clear c1 s1 P1. intros c1 s1 P1.
    apply sg6_or_else; [eapply sg6_h; [exact P1 | apply ng6_handle_html_block | hp handle_html_block_pil]|]. clear c1 s1 P1. intros c1 s1 P1.
    apply sg6_or_else; [eapply sg6_h; [exact P1 | apply ng6_handle_setext | hp handle_setext_pil]|]. clear c1 s1 P1. intros c1 s1 P1.
    apply sg6_or_else; [eapply sg6_h; [exact P1 | apply ng6_handle_thematic_break | hp handle_thematic_break_pil]|]. clear c1 s1 P1. intros c1 s1 P1.
    apply sg6_or_else; [eapply sg6_h; [exact P1 | apply ng6_handle_footnote | hp handle_footnote_pil]|]. clear c1 s1 P1. intros c1 s1 P1.
    apply sg6_or_else; [eapply sg6_h; [exact P1 | apply ng6_handle_description_list | hp handle_description_list_pil]|]. clear c1 s1 P1. intros c1 s1 P1.
    apply sg6_or_else; [eapply sg6_h; [exact P1 | apply ng6_handle_list | hp handle_list_pil]|]. clear c1 s1 P1. intros c1 s1 P1.
    eapply sg6_h; [exact P1 | apply ng6_handle_code_block | hp handle_code_block_pil]. }
  intros [[handled c1] s1] _ P1. unfold HP in P1. cbn [snd] in P1.
  match goal with |- sg ?a ?f _ ?r => change (ng a f r) end.
  apply ng_bind; [|intros [[go c2] s2] _; nggo].
  destruct handled; [exact I|].
  apply ng_bind; [|intros [[|mark|id] s2] _; nggo].
  destruct (negb _ && bo_table o) eqn:Tb; [|exact I].
  apply andb_true_iff in Tb. destruct Tb as [_ Tb]. now apply ng6_try_opening_block.
Qed.

Lemma ng6_loop am : forall fuel st c ml d, PIL o L st -> ng6 (open_new_blocks_loop fuel o st c line am ml d).
Proof.
  induction fuel as [|f IH]; intros st c ml d P; cbn [open_new_blocks_loop]; [reflexivity|].
  apply ng_bind; [auto with ng6|]. intros n _. destruct (is_code_or_html n); [exact I|].
  apply ng_bind; [now apply ng6_step|]. intros [[go c1] s1] E. destruct go; [|exact I].
  apply IH. first [exact (open_new_blocks_step_pil o L HL _ _ _ _ _ _ _ _ _ E P) | exact (open_new_blocks_step_pil o L _ _ _ _ _ _ _ _ _ E P)].
Qed.

Lemma ng6_open_new_blocks st c am : PIL o L st -> ng6 (open_new_blocks o st c line am).
Proof. intro P. unfold open_new_blocks. apply ng_bind; [auto with ng6|]. intros n _. now apply ng6_loop. Qed.

Lemma ng6_add_text_to_container st c lmc : PIL o L st -> ng6 (add_text_to_container o st c lmc line).
Proof.
  intro P. unfold add_text_to_container.
  apply ng_bind; [auto with ng6|]. intros s0 E0. assert (P0 : PIL o L s0) by eauto with pil.
  apply ng_bind; [auto with ng6|]. intros cn _.
  apply ng_bind; [nggo|]. intros s1 E1.
  assert (P1 : PIL o L s1) by (sat; eauto with pil).
  apply ng_bind; [auto with ng6|]. intros s2 E2. assert (P2 : PIL o L s2) by eauto with pil.
  apply ng_bind; [auto with ng6|]. intros s3 E3. assert (P3 : PIL o L s3) by eauto with pil.
  apply ng_bind; [nggo|]. intros lz _.
  destruct lz; [auto with ng6|].
  apply ng_bind; [auto with ng6|]. intros s4 E4. assert (P4 : PIL o L s4) by eauto with pil.
  apply ng_bind; [auto with ng6|]. intros c4 _.
  apply ng_bind; [|intros; exact I].
  destruct (bval c4); pgo.
Qed.
End Line.

(* ================================================================== process_line, run_lines, parse_blocks *)
Lemma ng6_process_line o L st line0 : PIL o L st -> ng6 (process_line o st line0).
Proof.
  intro P. unfold process_line. cbv zeta.
  match goal with |- context [check_open_blocks o ?s ?l] => assert (P0 : PIL o (S L) s) by (apply (PIL_next_line o L); exact P) end.
  assert (HL : 1 <= S L) by lia.
  apply ng_bind; [now apply (ng6_check_open_blocks o (S L) HL)|]. intros [r s1] E.
  assert (P1 : PIL o (S L) s1) by (eapply check_open_blocks_pil; eassumption).
  apply ng_bind; [|intros; exact I].
  destruct r as [[lm am]|]; [|exact I]. cbv zeta.
  apply ng_bind; [now apply (ng6_open_new_blocks o (S L) HL)|]. intros [c s2] E2.
  assert (P2 : PIL o (S L) s2) by (eapply open_new_blocks_pil; eassumption).
  destruct (Nat.eqb (ps_current s1) (ps_current s2)); [now apply (ng6_add_text_to_container o (S L) HL) | exact I].
Qed.

Lemma ng6_process_lines o : forall ls L st, PIL o L st -> ng6 (process_lines o st ls).
Proof.
  induction ls as [|l r IH]; intros L st P; cbn [process_lines]; [exact I|].
  apply ng_bind; [now apply (ng6_process_line o L)|]. intros s1 E. apply (IH (S L)). eapply process_line_pil; eassumption.
Qed.

Lemma process_line_curline0 o st line0 st' : process_line o st line0 = Ok st' -> ps_curline_len st' = 0.
Proof. unfold process_line. cbv zeta. intro H. mstep H. mstep H. mstep H. reflexivity. Qed.

Lemma process_lines_curline0 o : forall ls st st', ps_curline_len st = 0 -> process_lines o st ls = Ok st' -> ps_curline_len st' = 0.
Proof.
  induction ls as [|l r IH]; intros st st' Z H; cbn [process_lines] in H; [now inversion H; subst|].
  mstep H. eapply IH; [|exact H]. eapply process_line_curline0; eassumption.
Qed.

Lemma ng6_run_lines o L st ls : PIL o L st -> ps_curline_len st = 0 -> ng6 (run_lines o st ls).
Proof.
  intros P Z. unfold run_lines. apply ng_bind; [now apply (ng6_process_lines o ls L)|]. intros s1 E.
  apply ng6_finalize_document0. eapply process_lines_curline0; eassumption.
Qed.

Lemma ng6_front_matter_prologue o x : ng6 (front_matter_prologue o init_state x).
Proof.
  unfold front_matter_prologue. destruct (bo_front_matter_delimiter o) as [d|]; [|exact I].
  apply ng_bind; [auto with ng6|]. intros [[fm rest]|] _; [|exact I].
  apply ng_bind; [auto with ng6|]. intros stripped _. cbn. exact I.
Qed.

Lemma front_matter_prologue_curline0 o x st rest : front_matter_prologue o init_state x = Ok (st, rest) -> ps_curline_len st = 0.
Proof.
  unfold front_matter_prologue. intro H.
  destruct (bo_front_matter_delimiter o) as [d|]; [|now inversion H; subst].
  destruct (split_off_front_matter x d) as [[[fm rest']|]| |]; cbn [bind] in H; try discriminate H; [|now inversion H; subst].
  destruct (remove_trailing_blank_lines fm) as [stripped| |]; cbn [bind] in H; try discriminate H.
  cbn in H. inversion H; subst. reflexivity.
Qed.

Theorem parse_blocks_ng6 o x : ng6 (parse_blocks o x).
Proof.
  unfold parse_blocks. apply ng_bind; [apply ng6_front_matter_prologue|]. intros [st rest] E.
  destruct (front_matter_prologue_pil _ _ _ _ E) as [P _].
  destruct (feed_lines rest) as [lines total].
  apply ng_bind; [|intros; exact I].
  eapply ng6_run_lines; [exact P | eapply front_matter_prologue_curline0; exact E].
Qed.

Theorem parse_blocks_no_pos_panic o x s : In s pos_sites -> parse_blocks o x <> Panic s.
Proof. intro H. eapply sg_no_panic; [apply parse_blocks_ng6 | exact H]. Qed.
