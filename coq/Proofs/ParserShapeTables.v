(* Proofs/ParserShapeTables.v — the table clause s3 (in the stronger form Spec.Valid.tables_ok) OF THE BLOCK-PHASE
   MODEL: the invariant TI of Proofs/ParserShapeTabPrim.v carried through every step of parse_blocks.
   The table openers are where the content is: try_opening_header builds the header row with one cell per cell
   of the delimiter row (= one per alignment), try_opening_row gives every body row exactly |alignments| cells
   (min(|alignments|, cells of the line) real cells + padding), rows are only appended to the Table node found
   under the identifier, cells only to the row being built; every other step appends free-standing values under
   parents that are neither a Table nor a TableRow (can_contain), or removes / replaces a Paragraph. *)
From Coq Require Import List NArith Arith Bool Lia Strings.String.
From V Require Import Base.Bytes Base.Res Gen.Nodes Model.Ast Model.Strings Model.Feed Model.FrontMatter Model.RefDef
  Model.Scan Model.Blocks Spec.Shape Spec.HtmlSpec Spec.Valid Proofs.BlocksProofs Proofs.BlocksCursor
  Proofs.ParserShapeBlocks Proofs.ParserShapeTree Proofs.ParserShapeTabPrim.
Import ListNotations.
Local Open Scope string_scope.
Local Open Scope list_scope.

Lemma adv_same st line n b st' : adv st line n b = Ok st' -> ps_root st' = ps_root st /\ ps_next st' = ps_next st.
Proof. unfold adv. intro H. mon H. split; reflexivity. Qed.

Lemma adv_TI o ex st line n b st' : adv st line n b = Ok st' -> TI o ex st -> TI o ex st'.
Proof. unfold adv. intros H V. mon H. exact V. Qed.
Lemma ffn_TI o ex st line st' : ffn st line = Ok st' -> TI o ex st -> TI o ex st'.
Proof. unfold ffn. intros H V. mon H. exact V. Qed.

(* ================================================================== the table openers *)
Lemma try_opening_header_TI o ex st c line r st' :
  bo_table o = true -> try_opening_header o st c line = Ok (r, st') -> TI o ex st -> TI o ex st'.
Proof.
  intros T H V. split; [eapply try_opening_header_NI; [exact T | exact H | exact (TI_NI _ _ _ V)]|].
  unfold try_opening_header in H. mon H; monall; try (destruct V as [_ V]; exact V).
  all: match goal with
       | I : try_inserting_table_header_paragraph _ _ _ = Ok _ |- _ => destruct (try_inserting_TI _ _ _ _ _ _ I V) as [V1 _]
       | _ => pose proof V as V1
       end.
  all: match goal with A : adv (st_next ?s1 ?n1) _ _ _ = Ok ?s3, E : edit_kids _ _ (ps_root ?s3) = Some ?r0,
                       HC : header_cells ?hc _ _ _ _ _ = Ok ?cells, EL : negb (Nat.eqb (List.length ?hc) (List.length ?dc)) = false |- _ =>
         destruct (adv_same _ _ _ _ _ A) as [Rt Nx]; cbn [ps_root ps_next st_next] in Rt, Nx;
         destruct (header_cells_ids _ _ _ _ _ _ _ HC) as (Hi & Hl & Hk);
         destruct V1 as [_ [U1 B1]]; rewrite Rt in E;
         assert (ELen : List.length hc = List.length dc) by (apply negb_false_iff in EL; apply Nat.eqb_eq in EL; exact EL);
         unfold UQ in U1; set (tid := ps_next s1) in *; set (len := List.length hc) in *; clearbody tid; split
       end.
  all: try (intro x; cbn [ps_root ps_next st_root]; rewrite Nx;
           match goal with E : edit_kids _ _ _ = Some _ |- _ =>
             destruct (edit_kids_cnt _ _ _ _ E) as (pk & pre & cc & post & _ & _ & C) end;
           specialize (C x); cbv beta in C; specialize (U1 x);
           destruct (is_paragraph cc); cnt_norm; [|lia];
           cbn [new_info set_end set_start bi_id] in C; rewrite Hi in C;
           destruct (seq_cnt x (S (S tid)) len) as [S1 S2];
           unfold one in *;
           repeat match goal with H : context [Nat.eq_dec ?a ?b] |- _ => destruct (Nat.eq_dec a b) end; lia).
  all: cbn [ps_root st_root];
       match goal with E : edit_kids _ _ _ = Some _ |- _ =>
         eapply (edit_kids_btab _ _ (fun _ => True)); [exact B1 | exact E | auto |] end;
       intros i pre x post _ Vp; cbv beta; (destruct (is_paragraph x) eqn:P; [|split; [exact Vp | reflexivity]]);
       assert (Fx : g_free (tsig x) = true)
         by (unfold is_paragraph in P; unfold tsig; destruct (bval x); try discriminate P; reflexivity);
       assert (Pl : vplain (bi_val i) = true)
         by (eapply free_kid_plain; [exact Vp | apply in_or_app; right; left; reflexivity | exact Fx]);
       destruct (plain_kids_inv _ _ Pl Vp) as [K Vk];
       apply forallb_app_iff in K; destruct K as [K1 K2]; apply forallb_cons in K2; destruct K2 as [_ K2];
       apply forallb_app_iff in Vk; destruct Vk as [W1 W2]; apply forallb_cons in W2; destruct W2 as [_ W2];
       apply plain_kids; [exact Pl | |]; apply forallb_app_iff; (split; [assumption|]); cbn [app]; apply forallb_cons;
       (split; [|assumption]); [reflexivity|];
       apply btab_node; cbn [new_info bi_val kshape map t_cols t_aligns forallb]; rewrite map_length, <- ELen, N.eqb_refl;
       cbn [andb]; split;
       [ unfold tsig, bval; cbn [binf bkids set_end set_start new_info bi_val g_row]; rewrite Hl, Nat.eqb_refl; reflexivity
       | rewrite andb_true_r; apply cells_row_btab; [eexists; reflexivity | exact Hk] ].
Qed.

Lemma try_opening_row_TI o ex st c t line r st' :
  bo_table o = true -> (exists cn, get st c = Ok cn /\ bval cn = Table t) ->
  try_opening_row o st c t line = Ok (r, st') -> TI o ex st -> TI o ex st'.
Proof.
  intros T Hc H V. split; [eapply try_opening_row_NI; [exact T | exact Hc | exact H | exact (TI_NI _ _ _ V)]|].
  destruct Hc as [cn [G Bv]]. unfold try_opening_row in H. rewrite G in H. cbn [bind] in H.
  mon H; monall; try (destruct V as [_ V]; exact V).
  match goal with A : adv ?s1 _ _ _ = Ok ?s2 |- _ =>
    destruct (adv_same _ _ _ _ _ A) as [Rt Nx]; unfold UQ; rewrite Rt, Nx; clear A Rt Nx end.
  match goal with RC : row_cells ?n ?cells ?id0 _ _ _ = Ok (?parsed, _) |- _ =>
    destruct (row_cells_ids _ _ _ _ _ _ _ _ RC (Nat.le_min_r _ _)) as (Hi & Hl & Hk) end.
  match goal with M : modify _ _ _ = Ok _ |- _ =>
    unfold modify in M; cbn [ps_root st_next] in M;
    match type of M with match upd ?i ?ff ?tt with _ => _ end = _ => destruct (upd i ff tt) as [r1|] eqn:Eu; [|discriminate M] end;
    inversion M; subst; clear M; cbn [ps_root ps_next st_root st_next] end.
  apply get_find in G. destruct V as [_ [U B]].
  set (nal := List.length (t_aligns t)) in *.
  match goal with _ : row_cells ?k0 _ _ _ _ _ = Ok _ |- _ => set (kk := k0) in * end.
  assert (Ln : kk <= nal) by (subst kk; apply Nat.le_min_l).
  match type of Eu with context [filler_cells ?a1 ?a2 ?a3 ?a4] =>
    destruct (filler_cells_ids a1 a2 a3 a4) as (Fi & Fl & Fk) end.
  split.
  - intro x.
    rewrite (upd_cnt _ _ _ _ (fun y => one (ps_next st) y + (cnt y (seq (S (ps_next st)) kk) + cnt y (seq (S (ps_next st) + kk) (nal - kk)))) Eu).
    + specialize (U x). destruct (seq_cnt x (S (ps_next st)) kk) as [S1 S2].
      destruct (seq_cnt x (S (ps_next st) + kk) (nal - kk)) as [S3 S4].
      unfold one. destruct (Nat.eq_dec (ps_next st) x); lia.
    + intros nn Fn y. destruct nn as [i ch]. cnt_norm. cbn [set_val set_end new_info bi_id]. rewrite Hi, Fi. lia.
  - eapply upd_btab; [exact B | exact Eu |].
    intros nn Fn Vn. rewrite G in Fn. inversion Fn; subst nn. destruct cn as [i ch]. unfold bval in Bv. cbn [binf] in Bv.
    apply btab_node in Vn. destruct Vn as [K Vk]. rewrite Bv in K. cbn [kshape] in K.
    apply andb_true_iff in K. destruct K as [K1 K2]. destruct ch as [|h rs]; [discriminate K2|]. cbn [map] in K2.
    apply andb_true_iff in K2. destruct K2 as [Kh Krs]. split.
    + apply btab_node. cbn [set_val bi_val kshape t_cols t_aligns]. rewrite K1. cbn [andb app map]. rewrite Kh. cbn [andb].
      split.
      * rewrite map_app, forallb_app, Krs. cbn [andb map forallb]. rewrite andb_true_r.
        unfold tsig, bval. cbn [binf bkids set_end new_info bi_val g_row Bool.eqb]. rewrite app_length, Hl, Fl.
        apply Nat.eqb_eq. fold nal. lia.
      * apply forallb_cons in Vk. destruct Vk as [Vh Vrs]. apply forallb_cons. split; [exact Vh|].
        apply forallb_app_iff. split; [exact Vrs|]. apply forallb_cons. split; [|reflexivity].
        apply cells_row_btab; [eexists; reflexivity|].
        destruct Hk as [H1 H2]. destruct Fk as [F1 F2]. split; apply forallb_app_iff; auto.
    + unfold tsig, bval. cbn [binf set_val bi_val]. rewrite Bv. reflexivity.
Qed.

Lemma try_opening_block_TI o ex st c line r st' :
  bo_table o = true -> try_opening_block o st c line = Ok (r, st') -> TI o ex st -> TI o ex st'.
Proof.
  intro T. unfold try_opening_block. intros H V.
  destruct (get st c) as [cn| |] eqn:G; cbn [bind] in H; try discriminate H.
  destruct (bval cn) eqn:Bv; try (inversion H; subst; exact V).
  - eapply try_opening_header_TI; eassumption.
  - eapply try_opening_row_TI; [exact T | exists cn; split; [exact G | exact Bv] | exact H | exact V].
Qed.

(* ================================================================== hints and the simple steps *)
Create HintDb ti.
#[export] Hint Resolve adv_TI ffn_TI unwrap_parent_fin_TI finalize_TI
  TI_st_current TI_st_refmap TI_st_line_number TI_st_cur TI_st_curline TI_st_last_line_length
  modify_info_set_TI add_line_TI : ti.
#[export] Hint Extern 1 (forall i : binfo, bi_val _ = bi_val i /\ bi_id _ = bi_id i) => (intro; split; reflexivity) : ti.
#[export] Hint Extern 1 (bvok _ _ = true) => reflexivity : ti.
#[export] Hint Extern 1 (vrowcell _ = false) => reflexivity : ti.
#[export] Hint Extern 1 (vplain _ = true) => reflexivity : ti.
#[export] Hint Resolve add_child_TI : ti.

Ltac tigo H := mon H; monall; repeat match goal with p : (_ * _)%type |- _ => destruct p end; cbn [fst snd] in *; eauto 20 with ti.

Lemma skip_one_space_TI o ex st line site st' : skip_one_space st line site = Ok st' -> TI o ex st -> TI o ex st'.
Proof. unfold skip_one_space. intros H V. tigo H. Qed.
#[export] Hint Resolve skip_one_space_TI : ti.

Lemma parse_block_quote_prefix_TI o ex st line b st' : parse_block_quote_prefix o st line = Ok (b, st') -> TI o ex st -> TI o ex st'.
Proof. unfold parse_block_quote_prefix. intros H V. tigo H. Qed.
#[export] Hint Resolve parse_block_quote_prefix_TI : ti.

Lemma parse_footnote_prefix_TI o ex st line b st' : parse_footnote_definition_block_prefix st line = Ok (b, st') -> TI o ex st -> TI o ex st'.
Proof. unfold parse_footnote_definition_block_prefix. intros H V. tigo H. Qed.
#[export] Hint Resolve parse_footnote_prefix_TI : ti.

Lemma parse_item_prefix_TI o ex st line c mo pad b st' : parse_item_prefix st line c mo pad = Ok (b, st') -> TI o ex st -> TI o ex st'.
Proof. unfold parse_item_prefix. intros H V. tigo H. Qed.
#[export] Hint Resolve parse_item_prefix_TI : ti.

Lemma skip_fence_offset_TI o ex line site : forall i st st', skip_fence_offset i st line site = Ok st' -> TI o ex st -> TI o ex st'.
Proof. induction i as [|j IH]; intros st st' H V; cbn [skip_fence_offset] in H; tigo H. Qed.
#[export] Hint Resolve skip_fence_offset_TI : ti.

Lemma parse_code_block_prefix_TI o ex st line c cb a b st' :
  parse_code_block_prefix o st line c cb = Ok (a, b, st') -> TI o ex st -> TI o ex st'.
Proof. unfold parse_code_block_prefix. intros H V. tigo H. Qed.
#[export] Hint Resolve parse_code_block_prefix_TI : ti.

Lemma parse_mbq_prefix_TI o ex st line c fl fo a b st' :
  parse_multiline_block_quote_prefix o st line c fl fo = Ok (a, b, st') -> TI o ex st -> TI o ex st'.
Proof. unfold parse_multiline_block_quote_prefix. intros H V. tigo H. Qed.
#[export] Hint Resolve parse_mbq_prefix_TI : ti.

Lemma check_container_TI o ex st line c a b st' : check_container o st line c = Ok (a, b, st') -> TI o ex st -> TI o ex st'.
Proof. unfold check_container. intros H V. destruct (bval c); tigo H. Qed.
#[export] Hint Resolve check_container_TI : ti.

Lemma check_open_blocks_inner_TI o ex line : forall fuel st container a c b st',
  check_open_blocks_inner fuel o st line container = Ok (a, c, b, st') -> TI o ex st -> TI o ex st'.
Proof. induction fuel as [|f IH]; intros st container a c b st' H V; cbn [check_open_blocks_inner] in H; tigo H. Qed.
#[export] Hint Resolve check_open_blocks_inner_TI : ti.

Lemma check_open_blocks_TI o ex st line r st' : check_open_blocks o st line = Ok (r, st') -> TI o ex st -> TI o ex st'.
Proof. unfold check_open_blocks. intros H V. tigo H. Qed.
#[export] Hint Resolve check_open_blocks_TI : ti.

Lemma reopen_TI o ex : forall fuel st id st', reopen_ast_nodes fuel st id = Ok st' -> TI o ex st -> TI o ex st'.
Proof. induction fuel as [|f IH]; intros st id st' H V; cbn [reopen_ast_nodes] in H; tigo H. Qed.
#[export] Hint Resolve reopen_TI : ti.

(* ================================================================== description lists: a paragraph is taken out and
   put back under the new DescriptionTerm *)
Lemma last_kid_btab c lc : btab c = true -> last_opt (bkids c) = Some lc -> btab lc = true.
Proof.
  destruct c as [i ch]. intros V L. apply btab_node in V. destruct V as [_ V].
  cbn [bkids] in L. apply last_opt_in in L. rewrite forallb_forall in V. now apply V.
Qed.

Lemma get_sub st id n : get st id = Ok n -> In n (bsub (ps_root st)).
Proof. intro G. apply get_find in G. now destruct (find_node_sub _ _ _ G). Qed.

Lemma parse_desc_list_details_TI o ex st c m b c' st' :
  parse_desc_list_details o st c m = Ok (b, c', st') -> TI o ex st -> TI o ex st'.
Proof.
  unfold parse_desc_list_details. intros H V.
  destruct (get st c) as [cn| |] eqn:G; cbn [bind] in H; try discriminate H.
  match type of H with bind ?r _ = _ => destruct r as [[[[tight c1] lc]|]| |] eqn:R; cbn [bind] in H; try discriminate H end;
    [|inversion H; subst; exact V].
  assert (Hl : ball o lc = true /\ btab lc = true /\ exists p, In p (bsub (ps_root st)) /\ In lc (bkids p)).
  { pose proof (get_ball _ _ _ _ (TI_NI _ _ _ V) G) as Vc. pose proof (get_btab _ _ _ _ _ V G) as Bc.
    destruct (last_opt (bkids cn)) eqn:L.
    - inversion R; subst. split; [eapply last_kid_ball; eassumption|]. split; [eapply last_kid_btab; eassumption|].
      exists cn. split; [eapply get_sub; eassumption | now apply last_opt_in].
    - mon R.
      match goal with G2 : get st ?pp = Ok ?pn, L2 : last_opt (bkids ?pn) = Some _ |- _ =>
        split; [eapply last_kid_ball; [eapply get_ball; [exact (TI_NI _ _ _ V) | exact G2] | exact L2]|];
        split; [eapply last_kid_btab; [eapply get_btab; [exact V | exact G2] | exact L2]|];
        exists pn; split; [eapply get_sub; exact G2 | now apply last_opt_in]
      end. }
  destruct Hl as (Vlc & Blc & p & Hp & Hlc).
  clear R.
  destruct (bval lc) eqn:Bl; try (inversion H; subst; exact V).
  - (* DescriptionItem *) tigo H.
  - (* Paragraph *)
    mon H; monall; repeat match goal with p : (_ * _)%type |- _ => destruct p end; cbn [fst snd] in *;
    match goal with D : bdetach st (bid lc) = Ok ?s1 |- _ =>
      assert (V1 : TI o (ids lc ++ ex) s1) by (eapply bdetach_TI_keep; [exact D | exact V | exact Hp | exact Hlc | rewrite Bl; reflexivity])
    end;
    match goal with A : add_child_gen _ ?s _ DescriptionTerm _ _ _ = Ok (_, ?s') |- _ =>
      assert (TI o (ids lc ++ ex) s -> TI o ex s') by
        (intro X; eapply add_child_gen_TI;
         [ exact A
         | eapply TI_ex_ext; [|exact X]; intro x; cnt_norm; lia
         | intros; cbn [new_info bi_val bi_id map]; repeat split; try reflexivity;
           rewrite kshape_plain by reflexivity; cbn [forallb]; rewrite tsig_free by (rewrite Bl; reflexivity); reflexivity
         | reflexivity
         | apply forallb_cons; split; [exact Vlc | reflexivity]
         | apply forallb_cons; split; [exact Blc | reflexivity] ])
    end; eauto 20 with ti.
Qed.
#[export] Hint Resolve parse_desc_list_details_TI : ti.

(* ================================================================== the handlers *)
Lemma handle_alert_TI o ex st c line ind b c' st' : handle_alert o st c line ind = Ok (b, c', st') -> TI o ex st -> TI o ex st'.
Proof. unfold handle_alert. intros H V. tigo H. Qed.
Lemma handle_mbq_TI o ex st c line ind b c' st' : handle_multiline_blockquote o st c line ind = Ok (b, c', st') -> TI o ex st -> TI o ex st'.
Proof. unfold handle_multiline_blockquote, rest_at_fns. intros H V. tigo H. Qed.
Lemma handle_blockquote_TI o ex st c line ind b c' st' : handle_blockquote o st c line ind = Ok (b, c', st') -> TI o ex st -> TI o ex st'.
Proof. unfold handle_blockquote. intros H V. tigo H. Qed.

Lemma handle_atx_TI o ex st c line ind b c' st' : handle_atx_heading o st c line ind = Ok (b, c', st') -> TI o ex st -> TI o ex st'.
Proof.
  intros H V. pose proof (handle_atx_NI _ _ _ _ _ _ _ _ H (TI_NI _ _ _ V)) as N'.
  unfold handle_atx_heading, rest_at_fns in H.
  mon H; monall; repeat match goal with p : (_ * _)%type |- _ => destruct p end; cbn [fst snd] in *; eauto with ti.
  eapply add_child_gen_TI; [eassumption | cbn [fids flat_map app]; eauto with ti | | reflexivity | reflexivity | reflexivity].
  intros id0 l0 c0. cbn [set_ioff set_val new_info bi_val bi_id map kshape forallb]. repeat split; try reflexivity.
  match goal with S : scan_atx_heading_start _ = Some _, P : position_hash _ = Some _, C : count_hashes _ = Ok ?lv |- _ =>
    pose proof (atx_level_bounds _ _ _ _ S P C) as B end.
  cbn [bvok]. apply andb_true_iff. split; apply N.leb_le; lia.
Qed.

Lemma handle_code_fence_TI o ex st c line ind b c' st' : handle_code_fence o st c line ind = Ok (b, c', st') -> TI o ex st -> TI o ex st'.
Proof. unfold handle_code_fence, rest_at_fns. intros H V. tigo H. Qed.
Lemma handle_html_block_TI o ex st c line ind b c' st' : handle_html_block o st c line ind = Ok (b, c', st') -> TI o ex st -> TI o ex st'.
Proof. unfold handle_html_block, rest_at_fns. intros H V. tigo H. Qed.
Lemma handle_thematic_break_TI o ex st c line ind am b c' st' : handle_thematic_break o st c line ind am = Ok (b, c', st') -> TI o ex st -> TI o ex st'.
Proof. unfold handle_thematic_break. intros H V. tigo H. Qed.

Lemma handle_footnote_TI o ex st c line ind d b c' st' : handle_footnote o st c line ind d = Ok (b, c', st') -> TI o ex st -> TI o ex st'.
Proof.
  unfold handle_footnote, rest_at_fns. intros H V.
  mstep H; [inversion H; subst; exact V|].
  assert (F : bo_footnotes o = true).
  { destruct (bo_footnotes o); [reflexivity|]. destruct ind; cbn in E; discriminate E. }
  assert (Fv : forall n k, bvok o (FootnoteDefinition n k) = true) by (intros; exact F).
  tigo H.
Qed.

Lemma handle_description_list_TI o ex st c line ind b c' st' : handle_description_list o st c line ind = Ok (b, c', st') -> TI o ex st -> TI o ex st'.
Proof. unfold handle_description_list, rest_at_fns. intros H V. tigo H. Qed.
Lemma list_spaces_loop_TI o ex line sc : forall fuel st st', list_spaces_loop fuel st line sc = Ok st' -> TI o ex st -> TI o ex st'.
Proof. induction fuel as [|f IH]; intros st st' H V; cbn [list_spaces_loop] in H; tigo H. Qed.
#[export] Hint Resolve list_spaces_loop_TI : ti.
Lemma handle_list_TI o ex st c line ind d b c' st' : handle_list o st c line ind d = Ok (b, c', st') -> TI o ex st -> TI o ex st'.
Proof. unfold handle_list. intros H V. tigo H. Qed.
Lemma handle_code_block_TI o ex st c line ind ml b c' st' : handle_code_block o st c line ind ml = Ok (b, c', st') -> TI o ex st -> TI o ex st'.
Proof. unfold handle_code_block. intros H V. tigo H. Qed.

Lemma handle_setext_TI o ex st c line ind b c' st' : handle_setext_heading o st c line ind = Ok (b, c', st') -> TI o ex st -> TI o ex st'.
Proof.
  unfold handle_setext_heading, rest_at_fns. intros H V.
  mstep H; [inversion H; subst; exact V|].
  destruct (get st c) as [cn| |] eqn:G; cbn [bind] in H; try discriminate H.
  destruct (is_paragraph cn) eqn:P; cbn [negb] in H; [|inversion H; subst; exact V].
  mon H; monall; repeat match goal with p : (_ * _)%type |- _ => destruct p end; cbn [fst snd] in *; eauto 10 with ti;
  match goal with M1 : modify_info (st_refmap st _) _ _ = Ok ?s1 |- _ => assert (V1 : TI o ex s1) end;
  try (eapply modify_info_TI; [apply TI_st_refmap; exact V | eassumption |];
       intros nn Fn; cbn [ps_root st_refmap] in Fn; rewrite (get_find _ _ _ G) in Fn; inversion Fn; subst;
       assert (Kp : bi_val (binf nn) = Paragraph)
         by (unfold is_paragraph, bval in P; destruct (bi_val (binf nn)); try discriminate P; reflexivity);
       cbn [set_val set_content bi_val bi_id]; rewrite ?Kp;
       (split; [reflexivity|]);
       (split; [first [reflexivity | match goal with |- context [match ?s with SetextEquals => _ | SetextHyphen => _ end] => destruct s; reflexivity end]|]);
       (split; [intro HD; discriminate HD|]);
       first [left; reflexivity | right; split; reflexivity]);
  eauto 10 with ti.
Qed.
#[export] Hint Resolve handle_alert_TI handle_mbq_TI handle_blockquote_TI handle_atx_TI handle_code_fence_TI
  handle_html_block_TI handle_setext_TI handle_thematic_break_TI handle_footnote_TI
  handle_description_list_TI handle_list_TI handle_code_block_TI : ti.

Lemma or_else_h_TI o ex (r : hres) k b c st st' :
  or_else_h r k = Ok (b, c, st') -> TI o ex st ->
  (forall b1 c1 s1, r = Ok (b1, c1, s1) -> TI o ex st -> TI o ex s1) ->
  (forall c1 s1 b2 c2 s2, k c1 s1 = Ok (b2, c2, s2) -> TI o ex s1 -> TI o ex s2) ->
  TI o ex st'.
Proof.
  unfold or_else_h. intros H V Hr Hk.
  destruct r as [[[b1 c1] s1]| |]; cbn [bind] in H; try discriminate H.
  destruct b1.
  - inversion H; subst. eapply Hr; [reflexivity | exact V].
  - eapply Hk; [exact H|]. eapply Hr; [reflexivity | exact V].
Qed.

Ltac chain_ti :=
  match goal with
  | R : or_else_h _ _ = Ok _ |- TI _ _ _ =>
    eapply (or_else_h_TI _ _ _ _ _ _ _ _ R); clear R;
    [ eassumption | intros ? ? ? ? ?; eauto with ti | intros ? ? ? ? ? R ?; cbv beta in R; chain_ti ]
  | |- TI _ _ _ => eauto with ti
  end.

Lemma open_new_blocks_step_TI o ex st c line am ml d g c' st' :
  open_new_blocks_step o st c line am ml d = Ok (g, c', st') -> TI o ex st -> TI o ex st'.
Proof.
  unfold open_new_blocks_step. intros H V.
  destruct (ffn st line) as [s0| |] eqn:F0; cbn [bind] in H; try discriminate H.
  assert (V0 : TI o ex s0) by eauto with ti.
  match type of H with bind ?r _ = _ => destruct r as [[[hd c1] s1]| |] eqn:R; cbn [bind] in H; try discriminate H end.
  assert (V1 : TI o ex s1) by chain_ti.
  clear R.
  destruct hd.
  - tigo H.
  - destruct (negb (Nat.leb code_indent (indent s0)) && bo_table o) eqn:ET.
    + assert (T : bo_table o = true) by (apply andb_true_iff in ET; tauto).
      match type of H with bind (bind ?r _) _ = _ => destruct r as [[tr s2]| |] eqn:TB; cbn [bind] in H; try discriminate H end.
      pose proof (try_opening_block_TI _ _ _ _ _ _ _ T TB V1) as V2.
      tigo H.
    + tigo H.
Qed.
#[export] Hint Resolve open_new_blocks_step_TI : ti.

Lemma open_new_blocks_loop_TI o ex line am : forall fuel st c ml d c' st',
  open_new_blocks_loop fuel o st c line am ml d = Ok (c', st') -> TI o ex st -> TI o ex st'.
Proof. induction fuel as [|f IH]; intros st c ml d c' st' H V; cbn [open_new_blocks_loop] in H; tigo H. Qed.
#[export] Hint Resolve open_new_blocks_loop_TI : ti.

Lemma open_new_blocks_TI o ex st c line am c' st' : open_new_blocks o st c line am = Ok (c', st') -> TI o ex st -> TI o ex st'.
Proof. unfold open_new_blocks. intros H V. tigo H. Qed.
#[export] Hint Resolve open_new_blocks_TI : ti.

Lemma clear_llb_up_TI o ex : forall fuel st id st', clear_llb_up fuel st id = Ok st' -> TI o ex st -> TI o ex st'.
Proof. induction fuel as [|f IH]; intros st id st' H V; cbn [clear_llb_up] in H; tigo H. Qed.
#[export] Hint Resolve clear_llb_up_TI : ti.

Lemma finalize_up_to_TI o ex target site : forall fuel st st', finalize_up_to fuel o st target site = Ok st' -> TI o ex st -> TI o ex st'.
Proof. induction fuel as [|f IH]; intros st st' H V; cbn [finalize_up_to] in H; tigo H. Qed.
#[export] Hint Resolve finalize_up_to_TI : ti.

Lemma add_text_to_container_TI o ex st c lm line st' :
  add_text_to_container o st c lm line = Ok st' -> TI o ex st -> TI o ex st'.
Proof. unfold add_text_to_container. intros H V. tigo H. Qed.
#[export] Hint Resolve add_text_to_container_TI : ti.

Lemma process_line_TI o ex st line st' : process_line o st line = Ok st' -> TI o ex st -> TI o ex st'.
Proof. unfold process_line. intros H V. tigo H. Qed.
#[export] Hint Resolve process_line_TI : ti.

Lemma process_lines_TI o ex : forall ls st st', process_lines o st ls = Ok st' -> TI o ex st -> TI o ex st'.
Proof. induction ls as [|l r IH]; intros st st' H V; cbn [process_lines] in H; tigo H. Qed.
#[export] Hint Resolve process_lines_TI : ti.

Lemma finalize_document_TI o ex st st' : finalize_document o st = Ok st' -> TI o ex st -> TI o ex st'.
Proof. unfold finalize_document. intros H V. tigo H. Qed.
#[export] Hint Resolve finalize_document_TI : ti.

Lemma run_lines_TI o ex st ls st' : run_lines o st ls = Ok st' -> TI o ex st -> TI o ex st'.
Proof. unfold run_lines. intros H V. tigo H. Qed.
#[export] Hint Resolve run_lines_TI : ti.

Lemma front_matter_prologue_TI o ex st s st' rest : front_matter_prologue o st s = Ok (st', rest) -> TI o ex st -> TI o ex st'.
Proof. unfold front_matter_prologue. intros H V. tigo H. Qed.
#[export] Hint Resolve front_matter_prologue_TI : ti.
