(* Proofs/FootnoteResolveAll.v — "every footnote reference points to a definition that is rendered exactly once":
   Spec.FootnoteSpec.refs_resolve holds of Model/Footnotes.process — every reference node of the processed tree carries
   a number k >= 1 such that the k-th definition at the tail of the root exists and has the reference's name.
   Together with FootnoteOnce.v this is Props/C15.v C15_ix_contiguous_full_statement, with the premise that was missing
   there (reference nodes are leaves: refs_leaf, C04's leaves_ok) and without no_nested_defs.

   Pieces: FootnoteEmit (every reference left by the walk has a final map entry with its number and name),
   FootnoteNumbers (the k-th appended entry has number k), the positions f_idx stay inside top_defs (which the walk does
   not reorder), all_refs of the processed tree are references of the walked tree. *)
From Coq Require Import List NArith Bool Lia Permutation Arith.
From V Require Import Base.Bytes Model.Ast Model.Footnotes Spec.FootnoteSpec Spec.Shape
  Proofs.FootnoteProofs Proofs.FootnoteOrder Proofs.FootnoteResolve Proofs.FootnoteOmit Proofs.FootnoteOnce
  Proofs.FootnoteNumbers Proofs.FootnoteEmit Proofs.ParserShapeFn.
Import ListNotations.
Local Open Scope list_scope.

(* ---- the walk keeps the list of reachable definitions in place, and keeps reference nodes leaves ---- *)
Lemma rr_top_defs_len : forall n n', fnp_rr n n' -> length (top_defs n') = length (top_defs n).
Proof.
  induction n as [v sp ch IH] using node_ind2. intros n' H.
  inversion H as [? ? ? v' R T|? ? ? ch' R F]; subst.
  - destruct (fnp_ref_tr_fndef _ _ R T) as [D D'].
    rewrite (fnp_top_defs_node v' sp ch D'), (fnp_top_defs_node v sp ch D). reflexivity.
  - destruct (is_fndef v) eqn:D.
    + rewrite !fnp_top_defs_def by exact D. reflexivity.
    + rewrite !fnp_top_defs_node by exact D.
      clear H. induction F as [|c c' r r' Hc _ IHF]; [reflexivity|].
      inversion IH as [|? ? Pc Pr]; subst. cbn [flat_map]. rewrite !app_length, (Pc _ Hc), (IHF Pr). reflexivity.
Qed.

Lemma rr_refs_leaf : forall n n', fnp_rr n n' -> refs_leaf n = true -> refs_leaf n' = true.
Proof.
  induction n as [v sp ch IH] using node_ind2. intros n' H L.
  inversion H as [? ? ? v' R T|? ? ? ch' R F]; subst.
  - destruct v; try discriminate. cbn [refs_leaf] in L. destruct ch; [|discriminate].
    destruct v'; try discriminate; reflexivity.
  - rewrite refs_leaf_nonref in L |- * by exact R.
    clear H. induction F as [|c c' r r' Hc _ IHF]; [reflexivity|].
    inversion IH as [|? ? Pc Pr]; subst. cbn [forallb] in L |- *. apply andb_prop in L. destruct L as [Lc Lr].
    rewrite (Pc _ Hc Lc), (IHF Pr Lr). reflexivity.
Qed.

(* ---- where the references of the processed tree come from ---- *)
Lemma all_refs_node v sp ch : is_ref v = false -> all_refs (Node v sp ch) = flat_map all_refs ch.
Proof. intro R. destruct v; try discriminate; reflexivity. Qed.

Lemma all_refs_cleanup : forall n p, In p (all_refs (cleanup n)) -> In p (all_refs n).
Proof.
  induction n as [v sp ch IH] using node_ind2. intros p H.
  destruct (is_fndef v) eqn:D; [rewrite fnp_cleanup_def in H by exact D; exact H|].
  rewrite fnp_cleanup_node in H by exact D.
  destruct (is_ref v) eqn:R; [destruct v; try discriminate; exact H|].
  rewrite all_refs_node in H |- * by exact R. rewrite fnp_cleanup_go_map in H.
  apply in_flat_map in H. destruct H as [c' [Hc' Hp]]. apply in_map_iff in Hc'. destruct Hc' as [c [<- Hc]].
  apply filter_In in Hc. destruct Hc as [Hc _]. apply in_flat_map. exists c. split; [exact Hc|].
  rewrite Forall_forall in IH. apply IH; assumption.
Qed.

Lemma all_refs_top_def : forall n, refs_leaf n = true -> forall d p, In d (top_defs n) -> In p (all_refs d) -> In p (all_refs n).
Proof.
  induction n as [v sp ch IH] using node_ind2. intros L d p Hd Hp.
  destruct (is_fndef v) eqn:D.
  - rewrite fnp_top_defs_def in Hd by exact D. destruct Hd as [<-|[]]. exact Hp.
  - rewrite fnp_top_defs_node in Hd by exact D.
    destruct (is_ref v) eqn:R.
    + destruct v; try discriminate. cbn [refs_leaf] in L. destruct ch; [contradiction|discriminate].
    + rewrite refs_leaf_nonref in L by exact R. rewrite all_refs_node by exact R.
      apply in_flat_map in Hd. destruct Hd as [c [Hc Hd]]. apply in_flat_map. exists c. split; [exact Hc|].
      rewrite Forall_forall in IH. rewrite forallb_forall in L. apply (IH c Hc (L c Hc) d p); assumption.
Qed.

Lemma all_refs_set_def f d : is_def d = true -> all_refs (set_def f d) = all_refs d.
Proof.
  intro D. rewrite (fnp_set_def_def f d D). destruct d as [v sp ch]. rewrite fnp_is_def_eq in D. cbn [nval] in D.
  destruct v; try discriminate. reflexivity.
Qed.

(* ---- positions ---- *)
Section Idx.
  Variable fold : bytes -> bytes.
  Variable pres : bytes -> bytes.

  Lemma collect_idx ds : forall idx m B, B = (idx + length ds)%nat ->
    Forall (fun f => (f_idx f < B)%nat) m -> Forall (fun f => (f_idx f < B)%nat) (collect fold pres ds idx m).
  Proof.
    induction ds as [|a r IH]; intros idx m B E T; cbn [collect]; [exact T|].
    cbn [length] in E. apply (IH (S idx)); [lia|].
    apply map_insert_Forall; [exact T|]. cbn [f_idx]. lia.
  Qed.
End Idx.

Lemma appended_nth (perm : list fdef -> list fdef) m defs :
  (forall f, In f (numbered perm m) -> (f_idx f < length defs)%nat) ->
  forall j f, nth_error (numbered perm m) j = Some f ->
    exists d, nth_error defs (f_idx f) = Some d /\ nth_error (appended perm m defs) j = Some (set_def f d).
Proof.
  unfold appended, numbered. generalize (filter has_ix (sort_by_ix (perm m))). intro l.
  induction l as [|f0 r IH]; intros B j f H; [destruct j; discriminate|].
  cbn [flat_map].
  destruct (nth_error defs (f_idx f0)) as [d0|] eqn:E0.
  2:{ exfalso. apply nth_error_None in E0. specialize (B f0 (or_introl eq_refl)). lia. }
  destruct j as [|j]; cbn [nth_error] in H.
  - injection H as <-. exists d0. split; [exact E0 | reflexivity].
  - cbn [app nth_error]. apply IH; [|exact H]. intros g Hg. apply B. right. exact Hg.
Qed.

Section All.
  Variable fold : bytes -> bytes.
  Variable pres : bytes -> bytes.
  Variable perm : list fdef -> list fdef.
  Hypothesis perm_ok : forall m, Permutation (perm m) m.

  (* the processed tree, with the result of the walk named *)
  Lemma process_shape2 root : is_def root = false ->
    let r := refs fold pres root (collect fold pres (top_defs root) 0 [], 0%N) in
    exists root2, (root2 = fst r \/ root2 = cleanup (fst r)) /\
      process fold pres perm root =
      Node (nval root2) (nsp root2)
           (nch root2 ++ (if (0 <? snd (snd r))%N then appended perm (fst (snd r)) (top_defs (fst r)) else [])).
  Proof.
    intro D. cbv zeta. unfold process.
    destruct (refs fold pres root (collect fold pres (top_defs root) 0 [], 0%N)) as [root1 [m1 ix]].
    cbn [fst snd]. cbv beta iota zeta.
    exists (match m1 with [] => root1 | _ :: _ => cleanup root1 end). split.
    - destruct m1; [left|right]; reflexivity.
    - destruct (0 <? ix)%N.
      + destruct (match m1 with [] => root1 | _ :: _ => cleanup root1 end) as [v sp ch]. reflexivity.
      + rewrite app_nil_r. destruct (match m1 with [] => root1 | _ :: _ => cleanup root1 end) as [v sp ch]. reflexivity.
  Qed.

  Theorem process_refs_resolve root : is_def root = false -> refs_leaf root = true ->
    refs_resolve (process fold pres perm root) = true.
  Proof.
    intros D L. unfold refs_resolve. cbv zeta. rewrite (process_tail fold pres perm root D). cbv zeta.
    destruct (process_shape2 root D) as [root2 [R2 E]]. cbv zeta in R2, E. rewrite E. clear E.
    set (st0 := (collect fold pres (top_defs root) 0 [], 0%N)) in *.
    pose proof (fnp_refs_rr fold pres root st0) as RR.
    pose proof (refs_have_entries fold pres root L) as EM. cbv zeta in EM. fold st0 in EM.
    pose proof (inv_after_walk fold pres root) as I. fold st0 in I.
    assert (J fold pres (top_defs root) (fst (snd (refs fold pres root st0)))) as Jm.
    { apply refs_Forall; [intros f ix; apply named_by_bump|].
      unfold st0. cbn [fst]. apply collect_J; [auto | constructor]. }
    assert (Forall (fun f => (f_idx f < length (top_defs root))%nat) (fst (snd (refs fold pres root st0)))) as IX.
    { apply refs_Forall; [intros f ix H; exact H|].
      unfold st0. cbn [fst]. apply (collect_idx fold pres _ 0); [reflexivity | constructor]. }
    destruct (refs fold pres root st0) as [root1 [m1 n]]. cbn [fst snd] in *.
    pose proof (rr_refs_leaf _ _ RR L) as L1. pose proof (rr_top_defs_len _ _ RR) as LEN.
    apply forallb_forall. intros [[name r] k] Hp.
    (* the reference is a reference of the walked tree *)
    assert (In (name, r, k) (all_refs root1)) as H1.
    { assert (In (name, r, k) (all_refs root2) \/
              In (name, r, k) (flat_map all_refs (if (0 <? n)%N then appended perm m1 (top_defs root1) else []))) as Hs.
      { destruct (is_ref (nval root2)) eqn:Rv.
        - left. destruct root2 as [v sp ch]. cbn [nval nsp nch] in *. destruct v; try discriminate. exact Hp.
        - rewrite all_refs_node in Hp by exact Rv. rewrite flat_map_app in Hp. apply in_app_or in Hp.
          destruct Hp as [Hp|Hp]; [left|right; exact Hp].
          destruct root2 as [v sp ch]. cbn [nval nch] in *. rewrite all_refs_node by exact Rv. exact Hp. }
      destruct Hs as [Hs|Hs].
      - destruct R2 as [->| ->]; [exact Hs | apply all_refs_cleanup, Hs].
      - destruct (0 <? n)%N; [|contradiction].
        apply in_flat_map in Hs. destruct Hs as [a [Ha Hs]].
        pose proof (fnp_appended_from perm m1 (top_defs root1)) as FA. rewrite Forall_forall in FA.
        destruct (FA a Ha) as [f [d [Hd ->]]].
        pose proof (fnp_top_defs_are_defs root1) as TD. rewrite Forall_forall in TD.
        rewrite (all_refs_set_def f d (TD d Hd)) in Hs. exact (all_refs_top_def root1 L1 d _ Hd Hs). }
    rewrite Forall_forall in EM. destruct (EM _ H1) as [f [Hf [Hi Hn]]]. cbn [fst snd] in Hi, Hn.
    destruct I as [ND [BD SJ]]. cbn [fst snd] in ND, BD, SJ.
    assert (1 <= k <= n)%N as Hk.
    { rewrite Forall_forall in BD. destruct (BD _ (in_ixs _ _ _ Hf Hi)) as [j [Ej Hj]]. injection Ej as <-. exact Hj. }
    assert ((0 <? n)%N = true) as -> by (apply N.ltb_lt; lia).
    assert ((1 <=? k)%N = true) as -> by (apply N.leb_le; lia). cbn [andb].
    destruct (numbered_nth perm perm_ok (m1, n) k (conj ND (conj BD SJ)) Hk) as [f' [Nth Hi']]. cbn [fst] in Nth.
    assert (In f' (filter has_ix m1)) as Hf'.
    { eapply Permutation_in; [apply (numbered_perm perm perm_ok)|]. eapply nth_error_In, Nth. }
    assert (f' = f) as ->.
    { apply (key_inj (filter has_ix m1)); [exact ND | exact Hf' | | rewrite Hi, Hi'; reflexivity].
      apply filter_In. split; [exact Hf|]. unfold has_ix. rewrite Hi. reflexivity. }
    destruct (appended_nth perm m1 (top_defs root1)) with (j := N.to_nat (k - 1)) (f := f) as [d [Ed ->]]; [|exact Nth|].
    { intros g Hg. rewrite LEN. rewrite Forall_forall in IX. apply IX.
      assert (In g (filter has_ix m1)) as X by (eapply Permutation_in; [apply (numbered_perm perm perm_ok) | exact Hg]).
      apply filter_In in X. exact (proj1 X). }
    pose proof (fnp_top_defs_are_defs root1) as TD. rewrite Forall_forall in TD.
    rewrite (fnp_set_def_def f d (TD d (nth_error_In _ _ Ed))). unfold fdef_name. cbn [nval].
    apply bytes_eqb_eq. symmetry. exact Hn.
  Qed.

  (* Props/C15.v C15_ix_contiguous_full_statement, with refs_leaf in place of no_nested_defs *)
  Theorem process_ix_contiguous root :
    (forall x y, pres x = pres y -> fold x = fold y) -> is_def root = false -> refs_leaf root = true ->
    refs_resolve (process fold pres perm root) = true /\ defs_once_and_referenced (process fold pres perm root) = true.
  Proof.
    intros C D L. split; [exact (process_refs_resolve root D L)|].
    exact (process_defs_once_and_referenced fold pres C perm perm_ok root D).
  Qed.
End All.

(* the statement Props/C15.v kept open (no premise about reference nodes) is FALSE of the model for an ill-shaped tree:
   an unresolved reference keeps its children, which the walk never visited.  The parser never builds such a tree
   (C04 leaves_ok); the premise refs_leaf was missing from the statement, not from the code. *)
Definition w_child_ref : node :=
  nd Document [nd Paragraph [Node (FootnoteReference [x7a] 0 0) sp0 [nd (FootnoteReference [x71] 7 7) []]]].

Lemma w_child_ref_facts :
  is_def w_child_ref = false /\ no_nested_defs w_child_ref = true /\ refs_leaf w_child_ref = false /\
  refs_resolve (process idb idb idp w_child_ref) = false.
Proof. vm_compute. repeat split; reflexivity. Qed.
