(* Proofs/BlocksTotal4FuelFin.v — totality of the block phase, fourth round, fuel, part 3: the closing loops
   (finalize_up_to, add_child_loop): every step finalizes a node and goes on with its parent IN THE NEW TREE.

     finalize_parent_of   finalize o st id = Ok (po, st') -> W o st -> y <> id -> parent_of y is the same in st' and st
                          (modify_info keeps the shape; the detach of the paragraph removes a leaf; retighten is a
                          modify_info)
     up_transfer          hence the chain of parents above the finalized node is the same chain in the new tree
                          (every node of it has a larger subtree than the finalized node, so it is another node)
     finalize_up_to_fuel, add_child_loop_fuel   fuel S (ps_next st) is enough, under W o st alone *)
From Coq Require Import List NArith Arith Bool Lia Strings.String.
From V Require Import Base.Bytes Base.Res Gen.Nodes Model.Ast Model.Strings Model.Feed Model.FrontMatter Model.RefDef
  Model.Scan Model.Blocks Spec.Shape Spec.Valid Proofs.BlocksProofs Proofs.BlocksCursor Proofs.BlocksTight
  Proofs.ParserShapeBlocks Proofs.ParserShapeTree Proofs.ParserShapeTabPrim Proofs.ParserShapeTables
  Proofs.BlocksTotal Proofs.BlocksTotal2Safe Proofs.BlocksTotal2Root Proofs.BlocksTotal2Tree Proofs.BlocksTotal2Walk
  Proofs.BlocksTotal3Cur Proofs.BlocksTotal4Fuel Proofs.BlocksTotal4FuelTree.
Import ListNotations.
Local Open Scope string_scope.
Local Open Scope list_scope.

(* ================================================================== parent_of, one level at a time *)
Fixpoint first_parent (x : nat) (l : list bnode) : option nat :=
  match l with
  | [] => None
  | c :: r => match parent_of x c with Some p => Some p | None => first_parent x r end
  end.

Lemma parent_of_node x i ch :
  parent_of x (BNode i ch) = match split_kid x ch with Some _ => Some (bi_id i) | None => first_parent x ch end.
Proof.
  cbn [parent_of]. destruct (split_kid x ch); [reflexivity|].
  induction ch as [|a r IH]; [reflexivity|]. cbn [first_parent]. rewrite <- IH. reflexivity.
Qed.

Lemma first_parent_app x a b :
  first_parent x (a ++ b) = match first_parent x a with Some p => Some p | None => first_parent x b end.
Proof.
  induction a as [|c r IH]; [reflexivity|]. cbn [app first_parent]. destruct (parent_of x c); [reflexivity | exact IH].
Qed.

Lemma parent_of_leaf x c : bkids c = [] -> parent_of x c = None.
Proof. destruct c as [j k]. cbn [bkids]. intros ->. reflexivity. Qed.

Lemma pmatch x (a : nat) l l' (B B' : option nat) :
  (split_kid x l' = None <-> split_kid x l = None) -> B' = B ->
  match split_kid x l' with Some _ => Some a | None => B' end = match split_kid x l with Some _ => Some a | None => B end.
Proof.
  intros [I1 I2] ->. destruct (split_kid x l') as [q'|]; destruct (split_kid x l) as [q|]; try reflexivity.
  - specialize (I2 eq_refl). discriminate I2.
  - specialize (I1 eq_refl). discriminate I1.
Qed.

Lemma split_kid_none_map x l l' : map bid l' = map bid l -> (split_kid x l' = None <-> split_kid x l = None).
Proof. intro M. rewrite !split_kid_none_iff, M. tauto. Qed.

(* ---- upd that keeps the identifier and the children of the node it changes *)
Lemma parent_of_upd x id f : forall t t',
  upd id f t = Some t' ->
  (forall n, In n (bsub t) -> bid n = id -> bid (f n) = bid n /\ bkids (f n) = bkids n) ->
  parent_of x t' = parent_of x t.
Proof.
  induction t as [i ch IH] using bnode_ind2. intros t' U Hf. cbn [upd] in U.
  destruct (Nat.eqb (bi_id i) id) eqn:E.
  - inversion U; subst. clear U. apply Nat.eqb_eq in E.
    destruct (Hf (BNode i ch) (bsub_self _) E) as [A B]. destruct (f (BNode i ch)) as [j k].
    unfold bid in A. cbn [binf bkids] in A, B. subst k. rewrite !parent_of_node, A. reflexivity.
  - match type of U with match ?gg with _ => _ end = _ => destruct gg as [ch'|] eqn:G; [|discriminate] end.
    inversion U; subst. clear U. rewrite !parent_of_node.
    assert (K : map bid ch' = map bid ch /\ first_parent x ch' = first_parent x ch).
    { assert (Hk : forall c, In c ch -> forall n, In n (bsub c) -> bid n = id -> bid (f n) = bid n /\ bkids (f n) = bkids n).
      { intros c Hc n Hn. apply Hf. eapply bsub_kid; eassumption. }
      clear Hf E. revert ch' G. induction ch as [|c r IHr]; intros ch' G; [discriminate|].
      inversion IH as [|? ? IHc IHrest]; subst.
      destruct (upd id f c) as [c'|] eqn:Uc.
      - inversion G; subst. cbn [map first_parent].
        assert (Hc : forall n, In n (bsub c) -> bid n = id -> bid (f n) = bid n /\ bkids (f n) = bkids n)
          by (apply Hk; now left).
        rewrite (IHc c' eq_refl Hc). split; [|reflexivity]. f_equal.
        eapply upd_root_bid; [exact Uc|]. intros n Fn. destruct (find_node_sub _ _ _ Fn) as [Bn Sn]. now apply Hc.
      - match type of G with match ?gg with _ => _ end = _ => destruct gg as [r'|] eqn:Gr; [|discriminate] end.
        inversion G; subst. cbn [map first_parent].
        destruct (IHr IHrest (fun d Hd => Hk d (or_intror Hd)) r' eq_refl) as [A B]. rewrite A, B. split; reflexivity. }
    destruct K as [K1 K2]. apply pmatch; [now apply split_kid_none_map | exact K2].
Qed.

Lemma mi_const_parent_of st id j st' y :
  modify_info st id (fun _ => j) = Ok st' -> bi_id j = id -> parent_of y (ps_root st') = parent_of y (ps_root st).
Proof.
  unfold modify_info, modify. intros M Hj.
  destruct (upd id (on_info (fun _ => j)) (ps_root st)) as [r|] eqn:U; [|discriminate M]. inversion M; subst. cbn [ps_root st_root].
  eapply parent_of_upd; [exact U|]. intros [i ch] _ Bn. cbn [on_info bkids]. unfold bid in *. cbn [binf] in *. split; [congruence | reflexivity].
Qed.

(* ---- the detach of a leaf *)
Lemma parent_of_detach X y : y <> X -> forall t t',
  edit_kids X (fun _ pre _ post => pre ++ post) t = Some t' ->
  (forall n, In n (bsub t) -> bid n = X -> bkids n = []) ->
  parent_of y t' = parent_of y t.
Proof.
  intro Ny. induction t as [i ch IH] using bnode_ind2. intros t' U Hl. cbn [edit_kids] in U.
  destruct (split_kid X ch) as [[[pre c] post]|] eqn:S.
  - inversion U; subst. clear U. rewrite !parent_of_node.
    pose proof (split_kid_eq _ _ _ _ _ S) as Ec. pose proof (split_kid_bid _ _ _ _ _ S) as Bc. subst ch.
    assert (Lc : bkids c = []).
    { apply Hl; [|exact Bc]. eapply bsub_kid; [|apply bsub_self]. apply in_or_app. right. now left. }
    apply pmatch.
    + rewrite !split_kid_none_iff, !map_app, !existsb_app. cbn [map existsb].
      assert (Eb : Nat.eqb (bid c) y = false) by (apply Nat.eqb_neq; congruence). rewrite Eb. cbn [orb]. tauto.
    + rewrite !first_parent_app. cbn [first_parent]. rewrite (parent_of_leaf y c Lc). reflexivity.
  - clear S.
    match type of U with match ?gg with _ => _ end = _ => destruct gg as [ch'|] eqn:G; [|discriminate] end.
    inversion U; subst. clear U. rewrite !parent_of_node.
    assert (K : map bid ch' = map bid ch /\ first_parent y ch' = first_parent y ch).
    { assert (Hk : forall c, In c ch -> forall n, In n (bsub c) -> bid n = X -> bkids n = []).
      { intros c Hc n Hn. apply Hl. eapply bsub_kid; eassumption. }
      clear Hl. revert ch' G. induction ch as [|c r IHr]; intros ch' G; [discriminate|].
      inversion IH as [|? ? IHc IHrest]; subst.
      destruct (edit_kids X (fun _ pre _ post => pre ++ post) c) as [c'|] eqn:Uc.
      - inversion G; subst. cbn [map first_parent].
        rewrite (IHc c' eq_refl (Hk c (or_introl eq_refl))). split; [|reflexivity]. f_equal.
        eapply edit_kids_root_bid; exact Uc.
      - match type of G with match ?gg with _ => _ end = _ => destruct gg as [r'|] eqn:Gr; [|discriminate] end.
        inversion G; subst. cbn [map first_parent].
        destruct (IHr IHrest (fun d Hd => Hk d (or_intror Hd)) r' eq_refl) as [A B]. rewrite A, B. split; reflexivity. }
    destruct K as [K1 K2]. apply pmatch; [now apply split_kid_none_map | exact K2].
Qed.

Lemma bdetach_parent_of st X st' y :
  bdetach st X = Ok st' -> (forall n, In n (bsub (ps_root st)) -> bid n = X -> bkids n = []) -> y <> X ->
  parent_of y (ps_root st') = parent_of y (ps_root st).
Proof.
  unfold bdetach. intros D Hl Ny.
  destruct (edit_kids X (fun _ pre _ post => pre ++ post) (ps_root st)) as [r|] eqn:E; inversion D; subst; [|reflexivity].
  cbn [ps_root st_root]. eapply parent_of_detach; eassumption.
Qed.

Lemma retighten_parent_of st p st' y : retighten st p = Ok st' -> parent_of y (ps_root st') = parent_of y (ps_root st).
Proof.
  unfold retighten. intro H. destruct p as [item|]; [|inversion H; subst; reflexivity].
  destruct (parent_of item (ps_root st)) as [lid|]; [|inversion H; subst; reflexivity].
  destruct (get st lid) as [l| |] eqn:G; cbn [bind] in H; try discriminate H.
  destruct (bi_open (binf l)); [inversion H; subst; reflexivity|].
  destruct (bval l) eqn:Bv; try (inversion H; subst; reflexivity).
  eapply modify_info_parent_of; [|exact H]. reflexivity.
Qed.

(* ================================================================== finalize keeps the parents of the other nodes *)
Theorem finalize_parent_of o st id po st' :
  finalize o st id = Ok (po, st') -> W o st -> forall y, y <> id -> parent_of y (ps_root st') = parent_of y (ps_root st).
Proof.
  intros F V y Ny. unfold finalize in F.
  mstep F. rename E into G. mstep F; [discriminate F|]. mstep F. clear E0.
  destruct (find_node_sub _ _ _ (get_find _ _ _ G)) as [Ba _]. unfold bid in Ba.
  pose proof (ispara_get _ _ _ G) as IP. unfold is_paragraph, bval in IP.
  revert Ba. destruct (bi_val (binf a)) eqn:Ev; mon F; intro Ba;
  try (match goal with M : modify_info st id (fun _ => ?j) = Ok ?s1 |- parent_of y (ps_root ?s1) = _ =>
         apply (mi_const_parent_of st id j s1 y M); exact Ba end).
  - (* a paragraph with content left *)
    match goal with M : modify_info st id (fun _ => ?j) = Ok ?s1 |- _ =>
      change (parent_of y (ps_root s1) = parent_of y (ps_root st)); apply (mi_const_parent_of st id j s1 y M); exact Ba end.
  - (* a paragraph that is removed *)
    match goal with M : modify_info st id (fun _ => ?j) = Ok ?s1, D : bdetach (st_refmap ?s1 ?m) _ = Ok ?s3, R : retighten ?s3 _ = Ok ?s4 |- _ =>
      assert (S : same st s1) by (eapply (mi_const_same st id a j s1 G M); [reflexivity | cbn; rewrite ?Ev; reflexivity]);
      assert (V1 : W o (st_refmap s1 m));
      [ destruct V as ((N & U & B) & Sv & R0v); split; [|split];
        [ apply TI_st_refmap; eapply modify_info_TI; [exact (conj N (conj U B)) | exact M |];
          intros n Fn; rewrite (get_find _ _ _ G) in Fn; inversion Fn; subst; cbn; rewrite Ev;
          (split; [reflexivity|]); (split; [reflexivity|]); (split; [intro HD; discriminate HD | left; reflexivity])
        | apply SV_st_refmap; eapply modify_info_valid; [exact Sv | exact M |];
          intros n Fn; rewrite (get_find _ _ _ G) in Fn; inversion Fn; subst; cbn; rewrite Ev; reflexivity
        | apply R0_st_refmap; eapply modify_info_R0; [exact R0v | exact M |];
          intros n Fn; rewrite (get_find _ _ _ G) in Fn; inversion Fn; subst; reflexivity ]
      | ];
      assert (S1 : same st (st_refmap s1 m)) by (apply same_refmap; exact S);
      assert (H1 : has (st_refmap s1 m) id) by (apply (same_has _ _ _ S1); eapply get_has; exact G);
      destruct (has_get _ _ H1) as [n1 G1];
      assert (P1 : is_paragraph n1 = true)
        by (rewrite <- (ispara_get _ _ _ G1), (sm_para _ _ S1), IP; reflexivity);
      pose proof (para_leaf _ _ _ _ V1 G1 P1) as K1;
      rewrite (retighten_parent_of _ _ _ y R);
      rewrite (bdetach_parent_of _ _ _ y D);
      [ change (parent_of y (ps_root s1) = parent_of y (ps_root st)); apply (mi_const_parent_of st id j s1 y M); exact Ba
      | intros n Hn Bn; pose proof (get_unique _ _ _ V1 Hn) as Gn; rewrite Bn, G1 in Gn; inversion Gn; subst n; exact K1
      | exact Ny ]
    end.
Qed.

(* ================================================================== the chain above the finalized node *)
Lemma up_transfer o st t' k : W o st ->
  (forall y, k < ssz st y -> parent_of y t' = parent_of y (ps_root st)) ->
  forall x n, up (ps_root st) x n -> k < ssz st x -> up t' x n.
Proof.
  intros V E x n U. induction U as [x P|x p n P _ IH]; intro Hk.
  - apply up0. rewrite E; assumption.
  - eapply upS; [rewrite E; [exact P | exact Hk]|]. apply IH. pose proof (parent_ssz _ _ _ _ V P). lia.
Qed.

Lemma finalize_up o st id p n po st' :
  finalize o st id = Ok (po, st') -> W o st -> parent_of id (ps_root st) = Some p -> up (ps_root st) p n ->
  up (ps_root st') p n.
Proof.
  intros F V P U. eapply (up_transfer o st (ps_root st') (ssz st id) V); [|exact U | eapply parent_ssz; eassumption].
  intros y Hy. eapply finalize_parent_of; [exact F | exact V|]. intro Ey. subst y. lia.
Qed.

(* ================================================================== finalize_up_to, add_child_loop *)
Theorem finalize_up_to_fuel_gen o target site : forall fuel st n,
  W o st -> up (ps_root st) (ps_current st) n -> n < fuel -> finalize_up_to fuel o st target site <> OutOfFuel.
Proof.
  induction fuel as [|f IH]; intros st n V U Hf; [lia|]. cbn [finalize_up_to].
  destruct (Nat.eqb (ps_current st) target); [discriminate|].
  unfold unwrap_parent. destruct (finalize o st (ps_current st)) as [[po s1]| |] eqn:F; cbn [bind fst snd];
    [|discriminate | exfalso; exact (finalize_fuel _ _ _ F)].
  destruct (finalize_post _ _ _ _ _ F V) as [V1 (Ep & _)].
  inversion U as [x P|x p n' P U']; subst; rewrite P; cbn [bind fst snd]; [discriminate|].
  apply (IH (st_current s1 p) n'); [exact V1 | | lia].
  cbn [ps_root ps_current st_current]. eapply finalize_up; eassumption.
Qed.

Theorem finalize_up_to_fuel o st target site : W o st ->
  finalize_up_to (S (ps_next st)) o st target site <> OutOfFuel.
Proof.
  intro V. destruct (up_lt_next _ _ (ps_current st) V) as (n & U & L). eapply finalize_up_to_fuel_gen; [exact V | exact U | lia].
Qed.

Theorem add_child_loop_fuel_gen o k : forall fuel st parent n,
  W o st -> up (ps_root st) parent n -> n < fuel -> add_child_loop fuel o st parent k <> OutOfFuel.
Proof.
  induction fuel as [|f IH]; intros st parent n V U Hf; [lia|]. cbn [add_child_loop].
  apply bind_fuel; [apply nf_ne, nf_get|]. intros pn _. destruct (can_contain (bkind pn) k); [discriminate|].
  unfold unwrap_parent. destruct (finalize o st parent) as [[po s1]| |] eqn:F; cbn [bind fst snd];
    [|discriminate | exfalso; exact (finalize_fuel _ _ _ F)].
  destruct (finalize_post _ _ _ _ _ F V) as [V1 (Ep & _)].
  inversion U as [x P|x p n' P U']; subst; rewrite P; cbn [bind fst snd]; [discriminate|].
  apply (IH s1 p n'); [exact V1 | | lia]. eapply finalize_up; eassumption.
Qed.

Theorem add_child_loop_fuel o st parent k : W o st -> add_child_loop (S (ps_next st)) o st parent k <> OutOfFuel.
Proof.
  intro V. destruct (up_lt_next _ _ parent V) as (n & U & L). eapply add_child_loop_fuel_gen; [exact V | exact U | lia].
Qed.

(* ---- the callers that contain nothing else that runs on fuel *)
Theorem add_child_gen_fuel o st parent v col post kids : W o st -> add_child_gen o st parent v col post kids <> OutOfFuel.
Proof.
  intro V. unfold add_child_gen. apply bind_fuel; [now apply add_child_loop_fuel|]. intros [p' s1] _.
  destruct (Nat.eqb col 0); [discriminate|]. apply bind_fuel; [apply nf_ne, nf_append_child | intros; discriminate].
Qed.

Theorem add_child_fuel o st parent v col : W o st -> add_child o st parent v col <> OutOfFuel.
Proof. apply add_child_gen_fuel. Qed.

Theorem finalize_document_fuel o st : W o st -> finalize_document o st <> OutOfFuel.
Proof.
  intro V. unfold finalize_document. apply bind_fuel; [now apply finalize_up_to_fuel|]. intros s1 _.
  apply bind_fuel; [apply finalize_fuel | intros; discriminate].
Qed.
