(* Proofs/InlinesTotal4Re.v — C01, inline phase, fourth wave: the LAST byte of what a re2c scanner matches.

     re_last p r            executable: every non-empty string the expression r matches ends with a byte of p
     matches_last           soundness
     scan_last              a block of plain rules with action `return Some(cursor)` whose expressions satisfy
                            re_last p and match no empty string answers a length m >= 1 with byte m - 1 in p
     instances              scan_autolink_uri, scan_autolink_email, scan_html_tag, scan_html_comment: the match
                            ends with `>` (by vm_compute on the regular expressions re2c was given)
   No axioms. *)
From Coq Require Import List NArith Arith Bool Lia.
From V Require Import Base.Bytes Base.Regex Base.Re2c Gen.ScannersRe Model.Scan Proofs.RegexProofs Proofs.ScanProofs
     Proofs.InlinesTotal2Scan.
Import ListNotations.
Local Open Scope list_scope.

Fixpoint re_last (p : byte -> bool) (r : re) : bool :=
  match r with
  | Empty | Eps => true
  | Chr cs => forallb (fun b => implb (cs_mem cs b) (p b)) all_bytes
  | Cat a b => re_last p b && (negb (nullable b) || re_last p a)
  | Alt a b => re_last p a && re_last p b
  | Star a => re_last p a
  end.

Definition ends_in (p : byte -> bool) (s : bytes) : Prop := forall s' c, s = s' ++ [c] -> p c = true.

Lemma ends_in_nil p : ends_in p [].
Proof. intros s' c H. destruct s'; discriminate H. Qed.

Lemma ends_in_app p s t : ends_in p t -> (t = [] -> ends_in p s) -> ends_in p (s ++ t).
Proof.
  intros Ht Hs s' c H. destruct t as [|x t] using rev_ind.
  - rewrite app_nil_r in H. eapply Hs; [reflexivity|exact H].
  - rewrite app_assoc in H. apply app_inj_tail in H. destruct H as [_ ->]. eapply Ht. reflexivity.
Qed.

Lemma matches_last p r s : matches r s -> re_last p r = true -> ends_in p s.
Proof.
  induction 1; cbn [re_last]; intro R.
  - apply ends_in_nil.
  - intros s' c H0. destruct s' as [|x [|y s']]; try discriminate H0. inversion H0; subst c.
    exact (forall_bytes_impl _ _ R b H).
  - apply andb_true_iff in R as [R1 R2]. apply ends_in_app; [auto|].
    intros ->. apply orb_true_iff in R2 as [R2|R2]; [|auto].
    apply negb_true_iff in R2. apply nullable_spec in H0. congruence.
  - apply andb_true_iff in R as [R1 R2]. auto.
  - apply andb_true_iff in R as [R1 R2]. auto.
  - apply ends_in_nil.
  - apply ends_in_app; [auto|]. intros _. auto.
Qed.

Definition plain_cursor_last (p : byte -> bool) (x : rule) : bool :=
  match x with RPlain r ActCursor => re_last p r && Nat.leb 1 (minlen r) | _ => false end.

Lemma scan_last p rules s m :
  forallb (plain_cursor_last p) rules = true ->
  as_opt_usize (run_rules rules ActNone 0 s) = Some m ->
  1 <= m /\ m <= List.length s /\ exists c, nth_error s (m - 1) = Some c /\ p c = true.
Proof.
  intros Hp H.
  assert (forallb is_plain rules = true) as Hpl.
  { rewrite forallb_forall in *. intros x Hx. specialize (Hp x Hx). destruct x; [reflexivity|discriminate|discriminate]. }
  destruct (run_rules_plain rules ActNone s Hpl) as [[E _]|(r & a & L & Hin & Hl & E & _)]; rewrite E in H.
  - discriminate H.
  - rewrite forallb_forall in Hp. specialize (Hp _ Hin). cbn [plain_cursor_last] in Hp.
    destruct a; try discriminate Hp. apply andb_true_iff in Hp as [Hp1 Hp2]. apply Nat.leb_le in Hp2.
    cbn in H. inversion H; subst m.
    apply longest_match_spec in Hl. destruct Hl as (A & B & _).
    pose proof (minlen_sound _ _ B) as Hm. rewrite firstn_length in Hm.
    pose proof (matches_last p _ _ B Hp1) as Hl.
    split; [lia|]. split; [exact A|].
    destruct (nth_error s (L - 1)) as [c|] eqn:En.
    + exists c. split; [reflexivity|]. apply (Hl (firstn (L - 1) s) c).
      replace L with (S (L - 1)) at 1 by lia.
      clear - En. revert s En. generalize (L - 1) as k. induction k as [|k IH]; intros [|x s] En; cbn in En; try discriminate.
      * inversion En; subst. reflexivity.
      * cbn [firstn]. cbn [firstn] in IH. rewrite (IH s En). reflexivity.
    + apply nth_error_None in En. lia.
Qed.

Definition is_gt (b : byte) : bool := beqb b x3e.

Lemma scan_autolink_uri_last s m : scan_autolink_uri s = Some m ->
  1 <= m /\ m <= List.length s /\ exists c, nth_error s (m - 1) = Some c /\ is_gt c = true.
Proof. apply (scan_last is_gt). vm_compute. reflexivity. Qed.
Lemma scan_autolink_email_last s m : scan_autolink_email s = Some m ->
  1 <= m /\ m <= List.length s /\ exists c, nth_error s (m - 1) = Some c /\ is_gt c = true.
Proof. apply (scan_last is_gt). vm_compute. reflexivity. Qed.
Lemma scan_html_tag_last s m : scan_html_tag s = Some m ->
  1 <= m /\ m <= List.length s /\ exists c, nth_error s (m - 1) = Some c /\ is_gt c = true.
Proof. apply (scan_last is_gt). vm_compute. reflexivity. Qed.
Lemma scan_html_comment_last s m : scan_html_comment s = Some m ->
  1 <= m /\ m <= List.length s /\ exists c, nth_error s (m - 1) = Some c /\ is_gt c = true.
Proof. apply (scan_last is_gt). vm_compute. reflexivity. Qed.
