(* Proofs/InertParseFeatures.v -- property C13 on the whole parser model, per feature of Spec/Triggers.v.

   parse_inert_statement F :  for every option record o, oracle u and document x without the head bytes of F's trigger
                              strings, whenever the parser with F enabled answers Ok t, the parser with F disabled
                              answers Ok t (the same tree).
   Proved here
     - with EQUALITY of the two runs (panics included) for the features read by the inline phase only:
       strikethrough, subscript, superscript, underline, math_dollars, math_code, the two wikilinks switches, smart
       (parse_inline_feature_inert): the block phase does not read the switch, every leaf content is free of the head
       bytes (Proofs/InertParseContent.v), the inline parser is inert on such a content (Proofs/InertFeatures.v), the
       footnote pass and the text post-pass do not read the switch (Proofs/InertParse.v);
     - in the okle form for alerts, multiline block quotes, table (and description lists when the tilde is excluded as
       well): Proofs/InertParse.v;
     - trivially for tagfilter and header_ids (the parser has no such switch).
   Refuted here on the whole parser (witnesses computed on the model; the classes are the known findings C13-a, C13-b,
   C13-f): greentext, description lists with the documented trigger only, autolink, tasklist, relaxed_tasklist_matching,
   relaxed_autolinks.
   Open: footnotes, spoiler, front matter (see the comment above parse_inert_open).
   Then the HTML corollary: the renderer is a function of the tree and of ITS option record. *)
From Coq Require Import List NArith Arith Bool Lia Strings.String.
From V Require Import Base.Bytes Base.Res Model.Ast Model.Strings Model.RefDef Model.Blocks Model.Inlines Model.Footnotes
  Model.Parse Model.Html Proofs.InertRegex Proofs.InertBlocks Proofs.InertInlines Proofs.InertFeatures
  Proofs.InertParse Proofs.InertParseContent Spec.Triggers.
Import ListNotations.
Local Open Scope string_scope.
Local Open Scope list_scope.

(* ================================================================== the statement *)
Definition parse_inert_statement (F : feature) : Prop :=
  forall o u x t, free_of_heads F x = true ->
    parse_document_model (po_with F true o) u x = Ok t -> parse_document_model (po_with F false o) u x = Ok t.

Definition parse_inert_full_statement : Prop := forall F, parse_inert_statement F.

(* the stronger form: the two runs are equal, also when they panic *)
Definition parse_inert_eq_statement (F : feature) : Prop :=
  forall o u x, free_of_heads F x = true ->
    parse_document_model (po_with F true o) u x = parse_document_model (po_with F false o) u x.

Lemma parse_inert_eq_okle F : parse_inert_eq_statement F -> parse_inert_statement F.
Proof. intros H o u x t Hf E. rewrite <- (H o u x Hf). exact E. Qed.

(* ================================================================== leaf contents are free of the head bytes *)
Lemma heads_inserted_ok F : inserted_ok (fun b => negb (T_of F b)).
Proof. destruct F; vm_compute; repeat split; reflexivity. Qed.

Theorem leaf_free_of_heads F o x r p i :
  free_of_heads F x = true -> parse_blocks o x = Ok r -> In (p, i) (bleaves [] (br_root r)) ->
  free_of_heads F (bi_content i) = true.
Proof.
  intros Hx H Hin.
  exact (parse_blocks_leaf_contents (fun b => negb (T_of F b)) o x r p i (heads_inserted_ok F) Hx H Hin).
Qed.

(* ================================================================== the inline parser on one leaf *)
Lemma free_of_heads_sub F l l' : (forall b, In b l' -> In b l) -> free_of_heads F l = true -> free_of_heads F l' = true.
Proof. unfold free_of_heads. intros S H. rewrite forallb_forall in *. intros b Hb. apply H, S, Hb. Qed.

Theorem run_inlines_gen_inert F io u c lo sl refmap maxref rs :
  free_of_heads F c = true ->
  run_inlines_gen true (io_with F true io) u c lo sl refmap maxref rs
  = run_inlines_gen true (io_with F false io) u c lo sl refmap maxref rs.
Proof.
  intro H. unfold run_inlines_gen. cbv zeta. destruct (has_nul (rtrim_slice c)); [reflexivity |].
  rewrite (inline_inert F true io u (rtrim_slice c) lo sl refmap maxref rs); [reflexivity |].
  revert H. apply free_of_heads_sub. intro b. apply rtrim_slice_In.
Qed.

(* ================================================================== the features read by the inline phase only *)
Definition inline_only (F : feature) : bool :=
  match F with
  | Triggers.Strikethrough | Triggers.Subscript | Triggers.Superscript | Triggers.Underline | Triggers.MathDollars
  | Triggers.MathCode | Triggers.WikilinksAfterPipe | Triggers.WikilinksBeforePipe | Triggers.Smart => true
  | _ => false
  end.

(* neither the footnote pass nor the text post-pass reads these switches *)
Lemma inline_only_footnotes F v v' o : inline_only F = true -> po_footnotes (po_with F v o) = po_footnotes (po_with F v' o).
Proof. destruct F; intro H; try discriminate H; reflexivity. Qed.

Lemma inline_only_post F v v' o :
  inline_only F = true -> post_agree (iopts_of (po_with F v o)) (iopts_of (po_with F v' o)).
Proof. destruct F; intro H; try discriminate H; constructor; reflexivity. Qed.

Lemma inline_only_blind F : inline_only F = true -> block_blind F = true.
Proof. destruct F; intro H; try discriminate H; reflexivity. Qed.

Theorem parse_inline_feature_inert F : inline_only F = true -> parse_inert_eq_statement F.
Proof.
  intros HF o u x Hx. apply parse_compose_eq.
  - apply bopts_of_blind. apply inline_only_blind. exact HF.
  - intros r Hr. apply after_blocks_ext.
    + intros p i Hin rs. rewrite !iopts_of_with. apply run_inlines_gen_inert.
      eapply leaf_free_of_heads; eassumption.
    + intros t1 _. apply footnote_phase_same. apply inline_only_footnotes. exact HF.
    + apply inline_only_post. exact HF.
Qed.

(* ================================================================== what is proved, in one statement *)
Definition parse_inert_proved (F : feature) : bool :=
  inline_only F ||
  match F with
  | Triggers.Alerts | Triggers.MultilineBlockQuotes | Triggers.Table | Triggers.Tagfilter | Triggers.HeaderIds => true
  | _ => false
  end.

Theorem parse_inert_partial : forall F, parse_inert_proved F = true -> parse_inert_statement F.
Proof.
  intros F HF. destruct (inline_only F) eqn:I.
  { apply parse_inert_eq_okle. apply parse_inline_feature_inert. exact I. }
  destruct F; try discriminate HF; try discriminate I; intros o u x t Hx E.
  - rewrite <- (parse_render_only_inert Triggers.Tagfilter true false o u x (or_introl eq_refl)). exact E.
  - exact (parse_table_inert o u x Hx t E).
  - rewrite <- (parse_render_only_inert Triggers.HeaderIds true false o u x (or_intror eq_refl)). exact E.
  - exact (parse_multiline_block_quotes_inert o u x Hx t E).
  - exact (parse_alerts_inert o u x Hx t E).
Qed.

(* ================================================================== refutations on the whole parser *)
Definition u_id : oracle := mkOracle (fun _ => false) (fun _ => false) (fun v => v).
Definition po_none : popts :=
  mkPO false false false false false false false false None None
       false false false false false false false false false false false false false false false.

Fixpoint nkinds (n : node) : list kind := match n with Node v _ ch => kind_of v :: flat_map nkinds ch end.

(* a witness against parse_inert_statement F: a document free of the head bytes on which both runs succeed with
   different trees *)
Definition parse_witness (F : feature) (o : popts) (d : bytes) : Prop :=
  free_of_heads F d = true /\
  exists t1 t2, parse_document_model (po_with F true o) u_id d = Ok t1 /\
                parse_document_model (po_with F false o) u_id d = Ok t2 /\ nkinds t1 <> nkinds t2.

Lemma parse_witness_refutes F o d : parse_witness F o d -> ~ parse_inert_statement F.
Proof.
  intros (Hf & t1 & t2 & E1 & E2 & D) H. specialize (H o u_id d t1 Hf E1). rewrite E2 in H.
  inversion H; subst. apply D. reflexivity.
Qed.

Definition tasklist_witness : bytes := Eval compute in B "- &#91;x] a".
Definition relaxed_tasklist_witness : bytes := Eval compute in B "- &#91;~] a".
Definition relaxed_autolinks_witness : bytes := Eval compute in B "&#91;a&#64;b.co".

Ltac witness := split; [vm_compute; reflexivity | eexists; eexists; split; [vm_compute; reflexivity |
                  split; [vm_compute; reflexivity | vm_compute; let K := fresh "K" in intro K; discriminate K]]].

(* known class C13-a: add_text_to_container reads greentext without looking at the line *)
Theorem parse_greentext_refuted : ~ parse_inert_statement Triggers.Greentext.
Proof. apply (parse_witness_refutes _ (po_with Triggers.Footnotes true po_none) doc_fn_lazy). witness. Qed.

(* known class C13-b: the scanner of description items accepts a tilde *)
Theorem parse_description_lists_refuted : ~ parse_inert_statement Triggers.DescriptionLists.
Proof. apply (parse_witness_refutes _ po_none doc_tilde). witness. Qed.

(* known class C13-f: the text post-pass works on decoded text *)
Theorem parse_autolink_refuted : ~ parse_inert_statement Triggers.Autolink.
Proof. apply (parse_witness_refutes _ po_none at_witness). witness. Qed.

Theorem parse_tasklist_refuted : ~ parse_inert_statement Triggers.Tasklist.
Proof. apply (parse_witness_refutes _ po_none tasklist_witness). witness. Qed.

Theorem parse_relaxed_tasklist_refuted : ~ parse_inert_statement Triggers.RelaxedTasklist.
Proof. apply (parse_witness_refutes _ (po_with Triggers.Tasklist true po_none) relaxed_tasklist_witness). witness. Qed.

Theorem parse_relaxed_autolinks_refuted : ~ parse_inert_statement Triggers.RelaxedAutolinks.
Proof. apply (parse_witness_refutes _ (po_with Triggers.Autolink true po_none) relaxed_autolinks_witness). witness. Qed.

Theorem parse_inert_full_refuted : ~ parse_inert_full_statement.
Proof. intro H. exact (parse_greentext_refuted (H Triggers.Greentext)). Qed.

(* OPEN (neither proved nor refuted on the whole parser):
     footnotes      block phase okle: Proofs/InertBlocks.footnotes_blocks_inert; leaves free of the left bracket:
                    leaf_free_of_heads; inline phase per leaf: run_inlines_gen_inert.  Missing: the footnote pass
                    (Footnotes.process, run iff the switch is on) is the identity on a tree without FootnoteDefinition
                    (have: ParserShapeBlocksRead.nall_nofn) and without FootnoteReference (NOT available: needs the
                    invariant `no FootnoteReference among the siblings` through parse_inline / process_emphasis for
                    io_footnotes = false, a copy of Proofs/ParserShapeInl.v with another node predicate).
     spoiler        inline phase: run_inlines_gen_inert.  Missing: the block phase reads bo_spoiler in table.rs `row`
                    (check_container for a Table, try_opening_header after scan_table_start, try_opening_row); no
                    block theorem yet (Props/C13.v GAP 4).
     front matter   block_only; missing: the block phase with the delimiter set on a document without hyphen
                    (split_off_front_matter answers None; the rest of the block phase does not read the field). *)
Definition parse_inert_open (F : feature) : bool :=
  match F with Triggers.Footnotes | Triggers.Spoiler | Triggers.FrontMatter => true | _ => false end.

(* every feature is in exactly one of the three lists (description lists: refuted as stated, proved with the tilde
   excluded: InertParse.parse_description_lists_inert) *)
Definition parse_inert_refuted (F : feature) : bool :=
  match F with
  | Triggers.Greentext | Triggers.DescriptionLists | Triggers.Autolink | Triggers.Tasklist | Triggers.RelaxedTasklist
  | Triggers.RelaxedAutolinks => true
  | _ => false
  end.

Lemma parse_inert_status_complete : forall F,
  match parse_inert_proved F, parse_inert_refuted F, parse_inert_open F with
  | true, false, false | false, true, false | false, false, true => True
  | _, _, _ => False
  end.
Proof. destruct F; exact I. Qed.

Theorem parse_inert_refuted_sound : forall F, parse_inert_refuted F = true -> ~ parse_inert_statement F.
Proof.
  destruct F; intro H; try discriminate H.
  - exact parse_autolink_refuted. - exact parse_tasklist_refuted. - exact parse_description_lists_refuted.
  - exact parse_greentext_refuted. - exact parse_relaxed_tasklist_refuted. - exact parse_relaxed_autolinks_refuted.
Qed.

(* ================================================================== HTML
   Model/Html.v: `html slug ro t` is a function of the tree, of the slug function and of the renderer's own option
   record `ro : opts` (Model/Ast.v).  That record has NO field for strikethrough, subscript, superscript, underline,
   math_dollars, math_code, smart, alerts, multiline_block_quotes, description_lists, table, spoiler, greentext,
   autolink, tasklist: for these features holding `ro` fixed is the complete statement.  It has the fields
   o_wikilinks_after / o_wikilinks_before / o_footnotes, which Model/Html.v never reads (the CommonMark renderer does).
   It has o_tagfilter, o_header_ids and o_relaxed_autolinks, which the HTML renderer READS (render_link: known class
   C13-e): for these three features the corollary below says nothing about the renderer's own switch. *)
Definition md_html (slug : bytes -> bytes) (ro : opts) (o : popts) (u : oracle) (x : bytes) : res bytes :=
  do t <- parse_document_model o u x; html slug ro t.

Theorem html_inert_eq F slug ro o u x :
  inline_only F = true -> free_of_heads F x = true ->
  md_html slug ro (po_with F true o) u x = md_html slug ro (po_with F false o) u x.
Proof. intros HF Hx. unfold md_html. rewrite (parse_inline_feature_inert F HF o u x Hx). reflexivity. Qed.

Theorem html_inert_okle F slug ro o u x h :
  parse_inert_statement F -> free_of_heads F x = true ->
  md_html slug ro (po_with F true o) u x = Ok h -> md_html slug ro (po_with F false o) u x = Ok h.
Proof.
  intros HF Hx H. unfold md_html in *.
  destruct (parse_document_model (po_with F true o) u x) as [t| |] eqn:E; cbn [bind] in H; try discriminate H.
  rewrite (HF o u x t Hx E). cbn [bind]. exact H.
Qed.

Theorem html_inert_partial F slug ro o u x h :
  parse_inert_proved F = true -> free_of_heads F x = true ->
  md_html slug ro (po_with F true o) u x = Ok h -> md_html slug ro (po_with F false o) u x = Ok h.
Proof. intro HF. apply html_inert_okle. apply parse_inert_partial. exact HF. Qed.

(* ================================================================== non-vacuity *)
Definition strike_doc : bytes := Eval compute in B "> *a* b" ++ [x0a; x0a] ++ B "- c" ++ [x0a].
Definition strike_doc_tilde : bytes := Eval compute in B "~~a~~".

Example parse_inert_nonvacuous :
  (free_of_heads Triggers.Strikethrough strike_doc = true /\
   exists t, parse_document_model (po_with Triggers.Strikethrough true po_none) u_id strike_doc = Ok t /\
             parse_document_model (po_with Triggers.Strikethrough false po_none) u_id strike_doc = Ok t /\
             nkinds t = [KDocument; KBlockQuote; KParagraph; KEmph; KText; KText; KList; KItem; KParagraph; KText]) /\
  (free_of_heads Triggers.Strikethrough strike_doc_tilde = false /\
   res_map nkinds (parse_document_model (po_with Triggers.Strikethrough true po_none) u_id strike_doc_tilde)
   <> res_map nkinds (parse_document_model (po_with Triggers.Strikethrough false po_none) u_id strike_doc_tilde)).
Proof.
  split.
  - split; [vm_compute; reflexivity |]. eexists. split; [vm_compute; reflexivity |]. split; vm_compute; reflexivity.
  - split; [vm_compute; reflexivity |]. vm_compute. intro K. discriminate K.
Qed.

(* ================================================================== the lists, spelled out *)
Lemma inline_only_list : forall F,
  inline_only F = true <->
  In F [Triggers.Strikethrough; Triggers.Subscript; Triggers.Superscript; Triggers.Underline; Triggers.MathDollars;
        Triggers.MathCode; Triggers.WikilinksAfterPipe; Triggers.WikilinksBeforePipe; Triggers.Smart].
Proof.
  intro F. split.
  - destruct F; intro H; try discriminate H; cbn; tauto.
  - intro H. cbn in H. repeat (destruct H as [<- | H]; [reflexivity |]). destruct H.
Qed.

Lemma parse_inert_status_lists :
  filter parse_inert_proved all_features
  = [Triggers.Strikethrough; Triggers.Tagfilter; Triggers.Table; Triggers.Superscript; Triggers.HeaderIds;
     Triggers.MultilineBlockQuotes; Triggers.Alerts; Triggers.MathDollars; Triggers.MathCode;
     Triggers.WikilinksAfterPipe; Triggers.WikilinksBeforePipe; Triggers.Underline; Triggers.Subscript; Triggers.Smart] /\
  filter parse_inert_refuted all_features
  = [Triggers.Autolink; Triggers.Tasklist; Triggers.DescriptionLists; Triggers.Greentext; Triggers.RelaxedTasklist;
     Triggers.RelaxedAutolinks] /\
  filter parse_inert_open all_features = [Triggers.Footnotes; Triggers.FrontMatter; Triggers.Spoiler].
Proof. repeat split; reflexivity. Qed.
